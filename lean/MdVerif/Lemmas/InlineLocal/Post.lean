/-
Child-wise decomposition of the stages after the inline tree processor (prettify, unescape, serializer,
`Post.finish`) over the top-level children of the root `div` (helper lemmas for C08).  Core Lean only.
-/
import MdVerif.Model.TreeProc
import MdVerif.Model.Post
import MdVerif.Model.Serializer
import MdVerif.Model.Pipeline
import MdVerif.Lemmas.PyBasic
import MdVerif.Lemmas.SerializerTree

namespace MdVerif.InlineLocal
open Py TreeProc

/-- the root the block parser produces, with the given top-level children -/
def root (cs : List Node) : Node := { Node.el "div" with children := cs }
/-- shape of a top-level child: block-level tag (a `.name` tag) and no (or blank) tail -/
def blockChild (bl : List Str) (c : Node) : Bool := TreeProc.isBlockLevel bl c.tag && TreeProc.blankOrNone c.tail
/-- everything after the inline stage for a root with children `cs` and an empty HTML stash -/
def render (fmt : Ser.Fmt) (bl : List Str) (cs : List Node) : Pipeline.Outcome :=
  match TreeProc.unescapeTree (TreeProc.prettify (root cs) bl) with
  | none => .err
  | some u =>
    match Post.finish bl [] (Ser.serialize fmt u) with
    | none => .oof
    | some none => .err
    | some (some out) => .ok out

/-! ### 1. prettify -/

theorem prettifyKids_append (bl : List Str) (a b : List Node) :
    prettifyKids bl (a ++ b) = prettifyKids bl a ++ prettifyKids bl b := by
  induction a with
  | nil => simp [prettifyKids]
  | cons c r ih => simp [prettifyKids, ih]

theorem mapKids_append (f : Node → Node) (a b : List Node) :
    mapKids f (a ++ b) = mapKids f a ++ mapKids f b := by
  induction a with
  | nil => simp [mapKids]
  | cons c r ih => simp [mapKids, ih]

/-- `div` is one of the block-level elements (true for the default list) -/
def divBlock (bl : List Str) : Bool := isBlockLevel bl (.name "div".toList)

/-- what `PrettifyTreeprocessor` does to one top-level child -/
def topKid (bl : List Str) (c : Node) : Node :=
  mapTree preRule (mapTree brRule (if divBlock bl && isBlockLevel bl c.tag then prettifyETree bl c else c))

/-- the children of the prettified root -/
def topKids (bl : List Str) (cs : List Node) : List Node :=
  mapKids preRule (mapKids brRule (if divBlock bl then prettifyKids bl cs else cs))

/-- the text of the prettified root -/
def rootText (bl : List Str) (cs : List Node) : Option Str :=
  if divBlock bl && (match cs with | c :: _ => isBlockLevel bl c.tag | [] => false) then some ['\n'] else none

theorem mapKids_eq_map (f : Node → Node) (cs : List Node) : mapKids f cs = cs.map (mapTree f) := by
  induction cs with
  | nil => simp [mapKids]
  | cons c r ih => simp [mapKids, ih]

theorem prettifyKids_eq_map (bl : List Str) (cs : List Node) :
    prettifyKids bl cs = cs.map (fun c => if isBlockLevel bl c.tag then prettifyETree bl c else c) := by
  induction cs with
  | nil => simp [prettifyKids]
  | cons c r ih => simp [prettifyKids, ih]

/-- the top-level children are prettified one by one -/
theorem topKids_eq_map (bl : List Str) (cs : List Node) : topKids bl cs = cs.map (topKid bl) := by
  unfold topKids
  cases h : divBlock bl
  · simp [mapKids_eq_map, topKid, h]
  · simp [mapKids_eq_map, prettifyKids_eq_map, topKid, h]

theorem topKids_append (bl : List Str) (a b : List Node) : topKids bl (a ++ b) = topKids bl a ++ topKids bl b := by
  simp [topKids_eq_map]

theorem brRule_div (n : Node) (h : n.tag = .name "div".toList) : brRule n = n := by
  have : tagIs n "br" = false := by simp only [tagIs, h]; decide
  simp only [brRule, this]; rfl

theorem preRule_div (n : Node) (h : n.tag = .name "div".toList) : preRule n = n := by
  have : tagIs n "pre" = false := by simp only [tagIs, h]; decide
  simp only [preRule, this]; rfl

theorem mapTree_div (f : Node → Node) (hf : ∀ n : Node, n.tag = .name "div".toList → f n = n)
    (a : List (Str × Str)) (t : Option Str) (ta : Bool) (ks : List Node) (tl : Option Str) (tla : Bool) :
    mapTree f ⟨.name "div".toList, a, t, ta, ks, tl, tla⟩ = ⟨.name "div".toList, a, t, ta, mapKids f ks, tl, tla⟩ := by
  simp only [mapTree]; exact hf _ rfl

theorem prettifyETree_root (bl : List Str) (cs : List Node) :
    prettifyETree bl (root cs) =
      ⟨.name "div".toList, [], rootText bl cs, false, if divBlock bl then prettifyKids bl cs else cs,
       some ['\n'], false⟩ := by
  have e1 : (Tag.name "div".toList == Tag.name "code".toList) = false := by decide
  have e2 : (Tag.name "div".toList == Tag.name "pre".toList) = false := by decide
  have e3 : blankOrNone none = true := by decide
  have hd : isBlockLevel bl (.name "div".toList) = divBlock bl := rfl
  simp only [root, Node.el, prettifyETree, e1, e2, e3, rootText, hd]
  cases cs <;> cases divBlock bl <;> simp

/-- the prettified root, explicitly: only its text (first child only) and its children depend on `cs` -/
theorem prettify_root (bl : List Str) (cs : List Node) :
    prettify (root cs) bl =
      ⟨.name "div".toList, [], rootText bl cs, false, topKids bl cs, some ['\n'], false⟩ := by
  rw [prettify, prettifyETree_root, mapTree_div _ brRule_div, mapTree_div _ preRule_div, topKids]

/-- **1.** the children of the prettified root are the prettified children, list-wise -/
theorem prettify_root_children (bl : List Str) (cs1 cs2 : List Node) :
    (prettify (root (cs1 ++ cs2)) bl).children =
      (prettify (root cs1) bl).children ++ (prettify (root cs2) bl).children := by
  simp only [prettify_root, topKids_append]

theorem prettify_root_children_map (bl : List Str) (cs : List Node) :
    (prettify (root cs) bl).children = cs.map (topKid bl) := by
  simp only [prettify_root, topKids_eq_map]

theorem prettify_root_tag (bl : List Str) (cs : List Node) : (prettify (root cs) bl).tag = .name "div".toList := by
  rw [prettify_root]
theorem prettify_root_attrs (bl : List Str) (cs : List Node) : (prettify (root cs) bl).attrs = [] := by
  rw [prettify_root]
theorem prettify_root_tail (bl : List Str) (cs : List Node) : (prettify (root cs) bl).tail = some ['\n'] := by
  rw [prettify_root]
theorem prettify_root_text (bl : List Str) (cs : List Node) : (prettify (root cs) bl).text = rootText bl cs := by
  rw [prettify_root]
theorem rootText_cases (bl : List Str) (cs : List Node) : rootText bl cs = none ∨ rootText bl cs = some ['\n'] := by
  unfold rootText
  generalize (divBlock bl && match cs with | c :: _ => isBlockLevel bl c.tag | [] => false) = b
  cases b <;> simp
theorem rootText_append (bl : List Str) (c : Node) (cs1 cs2 : List Node) :
    rootText bl (c :: cs1 ++ cs2) = rootText bl (c :: cs1) := rfl

/-! what the three prettify passes keep of a node -/

/-- `m` has the tag of `n`, keeps a tail `"\n"`, and stays without text and children -/
def Keeps (n m : Node) : Prop :=
  m.tag = n.tag ∧ (n.tail = some ['\n'] → m.tail = some ['\n']) ∧
    (Node.truthy n.text = false → n.children = [] → Node.truthy m.text = false ∧ m.children = [])

theorem Keeps.refl (n : Node) : Keeps n n := ⟨rfl, id, fun h1 h2 => ⟨h1, h2⟩⟩

theorem Keeps.trans {a b c : Node} (h1 : Keeps a b) (h2 : Keeps b c) : Keeps a c := by
  obtain ⟨t1, l1, v1⟩ := h1
  obtain ⟨t2, l2, v2⟩ := h2
  refine ⟨t2.trans t1, fun h => l2 (l1 h), fun ha hb => ?_⟩
  obtain ⟨x, y⟩ := v1 ha hb
  exact v2 x y

theorem mapTree_eq (f : Node → Node) (n : Node) :
    mapTree f n = f { n with children := mapKids f n.children } := by
  cases n; simp only [mapTree]

theorem keeps_mapTree (f : Node → Node) (hf : ∀ m, Keeps m (f m)) (n : Node) : Keeps n (mapTree f n) := by
  rw [mapTree_eq]
  refine Keeps.trans (b := { n with children := mapKids f n.children }) ⟨rfl, id, fun h1 h2 => ⟨h1, ?_⟩⟩ (hf _)
  simp only [h2, mapKids]

theorem keeps_brRule (n : Node) : Keeps n (brRule n) := by
  unfold brRule
  split
  · split
    · exact ⟨rfl, fun _ => rfl, fun h1 h2 => ⟨h1, h2⟩⟩
    · rename_i hb
      refine ⟨rfl, fun h => ?_, fun h1 h2 => ⟨h1, h2⟩⟩
      rw [h] at hb; exact absurd (by decide) hb
  · exact Keeps.refl n

theorem keeps_preRule (n : Node) : Keeps n (preRule n) := by
  unfold preRule
  split
  · split
    · split
      · split
        · refine ⟨rfl, id, fun h1 h2 => ?_⟩
          simp_all
        · exact Keeps.refl n
      · exact Keeps.refl n
    · exact Keeps.refl n
  · exact Keeps.refl n

theorem keeps_prettifyETree (bl : List Str) (n : Node) : Keeps n (prettifyETree bl n) := by
  obtain ⟨tag, attrs, text, ta, children, tail, tla⟩ := n
  simp only [prettifyETree]
  refine ⟨rfl, fun h => ?_, fun h1 h2 => ?_⟩
  · simp only at h; subst h
    simp only [show blankOrNone (some ['\n']) = true by decide, if_true]
  · simp only at h1 h2; subst h2
    simp [h1, prettifyKids]

theorem prettifyETree_tail (bl : List Str) (n : Node) (h : blankOrNone n.tail = true) :
    (prettifyETree bl n).tail = some ['\n'] := by
  obtain ⟨tag, attrs, text, ta, children, tail, tla⟩ := n
  simp only at h
  simp only [prettifyETree, h, if_true]

/-- a top-level child keeps its tag through prettify, and stays without text and children -/
theorem keeps_topKid (bl : List Str) (c : Node) : Keeps c (topKid bl c) := by
  unfold topKid
  refine Keeps.trans ?_ (Keeps.trans (keeps_mapTree _ keeps_brRule _) (keeps_mapTree _ keeps_preRule _))
  split
  · exact keeps_prettifyETree bl c
  · exact Keeps.refl c

/-- **1.** every top-level child that is block-level with a blank (or no) tail gets the tail `"\n"`, provided the
    root tag `div` is itself in the block-level list -/
theorem topKid_tail (bl : List Str) (c : Node) (hd : divBlock bl = true) (hc : blockChild bl c = true) :
    (topKid bl c).tail = some ['\n'] := by
  simp only [blockChild, Bool.and_eq_true] at hc
  unfold topKid
  refine (Keeps.trans (keeps_mapTree _ keeps_brRule _) (keeps_mapTree _ keeps_preRule _)).2.1 ?_
  simp only [hd, hc.1, Bool.and_self, if_true]
  exact prettifyETree_tail bl c hc.2

theorem prettify_root_child_tail (bl : List Str) (cs : List Node) (hd : divBlock bl = true)
    (hcs : ∀ c ∈ cs, blockChild bl c = true) :
    ∀ k ∈ (prettify (root cs) bl).children, k.tail = some ['\n'] := by
  intro k hk
  rw [prettify_root_children_map, List.mem_map] at hk
  obtain ⟨c, hc, rfl⟩ := hk
  exact topKid_tail bl c hd (hcs c hc)

/-! ### 2. unescape -/

/-- **2.** `unescapeKids` works child by child: it fails iff it fails on one of the two parts -/
theorem unescapeKids_append (a b : List Node) :
    unescapeKids (a ++ b) =
      match unescapeKids a, unescapeKids b with
      | some x, some y => some (x ++ y)
      | _, _ => none := by
  induction a with
  | nil => simp only [List.nil_append, unescapeKids]; cases unescapeKids b <;> rfl
  | cons c r ih =>
    simp only [List.cons_append, unescapeKids, ih]
    cases unescapeTree c <;> cases unescapeKids r <;> cases unescapeKids b <;> rfl

theorem unescapeKids_isSome_append (a b : List Node) :
    (unescapeKids (a ++ b)).isSome = ((unescapeKids a).isSome && (unescapeKids b).isSome) := by
  rw [unescapeKids_append]
  cases unescapeKids a <;> cases unescapeKids b <;> rfl

/-- the node itself and its children are unescaped independently -/
theorem unescapeTree_eq (tag : Tag) (attrs : List (Str × Str)) (text : Option Str) (ta : Bool) (ks : List Node)
    (tail : Option Str) (tla : Bool) :
    unescapeTree ⟨tag, attrs, text, ta, ks, tail, tla⟩ =
      match unescapeTree ⟨tag, attrs, text, ta, [], tail, tla⟩, unescapeKids ks with
      | some u, some us => some { u with children := us }
      | _, _ => none := by
  simp only [unescapeTree, unescapeKids]
  generalize (if (Node.truthy text && !(tag == .name "code".toList)) = true
    then Option.map some (unescapeText 0 (text.getD [])) else some text) = T
  generalize (if Node.truthy tail = true then Option.map some (unescapeText 0 (tail.getD [])) else some tail) = L
  cases T <;> cases L <;> cases unescAttrs attrs <;> cases unescapeKids ks <;> rfl

/-- **2.** a node with children `ks1 ++ ks2` is unescaped iff the same node with children `ks1` and with children
    `ks2` are, and then the children are the concatenation (everything else does not depend on the children) -/
theorem unescape_root_children (tag : Tag) (attrs : List (Str × Str)) (text : Option Str) (ta : Bool)
    (ks1 ks2 : List Node) (tail : Option Str) (tla : Bool) :
    unescapeTree ⟨tag, attrs, text, ta, ks1 ++ ks2, tail, tla⟩ =
      match unescapeTree ⟨tag, attrs, text, ta, ks1, tail, tla⟩, unescapeTree ⟨tag, attrs, text, ta, ks2, tail, tla⟩ with
      | some u1, some u2 => some { u1 with children := u1.children ++ u2.children }
      | _, _ => none := by
  rw [unescapeTree_eq, unescapeTree_eq (ks := ks1), unescapeTree_eq (ks := ks2), unescapeKids_append]
  cases unescapeTree ⟨tag, attrs, text, ta, [], tail, tla⟩ <;> cases unescapeKids ks1 <;> cases unescapeKids ks2 <;> rfl

theorem unescape_root_children_isSome (tag : Tag) (attrs : List (Str × Str)) (text : Option Str) (ta : Bool)
    (ks1 ks2 : List Node) (tail : Option Str) (tla : Bool) :
    (unescapeTree ⟨tag, attrs, text, ta, ks1 ++ ks2, tail, tla⟩).isSome =
      ((unescapeTree ⟨tag, attrs, text, ta, ks1, tail, tla⟩).isSome &&
       (unescapeTree ⟨tag, attrs, text, ta, ks2, tail, tla⟩).isSome) := by
  rw [unescape_root_children]
  cases unescapeTree ⟨tag, attrs, text, ta, ks1, tail, tla⟩ <;>
    cases unescapeTree ⟨tag, attrs, text, ta, ks2, tail, tla⟩ <;> rfl

/-- the unescaped prettified root: only the children can fail -/
theorem unescape_prettify_root (bl : List Str) (cs : List Node) :
    unescapeTree (prettify (root cs) bl) =
      (unescapeKids (topKids bl cs)).map
        (fun us => ⟨.name "div".toList, [], rootText bl cs, false, us, some ['\n'], false⟩) := by
  rw [prettify_root, unescapeTree_eq]
  have h : unescapeTree ⟨.name "div".toList, [], rootText bl cs, false, [], some ['\n'], false⟩ =
      some ⟨.name "div".toList, [], rootText bl cs, false, [], some ['\n'], false⟩ := by
    rcases rootText_cases bl cs with h | h <;> rw [h] <;> rfl
  rw [h]
  cases unescapeKids (topKids bl cs) <;> rfl

/-- unescaping keeps the tag, a tail `"\n"`, and the absence of text and children -/
theorem keeps_unescapeTree {n u : Node} (h : unescapeTree n = some u) : Keeps n u := by
  obtain ⟨tag, attrs, text, ta, ks, tail, tla⟩ := n
  simp only [unescapeTree] at h
  split at h
  · rename_i t tl a us h1 h2 h3 h4
    cases h
    refine ⟨rfl, fun ht => ?_, fun ht hk => ?_⟩
    · simp only at ht; subst ht
      simp only [show Node.truthy (some ['\n']) = true by decide, if_true,
        show (some ['\n'] : Option Str).getD [] = ['\n'] by rfl,
        show unescapeText 0 ['\n'] = some ['\n'] by decide, Option.map_some, Option.some.injEq] at h2
      exact h2.symm
    · simp only at ht hk; subst hk
      simp only [ht, Bool.false_and, Bool.false_eq_true, if_false, Option.some.injEq] at h1
      simp only [unescapeKids, Option.some.injEq] at h4
      subst h1; subst h4
      exact ⟨ht, rfl⟩
  · cases h

theorem keeps_unescapeKids {ks us : List Node} (h : unescapeKids ks = some us) :
    ∀ u ∈ us, ∃ k ∈ ks, Keeps k u := by
  induction ks generalizing us with
  | nil => simp only [unescapeKids, Option.some.injEq] at h; subst h; simp
  | cons c r ih =>
    simp only [unescapeKids] at h
    split at h
    · rename_i c' r' h1 h2
      cases h
      intro u hu
      rcases List.mem_cons.1 hu with rfl | hu
      · exact ⟨c, List.mem_cons_self, keeps_unescapeTree h1⟩
      · obtain ⟨k, hk, hku⟩ := ih h2 u hu
        exact ⟨k, List.mem_cons_of_mem _ hk, hku⟩
    · cases h

/-! ### 3. serializer -/

/-- **3.** the serializer writes the children one after the other -/
theorem serializeList_append (fmt : Ser.Fmt) (ks1 ks2 : List Node) :
    Ser.serializeList fmt (ks1 ++ ks2) = Ser.serializeList fmt ks1 ++ Ser.serializeList fmt ks2 := by
  induction ks1 with
  | nil => simp [Ser.serializeList]
  | cons c r ih => simp [Ser.serializeList, ih]

/-- **3.** the serialized root `div` (no attributes, text `none` or `"\n"`, tail `"\n"`) -/
theorem serialize_root (fmt : Ser.Fmt) (text : Option Str) (ta : Bool) (ks : List Node) (tla : Bool)
    (ht : text = none ∨ text = some ['\n']) :
    Ser.serialize fmt ⟨.name "div".toList, [], text, ta, ks, some ['\n'], tla⟩ =
      "<div>".toList ++ text.getD [] ++ Ser.serializeList fmt ks ++ "</div>".toList ++ ['\n'] := by
  simp only [Ser.serialize, Ser.element_none]
  have e1 : Ser.isEmptyTag ['d', 'i', 'v'] = false := by decide
  have e3 : Ser.escCdata ['\n'] = ['\n'] := by decide
  rcases ht with rfl | rfl <;>
    simp [e1, e3, Node.truthy, Ser.writeAttrs, Ser.sortAttrs]

/-! ### general facts about `startsWith`, `find`, `replace` -/

theorem startsWith_append_sep {pat : Str} {c : Char} (hc : c ∉ pat) (s t : Str) :
    startsWith (s ++ c :: t) pat = startsWith s pat := by
  induction s generalizing pat with
  | nil =>
    cases pat with
    | nil => simp
    | cons d p =>
      have : c ≠ d := fun h => hc (by simp [h])
      simp [this]
  | cons a s ih =>
    cases pat with
    | nil => simp
    | cons d p =>
      have : c ∉ p := fun h => hc (List.mem_cons_of_mem _ h)
      simp [ih this]

/-- a character that does not occur in the pattern splits the scan of `str.replace` -/
theorem replaceAux_append_sep {pat : Str} {c : Char} (hp : pat ≠ []) (hc : c ∉ pat) (b s t : Str) (k : Nat)
    (hk : k ≤ s.length) :
    replaceAux pat b k (s ++ c :: t) = replaceAux pat b k s ++ c :: replaceAux pat b 0 t := by
  induction s generalizing k with
  | nil =>
    have hk0 : k = 0 := by simpa using hk
    subst hk0
    have h := startsWith_append_sep hc [] t
    have h2 : startsWith [] pat = false := by cases pat with | nil => exact absurd rfl hp | cons d p => rfl
    rw [h2] at h
    simp only [List.nil_append] at h
    simp [replaceAux_zero_cons, h]
  | cons a s ih =>
    cases k with
    | succ k =>
      simp only [List.cons_append, replaceAux_succ_cons]
      exact ih k (by simpa using hk)
    | zero =>
      have h := startsWith_append_sep hc (a :: s) t
      simp only [List.cons_append] at h
      simp only [List.cons_append, replaceAux_zero_cons, h]
      cases hs : startsWith (a :: s) pat with
      | false => simp [ih 0 (Nat.zero_le _)]
      | true =>
        have := startsWith_length_le hs
        simp only [List.length_cons] at this
        simp [ih (pat.length - 1) (by omega)]

theorem replace_append_sep {pat : Str} {c : Char} (hc : c ∉ pat) (b s t : Str) :
    replace (s ++ c :: t) pat b = replace s pat b ++ c :: replace t pat b := by
  unfold replace
  cases pat with
  | nil => simp
  | cons d p => simpa using replaceAux_append_sep (by simp) hc b s t 0 (Nat.zero_le _)

theorem replace_cons_sep {pat : Str} {c : Char} (hc : c ∉ pat) (b t : Str) :
    replace (c :: t) pat b = c :: replace t pat b := by
  simpa using replace_append_sep hc b [] t

theorem replace_concat_sep {pat : Str} {c : Char} (hc : c ∉ pat) (b s : Str) :
    replace (s ++ [c]) pat b = replace s pat b ++ [c] := by
  simpa using replace_append_sep hc b s []

theorem find_append_self (pat rest : Str) : find pat (pat ++ rest) = some 0 := by
  cases pat with
  | nil => simp
  | cons d p => simp [find_cons]

/-! ### 4. `Post.finish` on the serialized root -/

theorem rawHtml_nil (bl : List Str) (f : Nat) (t : Str) : Post.rawHtml bl [] (f + 1) t = some t := by
  simp [Post.rawHtml]

theorem post_nil (bl : List Str) (t : Str) : Post.post bl [] t = some (Post.ampSub t) := by
  simp [Post.post, Post.rawHtmlFuel, rawHtml_nil]

/-- the first `<div>` is at 0 and the last `</div>` right before the final newline, whatever is in between -/
theorem topLevelStrip_div (M : Str) :
    Post.topLevelStrip ("<div>".toList ++ M ++ "</div>".toList ++ ['\n']) = some (strip M) := by
  have hf : find ('<' :: "div".toList ++ ['>']) ("<div>".toList ++ M ++ "</div>".toList ++ ['\n']) = some 0 := by
    have := find_append_self "<div>".toList (M ++ "</div>".toList ++ ['\n'])
    simpa using this
  have hr : Post.rfind ('<' :: '/' :: "div".toList ++ ['>']) ("<div>".toList ++ M ++ "</div>".toList ++ ['\n'])
      = some (M.length + 5) := by
    unfold Post.rfind
    have e : ("<div>".toList ++ M ++ "</div>".toList ++ ['\n']).reverse =
        '\n' :: (('<' :: '/' :: "div".toList ++ ['>']).reverse ++ (M.reverse ++ "<div>".toList.reverse)) := by simp
    rw [e, find_cons]
    have h1 : startsWith ('\n' :: (('<' :: '/' :: "div".toList ++ ['>']).reverse ++ (M.reverse ++ "<div>".toList.reverse)))
        ('<' :: '/' :: "div".toList ++ ['>']).reverse = false := by simp
    rw [h1, find_append_self]
    simp
  unfold Post.topLevelStrip
  simp only [hf, hr]
  congr 2
  simp only [Post.topLevelStrip.sl]
  have : ("<div>".toList ++ M ++ "</div>".toList ++ ['\n']).take (M.length + 5) = "<div>".toList ++ M := by
    rw [List.append_assoc ("<div>".toList ++ M)]
    exact List.take_left' (by simp)
  rw [this]
  simp

theorem finish_div (bl : List Str) (M : Str) :
    Post.finish bl [] ("<div>".toList ++ M ++ "</div>".toList ++ ['\n']) =
      some (some (strip (Post.ampSub (strip M)))) := by
  rw [Post.finish, topLevelStrip_div]
  simp only [post_nil, Option.map_some]

/-! ### strings of the form `<…>\n` -/

/-- a string that starts with `<` and ends with `>` and a newline (one or more serialized top-level children) -/
def Chunk (s : Str) : Prop := ∃ x, s = '<' :: x ++ ['>', '\n']

theorem chunk_append {a b : Str} (ha : Chunk a) (hb : Chunk b) : Chunk (a ++ b) := by
  obtain ⟨x, rfl⟩ := ha
  obtain ⟨y, rfl⟩ := hb
  exact ⟨x ++ ['>', '\n'] ++ '<' :: y, by simp⟩

theorem strip_lt_gt (x : Str) : strip ('<' :: x ++ ['>']) = '<' :: x ++ ['>'] := by
  apply strip_eq_self
  · intro c hc
    simp only [List.cons_append, List.head?_cons, Option.some.injEq] at hc
    subst hc; decide
  · intro c hc
    rw [show '<' :: x ++ ['>'] = ('<' :: x) ++ ['>'] by rfl, List.getLast?_concat] at hc
    simp only [Option.some.injEq] at hc
    subst hc; decide

theorem ampSub_sep {c : Char} (hc : c ∉ Post.ampSubstitute) (s t : Str) :
    Post.ampSub (s ++ c :: t) = Post.ampSub s ++ c :: Post.ampSub t := replace_append_sep hc _ s t

theorem ampSub_lt_gt (x : Str) : Post.ampSub ('<' :: x ++ ['>']) = '<' :: Post.ampSub x ++ ['>'] := by
  have h1 := ampSub_sep (c := '<') (by decide) [] (x ++ ['>'])
  have h2 := ampSub_sep (c := '>') (by decide) x []
  have h3 : Post.ampSub [] = [] := by simp [Post.ampSub]
  simp only [List.nil_append, h3] at h1 h2
  simp [h1, h2]

/-- what the end of `convert` makes of `<x>\n` -/
theorem fin_chunk (x : Str) :
    strip (Post.ampSub (strip ('<' :: x ++ ['>', '\n']))) = '<' :: Post.ampSub x ++ ['>'] := by
  have h := strip_append_of_blank (a := []) (b := ['\n']) rfl (by decide) ('<' :: x ++ ['>'])
  have e : '<' :: x ++ ['>', '\n'] = [] ++ ('<' :: x ++ ['>']) ++ ['\n'] := by simp
  rw [e, h, strip_lt_gt, ampSub_lt_gt, strip_lt_gt]

/-- **key string fact**: after `<a>\n<b>\n` the end of `convert` yields the two results joined by a newline -/
theorem fin_chunk_append {a b : Str} (ha : Chunk a) (hb : Chunk b) :
    strip (Post.ampSub (strip (a ++ b))) =
      strip (Post.ampSub (strip a)) ++ ['\n'] ++ strip (Post.ampSub (strip b)) := by
  obtain ⟨x, rfl⟩ := ha
  obtain ⟨y, rfl⟩ := hb
  have e : ('<' :: x ++ ['>', '\n']) ++ ('<' :: y ++ ['>', '\n']) =
      '<' :: (x ++ '>' :: '\n' :: '<' :: y) ++ ['>', '\n'] := by simp
  rw [e, fin_chunk, fin_chunk, fin_chunk]
  have h1 := ampSub_sep (c := '>') (by decide) x ('\n' :: '<' :: y)
  have h2 := ampSub_sep (c := '\n') (by decide) [] ('<' :: y)
  have h3 := ampSub_sep (c := '<') (by decide) [] y
  have h0 : Post.ampSub [] = [] := by simp [Post.ampSub]
  simp only [List.nil_append, h0] at h2 h3
  rw [h1, h2, h3]
  simp

theorem fin_chunk_head {a : Str} (ha : Chunk a) :
    ∃ y, strip (Post.ampSub (strip a)) = '<' :: y ++ ['>'] := by
  obtain ⟨x, rfl⟩ := ha
  exact ⟨_, fin_chunk x⟩

/-! ### the serialized top-level children -/

/-- in `html` output a void element (`hr`, `br`, `img`, …) is written without end tag, so its text and children (which
    the block parser never produces) would come last; excluded: see `render_append_void_counterexample` -/
def voidOk (fmt : Ser.Fmt) (c : Node) : Bool :=
  decide (fmt = .xhtml) || !Ser.isEmptyTag c.tagStr || (!Node.truthy c.text && c.children.isEmpty)

/-- shape of a top-level child right before the serializer -/
def Ready (fmt : Ser.Fmt) (u : Node) : Prop :=
  (∃ t, u.tag = .name t) ∧ u.tail = some ['\n'] ∧ voidOk fmt u = true

theorem serialize_ready (fmt : Ser.Fmt) (u : Node) (h : Ready fmt u) : Chunk (Ser.serialize fmt u) := by
  obtain ⟨tag, attrs, text, ta, ks, tail, tla⟩ := u
  obtain ⟨⟨t, ht⟩, hl, hv⟩ := h
  simp only at ht hl
  subst ht; subst hl
  simp only [voidOk, Node.tagStr, Bool.or_eq_true, decide_eq_true_eq, Bool.not_eq_true', Bool.and_eq_true,
    List.isEmpty_iff] at hv
  have e3 : Ser.escCdata ['\n'] = ['\n'] := by decide
  simp only [Ser.serialize, Ser.element_none, show Node.truthy (some ['\n']) = true by decide, if_true,
    show (some ['\n'] : Option Str).getD [] = ['\n'] by rfl, e3]
  generalize Ser.writeAttrs fmt (Ser.sortAttrs attrs) = W
  by_cases he : Ser.isEmptyTag t = true
  · by_cases hx : fmt = .xhtml
    · simp only [hx, he, decide_true, Bool.and_self, if_true]
      exact ⟨t ++ (W ++ " /".toList), by simp⟩
    · have hv' : Node.truthy text = false ∧ ks = [] := by
        rcases hv with (h | h) | h
        · exact absurd h hx
        · rw [he] at h; cases h
        · exact h
      obtain ⟨h1, rfl⟩ := hv'
      simp only [hx, he, decide_false, Bool.false_and, Bool.false_eq_true, if_false, h1, if_true,
        Ser.serializeList]
      exact ⟨t ++ W, by simp⟩
  · simp only [he, Bool.and_false, Bool.false_eq_true, if_false]
    generalize (if Node.truthy text = true then
      if Ser.isRawTextTag t = true then text.getD [] else Ser.escCdata (text.getD []) else []) = TXT
    exact ⟨t ++ (W ++ '>' :: (TXT ++ (Ser.serializeList fmt ks ++ '<' :: '/' :: t))), by simp⟩

theorem unescapeKids_length {ks us : List Node} (h : unescapeKids ks = some us) : us.length = ks.length := by
  induction ks generalizing us with
  | nil => simp only [unescapeKids, Option.some.injEq] at h; subst h; rfl
  | cons c r ih =>
    simp only [unescapeKids] at h
    split at h
    · rename_i c' r' h1 h2
      cases h
      simp [ih h2]
    · cases h

theorem serializeList_ready (fmt : Ser.Fmt) (us : List Node) (hne : us ≠ []) (h : ∀ u ∈ us, Ready fmt u) :
    Chunk (Ser.serializeList fmt us) := by
  induction us with
  | nil => exact absurd rfl hne
  | cons u r ih =>
    have hu := serialize_ready fmt u (h u List.mem_cons_self)
    cases r with
    | nil => simpa [Ser.serializeList] using hu
    | cons v r' =>
      rw [Ser.serializeList]
      exact chunk_append hu (ih (by simp) (fun w hw => h w (List.mem_cons_of_mem _ hw)))

/-- hypothesis on a top-level child handed to `render` -/
def topChild (fmt : Ser.Fmt) (bl : List Str) (c : Node) : Bool := blockChild bl c && voidOk fmt c

theorem isBlockLevel_name {bl : List Str} {tag : Tag} (h : isBlockLevel bl tag = true) : ∃ t, tag = .name t := by
  cases tag <;> simp [isBlockLevel] at h
  exact ⟨_, rfl⟩

theorem voidOk_keeps {fmt : Ser.Fmt} {n m : Node} (hk : Keeps n m) (h : voidOk fmt n = true) : voidOk fmt m = true := by
  obtain ⟨ht, _, hv⟩ := hk
  simp only [voidOk, Node.tagStr, Bool.or_eq_true, decide_eq_true_eq, Bool.not_eq_true', Bool.and_eq_true,
    List.isEmpty_iff] at h ⊢
  rw [ht]
  rcases h with h | h
  · exact Or.inl h
  · exact Or.inr (hv h.1 h.2)

/-- a top-level child is ready for the serializer after prettify and unescape -/
theorem ready_of_topChild {fmt : Ser.Fmt} {bl : List Str} (hd : divBlock bl = true) {c u : Node}
    (hc : topChild fmt bl c = true) (hu : Keeps (topKid bl c) u) : Ready fmt u := by
  simp only [topChild, Bool.and_eq_true] at hc
  have hk := Keeps.trans (keeps_topKid bl c) hu
  have hb := hc.1
  simp only [blockChild, Bool.and_eq_true] at hb
  obtain ⟨t, ht⟩ := isBlockLevel_name hb.1
  exact ⟨⟨t, hk.1.trans ht⟩, hu.2.1 (topKid_tail bl c hd hc.1), voidOk_keeps hk hc.2⟩

theorem ready_unescaped {fmt : Ser.Fmt} {bl : List Str} (hd : divBlock bl = true) {cs us : List Node}
    (hcs : ∀ c ∈ cs, topChild fmt bl c = true) (h : unescapeKids (topKids bl cs) = some us) :
    ∀ u ∈ us, Ready fmt u := by
  intro u hu
  obtain ⟨k, hk, hku⟩ := keeps_unescapeKids h u hu
  rw [topKids_eq_map, List.mem_map] at hk
  obtain ⟨c, hc, rfl⟩ := hk
  exact ready_of_topChild hd (hcs c hc) hku

/-! ### 4. `render` -/

/-- the end of `convert` applied to the serialized children -/
def fin (s : Str) : Str := strip (Post.ampSub (strip s))

/-- `render` in closed form: it fails iff unescaping a top-level child fails (`chr()` out of range); the strip of
    `<div>`…`</div>`, the empty-stash raw-HTML pass never fail -/
theorem render_eq (fmt : Ser.Fmt) (bl : List Str) (cs : List Node) :
    render fmt bl cs =
      match unescapeKids (topKids bl cs) with
      | none => .err
      | some us => .ok (fin (Ser.serializeList fmt us)) := by
  unfold render
  rw [unescape_prettify_root]
  cases unescapeKids (topKids bl cs) with
  | none => rfl
  | some us =>
    simp only [Option.map_some]
    rw [serialize_root fmt _ _ _ _ (rootText_cases bl cs), List.append_assoc "<div>".toList, finish_div]
    simp only [fin]
    have hb : isBlank ((rootText bl cs).getD []) = true := by
      rcases rootText_cases bl cs with h | h <;> rw [h] <;> decide
    have := strip_append_of_blank hb (b := []) rfl (Ser.serializeList fmt us)
    rw [List.append_nil] at this
    rw [this]

/-- `render` never answers `oof` or `ood` -/
theorem render_ok_or_err (fmt : Ser.Fmt) (bl : List Str) (cs : List Node) :
    (∃ o, render fmt bl cs = .ok o) ∨ render fmt bl cs = .err := by
  rw [render_eq]
  cases unescapeKids (topKids bl cs) with
  | none => exact Or.inr rfl
  | some us => exact Or.inl ⟨_, rfl⟩

theorem render_nil (fmt : Ser.Fmt) (bl : List Str) : render fmt bl [] = .ok [] := by
  rw [render_eq, topKids_eq_map]; rfl

theorem render_append_nil (fmt : Ser.Fmt) (bl : List Str) (cs : List Node) :
    render fmt bl (cs ++ []) = render fmt bl cs := by rw [List.append_nil]

theorem render_nil_append (fmt : Ser.Fmt) (bl : List Str) (cs : List Node) :
    render fmt bl ([] ++ cs) = render fmt bl cs := rfl

theorem topKids_ne_nil {bl : List Str} {cs : List Node} (h : cs ≠ []) : topKids bl cs ≠ [] := by
  rw [topKids_eq_map]; simpa using h

theorem unescapeKids_ne_nil {ks us : List Node} (h : unescapeKids ks = some us) (hne : ks ≠ []) : us ≠ [] := by
  have := unescapeKids_length h
  intro hu; subst hu
  exact hne (List.eq_nil_of_length_eq_zero this.symm)

/-- **4.** the stages after the inline processor render the top-level blocks independently: for two non-empty lists
    of top-level children (block-level tag, blank or no tail; a void element in `html` output has no text and no
    children) the output is the two outputs joined by one newline, and it fails iff one of the two does -/
theorem render_append (fmt : Ser.Fmt) (bl : List Str) (cs1 cs2 : List Node) (hd : divBlock bl = true)
    (h1 : ∀ c ∈ cs1, topChild fmt bl c = true) (h2 : ∀ c ∈ cs2, topChild fmt bl c = true)
    (hne1 : cs1 ≠ []) (hne2 : cs2 ≠ []) :
    render fmt bl (cs1 ++ cs2) =
      match render fmt bl cs1, render fmt bl cs2 with
      | .ok o1, .ok o2 => .ok (o1 ++ ['\n'] ++ o2)
      | _, _ => .err := by
  simp only [render_eq, topKids_append, unescapeKids_append]
  cases e1 : unescapeKids (topKids bl cs1) with
  | none => rfl
  | some us1 =>
    cases e2 : unescapeKids (topKids bl cs2) with
    | none => rfl
    | some us2 =>
      simp only [serializeList_append, fin]
      rw [fin_chunk_append]
      · exact serializeList_ready fmt us1 (unescapeKids_ne_nil e1 (topKids_ne_nil hne1)) (ready_unescaped hd h1 e1)
      · exact serializeList_ready fmt us2 (unescapeKids_ne_nil e2 (topKids_ne_nil hne2)) (ready_unescaped hd h2 e2)

/-- the same for all splits, empty parts included: an empty part contributes nothing, not even the newline -/
theorem render_append_total (fmt : Ser.Fmt) (bl : List Str) (cs1 cs2 : List Node) (hd : divBlock bl = true)
    (h1 : ∀ c ∈ cs1, topChild fmt bl c = true) (h2 : ∀ c ∈ cs2, topChild fmt bl c = true) :
    render fmt bl (cs1 ++ cs2) =
      match render fmt bl cs1, render fmt bl cs2 with
      | .ok o1, .ok o2 => .ok (if cs1.isEmpty || cs2.isEmpty then o1 ++ o2 else o1 ++ ['\n'] ++ o2)
      | _, _ => .err := by
  cases cs1 with
  | nil =>
    rcases render_ok_or_err fmt bl cs2 with ⟨o, h⟩ | h <;> simp [render_nil, h]
  | cons a r1 =>
    cases cs2 with
    | nil =>
      rcases render_ok_or_err fmt bl (a :: r1) with ⟨o, h⟩ | h <;> simp [render_nil, h]
    | cons b r2 =>
      rw [render_append fmt bl _ _ hd h1 h2 (by simp) (by simp)]
      rcases render_ok_or_err fmt bl (a :: r1) with ⟨o1, e1⟩ | e1 <;>
        rcases render_ok_or_err fmt bl (b :: r2) with ⟨o2, e2⟩ | e2 <;> simp [e1, e2]

/-- the outputs of the top-level children rendered one at a time; `none` when one of them fails -/
def renderEach (fmt : Ser.Fmt) (bl : List Str) : List Node → Option (List Str)
  | [] => some []
  | c :: r =>
    match render fmt bl [c], renderEach fmt bl r with
    | .ok o, some os => some (o :: os)
    | _, _ => none

theorem renderEach_length {fmt : Ser.Fmt} {bl : List Str} {cs : List Node} {os : List Str}
    (h : renderEach fmt bl cs = some os) : os.length = cs.length := by
  induction cs generalizing os with
  | nil => simp only [renderEach, Option.some.injEq] at h; subst h; rfl
  | cons c r ih =>
    simp only [renderEach] at h
    split at h
    · rename_i o os' h1 h2
      cases h
      simp [ih h2]
    · cases h

/-- **4., n-ary form.** the document is the top-level blocks rendered independently, joined by newlines -/
theorem render_eq_join (fmt : Ser.Fmt) (bl : List Str) (cs : List Node) (hd : divBlock bl = true)
    (h : ∀ c ∈ cs, topChild fmt bl c = true) :
    render fmt bl cs =
      match renderEach fmt bl cs with
      | some os => .ok (join ['\n'] os)
      | none => .err := by
  induction cs with
  | nil => simp [render_nil, renderEach]
  | cons c r ih =>
    have hr : ∀ c ∈ r, topChild fmt bl c = true := fun x hx => h x (List.mem_cons_of_mem _ hx)
    have hc : ∀ x ∈ [c], topChild fmt bl x = true := fun x hx => h x (by simp at hx; simp [hx])
    cases r with
    | nil =>
      simp only [renderEach]
      rcases render_ok_or_err fmt bl [c] with ⟨o, ho⟩ | ho <;> simp [ho]
    | cons d r' =>
      have := render_append fmt bl [c] (d :: r') hd hc hr (by simp) (by simp)
      rw [List.singleton_append] at this
      rw [this, ih hr, renderEach.eq_2 fmt bl c (d :: r')]
      cases e : renderEach fmt bl (d :: r') with
      | none => rcases render_ok_or_err fmt bl [c] with ⟨o, ho⟩ | ho <;> simp [ho]
      | some os =>
        have hl := renderEach_length e
        have hne : os ≠ [] := by intro h0; subst h0; simp at hl
        rcases render_ok_or_err fmt bl [c] with ⟨o, ho⟩ | ho
        · simp [ho, join_cons_of_ne_nil _ _ hne]
        · simp [ho]

/-! ### the hypotheses are satisfiable, and needed -/

private def bl0 : List Str := ["div".toList, "p".toList, "hr".toList]
private def p0 : Node := { Node.el "p" with text := some "a\x02amp\x03b \x0242\x03".toList }
private def hr0 : Node := Node.el "hr"
private def hrT : Node := { Node.el "hr" with text := some "abc ".toList }
private def span0 : Node := { Node.el "span" with text := some "s".toList }
private def pTail : Node := { Node.el "p" with text := some "q".toList, tail := some "t".toList }
private def bad0 : Node := { Node.el "p" with text := some "\x029999999\x03".toList }

/-- the combination the theorem states -/
private def comb (a b : Pipeline.Outcome) : Pipeline.Outcome :=
  match a, b with
  | .ok o1, .ok o2 => .ok (o1 ++ ['\n'] ++ o2)
  | _, _ => .err

example : divBlock defaultBlockLevel = true := by decide +kernel
example : topChild .html defaultBlockLevel p0 = true ∧ topChild .html defaultBlockLevel hr0 = true ∧
    topChild .xhtml defaultBlockLevel hrT = true := by decide +kernel
example : render .html bl0 [p0, hr0] = .ok "<p>a&b *</p>\n<hr>".toList := by decide +kernel
example : render .xhtml bl0 [p0, bad0] = .err := by decide +kernel

private def pre0 : Node := { Node.el "pre" with children := [{ Node.el "code" with text := some "a <b>\n\n".toList }] }
private def ul0 : Node :=
  { Node.el "ul" with children := [{ Node.el "li" with text := some "one".toList },
      { Node.el "li" with children := [p0], tail := some "\n".toList }] }
private def bq0 : Node := { Node.el "blockquote" with children := [p0, ul0], tail := some "  ".toList }
private def h10 : Node := { Node.el "h1" with text := some "head".toList }

example : ([h10, pre0, ul0, bq0, hr0].all fun c =>
    topChild .html defaultBlockLevel c && topChild .xhtml defaultBlockLevel c) = true := by decide +kernel
example : render .xhtml defaultBlockLevel ([h10, pre0, hr0] ++ [ul0, bq0]) =
    .ok ("<h1>head</h1>\n<pre><code>a &lt;b&gt;\n</code></pre>\n<hr />\n" ++
      "<ul>\n<li>one</li>\n<li>\n<p>a&b *</p>\n</li>\n</ul>\n" ++
      "<blockquote>\n<p>a&b *</p>\n<ul>\n<li>one</li>\n<li>\n<p>a&b *</p>\n</li>\n</ul>\n</blockquote>").toList := by
  decide +kernel

/-- a void element with text, `html` output: `<hr>abc ` keeps its trailing blank inside a document and loses it alone -/
example : topChild .html bl0 hrT = false ∧
    render .html bl0 ([hrT] ++ [p0]) ≠ comb (render .html bl0 [hrT]) (render .html bl0 [p0]) := by decide +kernel
/-- a child that is not block-level gets no newline -/
example : topChild .xhtml bl0 span0 = false ∧
    render .xhtml bl0 ([span0] ++ [p0]) ≠ comb (render .xhtml bl0 [span0]) (render .xhtml bl0 [p0]) := by decide +kernel
/-- a child with a non-blank tail gets no newline -/
example : topChild .xhtml bl0 pTail = false ∧
    render .xhtml bl0 ([pTail] ++ [p0]) ≠ comb (render .xhtml bl0 [pTail]) (render .xhtml bl0 [p0]) := by decide +kernel
/-- when `div` is not in the block-level list the children of the root are not prettified at all -/
example : divBlock ["p".toList] = false ∧ topChild .xhtml ["p".toList] p0 = true ∧
    render .xhtml ["p".toList] ([p0] ++ [p0]) ≠
      comb (render .xhtml ["p".toList] [p0]) (render .xhtml ["p".toList] [p0]) := by decide +kernel

end MdVerif.InlineLocal

