/-
C08, inline half — the recognisers of the inline patterns on related texts: same positions (`PW`), and the positions
they return stand next to a delimiter character (so that the text can be cut there, `Sh.cut_before/after`).
-/
import MdVerif.Lemmas.InlineLocal.PW

namespace MdVerif.InlineLocal
open Py Inline

def ORel {α β : Type} (R : α → β → Prop) : Option α → Option β → Prop
  | none, none => True
  | some a, some b => R a b
  | _, _ => False

theorem ORel.cr_beq {o o' : Option Char} (h : ORel cr o o') {x : Char} (hx : isAsciiDigit x = false) :
    (o == some x) = (o' == some x) := by
  match o, o', h with
  | none, none, _ => rfl
  | some c, some c', h =>
    have h : cr c c' := h
    by_cases h1 : c = x
    · rw [h1, (cr_eq_iff h hx).1 h1]
    · have h2 : ¬ c' = x := fun h' => h1 ((cr_eq_iff h hx).2 h')
      have e1 : ¬ some c = some x := fun h => h1 (Option.some.inj h)
      have e2 : ¬ some c' = some x := fun h => h2 (Option.some.inj h)
      rw [beq_eq_false_iff_ne.2 e1, beq_eq_false_iff_ne.2 e2]

theorem PW.getLast {s s' : Str} (h : PW s s') (k : Nat) : ORel cr s[k]? s'[k]? := by
  rcases h.get k with ⟨h1, h2⟩ | ⟨c, c', h1, h2, hc⟩
  · rw [h1, h2]; trivial
  · rw [h1, h2]; exact hc

/-! ### pattern 0: backtick -/

theorem bt_nd : isAsciiDigit '`' = false := by decide
theorem bs_nd : isAsciiDigit '\\' = false := by decide

theorem btClose_pw (m : Nat) {r r' : Str} (h : PW r r') : ∀ {prev prev' : Char} (L : Nat), cr prev prev' →
    btClose m prev r L = btClose m prev' r' L := by
  induction h with
  | nil =>
    intro prev prev' L hp
    have e : (prev != '`') = (prev' != '`') := resp_ne bt_nd _ _ hp
    unfold btClose
    rw [e]
  | @cons c c' s s' hc hr ih =>
    intro prev prev' L hp
    have e : (prev != '`') = (prev' != '`') := resp_ne bt_nd _ _ hp
    unfold btClose
    rw [e, PW.countPrefix bt_nd none (PW.cons hc hr)]
    simp only [ih (L + 1) hc]

theorem btCode_pw {suf suf' : Str} (h : PW suf suf') (n : Nat) : btCode suf n = btCode suf' n := by
  induction n with
  | zero => rfl
  | succ m ih =>
    unfold btCode
    have hd := h.drop (m + 1)
    generalize List.drop (m + 1) suf = a at hd
    generalize List.drop (m + 1) suf' = a' at hd
    cases hd with
    | nil => simp only [ih]
    | cons hc hr =>
      simp only [ih]
      rw [btClose_pw (m + 1) hr 1 hc]

structure BtRel (m m' : BtMatch) : Prop where
  kind : m.kind = m'.kind
  start : m.start = m'.start
  stop : m.stop = m'.stop
  group : PW m.group m'.group

theorem btAt_pw {prev prev' : Option Char} (hp : ORel cr prev prev') {suf suf' : Str} (h : PW suf suf') (i : Nat) :
    ORel BtRel (btAt prev suf i) (btAt prev' suf' i) := by
  unfold btAt
  rw [hp.cr_beq bs_nd]
  split
  · trivial
  · simp only []
    rw [PW.countPrefix bs_nd none h, h.get_beq _ bt_nd]
    split
    · exact ⟨rfl, rfl, rfl, h.take _⟩
    · cases h with
      | nil => trivial
      | @cons c c' s s' hc hr =>
        by_cases hb : c = '`'
        · have hb' : c' = '`' := (cr_eq_iff hc bt_nd).1 hb
          subst hb; subst hb'
          simp only
          rw [PW.countPrefix bt_nd none (PW.cons hc hr), btCode_pw (PW.cons hc hr)]
          split
          · exact ⟨rfl, rfl, rfl, ((PW.cons hc hr).drop _).take _⟩
          · trivial
        · have hb' : ¬ c' = '`' := fun h' => hb ((cr_eq_iff hc bt_nd).2 h')
          split
          · rename_i heq; cases heq; exact absurd rfl hb
          · split
            · rename_i heq; cases heq; exact absurd rfl hb'
            · trivial

theorem btScan_pw {suf suf' : Str} (h : PW suf suf') : ∀ {prev prev' : Option Char} (i : Nat), ORel cr prev prev' →
    ORel BtRel (btScan prev suf i) (btScan prev' suf' i) := by
  induction h with
  | nil =>
    intro prev prev' i hp
    unfold btScan
    have := btAt_pw hp PW.nil i
    match h1 : btAt prev [] i, h2 : btAt prev' [] i with
    | some a, some b => rw [h1, h2] at this; exact this
    | none, none => trivial
    | some a, none => rw [h1, h2] at this; exact this.elim
    | none, some b => rw [h1, h2] at this; exact this.elim
  | @cons c c' s s' hc hr ih =>
    intro prev prev' i hp
    unfold btScan
    have := btAt_pw hp (PW.cons hc hr) i
    match h1 : btAt prev (c :: s) i, h2 : btAt prev' (c' :: s') i with
    | some a, some b => rw [h1, h2] at this; exact this
    | none, none => exact ih (i + 1) (show ORel cr (some c) (some c') from hc)
    | some a, none => rw [h1, h2] at this; exact this.elim
    | none, some b => rw [h1, h2] at this; exact this.elim

theorem btFind_pw {s s' : Str} (h : PW s s') (start : Nat) : ORel BtRel (btFind s start) (btFind s' start) := by
  unfold btFind
  rw [← h.length_eq]
  split
  · trivial
  · apply btScan_pw (h.drop start)
    split
    · trivial
    · exact h.getLast _

/-! #### where the backtick pattern matches -/

theorem countPrefix_get {ch : Char} {lim : Option Nat} {s : Str} {j : Nat} (h : j < countPrefix ch lim s) :
    s[j]? = some ch := by
  have h1 := countPrefix_prefix ch lim s
  have h2 : (s.take (countPrefix ch lim s))[j]? = some ch := by
    rw [h1, List.getElem?_replicate]; simp [h]
  rw [List.getElem?_take] at h2
  simpa [h] using h2

theorem getElem?_drop' (s : Str) (i k : Nat) : (s.drop i)[k]? = s[i + k]? := by
  rw [List.getElem?_drop]

theorem btClose_spec {m : Nat} {r : Str} : ∀ {prev : Char} {L L' : Nat}, btClose m prev r L = some L' →
    ∃ j, L' = L + j ∧ j ≤ r.length ∧ countPrefix '`' none (r.drop j) = m := by
  induction r with
  | nil =>
    intro prev L L' h
    unfold btClose at h
    split at h
    · rename_i hc
      simp only [Bool.and_eq_true, beq_iff_eq] at hc
      cases h; exact ⟨0, rfl, Nat.le_refl _, hc.2⟩
    · cases h
  | cons c r ih =>
    intro prev L L' h
    unfold btClose at h
    split at h
    · rename_i hc
      simp only [Bool.and_eq_true, beq_iff_eq] at hc
      cases h; exact ⟨0, rfl, Nat.zero_le _, hc.2⟩
    · obtain ⟨j, h1, h2, h3⟩ := ih h
      exact ⟨j + 1, by omega, by simp; omega, by simpa using h3⟩

theorem btCode_spec {suf : Str} : ∀ {n m L : Nat}, btCode suf n = some (m, L) →
    1 ≤ m ∧ m ≤ n ∧ 1 ≤ L ∧ m + L ≤ suf.length ∧ countPrefix '`' none (suf.drop (m + L)) = m := by
  intro n
  induction n with
  | zero => intro m L h; simp [btCode] at h
  | succ k ih =>
    intro m L h
    unfold btCode at h
    split at h
    · rename_i c r hd
      split at h
      · rename_i L0 hcl
        cases h
        obtain ⟨j, h1, h2, h3⟩ := btClose_spec hcl
        have hlen : (suf.drop (k + 1)).length = r.length + 1 := by rw [hd]; rfl
        rw [List.length_drop] at hlen
        have hdd : suf.drop (k + 1 + L) = r.drop j := by
          have : suf.drop (k + 1 + L) = (suf.drop (k + 1)).drop L := by rw [List.drop_drop]
          rw [this, hd, h1, Nat.add_comm 1 j]; rfl
        refine ⟨by omega, by omega, by omega, by omega, ?_⟩
        rw [hdd]; exact h3
      · obtain ⟨a, b, c', d, e⟩ := ih h
        exact ⟨a, by omega, c', d, e⟩
    · obtain ⟨a, b, c', d, e⟩ := ih h
      exact ⟨a, by omega, c', d, e⟩

structure BtSpec (d : Str) (m : BtMatch) : Prop where
  startC : ∃ δ, d[m.start]? = some δ ∧ innerR δ = false
  stopCode : m.kind = .code → 1 ≤ m.stop ∧ d[m.stop - 1]? = some '`'
  stopBs : m.kind = .bs → d[m.stop]? = some '`'
  code : m.kind = .code → ∃ a e, 1 ≤ a ∧ a ≤ e ∧ m.group = (d.take e).drop a ∧ d[a - 1]? = some '`' ∧ d[e]? = some '`' ∧
    m.group.length = e - a ∧ m.stop = e + (a - m.start) ∧ m.start ≤ a
  bs : m.kind = .bs → ∀ c ∈ m.group, c = '\\'
  bsStart : m.kind = .bs → d[m.start]? = some '\\'

theorem take_drop_drop (d : Str) (i a L : Nat) : ((d.drop i).drop a).take L = (d.take (i + a + L)).drop (i + a) := by
  rw [List.drop_drop, List.drop_take]
  congr 1
  omega

theorem btAt_spec {prev : Option Char} {d : Str} {i : Nat} {m : BtMatch} (h : btAt prev (d.drop i) i = some m) :
    BtSpec d m := by
  unfold btAt at h
  split at h
  · cases h
  · simp only [] at h
    split at h
    · rename_i hc
      simp only [Bool.and_eq_true, decide_eq_true_eq, beq_iff_eq] at hc
      obtain ⟨⟨hk2, _⟩, hbt⟩ := hc
      cases h
      have h0 : (d.drop i)[0]? = some '\\' := countPrefix_get (ch := '\\') (lim := none) (by omega)
      rw [getElem?_drop'] at h0 hbt
      refine ⟨⟨'\\', by simpa using h0, by decide⟩, (by intro h; cases h), fun _ => hbt, (by intro h; cases h), fun _ c hc => ?_,
        fun _ => by simpa using h0⟩
      have := countPrefix_prefix '\\' none (d.drop i)
      simp only [] at hc
      rw [this] at hc
      exact (List.mem_replicate.1 hc).2
    · split at h
      · rename_i tl hsuf
        
        split at h
        · rename_i mm L hcode
          cases h
          obtain ⟨h1, h2, h3, h4, h5⟩ := btCode_spec hcode
          have hs0 : (d.drop i)[0]? = some '`' := by rw [hsuf]; rfl
          have ha : (d.drop i)[mm - 1]? = some '`' := countPrefix_get (ch := '`') (lim := none) (by omega)
          have he : (d.drop i)[mm + L]? = some '`' := by
            have : ((d.drop i).drop (mm + L))[0]? = some '`' := countPrefix_get (ch := '`') (lim := none) (by omega)
            rw [getElem?_drop'] at this; simpa using this
          have hst : (d.drop i)[mm + L + (mm - 1)]? = some '`' := by
            have : ((d.drop i).drop (mm + L))[mm - 1]? = some '`' := countPrefix_get (ch := '`') (lim := none) (by omega)
            rw [getElem?_drop'] at this; exact this
          rw [getElem?_drop'] at hs0 ha he hst
          refine ⟨⟨'`', by simpa using hs0, by decide⟩, fun _ => ⟨by simp only []; omega, ?_⟩, (by intro h; cases h),
            fun _ => ⟨i + mm, i + mm + L, by omega, by omega, take_drop_drop d i mm L, ?_, ?_, ?_, by simp only []; omega,
              by simp only []; omega⟩, (by intro h; cases h), (by intro h; cases h)⟩
          · simp only []
            rw [show i + mm + L + mm - 1 = i + (mm + L + (mm - 1)) by omega]; exact hst
          · rw [show i + mm - 1 = i + (mm - 1) by omega]; exact ha
          · rw [show i + mm + L = i + (mm + L) by omega]; exact he
          · simp only [List.length_take, List.length_drop] at h4 ⊢
            omega
        · cases h
      · cases h

theorem btScan_spec {d : Str} : ∀ {suf : Str} {prev : Option Char} {i : Nat} {m : BtMatch}, suf = d.drop i →
    btScan prev suf i = some m → BtSpec d m := by
  intro suf
  induction suf with
  | nil =>
    intro prev i m hs h
    unfold btScan at h
    split at h
    · rename_i r hr; cases h; rw [hs] at hr; exact btAt_spec hr
    · cases h
  | cons c r ih =>
    intro prev i m hs h
    unfold btScan at h
    split at h
    · rename_i r' hr; cases h; rw [hs] at hr; exact btAt_spec hr
    · refine ih ?_ h
      have : (d.drop i).drop 1 = r := by rw [← hs]; rfl
      rw [← this, List.drop_drop]

theorem btFind_spec {d : Str} {start : Nat} {m : BtMatch} (h : btFind d start = some m) : BtSpec d m := by
  unfold btFind at h
  split at h
  · cases h
  · exact btScan_spec rfl h

/-! ### pattern 1: escape -/

theorem escScan_pw {suf suf' : Str} (h : PW suf suf') : ∀ (i : Nat),
    ORel (fun (a b : Nat × Char) => a.1 = b.1 ∧ cr a.2 b.2) (escScan suf i) (escScan suf' i) := by
  induction h with
  | nil => intro i; unfold escScan; trivial
  | @cons c c' s s' hc hr ih =>
    intro i
    cases hr with
    | nil => unfold escScan; trivial
    | @cons e e' t t' he ht =>
      unfold escScan
      by_cases h1 : c = '\\'
      · have h2 : c' = '\\' := (cr_eq_iff hc bs_nd).1 h1
        rw [if_pos h1, if_pos h2]; exact ⟨rfl, he⟩
      · have h2 : ¬ c' = '\\' := fun h' => h1 ((cr_eq_iff hc bs_nd).2 h')
        rw [if_neg h1, if_neg h2]; exact ih (i + 1)

theorem escScan_spec {d : Str} : ∀ {suf : Str} {i j : Nat} {ch : Char}, suf = d.drop i → escScan suf i = some (j, ch) →
    d[j]? = some '\\' ∧ d[j + 1]? = some ch := by
  intro suf
  induction suf with
  | nil => intro i j ch _ h; simp [escScan] at h
  | cons c r ih =>
    intro i j ch hs h
    cases r with
    | nil => simp [escScan] at h
    | cons e t =>
      unfold escScan at h
      split at h
      · rename_i hc
        cases h
        have h0 : (d.drop i)[0]? = some c := by rw [← hs]; rfl
        have h1 : (d.drop i)[1]? = some ch := by rw [← hs]; rfl
        rw [getElem?_drop'] at h0 h1
        exact ⟨by simpa [hc] using h0, h1⟩
      · refine ih ?_ h
        have : (d.drop i).drop 1 = e :: t := by rw [← hs]; rfl
        rw [← this, List.drop_drop]

/-! ### pattern 10: line break (and `find` in general) -/

theorem find_spec {pat d : Str} {si off : Nat} (h : find pat (d.drop si) = some off) :
    ∀ k, k < pat.length → d[si + off + k]? = pat[k]? := by
  intro k hk
  obtain ⟨hle, hsw, -⟩ := find_some_iff_drop.1 h
  obtain ⟨t, ht⟩ := startsWith_iff_prefix.1 hsw
  rw [List.drop_drop] at ht
  have : (d.drop (si + off))[k]? = pat[k]? := by
    rw [ht, List.getElem?_append_left hk]
  rw [getElem?_drop'] at this
  exact this

/-! ### pattern 12: entity -/

theorem entityScan_none {suf : Str} (h : '&' ∉ suf) (i : Nat) : entityScan suf i = none := by
  induction suf generalizing i with
  | nil => rfl
  | cons c r ih =>
    unfold entityScan
    have hc : ¬ c = '&' := fun h' => h (h' ▸ List.mem_cons_self ..)
    rw [if_neg hc]
    exact ih (fun h' => h (List.mem_cons_of_mem _ h')) _

theorem entityFind_none {d : Str} (h : '&' ∉ d) (si : Nat) : entityFind d si = none := by
  unfold entityFind
  split
  · rfl
  · exact entityScan_none (fun h' => h (List.mem_of_mem_drop h')) _

/-! ### pattern 13: not_strong -/

theorem star_nd : isAsciiDigit '*' = false := by decide
theorem under_nd : isAsciiDigit '_' = false := by decide

theorem nsRun_pw {c : Char} (hc : isAsciiDigit c = false) {suf suf' : Str} (h : PW suf suf') :
    nsRun c suf = nsRun c suf' := by
  unfold nsRun
  simp only []
  rw [PW.countPrefix hc (some 3) h]
  split
  · rfl
  · rcases h.get (countPrefix c (some 3) suf') with ⟨h1, h2⟩ | ⟨x, x', h1, h2, hx⟩
    · rw [h1, h2]
    · rw [h1, h2]; simp only [resp_isSpace _ _ hx]

theorem nsScan_pw {suf suf' : Str} (h : PW suf suf') : ∀ {prev prev' : Option Char} (i : Nat), ORel cr prev prev' →
    nsScan prev suf i = nsScan prev' suf' i := by
  induction h with
  | nil => intro _ _ i _; rfl
  | @cons c c' s s' hc hr ih =>
    intro prev prev' i hp
    unfold nsScan
    have e1 := nsRun_pw star_nd (PW.cons hc hr)
    have e2 := nsRun_pw under_nd (PW.cons hc hr)
    have e3 := ih (prev := some c) (prev' := some c') (i + 1) hc
    match prev, prev', hp with
    | none, none, _ => simp only [e1, e2, e3]
    | some a, some b, hp =>
      have e4 : isSpace a = isSpace b := resp_isSpace _ _ hp
      simp only [e1, e2, e3, e4]

theorem nsFind_pw {s s' : Str} (h : PW s s') (start : Nat) : nsFind s start = nsFind s' start := by
  unfold nsFind
  rw [← h.length_eq]
  split
  · rfl
  · apply nsScan_pw (h.drop start)
    split
    · trivial
    · exact h.getLast _

/-- the matched run consists of one delimiter character -/
theorem nsRun_spec {c : Char} {suf : Str} {k : Nat} (h : nsRun c suf = some k) :
    1 ≤ k ∧ suf.take k = List.replicate k c := by
  unfold nsRun at h
  simp only [] at h
  split at h
  · cases h
  · rename_i hk
    have hp := countPrefix_prefix c (some 3) suf
    split at h
    · cases h; exact ⟨by omega, hp⟩
    · split at h
      · cases h; exact ⟨by omega, hp⟩
      · cases h

theorem nsScan_spec {d : Str} : ∀ {suf : Str} {prev : Option Char} {i a e : Nat}, suf = d.drop i →
    nsScan prev suf i = some (a, e) →
    a < e ∧ ∃ c, (c = '*' ∨ c = '_') ∧ (d.take e).drop a = List.replicate (e - a) c := by
  intro suf
  induction suf with
  | nil => intro prev i a e _ h; simp [nsScan] at h
  | cons c r ih =>
    intro prev i a e hs h
    have key : ∀ ch k, nsRun ch (c :: r) = some k → i < i + k ∧
        (d.take (i + k)).drop i = List.replicate (i + k - i) ch := by
      intro ch k hk
      obtain ⟨h1, h2⟩ := nsRun_spec hk
      refine ⟨by omega, ?_⟩
      rw [List.drop_take, Nat.add_sub_cancel_left, ← hs]
      exact h2
    have hnext : nsScan (some c) r (i + 1) = some (a, e) →
        a < e ∧ ∃ c, (c = '*' ∨ c = '_') ∧ (d.take e).drop a = List.replicate (e - a) c := by
      intro h
      refine ih ?_ h
      have : (d.drop i).drop 1 = r := by rw [← hs]; rfl
      rw [← this, List.drop_drop]
    have hstar : ∀ k, nsRun '*' (c :: r) = some k → (i, i + k) = (a, e) →
        a < e ∧ ∃ c, (c = '*' ∨ c = '_') ∧ (d.take e).drop a = List.replicate (e - a) c := by
      intro k hk he; cases he; exact ⟨(key _ _ hk).1, '*', Or.inl rfl, (key _ _ hk).2⟩
    have hund : ∀ k, nsRun '_' (c :: r) = some k → (i, i + k) = (a, e) →
        a < e ∧ ∃ c, (c = '*' ∨ c = '_') ∧ (d.take e).drop a = List.replicate (e - a) c := by
      intro k hk he; cases he; exact ⟨(key _ _ hk).1, '_', Or.inr rfl, (key _ _ hk).2⟩
    unfold nsScan at h
    have hok : ∀ ok : Bool,
        (match (if ok = true then
            (match nsRun '*' (c :: r) with
              | some k => some (i, i + k)
              | none => (nsRun '_' (c :: r)).map (fun k => (i, i + k)))
            else none) with
          | some x => some x
          | none => nsScan (some c) r (i + 1)) = some (a, e) →
        a < e ∧ ∃ c, (c = '*' ∨ c = '_') ∧ (d.take e).drop a = List.replicate (e - a) c := by
      intro ok h
      cases ok with
      | false => exact hnext h
      | true =>
        cases h1 : nsRun '*' (c :: r) with
        | some k => rw [h1] at h; exact hstar k h1 (Option.some.inj h)
        | none =>
          cases h2 : nsRun '_' (c :: r) with
          | some k => rw [h1, h2] at h; exact hund k h2 (Option.some.inj h)
          | none => rw [h1, h2] at h; exact hnext h
    exact hok _ h

theorem nsFind_spec {d : Str} {start a e : Nat} (h : nsFind d start = some (a, e)) :
    a < e ∧ ∃ c, (c = '*' ∨ c = '_') ∧ (d.take e).drop a = List.replicate (e - a) c := by
  unfold nsFind at h
  split at h
  · cases h
  · exact nsScan_spec rfl h

/-! ### patterns 2–7 on text without `[` -/

theorem linkScan_none (cfg : Cfg) (stash : List StashItem) (pi : Nat) (data : Str) {suf : Str} (h : '[' ∉ suf) :
    ∀ (prev : Option Char) (i : Nat), linkScan cfg stash pi data prev suf i = none := by
  induction suf with
  | nil => intro _ _; rfl
  | cons c r ih =>
    intro prev i
    unfold linkScan
    have hc : ¬ c = '[' := fun h' => h (h' ▸ List.mem_cons_self ..)
    have hr : '[' ∉ r := fun h' => h (List.mem_cons_of_mem _ h')
    have hh : (r.head? == some '[') = false := by
      cases r with
      | nil => rfl
      | cons e t =>
        have : ¬ e = '[' := fun h' => hr (h' ▸ List.mem_cons_self ..)
        simp [this]
    simp only [hc, hh, decide_false, Bool.false_and, Bool.and_false, if_false, Bool.false_eq_true, ite_self]
    exact ih hr _ _

/-! ### patterns 14, 15 on text without the delimiter -/

theorem emScan_none (data : Str) (c : Char) {suf : Str} (h : c ∉ suf) (i : Nat) : emScan data c suf i = some none := by
  induction suf generalizing i with
  | nil => rfl
  | cons ch r ih =>
    unfold emScan
    have hc : ¬ ch = c := fun h' => h (h' ▸ List.mem_cons_self ..)
    rw [if_neg hc]
    exact ih (fun h' => h (List.mem_cons_of_mem _ h')) _

end MdVerif.InlineLocal
