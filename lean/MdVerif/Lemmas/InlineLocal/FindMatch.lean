/-
C08, inline half — `findMatch` on related texts: the same match positions, related result nodes, and the text can be
cut at the match boundaries.
-/
import MdVerif.Lemmas.InlineLocal.StrOps

namespace MdVerif.InlineLocal
open Py Inline

inductive PNRel (okD : Char → Bool) (ρ : Rho) : PNode → PNode → Prop
  | none : PNRel okD ρ .none .none
  | str {s : Str} : Plain okD s → PNRel okD ρ (.str s) (.str s)
  | el {n n' : Node} : NRel okD ρ n n' → PNRel okD ρ (.el n) (.el n')

structure FoundRel (okD : Char → Bool) (ρ : Rho) (d d' : Str) (f f' : Found) : Prop where
  start : f.start = f'.start
  stop : f.stop = f'.stop
  node : PNRel okD ρ f.node f'.node
  cut : (f.node = .none ∧ f'.node = .none) ∨
    (Sh okD ρ (d.take f.start) (d'.take f.start) ∧ Sh okD ρ (pyDrop d f.stop) (pyDrop d' f.stop))

def FMRel (okD : Char → Bool) (ρ : Rho) (d d' : Str) (st st' : St) :
    Option (Option Found × St) → Option (Option Found × St) → Prop
  | some (fo, s1), some (fo', s1') => s1 = st ∧ s1' = st' ∧ ORel (FoundRel okD ρ d d') fo fo'
  | none, none => True
  | _, _ => False

theorem drop_eq_cons {α : Type} {l : List α} {i : Nat} {c : α} (h : l[i]? = some c) : l.drop i = c :: l.drop (i + 1) := by
  induction l generalizing i with
  | nil => simp at h
  | cons a l ih =>
    cases i with
    | zero => simp at h; subst h; rfl
    | succ i => simpa using ih (by simpa using h)

theorem pyDrop_nonneg (d : Str) (z : Int) (hz : 0 ≤ z) : pyDrop d z = d.drop z.toNat := by
  unfold pyDrop pyIdx
  rw [if_neg (by omega)]
  by_cases h : z.toNat ≤ d.length
  · rw [Nat.min_eq_left h]
  · rw [Nat.min_eq_right (by omega), List.drop_eq_nil_of_le (Nat.le_refl _), List.drop_eq_nil_of_le (by omega)]

theorem pyDrop_nat (d : Str) (n : Nat) : pyDrop d (n : Int) = d.drop n := by
  rw [pyDrop_nonneg d _ (by omega)]; simp

theorem NRel.mkEl {okD : Char → Bool} {ρ : Rho} (t : String) : NRel okD ρ (mkEl t) (mkEl t) := by
  simp [NRel.iff, Inline.mkEl, TRel, ORel, NRelL]

/-- the emphasis patterns as a hypothesis (discharged differently for texts without and with `*`, `_`) -/
def EmSim (okD : Char → Bool) : Prop :=
  ∀ (ρ : Rho) (d d' : Str) (c : Char) (si : Nat), (c = '*' ∨ c = '_') → Sh okD ρ d d' →
    match emScan d c (d.drop si) si, emScan d' c (d'.drop si) si with
    | none, none => True
    | some none, some none => True
    | some (some (el, s, e)), some (some (el', s', e')) =>
        s = s' ∧ e = e' ∧ NRel okD ρ el el' ∧ Sh okD ρ (d.take s) (d'.take s) ∧ Sh okD ρ (d.drop e) (d'.drop e)
    | _, _ => False

section
variable {okD : Char → Bool} {ρ : Rho} (cfg : Cfg)

theorem plain_esc_tok (H : OkD okD) (n : Nat) : Plain okD (STX :: natToDec n ++ [ETX]) := by
  have hd := natToDec_digits n
  have hne := natToDec_ne_nil n
  match hn : natToDec n with
  | [] => exact absurd hn hne
  | a :: r =>
    rw [hn] at hd
    have hr : ∀ (l : Str), (∀ c ∈ l, isAsciiDigit c = true) → Plain okD (l ++ [ETX]) := by
      intro l hl
      induction l with
      | nil => exact Sh.chr H.etx (by decide) Sh.nil
      | cons c l ih =>
        have hc := hl c (List.mem_cons_self ..)
        refine Sh.chr (H.digit c hc) ?_ (ih (fun x hx => hl x (List.mem_cons_of_mem _ hx)))
        intro h; subst h; exact absurd hc (by decide)
    exact Sh.tok (hd a (List.mem_cons_self ..)) (hr r (fun x hx => hd x (List.mem_cons_of_mem _ hx)))

theorem fm0 (H : OkD okD) {d d' : Str} (hd : Sh okD ρ d d') (si : Nat) (st st' : St) :
    FMRel okD ρ d d' st st' (findMatch cfg 0 d si st) (findMatch cfg 0 d' si st') := by
  unfold findMatch
  simp only []
  rw [← hd.length_eq]
  split
  · exact ⟨rfl, rfl, trivial⟩
  · have hpw := btFind_pw hd.pw si
    match h1 : btFind d si, h2 : btFind d' si with
    | none, none => exact ⟨rfl, rfl, trivial⟩
    | some m, none => rw [h1, h2] at hpw; exact hpw.elim
    | none, some m' => rw [h1, h2] at hpw; exact hpw.elim
    | some m, some m' =>
      rw [h1, h2] at hpw
      have hpw : BtRel m m' := hpw
      have sp := btFind_spec h1
      have sp' := btFind_spec h2
      obtain ⟨δ, hδ, hδi⟩ := sp.startC
      have cutL := (hd.cut_before hδ hδi).1
      simp only []
      cases hk : m.kind with
      | code =>
        have hk' : m'.kind = .code := by rw [← hpw.kind, hk]
        simp only [hk']
        obtain ⟨a, e, ha1, hae, hg, hda, hde, hgl, hst, hsa⟩ := sp.code hk
        obtain ⟨a', e', ha1', hae', hg', -, -, hgl', hst', hsa'⟩ := sp'.code hk'
        have hlen := hpw.group.length_eq
        have hs := hpw.start
        have hp := hpw.stop
        have ea : a = a' := by omega
        have ee : e = e' := by omega
        subst ea; subst ee
        obtain ⟨hs1, hs1p⟩ := sp.stopCode hk
        have cutR := (hd.cut_after hs1p (by decide)).2
        rw [Nat.sub_add_cancel hs1] at cutR
        -- the group
        have c1 := (hd.cut_before hde (by decide)).1
        have hda' : (d.take e)[a - 1]? = some '`' := by
          rw [List.getElem?_take]; rw [if_pos (by omega)]; exact hda
        have c2 := (c1.cut_after hda' (by decide)).2
        rw [Nat.sub_add_cancel ha1] at c2
        rw [← hg, ← hg'] at c2
        refine ⟨rfl, rfl, ?_⟩
        show FoundRel okD ρ d d' _ _
        refine ⟨hs, by simp only [hp], PNRel.el ?_, Or.inr ⟨cutL, ?_⟩⟩
        · simp only [NRel.iff, Inline.mkEl, TRel, ORel, NRelL, and_true, true_and]
          exact c2.strip.codeEscape H
        · simp only [pyDrop_nat, ← hp]; exact cutR
      | bs =>
        have hk' : m'.kind = .bs := by rw [← hpw.kind, hk]
        simp only [hk']
        have hg := sp.bs hk
        have hgeq : m'.group = m.group := hpw.group.eq_of_no_digit (fun c hc => by rw [hg c hc]; decide)
        have cutR := (hd.cut_before (sp.stopBs hk) (by decide)).2
        have hbs : okD '\\' = true :=
          hd.ok_of_mem (List.mem_of_getElem? (sp.bsStart hk)) (by decide) (by decide)
        refine ⟨rfl, rfl, ?_⟩
        show FoundRel okD ρ d d' _ _
        refine ⟨hpw.start, by simp only [hpw.stop], ?_, Or.inr ⟨cutL, ?_⟩⟩
        · simp only [hgeq]
          exact PNRel.str (plain_bs_replace H hbs _ _ rfl hg)
        · simp only [pyDrop_nat, ← hpw.stop]; exact cutR

theorem fm1 (H : OkD okD) (hesc : cfg.esc.contains STX = false) {d d' : Str} (hd : Sh okD ρ d d') (si : Nat)
    (st st' : St) : FMRel okD ρ d d' st st' (findMatch cfg 1 d si st) (findMatch cfg 1 d' si st') := by
  unfold findMatch
  simp only []
  rw [← hd.length_eq]
  split
  · exact ⟨rfl, rfl, trivial⟩
  · have hpw := escScan_pw (hd.pw.drop si) si
    match h1 : escScan (d.drop si) si, h2 : escScan (d'.drop si) si with
    | none, none => exact ⟨rfl, rfl, trivial⟩
    | some m, none => rw [h1, h2] at hpw; exact hpw.elim
    | none, some m' => rw [h1, h2] at hpw; exact hpw.elim
    | some (i, ch), some (i', ch') =>
      rw [h1, h2] at hpw
      have hi : i = i' := hpw.1
      subst hi
      obtain ⟨hb, hc⟩ := escScan_spec rfl h1
      obtain ⟨-, hc'⟩ := escScan_spec rfl h2
      have cA := hd.cut_after hb (by decide)
      have hh := cA.2.head_eq
      rw [List.head?_drop, List.head?_drop, hc, hc'] at hh
      have hch : ch = ch' := Option.some.inj hh
      subst hch
      refine ⟨rfl, rfl, ?_⟩
      show FoundRel okD ρ d d' _ _
      by_cases he : cfg.esc.contains ch = true
      · simp only [he, if_true]
        have hne : ch ≠ STX := by intro h; subst h; rw [hesc] at he; cases he
        refine ⟨rfl, rfl, PNRel.str (plain_esc_tok H _), Or.inr ⟨(hd.cut_before hb (by decide)).1, ?_⟩⟩
        have e1 : d.drop (i + 1) = ch :: d.drop (i + 2) := drop_eq_cons hc
        have c2 := cA.2
        rw [e1] at c2
        obtain ⟨t', ht', hs', -⟩ := c2.cut_one hne
        have e2 : d'.drop (i + 1) = ch :: d'.drop (i + 2) := drop_eq_cons hc'
        rw [e2] at ht'
        cases ht'
        have hz : (0 : Int) ≤ (i : Int) + 2 := by omega
        rw [pyDrop_nonneg _ _ hz, pyDrop_nonneg _ _ hz]
        have : ((i : Int) + 2).toNat = i + 2 := by omega
        rw [this]; exact hs'
      · simp only [he, Bool.false_eq_true, if_false]
        exact ⟨rfl, rfl, PNRel.none, Or.inl ⟨rfl, rfl⟩⟩

theorem fm10 {d d' : Str} (hd : Sh okD ρ d d') (si : Nat) (st st' : St) :
    FMRel okD ρ d d' st st' (findMatch cfg 10 d si st) (findMatch cfg 10 d' si st') := by
  unfold findMatch
  simp only []
  rw [← hd.length_eq]
  split
  · exact ⟨rfl, rfl, trivial⟩
  · have hf := PW.find (pat := [' ', ' ', '\n']) (by decide) (hd.pw.drop si)
    rw [← hf]
    cases h1 : find [' ', ' ', '\n'] (d.drop si) with
    | none => exact ⟨rfl, rfl, trivial⟩
    | some off =>
      have sp := find_spec h1
      have h0 : d[si + off]? = some ' ' := by simpa using sp 0 (by decide)
      have h2 : d[si + off + 2]? = some '\n' := by simpa using sp 2 (by decide)
      refine ⟨rfl, rfl, ?_⟩
      show FoundRel okD ρ d d' _ _
      refine ⟨rfl, rfl, PNRel.el (NRel.mkEl _), Or.inr ⟨(hd.cut_before h0 (by decide)).1, ?_⟩⟩
      have hz : (0 : Int) ≤ (si : Int) + (off : Int) + 3 := by omega
      simp only []
      rw [pyDrop_nonneg _ _ hz, pyDrop_nonneg _ _ hz]
      have : ((si : Int) + (off : Int) + 3).toNat = si + off + 2 + 1 := by omega
      rw [this]
      exact (hd.cut_after h2 (by decide)).2

theorem fm12 (H : OkD okD) {d d' : Str} (hd : Sh okD ρ d d') (si : Nat) (st st' : St) :
    FMRel okD ρ d d' st st' (findMatch cfg 12 d si st) (findMatch cfg 12 d' si st') := by
  have h1 : '&' ∉ d := hd.no_amp H
  have h2 : '&' ∉ d' := fun h => h1 ((hd.pw.mem_of_not_digit (by decide)).2 h)
  unfold findMatch
  simp only []
  rw [← hd.length_eq, entityFind_none h1, entityFind_none h2]
  split <;> exact ⟨rfl, rfl, trivial⟩

theorem replicate_get {c : Char} {l : Str} {n : Nat} (h : l = List.replicate n c) {k : Nat} (hk : k < n) :
    l[k]? = some c := by
  rw [h, List.getElem?_replicate]; simp [hk]

theorem fm13 {d d' : Str} (hd : Sh okD ρ d d') (si : Nat) (st st' : St) :
    FMRel okD ρ d d' st st' (findMatch cfg 13 d si st) (findMatch cfg 13 d' si st') := by
  unfold findMatch
  simp only []
  rw [← hd.length_eq]
  split
  · exact ⟨rfl, rfl, trivial⟩
  · rw [← nsFind_pw hd.pw si]
    cases h1 : nsFind d si with
    | none => exact ⟨rfl, rfl, trivial⟩
    | some ae =>
      obtain ⟨a, e⟩ := ae
      obtain ⟨hae, c, hc, hrep⟩ := nsFind_spec h1
      have hcnd : isAsciiDigit c = false := by rcases hc with rfl | rfl <;> decide
      have hinL : innerL c = false := by rcases hc with rfl | rfl <;> decide
      have hinR : innerR c = false := by rcases hc with rfl | rfl <;> decide
      have g0 : ((d.take e).drop a)[0]? = some c := replicate_get hrep (by omega)
      have g1 : ((d.take e).drop a)[e - a - 1]? = some c := replicate_get hrep (by omega)
      rw [getElem?_drop', List.getElem?_take] at g0 g1
      rw [if_pos (by omega)] at g0 g1
      simp only [Nat.add_zero] at g0
      have e1 : a + (e - a - 1) = e - 1 := by omega
      rw [e1] at g1
      have hsl : slice d' a e = slice d a e := by
        have := ((hd.pw.take e).drop a).eq_of_no_digit (by
          intro x hx; rw [hrep] at hx; rw [(List.mem_replicate.1 hx).2]; exact hcnd)
        exact this
      have hokc : okD c = true := hd.ok_of_mem (List.mem_of_getElem? g0) hinL hinR
      have hcs : c ≠ STX := by rcases hc with rfl | rfl <;> decide
      have hpl : Plain okD (slice d a e) := by
        show Plain okD ((d.take e).drop a)
        rw [hrep]
        generalize e - a = n
        induction n with
        | zero => exact Sh.nil
        | succ n ih => exact Sh.chr hokc hcs ih
      refine ⟨rfl, rfl, ?_⟩
      show FoundRel okD ρ d d' _ _
      refine ⟨rfl, rfl, ?_, Or.inr ⟨(hd.cut_before g0 hinR).1, ?_⟩⟩
      · simp only [hsl]; exact PNRel.str hpl
      · simp only [pyDrop_nat]
        have := (hd.cut_after g1 hinL).2
        rw [show e - 1 + 1 = e by omega] at this
        exact this

theorem fmEm (EM : EmSim okD) {d d' : Str} (hd : Sh okD ρ d d') (pi : Nat) (hpi : pi = 14 ∨ pi = 15) (si : Nat)
    (st st' : St) : FMRel okD ρ d d' st st' (findMatch cfg pi d si st) (findMatch cfg pi d' si st') := by
  have em := EM ρ d d' (if pi = 14 then '*' else '_') si (by rcases hpi with rfl | rfl <;> simp) hd
  rcases hpi with rfl | rfl
  all_goals
    unfold findMatch
    simp only []
    rw [← hd.length_eq]
    split
    · exact ⟨rfl, rfl, trivial⟩
    · revert em
      match emScan d _ (d.drop si) si, emScan d' _ (d'.drop si) si with
      | none, none => intro _; trivial
      | some none, some none => intro _; exact ⟨rfl, rfl, trivial⟩
      | some (some (el, s, e)), some (some (el', s', e')) =>
        rintro ⟨rfl, rfl, hn, c1, c2⟩
        refine ⟨rfl, rfl, ?_⟩
        show FoundRel okD ρ d d' _ _
        exact ⟨rfl, rfl, PNRel.el hn, Or.inr ⟨c1, by simp only [pyDrop_nat]; exact c2⟩⟩
      | none, some none => intro h; exact h.elim
      | none, some (some _) => intro h; exact h.elim
      | some none, none => intro h; exact h.elim
      | some (some _), none => intro h; exact h.elim
      | some none, some (some _) => intro h; exact h.elim
      | some (some _), some none => intro h; exact h.elim

theorem fmLink (H : OkD okD) {d d' : Str} (hd : Sh okD ρ d d') (pi : Nat) (hpi : 2 ≤ pi ∧ pi ≤ 9 ∨ pi = 11) (si : Nat)
    (st st' : St) : FMRel okD ρ d d' st st' (findMatch cfg pi d si st) (findMatch cfg pi d' si st') := by
  have h1 : '[' ∉ d := hd.no_lb H
  have h2 : '[' ∉ d' := fun h => h1 ((hd.pw.mem_of_not_digit (by decide)).2 h)
  have l1 := fun pi prev => linkScan_none cfg st.stash pi d (suf := d.drop si) (fun h => h1 (List.mem_of_mem_drop h)) prev si
  have l2 := fun pi prev => linkScan_none cfg st'.stash pi d' (suf := d'.drop si) (fun h => h2 (List.mem_of_mem_drop h)) prev si
  have hp : pi = 2 ∨ pi = 3 ∨ pi = 4 ∨ pi = 5 ∨ pi = 6 ∨ pi = 7 ∨ pi = 8 ∨ pi = 9 ∨ pi = 11 := by omega
  rcases hp with rfl | rfl | rfl | rfl | rfl | rfl | rfl | rfl | rfl
  all_goals
    unfold findMatch
    simp only [l1, l2]
    rw [← hd.length_eq]
    split <;> first | exact ⟨rfl, rfl, trivial⟩ | (simp only [Nat.reduceLeDiff, decide_true, decide_false, Bool.and_self, if_true, Bool.and_false, Bool.false_and, if_false, Bool.false_eq_true]; exact ⟨rfl, rfl, trivial⟩)

/-- `findMatch` of any of the 16 patterns on related texts -/
theorem findMatch_sim (H : OkD okD) (hesc : cfg.esc.contains STX = false) (EM : EmSim okD) {d d' : Str}
    (hd : Sh okD ρ d d') (pi : Nat) (hpi : pi < 16) (si : Nat) (st st' : St) :
    FMRel okD ρ d d' st st' (findMatch cfg pi d si st) (findMatch cfg pi d' si st') := by
  have hp : pi = 0 ∨ pi = 1 ∨ pi = 10 ∨ pi = 12 ∨ pi = 13 ∨ (pi = 14 ∨ pi = 15) ∨ (2 ≤ pi ∧ pi ≤ 9 ∨ pi = 11) := by omega
  rcases hp with rfl | rfl | rfl | rfl | rfl | h | h
  · exact fm0 cfg H hd si st st'
  · exact fm1 cfg H hesc hd si st st'
  · exact fm10 cfg hd si st st'
  · exact fm12 cfg H hd si st st'
  · exact fm13 cfg hd si st st'
  · exact fmEm cfg EM hd pi h si st st'
  · exact fmLink cfg H hd pi h si st st'

end

end MdVerif.InlineLocal
