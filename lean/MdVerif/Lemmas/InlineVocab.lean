/-
Lemmas for C05: the inline stage, the two tree processors after it, and the glue to the round-trip theorem C14.
Core Lean only.

Plan: `Good` (`Spec/VocabInline.lean`) is an invariant of
  * every element a pattern constructs (`findMatch`), the stash, `applyPattern`, `handleInline`,
  * `processPlaceholders` (elements taken out of the stash), `Inline.run` (paths into the root),
  * `prettify`, `unescapeTree`,
and `Good n → WFTree n`.
-/
import MdVerif.Spec.VocabInline
import MdVerif.Model.Inline
import MdVerif.Model.TreeProc
import MdVerif.Model.Pipeline
import MdVerif.Lemmas.SerializerTree
import MdVerif.Lemmas.BlockVocab
import MdVerif.Lemmas.PyBasic

namespace MdVerif.Vocab2
open Py Inline

/-! ### the predicates, unfolded -/

theorem goodT_mk (ts : List String) (tag : Tag) (attrs : List (Str × Str)) (text : Option Str) (ta : Bool)
    (children : List Node) (tail : Option Str) (tla : Bool) :
    GoodT ts ⟨tag, attrs, text, ta, children, tail, tla⟩ =
      (nodeOk ts tag attrs text children && GoodListT ts children) := by
  simp [GoodT]

theorem goodT_eq (ts : List String) (n : Node) :
    GoodT ts n = (nodeOk ts n.tag n.attrs n.text n.children && GoodListT ts n.children) := by
  cases n; simp [GoodT]

theorem goodListT_iff (ts : List String) (l : List Node) :
    GoodListT ts l = true ↔ ∀ n ∈ l, GoodT ts n = true := by
  induction l with
  | nil => simp [GoodListT]
  | cons a r ih => simp [GoodListT, ih]

theorem goodT_iff (ts : List String) (n : Node) :
    GoodT ts n = true ↔ nodeOk ts n.tag n.attrs n.text n.children = true ∧ ∀ c ∈ n.children, GoodT ts c = true := by
  rw [goodT_eq, Bool.and_eq_true, goodListT_iff]

theorem goodListT_append (ts : List String) (a b : List Node) :
    GoodListT ts (a ++ b) = true ↔ GoodListT ts a = true ∧ GoodListT ts b = true := by
  simp only [goodListT_iff, List.mem_append]
  constructor
  · intro h; exact ⟨fun n hn => h n (Or.inl hn), fun n hn => h n (Or.inr hn)⟩
  · rintro ⟨h1, h2⟩ n (hn | hn)
    · exact h1 n hn
    · exact h2 n hn

/-- `nodeOk` looks at the text only through its truthiness and at the children only through emptiness; a void
    element has neither -/
theorem nodeOk_mono {ts : List String} {tag : Tag} {attrs : List (Str × Str)} {text text' : Option Str}
    {ch ch' : List Node} (h : nodeOk ts tag attrs text ch = true)
    (ht : Node.truthy text = false → Node.truthy text' = false)
    (hc : Node.truthy text = false → ch = [] → ch' = []) : nodeOk ts tag attrs text' ch' = true := by
  cases tag with
  | name t =>
    simp only [nodeOk, Bool.and_eq_true, Bool.or_eq_true, Bool.not_eq_true', List.isEmpty_iff] at h ⊢
    refine ⟨h.1, ?_⟩
    rcases h.2 with hv | ⟨h1, h2⟩
    · exact Or.inl hv
    · exact Or.inr ⟨ht h1, hc h1 h2⟩
  | _ => simp [nodeOk] at h

/-- either the element is not void (then text and children are unconstrained) or it has neither text nor children -/
theorem nodeOk_void_or {ts : List String} {tag : Tag} {attrs : List (Str × Str)} {text : Option Str}
    {ch : List Node} (h : nodeOk ts tag attrs text ch = true) :
    (∀ text' ch', nodeOk ts tag attrs text' ch' = true) ∨ (Node.truthy text = false ∧ ch = []) := by
  cases tag with
  | name t =>
    simp only [nodeOk, Bool.and_eq_true, Bool.or_eq_true, Bool.not_eq_true', List.isEmpty_iff] at h ⊢
    rcases h.2 with hv | hv
    · exact Or.inl (fun _ _ => ⟨h.1, Or.inl hv⟩)
    · exact Or.inr hv
  | _ => simp [nodeOk] at h

theorem nodeOk_subset {ts ts' : List String} (hs : ∀ t, hasTag ts t = true → hasTag ts' t = true) {tag : Tag}
    {attrs : List (Str × Str)} {text : Option Str} {ch : List Node} (h : nodeOk ts tag attrs text ch = true) :
    nodeOk ts' tag attrs text ch = true := by
  cases tag with
  | name t =>
    simp only [nodeOk, Bool.and_eq_true] at h ⊢
    exact ⟨⟨hs t h.1.1, h.1.2⟩, h.2⟩
  | _ => simp [nodeOk] at h

mutual
theorem goodT_subset {ts ts' : List String} (hs : ∀ t, hasTag ts t = true → hasTag ts' t = true) :
    (n : Node) → GoodT ts n = true → GoodT ts' n = true
  | ⟨tag, attrs, text, _, children, _, _⟩, h => by
    simp only [GoodT, Bool.and_eq_true] at h ⊢
    exact ⟨nodeOk_subset hs h.1, goodListT_subset hs children h.2⟩
theorem goodListT_subset {ts ts' : List String} (hs : ∀ t, hasTag ts t = true → hasTag ts' t = true) :
    (l : List Node) → GoodListT ts l = true → GoodListT ts' l = true
  | [], _ => by simp [GoodListT]
  | n :: r, h => by
    simp only [GoodListT, Bool.and_eq_true] at h ⊢
    exact ⟨goodT_subset hs n h.1, goodListT_subset hs r h.2⟩
end

theorem inline_sub_vocab (t : Str) (h : hasTag inlineTags t = true) : hasTag vocabTags t = true := by
  simp only [hasTag, inlineTags, vocabTags, List.any_cons, List.any_nil, Bool.or_false, Bool.or_eq_true,
    decide_eq_true_eq] at h ⊢
  rcases h with h | h | h | h | h | h <;> subst h <;> decide

/-- what an operation may do to a node without leaving `GoodT`: keep tag and attributes, change the text only when
    it was truthy, change tail freely; the children are handled by the caller -/
structure Keeps (n n' : Node) : Prop where
  tag : n'.tag = n.tag
  attrs : n'.attrs = n.attrs
  text : Node.truthy n.text = false → n'.text = n.text
  children : n'.children = n.children

theorem Keeps.refl (n : Node) : Keeps n n := ⟨rfl, rfl, fun _ => rfl, rfl⟩

theorem Keeps.trans {a b c : Node} (h1 : Keeps a b) (h2 : Keeps b c) : Keeps a c :=
  ⟨h2.tag.trans h1.tag, h2.attrs.trans h1.attrs,
   fun h => by rw [h2.text (by rw [h1.text h]; exact h), h1.text h], h2.children.trans h1.children⟩

theorem Keeps.good {ts : List String} {n n' : Node} (k : Keeps n n') (h : GoodT ts n = true) : GoodT ts n' = true := by
  rw [goodT_eq] at h ⊢
  rw [k.tag, k.attrs, k.children]
  simp only [Bool.and_eq_true] at h ⊢
  exact ⟨nodeOk_mono h.1 (fun ht => by rw [k.text ht]; exact ht) (fun _ e => e), h.2⟩

/-- new children `cs` for a node whose text may have changed when it was truthy -/
theorem good_children {ts : List String} {n n' : Node} (h : GoodT ts n = true) (htag : n'.tag = n.tag)
    (hattrs : n'.attrs = n.attrs) (htext : Node.truthy n.text = false → n'.text = n.text)
    (hcs : GoodListT ts n'.children = true) (hvoid : Node.truthy n.text = false → n.children = [] → n'.children = []) :
    GoodT ts n' = true := by
  rw [goodT_eq] at h ⊢
  rw [htag, hattrs]
  simp only [Bool.and_eq_true] at h ⊢
  exact ⟨nodeOk_mono h.1 (fun ht => by rw [htext ht]; exact ht) hvoid, hcs⟩

/-! ### attributes: `Node.setAttr` keeps the keys allowed and distinct -/

theorem keysNodup_iff (l : List (Str × Str)) : Ser.keysNodup l = true ↔ (l.map Prod.fst).Nodup := by
  induction l with
  | nil => simp [Ser.keysNodup]
  | cons kv r ih =>
    simp only [Ser.keysNodup, Bool.and_eq_true, Bool.not_eq_true', List.map_cons, List.nodup_cons, ih]
    constructor
    · rintro ⟨h1, h2⟩
      refine ⟨?_, h2⟩
      intro hm
      obtain ⟨x, hx, e⟩ := List.mem_map.1 hm
      have : r.any (fun x => decide (x.1 = kv.1)) = true := List.any_eq_true.2 ⟨x, hx, by simp [e]⟩
      rw [this] at h1; cases h1
    · rintro ⟨h1, h2⟩
      refine ⟨?_, h2⟩
      cases hh : r.any (fun x => decide (x.1 = kv.1)) with
      | false => rfl
      | true =>
        obtain ⟨x, hx, e⟩ := List.any_eq_true.1 hh
        exact absurd (List.mem_map.2 ⟨x, hx, by simpa using e⟩) h1

theorem attrsOk_iff (l : List (Str × Str)) :
    attrsOk l = true ↔ (∀ k ∈ l.map Prod.fst, attrOk k = true) ∧ (l.map Prod.fst).Nodup := by
  simp only [attrsOk, Bool.and_eq_true, keysNodup_iff, List.all_eq_true, List.mem_map]
  constructor
  · rintro ⟨h1, h2⟩
    exact ⟨by rintro k ⟨x, hx, rfl⟩; exact h1 x hx, h2⟩
  · rintro ⟨h1, h2⟩
    exact ⟨fun x hx => h1 x.1 ⟨x, hx, rfl⟩, h2⟩

theorem setAttr_keys (n : Node) (k v : Str) :
    (n.setAttr k v).attrs.map Prod.fst =
      if k ∈ n.attrs.map Prod.fst then n.attrs.map Prod.fst else n.attrs.map Prod.fst ++ [k] := by
  unfold Node.setAttr
  by_cases h : n.attrs.any (fun kv => decide (kv.1 = k)) = true
  · have hm : k ∈ n.attrs.map Prod.fst := by
      obtain ⟨x, hx, e⟩ := List.any_eq_true.1 h
      exact List.mem_map.2 ⟨x, hx, by simpa using e⟩
    rw [if_pos h, if_pos hm]
    simp only [List.map_map]
    apply List.map_congr_left
    intro kv _
    simp only [Function.comp]
    split
    · rename_i e; exact e.symm
    · rfl
  · have hm : ¬ k ∈ n.attrs.map Prod.fst := by
      intro hm
      obtain ⟨x, hx, e⟩ := List.mem_map.1 hm
      exact h (List.any_eq_true.2 ⟨x, hx, by simp [e]⟩)
    rw [if_neg h, if_neg hm]
    simp

theorem setAttr_tag (n : Node) (k v : Str) : (n.setAttr k v).tag = n.tag := by
  unfold Node.setAttr; split <;> rfl
theorem setAttr_text (n : Node) (k v : Str) : (n.setAttr k v).text = n.text := by
  unfold Node.setAttr; split <;> rfl
theorem setAttr_children (n : Node) (k v : Str) : (n.setAttr k v).children = n.children := by
  unfold Node.setAttr; split <;> rfl
theorem setAttr_tail (n : Node) (k v : Str) : (n.setAttr k v).tail = n.tail := by
  unfold Node.setAttr; split <;> rfl

theorem attrsOk_setAttr (n : Node) (k v : Str) (h : attrsOk n.attrs = true) (hk : attrOk k = true) :
    attrsOk (n.setAttr k v).attrs = true := by
  rw [attrsOk_iff] at h ⊢
  rw [setAttr_keys]
  split
  · exact h
  · rename_i hm
    refine ⟨?_, ?_⟩
    · intro x hx
      rcases List.mem_append.1 hx with hx | hx
      · exact h.1 x hx
      · simp only [List.mem_singleton] at hx; subst hx; exact hk
    · rw [List.nodup_append]
      refine ⟨h.2, by simp, ?_⟩
      intro a ha b hb
      simp only [List.mem_singleton] at hb; subst hb
      intro e; subst e; exact hm ha

/-- a freshly made element: the conditions that `setAttr` and setting a text keep -/
structure Fresh (ts : List String) (n : Node) : Prop where
  good : GoodT ts n = true
  tail : n.tail = none

theorem Fresh.setAttr {ts : List String} {n : Node} (h : Fresh ts n) (k v : Str) (hk : attrOk k = true) :
    Fresh ts (n.setAttr k v) := by
  refine ⟨?_, by rw [setAttr_tail]; exact h.tail⟩
  have hg := h.good
  rw [goodT_eq] at hg ⊢
  rw [setAttr_tag, setAttr_text, setAttr_children]
  simp only [Bool.and_eq_true] at hg ⊢
  refine ⟨?_, hg.2⟩
  have h1 := hg.1
  cases ht : n.tag with
  | name t =>
    rw [ht] at h1
    simp only [nodeOk, Bool.and_eq_true] at h1 ⊢
    exact ⟨⟨h1.1.1, attrsOk_setAttr n k v h1.1.2 hk⟩, h1.2⟩
  | _ => rw [ht] at h1; simp [nodeOk] at h1

theorem fresh_mkEl (ts : List String) (tag : String) (h : hasTag ts tag.toList = true) : Fresh ts (mkEl tag) := by
  refine ⟨?_, rfl⟩
  simp [mkEl, GoodT, GoodListT, nodeOk, h, attrsOk, Ser.keysNodup, Node.truthy]

/-! ### emphasis: `build` -/

def NonVoid (n : Node) : Prop := ∀ t, n.tag = .name t → isVoidTag t = false

theorem good_nonvoid {ts : List String} {n n' : Node} (h : GoodT ts n = true) (nv : NonVoid n)
    (htag : n'.tag = n.tag) (hattrs : n'.attrs = n.attrs) (hcs : GoodListT ts n'.children = true) :
    GoodT ts n' = true := by
  rw [goodT_eq] at h ⊢
  rw [htag, hattrs]
  simp only [Bool.and_eq_true] at h ⊢
  refine ⟨?_, hcs⟩
  have h1 := h.1
  cases ht : n.tag with
  | name t =>
    rw [ht] at h1
    simp only [nodeOk, Bool.and_eq_true] at h1 ⊢
    exact ⟨h1.1, by simp [nv t ht]⟩
  | _ => rw [ht] at h1; simp [nodeOk] at h1

/-- a parent element under construction -/
structure ParOk (ts : List String) (n : Node) : Prop where
  fresh : Fresh ts n
  nv : NonVoid n

theorem goodList_of_good {ts : List String} {n : Node} (h : GoodT ts n = true) : GoodListT ts n.children = true := by
  rw [goodT_eq, Bool.and_eq_true] at h; exact h.2

theorem ParOk.setText {ts : List String} {n : Node} (h : ParOk ts n) (t : Option Str) (a : Bool) :
    ParOk ts { n with text := t, textAtomic := a } :=
  ⟨⟨good_nonvoid (n' := { n with text := t, textAtomic := a }) h.fresh.good h.nv rfl rfl
      (goodList_of_good (n := n) h.fresh.good), h.fresh.tail⟩, h.nv⟩

theorem ParOk.setChildren {ts : List String} {n : Node} (h : ParOk ts n) (cs : List Node)
    (hcs : GoodListT ts cs = true) : ParOk ts { n with children := cs } :=
  ⟨⟨good_nonvoid h.fresh.good h.nv rfl rfl hcs, h.fresh.tail⟩, h.nv⟩

theorem ParOk.append {ts : List String} {n : Node} (h : ParOk ts n) (c : Node) (hc : GoodT ts c = true) :
    ParOk ts (n.append c) := by
  apply h.setChildren
  rw [goodListT_append]
  exact ⟨goodList_of_good h.fresh.good, by simp [GoodListT, hc]⟩

theorem good_setTail {ts : List String} {n : Node} (h : GoodT ts n = true) (t : Option Str) (a : Bool) :
    GoodT ts { n with tail := t, tailAtomic := a } = true := by
  rw [goodT_eq] at h ⊢; exact h

theorem ParOk.setTextOrTail {ts : List String} {n : Node} (h : ParOk ts n) (hl : Bool) (text : Str) :
    ParOk ts (setTextOrTail n hl text) := by
  unfold Inline.setTextOrTail
  split
  · exact h
  · split
    · split
      · rename_i l hlast
        unfold Node.setLast
        apply h.setChildren
        have hk := (goodListT_iff ts _).1 (goodList_of_good h.fresh.good)
        rw [goodListT_append]
        refine ⟨(goodListT_iff ts _).2 (fun c hc => hk c (List.dropLast_subset _ hc)), ?_⟩
        have hl : GoodT ts l = true := hk l (List.mem_of_getLast? hlast)
        simp [GoodListT, good_setTail hl]
      · exact h
    · exact h.setText _ _

theorem parOk_mkEl (ts : List String) (tag : String) (h : hasTag ts tag.toList = true)
    (hv : isVoidTag tag.toList = false) : ParOk ts (mkEl tag) :=
  ⟨fresh_mkEl ts tag h, by intro t ht; simp only [mkEl, Tag.name.injEq] at ht; subst ht; exact hv⟩

/-- the callback of `parseSub` -/
def BuildOk (ts : List String) (items : List EmItem) (b : List Str → EmItem → Nat → Option Node) : Prop :=
  ∀ g item j el, item ∈ items → b g item j = some el → Fresh ts el

theorem subTry_ok {ts : List String} {items : List EmItem} {b : List Str → EmItem → Nat → Option Node}
    (hb : BuildOk ts items b) (data : Str) (c : Char) (idx : Nat) :
    ∀ (l : List EmItem) (index : Nat) (s s' : SubSt), (∀ it ∈ l, it ∈ items) → ParOk ts s.parent →
      subTry b data c idx l index s = some s' → ParOk ts s'.parent := by
  intro l
  induction l with
  | nil => intro index s s' _ hp h; simp only [subTry, Option.some.injEq] at h; subst h; exact hp
  | cons item rest ih =>
    intro index s s' hl hp h
    have hrest : ∀ it ∈ rest, it ∈ items := fun it hit => hl it (List.mem_cons_of_mem _ hit)
    simp only [subTry] at h
    split at h
    · exact ih _ _ _ hrest hp h
    · split at h
      · exact ih _ _ _ hrest hp h
      · rename_i e groups hm
        split at h
        · cases h
        · rename_i el hbuild
          have hel := hb groups item index el (hl item (List.mem_cons_self)) hbuild
          refine ih _ _ _ hrest ?_ h
          exact (hp.setTextOrTail _ _).append el hel.good

theorem subLoop_ok {ts : List String} {b : List Str → EmItem → Nat → Option Node} (data : Str) (c : Char)
    (hb : BuildOk ts (emPatterns c) b) (idx : Nat) :
    ∀ (g : Nat) (s s' : SubSt), ParOk ts s.parent → subLoop b data c idx g s = some s' → ParOk ts s'.parent := by
  intro g
  induction g with
  | zero => intro s s' _ h; simp [subLoop] at h
  | succ g ih =>
    intro s s' hp h
    simp only [subLoop] at h
    split at h
    · split at h
      · split at h
        · cases h
        · rename_i s1 hs1
          have h1 : ParOk ts s1.parent :=
            subTry_ok hb data c idx _ 0 { s with matched := false } s1 (fun _ h => h) hp hs1
          refine ih _ _ ?_ h
          split
          · exact h1
          · exact h1
      · exact ih { s with pos := s.pos + 1 } _ hp h
    · simp only [Option.some.injEq] at h; subst h; exact hp

theorem parseSub_ok {ts : List String} {b : List Str → EmItem → Nat → Option Node} (data : Str) (c : Char)
    (hb : BuildOk ts (emPatterns c) b) (parent : Node) (hl : Bool) (idx : Nat) (n : Node)
    (hp : ParOk ts parent) (h : parseSub b data parent hl idx c = some n) : ParOk ts n := by
  simp only [parseSub] at h
  split at h
  · cases h
  · rename_i s hs
    simp only [Option.some.injEq] at h; subst h
    exact (subLoop_ok data c hb idx _ _ s hp hs).setTextOrTail _ _

theorem emPatterns_tags (c : Char) (item : EmItem) (h : item ∈ emPatterns c) :
    (item.tag1 = "em" ∨ item.tag1 = "strong") ∧ (item.tag2 = "em" ∨ item.tag2 = "strong" ∨ item.builder = .single) := by
  unfold emPatterns at h
  split at h
  · simp only [starPatterns, List.mem_cons, List.not_mem_nil, or_false] at h
    rcases h with h | h | h | h | h <;> subst h <;> simp
  · simp only [underPatterns, List.mem_cons, List.not_mem_nil, or_false] at h
    rcases h with h | h | h | h | h <;> subst h <;> simp

theorem parOk_em (tag : String) (h : tag = "em" ∨ tag = "strong") : ParOk inlineTags (mkEl tag) := by
  rcases h with h | h <;> subst h <;> exact parOk_mkEl _ _ (by decide) (by decide)

theorem build_ok (c : Char) : ∀ (f : Nat), BuildOk inlineTags (emPatterns c) (build c f) := by
  intro f
  induction f with
  | zero => intro g item j el _ h; simp [build] at h
  | succ f ih =>
    intro groups item idx el hitem h
    have htags := emPatterns_tags c item hitem
    have hsub : ∀ (d : Str) (p : Node) (hl : Bool) (n : Node), ParOk inlineTags p →
        parseSub (fun g i j => build c f g i j) d p hl idx c = some n → ParOk inlineTags n :=
      fun d p hl n hp hn => parseSub_ok d c ih p hl idx n hp hn
    simp only [build] at h
    split at h
    · exact (hsub _ _ _ _ (parOk_em _ htags.1) h).fresh
    · rename_i hbld
      have ht2 : item.tag2 = "em" ∨ item.tag2 = "strong" := by
        rcases htags.2 with h2 | h2 | h2
        · exact Or.inl h2
        · exact Or.inr h2
        · rw [hbld] at h2; cases h2
      split at h
      · cases h
      · rename_i el2 hel2
        have p2 := hsub _ _ _ _ (parOk_em _ ht2) hel2
        have p1 : ParOk inlineTags ((mkEl item.tag1).append el2) := (parOk_em _ htags.1).append el2 p2.fresh.good
        split at h
        · exact (hsub _ _ _ _ p1 h).fresh
        · simp only [Option.some.injEq] at h; subst h; exact p1.fresh
    · rename_i hbld
      have ht2 : item.tag2 = "em" ∨ item.tag2 = "strong" := by
        rcases htags.2 with h2 | h2 | h2
        · exact Or.inl h2
        · exact Or.inr h2
        · rw [hbld] at h2; cases h2
      split at h
      · rename_i el1 el2 h1 h2
        simp only [Option.some.injEq] at h; subst h
        exact ((hsub _ _ _ _ (parOk_em _ htags.1) h1).append el2 (hsub _ _ _ _ (parOk_em _ ht2) h2).fresh.good).fresh
      · cases h

/-! ### the elements a pattern constructs -/

theorem ParOk.setAttr {ts : List String} {n : Node} (h : ParOk ts n) (k v : Str) (hk : attrOk k = true) :
    ParOk ts (n.setAttr k v) :=
  ⟨h.fresh.setAttr k v hk, by intro t ht; rw [setAttr_tag] at ht; exact h.nv t ht⟩

theorem emHandle_ok (data : Str) (i : Nat) (c : Char) :
    ∀ (l : List EmItem) (idx : Nat) (el : Node) (e : Nat), (∀ it ∈ l, it ∈ emPatterns c) →
      emHandle data i c l idx = some (some (el, e)) → Fresh inlineTags el := by
  intro l
  induction l with
  | nil => intro idx el e _ h; simp [emHandle] at h
  | cons item rest ih =>
    intro idx el e hl h
    simp only [emHandle] at h
    split at h
    · split at h
      · rename_i el' hb
        simp only [Option.some.injEq, Prod.mk.injEq] at h
        obtain ⟨h1, _⟩ := h; subst h1
        exact build_ok c _ _ item idx _ (hl item List.mem_cons_self) hb
      · cases h
    · exact ih _ _ _ (fun it hit => hl it (List.mem_cons_of_mem _ hit)) h

theorem emScan_ok (data : Str) (c : Char) :
    ∀ (suf : Str) (i : Nat) (el : Node) (s e : Nat), emScan data c suf i = some (some (el, s, e)) →
      Fresh inlineTags el := by
  intro suf
  induction suf with
  | nil => intro i el s e h; simp [emScan] at h
  | cons ch r ih =>
    intro i el s e h
    simp only [emScan] at h
    split at h
    · split at h
      · cases h
      · rename_i el' e' hh
        simp only [Option.some.injEq, Prod.mk.injEq] at h
        obtain ⟨h1, _⟩ := h; subst h1
        exact emHandle_ok data i c _ 0 _ _ (fun _ h => h) hh
      · exact ih _ _ _ _ h
    · exact ih _ _ _ _ h

theorem linkHandle_ok (cfg : Cfg) (stash : List StashItem) (pi : Nat) (data : Str) (mstart mend : Nat) (f : Found)
    (h : linkHandle cfg stash pi data mstart mend = some f) (n : Node) (hn : f.node = .el n) :
    Fresh inlineTags n := by
  have himg : Fresh inlineTags (mkEl "img") := fresh_mkEl _ _ (by decide)
  have ha : ParOk inlineTags (mkEl "a") := parOk_mkEl _ _ (by decide) (by decide)
  have khref : attrOk "href".toList = true := by decide
  have ktitle : attrOk "title".toList = true := by decide
  have ksrc : attrOk "src".toList = true := by decide
  have kalt : attrOk "alt".toList = true := by decide
  unfold linkHandle at h
  simp only [] at h
  split at h
  · cases h
  · split at h
    · split at h
      · cases h
      · simp only [Option.some.injEq] at h; subst h
        simp only [PNode.el.injEq] at hn; subst hn
        split
        · apply Fresh.setAttr _ _ _ kalt
          split
          · exact (himg.setAttr _ _ ksrc).setAttr _ _ ktitle
          · exact himg.setAttr _ _ ksrc
        · split
          · exact (((ha.setText _ _).setAttr _ _ khref).setAttr _ _ ktitle).fresh
          · exact ((ha.setText _ _).setAttr _ _ khref).fresh
    · split at h
      · cases h
      · split at h
        · simp only [Option.some.injEq] at h; subst h; cases hn
        · simp only [Option.some.injEq] at h; subst h
          simp only [PNode.el.injEq] at hn; subst hn
          split
          · apply Fresh.setAttr _ _ _ kalt
            split
            · exact (himg.setAttr _ _ ksrc).setAttr _ _ ktitle
            · exact himg.setAttr _ _ ksrc
          · rename_i href title _ _
            have he : ParOk inlineTags (if Node.truthy title = true then
                ((mkEl "a").setAttr "href".toList href).setAttr "title".toList (title.getD [])
                else (mkEl "a").setAttr "href".toList href) := by
              split
              · exact (ha.setAttr _ _ khref).setAttr _ _ ktitle
              · exact ha.setAttr _ _ khref
            exact (he.setText _ _).fresh

theorem linkScan_ok (cfg : Cfg) (stash : List StashItem) (pi : Nat) (data : Str) :
    ∀ (suf : Str) (prev : Option Char) (i : Nat) (f : Found), linkScan cfg stash pi data prev suf i = some f →
      ∀ n, f.node = .el n → Fresh inlineTags n := by
  intro suf
  induction suf with
  | nil => intro prev i f h; simp [linkScan] at h
  | cons ch r ih =>
    intro prev i f h
    simp only [linkScan] at h
    split at h
    · rename_i f' hf'
      simp only [Option.some.injEq] at h; subst h
      split at hf'
      · split at hf'
        · exact linkHandle_ok _ _ _ _ _ _ _ hf'
        · cases hf'
      · split at hf'
        · exact linkHandle_ok _ _ _ _ _ _ _ hf'
        · cases hf'
    · exact ih _ _ _ h

/-- **every element a pattern constructs** is a fresh element of the inline vocabulary; the node stash is not
    touched by the search -/
theorem findMatch_ok (cfg : Cfg) (pi : Nat) (data : Str) (si : Nat) (st st' : St) (f : Found)
    (h : findMatch cfg pi data si st = some (some f, st')) :
    st'.stash = st.stash ∧ ∀ n, f.node = .el n → Fresh inlineTags n := by
  unfold findMatch at h
  simp only [] at h
  split at h
  · cases h
  · split at h
    · -- 0 backtick
      split at h
      · split at h
        · simp only [Option.some.injEq, Prod.mk.injEq] at h
          obtain ⟨h1, h2⟩ := h; subst h1; subst h2
          refine ⟨rfl, ?_⟩
          intro n hn
          simp only [PNode.el.injEq] at hn; subst hn
          exact ((parOk_mkEl inlineTags "code" (by decide) (by decide)).setText _ _).fresh
        · simp only [Option.some.injEq, Prod.mk.injEq] at h
          obtain ⟨h1, h2⟩ := h; subst h1; subst h2
          exact ⟨rfl, fun n hn => by cases hn⟩
      · cases h
    · -- 1 escape
      split at h
      · simp only [Option.some.injEq, Prod.mk.injEq] at h
        obtain ⟨h1, h2⟩ := h; subst h1; subst h2
        refine ⟨rfl, ?_⟩
        intro n hn
        simp only [] at hn
        split at hn <;> cases hn
      · cases h
    · -- 10 linebreak
      split at h
      · simp only [Option.some.injEq, Prod.mk.injEq] at h
        obtain ⟨h1, h2⟩ := h; subst h1; subst h2
        refine ⟨rfl, ?_⟩
        intro n hn
        simp only [PNode.el.injEq] at hn; subst hn
        exact fresh_mkEl _ _ (by decide)
      · cases h
    · -- 12 entity
      split at h
      · simp only [Option.some.injEq, Prod.mk.injEq] at h
        obtain ⟨h1, h2⟩ := h; subst h1; subst h2
        exact ⟨rfl, fun n hn => by cases hn⟩
      · cases h
    · -- 13 not_strong
      split at h
      · simp only [Option.some.injEq, Prod.mk.injEq] at h
        obtain ⟨h1, h2⟩ := h; subst h1; subst h2
        exact ⟨rfl, fun n hn => by cases hn⟩
      · cases h
    · -- 14 em_strong
      split at h
      · cases h
      · cases h
      · rename_i el s e hscan
        simp only [Option.some.injEq, Prod.mk.injEq] at h
        obtain ⟨h1, h2⟩ := h; subst h1; subst h2
        refine ⟨rfl, ?_⟩
        intro n hn
        simp only [PNode.el.injEq] at hn; subst hn
        exact emScan_ok _ _ _ _ _ _ _ hscan
    · -- 15 em_strong2
      split at h
      · cases h
      · cases h
      · rename_i el s e hscan
        simp only [Option.some.injEq, Prod.mk.injEq] at h
        obtain ⟨h1, h2⟩ := h; subst h1; subst h2
        refine ⟨rfl, ?_⟩
        intro n hn
        simp only [PNode.el.injEq] at hn; subst hn
        exact emScan_ok _ _ _ _ _ _ _ hscan
    · cases h
    · cases h
    · cases h
    · split at h
      · simp only [Option.some.injEq, Prod.mk.injEq] at h
        obtain ⟨h1, h2⟩ := h; subst h2
        exact ⟨rfl, linkScan_ok _ _ _ _ _ _ _ _ h1⟩
      · cases h

/-! ### the stash, `applyPattern`, `handleInline` -/

/-- every element in the stash is a fresh element of the inline vocabulary (in particular without a tail) -/
def StashOk (stash : List StashItem) : Prop := ∀ n, StashItem.node n ∈ stash → Fresh inlineTags n

theorem stashOk_nil : StashOk [] := by intro n hn; cases hn

theorem stashOk_append {stash : List StashItem} (h : StashOk stash) (it : StashItem)
    (hit : ∀ n, it = .node n → Fresh inlineTags n) : StashOk (stash ++ [it]) := by
  intro n hn
  rcases List.mem_append.1 hn with hn | hn
  · exact h n hn
  · simp only [List.mem_singleton] at hn; exact hit n hn.symm

def HIok (hi : HI) : Prop :=
  ∀ d p st d' st', hi d p st = some (d', st') → StashOk st.stash → StashOk st'.stash

theorem hiOpt_ok {hi : HI} (hhi : HIok hi) (t : Option Str) (atomic : Bool) (pi : Nat) (st : St) (t' : Option Str)
    (st' : St) (h : hiOpt hi t atomic pi st = some (t', st')) (hs : StashOk st.stash) :
    StashOk st'.stash ∧ (Node.truthy t = false → t' = t) := by
  unfold hiOpt at h
  split at h
  · rename_i hc
    split at h
    · rename_i d st1 hh
      simp only [Option.some.injEq, Prod.mk.injEq] at h
      obtain ⟨h1, h2⟩ := h; subst h1; subst h2
      refine ⟨hhi _ _ _ _ _ hh hs, ?_⟩
      intro hf; rw [hf] at hc; simp at hc
    · cases h
  · simp only [Option.some.injEq, Prod.mk.injEq] at h
    obtain ⟨h1, h2⟩ := h; subst h1; subst h2
    exact ⟨hs, fun _ => rfl⟩

theorem hiNode_ok {hi : HI} (hhi : HIok hi) (pi : Nat) (n : Node) (st : St) (n' : Node) (st' : St)
    (h : hiNode hi pi n st = some (n', st')) (hs : StashOk st.stash) :
    StashOk st'.stash ∧ Keeps n n' ∧ (Node.truthy n.tail = false → n'.tail = n.tail) := by
  unfold hiNode at h
  split at h
  · cases h
  · rename_i t st1 h1
    split at h
    · cases h
    · rename_i tl st2 h2
      simp only [Option.some.injEq, Prod.mk.injEq] at h
      obtain ⟨e1, e2⟩ := h; subst e1; subst e2
      have r1 := hiOpt_ok hhi _ _ _ _ _ _ h1 hs
      have r2 := hiOpt_ok hhi _ _ _ _ _ _ h2 r1.1
      exact ⟨r2.1, ⟨rfl, rfl, r1.2, rfl⟩, r2.2⟩

theorem hiNodes_ok {hi : HI} (hhi : HIok hi) (pi : Nat) (ts : List String) :
    ∀ (ns : List Node) (st : St) (ns' : List Node) (st' : St), hiNodes hi pi ns st = some (ns', st') →
      StashOk st.stash →
      StashOk st'.stash ∧ (GoodListT ts ns = true → GoodListT ts ns' = true) ∧ (ns = [] → ns' = []) := by
  intro ns
  induction ns with
  | nil =>
    intro st ns' st' h hs
    simp only [hiNodes, Option.some.injEq, Prod.mk.injEq] at h
    obtain ⟨e1, e2⟩ := h; subst e1; subst e2
    exact ⟨hs, fun h => h, fun _ => rfl⟩
  | cons n r ih =>
    intro st ns' st' h hs
    simp only [hiNodes] at h
    split at h
    · cases h
    · rename_i n1 st1 h1
      split at h
      · cases h
      · rename_i r1 st2 h2
        simp only [Option.some.injEq, Prod.mk.injEq] at h
        obtain ⟨e1, e2⟩ := h; subst e1; subst e2
        have q1 := hiNode_ok hhi _ _ _ _ _ h1 hs
        have q2 := ih _ _ _ h2 q1.1
        refine ⟨q2.1, ?_, fun e => by cases e⟩
        intro hg
        simp only [GoodListT, Bool.and_eq_true] at hg ⊢
        exact ⟨q1.2.1.good hg.1, q2.2.1 hg.2⟩

def APok (ap : Nat → Str → Nat → St → Option (Str × Bool × Nat × St)) : Prop :=
  ∀ pi d si st d' m si' st', ap pi d si st = some (d', m, si', st') → StashOk st.stash → StashOk st'.stash

/-- the `.el` branch of `applyPattern`: the nested `handleInline` calls on the new element -/
def elStep (hi : HI) (pi : Nat) (n : Node) (st : St) : Option (Node × St) :=
  if n.text.isSome && n.textAtomic then some (n, st)
  else
    match hiNode hi pi { n with children := [] } st with
    | none => none
    | some (n1, st1) =>
      match hiNodes hi pi n.children st1 with
      | none => none
      | some (kids, st2) => some ({ n1 with children := kids }, st2)

theorem applyPattern_eq (cfg : Cfg) (hi : HI) (pi : Nat) (data : Str) (si : Nat) (st : St) :
    applyPattern cfg hi pi data si st =
      match findMatch cfg pi data si st with
      | none => none
      | some (none, st) => some (data, false, 0, st)
      | some (some f, st) =>
        match f.node with
        | .none => some (data, true, f.stop.toNat, st)
        | .str s =>
          let (ph, st') := stashNode st (.str s)
          some (data.take f.start ++ ph ++ pyDrop data f.stop, true, 0, st')
        | .el n =>
          match elStep hi pi n st with
          | none => none
          | some (n', st1) =>
            let (ph, st2) := stashNode st1 (.node n')
            some (data.take f.start ++ ph ++ pyDrop data f.stop, true, 0, st2) := by
  unfold applyPattern elStep; rfl

theorem elStep_ok {hi : HI} (hhi : HIok hi) (pi : Nat) (n : Node) (st : St) (n' : Node) (st' : St)
    (h : elStep hi pi n st = some (n', st')) (hfresh : Fresh inlineTags n) (hs : StashOk st.stash) :
    StashOk st'.stash ∧ Fresh inlineTags n' := by
  unfold elStep at h
  split at h
  · simp only [Option.some.injEq, Prod.mk.injEq] at h
    obtain ⟨e1, e2⟩ := h; subst e1; subst e2
    exact ⟨hs, hfresh⟩
  · split at h
    · cases h
    · rename_i n1 st3 h1
      split at h
      · cases h
      · rename_i kids st4 h2
        simp only [Option.some.injEq, Prod.mk.injEq] at h
        obtain ⟨e1, e2⟩ := h; subst e1; subst e2
        have q1 := hiNode_ok hhi _ _ _ _ _ h1 hs
        have q2 := hiNodes_ok hhi _ inlineTags _ _ _ _ h2 q1.1
        refine ⟨q2.1, ?_, ?_⟩
        · exact good_children (n := n) hfresh.good q1.2.1.tag q1.2.1.attrs q1.2.1.text
            (q2.2.1 (goodList_of_good hfresh.good)) (fun _ e => q2.2.2 e)
        · show n1.tail = none
          have := q1.2.2 (by show Node.truthy n.tail = false; rw [hfresh.tail]; rfl)
          rw [this]; exact hfresh.tail

theorem findMatch_none_stash (cfg : Cfg) (pi : Nat) (data : Str) (si : Nat) (st st1 : St)
    (hf : findMatch cfg pi data si st = some (none, st1)) : st1.stash = st.stash := by
  unfold findMatch at hf
  simp only [] at hf
  repeat' split at hf
  all_goals
    (first
      | (cases hf; rfl)
      | cases hf
      | (simp only [Option.some.injEq, Prod.mk.injEq] at hf; rw [← hf.2]))

theorem applyPattern_ok (cfg : Cfg) {hi : HI} (hhi : HIok hi) : APok (applyPattern cfg hi) := by
  intro pi data si st d' m si' st' h hs
  rw [applyPattern_eq] at h
  split at h
  · cases h
  · rename_i st1 hf
    simp only [Option.some.injEq, Prod.mk.injEq] at h
    obtain ⟨_, _, _, e⟩ := h; subst e
    rw [findMatch_none_stash _ _ _ _ _ _ hf]; exact hs
  · rename_i f st1 hf
    have hfm := findMatch_ok _ _ _ _ _ _ _ hf
    have hs1 : StashOk st1.stash := by rw [hfm.1]; exact hs
    split at h
    · simp only [Option.some.injEq, Prod.mk.injEq] at h
      obtain ⟨_, _, _, e⟩ := h; subst e; exact hs1
    · simp only [stashNode, Option.some.injEq, Prod.mk.injEq] at h
      obtain ⟨_, _, _, e⟩ := h; subst e
      exact stashOk_append hs1 _ (fun n hn => by cases hn)
    · rename_i n hnode
      have hfresh := hfm.2 n hnode
      split at h
      · cases h
      · rename_i n' st2 hr
        simp only [stashNode, Option.some.injEq, Prod.mk.injEq] at h
        obtain ⟨_, _, _, e⟩ := h; subst e
        have q := elStep_ok hhi _ _ _ _ _ hr hfresh hs1
        exact stashOk_append q.1 _ (fun m hm => by cases hm; exact q.2)

theorem hiLoop_ok {ap : Nat → Str → Nat → St → Option (Str × Bool × Nat × St)} (hap : APok ap) :
    ∀ (g : Nat) (data : Str) (pi si : Nat) (st : St) (d' : Str) (st' : St),
      hiLoop ap g data pi si st = some (d', st') → StashOk st.stash → StashOk st'.stash := by
  intro g
  induction g with
  | zero => intro data pi si st d' st' h; simp [hiLoop] at h
  | succ g ih =>
    intro data pi si st d' st' h hs
    simp only [hiLoop] at h
    split at h
    · split at h
      · cases h
      · rename_i d m si1 st1 h1
        exact ih _ _ _ _ _ _ h (hap _ _ _ _ _ _ _ _ h1 hs)
    · simp only [Option.some.injEq, Prod.mk.injEq] at h
      obtain ⟨_, e⟩ := h; subst e; exact hs

theorem handleInline_ok (cfg : Cfg) : ∀ (f : Nat), HIok (handleInline cfg f) := by
  intro f
  induction f with
  | zero => intro d p st d' st' h; simp [handleInline] at h
  | succ f ih =>
    intro d p st d' st' h hs
    simp only [handleInline] at h
    exact hiLoop_ok (applyPattern_ok cfg ih) _ _ _ _ _ _ _ h hs

theorem handleInlineTop_ok (cfg : Cfg) (data : Str) (st : St) (d' : Str) (st' : St)
    (h : handleInlineTop cfg data st = some (d', st')) (hs : StashOk st.stash) : StashOk st'.stash :=
  handleInline_ok cfg _ _ _ _ _ _ h hs

/-! ### `processPlaceholders` -/

/-- what `linkText` may do to the parent: change its tail, or (for `isText`) its text -/
structure Skel (isText : Bool) (p p' : Node) : Prop where
  tag : p'.tag = p.tag
  attrs : p'.attrs = p.attrs
  children : p'.children = p.children
  text : isText = false → p'.text = p.text

theorem Skel.refl (it : Bool) (p : Node) : Skel it p p := ⟨rfl, rfl, rfl, fun _ => rfl⟩

theorem Skel.trans {it : Bool} {a b c : Node} (h1 : Skel it a b) (h2 : Skel it b c) : Skel it a c :=
  ⟨h2.tag.trans h1.tag, h2.attrs.trans h1.attrs, h2.children.trans h1.children,
   fun h => (h2.text h).trans (h1.text h)⟩

abbrev GoodI (n : Node) : Bool := GoodT inlineTags n

theorem linkText_ok (text : Str) (atomic isText : Bool) (result : List Node) (parent : Node)
    (hr : ∀ n ∈ result, GoodI n = true) :
    (∀ n ∈ (linkText text atomic isText result parent).1, GoodI n = true) ∧
      Skel isText parent (linkText text atomic isText result parent).2 := by
  unfold linkText
  split
  · exact ⟨hr, Skel.refl _ _⟩
  · split
    · rename_i l r
      have hl : GoodI l = true := hr l List.mem_cons_self
      have hrest : ∀ n ∈ r, GoodI n = true := fun n hn => hr n (List.mem_cons_of_mem _ hn)
      split
      · refine ⟨?_, Skel.refl _ _⟩
        intro n hn
        rcases List.mem_cons.1 hn with e | hn
        · subst e; exact good_setTail hl _ _
        · exact hrest n hn
      · refine ⟨?_, Skel.refl _ _⟩
        intro n hn
        rcases List.mem_cons.1 hn with e | hn
        · subst e; exact good_setTail hl _ _
        · exact hrest n hn
    · split
      · split
        · exact ⟨by simp, ⟨rfl, rfl, rfl, fun _ => rfl⟩⟩
        · exact ⟨by simp, ⟨rfl, rfl, rfl, fun _ => rfl⟩⟩
      · rename_i hit
        have : isText = true := by simpa using hit
        split
        · exact ⟨by simp, ⟨rfl, rfl, rfl, fun h => by rw [this] at h; cases h⟩⟩
        · exact ⟨by simp, ⟨rfl, rfl, rfl, fun h => by rw [this] at h; cases h⟩⟩

def NestedOk (nested : Node → Option Node) : Prop :=
  ∀ n n', Fresh inlineTags n → nested n = some n' → GoodI n' = true

theorem stashGet_mem (stash : List StashItem) (id : Str) (it : StashItem) (h : stashGet stash id = some it) :
    it ∈ stash := by
  unfold stashGet at h
  simp only [] at h
  split at h
  · exact List.mem_of_getElem? h
  · cases h

theorem ppLoop_ok {stash : List StashItem} (hs : StashOk stash) {nested : Node → Option Node}
    (hn : NestedOk nested) (data : Str) (atomic isText : Bool) :
    ∀ (g start : Nat) (result : List Node) (parent : Node) (res : List Node) (parent' : Node),
      (∀ n ∈ result, GoodI n = true) →
      ppLoop stash nested data atomic isText g start result parent = some (res, parent') →
      (∀ n ∈ res, GoodI n = true) ∧ Skel isText parent parent' := by
  intro g
  induction g with
  | zero => intro start result parent res parent' _ h; simp [ppLoop] at h
  | succ g ih =>
    intro start result parent res parent' hr h
    simp only [ppLoop] at h
    have hpre : ∀ (c : Prop) [Decidable c] (t : Str),
        (∀ n ∈ (if c then linkText t false isText result parent else (result, parent)).1, GoodI n = true) ∧
          Skel isText parent (if c then linkText t false isText result parent else (result, parent)).2 := by
      intro c _ t
      split
      · exact linkText_ok _ _ _ _ _ hr
      · exact ⟨hr, Skel.refl _ _⟩
    split at h
    · rename_i off _
      split at h
      · rename_i item hitem
        have hmem : item ∈ stash := by
          cases hid : (findPh data (start + off)).fst with
          | none => rw [hid] at hitem; cases hitem
          | some id => rw [hid] at hitem; exact stashGet_mem _ _ _ hitem
        have p1 := hpre (start + off > 0) (slice data start (start + off))
        split at h
        · rename_i n
          split at h
          · cases h
          · rename_i n' hn'
            have hg : GoodI n' = true := hn n n' (hs n hmem) hn'
            have q := ih _ _ _ _ _ (fun m hm => by
              rcases List.mem_cons.1 hm with e | hm
              · subst e; exact hg
              · exact p1.1 m hm) h
            exact ⟨q.1, p1.2.trans q.2⟩
        · rename_i s
          have p2 := linkText_ok s false isText _
            (if start + off > 0 then linkText (slice data start (start + off)) false isText result parent
              else (result, parent)).snd p1.1
          have q := ih _ _ _ _ _ p2.1 h
          exact ⟨q.1, (p1.2.trans p2.2).trans q.2⟩
      · have p1 := linkText_ok (slice data start (start + off + phPrefixLen)) false isText result parent hr
        have q := ih _ _ _ _ _ p1.1 h
        exact ⟨q.1, p1.2.trans q.2⟩
    · simp only [Option.some.injEq, Prod.mk.injEq] at h
      obtain ⟨e1, e2⟩ := h; subst e1; subst e2
      have p1 := linkText_ok (List.drop start data) atomic isText result parent hr
      exact ⟨fun n hn => p1.1 n (List.mem_reverse.1 hn), p1.2⟩

/-- the recursive call of `processPlaceholders`: the new elements are good, the parent keeps its shape -/
def PPok (pp : PP) : Prop :=
  ∀ d a parent isText res parent', pp d a parent isText = some (res, parent') →
    GoodListT inlineTags res = true ∧ Skel isText parent parent'

/-- generic over the tag list: only the new elements are in the inline vocabulary, the child can be any element -/
theorem petTail_ok {pp : PP} (hpp : PPok pp) (ts : List String) (c c' : Node) (res : List Node)
    (h : petTail pp c = some (c', res)) (hc : GoodT ts c = true) :
    GoodT ts c' = true ∧ GoodListT inlineTags res = true ∧ c'.tag = c.tag ∧
      (Node.truthy c.tail = false → c' = c ∧ res = []) := by
  unfold petTail at h
  split at h
  · rename_i hcond
    split at h
    · rename_i r c1 hh
      simp only [Option.some.injEq, Prod.mk.injEq] at h
      obtain ⟨e1, e2⟩ := h; subst e1; subst e2
      have q := hpp _ _ _ _ _ _ hh
      refine ⟨?_, q.1, q.2.tag, ?_⟩
      · have k : Keeps c c1 := ⟨q.2.tag, q.2.attrs, fun _ => q.2.text rfl, q.2.children⟩
        exact k.good hc
      · intro hf; rw [hf] at hcond; simp at hcond
    · cases h
  · simp only [Option.some.injEq, Prod.mk.injEq] at h
    obtain ⟨e1, e2⟩ := h; subst e1; subst e2
    exact ⟨hc, by simp [GoodListT], rfl, fun _ => ⟨rfl, rfl⟩⟩

/-- here the child must accept inline elements as children: stated for a tag list containing the inline tags -/
theorem petText_ok {pp : PP} (hpp : PPok pp) (ts : List String)
    (hts : ∀ t, hasTag inlineTags t = true → hasTag ts t = true) (c c2 : Node)
    (h : petText pp c = some c2) (hc : GoodT ts c = true) :
    GoodT ts c2 = true ∧ c2.tag = c.tag ∧ c2.attrs = c.attrs ∧ (Node.truthy c.text = false → c2 = c) := by
  unfold petText at h
  split at h
  · rename_i hcond
    have htr : Node.truthy c.text = true := by
      simp only [Bool.and_eq_true] at hcond; exact hcond.1
    split at h
    · rename_i r c1 hh
      simp only [Option.some.injEq] at h; subst h
      have q := hpp _ _ _ _ _ _ hh
      refine ⟨?_, q.2.tag, q.2.attrs, fun hf => by rw [hf] at htr; cases htr⟩
      refine good_children (n := c) hc q.2.tag q.2.attrs (fun hf => by rw [hf] at htr; cases htr) ?_
        (fun hf => by rw [hf] at htr; cases htr)
      show GoodListT ts (r ++ c1.children) = true
      rw [goodListT_append, q.2.children]
      exact ⟨goodListT_subset hts _ q.1, goodList_of_good (n := c) hc⟩
    · cases h
  · simp only [Option.some.injEq] at h; subst h
    exact ⟨hc, rfl, rfl, fun _ => rfl⟩

theorem procKids_ok {pp : PP} (hpp : PPok pp) :
    ∀ (l l' : List Node), procKids pp l = some l' → GoodListT inlineTags l = true →
      GoodListT inlineTags l' = true := by
  intro l
  induction l with
  | nil => intro l' h _; simp only [procKids, Option.some.injEq] at h; subst h; simp [GoodListT]
  | cons c r ih =>
    intro l' h hg
    simp only [GoodListT, Bool.and_eq_true] at hg
    simp only [procKids] at h
    split at h
    · cases h
    · rename_i c1 res h1
      split at h
      · cases h
      · rename_i c2 h2
        split at h
        · cases h
        · rename_i r' h3
          simp only [Option.some.injEq] at h; subst h
          have q1 := petTail_ok hpp inlineTags _ _ _ h1 hg.1
          have q2 := petText_ok hpp inlineTags (fun _ h => h) _ _ h2 q1.1
          have q3 := ih _ h3 hg.2
          rw [goodListT_append]
          refine ⟨?_, q3⟩
          simp only [GoodListT, Bool.and_eq_true]
          exact ⟨q2.1, q1.2.1⟩

theorem procNode_ok {pp : PP} (hpp : PPok pp) : NestedOk (procNode pp) := by
  intro node n' hf h
  unfold procNode at h
  simp only [] at h
  split at h
  · cases h
  · rename_i n1 tailRes h1
    split at h
    · cases h
    · rename_i n2 h2
      split at h
      · cases h
      · rename_i kids h3
        simp only [Option.some.injEq] at h; subst h
        have hg0 : GoodI { node with children := [] } = true :=
          good_children (n := node) hf.good rfl rfl (fun _ => rfl) (by simp [GoodListT]) (fun _ _ => rfl)
        have q1 := petTail_ok hpp inlineTags _ _ _ h1 hg0
        have e1 := q1.2.2.2 (by show Node.truthy node.tail = false; rw [hf.tail]; rfl)
        obtain ⟨e1a, e1b⟩ := e1; subst e1a; subst e1b
        have q2 := petText_ok hpp inlineTags (fun _ h => h) _ _ h2 hg0
        have q3 := procKids_ok hpp _ _ h3 (goodList_of_good hf.good)
        have hkg : GoodListT inlineTags (n2.children ++ [] ++ kids) = true := by
          rw [goodListT_append, goodListT_append]
          exact ⟨⟨goodList_of_good q2.1, by simp [GoodListT]⟩, q3⟩
        have hg := hf.good
        rw [goodT_eq, Bool.and_eq_true] at hg
        show GoodT inlineTags { n2 with children := n2.children ++ [] ++ kids } = true
        rcases nodeOk_void_or hg.1 with hany | ⟨hnt, hnc⟩
        · rw [goodT_eq, Bool.and_eq_true]
          refine ⟨?_, hkg⟩
          show nodeOk inlineTags n2.tag n2.attrs n2.text (n2.children ++ [] ++ kids) = true
          rw [q2.2.1, q2.2.2.1]; exact hany _ _
        · have e2 := q2.2.2.2 hnt
          subst e2
          have ek : kids = [] := by
            rw [hnc] at h3; simp only [procKids, Option.some.injEq] at h3; exact h3.symm
          subst ek
          exact good_children (n := node) hf.good rfl rfl (fun _ => rfl) hkg (fun _ _ => rfl)

theorem processPlaceholders_ok {stash : List StashItem} (hs : StashOk stash) :
    ∀ (f : Nat), PPok (processPlaceholders stash f) := by
  intro f
  induction f with
  | zero => intro d a parent isText res parent' h; simp [processPlaceholders] at h
  | succ f ih =>
    intro d a parent isText res parent' h
    simp only [processPlaceholders] at h
    split at h
    · simp only [Option.some.injEq, Prod.mk.injEq] at h
      obtain ⟨e1, e2⟩ := h; subst e1; subst e2
      exact ⟨by simp [GoodListT], Skel.refl _ _⟩
    · have q := ppLoop_ok hs (procNode_ok ih) d a isText _ _ _ _ _ _ (by simp) h
      exact ⟨(goodListT_iff _ _).2 q.1, q.2⟩

theorem ppTop_ok (st : St) (hs : StashOk st.stash) : PPok (ppTop st) :=
  fun d a parent isText res parent' h => processPlaceholders_ok hs _ d a parent isText res parent' h

/-! ### `run` -/

theorem goodI_good (n : Node) (h : GoodI n = true) : Good n = true := goodT_subset inline_sub_vocab n h
theorem goodIList_good (l : List Node) (h : GoodListT inlineTags l = true) : GoodList l = true :=
  goodListT_subset inline_sub_vocab l h

theorem visitChild_ok (cfg : Cfg) (child : Node) (v : Visit) (c : Node) (tr : List Node) (v' : Visit)
    (h : visitChild cfg child v = some (c, tr, v')) (hc : Good child = true) (hs : StashOk v.st.stash) :
    Good c = true ∧ GoodList tr = true ∧ StashOk v'.st.stash ∧ v'.done = v.done ∧ v'.posmap = v.posmap := by
  unfold visitChild at h
  simp only [] at h
  split at h
  · cases h
  · rename_i c1 lst st1 hr1
    -- the text
    have q1 : StashOk st1.stash ∧ GoodList lst = true ∧ c1.tag = child.tag ∧ c1.attrs = child.attrs ∧
        c1.children = child.children ∧
        (Node.truthy child.text = false → c1.text = child.text ∧ lst = []) := by
      split at hr1
      · rename_i hcond
        have htr : Node.truthy child.text = true := by
          simp only [Bool.and_eq_true] at hcond; exact hcond.1
        split at hr1
        · cases hr1
        · rename_i data st2 hh
          have hs2 := handleInlineTop_ok cfg _ _ _ _ hh hs
          split at hr1
          · cases hr1
          · rename_i l c' hp
            simp only [Option.some.injEq, Prod.mk.injEq] at hr1
            obtain ⟨e1, e2, e3⟩ := hr1; subst e1; subst e2; subst e3
            have q := ppTop_ok _ hs2 _ _ _ _ _ _ hp
            exact ⟨hs2, goodIList_good _ q.1, q.2.tag, q.2.attrs, q.2.children,
              fun hf => by rw [hf] at htr; cases htr⟩
      · simp only [Option.some.injEq, Prod.mk.injEq] at hr1
        obtain ⟨e1, e2, e3⟩ := hr1; subst e1; subst e2; subst e3
        exact ⟨hs, by simp [GoodListT], rfl, rfl, rfl, fun _ => ⟨rfl, rfl⟩⟩
    split at h
    · cases h
    · rename_i c2 tr' st2 hr2
      simp only [Option.some.injEq, Prod.mk.injEq] at h
      obtain ⟨e1, e2, e3⟩ := h; subst e1; subst e2; subst e3
      -- the tail
      have q2 : StashOk st2.stash ∧ GoodList tr' = true ∧ c2.tag = c1.tag ∧ c2.attrs = c1.attrs ∧
          c2.children = c1.children ∧ c2.text = c1.text := by
        split at hr2
        · split at hr2
          · cases hr2
          · rename_i data st3 hh
            have hs3 : StashOk st3.stash := by
              split at hh
              · simp only [Option.some.injEq, Prod.mk.injEq] at hh
                obtain ⟨_, e⟩ := hh; subst e; exact q1.1
              · exact handleInlineTop_ok cfg _ _ _ _ hh q1.1
            split at hr2
            · cases hr2
            · rename_i tr2 dumby hp
              simp only [Option.some.injEq, Prod.mk.injEq] at hr2
              obtain ⟨e1, e2, e3⟩ := hr2; subst e1; subst e2; subst e3
              have q := ppTop_ok _ hs3 _ _ _ _ _ _ hp
              refine ⟨hs3, goodIList_good _ q.1, ?_⟩
              split <;> exact ⟨rfl, rfl, rfl, rfl⟩
        · simp only [Option.some.injEq, Prod.mk.injEq] at hr2
          obtain ⟨e1, e2, e3⟩ := hr2; subst e1; subst e2; subst e3
          exact ⟨q1.1, by simp [GoodListT], rfl, rfl, rfl, rfl⟩
      refine ⟨?_, q2.2.1, ?_, ?_, ?_⟩
      · refine good_children (n := child) hc (q2.2.2.1.trans q1.2.2.1) (q2.2.2.2.1.trans q1.2.2.2.1)
          (fun hf => q2.2.2.2.2.2.trans (q1.2.2.2.2.2 hf).1) ?_ ?_
        · show GoodList (lst ++ c2.children) = true
          rw [goodListT_append, q2.2.2.2.2.1, q1.2.2.2.2.1]
          exact ⟨q1.2.1, goodList_of_good hc⟩
        · intro hf hch
          show lst ++ c2.children = []
          rw [q2.2.2.2.2.1, q1.2.2.2.2.1, hch, (q1.2.2.2.2.2 hf).2]; rfl
      · split <;> exact q2.1
      · split <;> rfl
      · split <;> rfl

theorem visitLoop_ok (cfg : Cfg) :
    ∀ (g : Nat) (todo : List (Node × Option Nat)) (v v' : Visit), visitLoop cfg g todo v = some v' →
      (∀ x ∈ todo, Good x.1 = true) → (∀ n ∈ v.done, Good n = true) → StashOk v.st.stash →
      (∀ n ∈ v'.done, Good n = true) ∧ StashOk v'.st.stash ∧ (todo = [] → v' = v) := by
  intro g
  induction g with
  | zero => intro todo v v' h; simp [visitLoop] at h
  | succ g ih =>
    intro todo v v' h htodo hdone hs
    cases todo with
    | nil =>
      simp only [visitLoop, Option.some.injEq] at h; subst h
      exact ⟨hdone, hs, fun _ => rfl⟩
    | cons x todo =>
      obtain ⟨child, orig⟩ := x
      simp only [visitLoop] at h
      split at h
      · cases h
      · rename_i c tr v1 hv
        have q := visitChild_ok cfg child v c tr v1 hv (htodo (child, orig) List.mem_cons_self) hs
        have r := ih _ _ _ h
          (by
            intro y hy
            rcases List.mem_append.1 hy with hy | hy
            · obtain ⟨n, hn, e⟩ := List.mem_map.1 hy
              subst e; exact (goodListT_iff _ _).1 q.2.1 n hn
            · exact htodo y (List.mem_cons_of_mem _ hy))
          (by
            intro n hn
            rcases List.mem_cons.1 hn with e | hn
            · subst e; exact q.1
            · rw [q.2.2.2.1] at hn; exact hdone n hn)
          q.2.2.1
        exact ⟨r.1, r.2.1, fun e => by cases e⟩

theorem withIdx_fst (l : List Node) : ∀ (i : Nat) x, x ∈ withIdx l i → x.1 ∈ l := by
  induction l with
  | nil => intro i x h; simp [withIdx] at h
  | cons n r ih =>
    intro i x h
    simp only [withIdx, List.mem_cons] at h
    rcases h with e | h
    · subst e; exact List.mem_cons_self
    · exact List.mem_cons_of_mem _ (ih _ _ h)

theorem withIdx_nil (l : List Node) (i : Nat) (h : l = []) : withIdx l i = [] := by subst h; rfl

/-- descending along a path stays inside the good part of the tree -/
theorem getAt_good : ∀ (p : Path) (n cur : Node), getAt n p = some cur → Good n = true → Good cur = true := by
  intro p
  induction p with
  | nil => intro n cur h hg; simp only [getAt, Option.some.injEq] at h; subst h; exact hg
  | cons i q ih =>
    intro n cur h hg
    simp only [getAt] at h
    split at h
    · rename_i c hc
      exact ih _ _ h ((goodListT_iff _ _).1 (goodList_of_good hg) c (List.mem_of_getElem? hc))
    · cases h

theorem goodList_set {ts : List String} (l : List Node) (i : Nat) (x : Node) (hl : GoodListT ts l = true)
    (hx : GoodT ts x = true) : GoodListT ts (l.set i x) = true := by
  rw [goodListT_iff] at hl ⊢
  intro n hn
  rcases List.mem_or_eq_of_mem_set hn with h | h
  · exact hl n h
  · subst h; exact hx

/-- replacing the children of the element at a path by good ones (none for an element that had none) -/
theorem setAt_good : ∀ (p : Path) (n cur : Node) (cs : List Node), getAt n p = some cur → Good n = true →
    GoodList cs = true → (cur.children = [] → cs = []) → Good (setAt n p { cur with children := cs }) = true := by
  intro p
  induction p with
  | nil =>
    intro n cur cs h hg hcs hnil
    simp only [getAt, Option.some.injEq] at h; subst h
    exact good_children (n := n) hg rfl rfl (fun _ => rfl) hcs (fun _ e => hnil e)
  | cons i q ih =>
    intro n cur cs h hg hcs hnil
    simp only [getAt] at h
    split at h
    · rename_i c hc
      have hcg : Good c = true := (goodListT_iff _ _).1 (goodList_of_good hg) c (List.mem_of_getElem? hc)
      have r := ih c cur cs h hcg hcs hnil
      simp only [setAt, hc]
      refine good_children (n := n) hg rfl rfl (fun _ => rfl) (goodList_set _ _ _ (goodList_of_good hg) r) ?_
      intro _ e
      rw [e] at hc; simp at hc
    · cases h

/-- the same for the document root, which is not itself in the vocabulary -/
theorem setAt_docOk (p : Path) (root cur : Node) (cs : List Node) (h : getAt root p = some cur)
    (hd : DocOk root = true) (hcs : GoodList cs = true) (hnil : cur.children = [] → cs = []) :
    DocOk (setAt root p { cur with children := cs }) = true := by
  simp only [DocOk, Bool.and_eq_true, beq_iff_eq, List.isEmpty_iff] at hd ⊢
  cases p with
  | nil =>
    simp only [getAt, Option.some.injEq] at h; subst h
    exact ⟨⟨hd.1.1, hd.1.2⟩, hcs⟩
  | cons i q =>
    simp only [getAt] at h
    split at h
    · rename_i c hc
      have hcg : Good c = true := (goodListT_iff _ _).1 hd.2 c (List.mem_of_getElem? hc)
      have r := setAt_good q c cur cs h hcg hcs hnil
      simp only [setAt, hc]
      exact ⟨⟨hd.1.1, hd.1.2⟩, goodList_set _ _ _ hd.2 r⟩
    · cases h

theorem getAt_docOk (p : Path) (root cur : Node) (h : getAt root p = some cur) (hd : DocOk root = true) :
    GoodList cur.children = true := by
  simp only [DocOk, Bool.and_eq_true, beq_iff_eq, List.isEmpty_iff] at hd
  cases p with
  | nil => simp only [getAt, Option.some.injEq] at h; subst h; exact hd.2
  | cons i q =>
    simp only [getAt] at h
    split at h
    · rename_i c hc
      have hcg : Good c = true := (goodListT_iff _ _).1 hd.2 c (List.mem_of_getElem? hc)
      exact goodList_of_good (getAt_good q c cur h hcg)
    · cases h

theorem runLoop_ok (cfg : Cfg) (g2 : Nat) :
    ∀ (g : Nat) (root : Node) (stack : List Path) (st : St) (root' : Node) (st' : St),
      runLoop cfg g2 g root stack st = some (root', st') → DocOk root = true → StashOk st.stash →
      DocOk root' = true := by
  intro g
  induction g with
  | zero => intro root stack st root' st' h; simp [runLoop] at h
  | succ g ih =>
    intro root stack st root' st' h hd hs
    cases stack with
    | nil =>
      simp only [runLoop, Option.some.injEq, Prod.mk.injEq] at h
      obtain ⟨e, _⟩ := h; subst e; exact hd
    | cons p stack =>
      simp only [runLoop] at h
      split at h
      · exact ih _ _ _ _ _ h hd hs
      · rename_i cur hcur
        split at h
        · cases h
        · rename_i v hv
          have hk := getAt_docOk p root cur hcur hd
          have q := visitLoop_ok cfg g2 _ { st := st } v hv
            (fun x hx => (goodListT_iff _ _).1 hk x.1 (withIdx_fst _ _ _ hx))
            (by intro n hn; cases hn) hs
          refine ih _ _ _ _ _ h ?_ q.2.1
          refine setAt_docOk p root cur _ hcur hd ?_ ?_
          · exact (goodListT_iff _ _).2 (fun n hn => q.1 n (List.mem_reverse.1 hn))
          · intro e
            have := q.2.2 (withIdx_nil _ _ e)
            rw [this]; rfl

/-- **the inline stage stays inside the vocabulary** -/
theorem run_ok (cfg : Cfg) (root : Node) (html : List Str) (t : Node) (st : St)
    (h : Inline.run cfg root html = some (t, st)) (hd : DocOk root = true) : DocOk t = true := by
  unfold Inline.run at h
  exact runLoop_ok cfg _ _ _ _ _ _ _ h hd stashOk_nil

/-! ### the tree processors after the inline stage -/

open TreeProc in
mutual
theorem prettifyETree_good (bl : List Str) : (n : Node) → Good n = true → Good (prettifyETree bl n) = true
  | ⟨tag, attrs, text, ta, children, tail, tla⟩, h => by
    unfold Good at h ⊢
    rw [goodT_mk, Bool.and_eq_true] at h
    have hk := prettifyKids_good bl children h.2
    simp only [prettifyETree]
    rw [goodT_mk, Bool.and_eq_true]
    refine ⟨?_, ?_⟩
    · rcases nodeOk_void_or h.1 with hany | ⟨_, hc⟩
      · exact hany _ _
      · subst hc
        simpa [prettifyKids] using h.1
    · split
      · exact hk.1
      · exact h.2
theorem prettifyKids_good (bl : List Str) : (l : List Node) → GoodList l = true →
    GoodList (prettifyKids bl l) = true ∧ (l = [] → prettifyKids bl l = [])
  | [], _ => by simp [prettifyKids, GoodListT]
  | c :: r, h => by
    simp only [GoodListT, Bool.and_eq_true] at h
    have h1 := prettifyETree_good bl c h.1
    have h2 := prettifyKids_good bl r h.2
    refine ⟨?_, fun e => by cases e⟩
    simp only [prettifyKids, GoodListT, Bool.and_eq_true]
    refine ⟨?_, h2.1⟩
    split
    · exact h1
    · exact h.1
end

open TreeProc in
theorem prettifyETree_doc (bl : List Str) (n : Node) (h : DocOk n = true) : DocOk (prettifyETree bl n) = true := by
  obtain ⟨tag, attrs, text, ta, children, tail, tla⟩ := n
  simp only [DocOk, Bool.and_eq_true, beq_iff_eq, List.isEmpty_iff] at h
  simp only [prettifyETree, DocOk, Bool.and_eq_true, beq_iff_eq, List.isEmpty_iff]
  refine ⟨⟨h.1.1, h.1.2⟩, ?_⟩
  split
  · exact (prettifyKids_good bl children h.2).1
  · exact h.2

/-- a per-element rule that keeps tag and attributes and goodness -/
structure RuleOk (f : Node → Node) : Prop where
  tag : ∀ n, (f n).tag = n.tag
  attrs : ∀ n, (f n).attrs = n.attrs
  kids : ∀ n, GoodList n.children = true → GoodList (f n).children = true
  good : ∀ n, Good n = true → Good (f n) = true

open TreeProc in
mutual
theorem mapTree_good {f : Node → Node} (hf : RuleOk f) : (n : Node) → Good n = true → Good (mapTree f n) = true
  | ⟨tag, attrs, text, ta, children, tail, tla⟩, h => by
    unfold Good at h ⊢
    rw [goodT_mk, Bool.and_eq_true] at h
    have hk := mapKids_good hf children h.2
    simp only [mapTree]
    apply hf.good
    unfold Good
    rw [goodT_mk, Bool.and_eq_true]
    exact ⟨nodeOk_mono h.1 (fun e => e) (fun _ e => hk.2 e), hk.1⟩
theorem mapKids_good {f : Node → Node} (hf : RuleOk f) : (l : List Node) → GoodList l = true →
    GoodList (mapKids f l) = true ∧ (l = [] → mapKids f l = [])
  | [], _ => by simp [mapKids, GoodListT]
  | c :: r, h => by
    simp only [GoodListT, Bool.and_eq_true] at h
    refine ⟨?_, fun e => by cases e⟩
    simp only [mapKids, GoodListT, Bool.and_eq_true]
    exact ⟨mapTree_good hf c h.1, (mapKids_good hf r h.2).1⟩
end

open TreeProc in
theorem mapTree_doc {f : Node → Node} (hf : RuleOk f) (n : Node) (h : DocOk n = true) :
    DocOk (mapTree f n) = true := by
  obtain ⟨tag, attrs, text, ta, children, tail, tla⟩ := n
  simp only [DocOk, Bool.and_eq_true, beq_iff_eq, List.isEmpty_iff] at h
  simp only [mapTree, DocOk, Bool.and_eq_true, beq_iff_eq, List.isEmpty_iff]
  rw [hf.tag, hf.attrs]
  exact ⟨⟨h.1.1, h.1.2⟩, hf.kids _ (mapKids_good hf children h.2).1⟩

open TreeProc in
theorem brRule_ok : RuleOk brRule := by
  refine ⟨?_, ?_, ?_, ?_⟩
  · intro n; unfold brRule; split
    · split <;> rfl
    · rfl
  · intro n; unfold brRule; split
    · split <;> rfl
    · rfl
  · intro n h; unfold brRule; split
    · split <;> exact h
    · exact h
  · intro n h; unfold brRule; split
    · split <;> exact good_setTail h _ _
    · exact h

theorem nonVoid_of_tag (n : Node) (t : String) (h : n.tag = .name t.toList) (hv : isVoidTag t.toList = false) :
    NonVoid n := by
  intro t' ht; rw [h] at ht; injection ht with e; subst e; exact hv

open TreeProc in
theorem preRule_kids (n : Node) (h : GoodList n.children = true) : GoodList (preRule n).children = true := by
  unfold preRule
  split
  · split
    · rename_i code rest hch
      rw [hch] at h
      simp only [GoodListT, Bool.and_eq_true] at h
      split
      · rename_i hcond
        split
        · rename_i t ht
          show GoodList ({ code with text := some (rstrip t ++ ['\n']), textAtomic := true } :: rest) = true
          simp only [GoodListT, Bool.and_eq_true]
          refine ⟨?_, h.2⟩
          have hcode : code.tag = .name "code".toList := by
            simp only [tagIs, Bool.and_eq_true, beq_iff_eq] at hcond; exact hcond.1
          exact good_nonvoid (n := code) h.1 (nonVoid_of_tag code "code" hcode (by decide)) rfl rfl
            (goodList_of_good (n := code) h.1)
        · rw [hch]; simp only [GoodListT, Bool.and_eq_true]; exact h
      · rw [hch]; simp only [GoodListT, Bool.and_eq_true]; exact h
    · exact h
  · exact h

open TreeProc in
theorem preRule_ok : RuleOk preRule := by
  refine ⟨?_, ?_, preRule_kids, ?_⟩
  · intro n; unfold preRule
    repeat' split
    all_goals rfl
  · intro n; unfold preRule
    repeat' split
    all_goals rfl
  · intro n h
    have hk := preRule_kids n (goodList_of_good h)
    by_cases hp : tagIs n "pre" = true
    · have hpre : n.tag = .name "pre".toList := by simpa [tagIs] using hp
      refine good_nonvoid (n := n) h (nonVoid_of_tag n "pre" hpre (by decide)) ?_ ?_ hk
      · unfold preRule
        repeat' split
        all_goals rfl
      · unfold preRule
        repeat' split
        all_goals rfl
    · unfold preRule; rw [if_neg hp]; exact h

/-- `PrettifyTreeprocessor` keeps the document in the vocabulary -/
theorem prettify_doc (root : Node) (bl : List Str) (h : DocOk root = true) :
    DocOk (TreeProc.prettify root bl) = true := by
  unfold TreeProc.prettify
  exact mapTree_doc preRule_ok _ (mapTree_doc brRule_ok _ (prettifyETree_doc bl root h))

theorem prettify_good (n : Node) (bl : List Str) (h : Good n = true) : Good (TreeProc.prettify n bl) = true := by
  unfold TreeProc.prettify
  exact mapTree_good preRule_ok _ (mapTree_good brRule_ok _ (prettifyETree_good bl n h))

theorem unescAttrs_keys : ∀ (a a' : List (Str × Str)), TreeProc.unescAttrs a = some a' →
    a'.map Prod.fst = a.map Prod.fst := by
  intro a
  induction a with
  | nil => intro a' h; simp only [TreeProc.unescAttrs, Option.some.injEq] at h; subst h; rfl
  | cons kv r ih =>
    intro a' h
    obtain ⟨k, v⟩ := kv
    simp only [TreeProc.unescAttrs] at h
    split at h
    · rename_i v' r' _ hr
      simp only [Option.some.injEq] at h; subst h
      simp [ih _ hr]
    · cases h

theorem nodeOk_attrs {ts : List String} {tag : Tag} {a a' : List (Str × Str)} {text : Option Str} {ch : List Node}
    (h : nodeOk ts tag a text ch = true) (hk : a'.map Prod.fst = a.map Prod.fst) :
    nodeOk ts tag a' text ch = true := by
  cases tag with
  | name t =>
    simp only [nodeOk, Bool.and_eq_true] at h ⊢
    refine ⟨⟨h.1.1, ?_⟩, h.2⟩
    have := h.1.2
    rw [attrsOk_iff] at this ⊢
    rw [hk]; exact this
  | _ => simp [nodeOk] at h

open TreeProc in
mutual
theorem unescapeTree_good : (n u : Node) → unescapeTree n = some u → Good n = true → Good u = true
  | ⟨tag, attrs, text, ta, children, tail, tla⟩, u, hu, h => by
    unfold Good at h ⊢
    rw [goodT_mk, Bool.and_eq_true] at h
    simp only [unescapeTree] at hu
    split at hu
    · rename_i t tl a ks ht _ ha hks
      simp only [Option.some.injEq] at hu; subst hu
      have hk := unescapeKids_good children ks hks h.2
      rw [goodT_mk, Bool.and_eq_true]
      refine ⟨nodeOk_attrs (nodeOk_mono h.1 ?_ (fun _ e => hk.2 e)) (unescAttrs_keys _ _ ha), hk.1⟩
      intro hf
      split at ht
      · rename_i hc; rw [hf] at hc; simp at hc
      · simp only [Option.some.injEq] at ht; subst ht; exact hf
    · cases hu
theorem unescapeKids_good : (l l' : List Node) → unescapeKids l = some l' → GoodList l = true →
    GoodList l' = true ∧ (l = [] → l' = [])
  | [], l', hu, _ => by
    simp only [unescapeKids, Option.some.injEq] at hu; subst hu; simp [GoodListT]
  | c :: r, l', hu, h => by
    simp only [GoodListT, Bool.and_eq_true] at h
    simp only [unescapeKids] at hu
    split at hu
    · rename_i c' r' hc hr
      simp only [Option.some.injEq] at hu; subst hu
      refine ⟨?_, fun e => by cases e⟩
      simp only [GoodListT, Bool.and_eq_true]
      exact ⟨unescapeTree_good c c' hc h.1, (unescapeKids_good r r' hr h.2).1⟩
    · cases hu
end

open TreeProc in
/-- `UnescapeTreeprocessor` keeps the document in the vocabulary -/
theorem unescapeTree_doc (n u : Node) (hu : unescapeTree n = some u) (h : DocOk n = true) : DocOk u = true := by
  obtain ⟨tag, attrs, text, ta, children, tail, tla⟩ := n
  simp only [DocOk, Bool.and_eq_true, beq_iff_eq, List.isEmpty_iff] at h
  simp only [unescapeTree] at hu
  split at hu
  · rename_i t tl a ks _ _ ha hks
    simp only [Option.some.injEq] at hu; subst hu
    simp only [DocOk, Bool.and_eq_true, beq_iff_eq, List.isEmpty_iff]
    refine ⟨⟨h.1.1, ?_⟩, (unescapeKids_good children ks hks h.2).1⟩
    have := unescAttrs_keys _ _ ha
    rw [h.1.2] at this
    simpa using this
  · cases hu

/-! ### vocabulary trees are in the domain of the round-trip theorem -/

open Ser in
theorem vocabTag_facts {t : Str} (h : hasTag vocabTags t = true) :
    isName t = true ∧ isRawTextTag t = false ∧ isEmptyTag t = isVoidTag t := by
  simp only [hasTag, vocabTags, List.any_cons, List.any_nil, Bool.or_false, Bool.or_eq_true,
    decide_eq_true_eq] at h
  rcases h with h | h | h | h | h | h | h | h | h | h | h | h | h | h | h | h | h | h | h <;> subst h <;> decide

open Ser in
theorem attrOk_name {k : Str} (h : attrOk k = true) : isName k = true := by
  simp only [attrOk, attrNames, List.any_cons, List.any_nil, Bool.or_false, Bool.or_eq_true,
    decide_eq_true_eq] at h
  rcases h with h | h | h | h <;> subst h <;> decide

open Ser in
mutual
theorem good_WFTree : (n : Node) → Good n = true → WFTree n = true
  | ⟨tag, attrs, text, _, children, _, _⟩, h => by
    unfold Good at h
    rw [goodT_mk, Bool.and_eq_true] at h
    have hk := good_WFList children h.2
    cases tag with
    | name t =>
      have h1 := h.1
      simp only [nodeOk, attrsOk, Bool.and_eq_true, Bool.or_eq_true, Bool.not_eq_true', List.all_eq_true] at h1
      obtain ⟨⟨ht, ha, hn⟩, hv⟩ := h1
      obtain ⟨f1, f2, f3⟩ := vocabTag_facts ht
      simp only [WFTree, Bool.and_eq_true, List.all_eq_true]
      refine ⟨⟨⟨⟨f1, fun kv hkv => attrOk_name (ha kv hkv)⟩, hn⟩, ?_⟩, hk⟩
      rw [f3, f2]
      rcases hv with hv | hv
      · simp [hv]
      · simp [hv.1, hv.2]
    | _ => simp [nodeOk] at h
theorem good_WFList : (l : List Node) → GoodList l = true → WFList l = true
  | [], _ => by simp [WFList]
  | c :: r, h => by
    simp only [GoodListT, Bool.and_eq_true] at h
    simp only [WFList, Bool.and_eq_true]
    exact ⟨good_WFTree c h.1, good_WFList r h.2⟩
end

open Ser in
theorem docOk_WFTree (root : Node) (h : DocOk root = true) : WFTree root = true := by
  obtain ⟨tag, attrs, text, ta, children, tail, tla⟩ := root
  simp only [DocOk, Bool.and_eq_true, beq_iff_eq, List.isEmpty_iff] at h
  obtain ⟨⟨h1, h2⟩, h3⟩ := h
  subst h1; subst h2
  have e1 : isName "div".toList = true := by decide
  have e2 : isEmptyTag "div".toList = false := by decide
  have e3 : isRawTextTag "div".toList = false := by decide
  simp only [WFTree, List.all_nil, keysNodup, e1, e2, e3, Bool.and_true, Bool.false_eq_true,
    ↓reduceIte, good_WFList children h3]

/-! ### the block-stage formulation (`Spec/Vocab.lean`) is the same predicate -/

theorem isVocabTag_eq (t : Str) : Vocab.isVocabTag t = hasTag vocabTags t := rfl
theorem attrsOk_eq (a : List (Str × Str)) : Vocab.attrsOk a = attrsOk a := rfl
theorem isVoidTag_eq (t : Str) : Vocab.isVoidTag t = isVoidTag t := rfl

mutual
theorem good_iff_vocab : (n : Node) → Good n = (Vocab.vocabNode n && Vocab.voidOk n)
  | ⟨tag, attrs, text, _, children, _, _⟩ => by
    unfold Good
    have hk := goodList_iff_vocab children
    unfold GoodList at hk
    rw [goodT_mk, hk]
    cases tag with
    | name t =>
      simp only [Vocab.vocabNode, Vocab.voidOk, nodeOk, isVocabTag_eq, attrsOk_eq, isVoidTag_eq]
      generalize hasTag vocabTags t = a
      generalize attrsOk attrs = b
      generalize (!isVoidTag t || !Node.truthy text && children.isEmpty) = c
      generalize Vocab.vocabNodes children = d
      generalize Vocab.voidOkNodes children = e
      cases a <;> cases b <;> cases c <;> cases d <;> cases e <;> rfl
    | _ => simp [Vocab.vocabNode, Vocab.voidOk, nodeOk]
theorem goodList_iff_vocab : (l : List Node) → GoodList l = (Vocab.vocabNodes l && Vocab.voidOkNodes l)
  | [] => by simp [GoodListT, Vocab.vocabNodes, Vocab.voidOkNodes]
  | c :: r => by
    unfold GoodList
    simp only [GoodListT, Vocab.vocabNodes, Vocab.voidOkNodes]
    have h1 := good_iff_vocab c
    have h2 := goodList_iff_vocab r
    unfold Good at h1; unfold GoodList at h2
    rw [h1, h2]
    generalize Vocab.vocabNode c = a
    generalize Vocab.voidOk c = b
    generalize Vocab.vocabNodes r = d
    generalize Vocab.voidOkNodes r = e
    cases a <;> cases b <;> cases d <;> cases e <;> rfl
end

theorem docOk_iff_vocabDoc (root : Node) : DocOk root = Vocab.vocabDoc root := by
  simp only [DocOk, Vocab.vocabDoc, goodList_iff_vocab, Bool.and_assoc]

/-! ### the whole pipeline up to the serializer -/

/-- the tree handed to the serializer is the wrapper `div` around vocabulary content -/
theorem tree_docOk (cfg : Pipeline.Cfg) (src : Str) (u : Node) (html : List Str)
    (h : Pipeline.tree cfg src = some (some (u, html))) : DocOk u = true := by
  unfold Pipeline.tree at h
  split at h
  · cases h
  · rename_i root refs hp
    have hb : DocOk root = true := by
      rw [docOk_iff_vocabDoc]
      obtain ⟨htag, hinv⟩ := Block.parseDocument_ok hp
      exact hinv.vocabDoc htag
    split at h
    · cases h
    · rename_i t st hr
      have ht := run_ok _ _ _ _ _ hr hb
      split at h
      · cases h
      · rename_i u' hu
        simp only [Option.some.injEq, Prod.mk.injEq] at h
        obtain ⟨e, _⟩ := h; subst e
        exact unescapeTree_doc _ _ hu (prettify_doc _ _ ht)

/-! ### what the strict reader returns for a vocabulary tree is in the vocabulary -/

open Ser in
theorem rgoodList_append (a b : List RNode) : RGoodList (a ++ b) = (RGoodList a && RGoodList b) := by
  induction a with
  | nil => simp [RGoodList]
  | cons x r ih => simp [RGoodList, ih, Bool.and_assoc]

open Ser in
theorem rgoodList_mergeTexts : ∀ (l : List RNode), RGoodList l = true → RGoodList (mergeTexts l) = true := by
  intro l
  induction l with
  | nil => intro _; simp [mergeTexts, RGoodList]
  | cons x r ih =>
    intro h
    simp only [RGoodList, Bool.and_eq_true] at h
    have hr := ih h.2
    cases x with
    | text a =>
      simp only [mergeTexts]
      split
      · rename_i b r' hm
        rw [hm] at hr
        simp only [RGoodList, Bool.and_eq_true] at hr
        simp only [RGoodList, RGood, Bool.and_eq_true, true_and]; exact hr.2
      · split
        · exact hr
        · simp only [RGoodList, RGood, Bool.and_eq_true, true_and]; exact hr
    | elem t as kids => simp only [mergeTexts, RGoodList, Bool.and_eq_true]; exact ⟨h.1, hr⟩
    | comment c => simp [RGood] at h
    | pi c => simp [RGood] at h
    | raw c => simp [RGood] at h

open Ser in
theorem rgoodList_textItem (t : Option Str) : RGoodList (textItem t) = true := by
  unfold textItem; split <;> simp [RGoodList, RGood]

open Ser in
mutual
theorem canonItems_rgood : (n : Node) → Good n = true → RGoodList (canonItems n) = true
  | ⟨tag, attrs, text, _, children, tail, _⟩, h => by
    unfold Good at h
    rw [goodT_mk, Bool.and_eq_true] at h
    have hk := canonList_rgood children h.2
    cases tag with
    | name t =>
      have h1 := h.1
      simp only [nodeOk, attrsOk, Bool.and_eq_true, Bool.or_eq_true, Bool.not_eq_true', List.all_eq_true] at h1
      obtain ⟨⟨ht, ha, _⟩, hv⟩ := h1
      obtain ⟨_, f2, f3⟩ := vocabTag_facts ht
      have has : ((sortAttrs attrs).map (fun kv => (kv.1, lenient attr 0 kv.2))).all (fun kv => attrOk kv.1) = true := by
        simp only [List.all_eq_true, List.mem_map]
        rintro x ⟨kv, hkv, rfl⟩
        exact ha kv (mem_sortAttrs attrs kv hkv)
      simp only [canonItems, f2, f3]
      rw [rgoodList_append, Bool.and_eq_true]
      refine ⟨?_, rgoodList_textItem tail⟩
      split
      · rename_i hvoid
        simp [RGoodList, RGood, isVocabTag, ht, has, hvoid]
      · rename_i hvoid
        have hnv : isVoidTag t = false := by simpa using hvoid
        have hm : RGoodList (mergeTexts (textItem text ++ canonList children)) = true := by
          apply rgoodList_mergeTexts
          rw [rgoodList_append, rgoodList_textItem, hk]; rfl
        simp only [Bool.false_eq_true, ↓reduceIte, RGoodList, RGood, isVocabTag, ht, has, hnv, hm, Bool.not_false,
          Bool.true_or, Bool.and_self]
    | _ => simp [nodeOk] at h
theorem canonList_rgood : (l : List Node) → GoodList l = true → RGoodList (canonList l) = true
  | [], _ => by simp [canonList, RGoodList]
  | c :: r, h => by
    simp only [GoodListT, Bool.and_eq_true] at h
    simp only [canonList]
    rw [rgoodList_append, canonItems_rgood c h.1, canonList_rgood r h.2]; rfl
end

/-- the forest read back from the content of the wrapper `div` -/
def innerForest (root : Node) : List Ser.RNode :=
  Ser.mergeTexts (Ser.textItem root.text ++ Ser.canonList root.children)

open Ser in
/-- the content of the wrapper is accepted by the strict reader, and what is read is in the vocabulary -/
theorem inner_reads (fmt : Fmt) (root : Node) (hd : DocOk root = true) :
    readForest fmt (inner fmt root) = some (innerForest root) ∧ RGoodList (innerForest root) = true := by
  simp only [DocOk, Bool.and_eq_true, beq_iff_eq, List.isEmpty_iff] at hd
  have hk := reads_list fmt root.children (good_WFList _ hd.2) [] [] (reads_nil fmt)
  have ht := reads_textItem fmt root.text _ _ hk
  simp only [List.append_nil] at ht
  have h2 := ht [] [] [] ((inner fmt root).length + 1) noLt_nil transp_nil_nil (Or.inl rfl)
    (by simp [inner])
  simp only [List.append_nil, List.nil_append] at h2
  refine ⟨?_, ?_⟩
  · have e : inner fmt root =
        (if Node.truthy root.text = true then escCdata (root.text.getD []) else []) ++ serializeList fmt root.children :=
      rfl
    rw [e] at h2
    simp only [readForest, e, h2, mergeTexts_nil_text, innerForest]
  · unfold innerForest
    apply rgoodList_mergeTexts
    rw [rgoodList_append, rgoodList_textItem, canonList_rgood _ hd.2]; rfl

/-! ### glue: from the serialisation of the wrapper `div` to the output of `convert` -/

theorem slice_mid (A X R : Str) : ((A ++ (X ++ R)).take (A.length + X.length)).drop A.length = X := by
  have : A ++ (X ++ R) = (A ++ X) ++ R := by simp
  rw [this, show A.length + X.length = (A ++ X).length by simp, List.take_left', List.drop_left']
  all_goals rfl

theorem find_after_clean (T init post : Str) (c : Char) (hc : c ∉ T) (hinit : c ∉ init) :
    find (init ++ [c]) (T ++ (init ++ [c]) ++ post) = some T.length := by
  rw [find_some_iff]
  refine ⟨T, post, rfl, rfl, ?_⟩
  intro pre' post' heq
  by_cases hlt : pre'.length < T.length
  · exfalso
    have h1 : (pre' ++ (init ++ [c]) ++ post')[pre'.length + init.length]? = some c := by
      rw [List.getElem?_append_left (by simp), List.getElem?_append_right (by omega),
        List.getElem?_append_right (by omega)]
      simp
    rw [← heq] at h1
    by_cases hk : pre'.length + init.length < T.length
    · rw [List.append_assoc, List.getElem?_append_left hk] at h1
      exact hc (List.mem_of_getElem? h1)
    · rw [List.append_assoc, List.getElem?_append_right (by omega), List.getElem?_append_left (by simp; omega),
        List.getElem?_append_left (by omega)] at h1
      exact hinit (List.mem_of_getElem? h1)
  · omega

theorem topLevelStrip_wrapped (X TL : Str) (h : '<' ∉ TL) :
    Post.topLevelStrip ("<div>".toList ++ X ++ "</div>".toList ++ TL) = some (strip X) := by
  have hf : find "<div>".toList ("<div>".toList ++ X ++ "</div>".toList ++ TL) = some 0 := by
    simp [find_cons, startsWith]
  have hr : Post.rfind "</div>".toList ("<div>".toList ++ X ++ "</div>".toList ++ TL) = some (5 + X.length) := by
    unfold Post.rfind
    have e : ("<div>".toList ++ X ++ "</div>".toList ++ TL).reverse =
        TL.reverse ++ (">vid/".toList ++ ['<']) ++ (X.reverse ++ ">vid<".toList) := by
      simp
    have e2 : ("</div>".toList).reverse = ">vid/".toList ++ ['<'] := by decide
    rw [e, e2, find_after_clean _ _ _ _ (by simpa using h) (by decide)]
    simp
    omega
  unfold Post.topLevelStrip
  have o : ('<' :: "div".toList ++ ['>']) = "<div>".toList := rfl
  have c : ('<' :: '/' :: "div".toList ++ ['>']) = "</div>".toList := rfl
  simp only [o, c, hf, hr]
  congr 2
  simp only [Post.topLevelStrip.sl]
  have e : "<div>".toList ++ X ++ "</div>".toList ++ TL = "<div>".toList ++ (X ++ ("</div>".toList ++ TL)) := by
    simp
  rw [e]
  exact slice_mid "<div>".toList X _

section Glue
open Ser

theorem serialize_doc (fmt : Fmt) (root : Node) (hd : DocOk root = true) :
    serialize fmt root = "<div>".toList ++ inner fmt root ++ "</div>".toList ++
      (if Node.truthy root.tail then escCdata (root.tail.getD []) else []) := by
  obtain ⟨tag, attrs, text, ta, children, tail, tla⟩ := root
  simp only [DocOk, Bool.and_eq_true, beq_iff_eq, List.isEmpty_iff] at hd
  obtain ⟨⟨h1, h2⟩, _⟩ := hd
  subst h1; subst h2
  have e2 : isEmptyTag "div".toList = false := by decide
  have e3 : isRawTextTag "div".toList = false := by decide
  simp only [serialize, element, e2, e3, sortAttrs, writeAttrs, inner, List.foldr_nil, Bool.and_false,
    Bool.false_eq_true, ↓reduceIte, List.append_nil]
  simp [List.append_assoc]

theorem topLevelStrip_doc (fmt : Fmt) (root : Node) (hd : DocOk root = true) :
    Post.topLevelStrip (serialize fmt root) = some (strip (inner fmt root)) := by
  rw [serialize_doc fmt root hd]
  apply topLevelStrip_wrapped
  split
  · intro h; exact (esc1_no_markup' false false _ _ (by rw [← onepass_cdata']; exact h)).1 rfl
  · simp

theorem contains_infix {s t pat : Str} (h : contains s pat = false) (hi : t <:+: s) : contains t pat = false := by
  unfold contains at h ⊢
  cases hf : find pat t with
  | none => rfl
  | some i =>
    exfalso
    obtain ⟨pre, post, e, _⟩ := find_some_iff.1 hf
    obtain ⟨a, b, hab⟩ := hi
    have : find pat s = none := by simpa using h
    rw [find_none_iff] at this
    exact this (a ++ pre) (post ++ b) (by rw [← hab, e]; simp)

theorem finish_plain (bl : List Str) (out : Str) (X : Str) (h : Post.topLevelStrip out = some (strip X))
    (hamp : contains X Post.ampSubstitute = false) : Post.finish bl [] out = some (some (strip X)) := by
  unfold Post.finish
  rw [h]
  have h1 : Post.rawHtml bl [] (Post.rawHtmlFuel []) (strip X) = some (strip X) := by
    simp [Post.rawHtmlFuel, Post.rawHtml]
  have h2 : Post.ampSub (strip X) = strip X :=
    replace_id_of_not_contains _ (contains_infix hamp (strip_infix X))
  simp [Post.post, h1, h2]

/-- `Markdown.convert` on a text without `<`, when the raw-HTML stash is empty and the serialisation does not contain
    the ampersand substitute: the stripped content of the wrapper -/
theorem convert_plain (cfg : Pipeline.Cfg) (src : Str) (u : Node) (hlt : src.contains '<' = false)
    (hnb : Normalize.isBlankDoc src = false) (ht : Pipeline.tree cfg src = some (some (u, [])))
    (hamp : contains (inner cfg.fmt u) Post.ampSubstitute = false) :
    Pipeline.convert cfg src = .ok (strip (inner cfg.fmt u)) := by
  have hd := tree_docOk cfg src u [] ht
  unfold Pipeline.convert
  simp only [hlt, hnb, ht, Bool.false_eq_true, ↓reduceIte]
  rw [finish_plain cfg.blockLevel _ _ (topLevelStrip_doc cfg.fmt u hd) hamp]

theorem readForest_nil (fmt : Fmt) : readForest fmt [] = some [] := by
  simp [readForest, readContent]

/-! ### stripping the white space around the content of the wrapper -/

theorem space_toNat {c : Char} (h : isSpace c = true) : c.toNat ≤ 32 ∨ 128 ≤ c.toNat := by
  by_cases hlt : c.toNat < 128
  · left
    rw [isSpace_ascii_iff hlt] at h
    rcases h with h | h | h | h | h | h | h
    · subst h; decide
    · subst h; decide
    · subst h; decide
    · subst h; decide
    · omega
    · omega
    · omega
  · right; omega

theorem char_le_toNat (a b : Char) : a ≤ b ↔ a.toNat ≤ b.toNat := by
  exact Char.le_def

theorem space_facts {c : Char} (h : isSpace c = true) :
    c ≠ '&' ∧ c ≠ '<' ∧ c ≠ '>' ∧ c ≠ ';' ∧ c ≠ '#' ∧ c ≠ 'x' ∧ c ≠ 'X' ∧
      isDig c = false ∧ isHexI c = false ∧ isAlnumI c = false := by
  have ht := space_toNat h
  have ne : ∀ d : Char, isSpace d = false → c ≠ d := fun d hd e => by subst e; rw [h] at hd; cases hd
  have rng : ∀ a b : Char, 32 < a.toNat → b.toNat < 128 → (decide (a ≤ c) && decide (c ≤ b)) = false := by
    intro a b ha hb
    cases hh : (decide (a ≤ c) && decide (c ≤ b)) with
    | false => rfl
    | true =>
      simp only [Bool.and_eq_true, decide_eq_true_eq, char_le_toNat] at hh
      omega
  refine ⟨ne _ (by decide), ne _ (by decide), ne _ (by decide), ne _ (by decide), ne _ (by decide), ne _ (by decide),
    ne _ (by decide), ?_, ?_, ?_⟩
  · exact rng '0' '9' (by decide) (by decide)
  · simp only [isHexI, isDig, rng '0' '9' (by decide) (by decide), rng 'a' 'f' (by decide) (by decide),
      rng 'A' 'F' (by decide) (by decide), Bool.or_self]
  · have e1 := ne 'İ' (by decide)
    have e2 := ne 'ı' (by decide)
    have e3 := ne 'ſ' (by decide)
    have e4 := ne 'K' (by decide)
    simp only [isAlnumI, isDig, rng '0' '9' (by decide) (by decide), rng 'a' 'z' (by decide) (by decide),
      rng 'A' 'Z' (by decide) (by decide), Bool.or_self, e1, e2, e3, e4, decide_false]

abbrev escC (s : Str) : Str := esc1 false false s

/-- leading white space passes through the escaper -/
theorem escC_blank_append (w s : Str) (hw : isBlank w = true) : escC (w ++ s) = w ++ escC s := by
  induction w with
  | nil => rfl
  | cons c cs ih =>
    simp only [isBlank, List.all_cons, Bool.and_eq_true] at hw
    have f := space_facts hw.1
    have ih' := ih (by simpa [isBlank] using hw.2)
    simp only [escC] at ih' ⊢
    simp only [List.cons_append, esc1, f.1, f.2.1, f.2.2.1, ↓reduceIte, Bool.false_and, Bool.false_eq_true, ih']

theorem spanLen_append_stop (p : Char → Bool) (r w : Str) (hw : ∀ c, w.head? = some c → p c = false) :
    spanLen p (r ++ w) = spanLen p r := by
  induction r with
  | nil =>
    cases w with
    | nil => rfl
    | cons c cs => simp [spanLen, hw c rfl]
  | cons d ds ih =>
    simp only [List.cons_append, spanLen, ih]

theorem runSemi_append_stop (p : Char → Bool) (r w : Str)
    (hw : ∀ c, w.head? = some c → p c = false ∧ c ≠ ';') : Ser.runSemi p (r ++ w) = Ser.runSemi p r := by
  unfold Ser.runSemi
  simp only [spanLen_append_stop p r w (fun c hc => (hw c hc).1)]
  by_cases hlt : spanLen p r < r.length
  · rw [List.getElem?_append_left hlt]
  · have hle := Ser.spanLen_le p r
    have e : spanLen p r = r.length := by omega
    rw [e, List.getElem?_append_right (Nat.le_refl _), Nat.sub_self]
    have h1 : r[r.length]? = none := by simp
    rw [h1]
    cases w with
    | nil => simp
    | cons c cs =>
      have := (hw c rfl).2
      simp [this]

theorem entLen_append_blank (r w : Str) (hw : isBlank w = true) : entLen (r ++ w) = entLen r := by
  have hstop : ∀ (p : Char → Bool), (p = isDig ∨ p = isHexI ∨ p = isAlnumI) →
      ∀ c, w.head? = some c → p c = false ∧ c ≠ ';' := by
    intro p hp c hc
    have hcs : isSpace c = true := by
      cases w with
      | nil => cases hc
      | cons d ds =>
        simp only [List.head?_cons, Option.some.injEq] at hc; subst hc
        simp only [isBlank, List.all_cons, Bool.and_eq_true] at hw; exact hw.1
    have f := space_facts hcs
    rcases hp with hp | hp | hp <;> subst hp
    · exact ⟨f.2.2.2.2.2.2.2.1, f.2.2.2.1⟩
    · exact ⟨f.2.2.2.2.2.2.2.2.1, f.2.2.2.1⟩
    · exact ⟨f.2.2.2.2.2.2.2.2.2, f.2.2.2.1⟩
  cases w with
  | nil => simp
  | cons d ds =>
    have hds : isSpace d = true := by
      simp only [isBlank, List.all_cons, Bool.and_eq_true] at hw; exact hw.1
    have f := space_facts hds
    cases r with
    | nil =>
      -- `entLen (d :: ds)` with `d` white space
      have h1 : entLen ([] : Str) = none := by simp [entLen, Ser.runSemi, spanLen]
      rw [h1]
      simp only [List.nil_append]
      unfold entLen
      split
      · rename_i r1 heq
        injection heq with e _
        exact absurd e f.2.2.2.2.1
      · simp [Ser.runSemi, spanLen, f.2.2.2.2.2.2.2.2.2]
    | cons c r' =>
      by_cases hc : c = '#'
      · subst hc
        simp only [List.cons_append, entLen]
        rw [runSemi_append_stop isDig r' (d :: ds) (hstop _ (Or.inl rfl))]
        cases r' with
        | nil =>
          simp only [List.nil_append]
          split
          · rfl
          · simp [f.2.2.2.2.2.1, f.2.2.2.2.2.2.1]
        | cons x r2 =>
          simp only [List.cons_append]
          rw [runSemi_append_stop isHexI r2 (d :: ds) (hstop _ (Or.inr (Or.inl rfl)))]
      · have e1 : entLen (c :: r') = Ser.runSemi isAlnumI (c :: r') := by
          unfold entLen
          split
          · rename_i r1 heq; injection heq with e _; exact absurd e hc
          · rfl
        have e2 : entLen (c :: r' ++ d :: ds) = Ser.runSemi isAlnumI (c :: r' ++ d :: ds) := by
          unfold entLen
          split
          · rename_i r1 heq; injection heq with e _; exact absurd e hc
          · rfl
        rw [e1, e2, runSemi_append_stop isAlnumI _ _ (hstop _ (Or.inr (Or.inr rfl)))]

/-- trailing white space passes through the escaper -/
theorem escC_append_blank (s w : Str) (hw : isBlank w = true) : escC (s ++ w) = escC s ++ w := by
  induction s with
  | nil =>
    have := escC_blank_append w [] hw
    simpa [escC, esc1] using this
  | cons c r ih =>
    simp only [escC] at ih ⊢
    simp only [List.cons_append, esc1, entLen_append_blank r w hw, ih]
    repeat' split
    all_goals simp

theorem getLast?_append_ne (a b : Str) (h : b ≠ []) : (a ++ b).getLast? = b.getLast? := by
  rw [List.getLast?_append]
  cases b with
  | nil => exact absurd rfl h
  | cons x xs => simp [List.getLast?_cons]

theorem escC_cons (c : Char) (r : Str) : ∃ X, X ≠ [] ∧ escC (c :: r) = X ++ escC r ∧
    (X.head? = some '&' ∨ X.head? = some c) ∧ (X.getLast? = some ';' ∨ X.getLast? = some c) := by
  simp only [escC, esc1]
  split
  · split
    · exact ⟨['&'], by simp, rfl, Or.inl rfl, Or.inr (by simp_all)⟩
    · exact ⟨"&amp;".toList, by decide, rfl, Or.inl rfl, Or.inl rfl⟩
  · split
    · exact ⟨"&lt;".toList, by decide, rfl, Or.inl rfl, Or.inl rfl⟩
    · split
      · exact ⟨"&gt;".toList, by decide, rfl, Or.inl rfl, Or.inl rfl⟩
      · exact ⟨[c], by simp, by simp, Or.inr rfl, Or.inr rfl⟩

theorem escC_ne_nil (s : Str) (hs : s ≠ []) : escC s ≠ [] := by
  cases s with
  | nil => exact absurd rfl hs
  | cons c r =>
    obtain ⟨X, hX, e, _⟩ := escC_cons c r
    rw [e]; simp [hX]

theorem escC_head_nonspace (s : Str) (h : ∀ c, s.head? = some c → isSpace c = false) :
    ∀ d, (escC s).head? = some d → isSpace d = false := by
  cases s with
  | nil => intro d hd; simp [escC, esc1] at hd
  | cons c r =>
    intro d hd
    obtain ⟨X, hX, e, hh, _⟩ := escC_cons c r
    rw [e] at hd
    cases X with
    | nil => exact absurd rfl hX
    | cons x xs =>
      simp only [List.cons_append, List.head?_cons, Option.some.injEq] at hd hh
      subst hd
      rcases hh with hh | hh
      · subst hh; decide
      · subst hh; exact h _ rfl

theorem escC_last_nonspace : ∀ (s : Str), (∀ c, s.getLast? = some c → isSpace c = false) →
    ∀ d, (escC s).getLast? = some d → isSpace d = false := by
  intro s
  induction s with
  | nil => intro _ d hd; simp [escC, esc1] at hd
  | cons c r ih =>
    intro h d hd
    obtain ⟨X, hX, e, _, hl⟩ := escC_cons c r
    rw [e] at hd
    cases r with
    | nil =>
      have : escC [] = [] := rfl
      rw [this, List.append_nil] at hd
      rcases hl with hl | hl
      · rw [hl] at hd; injection hd with hd; subst hd; decide
      · rw [hl] at hd; injection hd with hd; subst hd; exact h _ (by simp)
    | cons c2 r2 =>
      have hne := escC_ne_nil (c2 :: r2) (by simp)
      rw [getLast?_append_ne _ _ hne] at hd
      exact ih (fun c hc => h c (by rw [List.getLast?_cons_cons]; exact hc)) d hd

/-- stripping leading white space in front of an escaped text -/
theorem lstrip_esc_append (s R : Str) :
    lstrip (escCdata s ++ R) = if lstrip s = [] then lstrip R else escCdata (lstrip s) ++ R := by
  obtain ⟨w, hw, hp⟩ := lstripP_decomp isSpace s
  have hb : isBlank w = true := by simpa [isBlank] using hp
  simp only [lstrip, onepass_cdata']
  generalize hs' : lstripP isSpace s = s' at hw
  have e1 : esc1 false false s = w ++ esc1 false false s' := by
    rw [hw]; exact escC_blank_append w s' hb
  rw [e1, List.append_assoc, lstripP_append_of_all hp]
  split
  · rename_i h; subst h; rfl
  · rename_i h
    have hhead : ∀ c, s'.head? = some c → isSpace c = false := by
      intro c hc; rw [← hs'] at hc; exact lstripP_head hc
    apply (lstripP_eq_self_iff _ _).2
    intro c hc
    have hne := escC_ne_nil s' h
    apply escC_head_nonspace s' hhead c
    cases he : escC s' with
    | nil => exact absurd he hne
    | cons x xs =>
      simp only [escC] at he
      rw [he] at hc; simpa using hc

/-- stripping trailing white space after an escaped text -/
theorem rstrip_append_esc (P t : Str) :
    rstrip (P ++ escCdata t) = if rstrip t = [] then rstrip P else P ++ escCdata (rstrip t) := by
  obtain ⟨w, hw, hp⟩ := rstripP_decomp isSpace t
  have hb : isBlank w = true := by simpa [isBlank] using hp
  simp only [rstrip, onepass_cdata']
  generalize ht' : rstripP isSpace t = t' at hw
  have e1 : esc1 false false t = esc1 false false t' ++ w := by
    rw [hw]; exact escC_append_blank t' w hb
  rw [e1, ← List.append_assoc, rstripP_append_of_all hp]
  split
  · rename_i h; subst h
    have : esc1 false false [] = [] := rfl
    rw [this, List.append_nil]
  · rename_i h
    have hlast : ∀ c, t'.getLast? = some c → isSpace c = false := by
      intro c hc; rw [← ht'] at hc; exact rstripP_getLast hc
    apply (rstripP_eq_self_iff _ _).2
    intro c hc
    have hne := escC_ne_nil t' h
    rw [getLast?_append_ne _ _ hne] at hc
    exact escC_last_nonspace t' hlast c hc

def tailStr (n : Node) : Str := if Node.truthy n.tail then escCdata (n.tail.getD []) else []

/-- the serialisation of a vocabulary element: a tag from `<` to `>`, then the escaped tail -/
theorem serialize_good_shape (fmt : Fmt) (n : Node) (h : Good n = true) :
    ∃ E, serialize fmt n = '<' :: E ++ '>' :: tailStr n := by
  obtain ⟨tag, attrs, text, ta, children, tail, tla⟩ := n
  unfold Good at h
  rw [goodT_mk, Bool.and_eq_true] at h
  cases tag with
  | name t =>
    have h1 := h.1
    simp only [nodeOk, Bool.and_eq_true, Bool.or_eq_true, Bool.not_eq_true', List.isEmpty_iff] at h1
    obtain ⟨⟨ht, _⟩, hv⟩ := h1
    obtain ⟨_, _, f3⟩ := vocabTag_facts ht
    simp only [serialize, element_none, tailStr]
    split
    · exact ⟨t ++ (writeAttrs fmt (sortAttrs attrs) ++ " /".toList), by simp⟩
    · by_cases hvoid : isVoidTag t = true
      · rcases hv with hv | hv
        · rw [hv] at hvoid; cases hvoid
        · obtain ⟨hnt, hch⟩ := hv
          subst hch
          refine ⟨t ++ writeAttrs fmt (sortAttrs attrs), ?_⟩
          simp [f3, hvoid, hnt, serializeList]
      · have hnv : isVoidTag t = false := by simpa using hvoid
        refine ⟨t ++ (writeAttrs fmt (sortAttrs attrs) ++ '>' ::
          ((if Node.truthy text then (if isRawTextTag t then text.getD [] else escCdata (text.getD [])) else []) ++
            (serializeList fmt children ++ ("</".toList ++ t)))), ?_⟩
        simp [f3, hnv]
  | _ => simp [nodeOk] at h

theorem serialize_split (fmt : Fmt) (n : Node) :
    serialize fmt n = serialize fmt { n with tail := none, tailAtomic := false } ++ tailStr n := by
  obtain ⟨tag, attrs, text, ta, children, tail, tla⟩ := n
  simp [serialize, tailStr, Node.truthy]

theorem trimOpt_truthy (f : Str → Str) (t : Option Str) :
    (if Node.truthy (if Node.truthy t then some (f (t.getD [])) else t) then
        escCdata ((if Node.truthy t then some (f (t.getD [])) else t).getD []) else []) =
      if Node.truthy t then (if f (t.getD []) = [] then [] else escCdata (f (t.getD []))) else [] := by
  by_cases h : Node.truthy t = true
  · simp only [h, ↓reduceIte, Option.getD_some]
    cases hf : f (t.getD []) with
    | nil => simp [Node.truthy]
    | cons c r => simp [Node.truthy]
  · simp [h]

/-- white space at the end of the last tail -/
def rstripLast : List Node → List Node
  | [] => []
  | [n] => [{ n with tail := if Node.truthy n.tail then some (rstrip (n.tail.getD [])) else n.tail }]
  | n :: m :: r => n :: rstripLast (m :: r)

theorem rstripLast_good : ∀ (l : List Node), GoodList l = true → GoodList (rstripLast l) = true
  | [], _ => by simp [rstripLast, GoodListT]
  | [n], h => by
    simp only [GoodListT, Bool.and_eq_true] at h
    simp only [rstripLast, GoodListT, Bool.and_eq_true, and_true]
    have := h.1
    rw [goodT_eq] at this ⊢
    exact this
  | n :: m :: r, h => by
    simp only [GoodListT, Bool.and_eq_true] at h
    have := rstripLast_good (m :: r) (by simp only [GoodListT, Bool.and_eq_true]; exact h.2)
    simp only [rstripLast, GoodListT, Bool.and_eq_true] at this ⊢
    exact ⟨h.1, this⟩

theorem rstrip_gt (P E : Str) : rstrip (P ++ ('<' :: E ++ ['>'])) = P ++ ('<' :: E ++ ['>']) := by
  apply (rstripP_eq_self_iff _ _).2
  intro c hc
  rw [getLast?_append_ne _ _ (by simp), getLast?_append_ne _ _ (by simp)] at hc
  simp at hc; subst hc; decide

theorem rstrip_serializeList (fmt : Fmt) : ∀ (l : List Node), l ≠ [] → GoodList l = true → ∀ (P : Str),
    rstrip (P ++ serializeList fmt l) = P ++ serializeList fmt (rstripLast l)
  | [], h, _, _ => absurd rfl h
  | [n], _, hg, P => by
    simp only [GoodListT, Bool.and_eq_true] at hg
    have hgn : Good { n with tail := none, tailAtomic := false } = true := by
      have := hg.1
      unfold Good at this ⊢
      rw [goodT_eq] at this ⊢
      exact this
    obtain ⟨E, hE⟩ := serialize_good_shape fmt _ hgn
    have hE' : serialize fmt { n with tail := none, tailAtomic := false } = '<' :: E ++ ['>'] := by
      rw [hE]; simp [tailStr, Node.truthy]
    simp only [rstripLast, serializeList, List.append_nil]
    rw [serialize_split fmt n, serialize_split fmt { n with tail := _ }]
    simp only [hE']
    simp only [tailStr]
    rw [trimOpt_truthy rstrip n.tail]
    by_cases ht : Node.truthy n.tail = true
    · simp only [ht, ↓reduceIte]
      rw [← List.append_assoc, rstrip_append_esc]
      split
      · rw [rstrip_gt]; simp
      · simp
    · simp only [ht, Bool.false_eq_true, ↓reduceIte, List.append_nil]
      exact rstrip_gt P E
  | n :: m :: r, _, hg, P => by
    simp only [GoodListT, Bool.and_eq_true] at hg
    have ih := rstrip_serializeList fmt (m :: r) (by simp)
      (by simp only [GoodListT, Bool.and_eq_true]; exact hg.2) (P ++ serialize fmt n)
    simp only [rstripLast, serializeList] at ih ⊢
    simpa [List.append_assoc] using ih

def trimOpt (f : Str → Str) (t : Option Str) : Option Str := if Node.truthy t then some (f (t.getD [])) else t

def textStr (t : Option Str) : Str := if Node.truthy t then escCdata (t.getD []) else []

theorem textStr_trimOpt (f : Str → Str) (t : Option Str) :
    textStr (trimOpt f t) = if Node.truthy t then (if f (t.getD []) = [] then [] else escCdata (f (t.getD []))) else [] :=
  trimOpt_truthy f t

/-- the document whose content serialises to the stripped content of `root` -/
def trimRoot (root : Node) : Node :=
  match root.children with
  | [] => { root with text := trimOpt rstrip (trimOpt lstrip root.text) }
  | c :: cs => { root with text := trimOpt lstrip root.text, children := rstripLast (c :: cs) }

theorem inner_eq (fmt : Fmt) (root : Node) : inner fmt root = textStr root.text ++ serializeList fmt root.children := rfl

theorem lstrip_textStr_append (t : Option Str) (K : Str) (hK : ∀ c, K.head? = some c → isSpace c = false) :
    lstrip (textStr t ++ K) = textStr (trimOpt lstrip t) ++ K := by
  have hKs : lstrip K = K := (lstripP_eq_self_iff _ _).2 hK
  rw [textStr_trimOpt]
  unfold textStr
  by_cases ht : Node.truthy t = true
  · simp only [ht, ↓reduceIte]
    rw [lstrip_esc_append]
    split
    · simpa using hKs
    · rfl
  · simp only [ht, Bool.false_eq_true, ↓reduceIte, List.nil_append]; exact hKs

theorem serializeList_head (fmt : Fmt) (l : List Node) (h : GoodList l = true) :
    ∀ c, (serializeList fmt l).head? = some c → isSpace c = false := by
  intro c hc
  cases l with
  | nil => simp [serializeList] at hc
  | cons n r =>
    simp only [GoodListT, Bool.and_eq_true] at h
    obtain ⟨E, hE⟩ := serialize_good_shape fmt n h.1
    simp only [serializeList, hE] at hc
    simp at hc; subst hc; decide

theorem strip_inner (fmt : Fmt) (root : Node) (hd : DocOk root = true) :
    strip (inner fmt root) = inner fmt (trimRoot root) ∧ DocOk (trimRoot root) = true := by
  simp only [DocOk, Bool.and_eq_true, beq_iff_eq, List.isEmpty_iff] at hd
  obtain ⟨⟨htag, hattrs⟩, hk⟩ := hd
  have hl := lstrip_textStr_append root.text (serializeList fmt root.children) (serializeList_head fmt _ hk)
  have hs : strip (inner fmt root) = rstrip (lstrip (inner fmt root)) := rfl
  rw [hs, inner_eq, hl]
  unfold trimRoot
  cases hc : root.children with
  | nil =>
    simp only [serializeList, List.append_nil, inner_eq]
    refine ⟨?_, ?_⟩
    · rw [textStr_trimOpt rstrip]
      generalize trimOpt lstrip root.text = t1
      unfold textStr
      by_cases ht : Node.truthy t1 = true
      · simp only [ht, ↓reduceIte]
        have := rstrip_append_esc [] (t1.getD [])
        simp only [List.nil_append] at this
        rw [this]
        split
        · rfl
        · rfl
      · simp only [ht, Bool.false_eq_true, ↓reduceIte]; rfl
    · simp [DocOk, htag, hattrs, GoodListT]
  | cons c cs =>
    rw [hc] at hk
    simp only [inner_eq]
    refine ⟨rstrip_serializeList fmt (c :: cs) (by simp) hk _, ?_⟩
    simp only [DocOk, Bool.and_eq_true, beq_iff_eq, List.isEmpty_iff]
    exact ⟨⟨htag, hattrs⟩, rstripLast_good _ hk⟩

/-- the output of `convert` (stripped content of the wrapper) is accepted by the strict reader and is in the
    vocabulary -/
theorem strip_inner_reads (fmt : Fmt) (root : Node) (hd : DocOk root = true) :
    readForest fmt (strip (inner fmt root)) = some (innerForest (trimRoot root)) ∧
      RGoodList (innerForest (trimRoot root)) = true := by
  obtain ⟨e, hd'⟩ := strip_inner fmt root hd
  rw [e]
  exact inner_reads fmt _ hd'

end Glue

end MdVerif.Vocab2
