/-
Helper lemmas for `Props/C12X.lean`: the abstract thread model (`Model/Threads.lean`) instantiated with a
concrete instance machine.

Generic part (`section Generic`): any "instance machine" — a conversion function `conv : C → S → Str → O × S` and a
reset `rst : S → S` — gives a thread program `prog conv rst` over the private store `TSt C S` (the configuration of
the thread's instance, the state of the instance, the operations the thread has still to perform):

  no operation left          `done`
  `convert src` next         `emit` the outcome of `conv`, go on with the state after the conversion
  `reset` next               `tau` to the reset state

`localRun_prog`: `n` steps of such a thread on its own are the first `n` operations run sequentially (`runG`,
`outsG`).  Together with `Threads.run_spec` (every thread of a system is, after ANY schedule, where it is after as
many steps on its own) this is the whole proof.

Concrete part: `conv := convertS` (`Model/InstanceX.lean`), where `runG`/`outsG` are `InstanceX.runS`/`outcomes`, and
`conv := convertSM` (with the `meta` extension), where they are `runSM`/`outcomesM`.

Core Lean only.
-/
import MdVerif.Model.InstanceX
import MdVerif.Model.Threads
import MdVerif.Lemmas.Threads
import MdVerif.Lemmas.InstanceX

namespace MdVerif.ThreadsX
open MdVerif.Threads MdVerif.InstanceX

/-- the private store of a thread: the configuration `c` of ITS instance, the state `st` of ITS instance, and the
    operations it has still to perform -/
structure TSt (C S : Type) where
  c : C
  st : S
  ops : List Ev

section Generic
variable {C S O : Type} (conv : C → S → Str → O × S) (rst : S → S)

/-- the state of an instance after a history (generic `InstanceX.runS`) -/
def runG (c : C) (st : S) : List Ev → S
  | [] => st
  | .convert s :: h => runG c (conv c st s).2 h
  | .reset :: h => runG c (rst st) h

/-- the outcomes of the conversions of a history (generic `InstanceX.outcomes`) -/
def outsG (c : C) (st : S) : List Ev → List O
  | [] => []
  | .convert s :: h => (conv c st s).1 :: outsG c (conv c st s).2 h
  | .reset :: h => outsG c (rst st) h

/-- the program of a thread that owns an instance: one step per operation, no access to shared state at all -/
def prog {K V : Type} (t : TSt C S) : Action K V O (TSt C S) :=
  match t.ops with
  | [] => .done
  | .convert s :: r => .emit (conv t.c t.st s).1 ⟨t.c, (conv t.c t.st s).2, r⟩
  | .reset :: r => .tau ⟨t.c, rst t.st, r⟩

variable {K V : Type} [DecidableEq K] (f : K → V)

omit [DecidableEq K] in
/-- **`n` steps alone = the first `n` operations, sequentially.** -/
theorem localRun_prog (ro : K → V) (n : Nat) (c : C) (st : S) (ops : List Ev) (tr : List O) :
    localRun (prog conv rst) f ro n ⟨⟨c, st, ops⟩, tr⟩ =
      ⟨⟨c, runG conv rst c st (ops.take n), ops.drop n⟩, tr ++ outsG conv rst c st (ops.take n)⟩ := by
  induction n generalizing st ops tr with
  | zero => simp [localRun, runG, outsG]
  | succ n ih =>
    cases ops with
    | nil =>
      have h : localStep (prog (K := K) (V := V) conv rst) f ro ⟨⟨c, st, []⟩, tr⟩ = ⟨⟨c, st, []⟩, tr⟩ := rfl
      rw [localRun, h, ih]
      simp [runG, outsG]
    | cons e r =>
      cases e with
      | convert s =>
        have h : localStep (prog (K := K) (V := V) conv rst) f ro ⟨⟨c, st, .convert s :: r⟩, tr⟩ =
            ⟨⟨c, (conv c st s).2, r⟩, tr ++ [(conv c st s).1]⟩ := rfl
        rw [localRun, h, ih]
        simp [runG, outsG]
      | reset =>
        have h : localStep (prog (K := K) (V := V) conv rst) f ro ⟨⟨c, st, .reset :: r⟩, tr⟩ =
            ⟨⟨c, rst st, r⟩, tr⟩ := rfl
        rw [localRun, h, ih]
        simp [runG, outsG]

omit [DecidableEq K] in
/-- a thread has finished exactly when it has no operation left -/
theorem isDone_prog (t : Thread (TSt C S) O) :
    isDone (prog (K := K) (V := V) conv rst) t = true ↔ t.st.ops = [] := by
  unfold isDone prog
  rcases h : t.st.ops with _ | ⟨e, r⟩
  · simp
  · cases e <;> simp

theorem runG_append (c : C) (st : S) (h1 h2 : List Ev) :
    runG conv rst c st (h1 ++ h2) = runG conv rst c (runG conv rst c st h1) h2 := by
  induction h1 generalizing st with
  | nil => rfl
  | cons e h1 ih => cases e <;> exact ih _

theorem outsG_append (c : C) (st : S) (h1 h2 : List Ev) :
    outsG conv rst c st (h1 ++ h2) = outsG conv rst c st h1 ++ outsG conv rst c (runG conv rst c st h1) h2 := by
  induction h1 generalizing st with
  | nil => rfl
  | cons e h1 ih => cases e <;> simp [outsG, runG, ih]

/-- a system of threads, thread `i` with the store `ts[i]` and no output yet -/
def initG (ts : List (TSt C S)) (sh : Shared K V) : Sys K V (TSt C S) O :=
  ⟨ts.map (fun t => ⟨t, []⟩), sh⟩

/-- **every thread, after every schedule**: where its first `s.count i` operations, run sequentially on its own
    instance, bring it -/
theorem run_initG (ts : List (TSt C S)) (sh : Shared K V) (hv : MemoValid f sh) (s : List Nat) (i : Nat) :
    (run (prog conv rst) f s (initG ts sh)).threads[i]? =
      (ts[i]?).map (fun t => ⟨⟨t.c, runG conv rst t.c t.st (t.ops.take (s.count i)), t.ops.drop (s.count i)⟩,
        outsG conv rst t.c t.st (t.ops.take (s.count i))⟩) := by
  rw [(run_spec (prog conv rst) f s (initG ts sh) hv).2.2 i]
  simp only [initG, List.getElem?_map, Option.map_map]
  cases ts[i]? with
  | none => rfl
  | some t =>
    simp only [Option.map_some, Function.comp]
    rw [localRun_prog]
    simp

/-- a step of such a thread never touches the shared state -/
theorem stepThread_prog_shared (t : Thread (TSt C S) O) (sh : Shared K V) :
    (stepThread (prog conv rst) f t sh).2 = sh := by
  unfold stepThread prog
  rcases t.st.ops with _ | ⟨e, r⟩
  · rfl
  · cases e <;> rfl

/-- … hence no schedule does -/
theorem run_prog_shared (s : List Nat) (sys : Sys K V (TSt C S) O) :
    (run (prog conv rst) f s sys).shared = sys.shared := by
  induction s generalizing sys with
  | nil => rfl
  | cons i s ih =>
    rw [run, ih]
    unfold stepSys
    cases sys.threads[i]? with
    | none => rfl
    | some t => exact stepThread_prog_shared conv rst f t sys.shared

end Generic

/-! ### the concrete machines -/

/-- `md.convert` of the concrete instance model; the configuration is the extension set with the `Cfg` -/
def convX (c : PipelineX.Exts × Pipeline.Cfg) (st : MdSt) (s : Str) : Pipeline.Outcome × MdSt :=
  convertS c.1 c.2 st s

/-- the same with the `meta` extension when the first component is `true` -/
def convM (c : Bool × PipelineX.Exts × Pipeline.Cfg) (st : MdSt) (s : Str) : Pipeline.Outcome × MdSt :=
  convertSM c.1 c.2.1 c.2.2 st s

theorem runG_convX (c : PipelineX.Exts × Pipeline.Cfg) (st : MdSt) (h : List Ev) :
    runG convX resetS c st h = runS c.1 c.2 st h := by
  induction h generalizing st with
  | nil => rfl
  | cons e h ih => cases e <;> exact ih _

theorem outsG_convX (c : PipelineX.Exts × Pipeline.Cfg) (st : MdSt) (h : List Ev) :
    outsG convX resetS c st h = outcomes c.1 c.2 st h := by
  induction h generalizing st with
  | nil => rfl
  | cons e h ih =>
    cases e with
    | convert s => simp only [outsG, outcomes, convX]; exact congrArg _ (ih _)
    | reset => exact ih _

theorem runG_convM (c : Bool × PipelineX.Exts × Pipeline.Cfg) (st : MdSt) (h : List Ev) :
    runG convM resetS c st h = runSM c.1 c.2.1 c.2.2 st h := by
  induction h generalizing st with
  | nil => rfl
  | cons e h ih => cases e <;> exact ih _

theorem outsG_convM (c : Bool × PipelineX.Exts × Pipeline.Cfg) (st : MdSt) (h : List Ev) :
    outsG convM resetS c st h = outcomesM c.1 c.2.1 c.2.2 st h := by
  induction h generalizing st with
  | nil => rfl
  | cons e h ih =>
    cases e with
    | convert s => simp only [outsG, outcomesM, convM]; exact congrArg _ (ih _)
    | reset => exact ih _

/-- the number of conversions in a history = the number of outcomes -/
def convCount : List Ev → Nat
  | [] => 0
  | .convert _ :: h => convCount h + 1
  | .reset :: h => convCount h

theorem outcomes_length (x : PipelineX.Exts) (cfg : Pipeline.Cfg) (st : MdSt) (h : List Ev) :
    (outcomes x cfg st h).length = convCount h := by
  induction h generalizing st with
  | nil => rfl
  | cons e h ih => cases e <;> simp [outcomes, convCount, ih]

/-- a history in which every conversion directly follows a `reset()` -/
def ResetBefore : List Ev → Bool
  | [] => true
  | .reset :: .convert _ :: h => ResetBefore h
  | .reset :: h => ResetBefore h
  | .convert _ :: _ => false

/-- the documents of a history -/
def docsOf : List Ev → List Str
  | [] => []
  | .convert s :: h => s :: docsOf h
  | .reset :: h => docsOf h

/-- in a history in which every conversion directly follows a reset, every outcome is the one-shot answer -/
theorem outcomes_resetBefore (x : PipelineX.Exts) (cfg : Pipeline.Cfg) (st : MdSt) (h : List Ev)
    (hr : ResetBefore h = true) : outcomes x cfg st h = (docsOf h).map (PipelineX.convertX x cfg) := by
  fun_induction ResetBefore h generalizing st with
  | case1 => rfl
  | case2 s h ih =>
    simp only [outcomes, docsOf, List.map_cons, resetS, convertS_fresh]
    exact congrArg _ (ih _ hr)
  | case3 h hne ih =>
    simp only [outcomes, docsOf]
    exact ih _ hr
  | case4 => cases hr

/-- the same when the history starts on a new instance: the first operation may be a conversion -/
theorem outcomes_fresh_resetBefore (x : PipelineX.Exts) (cfg : Pipeline.Cfg) (h : List Ev)
    (hr : ResetBefore (.reset :: h) = true) :
    outcomes x cfg fresh h = (docsOf h).map (PipelineX.convertX x cfg) := by
  have := outcomes_resetBefore x cfg fresh (.reset :: h) hr
  simpa [outcomes, docsOf, resetS] using this

/-! ### the concrete system: `n` threads, each owning one `Markdown` instance -/

/-- one thread of the concrete system: the extension set and configuration of ITS instance, the state the instance
    is in when the thread starts (`fresh` = just constructed), and the operations the thread performs on it, in
    program order -/
structure Worker where
  x : PipelineX.Exts
  cfg : Pipeline.Cfg := {}
  st : MdSt := fresh
  ops : List Ev

/-- the private store of a thread of the concrete system -/
abbrev TStX := TSt (PipelineX.Exts × Pipeline.Cfg) MdSt

def Worker.store (w : Worker) : TStX := ⟨(w.x, w.cfg), w.st, w.ops⟩

section Concrete
variable {K V : Type} [DecidableEq K]

/-- the program every thread runs: `convert` is `InstanceX.convertS` on the thread's own state, `reset` is `resetS` -/
def progX : TStX → Action K V Pipeline.Outcome TStX := prog convX resetS

/-- the initial system: thread `i` is `ws[i]`, nothing converted yet; `sh` is the module-level state -/
def initX (ws : List Worker) (sh : Shared K V) : Sys K V TStX Pipeline.Outcome :=
  initG (ws.map Worker.store) sh

/-- the system after the schedule `s` (a list of thread indices: `i` = thread `i` performs its next operation) -/
def runX (f : K → V) (s : List Nat) (ws : List Worker) (sh : Shared K V) : Sys K V TStX Pipeline.Outcome :=
  run progX f s (initX ws sh)

/-- the outcomes thread `i` has obtained so far, in order -/
def outputsX (sys : Sys K V TStX Pipeline.Outcome) (i : Nat) : List Pipeline.Outcome := trace sys i

/-- the outcomes of all threads -/
def allOutputsX (sys : Sys K V TStX Pipeline.Outcome) : List (List Pipeline.Outcome) := sys.threads.map (·.trace)

/-- the state of the instance of thread `i` -/
def instanceX (sys : Sys K V TStX Pipeline.Outcome) (i : Nat) : Option MdSt := (sys.threads[i]?).map (·.st.st)

/-- the operations thread `i` has still to perform -/
def pendingX (sys : Sys K V TStX Pipeline.Outcome) (i : Nat) : List Ev :=
  match sys.threads[i]? with
  | some t => t.st.ops
  | none => []

/-- the program with the `meta` extension (`convertSM`) -/
def progM : TSt (Bool × PipelineX.Exts × Pipeline.Cfg) MdSt →
    Action K V Pipeline.Outcome (TSt (Bool × PipelineX.Exts × Pipeline.Cfg) MdSt) := prog convM resetS

end Concrete

/-! ### the forbidden usage: several threads, ONE instance -/

/-- threads that share one instance: the state of THE instance, and per thread the operations still to perform and
    the outcomes obtained -/
structure SharedSys where
  inst : MdSt
  threads : List (List Ev × List Pipeline.Outcome)
  deriving DecidableEq

/-- thread `i` performs its next operation on the shared instance (each operation atomically — the most
    favourable assumption; a real `convert` is not atomic) -/
def stepShared (x : PipelineX.Exts) (cfg : Pipeline.Cfg) (i : Nat) (sys : SharedSys) : SharedSys :=
  match sys.threads[i]? with
  | some (.convert s :: r, out) =>
    ⟨(convertS x cfg sys.inst s).2, sys.threads.set i (r, out ++ [(convertS x cfg sys.inst s).1])⟩
  | some (.reset :: r, out) => ⟨resetS sys.inst, sys.threads.set i (r, out)⟩
  | _ => sys

def runShared (x : PipelineX.Exts) (cfg : Pipeline.Cfg) : List Nat → SharedSys → SharedSys
  | [], sys => sys
  | i :: s, sys => runShared x cfg s (stepShared x cfg i sys)

/-- thread `i` uses a new instance shared with the others: `opss[i]` are its operations -/
def initShared (opss : List (List Ev)) : SharedSys := ⟨fresh, opss.map (fun o => (o, []))⟩

end MdVerif.ThreadsX
