/-
Lemmas for C05 on the extension model, output level with fenced_code, part 0: the HTML stash that `treeX` returns is
`fenced ++ ents` — the entries of `FencedBlockPreprocessor` (each `Fenced.blockHtmlA id classes lang code`, without
STX/ETX: `FEntry`), then entity references (`Vocab2.entRef`) — for every source, configuration and flag set.

The first two sections (shape of a match of `FENCED_BLOCK_RE`, entries without STX/ETX) are taken over from worker
fc2's `Lemmas/F/PlaceholdersXTFence.lean` (same statements, no domain hypothesis involved), so that this file does not
depend on that file, which is still changing.  Core Lean only.
-/
import MdVerif.Lemmas.FencedCodeAttrs
import MdVerif.Lemmas.PlaceholdersXAttr
import MdVerif.Lemmas.PlaceholdersChain
import MdVerif.Lemmas.Code
import MdVerif.Lemmas.BlockRef
import MdVerif.Lemmas.BlockExtStr
import MdVerif.Lemmas.VocabXWFStash
import MdVerif.Lemmas.PlaceholdersXRaw

namespace MdVerif.VocabXFence
open Py
open MdVerif.NoCtl (STX ETX NoCtl)
open MdVerif.Fenced

/-! ### the closing line ends at a line end -/

/-- nothing, or a line feed first -/
def Eol (s : Str) : Prop := s = [] ∨ ∃ y, s = '\n' :: y

theorem closeLines_eol (fence : Str) : ∀ (ls : List Str) (off cl ll : Nat), closeLines fence off ls = some (cl, ll) →
    off ≤ cl ∧ Eol ((joinLines ls).drop (cl - off + ll))
  | [], _, _, _, h => by simp [closeLines] at h
  | l :: rest, off, cl, ll, h => by
    simp only [closeLines] at h
    split at h
    · simp only [Option.some.injEq, Prod.mk.injEq] at h
      obtain ⟨rfl, rfl⟩ := h
      refine ⟨Nat.le_refl _, ?_⟩
      rw [Nat.sub_self, Nat.zero_add]
      cases rest with
      | nil => left; simp [Py.joinLines, join]
      | cons b r =>
        right
        refine ⟨joinLines (b :: r), ?_⟩
        rw [Block.joinLines_cons_cons, List.drop_left]
    · obtain ⟨h1, h2⟩ := closeLines_eol fence rest _ cl ll h
      refine ⟨by omega, ?_⟩
      cases rest with
      | nil => simp [closeLines] at h
      | cons b r =>
        have e : cl - off + ll = l.length + ((cl - (off + l.length + 1) + ll) + 1) := by omega
        rw [Block.joinLines_cons_cons, e, ← List.drop_drop, List.drop_left, List.drop_succ_cons]
        exact h2

/-! ### the groups of a match are pieces of the text -/

theorem attrCands_infix {b : Str} {base : Nat} {c : Cand} (h : c ∈ attrCands b base) :
    c.attrs.getD [] <:+: b ∧ c.lang = none := by
  simp only [attrCands] at h
  split at h
  · rename_i r
    simp only [List.mem_filterMap] at h
    obtain ⟨j, _, hj⟩ := h
    split at hj
    · injection hj with hj
      subst hj
      refine ⟨?_, rfl⟩
      show (r.takeWhile (· ≠ '\n')).take j <:+: '{' :: r
      exact ((List.take_prefix _ _).trans (List.takeWhile_prefix _)).isInfix.trans (List.suffix_cons _ _).isInfix
    · cases hj
  · cases h

theorem langCands_infix {b : Str} {base : Nat} {x : Option Str × Option Str × Nat} (h : x ∈ langCands b base) :
    x.1.getD [] <:+: b := by
  simp only [langCands, List.mem_append, List.mem_flatMap, List.mem_map] at h
  rcases h with ⟨d, _, l, _, s2, _, hp, _, rfl⟩ | ⟨hp, _, rfl⟩
  · exact (List.take_prefix _ _).isInfix.trans (List.drop_suffix _ _).isInfix
  · exact List.nil_infix

theorem openCands_infix {a : Str} {c : Cand} (h : c ∈ openCands a) :
    c.attrs.getD [] <:+: a ∧ c.lang.getD [] <:+: a := by
  simp only [openCands, List.mem_flatMap, List.mem_append, List.mem_map] at h
  obtain ⟨k, _, h | ⟨x, hx, rfl⟩⟩ := h
  · obtain ⟨h1, h2⟩ := attrCands_infix h
    refine ⟨h1.trans (List.drop_suffix _ _).isInfix, ?_⟩
    rw [h2]; exact List.nil_infix
  · exact ⟨List.nil_infix, (langCands_infix hx).trans (List.drop_suffix _ _).isInfix⟩

/-- a match at the start of `s`: the first character is a fence character, the match ends at a line end, the groups
    are pieces of `s` -/
theorem fenceAt_shape {s : Str} {m : FenceMatch} (h : fenceAt s = some m) :
    (∃ c r, s = c :: r ∧ (c = '~' ∨ c = '`')) ∧ Eol (s.drop m.stop) ∧
      m.code <:+: s ∧ m.attrs.getD [] <:+: s ∧ m.lang.getD [] <:+: s := by
  simp only [fenceAt] at h
  split at h
  · cases h
  · rename_i hn
    have hhead : ∃ c r, s = c :: r ∧ (c = '~' ∨ c = '`') := by
      unfold fenceRun at hn
      split at hn
      · exact ⟨_, _, rfl, .inl rfl⟩
      · exact ⟨_, _, rfl, .inr rfl⟩
      · omega
    obtain ⟨c, hc, ht⟩ := List.exists_of_findSome?_eq_some h
    obtain ⟨i1, i2⟩ := openCands_infix hc
    have hsuf : s.drop (fenceRun s) <:+: s := (List.drop_suffix _ _).isInfix
    simp only [tryCand] at ht
    split at ht
    · rename_i body hb
      split at ht
      · rename_i cl ll hcl
        injection ht with ht
        subst ht
        obtain ⟨_, he⟩ := closeLines_eol _ _ _ _ _ hcl
        rw [lines_joinLines, Nat.sub_zero] at he
        have hbody : s.drop (fenceRun s + c.p + 1) = body := by
          have : s.drop (fenceRun s + c.p) = '\n' :: body := by rw [← List.drop_drop]; exact hb
          rw [← List.drop_drop, this]; rfl
        refine ⟨hhead, ?_, ?_, i1.trans hsuf, i2.trans hsuf⟩
        · show Eol (s.drop (fenceRun s + c.p + 1 + cl + ll))
          have e : fenceRun s + c.p + 1 + cl + ll = (fenceRun s + c.p + 1) + (cl + ll) := by omega
          rw [e, ← List.drop_drop, hbody]
          exact he
        · show body.take cl <:+: s
          rw [← hbody]
          exact (List.take_prefix _ _).isInfix.trans (List.drop_suffix _ _).isInfix
      · cases ht
    · cases ht

/-- the leftmost match in `s` (at offset `off` of the text) -/
theorem fenceScan_shape : ∀ (s : Str) (bol : Bool) (off : Nat) {m : FenceMatch}, fenceScan bol off s = some m →
    ∃ pre suf m0, s = pre ++ suf ∧ fenceAt suf = some m0 ∧ m.start = off + pre.length ∧
      m.stop = off + pre.length + m0.stop ∧ m.code = m0.code ∧ m.attrs = m0.attrs ∧ m.lang = m0.lang ∧
      ((pre = [] ∧ bol = true) ∨ ∃ p', pre = p' ++ ['\n']) := by
  intro s
  induction s with
  | nil => intro bol off m h; simp [fenceScan] at h
  | cons c r ih =>
    intro bol off m h
    simp only [fenceScan] at h
    split at h
    · rename_i m0 hm0
      injection h with h
      subst h
      split at hm0
      · rename_i hb
        exact ⟨[], c :: r, m0, rfl, hm0, rfl, rfl, rfl, rfl, rfl, .inl ⟨rfl, hb⟩⟩
      · cases hm0
    · obtain ⟨pre, suf, m0, e, h1, h2, h3, h4, h5, h6, h7⟩ := ih _ _ h
      refine ⟨c :: pre, suf, m0, by rw [e]; rfl, h1, by rw [h2]; simp; omega, by rw [h3]; simp; omega, h4, h5, h6, ?_⟩
      right
      rcases h7 with ⟨rfl, hb⟩ | ⟨p', rfl⟩
      · have : c = '\n' := by simpa using hb
        exact ⟨[], by rw [this]; rfl⟩
      · exact ⟨c :: p', rfl⟩

/-- **a match of `FENCED_BLOCK_RE.search(text, index)`**: it starts at a line start behind the index, with a fence
    character; it ends at a line end; its groups are pieces of the text behind the index -/
theorem fenceFindFrom_shape {text : Str} {index : Nat} {m : FenceMatch} (h : fenceFindFrom text index = some m) :
    index ≤ m.start ∧ m.start + 3 ≤ m.stop ∧ m.stop ≤ text.length ∧
      (text.take m.start = [] ∨ ∃ x, text.take m.start = x ++ ['\n']) ∧
      (∃ c r, text.drop m.start = c :: r ∧ (c = '~' ∨ c = '`')) ∧ Eol (text.drop m.stop) ∧
      m.code <:+: text.drop index ∧ m.attrs.getD [] <:+: text.drop index ∧ m.lang.getD [] <:+: text.drop index := by
  obtain ⟨b1, b2, b3⟩ := fenceFindFrom_bounds text index m h
  unfold fenceFindFrom at h
  obtain ⟨pre, suf, m0, e, h1, h2, h3, h4, h5, h6, h7⟩ := fenceScan_shape _ _ _ h
  obtain ⟨s1, s2, s3, s4, s5⟩ := fenceAt_shape h1
  have hsuf : suf <:+: text.drop index := ⟨pre, [], by rw [e]; simp⟩
  have hdrop : text.drop m.start = suf := by
    rw [h2, ← List.drop_drop, e, List.drop_left]
  have htake : text.take m.start = text.take index ++ pre := by
    rw [h2, List.take_add, e, List.take_left]
  refine ⟨b1, b2, b3, ?_, by rw [hdrop]; exact s1, ?_, by rw [h4]; exact s3.trans hsuf,
    by rw [h5]; exact s4.trans hsuf, by rw [h6]; exact s5.trans hsuf⟩
  · rw [htake]
    rcases h7 with ⟨rfl, hb⟩ | ⟨p', rfl⟩
    · rw [List.append_nil]
      simp only [Bool.or_eq_true, decide_eq_true_eq] at hb
      by_cases h0 : index = 0
      · left; rw [h0]; rfl
      · rcases hb with hb | hb
        · exact absurd hb h0
        · right
          have hi : index = (index - 1) + 1 := by omega
          refine ⟨text.take (index - 1), ?_⟩
          rw [hi, List.take_add_one, ← hi]
          simp [hb]
    · right; exact ⟨text.take index ++ p', by simp⟩
  · rw [h3]
    have : text.drop (index + pre.length + m0.stop) = suf.drop m0.stop := by
      rw [← hdrop, h2, List.drop_drop]
    rw [this]; exact s2



theorem noCtl_suffix {s t : Str} (h : NoCtl s) (ht : t <:+: s) : NoCtl t :=
  ⟨fun hm => h.1 (ht.subset hm), fun hm => h.2 (ht.subset hm)⟩


/-! ### the stash entries -/

theorem noCtl_fenceEscape {s : Str} (h : NoCtl s) : NoCtl (Code.fenceEscape s) := by
  rw [Code.fenceEscape_onepass, Code.fenceEscape1_eq_flatMap, NoCtl.noCtl_iff]
  intro c hc
  simp only [List.mem_flatMap] at hc
  obtain ⟨d, hd, hcd⟩ := hc
  have hdd := (NoCtl.noCtl_iff.1 h) d hd
  unfold Code.fesc1Char at hcd
  split at hcd
  · have : c ∈ "&amp;".toList := hcd
    constructor <;> (intro e; subst e; revert this; decide)
  · split at hcd
    · have : c ∈ "&lt;".toList := hcd
      constructor <;> (intro e; subst e; revert this; decide)
    · split at hcd
      · have : c ∈ "&gt;".toList := hcd
        constructor <;> (intro e; subst e; revert this; decide)
      · split at hcd
        · have : c ∈ "&quot;".toList := hcd
          constructor <;> (intro e; subst e; revert this; decide)
        · simp only [List.mem_singleton] at hcd
          subst hcd; exact hdd

theorem noCtl_join_sp : ∀ {l : List Str}, (∀ x ∈ l, NoCtl x) → NoCtl (Py.join [' '] l)
  | [], _ => NoCtl.noCtl_nil
  | [a], h => h a (by simp)
  | a :: b :: r, h => by
    rw [BlockExt.join_cons_cons]
    refine NoCtl.noCtl_append.2 ⟨NoCtl.noCtl_append.2 ⟨h a (by simp), by decide⟩, ?_⟩
    exact noCtl_join_sp (fun x hx => h x (List.mem_cons_of_mem _ hx))

/-- the HTML stored for a block holds no STX/ETX when its parts hold none -/
theorem noCtl_blockHtmlA {id : Str} {classes : List Str} {lang code : Str} (h1 : NoCtl id)
    (h2 : ∀ x ∈ classes, NoCtl x) (h3 : NoCtl lang) (h4 : NoCtl code) :
    NoCtl (Fenced.blockHtmlA id classes lang code) := by
  unfold Fenced.blockHtmlA
  have e1 := NoCtl.escAttrHtml_noctl h1
  have e2 := NoCtl.escAttrHtml_noctl (noCtl_join_sp h2)
  have e3 := NoCtl.escAttrHtml_noctl h3
  have e4 := noCtl_fenceEscape h4
  have l1 : NoCtl "<pre".toList := by decide
  have l2 : NoCtl " id=\"".toList := by decide
  have l3 : NoCtl ['"'] := by decide
  have l4 : NoCtl " class=\"".toList := by decide
  have l5 : NoCtl "><code".toList := by decide
  have l6 : NoCtl " class=\"language-".toList := by decide
  have l7 : NoCtl ['>'] := by decide
  have l8 : NoCtl "</code></pre>".toList := by decide
  have i1 : NoCtl (if id.isEmpty = true then [] else " id=\"".toList ++ Ser.escAttrHtml id ++ ['"']) := by
    split
    · exact NoCtl.noCtl_nil
    · exact NoCtl.noCtl_append.2 ⟨NoCtl.noCtl_append.2 ⟨l2, e1⟩, l3⟩
  have i2 : NoCtl (if classes.isEmpty = true then []
      else " class=\"".toList ++ Ser.escAttrHtml (Py.join [' '] classes) ++ ['"']) := by
    split
    · exact NoCtl.noCtl_nil
    · exact NoCtl.noCtl_append.2 ⟨NoCtl.noCtl_append.2 ⟨l4, e2⟩, l3⟩
  have i3 : NoCtl (if lang.isEmpty = true then [] else " class=\"language-".toList ++ Ser.escAttrHtml lang ++ ['"']) := by
    split
    · exact NoCtl.noCtl_nil
    · exact NoCtl.noCtl_append.2 ⟨NoCtl.noCtl_append.2 ⟨l6, e3⟩, l3⟩
  exact NoCtl.noCtl_append.2 ⟨NoCtl.noCtl_append.2 ⟨NoCtl.noCtl_append.2 ⟨NoCtl.noCtl_append.2
    ⟨NoCtl.noCtl_append.2 ⟨NoCtl.noCtl_append.2 ⟨NoCtl.noCtl_append.2 ⟨l1, i1⟩, i2⟩, l5⟩, i3⟩, l7⟩, e4⟩, l8⟩

theorem handleAttrs_noctl {attrs : List (Str × Str)} (h : ∀ kv ∈ attrs, NoCtl kv.1 ∧ NoCtl kv.2) :
    NoCtl (Fenced.handleAttrs attrs).1 ∧ ∀ x ∈ (Fenced.handleAttrs attrs).2, NoCtl x := by
  unfold Fenced.handleAttrs
  have key : ∀ (l : List (Str × Str)) (acc : Str × List Str), (∀ kv ∈ l, NoCtl kv.1 ∧ NoCtl kv.2) →
      (NoCtl acc.1 ∧ ∀ x ∈ acc.2, NoCtl x) →
      NoCtl (l.foldl (fun acc kv => if kv.fst = "id".toList then (kv.snd, acc.snd)
        else if kv.fst = ".".toList then (acc.fst, acc.snd ++ [kv.snd]) else acc) acc).1 ∧
      ∀ x ∈ (l.foldl (fun acc kv => if kv.fst = "id".toList then (kv.snd, acc.snd)
        else if kv.fst = ".".toList then (acc.fst, acc.snd ++ [kv.snd]) else acc) acc).2, NoCtl x := by
    intro l
    induction l with
    | nil => intro acc _ ha; exact ha
    | cons kv l ih =>
      intro acc hl ha
      simp only [List.foldl_cons]
      apply ih _ (fun x hx => hl x (List.mem_cons_of_mem _ hx))
      have hkv := hl kv (by simp)
      split
      · exact ⟨hkv.2, ha.2⟩
      · split
        · refine ⟨ha.1, ?_⟩
          intro x hx
          rcases List.mem_append.1 hx with hx | hx
          · exact ha.2 x hx
          · simp only [List.mem_singleton] at hx; subst hx; exact hkv.2
        · exact ha
  exact key attrs ([], []) h ⟨NoCtl.noCtl_nil, fun x hx => by cases hx⟩

/-- the entry stored for a match whose groups hold no STX/ETX -/
theorem entry_noctl {a lang code : Str} (ha : NoCtl a) (hl : NoCtl lang) (hc : NoCtl code) :
    NoCtl (Fenced.blockHtmlA [] [] lang code) ∧
    NoCtl (Fenced.blockHtmlA (Fenced.handleAttrs (AttrList.getAttrsAndRemainder a).1).1
      (Fenced.handleAttrs (AttrList.getAttrsAndRemainder a).1).2.tail
      ((Fenced.handleAttrs (AttrList.getAttrsAndRemainder a).1).2.head?.getD []) code) := by
  refine ⟨noCtl_blockHtmlA NoCtl.noCtl_nil (fun x hx => by cases hx) hl hc, ?_⟩
  have hw := (NoCtlX.getAttrsAndRemainder_wf (esc := false) (NoCtl.WF.of_noCtl ha)).1
  obtain ⟨g1, g2⟩ := handleAttrs_noctl (attrs := (AttrList.getAttrsAndRemainder a).1)
    (fun kv hkv => ⟨NoCtl.noCtl_of_wf (hw kv hkv).1, NoCtl.noCtl_of_wf (hw kv hkv).2⟩)
  refine noCtl_blockHtmlA g1 (fun x hx => g2 x (List.mem_of_mem_tail hx)) ?_ hc
  cases hh : (Fenced.handleAttrs (AttrList.getAttrsAndRemainder a).1).2.head? with
  | none => exact NoCtl.noCtl_nil
  | some x => exact g2 x (List.mem_of_mem_head? hh)


/-! ### the entries of the preprocessor -/

open PipelineX Vocab2

/-- an entry of `FencedBlockPreprocessor`: `<pre…><code…>escaped code</code></pre>`, without STX/ETX -/
def FEntry (e : Str) : Prop :=
  (∃ id classes lang code, e = Fenced.blockHtmlA id classes lang code) ∧ NoCtl e

theorem drop_step (text : Str) (a b : Nat) (ph : Str) (hab : a ≤ b) (hb : b ≤ text.length) :
    (text.take a ++ '\n' :: (ph ++ '\n' :: text.drop b)).drop (a + 1 + ph.length) = '\n' :: text.drop b := by
  have ha : a ≤ text.length := Nat.le_trans hab hb
  have h1 : (text.take a).length = a := by rw [List.length_take]; omega
  have e : text.take a ++ '\n' :: (ph ++ '\n' :: text.drop b) =
      (text.take a ++ '\n' :: ph) ++ ('\n' :: text.drop b) := by simp
  rw [e]
  have hl : (text.take a ++ '\n' :: ph).length = a + 1 + ph.length := by
    simp only [List.length_append, List.length_cons, h1]; omega
  rw [← hl, List.drop_left]

/-- the entries `FencedBlockPreprocessor.run` appends are `FEntry`s when the text behind the search index holds no
    STX/ETX -/
theorem fencedLoopA_fentry : ∀ (fuel : Nat) (text : Str) (index : Nat) (stash : List Str) (t' : Str)
    (stash' : List Str), Fenced.fencedLoopA fuel text index stash = .ok t' stash' →
    NoCtl (text.drop index) → (∀ e ∈ stash, FEntry e) → ∀ e ∈ stash', FEntry e := by
  intro fuel
  induction fuel with
  | zero => intro text index stash t' stash' h; simp [Fenced.fencedLoopA] at h
  | succ k ih =>
    intro text index stash t' stash' h hI hS
    simp only [Fenced.fencedLoopA] at h
    split at h
    · simp only [Fenced.RunResult.ok.injEq] at h
      obtain ⟨_, rfl⟩ := h
      exact hS
    · rename_i m hm
      obtain ⟨b1, b2, b3, _, _, _, i1, i2, i3⟩ := fenceFindFrom_shape hm
      have hcode := noCtl_suffix hI i1
      have hattrs := noCtl_suffix hI i2
      have hlang := noCtl_suffix hI i3
      obtain ⟨e1, e2⟩ := entry_noctl hattrs hlang hcode
      have hS' : ∀ x, FEntry x → ∀ e ∈ stash ++ [x], FEntry e := by
        intro x hx e he
        rcases List.mem_append.1 he with he | he
        · exact hS e he
        · simp only [List.mem_singleton] at he; subst he; exact hx
      have hnext : NoCtl ((text.take m.start ++ '\n' :: (Fenced.placeholder stash.length ++ '\n' :: text.drop m.stop)).drop
          (m.start + 1 + (Fenced.placeholder stash.length).length)) := by
        rw [drop_step text m.start m.stop _ (by omega) b3]
        have hs : text.drop m.stop <:+: text.drop index := by
          have : text.drop m.stop = (text.drop index).drop (m.stop - index) := by
            rw [List.drop_drop]; congr 1; omega
          rw [this]; exact (List.drop_suffix _ _).isInfix
        have := noCtl_suffix hI hs
        exact NoCtl.noCtl_cons.2 ⟨⟨by decide, by decide⟩, this⟩
      split at h
      · exact ih _ _ _ _ _ h hnext (hS' _ ⟨⟨_, _, _, _, rfl⟩, e1⟩)
      · split at h
        · refine ih _ _ _ _ _ h ?_ hS
          have hge : index ≤ Fenced.attrsEnd text m (m.attrs.getD []) := by
            unfold Fenced.attrsEnd; omega
          have : text.drop (Fenced.attrsEnd text m (m.attrs.getD [])) =
              (text.drop index).drop (Fenced.attrsEnd text m (m.attrs.getD []) - index) := by
            rw [List.drop_drop]; congr 1; omega
          rw [this]
          exact noCtl_suffix hI (List.drop_suffix _ _).isInfix
        · exact ih _ _ _ _ _ h hnext (hS' _ ⟨⟨_, _, _, _, rfl⟩, e2⟩)

theorem fencedRunA_fentry {t t' : Str} {stash : List Str} (h : Fenced.fencedRunA t = .ok t' stash) (hn : NoCtl t) :
    ∀ e ∈ stash, FEntry e :=
  fencedLoopA_fentry _ _ _ _ _ _ h (by simpa using hn) (fun e he => by cases he)

end MdVerif.VocabXFence
