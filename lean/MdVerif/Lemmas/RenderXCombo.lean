/-
Helper lemmas for `Props/C16RenderX.lean`, part 9: admonition and def_list render as documented also when other
extensions of the model (admonition, def_list, abbr, footnotes, sane_lists, wikilinks) are enabled with them.

Core Lean only.
-/
import MdVerif.Lemmas.RenderXNl
import MdVerif.Lemmas.RenderXDef
import MdVerif.Lemmas.RenderXAbbr
import MdVerif.Lemmas.RenderXFn

namespace MdVerif.RenderX
open Py Block BlockExt

theorem noFn_adm (kl : Str) (ttl : Option Str) (body : Str) :
    noFnDiv ((Node.el "div").append (admDiv kl ttl body)) = true := by
  have hcls : ¬ strAdmonition ++ ' ' :: kl = ['f', 'o', 'o', 't', 'n', 'o', 't', 'e'] := by
    have hsa : strAdmonition = 'a' :: "dmonition".toList := by decide
    rw [hsa]
    intro e
    simp only [List.cons_append, List.cons.injEq] at e
    exact absurd e.1 (by decide)
  rcases ttl_cases ttl with ⟨a, as, rfl⟩ | rfl | rfl <;>
    simp [Node.append, Node.el, admDiv, mkText, noFnDiv, noFnDivKids, Node.truthy, strClass, hcls]

theorem convertX_adm_with (x : PipelineX.Exts) (hadm : x.admonition = true) (hnl : x.nl2br = false)
    (hf : x.fencedCode = false) (htb : x.tables = false) (hal : x.attrList = false) (htoc : x.toc = false)
    (cfg : Pipeline.Cfg) (hbl : cfg.blockLevel = TreeProc.defaultBlockLevel) (htab : 0 < cfg.tab)
    (kl : Str) (title ttl : Option Str) (b0 : Str) (br : List Str) (hk : PlainFacts kl)
    (ht : ∀ t, title = some t → ∀ c ∈ t, DocSpec.isAlnumSp c = true)
    (httl : ∀ c ∈ ttl.getD [], DocSpec.isAlnumSp c = true)
    (hb : ∀ l ∈ b0 :: br, PlainFacts l) (hcl : admClassTitle kl title = (kl, ttl)) :
    PipelineX.convertX x cfg (admSrc cfg.tab kl title (b0 :: br)) = .ok (admOut kl ttl (joinLines (b0 :: br))) := by
  have ht' : ∀ t, title = some t → ∀ c ∈ t, c ≠ '\n' ∧ c ≠ '"' := by
    intro t h c hc
    have f := alnumSp_quiet (ht t h c hc)
    exact ⟨f.2.1, f.2.2.2.2.2.2.1⟩
  obtain ⟨s1, s2, s3, s4, s5⟩ := front_lines cfg.tab (admHeader kl title :: CodeLaw.indentLines cfg.tab (b0 :: br))
    (by simp)
    (by
      intro l hl
      rcases List.mem_cons.1 hl with rfl | hl
      · exact safeLine_header kl title hk ht
      · obtain ⟨y, hy, rfl⟩ := List.mem_map.1 hl
        exact safeLine_indent cfg.tab y (hb y hy))
    ⟨'!', by
      rw [show joinLines (admHeader kl title :: CodeLaw.indentLines cfg.tab (b0 :: br)) =
        admSrc cfg.tab kl title (b0 :: br) from rfl, admSrc_eq]
      simp [admHeader], by decide⟩
  rw [show joinLines (admHeader kl title :: CodeLaw.indentLines cfg.tab (b0 :: br)) =
    admSrc cfg.tab kl title (b0 :: br) from rfl] at s1 s2 s3 s4 s5
  have hblk := parseDocumentXT_adm x.blockCfg (by simpa [PipelineX.Exts.blockCfg] using hadm) cfg.tab htab kl title ttl
    b0 br hk ht' hb hcl
  have hquiet : quietKids false ((Node.el "div").append (admDiv kl ttl (joinLines (b0 :: br)))).children = true := by
    have hbq := quietStr_lines b0 br hb
    rcases ttl_cases ttl with ⟨a, as, rfl⟩ | rfl | rfl
    · have htq := quietStr_chars false (a :: as) (by simpa using httl)
      simp [Node.append, Node.el, admDiv, mkText, quietKids, quietTree, Node.truthy, hbq, htq]
    · simp [Node.append, Node.el, admDiv, mkText, quietKids, quietTree, Node.truthy, hbq]
    · simp [Node.append, Node.el, admDiv, mkText, quietKids, quietTree, Node.truthy, hbq]
  have hrun := fun (ic : Inline.Cfg) (keys : List Str) =>
    runX_quiet { cfg := ic, table := InlineX.table x.footnotes x.wikilinks false, fnKeys := keys } false
      (fun hm => nl_mem_table _ _ false hm) (Nat.le_trans (by decide) (table_length _ _ false)) _ [] hquiet
  have hpre := prettify_adm kl ttl (joinLines (b0 :: br))
  have hbne : joinLines (b0 :: br) ≠ [] := by
    have := (block_facts b0 br hb).2.2.1
    intro e; rw [e] at this; simp [Escape.startsVisible] at this
  have hbch : ∀ c ∈ joinLines (b0 :: br), c ≠ Inline.STX ∧ c ≠ '&' ∧ c ≠ '<' ∧ c ≠ '>' := by
    intro c hc
    rcases mem_joinLines_plain hb hc with rfl | h
    · decide
    · have f := alnumSp_quiet h
      exact ⟨f.2.2.1, f.2.2.2.1, f.2.2.2.2.1, f.2.2.2.2.2.1⟩
  have hun := unescapeTree_adm kl ttl (joinLines (b0 :: br)) (fun hm => (alnumSp_quiet (hk.chars _ hm)).2.2.1 rfl)
    (fun hm => (alnumSp_quiet (httl _ hm)).2.2.1 rfl) (fun hm => (hbch _ hm).1 rfl) hbne
  have hser := serialize_adm cfg.fmt kl ttl (joinLines (b0 :: br))
    (fun c hc => let f := alnumSp_quiet (hk.chars c hc); ⟨f.2.2.2.1, f.2.2.2.2.1, f.2.2.2.2.2.1, f.2.2.2.2.2.2.1⟩)
    (fun c hc => let f := alnumSp_quiet (httl c hc); ⟨f.2.2.2.1, f.2.2.2.2.1, f.2.2.2.2.2.1⟩)
    (fun c hc => (hbch c hc).2) hbne
  have hJ : Post.STX ∉ admOut kl ttl (joinLines (b0 :: br)) := by
    intro hm
    unfold admOut at hm
    rcases List.mem_append.1 hm with hm | hm
    · rcases List.mem_append.1 hm with hm | hm
      · rcases List.mem_append.1 hm with hm | hm
        · rcases List.mem_append.1 hm with hm | hm
          · rcases List.mem_append.1 hm with hm | hm
            · rcases List.mem_append.1 hm with hm | hm
              · simp only [String.reduceToList] at hm; exact absurd hm (by decide)
              · exact (alnumSp_quiet (hk.chars _ hm)).2.2.1 rfl
            · simp only [String.reduceToList] at hm; exact absurd hm (by decide)
          · split at hm
            · rcases List.mem_append.1 hm with hm | hm
              · rcases List.mem_append.1 hm with hm | hm
                · simp only [String.reduceToList] at hm; exact absurd hm (by decide)
                · exact (alnumSp_quiet (httl _ hm)).2.2.1 rfl
              · simp only [String.reduceToList] at hm; exact absurd hm (by decide)
            · simp at hm
        · simp only [String.reduceToList] at hm; exact absurd hm (by decide)
      · exact (hbch _ hm).1 rfl
    · simp only [String.reduceToList] at hm; exact absurd hm (by decide)
  obtain ⟨M, hM⟩ := admOut_shape kl ttl (joinLines (b0 :: br))
  have hfin := finishX_wrapped' x cfg (admOut kl ttl (joinLines (b0 :: br))) hJ
    (fun c hc => by
      rw [hM] at hc
      have : c = '<' := by simpa using hc.symm
      subst this; decide)
    (fun c hc => by
      rw [hM, show '<' :: M ++ ['>'] = ('<' :: M) ++ ['>'] from rfl, List.getLast?_append] at hc
      have : c = '>' := by simpa using hc.symm
      subst this; decide)
  have hfo : BlockExt.footnotesOf [] = [] := rfl
  have hab : BlockExt.abbrsOf [] = [] := rfl
  have hmk : ∀ p fc, FootnotesTree.makeDiv p fc [] [] = .ok (none, []) := fun _ _ => rfl
  have habbr : ∀ t, AbbrTree.run [] t = t := fun _ => rfl
  have hdup := fun fn => duplicates_noFn fn _ (noFn_adm kl ttl (joinLines (b0 :: br)))
  simp only [PipelineX.convertX, s1, s2, PipelineX.Exts.unsupported, Bool.false_eq_true, if_false,
    PipelineX.treeX, PipelineX.prepareX, s3, s4, s5, Bool.and_false, hf, htb, hblk, hfo, hmk, hnl, hal, htoc]
  cases hfn : x.footnotes <;> cases hab' : x.abbr <;>
    simp only [hfn, hab', Bool.false_eq_true, if_false, if_true, List.map_nil, PipelineX.refsX, Bool.or_self,
      Bool.or_true, Bool.or_false, Bool.true_or, BlockExt.refsOf, List.filter_nil, PipelineX.escX, htb, Bool.false_and] <;>
    (rw [hfn] at hrun; rw [hrun]; simp only [hdup, hbl, hpre, hab, habbr, hun, hser]; exact hfin)

theorem noFnKids_append (A B : List Node) : noFnDivKids (A ++ B) = (noFnDivKids A && noFnDivKids B) := by
  induction A with
  | nil => simp [noFnDivKids]
  | cons a A ih => simp only [List.cons_append, noFnDivKids, ih, Bool.and_assoc]

theorem noFnKids_txt (tag : String) (L : List Str) : noFnDivKids (L.map (fun t => mkText tag t)) = true := by
  induction L with
  | nil => rfl
  | cons t L ih =>
    simp only [List.map_cons, noFnDivKids, ih, Bool.and_true]
    simp [noFnDiv, noFnDivKids, mkText, Node.el]

theorem noFn_dl (terms ds : List Str) : noFnDiv ((Node.el "div").append (dlNode terms ds)) = true := by
  have hdd : ds.map ddNode = ds.map (fun t => mkText "dd" t) := rfl
  simp [Node.append, Node.el, dlNode, noFnDiv, noFnDivKids, hdd, noFnKids_append, noFnKids_txt]

theorem convertX_def_with (x : PipelineX.Exts) (hdef : x.defList = true) (hnl : x.nl2br = false)
    (hf : x.fencedCode = false) (htb : x.tables = false) (hal : x.attrList = false) (htoc : x.toc = false)
    (cfg : Pipeline.Cfg) (hbl : cfg.blockLevel = TreeProc.defaultBlockLevel) (htab : 0 < cfg.tab)
    (t0 : Str) (tr : List Str) (d : Str) (ds : List Str)
    (ht : ∀ l ∈ t0 :: tr, PlainFacts l) (hd : ∀ l ∈ d :: ds, PlainFacts l) :
    PipelineX.convertX x cfg (defSrc (t0 :: tr) (d :: ds)) = .ok (dlOut (t0 :: tr) (d :: ds)) := by
  obtain ⟨s1, s2, s3, s4, s5⟩ := front_lines cfg.tab ((t0 :: tr) ++ (d :: ds).map defLine) (by simp)
    (by
      intro l hl
      rcases List.mem_append.1 hl with hl | hl
      · exact (ht l hl).safeLine
      · obtain ⟨y, hy, rfl⟩ := List.mem_map.1 hl
        exact safeLine_defLine y (hd y hy))
    (by
      have h0 := ht t0 List.mem_cons_self
      obtain ⟨a, b, rfl⟩ : ∃ a b, t0 = a :: b := by
        cases t0 with
        | nil => exact absurd rfl h0.ne
        | cons a b => exact ⟨a, b, rfl⟩
      refine ⟨a, ?_, by simpa [Escape.startsVisible] using h0.visible⟩
      rw [show joinLines ((a :: b) :: tr ++ (d :: ds).map defLine) = defSrc ((a :: b) :: tr) (d :: ds) from rfl, defSrc_eq]
      cases tr with
      | nil => simp [joinLines, join]
      | cons y z => rw [Block.joinLines_cons_cons]; simp)
  rw [show joinLines ((t0 :: tr) ++ (d :: ds).map defLine) = defSrc (t0 :: tr) (d :: ds) from rfl] at s1 s2 s3 s4 s5
  have hblk := parseDocumentXT_def x.blockCfg (by simpa [PipelineX.Exts.blockCfg] using hdef) cfg.tab htab t0 tr d ds ht hd
  have hquiet : quietKids false ((Node.el "div").append (dlNode (t0 :: tr) (d :: ds))).children = true := by
    have h1 := quietKids_txt false "dt" (t0 :: tr) (fun t h => quietStr_chars false t (ht t h).chars)
    have h2 := quietKids_txt false "dd" (d :: ds) (fun t h => quietStr_chars false t (hd t h).chars)
    have hdd : (d :: ds).map ddNode = (d :: ds).map (fun t => mkText "dd" t) := rfl
    simp only [Node.append, Node.el, List.nil_append, quietKids, quietTree, dlNode, Node.truthy, hdd,
      quietKids_append, h1, h2, Bool.and_self, Bool.not_false]
  have hrun := fun (ic : Inline.Cfg) (keys : List Str) =>
    runX_quiet { cfg := ic, table := InlineX.table x.footnotes x.wikilinks false, fnKeys := keys } false
      (fun hm => nl_mem_table _ _ false hm) (Nat.le_trans (by decide) (table_length _ _ false)) _ [] hquiet
  have hpre := prettify_dl t0 tr (d :: ds)
  have hun := unescapeTree_dl (t0 :: tr) (d :: ds) (fun t h => ⟨(ht t h).ne, (ht t h).noStx⟩)
    (fun t h => ⟨(hd t h).ne, (hd t h).noStx⟩)
  have hser := serialize_dl cfg.fmt (t0 :: tr) (d :: ds) (fun t h => ⟨(ht t h).ne, (ht t h).noMarkup⟩)
    (fun t h => ⟨(hd t h).ne, (hd t h).noMarkup⟩)
  have hJ : Post.STX ∉ dlOut (t0 :: tr) (d :: ds) := by
    intro hm
    unfold dlOut at hm
    rcases List.mem_append.1 hm with hm | hm
    · rcases List.mem_append.1 hm with hm | hm
      · rcases List.mem_append.1 hm with hm | hm
        · simp only [String.reduceToList] at hm; exact absurd hm (by decide)
        · exact stx_not_mem_txtOut "dt" (by decide) _ (fun t h => (ht t h).noStx) hm
      · exact stx_not_mem_txtOut "dd" (by decide) _ (fun t h => (hd t h).noStx) hm
    · simp only [String.reduceToList] at hm; exact absurd hm (by decide)
  obtain ⟨M, hM⟩ := dlOut_shape (t0 :: tr) (d :: ds)
  have hfin := finishX_wrapped' x cfg (dlOut (t0 :: tr) (d :: ds)) hJ
    (fun c hc => by
      rw [hM] at hc
      have : c = '<' := by simpa using hc.symm
      subst this; decide)
    (fun c hc => by
      rw [hM, show '<' :: M ++ ['>'] = ('<' :: M) ++ ['>'] from rfl, List.getLast?_append] at hc
      have : c = '>' := by simpa using hc.symm
      subst this; decide)
  have hfo : BlockExt.footnotesOf [] = [] := rfl
  have hab : BlockExt.abbrsOf [] = [] := rfl
  have hmk : ∀ p fc, FootnotesTree.makeDiv p fc [] [] = .ok (none, []) := fun _ _ => rfl
  have habbr : ∀ t, AbbrTree.run [] t = t := fun _ => rfl
  have hdup := fun fn => duplicates_noFn fn _ (noFn_dl (t0 :: tr) (d :: ds))
  simp only [PipelineX.convertX, s1, s2, PipelineX.Exts.unsupported, Bool.false_eq_true, if_false,
    PipelineX.treeX, PipelineX.prepareX, s3, s4, s5, Bool.and_false, hf, htb, hblk, hfo, hmk, hnl, hal, htoc]
  cases hfn : x.footnotes <;> cases hab' : x.abbr <;>
    simp only [hfn, hab', Bool.false_eq_true, if_false, if_true, List.map_nil, PipelineX.refsX, Bool.or_self,
      Bool.or_true, Bool.or_false, Bool.true_or, BlockExt.refsOf, List.filter_nil, PipelineX.escX, htb, Bool.false_and] <;>
    (rw [hfn] at hrun; rw [hrun]; simp only [hdup, hbl, hpre, hab, habbr, hun, hser]; exact hfin)

theorem footnotesOf_abbr (key title : Str) : footnotesOf [(abKey key, (title, none))] = [] := by
  simp [footnotesOf, isFnEntry, abKey, startsWith]

theorem convertX_abbr_with (x : PipelineX.Exts) (hab : x.abbr = true)
    (hf : x.fencedCode = false) (htb : x.tables = false) (hal : x.attrList = false) (htoc : x.toc = false)
    (cfg : Pipeline.Cfg) (hbl : cfg.blockLevel = TreeProc.defaultBlockLevel) (htab : 0 < cfg.tab)
    (key title : Str) (ws : List Str) (hk : WordFacts key) (ht : PlainFacts title) (hTne : "title".toList ≠ title)
    (hne : ws ≠ []) (hws : ∀ w ∈ ws, WordFacts w) :
    PipelineX.convertX x cfg (abbrSrc key title ws) = .ok (abbrOut key title ws) := by
  have hp := plain_joinSp ws hne hws
  have hkp := hk.plain
  obtain ⟨s1, s2, s3, s4, s5⟩ := front_lines cfg.tab [abbrLine key title, [], joinSp ws] (by simp)
    (by
      intro l hl
      simp only [List.mem_cons, List.mem_nil_iff, or_false] at hl
      rcases hl with rfl | rfl | rfl
      · exact safeLine_abbrLine key title hk ht
      · exact ⟨by decide, by simp⟩
      · exact hp.safeLine)
    ⟨'*', by rw [← abbrSrc_lines]; simp [abbrSrc, DocParse.joinChunks, abbrLine], by decide⟩
  rw [← abbrSrc_lines] at s1 s2 s3 s4 s5
  have hblk := parseDocumentXT_abbr x.blockCfg (by simpa [PipelineX.Exts.blockCfg] using hab) cfg.tab htab key title ws
    hk ht hne hws
  have hquiet : quietKids x.nl2br ((Node.el "div").append (mkText "p" (joinSp ws))).children = true := by
    have := quietStr_chars x.nl2br (joinSp ws) hp.chars
    simp [Node.append, Node.el, mkText, quietKids, quietTree, Node.truthy, this]
  have hrun := fun (ic : Inline.Cfg) (keys : List Str) =>
    runX_quiet { cfg := ic, table := InlineX.table x.footnotes x.wikilinks x.nl2br, fnKeys := keys } x.nl2br
      (fun hm => nl_mem_table _ _ _ hm) (Nat.le_trans (by decide) (table_length _ _ _)) _ [] hquiet
  have hpre := Escape.prettify_paragraph (joinSp ws)
  have habbr := abbrRun_doc key title (joinSp ws) hp.ne
  have hun := unescapeTree_abbrDoc key title (joinSp ws) hk.ne hkp.noStx ht.noStx hp.ne hp.noStx
  have hser := serialize_abbrFin cfg.fmt key title (joinSp ws) hkp.noMarkup
    (fun c hc => let f := alnumSp_quiet (ht.chars c hc); ⟨f.2.2.2.1, f.2.2.2.2.1, f.2.2.2.2.2.1, f.2.2.2.2.2.2.1⟩)
    hTne hp.ne hp.noMarkup
  have hflat := flat_words key (abbrHtml key title) hk ws hne hws none rfl
  have hH : Post.STX ∉ abbrHtml key title := by
    intro hm
    unfold abbrHtml at hm
    rcases List.mem_append.1 hm with hm | hm
    · rcases List.mem_append.1 hm with hm | hm
      · rcases List.mem_append.1 hm with hm | hm
        · rcases List.mem_append.1 hm with hm | hm
          · simp only [String.reduceToList] at hm; exact absurd hm (by decide)
          · exact ht.noStx hm
        · simp only [String.reduceToList] at hm; exact absurd hm (by decide)
      · exact hkp.noStx hm
    · simp only [String.reduceToList] at hm; exact absurd hm (by decide)
  have hJ : Post.STX ∉ abbrOut key title ws := by
    intro hm
    unfold abbrOut at hm
    rw [← hflat] at hm
    rcases List.mem_append.1 hm with hm | hm
    · rcases List.mem_append.1 hm with hm | hm
      · simp only [String.reduceToList] at hm; exact absurd hm (by decide)
      · exact stx_not_mem_flat _ hH _ _ hp.noStx _ _ hm
    · simp only [String.reduceToList] at hm; exact absurd hm (by decide)
  obtain ⟨M, hM⟩ := abbrOut_shape key title ws
  have hfin := finishX_wrapped' x cfg (abbrOut key title ws) hJ
    (fun c hc => by
      rw [hM] at hc
      have : c = '<' := by simpa using hc.symm
      subst this; decide)
    (fun c hc => by
      rw [hM, show '<' :: M ++ ['>'] = ('<' :: M) ++ ['>'] from rfl, List.getLast?_append] at hc
      have : c = '>' := by simpa using hc.symm
      subst this; decide)
  have hfo := footnotesOf_abbr key title
  have hmk : ∀ p fc log, FootnotesTree.makeDiv p fc [] log = .ok (none, log) := fun _ _ _ => rfl
  have hnofn : noFnDiv ((Node.el "div").append (mkText "p" (joinSp ws))) = true := by
    simp [Node.append, Node.el, mkText, noFnDiv, noFnDivKids]
  have hdup := fun fn => duplicates_noFn fn _ hnofn
  simp only [PipelineX.convertX, s1, s2, PipelineX.Exts.unsupported, Bool.false_eq_true, if_false,
    PipelineX.treeX, PipelineX.prepareX, s3, s4, s5, Bool.and_false, hf, htb, hblk, hfo, hmk, hab, hal, htoc]
  cases hfn : x.footnotes <;>
    simp only [hfn, Bool.false_eq_true, if_false, if_true, List.map_nil, PipelineX.refsX, Bool.or_self,
      Bool.or_true, Bool.or_false, Bool.true_or, refsOf_one, PipelineX.escX, htb, Bool.false_and] <;>
    (rw [hfn] at hrun; rw [hrun]
     simp only [hdup, hbl, hpre, abbrsOf_one key title ht.ne, habbr, hun, hser, hflat]; exact hfin)

theorem abbrsOf_fn (id note : Str) : abbrsOf [(fnKey id, (note, none))] = [] := by
  simp [abbrsOf, isAbEntry, fnKey, startsWith]

theorem convertX_fn_with (x : PipelineX.Exts) (hfo : x.footnotes = true) (hnl : x.nl2br = false)
    (hwl : x.wikilinks = false)
    (hf : x.fencedCode = false) (htb : x.tables = false) (hal : x.attrList = false) (htoc : x.toc = false)
    (cfg : Pipeline.Cfg) (hbl : cfg.blockLevel = TreeProc.defaultBlockLevel) (htab : 0 < cfg.tab)
    (t id note : Str) (ht : PlainFacts t) (hid : WordFacts id) (hn : PlainFacts note) :
    PipelineX.convertX x cfg (fnSrc t id note) = .ok (fnRaw cfg.fmt t id note "&#160;".toList "&#8617;".toList) := by
  obtain ⟨s1, s2, s3, s4, s5⟩ := front_lines cfg.tab [fnLine1 t id, [], fnLine2 id note] (by simp)
    (by
      intro l hl
      simp only [List.mem_cons, List.mem_nil_iff, or_false] at hl
      rcases hl with rfl | rfl | rfl
      · exact safeLine_fnLine1 t id ht hid
      · exact ⟨by decide, by simp⟩
      · exact safeLine_fnLine2 id note hid hn)
    ⟨'[', by rw [← fnSrc_lines]; simp [fnSrc, DocParse.joinChunks, fnLine2], by decide⟩
  rw [← fnSrc_lines] at s1 s2 s3 s4 s5
  have hblk := parseDocumentXT_fn x.blockCfg (by simpa [PipelineX.Exts.blockCfg] using hfo) cfg.tab htab t id note ht hid hn
  have hmk := makeDiv_one x htb cfg htab id note hn
  have hslash : '/' ∉ fnLine1 t id := by
    intro hm
    rcases mem_fnLine1 hm with h | h | h | h | h
    · exact absurd (ht.chars _ h) (by decide)
    · exact absurd h (by decide)
    · exact absurd h (by decide)
    · exact absurd h (by decide)
    · exact absurd (hid.plain.chars _ h) (by decide)
  have hplace := placeDiv_one (fnLine1 t id) (fnDiv id note) hslash
  have hrun := fun (ic : Inline.Cfg) => runX_fn ic t id note ht hid hn
  have hdup := duplicates_fn t id note
  have hpre := prettify_fn t id note
  have hun := unescapeTree_fn t id note ht hid hn
  have hser := serialize_fn cfg.fmt t id note ht hid hn
  have hfin0 := finishX_fn cfg t id note ht.noStx hid.plain.noStx hn.noStx
  have hfin : PipelineX.finishX x cfg []
      ("<div>".toList ++
        ('\n' :: fnRaw cfg.fmt t id note FootnotesTree.nbspPlaceholder FootnotesTree.fnBacklinkText ++ ['\n']) ++
        "</div>\n".toList) = .ok (fnRaw cfg.fmt t id note "&#160;".toList "&#8617;".toList) := by
    have e : ∀ o, PipelineX.finishX x cfg [] o = PipelineX.finishX fx cfg [] o := by
      intro o
      simp only [PipelineX.finishX, PipelineX.postX, hfo, fx]
    rw [e]; exact hfin0
  have habbr : ∀ u, AbbrTree.run [] u = u := fun _ => rfl
  simp only [PipelineX.convertX, s1, s2, PipelineX.Exts.unsupported, Bool.false_eq_true, if_false,
    PipelineX.treeX, PipelineX.prepareX, s3, s4, s5, Bool.and_false, hf, htb, hblk, hfo, if_true, footnotesOf_one, hmk,
    hal, htoc, hnl, hwl]
  simp only [hplace, PipelineX.refsX, Bool.true_or, if_true, refsOf_fn, List.map_cons, List.map_nil, abbrsOf_fn]
  rw [show ({ Node.el "div" with children := [mkText "p" (fnLine1 t id), fnDiv id note] } : Node) = fnDoc t id note from rfl]
  have hxc : ∀ ic : Inline.Cfg, (InlineX.XCfg.mk ic (InlineX.table true false false) [id]) = fnXc ic id := fun _ => rfl
  rw [hxc, hrun]
  cases hab : x.abbr <;> simp only [hdup, hbl, hpre, habbr, Bool.false_eq_true, if_false, if_true, hun, hser] <;> exact hfin

end MdVerif.RenderX
