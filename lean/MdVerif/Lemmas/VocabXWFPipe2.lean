/-
Lemmas for C05 on the extension model, well-formedness: the composition along `PipelineX.treeX` WITH footnotes.

Besides `WF`, the footnote path needs the auxiliary invariant `PLF'` (`Lemmas/VocabXWFInline2.lean`: an element with
an `id` attribute has no truthy text, and its last child is not void and has no truthy tail): it is established by
`makeFootnotesDiv` (`makeDiv_PLF'`), kept by the inline stage (`runX_PLF'`) and used by `FootnotePostTreeprocessor`
(`duplicates_WF`), which appends the copies of a back-link to `list(li)[-1]`.  It rests on two facts about the block
parser: no element of its trees has an `id` attribute (`parseChunkX_noId`, from the vocabulary walk of
`Lemmas/VocabXBlock.lean`), and the top-level children of a parsed chunk have no truthy tail (hypothesis `htails` of
`treeX_WF_aux`, discharged in `Lemmas/VocabXWFPipe3.lean` by `parseChunkXT_tails`).  Core Lean only.
-/
import MdVerif.Lemmas.VocabXWFPipe
import MdVerif.Lemmas.VocabXWFInline2
import MdVerif.Lemmas.VocabXWFTree2

namespace MdVerif.VocabXWF
open Py PipelineX VocabX
open BlockExt (NI NI_iff NI_el)

/-! ### no element of a block-stage tree has an `id` attribute -/

theorem tagsA_noId (cfg : BlockExt.XCfg) : TagsA noIdQ cfg where
  p := rfl
  pre := rfl
  code := rfl
  hr := rfl
  ol := rfl
  ul := rfl
  li := rfl
  blockquote := rfl
  h := fun _ _ => rfl
  olStart := fun _ _ => by simp [noIdQ]
  div := fun _ _ => by simp [noIdQ, BlockExt.strClass]
  ptitle := fun _ => by simp [noIdQ, BlockExt.strClass]
  dl := fun _ => rfl
  dt := fun _ => rfl
  dd := fun _ => rfl

theorem tablesA_noId (tables : Bool) : TablesA noIdQ tables where
  table := fun _ => rfl
  thead := fun _ => rfl
  tbody := fun _ => rfl
  tr := fun _ => rfl
  th := fun _ => rfl
  td := fun _ => rfl
  thStyle := fun _ _ => by simp [noIdQ]
  tdStyle := fun _ _ => by simp [noIdQ]

theorem parseChunkX_noId (x : Exts) (cfg : Pipeline.Cfg) (log : Block.Refs) (text : Str) {sur : Node}
    {log' : Block.Refs} (h : parseChunkX x cfg log text = some (sur, log')) : NI noIdQ sur :=
  parseChunkXT_NI (tagsA_noId _) (tablesA_noId _) cfg.tab _ [] log (NI_el _ rfl) text h

theorem parseChunkX_WF (x : Exts) (hadm : x.admonition = false) (cfg : Pipeline.Cfg) (log : Block.Refs) (text : Str)
    {sur : Node} {log' : Block.Refs} (h : parseChunkX x cfg log text = some (sur, log')) : WF sur :=
  (parseChunkXT_step x.tables (cfg := x.blockCfg) (by rw [blockCfg_adm]; exact hadm) cfg.tab _ [] log
    (Node.el "div") text h).2.2 (by decide) (WF_el _)

/-! ### the composition -/

/-- **the tree handed to the serializer is well formed** (admonition off), given that the top-level children of a
    parsed chunk have no truthy tail -/
theorem treeX_WF_aux (x : Exts) (hadm : x.admonition = false) (cfg : Pipeline.Cfg)
    (htails : ∀ log text n r, parseChunkX x cfg log text = some (n, r) → ∀ c ∈ n.children, Node.truthy c.tail = false)
    (src : Str) (u : Node) (html : List Str) (h : treeX x cfg src = .ok u html) :
    WF u ∧ u.tag = .name "div".toList ∧ (x.attrList = false → u.attrs = []) := by
  by_cases hfn : x.footnotes = false
  · exact treeX_WF_noFn x hadm hfn cfg src u html h
  have hfn : x.footnotes = true := by simpa using hfn
  unfold treeX at h
  split at h
  · cases h
  · cases h
  · rename_i text stash hprep
    split at h
    · cases h
    · rename_i root log hparse
      obtain ⟨hw0, hg0, ha0⟩ := parseDocumentXT_WF (cfg := x.blockCfg) (by rw [blockCfg_adm]; exact hadm) hparse
      have hn0 : NI noIdQ root :=
        parseDocumentXT_NI (tagsA_noId _) (tablesA_noId _) rfl cfg.tab text hparse
      dsimp only at h
      split at h
      · cases h
      · cases h
      · rename_i root1 log1 hfs
        -- the footnote tree processor
        have hroot1 : WF root1 ∧ root1.tag = .name "div".toList ∧ root1.attrs = [] ∧ PLF' root1 := by
          simp only [hfn, if_true] at hfs
          split at hfs
          · rename_i div log' hmk
            simp only [FootnotesTree.R.ok.injEq, Prod.mk.injEq] at hfs
            obtain ⟨rfl, _⟩ := hfs
            have hd := makeDiv_WF (fun l t s l' e => parseChunkX_WF x hadm cfg l t e) _ _ hmk
            have hp := makeDiv_PLF' (fun l t s l' e => htails l t s l' e)
              (fun l t s l' e => parseChunkX_noId x cfg l t e) _ _ hmk
            have := placeDiv_WF hw0 (by rw [hg0]; decide) hd
            exact ⟨this.1, this.2.1.trans hg0, this.2.2.trans ha0, placeDiv_PLF' hn0 hp⟩
          · simp only [FootnotesTree.R.ok.injEq, Prod.mk.injEq] at hfs
            obtain ⟨rfl, _⟩ := hfs
            exact ⟨hw0, hg0, ha0, PLF'_of_noId hn0⟩
          · cases hfs
          · cases hfs
        obtain ⟨hw1, hg1, ha1, hp1⟩ := hroot1
        split at h
        · cases h
        · rename_i t xs hrun
          obtain ⟨hw2, hg2, ha2⟩ := runX_WF hrun hw1
          have hp2 := runX_PLF hrun hp1
          simp only [hfn, if_true] at h
          split at h
          · cases h
          · rename_i t2 hdup
            obtain ⟨hw3, hg3, ha3⟩ := duplicates_WF _ hdup hw2 hp2
            exact lateStages_WF x cfg log1 xs.st.html html h hw3 (hg3.trans (hg2.trans hg1))
              (ha3.trans (ha2.trans ha1))

end MdVerif.VocabXWF
