/-
Lemmas for C05 on the extension model, output level, part 1: **a token-substitution pass commutes with the
serializer** on every well-formed tree of named elements.

`Lemmas/StashEntities.lean` proves this for `RawHtmlPostprocessor`'s pass on a stash of entity references and for the
trees of the CORE vocabulary (`Vocab2.Good`).  Here the statement is made generic

* in the pass `f : Str → Str` (`Pass f`: it copies every character other than STX, distributes over a concatenation
  whose second part starts with a markup delimiter `<`, `>`, `"`, blank, keeps escaped text escaped, and a result
  without STX and `&` was copied) — instances: the raw-HTML restore on entity references (`pass_sub`), and
  `str.replace(pat, by)` for an `STX…ETX` pattern of letters and digits and an entity reference `by`
  (`pass_replace`: the two replacements of `FootnotePostprocessor`);
* in the trees: `GN n` — every element has a name that `Ser.isName` accepts and is no raw-text element, attribute
  names are names and pairwise distinct, void elements are empty (`Ser.WFTree` for trees of named, non-raw-text
  elements: `gn_iff`).

`pass_serialize`: `f (serialize fmt n ++ Y) = serialize fmt (subTree … n) ++ f Y`; `pass_inner` for the content of
the wrapper `div`.  Core Lean only.
-/
import MdVerif.Lemmas.StashEntities
import MdVerif.Lemmas.C14XRead
import MdVerif.Lemmas.VocabXWFDefs

namespace MdVerif.VocabXOut
open Py Ser Vocab2

/-! ### the trees -/

mutual
/-- named, non-raw-text elements with names that are names, distinct attribute names and empty void elements -/
def GN : Node → Bool
  | ⟨tag, attrs, text, _, children, _, _⟩ =>
    (match tag with
     | .name t => isName t && !isRawTextTag t && attrs.all (fun kv => isName kv.1) && keysNodup attrs &&
         (!isEmptyTag t || (!Node.truthy text && children.isEmpty))
     | _ => false) && GNL children
def GNL : List Node → Bool
  | [] => true
  | n :: r => GN n && GNL r
end

theorem gnl_cons (n : Node) (r : List Node) : GNL (n :: r) = (GN n && GNL r) := by simp [GNL]

theorem gnl_iff (l : List Node) : GNL l = true ↔ ∀ c ∈ l, GN c = true := by
  induction l with
  | nil => simp [GNL]
  | cons c r ih => simp [GNL, ih]

mutual
theorem gn_wf : (n : Node) → GN n = true → WFTree n = true ∧ C14X.isNamed n = true
  | ⟨tag, attrs, text, ta, children, tail, tla⟩, h => by
    cases tag with
    | name t =>
      simp only [GN, Bool.and_eq_true, Bool.not_eq_true', Bool.or_eq_true, List.isEmpty_iff] at h
      obtain ⟨⟨⟨⟨⟨h1, h2⟩, h3⟩, h4⟩, h5⟩, h6⟩ := h
      have hk := (gnl_wf children h6).1
      refine ⟨?_, rfl⟩
      simp only [WFTree, h1, h3, h4, h2, hk, Bool.true_and, Bool.and_true, Bool.false_eq_true, if_false]
      cases hv : isEmptyTag t with
      | false => simp
      | true =>
        rcases h5 with h5 | h5
        · rw [hv] at h5; cases h5
        · simp [h5.1, h5.2]
    | comment => simp [GN] at h
    | pi => simp [GN] at h
    | none => simp [GN] at h
    | qname q => simp [GN] at h
theorem gnl_wf : (l : List Node) → GNL l = true → WFList l = true ∧ C14X.namedL l = true
  | [], _ => ⟨rfl, rfl⟩
  | c :: r, h => by
    rw [gnl_cons, Bool.and_eq_true] at h
    have h1 := gn_wf c h.1
    have h2 := gnl_wf r h.2
    simp only [WFList, C14X.namedL, List.all_cons, Bool.and_eq_true]
    exact ⟨⟨h1.1, h2.1⟩, ⟨h1.2, h2.2⟩⟩
end

theorem name_clean {t : Str} (h : isName t = true) : NoCtl.STX ∉ t ∧ '&' ∉ t := by
  simp only [isName, Bool.and_eq_true, List.all_eq_true] at h
  constructor
  · intro hm; have := h.2 _ hm; revert this; decide
  · intro hm; have := h.2 _ hm; revert this; decide

/-! ### passes -/

/-- `Y` is empty or starts with a markup delimiter -/
def D4 (Y : Str) : Prop := ∀ d, Y.head? = some d → d = '<' ∨ d = '>' ∨ d = '"' ∨ d = ' '

theorem d4_nil : D4 [] := by intro d h; cases h
theorem d4_cons {d : Char} (h : d = '<' ∨ d = '>' ∨ d = '"' ∨ d = ' ') (r : Str) : D4 (d :: r) := by
  intro x hx; simp only [List.head?_cons, Option.some.injEq] at hx; subst hx; exact h

theorem D4.delimStart {Y : Str} (h : D4 Y) : DelimStart Y := by
  intro d hd
  rcases h d hd with rfl | rfl | rfl | rfl
  · exact dl_lt
  · exact dl_gt
  · exact dl_quot
  · exact dl_space

/-- a token-substitution pass over a serialisation -/
structure Pass (f : Str → Str) : Prop where
  nil : f [] = []
  copy : ∀ c s, c ≠ NoCtl.STX → f (c :: s) = c :: f s
  app : ∀ A Y, D4 Y → f (A ++ Y) = f A ++ f Y
  fixC : ∀ s, escCdata (f (escCdata s)) = f (escCdata s)
  fixA : ∀ v, escAttrHtml (f (escAttrHtml v)) = f (escAttrHtml v)
  eqPlain : ∀ X K, f X = K → NoCtl.STX ∉ K → '&' ∉ K → X = K

variable {f : Str → Str}

theorem Pass.plain (hf : Pass f) (M Y : Str) (hM : NoCtl.STX ∉ M) : f (M ++ Y) = M ++ f Y := by
  induction M with
  | nil => rfl
  | cons c r ih =>
    have hc : c ≠ NoCtl.STX := fun e => hM (by rw [e]; exact List.mem_cons_self)
    rw [List.cons_append, hf.copy c _ hc, ih (fun h => hM (List.mem_cons_of_mem _ h))]
    rfl

theorem Pass.plain' (hf : Pass f) (M : Str) (hM : NoCtl.STX ∉ M) : f M = M := by
  have := hf.plain M [] hM
  simpa [hf.nil] using this

/-- what the pass does to a text (after escaping) and to an attribute value -/
def pC (f : Str → Str) (s : Str) : Str := f (escCdata s)
def pA (f : Str → Str) (v : Str) : Str := f (escAttrHtml v)

theorem textStr_pass (hf : Pass f) (t : Option Str) : textStr (trimOpt (pC f) t) = f (textStr t) := by
  rw [textStr_trimOpt]
  unfold textStr
  by_cases ht : Node.truthy t = true
  · simp only [ht, ↓reduceIte, pC, hf.fixC]
    split
    · rename_i h; exact h.symm
    · rfl
  · simp only [ht, Bool.false_eq_true, ↓reduceIte]; exact hf.nil.symm

/-- the attributes -/
theorem pass_writeAttrs (hf : Pass f) (fmt : Fmt) :
    ∀ (as : List (Str × Str)), (∀ kv ∈ as, isName kv.1 = true) → ∀ (Z : Str), D4 Z →
      f (writeAttrs fmt as ++ Z) = writeAttrs fmt (as.map (fun x => (x.1, pA f x.2))) ++ f Z := by
  intro as
  induction as with
  | nil => intro _ Z _; rfl
  | cons kv r ih =>
    intro hk Z hZ
    obtain ⟨k, v⟩ := kv
    have hkc := name_clean (hk (k, v) List.mem_cons_self)
    have ihr := ih (fun x hx => hk x (List.mem_cons_of_mem _ hx)) Z hZ
    simp only [writeAttrs, List.map_cons, pA, hf.fixA]
    by_cases hb : (decide (k = escAttrHtml v) && decide (fmt = .html)) = true
    · have hkv : k = escAttrHtml v := by simp only [Bool.and_eq_true, decide_eq_true_eq] at hb; exact hb.1
      have hsub : f (escAttrHtml v) = k := by rw [← hkv]; exact hf.plain' k hkc.1
      rw [if_pos hb, hsub, ← hkv]
      have hb' : (decide (k = k) && decide (fmt = .html)) = true := by
        simp only [Bool.and_eq_true, decide_eq_true_eq] at hb ⊢; exact ⟨trivial, hb.2⟩
      rw [if_pos hb', List.append_assoc, List.cons_append, hf.copy ' ' _ (by decide), hf.plain k _ hkc.1, ihr]
      simp [pA]
    · rw [if_neg hb]
      have hb' : ¬ (decide (k = f (escAttrHtml v)) && decide (fmt = .html)) = true := by
        intro h
        simp only [Bool.and_eq_true, decide_eq_true_eq] at h hb
        apply hb
        refine ⟨?_, h.2⟩
        have := hf.eqPlain (escAttrHtml v) k h.1.symm hkc.1 hkc.2
        exact this.symm
      rw [if_neg hb']
      have e1 : (' ' :: k ++ "=\"".toList ++ escAttrHtml v ++ ['"']) ++ writeAttrs fmt r ++ Z =
          (' ' :: k ++ "=\"".toList) ++ (escAttrHtml v ++ ('"' :: (writeAttrs fmt r ++ Z))) := by
        simp [List.append_assoc]
      rw [e1, hf.plain _ _ (by
          intro hm
          rcases List.mem_append.1 hm with hm | hm
          · rcases List.mem_cons.1 hm with hm | hm
            · revert hm; decide
            · exact hkc.1 hm
          · revert hm; decide),
        hf.app _ _ (d4_cons (Or.inr (Or.inr (Or.inl rfl))) _), hf.copy '"' _ (by decide), ihr]
      simp [List.append_assoc, pA]

/-- one element without content (`<t attrs />`, `<t attrs>`), its tail, and what follows -/
theorem pass_void_shape (hf : Pass f) (t W W' M TL TL' Y : Str) (d : Char)
    (ht : NoCtl.STX ∉ t) (hW : ∀ Z, D4 Z → f (W ++ Z) = W' ++ f Z)
    (hM : NoCtl.STX ∉ d :: M) (hd : d = '<' ∨ d = '>' ∨ d = '"' ∨ d = ' ') (hTL : f TL = TL') (hY : D4 Y) :
    f ('<' :: (t ++ (W ++ d :: M)) ++ TL ++ Y) = '<' :: (t ++ (W' ++ d :: M)) ++ TL' ++ f Y := by
  have e1 : '<' :: (t ++ (W ++ d :: M)) ++ TL ++ Y = ('<' :: t) ++ (W ++ (d :: M ++ (TL ++ Y))) := by
    simp [List.append_assoc]
  have h1 : NoCtl.STX ∉ '<' :: t := by
    intro hm
    rcases List.mem_cons.1 hm with hm | hm
    · revert hm; decide
    · exact ht hm
  rw [e1, hf.plain _ _ h1, hW ((d :: M) ++ (TL ++ Y)) (by rw [List.cons_append]; exact d4_cons hd _),
    hf.plain _ _ hM, hf.app TL Y hY, hTL]
  simp [List.append_assoc]

/-- one element with content, its tail, and what follows -/
theorem pass_elem_shape (hf : Pass f) (t W W' TX TX' K K' TL TL' Y : Str)
    (ht : NoCtl.STX ∉ t) (hW : ∀ Z, D4 Z → f (W ++ Z) = W' ++ f Z) (hTX : f TX = TX')
    (hK : ∀ Z, D4 Z → f (K ++ Z) = K' ++ f Z) (hKd : ∀ R, D4 (K ++ '<' :: R)) (hTL : f TL = TL') (hY : D4 Y) :
    f ('<' :: (t ++ (W ++ '>' :: (TX ++ (K ++ ("</".toList ++ t ++ ['>']))))) ++ TL ++ Y) =
      '<' :: (t ++ (W' ++ '>' :: (TX' ++ (K' ++ ("</".toList ++ t ++ ['>']))))) ++ TL' ++ f Y := by
  have e1 : '<' :: (t ++ (W ++ '>' :: (TX ++ (K ++ ("</".toList ++ t ++ ['>']))))) ++ TL ++ Y =
      ('<' :: t) ++ (W ++ ('>' :: (TX ++ (K ++ ('<' :: (('/' :: t ++ ['>']) ++ (TL ++ Y))))))) := by
    simp [List.append_assoc]
  have h1 : NoCtl.STX ∉ '<' :: t := by
    intro hm
    rcases List.mem_cons.1 hm with hm | hm
    · revert hm; decide
    · exact ht hm
  have h2 : NoCtl.STX ∉ '/' :: t ++ ['>'] := by
    intro hm
    rcases List.mem_append.1 hm with hm | hm
    · rcases List.mem_cons.1 hm with hm | hm
      · revert hm; decide
      · exact ht hm
    · revert hm; decide
  rw [e1, hf.plain _ _ h1, hW _ (d4_cons (Or.inr (Or.inl rfl)) _), hf.copy '>' _ (by decide),
    hf.app TX _ (hKd _), hTX, hK _ (d4_cons (Or.inl rfl) _), hf.copy '<' _ (by decide),
    hf.plain _ _ h2, hf.app TL Y hY, hTL]
  simp [List.append_assoc]

theorem serialize_head_d4 (fmt : Fmt) (n : Node) (h : GN n = true) (R : Str) : D4 (serialize fmt n ++ R) := by
  obtain ⟨hw, hn⟩ := gn_wf n h
  obtain ⟨E, hE⟩ := C14X.serialize_named_shape fmt n hw hn
  rw [hE]
  exact d4_cons (Or.inl rfl) _

theorem serializeList_d4 (fmt : Fmt) (l : List Node) (h : GNL l = true) (R : Str) :
    D4 (serializeList fmt l ++ '<' :: R) := by
  cases l with
  | nil => exact d4_cons (Or.inl rfl) _
  | cons c r =>
    rw [gnl_cons, Bool.and_eq_true] at h
    simp only [serializeList, List.append_assoc]
    exact serialize_head_d4 fmt c h.1 _

theorem serializeList_d4' (fmt : Fmt) (l : List Node) (h : GNL l = true) : D4 (serializeList fmt l) := by
  cases l with
  | nil => exact d4_nil
  | cons c r =>
    rw [gnl_cons, Bool.and_eq_true] at h
    simp only [serializeList]
    exact serialize_head_d4 fmt c h.1 _

mutual
/-- **the pass commutes with the serializer** -/
theorem pass_serialize (hf : Pass f) (fmt : Fmt) :
    (n : Node) → GN n = true → ∀ (Y : Str), D4 Y →
      f (serialize fmt n ++ Y) = serialize fmt (subTree (pC f) (pA f) n) ++ f Y
  | ⟨tag, attrs, text, ta, children, tail, tla⟩, h, Y, hY => by
    cases tag with
    | name t =>
      simp only [GN, Bool.and_eq_true, Bool.not_eq_true', Bool.or_eq_true, List.isEmpty_iff, List.all_eq_true] at h
      obtain ⟨⟨⟨⟨⟨ht, f2⟩, ha⟩, _⟩, hv⟩, hk⟩ := h
      have hkids := pass_serializeList hf fmt children hk
      have htc := (name_clean ht).1
      have hW : ∀ Z, D4 Z → f (writeAttrs fmt (sortAttrs attrs) ++ Z) =
          writeAttrs fmt (sortAttrs (attrs.map (fun x => (x.1, pA f x.2)))) ++ f Z := by
        intro Z hZ
        rw [sortAttrs_map]
        exact pass_writeAttrs hf fmt _ (fun kv hkv => ha kv (mem_sortAttrs attrs kv hkv)) Z hZ
      have hTL := textStr_pass hf tail
      have hTX := textStr_pass hf text
      unfold textStr at hTL hTX
      simp only [serialize, subTree, element_none, f2, Bool.false_eq_true, ↓reduceIte]
      split
      · -- xhtml, void
        exact pass_void_shape hf t _ _ "/>".toList _ _ Y ' ' htc hW (by decide) (Or.inr (Or.inr (Or.inr rfl)))
          hTL.symm hY
      · by_cases hvoid : isEmptyTag t = true
        · -- html, void: no text, no children
          rcases hv with hv | ⟨hnt, hch⟩
          · rw [hv] at hvoid; cases hvoid
          · subst hch
            have hnt' : Node.truthy (trimOpt (pC f) text) = false := by
              unfold trimOpt; rw [hnt]; exact hnt
            simp only [hvoid, hnt, hnt', ↓reduceIte, serializeList, subKids, List.append_nil,
              Bool.false_eq_true]
            exact pass_void_shape hf t _ _ [] _ _ Y '>' htc hW (by decide) (Or.inr (Or.inl rfl)) hTL.symm hY
        · have hnv : isEmptyTag t = false := by simpa using hvoid
          simp only [hnv, Bool.false_eq_true, ↓reduceIte]
          exact pass_elem_shape hf t _ _ _ _ _ _ _ _ Y htc hW hTX.symm hkids
            (serializeList_d4 fmt children hk) hTL.symm hY
    | comment => simp [GN] at h
    | pi => simp [GN] at h
    | none => simp [GN] at h
    | qname q => simp [GN] at h
theorem pass_serializeList (hf : Pass f) (fmt : Fmt) :
    (l : List Node) → GNL l = true → ∀ (Y : Str), D4 Y →
      f (serializeList fmt l ++ Y) = serializeList fmt (subKids (pC f) (pA f) l) ++ f Y
  | [], _, Y, _ => by simp [serializeList, subKids]
  | c :: r, h, Y, hY => by
    rw [gnl_cons, Bool.and_eq_true] at h
    have ih := pass_serializeList hf fmt r h.2 Y hY
    have hd : D4 (serializeList fmt r ++ Y) := by
      cases r with
      | nil => simpa [serializeList] using hY
      | cons c2 r2 =>
        rw [gnl_cons, Bool.and_eq_true] at h
        simp only [serializeList, List.append_assoc]
        exact serialize_head_d4 fmt c2 h.2.1 _
    have h1 := pass_serialize hf fmt c h.1 _ hd
    simp only [serializeList, subKids, List.append_assoc]
    rw [h1, ih]
end

/-! ### the substituted tree is again such a tree, with the same names -/

mutual
theorem subTree_gn (fc fa : Str → Str) : (n : Node) → GN n = true → GN (subTree fc fa n) = true
  | ⟨tag, attrs, text, ta, children, tail, tla⟩, h => by
    cases tag with
    | name t =>
      simp only [GN, Bool.and_eq_true, Bool.not_eq_true', Bool.or_eq_true, List.isEmpty_iff] at h
      obtain ⟨⟨⟨⟨⟨h1, h2⟩, h3⟩, h4⟩, h5⟩, h6⟩ := h
      have hk := subKids_gn fc fa children h6
      simp only [subTree, GN, Bool.and_eq_true, Bool.not_eq_true', Bool.or_eq_true, List.isEmpty_iff]
      refine ⟨⟨⟨⟨⟨h1, h2⟩, ?_⟩, ?_⟩, ?_⟩, hk.1⟩
      · simpa [List.all_map, Function.comp_def] using h3
      · exact VocabXWF.keysNodup_mapVal (fun kv => fa kv.2) attrs h4
      · rcases h5 with h5 | h5
        · exact Or.inl h5
        · refine Or.inr ⟨?_, hk.2 h5.2⟩
          unfold trimOpt; rw [h5.1]; exact h5.1
    | comment => simp [GN] at h
    | pi => simp [GN] at h
    | none => simp [GN] at h
    | qname q => simp [GN] at h
theorem subKids_gn (fc fa : Str → Str) : (l : List Node) → GNL l = true →
    GNL (subKids fc fa l) = true ∧ (l = [] → subKids fc fa l = [])
  | [], _ => by simp [subKids, GNL]
  | c :: r, h => by
    rw [gnl_cons, Bool.and_eq_true] at h
    refine ⟨?_, fun e => by cases e⟩
    simp only [subKids, gnl_cons, Bool.and_eq_true]
    exact ⟨subTree_gn fc fa c h.1, (subKids_gn fc fa r h.2).1⟩
end

/-- the wrapper after the pass -/
def passRoot (f : Str → Str) (root : Node) : Node :=
  { root with text := trimOpt (pC f) root.text, children := subKids (pC f) (pA f) root.children }

/-- **the pass on the content of the wrapper** -/
theorem pass_inner (hf : Pass f) (fmt : Fmt) (root : Node) (hk : GNL root.children = true) :
    f (inner fmt root) = inner fmt (passRoot f root) ∧ GNL (passRoot f root).children = true := by
  refine ⟨?_, (subKids_gn _ _ _ hk).1⟩
  rw [inner_eq, inner_eq, hf.app _ _ (serializeList_d4' fmt _ hk)]
  have := pass_serializeList hf fmt root.children hk [] d4_nil
  simp only [List.append_nil, hf.nil] at this
  rw [this]
  show _ = textStr (trimOpt (pC f) root.text) ++ _
  rw [textStr_pass hf]
  rfl

/-! ### instance 1: the raw-HTML restore on a stash of entity references -/

theorem pass_sub (bl : List Str) {stash : List Str} (he : AllEnt stash) : Pass (Post.subPass bl stash 0) where
  nil := rfl
  copy := fun c s hc => sub_copy' bl he c s hc
  app := fun A Y hY => sub_append' bl he A Y hY.delimStart
  fixC := fun s => escCdata_subC bl he s
  fixA := fun v => escAttr_subA bl he v
  eqPlain := fun X K h h1 h2 => sub_eq_plain bl he _ X K (Nat.le_refl _) h h1 h2

end MdVerif.VocabXOut
