/-
End to end with SEVERAL raw HTML items (C04): `[A0 ¶] R1 ¶ [A1 ¶] R2 ¶ … ¶ Rn [¶ An]`, each `A_i` a list of pieces
(`Lemmas/DocParse.lean`) or nothing -- nothing between two raw items means the raw items are adjacent (`R1 ¶ R2`) --
and each `R_i` a raw item in the sense of `Lemmas/HtmlTokMany.lean` (`RawSec`: block element or unit).

1. the source and the output (`srcMany`, `outMany`), the hypotheses on a section (`SecOK`);
2. input normalisation leaves the source alone;
3. the preprocessor (`extract_many`) and the text it hands on as a list of chunks (`chunksMany`);
4. the block parser on groups of chunks that yield one child each (`Grp`, `parseDocument_groups`);
5. the staged elements (`stagedMany`), the text behind the serializer (`jW`) and one pass of
   `RawHtmlPostprocessor` over it (`subPass_jW`), the end of `convert` (`finish_many`);
6. the composition `convertH_many`; 7. flat Markdown documents and the raw items of `Props/C04Text.lean`.
Core Lean only.
-/
import MdVerif.Lemmas.C04EndToEnd
import MdVerif.Lemmas.HtmlTokMany

namespace MdVerif.C04Many
open Py C04E2E
set_option linter.unusedSimpArgs false
set_option linter.unnecessarySimpa false

/-! ### 1. source, output, hypotheses -/

/-- a raw item and the pieces behind it (possibly none) -/
abbrev Sec := HtmlTok.RawSec × List DocParse.Piece

open HtmlFrag in
/-- the source: raw items separated by a blank line and, where there are pieces, the pieces and another blank line -/
def srcMany : List Sec → Str
  | [] => []
  | [x] => x.1.text ++ postSrc x.2
  | x :: y :: r => x.1.text ++ nn ++ preSrc x.2 ++ srcMany (y :: r)

/-- the output: every raw item's source text and a blank line, the outputs of the pieces one per line -/
def outMany : List Sec → Str
  | [] => []
  | [x] => x.1.text ++ postOut x.2
  | x :: y :: r => x.1.text ++ ['\n', '\n'] ++ preOut x.2 ++ outMany (y :: r)

open DocParse in
structure SecOK (esc : List Char) (tab : Nat) (x : Sec) : Prop where
  raw : x.1.OK
  safe : ∀ l ∈ lines x.1.text, lineSafe l = true
  bh : Post.isBlockLevelHtml TreeProc.defaultBlockLevel (x.1.text ++ ['\n']) = true
  last : x.1.text.getLast? = some '>'
  pieces : ∀ p ∈ x.2, PieceOK esc tab p

open HtmlFrag in
/-- the sections as the extractor sees them: each raw item with the plain text behind it -/
def exSecs (secs : List Sec) : List (HtmlTok.RawSec × Str) := secs.map (fun x => (x.1, nn ++ preSrc x.2))

open HtmlFrag HtmlTok in
theorem srcMany_nn (secs : List Sec) (hne : secs ≠ []) : srcMany secs ++ nn = flatSecs (exSecs secs) := by
  induction secs with
  | nil => exact absurd rfl hne
  | cons x r ih =>
    cases r with
    | nil =>
      simp only [srcMany, exSecs, List.map_cons, List.map_nil, flatSecs, postSrc, preSrc]
      cases x.2.isEmpty <;> simp [List.append_assoc]
    | cons y r' =>
      have := ih (by simp)
      simp only [exSecs, List.map_cons, flatSecs] at this ⊢
      simp only [srcMany, List.append_assoc, this]

/-! ### 2. input normalisation -/

open DocParse in
/-- every line is left alone by input normalisation -/
def Safe (s : Str) : Prop := ∀ l ∈ lines s, lineSafe l = true

theorem safe_nil : Safe [] := by
  intro l hl
  have : l = [] := by simpa [lines, splitC] using hl
  subst this; decide

theorem safe_nn {a b : Str} (ha : Safe a) (hb : Safe b) : Safe (a ++ ['\n', '\n'] ++ b) := by
  intro l hl
  rw [lines_nn] at hl
  simp only [List.mem_append, List.mem_singleton] at hl
  rcases hl with (h | h) | h
  · exact ha l h
  · subst h; decide
  · exact hb l h

open DocParse in
theorem safe_srcOf (esc : List Char) (tab : Nat) (A : List Piece) (hne : A ≠ []) (hP : ∀ p ∈ A, PieceOK esc tab p) :
    Safe (srcOf A) := by
  intro l hl
  rw [srcOf_lines esc tab A hne hP] at hl
  exact ((srcOf_chars esc tab A hP).1 l hl).1

open DocParse HtmlFrag in
theorem safe_preSrc (esc : List Char) (tab : Nat) (A : List Piece) (hP : ∀ p ∈ A, PieceOK esc tab p) {X : Str}
    (hX : Safe X) : Safe (preSrc A ++ X) := by
  unfold preSrc
  cases hA : A with
  | nil => simpa using hX
  | cons a A' =>
    simp only [List.isEmpty_cons, Bool.false_eq_true, if_false]
    exact safe_nn (safe_srcOf esc tab _ (by simp) (hA ▸ hP)) hX

open DocParse HtmlFrag in
theorem safe_srcMany (esc : List Char) (tab : Nat) (secs : List Sec) (h : ∀ x ∈ secs, SecOK esc tab x) :
    Safe (srcMany secs) := by
  induction secs with
  | nil => exact safe_nil
  | cons x r ih =>
    have hx := h x List.mem_cons_self
    cases r with
    | nil =>
      simp only [srcMany, postSrc]
      cases hB : x.2 with
      | nil => simp only [List.isEmpty_nil, if_true, List.append_nil]; exact hx.safe
      | cons b B' =>
        simp only [List.isEmpty_cons, Bool.false_eq_true, if_false]
        have := safe_nn hx.safe (safe_srcOf esc tab (b :: B') (by simp) (hB ▸ hx.pieces))
        simpa [nn, List.append_assoc] using this
    | cons y r' =>
      have ih' := ih (fun z hz => h z (List.mem_cons_of_mem _ hz))
      have := safe_nn hx.safe (safe_preSrc esc tab x.2 hx.pieces ih')
      simpa [srcMany, nn, List.append_assoc] using this

open DocParse in
theorem normalize_safe (tab : Nat) (s : Str) (h : Safe s) : Normalize.normalize tab s = s ++ ['\n', '\n'] := by
  have := normalize_lines tab (lines s)
    (by have := splitC_length_pos '\n' s
        intro e; unfold lines at e; rw [e] at this; simp at this) h
  rw [lines_joinLines] at this
  exact this

/-! ### 3. the preprocessor -/

open DocParse HtmlFrag in
theorem plain_preSrc (esc : List Char) (tab : Nat) (A : List Piece) (hP : ∀ p ∈ A, PieceOK esc tab p) :
    plainOk (preSrc A) = true := by
  obtain ⟨_, hc⟩ := srcOf_chars esc tab A hP
  unfold preSrc
  cases A.isEmpty
  · simp only [Bool.false_eq_true, if_false, plainOk, Bool.and_eq_true, Bool.not_eq_true', List.contains_eq_mem,
      decide_eq_false_iff_not, List.mem_append, not_or]
    exact ⟨⟨fun h => (hc _ h).1 rfl, by decide⟩, ⟨fun h => (hc _ h).2 rfl, by decide⟩⟩
  · rfl

open DocParse HtmlFrag in
theorem preSrc_t0 (esc : List Char) (tab : Nat) (A : List Piece) (hP : ∀ p ∈ A, PieceOK esc tab p) :
    preSrc A = [] ∨ (plainOk (preSrc A) = true ∧ ∃ t, preSrc A = t ++ nn) := by
  cases hA : A.isEmpty
  · exact Or.inr ⟨plain_preSrc esc tab A hP, srcOf A, by simp [preSrc, hA]⟩
  · exact Or.inl (by simp [preSrc, hA])

open DocParse HtmlFrag in
theorem exSec_facts (esc : List Char) (tab : Nat) (B : List Piece) (hP : ∀ p ∈ B, PieceOK esc tab p) :
    (∃ s', nn ++ preSrc B = nn ++ s') ∧ plainOk (nn ++ preSrc B) = true ∧ ∃ s'', nn ++ preSrc B = s'' ++ nn := by
  refine ⟨⟨_, rfl⟩, ?_, ?_⟩
  · have := plain_preSrc esc tab B hP
    simp only [plainOk, Bool.and_eq_true, Bool.not_eq_true', List.contains_eq_mem, decide_eq_false_iff_not,
      List.mem_append, not_or] at this ⊢
    exact ⟨⟨by decide, this.1⟩, ⟨by decide, this.2⟩⟩
  · unfold preSrc
    cases B.isEmpty
    · exact ⟨nn ++ srcOf B, by simp [List.append_assoc]⟩
    · exact ⟨[], by simp⟩

open DocParse HtmlFrag HtmlTok in
theorem secsOk_exSecs (esc : List Char) (tab : Nat) (secs : List Sec) (h : ∀ x ∈ secs, SecOK esc tab x) :
    secsOk (exSecs secs) := by
  induction secs with
  | nil => trivial
  | cons x r ih =>
    have hx := h x List.mem_cons_self
    obtain ⟨f1, f2, f3⟩ := exSec_facts esc tab x.2 hx.pieces
    cases r with
    | nil => exact ⟨hx.raw, f1, f2⟩
    | cons y r' =>
      have := ih (fun z hz => h z (List.mem_cons_of_mem _ hz))
      exact ⟨hx.raw, f1, f2, f3, this⟩

/-- chunks with a blank line behind each -/
def jc (X : List Str) : Str := if X.isEmpty then [] else DocParse.joinChunks X ++ ['\n', '\n']

theorem jc_cons (m : Str) (Y : List Str) : jc (m :: Y) = m ++ ['\n', '\n'] ++ jc Y := by
  cases Y with
  | nil => simp [jc, DocParse.joinChunks]
  | cons y Y' => simp [jc, DocParse.joinChunks, List.append_assoc]

theorem jc_append (X Y : List Str) : jc (X ++ Y) = jc X ++ jc Y := by
  induction X with
  | nil => simp [jc]
  | cons x X' ih => rw [List.cons_append, jc_cons, jc_cons, ih]; simp [List.append_assoc]

open DocParse HtmlFrag in
theorem jc_pieces (esc : List Char) (tab : Nat) (A : List Piece) (hP : ∀ p ∈ A, PieceOK esc tab p) :
    jc (A.map (fun p => joinLines p.g)) = preSrc A := by
  unfold jc preSrc
  rw [List.isEmpty_map]
  cases A.isEmpty
  · simp only [Bool.false_eq_true, if_false]
    rw [← srcOf_eq esc tab A hP]; rfl
  · rfl

open Probe in
/-- the chunks of the text the preprocessor hands on, from stash index `i` on -/
def chunksMany (i : Nat) : List Sec → List Str
  | [] => []
  | x :: r => ((if x.1.lead then ['\n'] else []) ++ htmlPlaceholder i) :: [] ::
      (x.2.map (fun p => joinLines p.g) ++ chunksMany (i + 1) r)

open DocParse HtmlFrag HtmlTok in
theorem jc_chunksMany (esc : List Char) (tab : Nat) (secs : List Sec) (h : ∀ x ∈ secs, SecOK esc tab x) (i : Nat) :
    jc (chunksMany i secs) = outSecs i (exSecs secs) := by
  induction secs generalizing i with
  | nil => rfl
  | cons x r ih =>
    have hx := h x List.mem_cons_self
    have ih' := ih (fun z hz => h z (List.mem_cons_of_mem _ hz)) (i + 1)
    simp only [exSecs, List.map_cons] at ih' ⊢
    simp only [chunksMany, outSecs, jc_cons, jc_append, jc_pieces esc tab x.2 hx.pieces, ih', placeholder_eq]
    simp [nn, List.append_assoc]

/-! ### 4. the block parser on groups of chunks -/

section groups
open Block DocParse Escape

/-- some chunks that yield one child of the parent, and the turns of the loop they take -/
structure Grp where
  chunks : List Str
  node : Node
  cost : Nat

structure Grp.OK (tab : Nat) (G : Grp) : Prop where
  ne : G.chunks ≠ []
  pre : preCode G.node = none
  cost_le : G.cost ≤ 2 * G.chunks.length
  nel : ∀ b ∈ G.chunks, ∃ f, noEmptyLineFrom f b = true
  run : ∀ (g : Nat) (refs : Refs) (parent : Node) (rest : List Str),
    (∀ sib, parent.last? = some sib → preCode sib = none) →
    parseBlocks tab (g + G.cost) [] refs parent (G.chunks ++ rest) =
      parseBlocks tab g [] refs (parent.append G.node) rest

theorem last_append (parent n : Node) : (parent.append n).last? = some n := by
  simp [Node.last?, Node.append]

theorem parseBlocks_groups (tab : Nat) (Gs : List Grp) (hG : ∀ G ∈ Gs, G.OK tab) :
    ∀ (g : Nat) (refs : Refs) (parent : Node) (rest : List Str),
      (∀ sib, parent.last? = some sib → preCode sib = none) →
      parseBlocks tab (g + (Gs.map (·.cost)).sum) [] refs parent (Gs.flatMap (·.chunks) ++ rest) =
        parseBlocks tab g [] refs { parent with children := parent.children ++ Gs.map (·.node) } rest := by
  induction Gs with
  | nil => intro g refs parent rest _; cases parent; simp
  | cons G r ih =>
    intro g refs parent rest hpar
    have hg := hG G List.mem_cons_self
    simp only [List.map_cons, List.sum_cons, List.flatMap_cons, List.append_assoc]
    rw [show g + (G.cost + (r.map (·.cost)).sum) = (g + (r.map (·.cost)).sum) + G.cost by omega, hg.run _ _ _ _ hpar,
      ih (fun x hx => hG x (List.mem_cons_of_mem _ hx)) g refs _ rest
        (by intro sib hs; rw [last_append] at hs; cases hs; exact hg.pre)]
    simp [Node.append, List.append_assoc]

theorem cost_sum_le (tab : Nat) (Gs : List Grp) (hG : ∀ G ∈ Gs, G.OK tab) :
    (Gs.map (·.cost)).sum ≤ 2 * (Gs.flatMap (·.chunks)).length := by
  induction Gs with
  | nil => simp
  | cons G r ih =>
    have := (hG G List.mem_cons_self).cost_le
    have := ih (fun x hx => hG x (List.mem_cons_of_mem _ hx))
    simp only [List.map_cons, List.sum_cons, List.flatMap_cons, List.length_append]
    omega

/-- **the block parser on a document of groups**: each group contributes its element, in order -/
theorem parseDocument_groups (tab : Nat) (Gs : List Grp) (hne : Gs ≠ []) (hG : ∀ G ∈ Gs, G.OK tab) :
    parseDocument tab (joinChunks (Gs.flatMap (·.chunks)) ++ ['\n', '\n']) = some (divOf (Gs.map (·.node)), []) := by
  have hcne : Gs.flatMap (·.chunks) ≠ [] := by
    obtain ⟨G, r, rfl⟩ := List.exists_cons_of_ne_nil hne
    have := (hG G List.mem_cons_self).ne
    simp [this]
  have hsplit := splitS_chunks_gen (Gs.flatMap (·.chunks)) hcne
    (by
      intro b hb
      obtain ⟨G, hGm, hbG⟩ := List.mem_flatMap.1 hb
      exact (hG G hGm).nel b hbG)
  have hlen := length_joinChunks (Gs.flatMap (·.chunks))
  have hcost := cost_sum_le tab Gs hG
  obtain ⟨g, hg⟩ : ∃ g, fuelFor (joinChunks (Gs.flatMap (·.chunks)) ++ ['\n', '\n']).length =
      (g + 2) + (Gs.map (·.cost)).sum :=
    ⟨fuelFor (joinChunks (Gs.flatMap (·.chunks)) ++ ['\n', '\n']).length - 2 - (Gs.map (·.cost)).sum, by
      simp only [fuelFor, List.length_append, List.length_cons, List.length_nil]; omega⟩
  simp only [parseDocument, parseDocumentWith, parseChunk, hsplit, hg]
  rw [parseBlocks_groups tab Gs hG (g + 2) [] (Node.el "div") [[]] (by intro sib hs; simp [Node.last?, Node.el] at hs)]
  have hlast : ∀ sib, ({ Node.el "div" with children := (Node.el "div").children ++ Gs.map (·.node) } : Node).last? =
      some sib → preCode sib = none := by
    intro sib hs
    simp only [Node.last?, Node.el, List.nil_append] at hs
    obtain ⟨G, hGm, rfl⟩ := List.mem_map.1 (List.mem_of_getLast? hs)
    exact (hG G hGm).pre
  simp only [parseBlocks, dispatch_empty_block tab _ [] [] _ hlast]
  simp [divOf, Node.el]

/-- one chunk that produces one element -/
def chunkGrp (c : Str) (n : Node) : Grp := ⟨[c], n, 1⟩

theorem chunkGrp_ok (tab : Nat) (c : Str) (n : Node) (hP : Produces tab c n) (hnel : noEmptyLineFrom true c = true)
    (hpre : preCode n = none) : (chunkGrp c n).OK tab where
  ne := by simp [chunkGrp]
  pre := hpre
  cost_le := by simp [chunkGrp]
  nel := by intro b hb; simp [chunkGrp] at hb; subst hb; exact ⟨true, hnel⟩
  run := by
    intro g refs parent rest _
    simp only [chunkGrp, List.cons_append, List.nil_append, parseBlocks, hP _ refs parent _]

open Probe in
/-- the placeholder paragraph as the preprocessor leaves it: a line feed in front for block elements, an empty
    chunk behind -/
def phGrp (lead : Bool) (i : Nat) : Grp :=
  ⟨[(if lead then ['\n'] else []) ++ htmlPlaceholder i, []], phNode i, if lead then 3 else 2⟩

open Probe in
theorem ph_no_nl (i : Nat) : '\n' ∉ htmlPlaceholder i := by
  intro hm
  rcases ph_chars i _ hm with h | h | h | h <;> revert h <;> decide

open Probe in
theorem phGrp_ok (tab : Nat) (lead : Bool) (i : Nat) (hPh : Produces tab (htmlPlaceholder i) (phNode i)) :
    (phGrp lead i).OK tab where
  ne := by simp [phGrp]
  pre := rfl
  cost_le := by cases lead <;> simp [phGrp]
  nel := by
    have hphne : htmlPlaceholder i ≠ [] := by simp [htmlPlaceholder, Post.htmlPrefix]
    intro b hb
    simp only [phGrp, List.mem_cons, List.mem_nil_iff, or_false] at hb
    rcases hb with rfl | rfl
    · cases lead
      · exact ⟨true, by simpa using nel_line _ hphne (ph_no_nl i)⟩
      · refine ⟨false, ?_⟩
        simp only [if_true, List.singleton_append, noEmptyLineFrom, Bool.not_false, Bool.true_and]
        exact nel_line _ hphne (ph_no_nl i)
    · exact ⟨false, rfl⟩
  run := by
    have hphne : htmlPlaceholder i ≠ [] := by simp [htmlPlaceholder, Post.htmlPrefix]
    intro g refs parent rest hpar
    have hlastP : ∀ sib, (parent.append (phNode i)).last? = some sib → preCode sib = none := by
      intro sib hs; rw [last_append] at hs; cases hs; rfl
    cases lead
    · simp only [phGrp, Bool.false_eq_true, if_false, List.nil_append, List.cons_append]
      rw [show g + 2 = (g + 1) + 1 by omega]
      simp only [parseBlocks, hPh _ refs _ _, dispatch_empty_mid tab _ [] refs _ _ hlastP]
    · simp only [phGrp, if_true, List.singleton_append, List.cons_append, List.nil_append]
      rw [show g + 3 = ((g + 1) + 1) + 1 by omega]
      simp only [parseBlocks, dispatch_nl tab _ [] refs _ _ _ hphne hpar, hPh _ refs _ _,
        dispatch_empty_mid tab _ [] refs _ _ hlastP]

end groups

/-! ### 5. the staged elements, the serialised text, the end of `convert` -/

open DocParse in
/-- the groups of the sections, from stash index `i` on -/
def groupsMany (esc : List Char) (i : Nat) : List Sec → List Grp
  | [] => []
  | x :: r => phGrp x.1.lead i ::
      (x.2.map (fun p => chunkGrp (joinLines p.g) (p.leaf.src esc)) ++ groupsMany esc (i + 1) r)

/-- the staged elements of the sections, from stash index `i` on -/
def stagedMany (esc : List Char) (i : Nat) : List Sec → List Staged
  | [] => []
  | x :: r => phStaged i :: (x.2.map (fun p => ofLeaf esc p.leaf) ++ stagedMany esc (i + 1) r)

theorem groupsMany_chunks (esc : List Char) (secs : List Sec) (i : Nat) :
    (groupsMany esc i secs).flatMap (·.chunks) = chunksMany i secs := by
  induction secs generalizing i with
  | nil => rfl
  | cons x r ih =>
    simp only [groupsMany, chunksMany, List.flatMap_cons, List.flatMap_append, ih, phGrp, List.flatMap_map, chunkGrp]
    induction x.2 with
    | nil => rfl
    | cons p ps ihp => simp [List.flatMap_cons] at ihp ⊢; exact ihp

theorem groupsMany_nodes (esc : List Char) (secs : List Sec) (i : Nat) :
    (groupsMany esc i secs).map (·.node) = (stagedMany esc i secs).map (·.src) := by
  induction secs generalizing i with
  | nil => rfl
  | cons x r ih =>
    simp only [groupsMany, stagedMany, List.map_cons, List.map_append, ih, List.map_map]
    simp [phGrp, phStaged, phNode, chunkGrp, ofLeaf, Function.comp_def]

open DocParse in
theorem groupsMany_ok (esc : List Char) (tab : Nat) (hE : EscOK esc) (hF : PhFree esc) (htab : 0 < tab)
    (secs : List Sec) (h : ∀ x ∈ secs, SecOK esc tab x) (i : Nat) : ∀ G ∈ groupsMany esc i secs, G.OK tab := by
  induction secs generalizing i with
  | nil => intro G hG; simp [groupsMany] at hG
  | cons x r ih =>
    have hx := h x List.mem_cons_self
    intro G hG
    simp only [groupsMany, List.mem_cons, List.mem_append, List.mem_map] at hG
    rcases hG with rfl | ⟨p, hp, rfl⟩ | hG
    · exact phGrp_ok tab _ i (produces_ph hE hF tab htab i)
    · have hp' := hx.pieces p hp
      exact chunkGrp_ok tab _ _ hp'.prod hp'.nel (preCode_leaf _ _ hp'.ok)
    · exact ih (fun z hz => h z (List.mem_cons_of_mem _ hz)) (i + 1) G hG

open DocParse in
theorem stagedMany_ok (cfg : Inline.Cfg) (tab : Nat) (hE : EscOK cfg.esc) (hF : PhFree cfg.esc)
    (secs : List Sec) (h : ∀ x ∈ secs, SecOK cfg.esc tab x) (i : Nat) :
    ∀ e ∈ stagedMany cfg.esc i secs, e.OK cfg := by
  induction secs generalizing i with
  | nil => intro e he; simp [stagedMany] at he
  | cons x r ih =>
    have hx := h x List.mem_cons_self
    intro e he
    simp only [stagedMany, List.mem_cons, List.mem_append, List.mem_map] at he
    rcases he with rfl | ⟨p, hp, rfl⟩ | he
    · exact phStaged_ok cfg hE hF i
    · exact ofLeaf_ok cfg hE _ (hx.pieces p hp).ok
    · exact ih (fun z hz => h z (List.mem_cons_of_mem _ hz)) (i + 1) e he

open DocParse Probe in
/-- the serialised elements of the sections, one per line: placeholder paragraphs and the outputs of the pieces -/
def jW (i : Nat) : List Sec → Str
  | [] => []
  | [x] => (pOpen ++ htmlPlaceholder i ++ pClose) ++ (if x.2.isEmpty then [] else ['\n'] ++ joinOut (x.2.map (·.leaf)))
  | x :: y :: r => (pOpen ++ htmlPlaceholder i ++ pClose) ++ ['\n'] ++ preOut x.2 ++ jW (i + 1) (y :: r)

open DocParse in
/-- the same with the stash entries in the place of the placeholder paragraphs -/
def jR : List Sec → Str
  | [] => []
  | [x] => (x.1.text ++ ['\n']) ++ (if x.2.isEmpty then [] else ['\n'] ++ joinOut (x.2.map (·.leaf)))
  | x :: y :: r => (x.1.text ++ ['\n']) ++ ['\n'] ++ preOut x.2 ++ jR (y :: r)

theorem stagedMany_ne (esc : List Char) (i : Nat) (x : Sec) (r : List Sec) : stagedMany esc i (x :: r) ≠ [] := by
  simp [stagedMany]

open DocParse Probe in
theorem joinOutS_stagedMany (esc : List Char) (secs : List Sec) (i : Nat) :
    joinOutS (stagedMany esc i secs) = jW i secs := by
  induction secs generalizing i with
  | nil => rfl
  | cons x r ih =>
    have eb : x.2.map (fun p => ofLeaf esc p.leaf) = (x.2.map (·.leaf)).map (ofLeaf esc) := by simp [List.map_map]
    have h1 := joinOutS_mid esc [] (x.2.map (·.leaf)) (phStaged i)
    simp only [List.map_nil, List.nil_append, List.isEmpty_nil, if_true, List.isEmpty_map] at h1
    cases r with
    | nil =>
      simp only [stagedMany, List.append_nil, jW, eb, h1]
      simp [phStaged]
    | cons y r' =>
      have ih' := ih (i + 1)
      have e : stagedMany esc i (x :: y :: r') =
          (phStaged i :: (x.2.map (·.leaf)).map (ofLeaf esc)) ++ stagedMany esc (i + 1) (y :: r') := by
        simp [stagedMany, eb]
      rw [e, joinOutS_append _ _ (by simp) (stagedMany_ne esc _ y r'), h1, ih']
      simp only [jW, preOut, List.isEmpty_map]
      cases x.2.isEmpty <;> simp [phStaged, List.append_assoc]

open DocParse in
theorem joinOutS_doc (esc : List Char) (A : List Piece) (x : Sec) (r : List Sec) :
    joinOutS (A.map (fun p => ofLeaf esc p.leaf) ++ stagedMany esc 0 (x :: r)) = preOut A ++ jW 0 (x :: r) := by
  have ea : A.map (fun p => ofLeaf esc p.leaf) = (A.map (·.leaf)).map (ofLeaf esc) := by simp [List.map_map]
  cases hA : A with
  | nil => simp [preOut, joinOutS_stagedMany]
  | cons a A' =>
    rw [← hA, ea, joinOutS_append _ _ (by simp [hA]) (stagedMany_ne esc _ x r), joinOutS_leaves, joinOutS_stagedMany]
    simp [preOut, hA]

/-! #### facts about the pieces' outputs -/

open DocParse in
theorem preOut_facts (esc : List Char) (tab : Nat) (B : List Piece) (hP : ∀ p ∈ B, PieceOK esc tab p) :
    Post.STX ∉ preOut B ∧ (∀ c, (preOut B).head? = some c → isSpace c = false) := by
  unfold preOut
  cases hB : B with
  | nil => simp
  | cons b B' =>
    obtain ⟨j1, j2, _⟩ := joinOut_facts ((b :: B').map (·.leaf)) (by simp)
      (by intro l hl; obtain ⟨p, hp, rfl⟩ := List.mem_map.1 hl; exact (hP p (hB ▸ hp)).ok)
    simp only [List.isEmpty_cons, Bool.false_eq_true, if_false, List.mem_append, not_or]
    refine ⟨⟨j1, by decide⟩, ?_⟩
    intro c hc
    cases hj : joinOut ((b :: B').map (·.leaf)) with
    | nil => rw [hj] at j2; cases j2
    | cons y ys => rw [hj] at hc j2; simp at hc j2; subst hc; subst j2; decide

open DocParse in
/-- what follows the last raw item in the serialised text -/
theorem tail_facts (esc : List Char) (tab : Nat) (B : List Piece) (hP : ∀ p ∈ B, PieceOK esc tab p) :
    Post.STX ∉ (if B.isEmpty then [] else ['\n'] ++ joinOut (B.map (·.leaf)) : Str) ∧
    (B.isEmpty = false → (joinOut (B.map (·.leaf))).getLast? = some '>' ∧ joinOut (B.map (·.leaf)) ≠ []) := by
  cases hB : B with
  | nil => simp
  | cons b B' =>
    obtain ⟨j1, _, j3⟩ := joinOut_facts ((b :: B').map (·.leaf)) (by simp)
      (by intro l hl; obtain ⟨p, hp, rfl⟩ := List.mem_map.1 hl; exact (hP p (hB ▸ hp)).ok)
    simp only [List.isEmpty_cons, Bool.false_eq_true, if_false, List.mem_append, not_or]
    exact ⟨⟨by decide, j1⟩, fun _ => ⟨j3, by intro e; rw [e] at j3; cases j3⟩⟩

open DocParse in
theorem raw_no_stx (esc : List Char) (tab : Nat) (x : Sec) (hx : SecOK esc tab x) : Post.STX ∉ x.1.text ++ ['\n'] := by
  intro hm
  rcases List.mem_append.1 hm with h | h
  · have hj : x.1.text = joinLines (lines x.1.text) := (lines_joinLines x.1.text).symm
    rw [hj] at h
    rcases mem_joinLines h with e | ⟨l, hl, hcl⟩
    · revert e; decide
    · exact ((lineSafe_facts (hx.safe l hl)).2.1 _ hcl).1 rfl
  · revert h; decide

theorem jR_no_stx (esc : List Char) (tab : Nat) (secs : List Sec) (h : ∀ x ∈ secs, SecOK esc tab x) :
    Post.STX ∉ jR secs := by
  induction secs with
  | nil => simp [jR]
  | cons x r ih =>
    have hx := h x List.mem_cons_self
    have h1 := raw_no_stx esc tab x hx
    cases r with
    | nil =>
      have h2 := (tail_facts esc tab x.2 hx.pieces).1
      simp only [jR, List.mem_append, not_or] at h1 ⊢
      exact ⟨h1, h2⟩
    | cons y r' =>
      have h2 := (preOut_facts esc tab x.2 hx.pieces).1
      have h3 := ih (fun z hz => h z (List.mem_cons_of_mem _ hz))
      simp only [jR, List.mem_append, not_or] at h1 ⊢
      exact ⟨⟨⟨h1, by decide⟩, h2⟩, h3⟩

open Probe StashAtomic Post in
/-- **one pass of `RawHtmlPostprocessor`** restores every placeholder paragraph -/
theorem subPass_jW (esc : List Char) (tab : Nat) (bl : List Str) (stash : List Str) (secs : List Sec)
    (h : ∀ x ∈ secs, SecOK esc tab x)
    (hb : ∀ x ∈ secs, isBlockLevelHtml bl (x.1.text ++ ['\n']) = true) :
    ∀ (i : Nat) (pre : Str), Post.STX ∉ pre → stash.drop i = secs.map (fun x => x.1.text ++ ['\n']) →
      subPass bl stash 0 (pre ++ jW i secs) = pre ++ jR secs := by
  induction secs with
  | nil =>
    intro i pre hpre _
    simp only [jW, jR, List.append_nil]
    exact subPass_fix bl stash pre (no_prefix_of_no_stx hpre)
  | cons x r ih =>
    intro i pre hpre hdrop
    have hx := h x List.mem_cons_self
    have hi : stash[i]? = some (x.1.text ++ ['\n']) := by
      have := congrArg List.head? hdrop
      simpa [List.head?_drop] using this
    have hdrop' : stash.drop (i + 1) = r.map (fun x => x.1.text ++ ['\n']) := by
      have := congrArg List.tail hdrop
      simpa [List.tail_drop] using this
    cases r with
    | nil =>
      have ht := (tail_facts esc tab x.2 hx.pieces).1
      have := subPass_wrapped bl stash i _ pre
        (if x.2.isEmpty then [] else ['\n'] ++ DocParse.joinOut (x.2.map (·.leaf))) hi hpre
      rw [hb x List.mem_cons_self, subPass_fix bl stash _ (no_prefix_of_no_stx ht)] at this
      simp only [if_true] at this
      simpa [jW, jR, List.append_assoc] using this
    | cons y r' =>
      have hp := (preOut_facts esc tab x.2 hx.pieces).1
      have hpre' : Post.STX ∉ ['\n'] ++ preOut x.2 := by
        simp only [List.mem_append, not_or]; exact ⟨by decide, hp⟩
      have ih' := ih (fun z hz => h z (List.mem_cons_of_mem _ hz)) (fun z hz => hb z (List.mem_cons_of_mem _ hz))
        (i + 1) (['\n'] ++ preOut x.2) hpre' hdrop'
      have := subPass_wrapped bl stash i _ pre ((['\n'] ++ preOut x.2) ++ jW (i + 1) (y :: r')) hi hpre
      rw [hb x List.mem_cons_self, ih'] at this
      simp only [if_true] at this
      simpa [jW, jR, List.append_assoc] using this

open DocParse in
theorem jW_last (esc : List Char) (tab : Nat) (secs : List Sec) (hne : secs ≠ []) (h : ∀ x ∈ secs, SecOK esc tab x)
    (i : Nat) : (jW i secs).getLast? = some '>' ∧ ∃ t, jW i secs = '<' :: t := by
  induction secs generalizing i with
  | nil => exact absurd rfl hne
  | cons x r ih =>
    have hx := h x List.mem_cons_self
    cases r with
    | nil =>
      refine ⟨?_, _, by simp [jW, Probe.pOpen]; rfl⟩
      simp only [jW]
      cases hB : x.2.isEmpty with
      | true =>
        simp only [if_true, List.append_nil]
        rw [getLast?_append_ne _ _ (by simp [Probe.pClose])]; rfl
      | false =>
        obtain ⟨j3, jne⟩ := (tail_facts esc tab x.2 hx.pieces).2 hB
        simp only [Bool.false_eq_true, if_false]
        rw [getLast?_append_ne _ _ (by simp), getLast?_append_ne _ _ jne, j3]
    | cons y r' =>
      obtain ⟨l1, t, ht⟩ := ih (by simp) (fun z hz => h z (List.mem_cons_of_mem _ hz)) (i + 1)
      refine ⟨?_, _, by simp [jW, Probe.pOpen]; rfl⟩
      simp only [jW]
      rw [getLast?_append_ne _ _ (by rw [ht]; simp), l1]

/-- the line feed the last stash entry leaves at the very end when no piece follows -/
def tailNl : List Sec → Str
  | [] => []
  | [x] => if x.2.isEmpty then ['\n'] else []
  | _ :: y :: r => tailNl (y :: r)

theorem tailNl_blank (secs : List Sec) : isBlank (tailNl secs) = true := by
  induction secs with
  | nil => rfl
  | cons x r ih =>
    cases r with
    | nil => simp only [tailNl]; cases x.2.isEmpty <;> decide
    | cons y r' => simpa [tailNl] using ih

theorem jR_eq (secs : List Sec) : jR secs = outMany secs ++ tailNl secs := by
  induction secs with
  | nil => rfl
  | cons x r ih =>
    cases r with
    | nil => simp only [jR, outMany, tailNl, postOut]; cases x.2.isEmpty <;> simp [List.append_assoc]
    | cons y r' => simp only [jR, outMany, tailNl, ih]; simp [List.append_assoc]

open DocParse in
theorem outMany_facts (esc : List Char) (tab : Nat) (secs : List Sec) (hne : secs ≠ [])
    (h : ∀ x ∈ secs, SecOK esc tab x) : (outMany secs).getLast? = some '>' ∧ ∃ t, outMany secs = '<' :: t := by
  induction secs with
  | nil => exact absurd rfl hne
  | cons x r ih =>
    have hx := h x List.mem_cons_self
    obtain ⟨t0, ht0⟩ := hx.raw.head
    cases r with
    | nil =>
      refine ⟨?_, _, by simp [outMany, ht0]; rfl⟩
      simp only [outMany, postOut]
      cases hB : x.2.isEmpty with
      | true => simpa using hx.last
      | false =>
        obtain ⟨j3, jne⟩ := (tail_facts esc tab x.2 hx.pieces).2 hB
        simp only [Bool.false_eq_true, if_false]
        rw [getLast?_append_ne _ _ (by simp), getLast?_append_ne _ _ jne, j3]
    | cons y r' =>
      obtain ⟨l1, t, ht⟩ := ih (by simp) (fun z hz => h z (List.mem_cons_of_mem _ hz))
      refine ⟨?_, _, by simp [outMany, ht0]; rfl⟩
      simp only [outMany]
      rw [getLast?_append_ne _ _ (by rw [ht]; simp), l1]

open Probe StashAtomic Post in
/-- **the end of `convert`**: `P` (the outputs of the pieces in front, or nothing), then the sections -/
theorem finish_many (esc : List Char) (tab : Nat) (bl : List Str) (P : Str) (secs : List Sec) (hne : secs ≠ [])
    (h : ∀ x ∈ secs, SecOK esc tab x)
    (hb : ∀ x ∈ secs, isBlockLevelHtml bl (x.1.text ++ ['\n']) = true)
    (hP : Post.STX ∉ P) (hPh : ∀ c, P.head? = some c → isSpace c = false) :
    finish bl (secs.map (fun x => x.1.text ++ ['\n']))
        ("<div>".toList ++ ('\n' :: (P ++ jW 0 secs) ++ ['\n']) ++ "</div>\n".toList) =
      some (some (P ++ outMany secs)) := by
  have hsne : secs.map (fun x => x.1.text ++ ['\n']) ≠ [] := by simpa using hne
  obtain ⟨wl, wt, hwt⟩ := jW_last esc tab secs hne h 0
  obtain ⟨ol, ot, hot⟩ := outMany_facts esc tab secs hne h
  have h1 := subPass_jW esc tab bl (secs.map (fun x => x.1.text ++ ['\n'])) secs h hb 0 P hP (by simp)
  have hall : Post.STX ∉ P ++ jR secs := by
    simp only [List.mem_append, not_or]; exact ⟨hP, jR_no_stx esc tab secs h⟩
  have hr := rawHtml_of_fix bl _ ((secs.map (fun x => x.1.text ++ ['\n'])).length + 1) _ _ hsne h1
    (no_prefix_of_no_stx hall)
  have hhead : ∀ (X t : Str), X = '<' :: t → ∀ c, (P ++ X).head? = some c → isSpace c = false := by
    intro X t hX c hc
    cases P with
    | nil => rw [hX] at hc; simp at hc; subst hc; decide
    | cons a P' => simp at hc; subst hc; exact hPh _ rfl
  have hs2 : strip ('\n' :: (P ++ jW 0 secs) ++ ['\n']) = P ++ jW 0 secs := by
    have := strip_append_of_blank (a := ['\n']) (b := ['\n']) (by decide) (by decide) (P ++ jW 0 secs)
    have e : '\n' :: (P ++ jW 0 secs) ++ ['\n'] = ['\n'] ++ (P ++ jW 0 secs) ++ ['\n'] := by simp
    rw [e, this]
    apply strip_eq_self (hhead _ _ hwt)
    intro c hc
    rw [getLast?_append_ne _ _ (by rw [hwt]; simp), wl] at hc
    cases hc; decide
  have hs3 : strip (P ++ jR secs) = P ++ outMany secs := by
    rw [jR_eq]
    have := strip_append_of_blank (a := []) (b := tailNl secs) rfl (tailNl_blank secs) (P ++ outMany secs)
    simp only [List.nil_append] at this
    rw [← List.append_assoc, this]
    apply strip_eq_self (hhead _ _ hot)
    intro c hc
    rw [getLast?_append_ne _ _ (by rw [hot]; simp), ol] at hc
    cases hc; decide
  unfold finish
  rw [topLevelStrip_div, hs2]
  simp only [post, rawHtmlFuel, hr, Option.map_some]
  rw [ampSub_of_no_stx hall, hs3]

/-! ### 6. the composition -/

open HtmlTok Extract in
theorem cleanText_startSt (t0 : Str) : cleanText (startSt t0) = t0 := by
  unfold startSt cleanText
  cases h : t0.isEmpty
  · simp
  · have : t0 = [] := by simpa using h
    simp [this]

open DocParse HtmlFrag HtmlTok in
theorem outSecs_no_lt (esc : List Char) (tab : Nat) (secs : List Sec) (h : ∀ x ∈ secs, SecOK esc tab x) (i : Nat) :
    '<' ∉ outSecs i (exSecs secs) := by
  induction secs generalizing i with
  | nil => simp [exSecs, outSecs]
  | cons x r ih =>
    have hx := h x List.mem_cons_self
    have ih' := ih (fun z hz => h z (List.mem_cons_of_mem _ hz)) (i + 1)
    have hph : '<' ∉ Extract.placeholder i := by
      rw [placeholder_eq]
      intro hm; rcases ph_chars i _ hm with h | h | h | h <;> revert h <;> decide
    have hpl := plain_preSrc esc tab x.2 hx.pieces
    simp only [plainOk, Bool.and_eq_true, Bool.not_eq_true', List.contains_eq_mem, decide_eq_false_iff_not] at hpl
    simp only [exSecs, List.map_cons] at ih' ⊢
    simp only [outSecs, List.mem_append, not_or]
    refine ⟨⟨⟨⟨?_, hph⟩, by decide⟩, ⟨by decide, hpl.1⟩⟩, ih'⟩
    cases x.1.lead <;> simp

open DocParse in
theorem flatMap_chunkGrp (esc : List Char) (A : List Piece) :
    (A.map (fun p => chunkGrp (joinLines p.g) (p.leaf.src esc))).flatMap (·.chunks) = A.map (fun p => joinLines p.g) := by
  induction A with
  | nil => rfl
  | cons p ps ihp =>
    simp only [List.map_cons, List.flatMap_cons, List.cons.injEq]
    rw [ihp]; rfl

open DocParse HtmlFrag HtmlTok Extract in
/-- **end to end**: pieces (or nothing), then raw items, each followed by pieces (or nothing) -/
theorem convertH_many (cfg : Pipeline.Cfg) (hE : EscOK cfg.esc) (hF : PhFree cfg.esc)
    (hbl : cfg.blockLevel = TreeProc.defaultBlockLevel) (hfmt : cfg.fmt = .xhtml) (htab : 0 < cfg.tab)
    (A : List Piece) (hPA : ∀ p ∈ A, PieceOK cfg.esc cfg.tab p)
    (secs : List Sec) (hne : secs ≠ []) (h : ∀ x ∈ secs, SecOK cfg.esc cfg.tab x) :
    PipelineH.convertH cfg (preSrc A ++ srcMany secs) = .ok (preOut A ++ outMany secs) := by
  obtain ⟨x0, r0, hsecs⟩ := List.exists_cons_of_ne_nil hne
  -- 1. not blank
  have hnb : Normalize.isBlankDoc (preSrc A ++ srcMany secs) = false := by
    rw [Normalize.isBlankDoc_eq_all]
    cases hall : (preSrc A ++ srcMany secs).all isSpace with
    | false => rfl
    | true =>
      obtain ⟨t, ht⟩ := (h x0 (by simp [hsecs])).raw.head
      have hm : '<' ∈ srcMany secs := by
        rw [hsecs]; cases r0 <;> simp [srcMany, ht]
      have := List.all_eq_true.1 hall '<' (by simp [hm])
      revert this; decide
  -- 2. normalisation
  have hnorm : Normalize.normalize cfg.tab (preSrc A ++ srcMany secs) = preSrc A ++ flatSecs (exSecs secs) := by
    rw [normalize_safe _ _ (safe_preSrc cfg.esc cfg.tab A hPA (safe_srcMany cfg.esc cfg.tab secs h)),
      List.append_assoc]
    have := srcMany_nn secs hne
    simp only [nn] at this
    rw [this]
  -- 3. the preprocessor
  have hext := extract_many (preSrc A) (exSecs secs) (preSrc_t0 cfg.esc cfg.tab A hPA)
    (secsOk_exSecs cfg.esc cfg.tab secs h)
  let Gs : List Grp := A.map (fun p => chunkGrp (joinLines p.g) (p.leaf.src cfg.esc)) ++ groupsMany cfg.esc 0 secs
  have hGne : Gs ≠ [] := by simp [Gs, hsecs, groupsMany]
  have hchunks : Gs.flatMap (·.chunks) = A.map (fun p => joinLines p.g) ++ chunksMany 0 secs := by
    simp only [Gs, List.flatMap_append, groupsMany_chunks]
    rw [flatMap_chunkGrp]
  have hcne : Gs.flatMap (·.chunks) ≠ [] := by
    rw [hchunks, hsecs]; simp [chunksMany]
  have htext : cleanText (afterSecs (startSt (preSrc A)) (exSecs secs)) =
      joinChunks (Gs.flatMap (·.chunks)) ++ ['\n', '\n'] := by
    rw [afterSecs_clean, cleanText_startSt]
    have hz : (startSt (preSrc A)).stash.length = 0 := rfl
    rw [hz, ← jc_chunksMany cfg.esc cfg.tab secs h 0, ← jc_pieces cfg.esc cfg.tab A hPA, ← jc_append, ← hchunks]
    unfold jc
    cases hc : (Gs.flatMap (·.chunks)).isEmpty
    · rfl
    · exact absurd (by simpa using hc) hcne
  have hstash : (afterSecs (startSt (preSrc A)) (exSecs secs)).stash = secs.map (fun x => x.1.text ++ ['\n']) := by
    rw [afterSecs_stash]
    simp [startSt, exSecs, List.map_map, Function.comp_def]
  have hnolt : (joinChunks (Gs.flatMap (·.chunks)) ++ ['\n', '\n']).contains '<' = false := by
    rw [← htext, afterSecs_clean, cleanText_startSt]
    have hz : (startSt (preSrc A)).stash.length = 0 := rfl
    rw [hz]
    have h1 := plain_preSrc cfg.esc cfg.tab A hPA
    simp only [plainOk, Bool.and_eq_true, Bool.not_eq_true', List.contains_eq_mem, decide_eq_false_iff_not] at h1
    simp only [List.contains_eq_mem, decide_eq_false_iff_not, List.mem_append, not_or]
    exact ⟨h1.1, outSecs_no_lt cfg.esc cfg.tab secs h 0⟩
  -- 4. the block parser
  have hGok : ∀ G ∈ Gs, G.OK cfg.tab := by
    intro G hG
    rcases List.mem_append.1 hG with hG | hG
    · obtain ⟨p, hp, rfl⟩ := List.mem_map.1 hG
      have hp' := hPA p hp
      exact chunkGrp_ok cfg.tab _ _ hp'.prod hp'.nel (preCode_leaf _ _ hp'.ok)
    · exact groupsMany_ok cfg.esc cfg.tab hE hF htab secs h 0 G hG
  have hparse := parseDocument_groups cfg.tab Gs hGne hGok
  -- 5. the staged elements
  let L : List Staged := A.map (fun p => ofLeaf cfg.esc p.leaf) ++ stagedMany cfg.esc 0 secs
  have hLok : ∀ e ∈ L, e.OK { esc := cfg.esc, refs := [] } := by
    intro e he
    rcases List.mem_append.1 he with he | he
    · obtain ⟨p, hp, rfl⟩ := List.mem_map.1 he
      exact ofLeaf_ok { esc := cfg.esc, refs := [] } hE _ (hPA p hp).ok
    · exact stagedMany_ok { esc := cfg.esc, refs := [] } cfg.tab hE hF secs h 0 e he
  have hLne : L ≠ [] := by simp [L, hsecs, stagedMany]
  have hsrc : Gs.map (·.node) = L.map (·.src) := by
    simp only [Gs, L, List.map_append, groupsMany_nodes, List.map_map]
    congr 1
  rw [hsrc] at hparse
  have h1 := run_staged { esc := cfg.esc, refs := [] } L hLok (secs.map (fun x => x.1.text ++ ['\n']))
  have h2 := prettify_staged { esc := cfg.esc, refs := [] } L hLne hLok
  have h3 := unescapeTree_staged { esc := cfg.esc, refs := [] } L hLok
  have h4 := serialize_staged { esc := cfg.esc, refs := [] } L hLne hLok
  -- 6. the output
  have hjoin : joinOutS L = preOut A ++ jW 0 secs := by
    have := joinOutS_doc cfg.esc A x0 r0
    rw [← hsecs] at this; exact this
  obtain ⟨pa1, pa2⟩ := preOut_facts cfg.esc cfg.tab A hPA
  have h5 := finish_many cfg.esc cfg.tab cfg.blockLevel (preOut A) secs hne h
    (by intro x hx; rw [hbl]; exact (h x hx).bh) pa1 pa2
  -- assemble
  unfold PipelineH.convertH PipelineH.prepareH
  simp only [hnb, Bool.false_eq_true, if_false, hnorm, hext, Option.map_some, htext, hstash, hnolt]
  unfold PipelineH.convertFrom
  simp only [hparse, List.reverse_nil, h1, hbl, h2, h3, hfmt, h4, hjoin]
  rw [hbl] at h5
  simp only [h5]

/-! ### 7. the raw items of `Props/C04Text.lean` between flat Markdown documents -/

open HtmlFrag in
/-- a raw item: a block element `<name attrs trail> body </name>`, or a unit (comment, processing instruction,
    declaration, `<hr>`, self-closing block tag) -/
inductive Raw where
  | block (name : Str) (attrs : List Attr) (trail : Str) (body : List Tok)
  | unit (u : HtmlTok.Unit)

open HtmlFrag in
/-- its source text -/
def Raw.text : Raw → Str
  | .block name attrs trail body => blockText name attrs trail body
  | .unit u => u.text

open HtmlFrag DocParse in
/-- the hypotheses of `C04_text_end_to_end_anywhere` (block elements) and `C04_text_end_to_end_unit_anywhere` (units) -/
def Raw.OK : Raw → Prop
  | .block name attrs trail body =>
    (Tok.open_ name attrs trail).ok = true ∧ Extract.isBlockLevelTag (lower name) = true ∧ lower name ≠ hrTag ∧
    toksOk body = true ∧ closesOk (lower name) body = true ∧
    (∀ l ∈ lines (blockText name attrs trail body), lineSafe l = true) ∧ firstSepOk attrs trail = true
  | .unit u =>
    u.OK ∧ (∀ l ∈ lines u.text, lineSafe l = true) ∧
    Post.isBlockLevelHtml TreeProc.defaultBlockLevel (u.text ++ ['\n']) = true ∧ u.text.getLast? = some '>'

/-- the raw item as the extractor sees it -/
def Raw.sec : Raw → HtmlTok.RawSec
  | .block name attrs trail body => ⟨HtmlFrag.blockText name attrs trail body, true⟩
  | .unit u => ⟨u.text, false⟩

theorem Raw.sec_text (R : Raw) : R.sec.text = R.text := by cases R <;> rfl

open HtmlFrag HtmlTok DocParse in
theorem secOK_of_raw (esc : List Char) (tab : Nat) (R : Raw) (hR : R.OK) (ps : List Piece)
    (hps : ∀ p ∈ ps, PieceOK esc tab p) : SecOK esc tab (R.sec, ps) := by
  cases R with
  | block name attrs trail body =>
    obtain ⟨hopen, hblock, hhr, hbody, hcl, hsafe, hfs⟩ := hR
    have hbh := isBlockLevelHtml_block name attrs trail
      (renderToks (body ++ [Tok.close name]) ++ ['\n']) hopen hfs hblock
    have hbt : (Tok.open_ name attrs trail).render ++ (renderToks (body ++ [Tok.close name]) ++ ['\n']) =
        blockText name attrs trail body ++ ['\n'] := by
      simp [blockText, blockToks, renderToks]
    rw [hbt] at hbh
    have hbe : (blockText name attrs trail body).getLast? = some '>' := by
      have : blockText name attrs trail body =
          ((Tok.open_ name attrs trail).render ++ renderToks body ++ '<' :: '/' :: name) ++ ['>'] := by
        simp [blockText, blockToks, renderToks, renderToks_append, Tok.render]
      rw [this, List.getLast?_append]; rfl
    exact ⟨blockSec_ok name attrs trail body hopen hblock hhr hbody hcl, hsafe, hbh, hbe, hps⟩
  | unit u =>
    obtain ⟨hu, hsafe, hbh, hbe⟩ := hR
    exact ⟨unitSec_ok u hu, hsafe, hbh, hbe, hps⟩

open DocSpec HtmlFrag in
/-- the source from the first raw item on: raw items separated by a blank line and, where there is one, a flat
    Markdown document and another blank line -/
def srcItems : List (Raw × Option (Doc × Spelling)) → Str
  | [] => []
  | [x] => x.1.text ++ srcAfter x.2
  | x :: y :: r => x.1.text ++ nn ++ srcBefore x.2 ++ srcItems (y :: r)

open DocSpec in
/-- the output from the first raw item on: each raw item's source text and a blank line, then the output of the
    flat document behind it (if any) and a line feed -/
def outItems : List (Raw × Option (Doc × Spelling)) → Str
  | [] => []
  | [x] => x.1.text ++ outAfter x.2
  | x :: y :: r => x.1.text ++ ['\n', '\n'] ++ outBefore x.2 ++ outItems (y :: r)

open DocSpec DocParse in
theorem items_secs (items : List (Raw × Option (Doc × Spelling)))
    (h : ∀ x ∈ items, x.1.OK ∧ flatOk x.2 = true) :
    ∃ secs : List Sec, secs.length = items.length ∧ (∀ x ∈ secs, SecOK Generated.escapedChars 4 x) ∧
      srcItems items = srcMany secs ∧ outItems items = outMany secs := by
  induction items with
  | nil => exact ⟨[], rfl, by simp, rfl, rfl⟩
  | cons x r ih =>
    obtain ⟨hR, hf⟩ := h x List.mem_cons_self
    obtain ⟨ps, hps, e1, e2, e3, e4⟩ := flat_pieces_opt x.2 hf
    obtain ⟨secs, hlen, hok, hs, ho⟩ := ih (fun z hz => h z (List.mem_cons_of_mem _ hz))
    refine ⟨(x.1.sec, ps) :: secs, by simp [hlen], ?_, ?_, ?_⟩
    · intro z hz
      rcases List.mem_cons.1 hz with rfl | hz
      · exact secOK_of_raw _ _ x.1 hR ps hps
      · exact hok z hz
    · cases r with
      | nil =>
        have : secs = [] := by simpa using hlen
        subst this
        simp [srcItems, srcMany, Raw.sec_text, e2]
      | cons y r' =>
        obtain ⟨s0, secs', rfl⟩ : ∃ s0 secs', secs = s0 :: secs' := by
          cases secs with
          | nil => simp at hlen
          | cons a b => exact ⟨a, b, rfl⟩
        simp only [srcItems, srcMany, Raw.sec_text, e1, hs]
    · cases r with
      | nil =>
        have : secs = [] := by simpa using hlen
        subst this
        simp [outItems, outMany, Raw.sec_text, e4]
      | cons y r' =>
        obtain ⟨s0, secs', rfl⟩ : ∃ s0 secs', secs = s0 :: secs' := by
          cases secs with
          | nil => simp at hlen
          | cons a b => exact ⟨a, b, rfl⟩
        simp only [outItems, outMany, Raw.sec_text, e3, ho]

open DocSpec DocParse in
/-- **end to end**: a flat Markdown document (or nothing), then raw items, each followed by a flat Markdown document
    (or nothing) -/
theorem convertH_flat_many (first : Option (Doc × Spelling)) (items : List (Raw × Option (Doc × Spelling)))
    (hne : items ≠ []) (hfirst : flatOk first = true) (hitems : ∀ x ∈ items, x.1.OK ∧ flatOk x.2 = true) :
    PipelineH.convertH {} (srcBefore first ++ srcItems items) = .ok (outBefore first ++ outItems items) := by
  obtain ⟨A, hPA, a1, _, a3, _⟩ := flat_pieces_opt first hfirst
  obtain ⟨secs, hlen, hok, hs, ho⟩ := items_secs items hitems
  have hsne : secs ≠ [] := by
    intro e; rw [e] at hlen
    exact hne (List.length_eq_zero_iff.1 hlen.symm)
  rw [a1, a3, hs, ho]
  exact convertH_many {} escOK_generated phFree_generated rfl rfl (by decide) A hPA secs hsne hok

end MdVerif.C04Many
