/-
Lemmas for C05 on the extension model, well-formedness: `treeX_WF` — the tree handed to the serializer is `WF`
(attribute names pairwise distinct, void elements empty) and its root is the wrapper `div`, for every flag set without
admonition.  `treeX_WF_aux` (`Lemmas/VocabXWFPipe2.lean`) with its hypothesis discharged: the top-level children of a
parsed chunk have no truthy tail (`parseChunkXT_tails`, `Lemmas/VocabXWFBlock2.lean`).  Core Lean only.
-/
import MdVerif.Lemmas.VocabXWFPipe2
import MdVerif.Lemmas.VocabXWFBlock2

namespace MdVerif.VocabXWF
open Py PipelineX

/-- **the tree handed to the serializer**: `WF`, under the wrapper `div` (without attributes when attr_list is off) -/
theorem treeX_WF (x : Exts) (hadm : x.admonition = false) (cfg : Pipeline.Cfg) (src : Str) (u : Node)
    (html : List Str) (h : treeX x cfg src = .ok u html) :
    WF u ∧ u.tag = .name "div".toList ∧ (x.attrList = false → u.attrs = []) :=
  treeX_WF_aux x hadm cfg (fun log text n r e => parseChunkXT_tails x.tables x.blockCfg cfg.tab _ log text e)
    src u html h

end MdVerif.VocabXWF
