/-
Helper lemmas for `Props/C02Fn.lean`, part 7: `TocTreeprocessor.run` on a tree with the STX-token invariant `TokH.NodeS`
(every STX is followed by `k`, `w`, `q`, `z` or a complete escape token whose number is below 0x110000 and not 2) and
clean names — WITHOUT a hypothesis on the headings.

The serialisation of a heading is of the class `Z0c` (`Lemmas/C02FnZSer.lean`), `unescape` maps it into `Z3` (every
STX is followed by a letter or is dead: decimal digits up to a `"` or the end), which cutting, stripping, the
postprocessors, `strip_tags` and `escape` keep (`Lemmas/C02FnZOps.lean`) and which holds no bad token.  So the name,
the id and the label of every token are `Z3`, the `div.toc` holds no bad token, and `run` never answers `err`
(`run_Z`).  Core Lean only.
-/
import MdVerif.Lemmas.C02FnZSer
import MdVerif.Lemmas.C02FnZOps
import MdVerif.Lemmas.C02FnTocPre
import MdVerif.Lemmas.C02FnTocTree
import MdVerif.Lemmas.C02FnHAll

namespace MdVerif.C02TocZ
open Py TocTree C02BigNB C02Z C02Names

/-! ### from the token invariant to the classes -/

theorem tokTail_eq : ∀ (r : Str) (v : Nat), TokH.tokTail v r = C02Z.tokTail v r := by
  intro r
  induction r with
  | nil => intro v; rfl
  | cons c r ih =>
    intro v
    simp only [TokH.tokTail, C02Z.tokTail, ih]
    rfl

theorem tok_eq (r : Str) : TokH.tok r = tokS r := by
  cases r with
  | nil => rfl
  | cons c r => simp only [TokH.tok, tokS, tokTail_eq]

theorem hdGl_cons (c : Char) (r : Str) : hdGl (c :: r) = TokG.gl c := rfl

theorem gl_eq (c : Char) : TokH.gl c = TokG.gl c := rfl

theorem F0c_of_fol {r : Str} (h : TokH.fol r = true) : F0c r = true := by
  cases r with
  | nil => cases h
  | cons c r =>
    rw [TokH.fol_cons, tok_eq, gl_eq] at h
    simp only [F0c, hdGl_cons, Bool.or_eq_true] at h ⊢
    rcases h with h | h
    · exact Or.inl (Or.inl h)
    · exact Or.inl (Or.inr h)

theorem Z0c_of_SOk {s : Str} (h : TokH.SOk s = true) : Z0c s = true := by
  induction s with
  | nil => rfl
  | cons c r ih =>
    simp only [TokH.SOk, Bool.and_eq_true, Bool.or_eq_true] at h
    simp only [Z0c, Bool.and_eq_true, Bool.or_eq_true]
    refine ⟨?_, ih h.2⟩
    rcases h.1 with h1 | h1
    · exact Or.inl h1
    · exact Or.inr (F0c_of_fol h1)

theorem FA_of_folA {r : Str} (h : TokH.folA r = true) : FA r = true := by
  cases r with
  | nil => rfl
  | cons c r =>
    rw [TokH.folA_cons, tok_eq, gl_eq] at h
    simp only [FA, hdGl_cons, deadA, Bool.or_eq_true] at h ⊢
    exact h

theorem ZA_of_SOkA {s : Str} (h : TokH.SOkA s = true) : ZA s = true := by
  induction s with
  | nil => rfl
  | cons c r ih =>
    simp only [TokH.SOkA, Bool.and_eq_true, Bool.or_eq_true] at h
    simp only [ZA, Bool.and_eq_true, Bool.or_eq_true]
    refine ⟨?_, ih h.2⟩
    rcases h.1 with h1 | h1
    · exact Or.inl h1
    · exact Or.inr (FA_of_folA h1)

/-- the invariant of the tree handed to `TocTreeprocessor` -/
abbrev NodeH (n : Node) : Prop := NodeSN (fun s => TokH.SOk s = true) (fun s => TokH.SOkA s = true) n

theorem nodeH_iff (n : Node) : NodeH n ↔ TokH.NodeS n ∧ NamesOk n := Iff.rfl

mutual
theorem forallH_of : (t : Node) → t.Forall TokH.NodeS → t.Forall NamesOk → t.Forall NodeH
  | ⟨tag, attrs, text, ta, children, tail, tla⟩, h1, h2 => by
    simp only [Node.Forall] at h1 h2 ⊢
    exact ⟨⟨h1.1, h2.1⟩, forallHL_of children h1.2 h2.2⟩
theorem forallHL_of : (l : List Node) → Node.ForallL TokH.NodeS l → Node.ForallL NamesOk l → Node.ForallL NodeH l
  | [], _, _ => by simp [Node.ForallL]
  | c :: r, h1, h2 => by
    simp only [Node.ForallL] at h1 h2 ⊢
    exact ⟨forallH_of c h1.1 h2.1, forallHL_of r h1.2 h2.2⟩
end

theorem nodeZ_of_nodeH {n : Node} (h : NodeH n) : NodeZ n :=
  ⟨h.2.1, fun kv hkv => ⟨h.2.2 kv hkv, ZA_of_SOkA (h.1.2.2 kv hkv)⟩, Z0c_of_SOk h.1.1, Z0c_of_SOk h.1.2.1⟩

theorem nb_of_SOkA {s : Str} (h : TokH.SOkA s = true) : NB s := by
  intro hb
  have := TokH.unescapeText_sokA h
  rw [(TreeProc.C02_unescape_raises_iff s).2 hb] at this
  cases this

theorem nodeNB_of_nodeH {n : Node} (h : NodeH n) : NodeNB n :=
  ⟨nb_of_SOkA (TokH.SOkA_of_SOk h.1.1), nb_of_SOkA (TokH.SOkA_of_SOk h.1.2.1), fun kv hkv => nb_of_SOkA (h.1.2.2 kv hkv)⟩

/-- the serialisation of a heading after `remove_fnrefs` is of the class `Z0c` -/
theorem serialize_rmFn_Z0c (fmt : Ser.Fmt) {el : Node} (h : el.Forall NodeH) :
    Z0c (Ser.serialize fmt (rmFnNode el)) = true := by
  have h1 := rmFnNode_P (S := fun s => TokH.SOk s = true) (A := fun s => TokH.SOkA s = true) rfl
    (fun _ _ ha hb => TokH.SOk_append ha hb) el h
  exact Z0c_serialize fmt _ (Node.Forall.mono (fun _ hn => nodeZ_of_nodeH hn) _ h1)

/-! ### one heading -/

def ToksZ (toks : List Toc.Tok) : Prop := ∀ k ∈ toks, Z3 k.id = true ∧ Z3 k.name = true

theorem find?_value_P {P : Str → Prop} (hnil : P []) {attrs : List (Str × Str)} (h : ∀ kv ∈ attrs, P kv.2) (k : Str) :
    P (((attrs.find? (fun kv => kv.1 = k)).map (·.2)).getD []) := by
  cases hf : attrs.find? (fun kv => kv.1 = k) with
  | none => simpa using hnil
  | some kv => simpa using h kv (List.mem_of_find?_eq_some hf)

/-- `render_inner_html` of a heading whose serialisation is `Z0c`: `oof` (the postprocessors ran out of fuel) or a `Z3`
    string -/
theorem renderInner_Z {env : Env} (hpost : ∀ s o, env.post s = some o → Z3 s = true → Z3 o = true) {el : Node} {t : Str}
    (ht : el.tag = .name t) (hs : Z0c (Ser.serialize env.fmt el) = true) :
    renderInner env el = .oof ∨ ∃ inner, renderInner env el = .ok inner ∧ Z3 inner = true := by
  obtain ⟨m1, m2⟩ := Ser.serialize_name_mem env.fmt el t ht
  obtain ⟨text, hu, h3⟩ := unescape_Z0 (Z0_of_Z0c hs)
  have k1 : '>' ∈ text := TreeProc.unescapeText_mem (by decide) (by decide) (by decide) _ 0 text hu (by simp) m2
  have k2 : '<' ∈ text := TreeProc.unescapeText_mem (by decide) (by decide) (by decide) _ 0 text hu (by simp) m1
  unfold renderInner
  rw [hu]
  simp only
  cases hf : find ['>'] text with
  | none => exact absurd hf (mem_find_ne_none k1)
  | some s =>
    cases hr : Post.rfind ['<'] text with
    | none => exact absurd hr (mem_rfind_ne_none k2)
    | some e =>
      simp only
      have hmid : Z3 (strip ((text.take e).drop (s + 1))) = true := Z3_strip (Z3_drop (Z3_take h3 _) _)
      cases hp : env.post (strip ((text.take e).drop (s + 1))) with
      | none => exact Or.inl rfl
      | some r => exact Or.inr ⟨_, rfl, Z3_strip (hpost _ _ hp hmid)⟩

/-- **one heading**: `oof`, `ood`, or `ok` with attribute values free of bad tokens and a `Z3` token -/
theorem heading_Z {env : Env} (hpost : ∀ s o, env.post s = some o → Z3 s = true → Z3 o = true) {el : Node}
    (hh : isHeaderTag el.tag = true) (hel : el.Forall NodeH) (st : St) (hst : ToksZ st.toks) :
    heading env el st = .oof ∨ heading env el st = .ood ∨ ∃ attrs' st', heading env el st = .ok (attrs', st') ∧
      (∀ kv ∈ attrs', NB kv.2) ∧ ToksZ st'.toks := by
  obtain ⟨t, ht⟩ := isHeaderTag_name hh
  have hat : ∀ kv ∈ el.attrs, TokH.SOkA kv.2 = true := ((Node.forall_iff _ el).1 hel).1.1.2.2
  have hser := serialize_rmFn_Z0c env.fmt hel
  unfold heading
  rcases renderInner_Z hpost (el := rmFnNode el) (t := t) (by rw [rmFnNode_tag, ht]) hser with hri | ⟨inner, hri, hin⟩
  · left; rw [hri]
  · have hn0 : Z3 (stripTags inner) = true := Z3_stripTags hin
    rw [hri]
    simp only
    -- the id: old attribute values, or a new id without STX
    have hidr : C02Toc.idrOf el st (stripTags inner) = .ood ∨
        ∃ attrs used, C02Toc.idrOf el st (stripTags inner) = .ok (attrs, used) ∧
          ∀ kv ∈ attrs, ZA kv.2 = true := by
      unfold C02Toc.idrOf
      cases el.getAttr idKey with
      | some _ => exact Or.inr ⟨_, _, rfl, fun kv hkv => ZA_of_SOkA (hat kv hkv)⟩
      | none =>
        simp only
        cases hu : htmlUnescape 0 (stripTags inner) with
        | none => exact Or.inl rfl
        | some u =>
          simp only
          cases hsl : slugify u with
          | none => exact Or.inl rfl
          | some slug =>
            refine Or.inr ⟨_, _, rfl, ?_⟩
            intro kv hkv
            rcases List.mem_append.1 hkv with hkv | hkv
            · exact ZA_of_SOkA (hat kv hkv)
            · simp only [List.mem_singleton] at hkv
              subst hkv
              exact (Z_of_noSTX (C02Toc.unique_noSTX st.used (C02Toc.slugify_noSTX hsl))).2.2.2.2.1
    split
    · next hq =>
      exfalso
      have e : C02Toc.idrOf el st (stripTags inner) = .oof := hq
      rcases hidr with h | ⟨_, _, h, _⟩ <;> rw [h] at e <;> cases e
    · next hq =>
      exfalso
      have e : C02Toc.idrOf el st (stripTags inner) = .err := hq
      rcases hidr with h | ⟨_, _, h, _⟩ <;> rw [h] at e <;> cases e
    · exact Or.inr (Or.inl rfl)
    · next attrs used hq =>
      have e : C02Toc.idrOf el st (stripTags inner) = .ok (attrs, used) := hq
      have hattrs : ∀ kv ∈ attrs, ZA kv.2 = true := by
        rcases hidr with h | ⟨a, u, h, ha⟩
        · rw [h] at e; cases e
        · rw [h] at e
          simp only [R.ok.injEq, Prod.mk.injEq] at e
          rw [← e.1]; exact ha
      have hnb : ∀ {l : List (Str × Str)}, (∀ kv ∈ l, ZA kv.2 = true) → ∀ kv ∈ l, NB kv.2 :=
        fun hl kv hkv => Z0_NB (Z0_of_ZA (hl kv hkv))
      have hidv : ZA (((attrs.find? (fun kv => kv.1 = idKey)).map (·.2)).getD []) = true :=
        find?_value_P (P := fun s => ZA s = true) rfl hattrs idKey
      cases hf : (attrs.find? (fun kv => kv.1 = labelKey)).map (·.2) with
      | none =>
        simp only
        obtain ⟨tid, htid, h3⟩ := unescape_Z0 (Z0_of_ZA hidv)
        rw [htid]
        refine Or.inr (Or.inr ⟨_, _, rfl, hnb hattrs, ?_⟩)
        intro k hk
        rcases List.mem_append.1 hk with hk | hk
        · exact hst k hk
        · simp only [List.mem_singleton] at hk
          subst hk
          exact ⟨h3, hn0⟩
      | some lbl =>
        have hlbl : ZA lbl = true := by
          have := find?_value_P (P := fun s => ZA s = true) rfl hattrs labelKey
          rw [hf] at this
          simpa using this
        simp only
        obtain ⟨u, hu, hu3⟩ := unescape_Z0 (Z0_of_ZA hlbl)
        rw [hu]
        simp only
        cases hp : env.post u with
        | none => exact Or.inl rfl
        | some l =>
          simp only
          have hl3 : Z3 l = true := hpost _ _ hp hu3
          have hdel : ∀ kv ∈ attrDel attrs labelKey, ZA kv.2 = true := fun kv hkv =>
            hattrs kv (List.mem_filter.1 hkv).1
          have hidv' : ZA ((((attrDel attrs labelKey).find? (fun kv => kv.1 = idKey)).map (·.2)).getD []) = true :=
            find?_value_P (P := fun s => ZA s = true) rfl hdel idKey
          obtain ⟨tid, htid, h3⟩ := unescape_Z0 (Z0_of_ZA hidv')
          rw [htid]
          refine Or.inr (Or.inr ⟨_, _, rfl, hnb hdel, ?_⟩)
          intro k hk
          rcases List.mem_append.1 hk with hk | hk
          · exact hst k hk
          · simp only [List.mem_singleton] at hk
            subst hk
            exact ⟨h3, Z3_escCdata (Z3_stripTags (Z3_strip hl3))⟩

/-! ### the walk -/

mutual
theorem walkNode_Z {env : Env} (hpost : ∀ s o, env.post s = some o → Z3 s = true → Z3 o = true) :
    ∀ (n : Node) (st : St), n.Forall NodeH → ToksZ st.toks →
      walkNode env n st = .oof ∨ walkNode env n st = .ood ∨ ∃ n' st', walkNode env n st = .ok (n', st') ∧
        n'.Forall NodeNB ∧ ToksZ st'.toks
  | ⟨tag, attrs, text, ta, children, tail, tla⟩, st, hn, hst => by
    have hn' := hn
    simp only [Node.Forall] at hn
    unfold walkNode
    have hhr : (if isHeaderTag tag then heading env ⟨tag, attrs, text, ta, children, tail, tla⟩ st
          else (R.ok (attrs, st) : R (List (Str × Str) × St))) = .oof ∨
        (if isHeaderTag tag then heading env ⟨tag, attrs, text, ta, children, tail, tla⟩ st
          else (R.ok (attrs, st) : R (List (Str × Str) × St))) = .ood ∨
        ∃ attrs' st1, (if isHeaderTag tag then heading env ⟨tag, attrs, text, ta, children, tail, tla⟩ st
          else (R.ok (attrs, st) : R (List (Str × Str) × St))) = .ok (attrs', st1) ∧
          (∀ kv ∈ attrs', NB kv.2) ∧ ToksZ st1.toks := by
      cases hh : isHeaderTag tag with
      | false =>
        simp only [Bool.false_eq_true, if_false]
        exact Or.inr (Or.inr ⟨attrs, st, rfl, (nodeNB_of_nodeH hn.1).2.2, hst⟩)
      | true =>
        simp only [if_true]
        exact heading_Z hpost (el := ⟨tag, attrs, text, ta, children, tail, tla⟩) hh hn' st hst
    rcases hhr with hoof | hood | ⟨attrs', st1, hok, hattrs', hst1⟩
    · left; rw [hoof]
    · right; left; rw [hood]
    · rw [hok]
      simp only
      rcases walkKids_Z hpost children st1 hn.2 hst1 with hk | hk | ⟨ks, st2, hk, hks, hst2⟩
      · left; rw [hk]
      · right; left; rw [hk]
      · right; right
        rw [hk]
        refine ⟨_, _, rfl, ?_, hst2⟩
        simp only [Node.Forall]
        have hb := nodeNB_of_nodeH hn.1
        exact ⟨⟨hb.1, hb.2.1, hattrs'⟩, hks⟩
theorem walkKids_Z {env : Env} (hpost : ∀ s o, env.post s = some o → Z3 s = true → Z3 o = true) :
    ∀ (l : List Node) (st : St), Node.ForallL NodeH l → ToksZ st.toks →
      walkKids env l st = .oof ∨ walkKids env l st = .ood ∨ ∃ l' st', walkKids env l st = .ok (l', st') ∧
        Node.ForallL NodeNB l' ∧ ToksZ st'.toks
  | [], st, _, hst => by
    right; right
    exact ⟨[], st, by simp [walkKids], by simp [Node.ForallL], hst⟩
  | c :: r, st, hn, hst => by
    simp only [Node.ForallL] at hn
    unfold walkKids
    rcases walkNode_Z hpost c st hn.1 hst with h | h | ⟨c', st1, h, hc', hst1⟩
    · left; rw [h]
    · right; left; rw [h]
    · rw [h]
      simp only
      rcases walkKids_Z hpost r st1 hn.2 hst1 with hk | hk | ⟨r', st2, hk, hr', hst2⟩
      · left; rw [hk]
      · right; left; rw [hk]
      · right; right
        rw [hk]
        exact ⟨_, _, rfl, by simp only [Node.ForallL]; exact ⟨hc', hr'⟩, hst2⟩
end

/-! ### the `div.toc` -/

theorem badToken_cons {c : Char} {s : Str} (hc : c ≠ TreeProc.STX) (h : C02Big.BadToken (c :: s)) : C02Big.BadToken s := by
  obtain ⟨pre, d, post, e, h1, h2, h3⟩ := h
  cases pre with
  | nil =>
    simp only [List.nil_append, List.cons.injEq] at e
    exact absurd e.1 hc
  | cons p pre =>
    simp only [List.cons_append, List.cons.injEq] at e
    exact ⟨pre, d, post, e.2, h1, h2, h3⟩

theorem badToken_concat {c : Char} {s : Str} (hc : c ≠ TreeProc.ETX) (h : C02Big.BadToken (s ++ [c])) :
    C02Big.BadToken s := by
  obtain ⟨pre, d, post, e, h1, h2, h3⟩ := h
  rcases List.eq_nil_or_concat post with rfl | ⟨post', x, rfl⟩
  · exfalso
    have e' : s ++ [c] = (pre ++ TreeProc.STX :: d) ++ [TreeProc.ETX] := by rw [e]; simp
    have := List.append_inj_right' e' rfl
    simp only [List.cons.injEq, and_true] at this
    exact hc this
  · have e' : s ++ [c] = (pre ++ TreeProc.STX :: (d ++ TreeProc.ETX :: post')) ++ [x] := by
      rw [e]; simp [List.concat_eq_append]
    have := List.append_inj_left' e' rfl
    exact ⟨pre, d, post', this, h1, h2, h3⟩

theorem prClass_NB : PrClass NB where
  nl := nb_of_noSTX (by decide)
  nil := nb_nil
  cons_nl := fun _ h hb => h (badToken_cons (by decide) hb)
  rstrip_nl := fun s h hb => by
    have h1 := badToken_concat (by decide) hb
    obtain ⟨w, hw, _⟩ := rstripP_decomp isSpace s
    exact h (badToken_infix h1 ⟨[], w, by rw [List.nil_append]; exact hw.symm⟩)

theorem nodeNB_eq (n : Node) : NodeNB n ↔ NodeP NB NB n := Iff.rfl

mutual
theorem buildLi_NB : (t : Toc.TokTree) → (∀ k ∈ t.flatten, Z3 k.id = true ∧ Z3 k.name = true) →
    (buildLi t).Forall NodeNB
  | .mk t cs, h => by
    have ht := h t (by simp [Toc.TokTree.flatten])
    have hcs : ∀ k ∈ Toc.flattenList cs, Z3 k.id = true ∧ Z3 k.name = true := fun k hk =>
      h k (by simp [Toc.TokTree.flatten, hk])
    have ha : ({ TocTree.el "a" with text := some t.name, attrs := [("href".toList, '#' :: t.id)] } : Node).Forall NodeNB := by
      rw [Node.forall_iff]
      refine ⟨⟨Z3_NB ht.2, nb_nil, ?_⟩, fun c hc => by cases hc⟩
      intro kv hkv
      simp only [List.mem_singleton] at hkv
      subst hkv
      intro hb
      exact Z3_NB ht.1 (badToken_cons (by decide) hb)
    unfold buildLi
    rw [Node.forall_iff]
    refine ⟨⟨nb_nil, nb_nil, fun _ h => by cases h⟩, ?_⟩
    intro c hc
    simp only [List.mem_cons] at hc
    rcases hc with rfl | hc
    · exact ha
    · cases cs with
      | nil => cases hc
      | cons c0 cs0 =>
        simp only [List.mem_singleton] at hc
        subst hc
        rw [Node.forall_iff]
        exact ⟨⟨nb_nil, nb_nil, fun _ h => by cases h⟩, (Node.forallL_iff _ _).1 (buildLis_NB (c0 :: cs0) hcs)⟩
theorem buildLis_NB : (cs : List Toc.TokTree) → (∀ k ∈ Toc.flattenList cs, Z3 k.id = true ∧ Z3 k.name = true) →
    Node.ForallL NodeNB (buildLis cs)
  | [], _ => by simp [buildLis, Node.ForallL]
  | c :: r, h => by
    simp only [buildLis, Node.ForallL]
    exact ⟨buildLi_NB c (fun k hk => h k (by simp [Toc.flattenList, hk])),
      buildLis_NB r (fun k hk => h k (by simp [Toc.flattenList, hk]))⟩
end

theorem buildDiv_NB_Z (bl : List Str) {toks : List Toc.Tok} (h : ToksZ toks) : (buildDiv bl toks).Forall NodeNB := by
  unfold buildDiv
  refine prettify_P (P := NB) (A := NB) prClass_NB ?_ bl
  rw [Node.forall_iff]
  refine ⟨⟨nb_nil, nb_nil, ?_⟩, ?_⟩
  · intro kv hkv
    simp only [List.mem_singleton] at hkv
    subst hkv
    exact nb_of_noSTX (by decide)
  · intro c hc
    simp only [List.mem_singleton] at hc
    subst hc
    unfold buildUl
    rw [Node.forall_iff]
    refine ⟨⟨nb_nil, nb_nil, fun _ h => by cases h⟩, ?_⟩
    refine (Node.forallL_iff _ _).1 (buildLis_NB _ ?_)
    rw [Toc.nestToc_flatten]
    exact h

/-- **`TocTreeprocessor.run` on a tree with the STX-token invariant and clean names**: never `err` -/
theorem run_Z {env : Env} (hpost : ∀ s o, env.post s = some o → Z3 s = true → Z3 o = true) (bl : List Str)
    (root : Node) (hn : root.Forall NodeH) :
    run env bl root = .oof ∨ run env bl root = .ood ∨ ∃ t', run env bl root = .ok t' ∧ t'.Forall NodeNB := by
  have hnb : root.Forall NodeNB := Node.Forall.mono (fun _ h => nodeNB_of_nodeH h) root hn
  unfold run
  cases hu : usedIds (idsOf root) with
  | none => exact absurd hu (C02Toc.usedIds_NB _ (C02Toc.idsOf_NB root hnb))
  | some used =>
    simp only
    rcases walkNode_Z hpost root { used := used, toks := [] } hn (by intro k hk; cases hk) with
      h | h | ⟨r', st', h, hr', hst'⟩
    · left; rw [h]
    · right; left; rw [h]
    · right; right
      rw [h]
      exact ⟨_, rfl, C02Toc.replNode_NB (buildDiv_NB_Z bl hst') r' hr'⟩

end MdVerif.C02TocZ
