/-
Helper lemmas for C10 (`Props/C10.lean`), part 1: `NoCtl`, `Node.Forall`, token structure and the `WF` predicate.
Core Lean only.
-/
import MdVerif.Spec.NoCtl
import MdVerif.Lemmas.PyBasic

namespace MdVerif.NoCtl
open Py

/-! ### `NoCtl` -/

theorem noCtl_iff {s : Str} : NoCtl s ↔ ∀ c ∈ s, c ≠ STX ∧ c ≠ ETX := by
  unfold NoCtl
  constructor
  · rintro ⟨h1, h2⟩ c hc
    exact ⟨fun e => h1 (e ▸ hc), fun e => h2 (e ▸ hc)⟩
  · intro h
    exact ⟨fun hc => (h _ hc).1 rfl, fun hc => (h _ hc).2 rfl⟩

@[simp] theorem noCtl_nil : NoCtl [] := by simp [NoCtl]

theorem noCtl_cons {c : Char} {s : Str} : NoCtl (c :: s) ↔ (c ≠ STX ∧ c ≠ ETX) ∧ NoCtl s := by
  simp only [noCtl_iff, List.mem_cons, forall_eq_or_imp]

theorem noCtl_append {a b : Str} : NoCtl (a ++ b) ↔ NoCtl a ∧ NoCtl b := by
  simp only [noCtl_iff, List.mem_append]
  constructor
  · intro h; exact ⟨fun c hc => h c (.inl hc), fun c hc => h c (.inr hc)⟩
  · rintro ⟨h1, h2⟩ c (hc | hc)
    · exact h1 c hc
    · exact h2 c hc

theorem NoCtl.subset {a b : Str} (h : NoCtl b) (hs : ∀ c ∈ a, c ∈ b) : NoCtl a :=
  noCtl_iff.2 fun c hc => noCtl_iff.1 h c (hs c hc)

theorem NoCtl.take {s : Str} (h : NoCtl s) (n : Nat) : NoCtl (s.take n) := h.subset fun _ hc => List.mem_of_mem_take hc
theorem NoCtl.drop {s : Str} (h : NoCtl s) (n : Nat) : NoCtl (s.drop n) := h.subset fun _ hc => List.mem_of_mem_drop hc
theorem NoCtl.infix {a s : Str} (h : NoCtl s) (hi : a <:+: s) : NoCtl a := h.subset fun _ hc => hi.subset hc
theorem NoCtl.strip {s : Str} (h : NoCtl s) : NoCtl (strip s) := h.infix (strip_infix s)

theorem noCtl_of_lit (s : Str) (h : s.all (fun c => c != STX && c != ETX) = true) : NoCtl s := by
  rw [noCtl_iff]
  intro c hc
  have := List.all_eq_true.1 h c hc
  simpa using this

/-! ### `Node.Forall` -/

theorem _root_.MdVerif.Node.forall_def (P : Node → Prop) (n : Node) : n.Forall P ↔ P n ∧ Node.ForallL P n.children := by
  cases n; simp [Node.Forall]

theorem _root_.MdVerif.Node.forallL_iff (P : Node → Prop) (l : List Node) : Node.ForallL P l ↔ ∀ c ∈ l, c.Forall P := by
  induction l with
  | nil => simp [Node.ForallL]
  | cons c r ih => simp [Node.ForallL, ih]

theorem _root_.MdVerif.Node.forall_iff (P : Node → Prop) (n : Node) :
    n.Forall P ↔ P n ∧ ∀ c ∈ n.children, c.Forall P := by
  rw [Node.forall_def, Node.forallL_iff]

mutual
theorem _root_.MdVerif.Node.Forall.mono {P Q : Node → Prop} (h : ∀ n, P n → Q n) : ∀ n : Node, n.Forall P → n.Forall Q
  | ⟨tag, attrs, text, ta, children, tail, tla⟩ => by
    simp only [Node.Forall]
    exact fun ⟨h1, h2⟩ => ⟨h _ h1, Node.ForallL.mono h children h2⟩
theorem _root_.MdVerif.Node.ForallL.mono {P Q : Node → Prop} (h : ∀ n, P n → Q n) :
    ∀ l : List Node, Node.ForallL P l → Node.ForallL Q l
  | [] => by simp [Node.ForallL]
  | c :: r => by
    simp only [Node.ForallL]
    exact fun ⟨h1, h2⟩ => ⟨Node.Forall.mono h c h1, Node.ForallL.mono h r h2⟩
end

/-! ### tokens -/

/-- STX, inner characters, ETX -/
def IsTok (t : Str) : Prop := ∃ body : Str, t = STX :: body ++ [ETX] ∧ ∀ c ∈ body, inner c = true

theorem inner_digit {c : Char} (h : isAsciiDigit c = true) : inner c = true := by simp [inner, h]

theorem isTok_placeholder (i : Nat) : IsTok (Inline.placeholder i) := by
  refine ⟨"klzzwxh:".toList ++ pad4 i, ?_, ?_⟩
  · simp [Inline.placeholder, Inline.phPrefix]
  · intro c hc
    rcases List.mem_append.1 hc with h | h
    · clear hc; revert c; decide
    · exact inner_digit (pad4_digits i c h)

theorem isTok_escToken (v : Nat) : IsTok (escToken v) :=
  ⟨natToDec v, rfl, fun c hc => inner_digit (natToDec_digits v c hc)⟩

theorem inner_ne {c : Char} (h : inner c = true) : c ≠ STX ∧ c ≠ ETX := by
  constructor <;> rintro rfl <;> revert h <;> decide

/-- a boundary between `a` and `b` cannot lie strictly inside a token -/
def Bnd (a b : Str) : Prop :=
  (∀ c, b.head? = some c → inner c = false ∧ c ≠ ETX) ∨ (∀ c, a.getLast? = some c → inner c = false ∧ c ≠ STX)

theorem bnd_nil_left (b : Str) : Bnd [] b := .inr (by simp)
theorem bnd_nil_right (a : Str) : Bnd a [] := .inl (by simp)
theorem bnd_cons_right (a : Str) {c : Char} (b : Str) (h1 : inner c = false) (h2 : c ≠ ETX) : Bnd a (c :: b) :=
  .inl (by simp; exact ⟨h1, h2⟩)
theorem bnd_snoc_left (a : Str) {c : Char} (b : Str) (h1 : inner c = false) (h2 : c ≠ STX) : Bnd (a ++ [c]) b :=
  .inr (by simp; exact ⟨h1, h2⟩)

theorem tok_split {t a b : Str} (ht : IsTok t) (h : t = a ++ b) (ha : a ≠ []) (hb : b ≠ []) : ¬ Bnd a b := by
  obtain ⟨body, rfl, hbody⟩ := ht
  -- a = STX :: a', b = b' ++ [ETX], body = a' ++ b'
  cases a with
  | nil => exact absurd rfl ha
  | cons x a' =>
    simp only [List.cons_append, List.cons.injEq] at h
    obtain ⟨rfl, h⟩ := h
    rcases List.eq_nil_or_concat b with rfl | ⟨b', y, rfl⟩
    · exact absurd rfl hb
    · simp only [List.concat_eq_append] at h ⊢
      rw [← List.append_assoc] at h
      have h' := List.append_inj_left' h rfl
      have hy := List.append_inj_right' h rfl
      simp only [List.cons.injEq, and_true] at hy
      subst hy
      subst h'
      rintro (hbd | hbd)
      · cases b' with
        | nil => exact (hbd ETX (by simp)).2 rfl
        | cons z b'' =>
          have := (hbd z (by simp)).1
          rw [hbody z (by simp)] at this; cases this
      · rcases List.eq_nil_or_concat a' with rfl | ⟨a'', z, rfl⟩
        · exact (hbd STX (by simp)).2 rfl
        · have := (hbd z (by rw [List.concat_eq_append, ← List.cons_append, List.getLast?_concat])).1
          rw [hbody z (by simp)] at this; cases this


/-! ### `WF` -/

theorem WF.mono {esc esc' : Bool} {k k' : Nat} (hk : k ≤ k') (he : esc = true → esc' = true) {s : Str}
    (h : WF esc k s) : WF esc' k' s := by
  induction h with
  | nil => exact .nil
  | plain c s h1 h2 _ ih => exact .plain c s h1 h2 ih
  | ph i s hi _ ih => exact .ph i s (by omega) ih
  | tok v s hE hv _ ih => exact .tok v s (he hE) hv ih

theorem WF.append {esc : Bool} {k : Nat} {a b : Str} (ha : WF esc k a) (hb : WF esc k b) : WF esc k (a ++ b) := by
  induction ha with
  | nil => exact hb
  | plain c s h1 h2 _ ih => exact .plain c _ h1 h2 ih
  | ph i s hi _ ih => rw [List.append_assoc]; exact .ph i _ hi ih
  | tok v s hE hv _ ih => rw [List.append_assoc]; exact .tok v _ hE hv ih

theorem WF.of_noCtl {esc : Bool} {k : Nat} {s : Str} (h : NoCtl s) : WF esc k s := by
  induction s with
  | nil => exact .nil
  | cons c s ih =>
    obtain ⟨⟨h1, h2⟩, h3⟩ := noCtl_cons.1 h
    exact .plain c s h1 h2 (ih h3)

theorem wf_placeholder {esc : Bool} {k i : Nat} (h : i < k) : WF esc k (Inline.placeholder i) := by
  have := WF.ph (esc := esc) i [] h .nil
  simpa using this

theorem wf_escToken {k v : Nat} (h : okCode v) : WF true k (escToken v) := by
  have := WF.tok (k := k) v [] rfl h .nil
  simpa using this

theorem noCtl_of_wf {s : Str} (h : WF false 0 s) : NoCtl s := by
  induction h with
  | nil => exact noCtl_nil
  | plain c s h1 h2 _ ih => exact noCtl_cons.2 ⟨⟨h1, h2⟩, ih⟩
  | ph i s hi _ _ => omega
  | tok v s hE _ _ _ => cases hE

theorem wf_false_zero_iff {s : Str} : WF false 0 s ↔ NoCtl s := ⟨noCtl_of_wf, WF.of_noCtl⟩

/-- what a token followed by `s` looks like when cut at a boundary -/
theorem tok_append_split {t s a b : Str} (ht : IsTok t) (h : t ++ s = a ++ b) (hb : Bnd a b) :
    a = [] ∨ ∃ a', a = t ++ a' ∧ s = a' ++ b ∧ (a' = [] ∨ Bnd a' b) := by
  rcases List.append_eq_append_iff.1 h with ⟨a', rfl, rfl⟩ | ⟨c', rfl, rfl⟩
  · right
    refine ⟨a', rfl, rfl, ?_⟩
    by_cases ha' : a' = []
    · exact .inl ha'
    · right
      rcases hb with hb | hb
      · exact .inl hb
      · right
        intro c hc
        apply hb c
        rw [List.getLast?_append, hc]; rfl
  · by_cases ha : a = []
    · exact .inl ha
    · by_cases hc' : c' = []
      · subst hc'
        right
        exact ⟨[], by simp, by simp, .inl rfl⟩
      · exfalso
        refine tok_split ht rfl ha hc' ?_
        rcases hb with hb | hb
        · left
          intro c hc
          apply hb c
          cases c' with
          | nil => exact absurd rfl hc'
          | cons x r => simpa using hc
        · exact .inr hb

theorem WF.split_aux {esc : Bool} {k : Nat} {s : Str} (h : WF esc k s) :
    ∀ a b, s = a ++ b → Bnd a b → WF esc k a ∧ WF esc k b := by
  induction h with
  | nil =>
    intro a b h _
    have := List.append_eq_nil_iff.1 h.symm
    rw [this.1, this.2]; exact ⟨.nil, .nil⟩
  | plain c s h1 h2 hs ih =>
    intro a b h hb
    cases a with
    | nil => simp only [List.nil_append] at h; subst h; exact ⟨.nil, .plain c s h1 h2 hs⟩
    | cons x a' =>
      simp only [List.cons_append, List.cons.injEq] at h
      obtain ⟨rfl, rfl⟩ := h
      by_cases ha' : a' = []
      · subst ha'; exact ⟨.plain c [] h1 h2 .nil, by simpa using hs⟩
      · have hb' : Bnd a' b := by
          rcases hb with hb | hb
          · exact .inl hb
          · right
            intro y hy
            apply hb y
            cases a' with
            | nil => exact absurd rfl ha'
            | cons z r => rw [List.getLast?_cons_cons]; exact hy
        obtain ⟨w1, w2⟩ := ih a' b rfl hb'
        exact ⟨.plain c a' h1 h2 w1, w2⟩
  | ph i s hi hs ih =>
    intro a b h hb
    rcases tok_append_split (isTok_placeholder i) h hb with rfl | ⟨a', rfl, rfl, ha'⟩
    · simp only [List.nil_append] at h; subst h; exact ⟨.nil, .ph i s hi hs⟩
    · rcases ha' with rfl | ha'
      · exact ⟨by simpa using wf_placeholder hi, by simpa using hs⟩
      · obtain ⟨w1, w2⟩ := ih a' b rfl ha'
        exact ⟨.ph i a' hi w1, w2⟩
  | tok v s hE hv hs ih =>
    intro a b h hb
    rcases tok_append_split (isTok_escToken v) h hb with rfl | ⟨a', rfl, rfl, ha'⟩
    · simp only [List.nil_append] at h; subst h; exact ⟨.nil, .tok v s hE hv hs⟩
    · rcases ha' with rfl | ha'
      · subst hE; exact ⟨by simpa using wf_escToken hv, by simpa using hs⟩
      · obtain ⟨w1, w2⟩ := ih a' b rfl ha'
        exact ⟨.tok v a' hE hv w1, w2⟩

theorem WF.split {esc : Bool} {k : Nat} {a b : Str} (h : WF esc k (a ++ b)) (hb : Bnd a b) :
    WF esc k a ∧ WF esc k b := h.split_aux a b rfl hb


/-! ### `DomS` -/

@[simp] theorem domS_nil (esc : Bool) : DomS esc [] := by simp [DomS]

theorem domS_cons {esc : Bool} {c : Char} {s : Str} : DomS esc (c :: s) ↔ domChar esc c = true ∧ DomS esc s := by
  simp [DomS]

theorem domS_append {esc : Bool} {a b : Str} : DomS esc (a ++ b) ↔ DomS esc a ∧ DomS esc b := by
  simp only [DomS, List.mem_append]
  constructor
  · intro h; exact ⟨fun c hc => h c (.inl hc), fun c hc => h c (.inr hc)⟩
  · rintro ⟨h1, h2⟩ c (hc | hc)
    · exact h1 c hc
    · exact h2 c hc

theorem DomS.subset {esc : Bool} {a b : Str} (h : DomS esc b) (hs : ∀ c ∈ a, c ∈ b) : DomS esc a :=
  fun c hc => h c (hs c hc)

theorem DomS.take {esc : Bool} {s : Str} (h : DomS esc s) (n : Nat) : DomS esc (s.take n) :=
  h.subset fun _ hc => List.mem_of_mem_take hc
theorem DomS.drop {esc : Bool} {s : Str} (h : DomS esc s) (n : Nat) : DomS esc (s.drop n) :=
  h.subset fun _ hc => List.mem_of_mem_drop hc

theorem domChar_inner {esc : Bool} {c : Char} (h : inner c = true) : domChar esc c = true := by
  simp only [inner, Bool.or_eq_true] at h
  rcases h with h | h
  · have h1 : '0' ≤ c ∧ c ≤ '9' := by simpa [isAsciiDigit] using h
    have h2 : 48 ≤ c.toNat ∧ c.toNat ≤ 57 := by
      constructor
      · exact h1.1
      · exact h1.2
    have : ∀ d : Char, 48 ≤ d.toNat → d.toNat ≤ 57 → domChar esc d = true := by
      intro d hd1 hd2
      have : d ≠ '<' ∧ d ≠ '&' ∧ d ≠ '[' ∧ d ≠ ']' ∧ d ≠ '`' ∧ d ≠ '\\' ∧ d ≠ '>' := by
        refine ⟨?_, ?_, ?_, ?_, ?_, ?_, ?_⟩ <;> (rintro rfl; revert hd1 hd2; decide)
      cases esc <;> simp [domChar, this]
    exact this c h2.1 h2.2
  · have hm : c ∈ ['k', 'l', 'z', 'w', 'x', 'h', ':'] := by simpa using h
    simp only [List.mem_cons, List.not_mem_nil, or_false] at hm
    rcases hm with rfl | rfl | rfl | rfl | rfl | rfl | rfl <;> cases esc <;> decide

theorem domChar_stx (esc : Bool) : domChar esc STX = true := by cases esc <;> decide
theorem domChar_etx (esc : Bool) : domChar esc ETX = true := by cases esc <;> decide

theorem domS_tok {esc : Bool} {t : Str} (h : IsTok t) : DomS esc t := by
  obtain ⟨body, rfl, hb⟩ := h
  intro c hc
  simp only [List.cons_append, List.mem_cons, List.mem_append, List.not_mem_nil, or_false] at hc
  rcases hc with rfl | hc | rfl
  · exact domChar_stx esc
  · exact domChar_inner (hb c hc)
  · exact domChar_etx esc

theorem domS_placeholder (esc : Bool) (i : Nat) : DomS esc (Inline.placeholder i) := domS_tok (isTok_placeholder i)
theorem domS_escToken (esc : Bool) (v : Nat) : DomS esc (escToken v) := domS_tok (isTok_escToken v)


section
open Inline
/-! ### searching placeholders in a well-formed string -/

theorem placeholder_eq (i : Nat) : placeholder i = phPrefix ++ (pad4 i ++ [ETX]) := by
  simp [placeholder]

theorem phPrefix_eq : phPrefix = STX :: ['k', 'l', 'z', 'z', 'w', 'x', 'h', ':'] := by decide

theorem startsWith_placeholder (i : Nat) (s : Str) : startsWith (placeholder i ++ s) phPrefix = true := by
  rw [placeholder_eq, List.append_assoc]; exact startsWith_append _ _

theorem find_skip {p0 : Char} {pat a : Str} (ha : ∀ c ∈ a, c ≠ p0) (s : Str) :
    find (p0 :: pat) (a ++ s) = (find (p0 :: pat) s).map (· + a.length) := by
  induction a with
  | nil => simp
  | cons c a ih =>
    have hc : c ≠ p0 := ha c (by simp)
    rw [List.cons_append, find_cons]
    simp only [startsWith_cons_cons, hc, decide_false, Bool.false_and, Bool.false_eq_true, if_false]
    rw [ih (fun d hd => ha d (by simp [hd]))]
    cases find (p0 :: pat) s <;> simp <;> omega

theorem natToDec_cons (v : Nat) : ∃ d r, natToDec v = d :: r ∧ isAsciiDigit d = true := by
  cases h : natToDec v with
  | nil => exact absurd h (natToDec_ne_nil v)
  | cons d r => exact ⟨d, r, rfl, natToDec_digits v d (by simp [h])⟩

theorem find_ph_escToken (v : Nat) (s : Str) :
    find phPrefix (escToken v ++ s) = (find phPrefix s).map (· + (escToken v).length) := by
  obtain ⟨d, r, hd, hdig⟩ := natToDec_cons v
  have hne : ∀ c ∈ natToDec v ++ [ETX], c ≠ STX := by
    intro c hc
    rcases List.mem_append.1 hc with h | h
    · exact (inner_ne (inner_digit (natToDec_digits v c h))).1
    · simp at h; subst h; decide
  have h1 : escToken v ++ s = STX :: ((natToDec v ++ [ETX]) ++ s) := by simp [escToken]
  rw [h1, phPrefix_eq, find_cons]
  have : startsWith (STX :: (natToDec v ++ [ETX] ++ s)) (STX :: ['k', 'l', 'z', 'z', 'w', 'x', 'h', ':']) = false := by
    rw [hd]
    simp only [List.cons_append, startsWith_cons_cons]
    have : d ≠ 'k' := by rintro rfl; revert hdig; decide
    simp [this]
  rw [this]
  simp only [Bool.false_eq_true, if_false]
  rw [find_skip hne]
  simp only [escToken, List.length_cons, List.length_append, List.length_nil]
  cases find (STX :: ['k', 'l', 'z', 'z', 'w', 'x', 'h', ':']) s <;> simp <;> omega

/-- the first occurrence of the placeholder prefix in a well-formed string is a placeholder; nothing before it is -/
theorem find_ph_wf {esc : Bool} {k : Nat} {s : Str} (h : WF esc k s) :
    (find phPrefix s = none ∧ WF esc 0 s) ∨
    ∃ pre i rest, s = pre ++ (placeholder i ++ rest) ∧ find phPrefix s = some pre.length ∧ WF esc 0 pre ∧ i < k ∧
      WF esc k rest := by
  induction h with
  | nil => left; exact ⟨by decide, .nil⟩
  | plain c s h1 h2 _ ih =>
    have hsw : startsWith (c :: s) phPrefix = false := by
      rw [phPrefix_eq, startsWith_cons_cons]; simp [h1]
    rw [find_cons, hsw]
    rcases ih with ⟨hn, hw⟩ | ⟨pre, i, rest, rfl, hf, hw, hi, hr⟩
    · left; exact ⟨by simp [hn], .plain c s h1 h2 hw⟩
    · right
      refine ⟨c :: pre, i, rest, rfl, by simp [hf], .plain c pre h1 h2 hw, hi, hr⟩
  | ph i s hi hs _ =>
    right
    refine ⟨[], i, s, rfl, ?_, .nil, hi, hs⟩
    cases hps : placeholder i ++ s with
    | nil => simp [placeholder] at hps
    | cons c r => rw [find_cons, ← hps, startsWith_placeholder]; rfl
  | tok v s hE hv _ ih =>
    rw [find_ph_escToken]
    rcases ih with ⟨hn, hw⟩ | ⟨pre, i, rest, rfl, hf, hw, hi, hr⟩
    · left; exact ⟨by simp [hn], .tok v s hE hv hw⟩
    · right
      refine ⟨escToken v ++ pre, i, rest, by simp, by simp [hf]; omega, .tok v pre hE hv hw, hi, hr⟩

theorem phAt_pad4 (i : Nat) (s : Str) : phAt (pad4 i ++ ETX :: s) = some (pad4 i, (pad4 i).length + 1) := by
  have hall : (pad4 i).all isAsciiDigit = true := List.all_eq_true.2 (pad4_digits i)
  have hsp : spanLen isAsciiDigit (pad4 i ++ ETX :: s) = (pad4 i).length := by
    rw [spanLen_append_of_all hall]; simp [spanLen_cons]; decide
  have hpos : 0 < (pad4 i).length := by have := pad4_length i; omega
  simp only [phAt, hsp]
  simp [hpos]

theorem findPhScan_placeholder (i : Nat) (s : Str) (idx : Nat) :
    findPhScan (placeholder i ++ s) idx = some (pad4 i, idx + (placeholder i).length) := by
  have h1 : placeholder i ++ s = STX :: (['k', 'l', 'z', 'z', 'w', 'x', 'h', ':'] ++ (pad4 i ++ ETX :: s)) := by
    simp [placeholder, phPrefix_eq]
  rw [h1, findPhScan]
  have hsw : startsWith (STX :: (['k', 'l', 'z', 'z', 'w', 'x', 'h', ':'] ++ (pad4 i ++ ETX :: s))) phPrefix = true := by
    rw [← h1]; exact startsWith_placeholder i s
  have hdrop : (STX :: (['k', 'l', 'z', 'z', 'w', 'x', 'h', ':'] ++ (pad4 i ++ ETX :: s))).drop phPrefixLen
      = pad4 i ++ ETX :: s := by
    simp [phPrefixLen]
  simp only [hsw, hdrop, phAt_pad4, Bool.and_true, decide_true, if_true]
  simp [placeholder, phPrefix_eq, phPrefixLen]; omega

theorem stashGet_pad4 (stash : List StashItem) (i : Nat) : stashGet stash (pad4 i) = stash[i]? := by
  simp [stashGet]

theorem noCtl_of_isBlank {s : Str} (h : isBlank s = true) : NoCtl s := by
  rw [noCtl_iff]
  intro c hc
  have := (isBlank_iff s).1 h c hc
  constructor <;> rintro rfl <;> revert this <;> decide

end

end MdVerif.NoCtl
