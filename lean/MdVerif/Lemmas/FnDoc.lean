/-
C17 (footnotes) at the document level: every footnote reference of a converted document links to the `li` of its
footnote (`PipelineX.treeX`, footnotes on; tables, abbr, attr_list, toc off).  Core Lean only.
-/
import MdVerif.Lemmas.FnDocSkel
namespace MdVerif.FnDoc
open MdVerif.Py MdVerif.Inline MdVerif.InlineX MdVerif.Vocab2 MdVerif.InlineXNodes MdVerif.InlineXSkel
open MdVerif.FnTreeDoc MdVerif.TocTreeDoc MdVerif.FnDocNI MdVerif.FnDocSkel
open MdVerif.BlockExt (NI NI_iff allNodes allKids)
open MdVerif.FootnotesTree MdVerif.PipelineX MdVerif.Pipeline

/-- the flags under which the footnote statements are proved: footnotes on; tables, abbr, attr_list, toc off
    (fenced_code, admonition, def_list, sane_lists, nl2br, wikilinks: any) -/
def FnFlags (x : Exts) : Prop :=
  x.footnotes = true ∧ x.tables = false ∧ x.abbr = false ∧ x.attrList = false ∧ x.toc = false

/-- the keys of the footnote table before and after `makeFootnotesDiv` has parsed the footnote texts -/
def fnKeysX (x : Exts) (cfg : Pipeline.Cfg) (src : Str) : Option (List Str × List Str) :=
  match prepareX x cfg src with
  | .ok (text, _) =>
    match BlockExt.parseDocumentXT x.tables x.blockCfg cfg.tab text with
    | some (_, log) =>
      match makeDiv (parseChunkX x cfg) fnCount (BlockExt.footnotesOf log) log with
      | .ok (_, log') => some ((BlockExt.footnotesOf log).map (·.1), (BlockExt.footnotesOf log').map (·.1))
      | _ => none
    | none => none
  | _ => none

/-- the stages of `treeX` under `FnFlags` -/
theorem treeX_fn_inv {x : Exts} {cfg : Pipeline.Cfg} {src : Str} {u : Node} {html : List Str} (hf : FnFlags x)
    (h : treeX x cfg src = .ok u html) :
    ∃ (text : Str) (stash : List Str) (root : Node) (log : Block.Refs) (mdiv : Option Node) (log1 : Block.Refs)
      (t : Node) (xs : XSt) (t2 : Node),
      prepareX x cfg src = .ok (text, stash) ∧
      BlockExt.parseDocumentXT false x.blockCfg cfg.tab text = some (root, log) ∧
      makeDiv (parseChunkX x cfg) fnCount (BlockExt.footnotesOf log) log = .ok (mdiv, log1) ∧
      runX { cfg := { esc := escX x cfg, refs := (refsX x log1).reverse },
             table := InlineX.table x.footnotes x.wikilinks x.nl2br,
             fnKeys := (BlockExt.footnotesOf log1).map (·.1) }
        (match mdiv with | some div => placeDiv root div | none => root) stash = some (t, xs) ∧
      duplicates xs.fn t = some t2 ∧
      TreeProc.unescapeTree (TreeProc.prettify t2 cfg.blockLevel) = some u := by
  obtain ⟨h1, h2, h3, h4, h5⟩ := hf
  rw [treeX_eq] at h
  unfold preTocX at h
  simp only [h1, h2, h3, h4, h5, if_true, Bool.false_eq_true, if_false] at h
  cases hp : prepareX x cfg src with
  | oof => rw [hp] at h; cases h
  | ood => rw [hp] at h; cases h
  | ok p =>
    obtain ⟨text, stash⟩ := p
    rw [hp] at h
    simp only [] at h
    cases hd : BlockExt.parseDocumentXT false x.blockCfg cfg.tab text with
    | none => rw [hd] at h; cases h
    | some q =>
      obtain ⟨root, log⟩ := q
      rw [hd] at h
      simp only [] at h
      cases hm : makeDiv (parseChunkX x cfg) fnCount (BlockExt.footnotesOf log) log with
      | oof => rw [hm] at h; cases h
      | ood => rw [hm] at h; cases h
      | ok r =>
        obtain ⟨mdiv, log1⟩ := r
        rw [hm] at h
        have hx : x.footnotes = true := h1
        cases mdiv with
        | some div =>
          simp only [] at h
          split at h
          · cases h
          · cases h
          · cases h
          · rename_i t3 html3 hinner
            split at hinner
            · cases hinner
            · rename_i t xs hr
              split at hinner
              · cases hinner
              · rename_i t2 hdup
                simp only [TreeResult.ok.injEq] at hinner
                obtain ⟨e1, e2⟩ := hinner; subst e1; subst e2
                split at h
                · cases h
                · rename_i u' hu
                  simp only [TreeResult.ok.injEq] at h
                  rw [← h.1]
                  refine ⟨text, stash, root, log, some div, log1, t, xs, t2, rfl, hd, hm, ?_, hdup, hu⟩
                  rw [hx]; exact hr
        | none =>
          simp only [] at h
          split at h
          · cases h
          · cases h
          · cases h
          · rename_i t3 html3 hinner
            split at hinner
            · cases hinner
            · rename_i t xs hr
              split at hinner
              · cases hinner
              · rename_i t2 hdup
                simp only [TreeResult.ok.injEq] at hinner
                obtain ⟨e1, e2⟩ := hinner; subst e1; subst e2
                split at h
                · cases h
                · rename_i u' hu
                  simp only [TreeResult.ok.injEq] at h
                  rw [← h.1]
                  refine ⟨text, stash, root, log, none, log1, t, xs, t2, rfl, hd, hm, ?_, hdup, hu⟩
                  rw [hx]; exact hr

/-! ### the stages keep `qtS` -/

theorem NI_div (keys : List Str) : NI (qtS keys) (Node.el "div") := rfl

theorem parseDocXT_NI (keys : List Str) (bc : BlockExt.XCfg) (tab : Nat) (text : Str) (root : Node) (log : Block.Refs)
    (h : BlockExt.parseDocumentXT false bc tab text = some (root, log)) : NI (qtS keys) root :=
  parseChunk_NI (tagsOk_qtS keys bc) tab _ [] [] (Node.el "div") text root log h (NI_div keys)

theorem parseChunkX_NI (keys : List Str) (x : Exts) (cfg : Pipeline.Cfg) (ht : x.tables = false) (lg : Block.Refs)
    (text : Str) (sur : Node) (lg' : Block.Refs) (h : parseChunkX x cfg lg text = some (sur, lg')) :
    NI (qtS keys) sur := by
  unfold parseChunkX at h
  rw [ht] at h
  exact parseChunk_NI (tagsOk_qtS keys x.blockCfg) cfg.tab _ [] lg (Node.el "div") text sur lg' h (NI_div keys)

theorem backlink_NI (keys : List Str) (id : Str) (index : Nat) : NI (qtS keys) (backlink id index) := rfl

theorem find?_map_key (K C h : Str) (hKC : K ≠ C) (attrs : List (Str × Str)) :
    (attrs.map (fun kv => if kv.1 = K then (K, h) else kv)).find? (fun kv => kv.1 = C) =
      attrs.find? (fun kv => kv.1 = C) := by
  induction attrs with
  | nil => rfl
  | cons kv r ih =>
    rw [List.map_cons]
    by_cases hk : kv.1 = K
    · have h1 : (if kv.1 = K then (K, h) else kv) = (K, h) := by rw [if_pos hk]
      rw [h1, List.find?_cons_of_neg (by simpa using hKC), List.find?_cons_of_neg (by simp [hk, hKC]), ih]
    · have h1 : (if kv.1 = K then (K, h) else kv) = kv := by rw [if_neg hk]
      rw [h1]
      by_cases hc : kv.1 = C
      · rw [List.find?_cons_of_pos (by simpa using hc), List.find?_cons_of_pos (by simpa using hc)]
      · rw [List.find?_cons_of_neg (by simpa using hc), List.find?_cons_of_neg (by simpa using hc), ih]

theorem classOf_setAttr_href (l : Node) (h : Str) : classOf (l.setAttr "href".toList h).attrs = classOf l.attrs := by
  unfold Node.setAttr
  split
  · simp only [classOf]
    rw [find?_map_key _ _ _ (by decide)]
  · simp only [classOf, List.find?_append]
    cases List.find? (fun kv => decide (kv.fst = "class".toList)) l.attrs with
    | some v => rfl
    | none => rfl

theorem qtS_back (keys : List Str) (tag : Tag) (attrs : List (Str × Str)) (h : classOf attrs = some clsBack) :
    qtS keys tag attrs = true := by
  unfold qtS
  rw [h]
  simp only [beq_self_eq_true, Bool.true_or, Bool.or_true]

theorem backrefFree_qtS (keys : List Str) : BackrefFree (qtS keys) := by
  intro l h hl hb
  have htag : (l.setAttr "href".toList h).tag = l.tag := by unfold Node.setAttr; split <;> rfl
  have hkids : (l.setAttr "href".toList h).children = l.children := by unfold Node.setAttr; split <;> rfl
  rw [NI_iff] at hl ⊢
  rw [hkids]
  refine ⟨?_, hl.2⟩
  have hc : classOf l.attrs = some clsBack := by
    have := hb.2
    simp only [classOf]
    cases hf : (List.find? (fun kv => decide (kv.fst = "class".toList)) l.attrs) with
    | none => rw [hf] at this; exact absurd this (by decide)
    | some kv =>
      rw [hf] at this
      simp only [Option.map_some, Option.getD_some] at this
      rw [Option.map_some, this]; rfl
  exact qtS_back _ _ _ (by rw [classOf_setAttr_href]; exact hc)

/-! ### through the final `unescape` -/

theorem ue_cons (c : Char) (s : Str) (hc : c ≠ TocTreeDoc.STX) : ue (c :: s) = c :: ue s := by
  have h1 : unesc (c :: s) = (unesc s).map (c :: ·) := by
    simp [unesc, TreeProc.unescapeText, hc]
  simp only [ue, h1]
  cases unesc s <;> rfl

theorem find?_ueAttrs (K : Str) (attrs : List (Str × Str)) :
    ((ueAttrs attrs).find? (fun kv => kv.1 = K)).map (·.2) = ((attrs.find? (fun kv => kv.1 = K)).map (·.2)).map ue := by
  induction attrs with
  | nil => rfl
  | cons kv r ih =>
    simp only [ueAttrs, List.map_cons] at ih ⊢
    by_cases hk : kv.1 = K
    · rw [List.find?_cons_of_pos (by simpa using hk), List.find?_cons_of_pos (by simpa using hk)]; rfl
    · rw [List.find?_cons_of_neg (by simpa using hk), List.find?_cons_of_neg (by simpa using hk)]; exact ih

theorem classOf_ueAttrs (attrs : List (Str × Str)) : classOf (ueAttrs attrs) = (classOf attrs).map ue :=
  find?_ueAttrs _ attrs
theorem hrefOf_ueAttrs (attrs : List (Str × Str)) : hrefOf (ueAttrs attrs) = (hrefOf attrs).map ue :=
  find?_ueAttrs _ attrs
theorem idOf_ueAttrs (attrs : List (Str × Str)) : idOf (ueAttrs attrs) = (idOf attrs).map ue :=
  find?_ueAttrs _ attrs

theorem ue_clsBack : ue clsBack = clsBack := ue_of_no_stx (by decide)
theorem ue_clsWiki : ue clsWiki = clsWiki := ue_of_no_stx (by decide)

/-- the reference links of the unescaped tree go to `#fn:K` (as the output shows it) for keys `K` -/
theorem refs_of_NI (keys : List Str) (t u : Node) (hu : TreeProc.unescapeTree t = some u) (ht : NI (qtS keys) t) :
    ∀ h ∈ refHrefs u, ∃ k ∈ keys, h = '#' :: ue (Footnotes.footnoteId k) := by
  intro h hh
  rw [refHrefs, unescapeTree_shape t u hu, hrefsOfClass, List.mem_filterMap] at hh
  obtain ⟨q, hq, hqh⟩ := hh
  obtain ⟨p, hp, rfl⟩ := List.mem_map.1 hq
  split at hqh
  · rename_i hisA
    simp only [isA, Bool.and_eq_true, beq_iff_eq] at hisA
    have hqt := (NI_iff_shape t).1 ht p hp
    have hcl : (classOf p.2).map ue = some "footnote-ref".toList := by
      rw [← classOf_ueAttrs]; exact hisA.2
    have hA : isATag p.1 = true := by simp [isATag, hisA.1]
    simp only [qtS, hA, Bool.not_true, Bool.false_or] at hqt
    cases hc : classOf p.2 with
    | none => rw [hc] at hcl; cases hcl
    | some c =>
      rw [hc] at hcl hqt
      simp only [Option.map_some, Option.some.injEq] at hcl
      simp only [Bool.or_eq_true, Bool.and_eq_true, beq_iff_eq] at hqt
      rcases hqt with (hb | hw) | ⟨_, hany⟩
      · rw [hb, ue_clsBack] at hcl; exact absurd hcl (by decide)
      · rw [hw, ue_clsWiki] at hcl; exact absurd hcl (by decide)
      · rw [List.any_eq_true] at hany
        obtain ⟨k, hk, hkh⟩ := hany
        have hhr : hrefOf p.2 = some (refHref k) := by simpa using hkh
        refine ⟨k, hk, ?_⟩
        rw [hrefOf_ueAttrs, hhr, Option.map_some, Option.some.injEq] at hqh
        rw [← hqh, refHref, ue_cons _ _ (by decide)]
  · cases hqh

/-- an `li` of a footnote in the tree is an `li` id of the unescaped tree -/
theorem li_of_mem (t u : Node) (hu : TreeProc.unescapeTree t = some u) (id : Str) (hm : liPair id ∈ shape t) :
    ue (Footnotes.footnoteId id) ∈ liIds u := by
  rw [liIds, unescapeTree_shape t u hu, idsOfTag, List.mem_filterMap]
  refine ⟨((liPair id).1, ueAttrs (liPair id).2), List.mem_map.2 ⟨liPair id, hm, rfl⟩, ?_⟩
  rw [idOf_ueAttrs]
  rfl

/-! ### the document -/

/-- the document-level facts: `keys0` / `keys1` = the keys of the footnote table before / after the footnote texts are
    parsed; every reference link of the output tree is `#fn:K` (as the output shows it) for some `K ∈ keys1`; for
    every `K ∈ keys0` the output tree holds an `li` with the id `fn:K` -/
theorem doc_fn_spec {x : Exts} {cfg : Pipeline.Cfg} {src : Str} {u : Node} {html : List Str} (hf : FnFlags x)
    (h : treeX x cfg src = .ok u html) :
    ∃ keys0 keys1, fnKeysX x cfg src = some (keys0, keys1) ∧
      (∀ r ∈ refHrefs u, ∃ k ∈ keys1, r = '#' :: ue (Footnotes.footnoteId k)) ∧
      (∀ k ∈ keys0, ue (Footnotes.footnoteId k) ∈ liIds u) := by
  obtain ⟨text, stash, root, log, mdiv, log1, t, xs, t2, hp, hd, hm, hr, hdup, hu⟩ := treeX_fn_inv hf h
  have htab : x.tables = false := hf.2.1
  refine ⟨(BlockExt.footnotesOf log).map (·.1), (BlockExt.footnotesOf log1).map (·.1), ?_, ?_, ?_⟩
  · simp only [fnKeysX, hp, htab, hd, hm]
  · -- the invariant `qtS keys1`
    let keys := (BlockExt.footnotesOf log1).map (·.1)
    have hroot : NI (qtS keys) root := parseDocXT_NI keys _ _ _ _ _ hd
    have hfin : ∀ root1, NI (qtS keys) root1 →
        runX { cfg := { esc := escX x cfg, refs := (refsX x log1).reverse },
               table := InlineX.table x.footnotes x.wikilinks x.nl2br, fnKeys := keys } root1 stash = some (t, xs) →
        ∀ r ∈ refHrefs u, ∃ k ∈ keys, r = '#' :: ue (Footnotes.footnoteId k) := by
      intro root1 hroot1 hr1
      have ht := (runX_NI (patOk_fn _) _ _ _ _ hr1 hroot1).1
      have ht2 := duplicates_NI (backrefFree_qtS keys) _ _ _ hdup ht
      have ht3 := prettify_NI t2 cfg.blockLevel ht2
      exact refs_of_NI keys _ u hu ht3
    cases mdiv with
    | none => exact hfin root hroot hr
    | some div =>
      refine hfin (placeDiv root div) (placeDiv_NI root div hroot ?_) hr
      exact makeDiv_NI (qt := qtS keys) _ _
        (fun lg text sur lg' hs => NI_kids (parseChunkX_NI keys x cfg htab lg text sur lg' hs))
        (fun _ => qtS_not_a _ _ _ rfl) (qtS_not_a _ _ _ rfl) (backlink_NI keys)
        (fun _ => qtS_not_a _ _ _ rfl) (qtS_not_a _ _ _ rfl) (qtS_not_a _ _ _ rfl) _ _ _ _ hm
  · intro k hk
    obtain ⟨f, hfm, rfl⟩ := List.mem_map.1 hk
    cases mdiv with
    | none =>
      -- no `div`: the table is empty
      unfold makeDiv at hm
      split at hm
      · rename_i he
        have : BlockExt.footnotesOf log = [] := by simpa using he
        rw [this] at hfm; cases hfm
      · split at hm
        · simp at hm
        · cases hm
        · cases hm
    | some div =>
      have h1 := makeDiv_li _ _ _ _ _ _ hm f hfm
      have h2 := placeDiv_mem root div _ h1
      have h3 := runX_li _ _ _ _ _ hr f.1 h2
      have h4 := duplicates_sub _ _ _ hdup _ h3
      have h5 : liPair f.1 ∈ shape (TreeProc.prettify t2 cfg.blockLevel) := by rw [shape_prettify]; exact h4
      exact li_of_mem _ u hu f.1 h5

/-- **every footnote reference resolves**, when parsing the footnote texts leaves the keys of the table alone -/
theorem doc_refs_resolve {x : Exts} {cfg : Pipeline.Cfg} {src : Str} {u : Node} {html : List Str} (hf : FnFlags x)
    (h : treeX x cfg src = .ok u html) (keys : List Str) (hk : fnKeysX x cfg src = some (keys, keys)) :
    refsResolve u = true := by
  obtain ⟨k0, k1, hkk, h1, h2⟩ := doc_fn_spec hf h
  rw [hk] at hkk
  simp only [Option.some.injEq, Prod.mk.injEq] at hkk
  obtain ⟨e0, e1⟩ := hkk; subst e0; subst e1
  simp only [refsResolve, List.all_eq_true, List.any_eq_true]
  intro r hr
  obtain ⟨k, hkm, rfl⟩ := h1 r hr
  exact ⟨_, h2 k hkm, by simp⟩

end MdVerif.FnDoc
