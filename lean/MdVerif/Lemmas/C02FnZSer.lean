/-
String classes for "no bad token can arise in the name of a heading", part 3: the serializer.

For a tree all of whose elements have an STX-free tag, STX-free attribute names, attribute values in `ZA` and text and
tail in `Z0c` (`NodeZ`), the serialisation is `Z0c`: markup is STX-free, texts and tails are escaped (`escCdata` keeps
`Z0c`) or written raw (`script`, `style`), an attribute value is escaped and closed by its quote — which completes a
token that was cut short — or minimised to the STX-free attribute name.  Core Lean only.
-/
import MdVerif.Lemmas.C02FnZOps
import MdVerif.Lemmas.SerializerTree
import MdVerif.Lemmas.PlaceholdersBasic

set_option autoImplicit false

namespace MdVerif.C02Z
open Py Ser

/-- the invariant at one element of the tree handed to the serializer -/
def NodeZ (n : Node) : Prop :=
  NoCtl.tagNoCtl n.tag ∧ (∀ kv ∈ n.attrs, TreeProc.STX ∉ kv.1 ∧ ZA kv.2 = true) ∧
    Z0c (n.text.getD []) = true ∧ Z0c (n.tail.getD []) = true

theorem noSTX_cons {c : Char} {s : Str} (hc : c ≠ TreeProc.STX) (hs : TreeProc.STX ∉ s) : TreeProc.STX ∉ c :: s := by
  intro hm
  rcases List.mem_cons.1 hm with e | hm
  · exact hc e.symm
  · exact hs hm

theorem noSTX_append {a b : Str} (ha : TreeProc.STX ∉ a) (hb : TreeProc.STX ∉ b) : TreeProc.STX ∉ a ++ b := by
  intro hm
  rcases List.mem_append.1 hm with hm | hm
  · exact ha hm
  · exact hb hm

/-- the attribute list -/
theorem Z0c_writeAttrs (fmt : Fmt) : ∀ (as : List (Str × Str)),
    (∀ kv ∈ as, TreeProc.STX ∉ kv.1 ∧ ZA kv.2 = true) → Z0c (writeAttrs fmt as) = true := by
  intro as
  induction as with
  | nil => intro _; rfl
  | cons kv r ih =>
    intro h
    obtain ⟨k, v⟩ := kv
    obtain ⟨hk, hv⟩ := h (k, v) List.mem_cons_self
    simp only at hk hv
    have ihr := ih (fun x hx => h x (List.mem_cons_of_mem _ hx))
    simp only [writeAttrs]
    split
    · rename_i hb
      have hkv : k = escAttrHtml v := by simp only [Bool.and_eq_true, decide_eq_true_eq] at hb; exact hb.1
      rw [← hkv]
      exact Z0c_append (Z0c_of_noSTX (noSTX_cons (by decide) hk)) ihr
    · refine Z0c_append ?_ ihr
      rw [List.append_assoc]
      exact Z0c_append (Z0c_of_noSTX (noSTX_append (noSTX_cons (by decide) hk) (by decide)))
        (Z0c_escAttrHtml_quot hv)

/-- the start tag up to its `>` -/
def openTag (fmt : Fmt) (t : Str) (uri : Option Str) (attrs : List (Str × Str)) : Str :=
  '<' :: t ++ writeAttrs fmt (sortAttrs attrs) ++
    (match uri with
     | some (u :: us) => " xmlns=\"".toList ++ escAttrib (u :: us) ++ ['"']
     | _ => [])

theorem element_eq (fmt : Fmt) (t : Str) (uri : Option Str) (attrs : List (Str × Str)) (text : Option Str)
    (kids : Str) : element fmt t uri attrs text kids =
      if fmt = .xhtml && isEmptyTag t then openTag fmt t uri attrs ++ " />".toList
      else
        openTag fmt t uri attrs ++ ['>'] ++
        (if Node.truthy text then (if isRawTextTag t then text.getD [] else escCdata (text.getD [])) else []) ++
        kids ++
        (if isEmptyTag t then [] else "</".toList ++ t ++ ['>']) := rfl

theorem Z0c_openTag (fmt : Fmt) {t : Str} {uri : Option Str} {attrs : List (Str × Str)} (ht : TreeProc.STX ∉ t)
    (hu : ∀ u, uri = some u → TreeProc.STX ∉ u)
    (ha : ∀ kv ∈ attrs, TreeProc.STX ∉ kv.1 ∧ ZA kv.2 = true) : Z0c (openTag fmt t uri attrs) = true := by
  unfold openTag
  refine Z0c_append (Z0c_append (Z0c_of_noSTX (noSTX_cons (by decide) ht))
    (Z0c_writeAttrs fmt _ (fun kv hkv => ha kv (mem_sortAttrs attrs kv hkv)))) ?_
  split
  · rename_i u us
    exact Z0c_of_noSTX (noSTX_append (noSTX_append (by decide) (escAttrib_noSTX (hu _ rfl))) (by decide))
  · rfl

theorem Z0c_textPart {text : Option Str} (h : Z0c (text.getD []) = true) :
    Z0c (if Node.truthy text then escCdata (text.getD []) else []) = true := by
  split
  · exact Z0c_escCdata h
  · rfl

/-- one element -/
theorem Z0c_element (fmt : Fmt) {t : Str} {uri : Option Str} {attrs : List (Str × Str)} {text : Option Str}
    {kids : Str} (ht : TreeProc.STX ∉ t) (hu : ∀ u, uri = some u → TreeProc.STX ∉ u)
    (ha : ∀ kv ∈ attrs, TreeProc.STX ∉ kv.1 ∧ ZA kv.2 = true) (htx : Z0c (text.getD []) = true)
    (hk : Z0c kids = true) : Z0c (element fmt t uri attrs text kids) = true := by
  rw [element_eq]
  have ho := Z0c_openTag fmt ht hu ha
  split
  · exact Z0c_append ho (by decide)
  · refine Z0c_append (Z0c_append (Z0c_append (Z0c_append ho (by decide)) ?_) hk) ?_
    · split
      · split
        · exact htx
        · exact Z0c_escCdata htx
      · rfl
    · split
      · rfl
      · exact Z0c_of_noSTX (noSTX_append (noSTX_append (by decide) ht) (by decide))

theorem splitQName_noSTX {q uri t : Str} (h : splitQName q = some (uri, t)) (hq : TreeProc.STX ∉ q) :
    TreeProc.STX ∉ uri ∧ TreeProc.STX ∉ t := by
  unfold splitQName at h
  split at h
  · rename_i r
    split at h
    · simp only [Option.some.injEq, Prod.mk.injEq] at h
      obtain ⟨rfl, rfl⟩ := h
      have hr : TreeProc.STX ∉ r := fun hm => hq (List.mem_cons_of_mem _ hm)
      exact ⟨fun hm => hr (List.mem_of_mem_take hm), fun hm => hr (List.mem_of_mem_drop hm)⟩
    · cases h
  · cases h

mutual
/-- **the serialisation of a tree with the invariant is a complete `Z0` string** -/
theorem Z0c_serialize (fmt : Fmt) : (n : Node) → n.Forall NodeZ → Z0c (serialize fmt n) = true
  | ⟨tag, attrs, text, ta, children, tail, tla⟩, h => by
    simp only [Node.Forall] at h
    obtain ⟨⟨q0, q1, q2, q3⟩, qk⟩ := h
    simp only at q0 q1 q2 q3
    have hkids := Z0c_serializeList fmt children qk
    simp only [serialize]
    refine Z0c_append ?_ (Z0c_textPart q3)
    cases tag with
    | comment => exact Z0c_append (Z0c_append (by decide) (Z0c_escCdata q2)) (by decide)
    | pi => exact Z0c_append (Z0c_append (by decide) (Z0c_escCdata q2)) (by decide)
    | none => exact Z0c_append (Z0c_textPart q2) hkids
    | name t =>
      exact Z0c_element fmt (uri := none) q0.1 (fun _ e => by cases e) q1 q2 hkids
    | qname q =>
      simp only
      split
      · rename_i uri t hs
        obtain ⟨hu, ht⟩ := splitQName_noSTX hs q0.1
        exact Z0c_element fmt (uri := some uri) ht (fun u e => by cases e; exact hu) q1 q2 hkids
      · rfl
theorem Z0c_serializeList (fmt : Fmt) : (l : List Node) → Node.ForallL NodeZ l → Z0c (serializeList fmt l) = true
  | [], _ => rfl
  | c :: r, h => by
    simp only [Node.ForallL] at h
    simp only [serializeList]
    exact Z0c_append (Z0c_serialize fmt c h.1) (Z0c_serializeList fmt r h.2)
end

/-- hence `unescape` succeeds on the serialisation and yields a complete `Z3` string -/
theorem unescape_serialize (fmt : Fmt) {n : Node} (h : n.Forall NodeZ) :
    ∃ o, TreeProc.unescapeText 0 (serialize fmt n) = some o ∧ Z3c o = true :=
  unescape_Z0c (Z0c_serialize fmt n h)

/-! ### the name of a heading: the pieces put together -/

/-- `render_inner_html` of an element with the invariant does not raise in `unescape`, and what it returns is `Z3`,
    hence holds no bad token; so does its `strip_tags` (the name of the heading) -/
theorem renderInner_Z3 (env : TocTree.Env) (hpost : ∀ s o, env.post s = some o → Z3 s = true → Z3 o = true)
    {el : Node} (h : el.Forall NodeZ) {inner : Str} (hr : TocTree.renderInner env el = .ok inner) :
    Z3 inner = true ∧ Z3 (TocTree.stripTags inner) = true := by
  unfold TocTree.renderInner at hr
  split at hr
  · cases hr
  · rename_i text hu
    have ht : Z3 text = true := Z3_of_unescape (Z0_of_Z0c (Z0c_serialize env.fmt el h)) hu
    split at hr
    · split at hr
      · rename_i r hp
        simp only [TocTree.R.ok.injEq] at hr
        subst hr
        have := Z3_strip (hpost _ _ hp (Z3_strip (Z3_drop (Z3_take ht _) _)))
        exact ⟨this, Z3_stripTags this⟩
      · cases hr
    · cases hr

/-- `render_inner_html` does not answer `err` because of `unescape` -/
theorem renderInner_unescape_some (env : TocTree.Env) {el : Node} (h : el.Forall NodeZ) :
    ∃ text, TreeProc.unescapeText 0 (Ser.serialize env.fmt el) = some text ∧ Z3c text = true :=
  unescape_serialize env.fmt h

/-- the `data-toc-label` path: an attribute value in `ZA`, unescaped, postprocessed, stripped, escaped -/
theorem label_Z3 (env : TocTree.Env) (hpost : ∀ s o, env.post s = some o → Z3 s = true → Z3 o = true)
    {lbl u l : Str} (h : ZA lbl = true) (hu : TreeProc.unescapeText 0 lbl = some u) (hl : env.post u = some l) :
    Z3 (Ser.escCdata (TocTree.stripTags (strip l))) = true :=
  Z3_escCdata (Z3_stripTags (Z3_strip (hpost _ _ hl (Z3_of_unescape (Z0_of_ZA h) hu))))

theorem label_unescape_some {lbl : Str} (h : ZA lbl = true) : (TreeProc.unescapeText 0 lbl).isSome = true :=
  unescape_isSome_of_Z0 (Z0_of_ZA h)

/-- the environment of the pipeline satisfies `hpost` when the stash is STX-free -/
theorem postX_hpost (x : PipelineX.Exts) (cfg : Pipeline.Cfg) {stash : List Str}
    (hst : ∀ e ∈ stash, TreeProc.STX ∉ e) :
    ∀ s o, PipelineX.postX x cfg stash s = some o → Z3 s = true → Z3 o = true :=
  fun _ _ ho hs => Z3_postX x cfg ho hst hs

/-- a name with `Z3` is unescaped again without error -/
theorem name_unescape_some {name : Str} (h : Z3 name = true) : (TreeProc.unescapeText 0 name).isSome = true :=
  unescape_isSome_of_Z0 (Z0_of_Z3 h)

/-- the invariant is not trivially false -/
example : NodeZ (Node.mk (.name "h1".toList) [("id".toList, "a\x0242".toList)]
    (some ("x\x0242\x03 \x02klzzwxh:0001\x03 \x0212\"".toList)) false [] none false) := by
  refine ⟨?_, ?_, ?_, ?_⟩
  · show NoCtl.NoCtl "h1".toList
    decide
  · decide
  · decide
  · decide

end MdVerif.C02Z
