/-
GENERATED (work/portN.py) COPY of `MdVerif/Lemmas/InlineFuelEm.lean` in the namespace `MdVerif.InlineN`, where the weight `isTrigC` of a
character (hence `phiC`, `nuW`, `ownW`, the weights of the stash entries and the potential of a tree) ALSO COUNTS THE
LINE FEED AND `^`: with nl2br the pattern `\n` turns every line feed of a text into a `br` element, which costs one unit
of potential; the footnote pattern `[^id]` makes two elements (`sup`, `a`), paid by `[` and `^`.
Everything that does not depend on the weight is used from `MdVerif.Inline`.  Needed for `Props/C02Big.lean`, section 6
(termination of `InlineX.runX` for the pattern tables of the extensions).  Core Lean only.
-/
import MdVerif.Lemmas.C02BigNPot
import MdVerif.Lemmas.InlineFuelEm

namespace MdVerif.InlineN
open MdVerif.Inline
open Py
open NoCtl hiding STX ETX

/-! ### accounting for `seqGo` with a superadditive measure -/

/-- `Σ μ g` -/
def sumM (μ : Str → Nat) : List Str → Nat
  | [] => 0
  | g :: r => μ g + sumM μ r

/-- what the continuation consumes weighs at least its groups plus `L` -/
def KAccS (μ : Str → Nat) (k : K) (L : Nat) : Prop :=
  ∀ prev suf pos gs e out, k prev suf pos gs = some (e, out) →
    ∃ consumed rest new, suf = consumed ++ rest ∧ e = pos + consumed.length ∧ out = gs.reverse ++ new ∧
      sumM μ new + L ≤ μ consumed

section super
variable {μ : Str → Nat} (hsup : ∀ a b, μ a + μ b ≤ μ (a ++ b))
include hsup

theorem lazyLoop_accS {c : Char} {notc : Bool} {k : K} {gs : List Str} {L : Nat} (hk : KAccS μ k L) :
    ∀ (suf : Str) (need : Nat) (prev : Option Char) (pos : Nat) (acc : Str) e out,
      lazyLoop c notc k gs need prev suf pos acc = some (e, out) →
      ∃ g2 c2 rest new, suf = g2 ++ c2 ++ rest ∧ e = pos + g2.length + c2.length ∧
        out = gs.reverse ++ (acc.reverse ++ g2) :: new ∧ sumM μ new + L ≤ μ c2 := by
  intro suf
  induction suf with
  | nil =>
    intro need prev pos acc e out h
    cases need with
    | zero =>
      simp only [lazyLoop] at h
      obtain ⟨consumed, rest, new, h1, h2, h3, h4⟩ := hk _ _ _ _ _ _ h
      refine ⟨[], consumed, rest, new, by simpa using h1, by simpa using h2, ?_, h4⟩
      simp [h3]
    | succ n => simp [lazyLoop] at h
  | cons ch r ih =>
    intro need prev pos acc e out h
    cases need with
    | zero =>
      simp only [lazyLoop] at h
      split at h
      · next x hx =>
        cases h
        obtain ⟨consumed, rest, new, h1, h2, h3, h4⟩ := hk _ _ _ _ _ _ hx
        refine ⟨[], consumed, rest, new, by simpa using h1, by simpa using h2, ?_, h4⟩
        simp [h3]
      · split at h
        · obtain ⟨g2, c2, rest, new, h1, h2, h3, h4⟩ := ih _ _ _ _ _ _ h
          refine ⟨ch :: g2, c2, rest, new, by simp [h1], by simp [h2]; omega, ?_, h4⟩
          simp [h3]
        · cases h
    | succ n =>
      simp only [lazyLoop] at h
      split at h
      · obtain ⟨g2, c2, rest, new, h1, h2, h3, h4⟩ := ih _ _ _ _ _ _ h
        refine ⟨ch :: g2, c2, rest, new, by simp [h1], by simp [h2]; omega, ?_, h4⟩
        simp [h3]
      · cases h

theorem greedyLoop_accS {c : Char} {mn : Nat} {k : K} {gs : List Str} {L : Nat} (hk : KAccS μ k L) :
    ∀ (suf : Str) (prev : Option Char) (pos Ln : Nat) (acc : Str) e out,
      greedyLoop c mn k gs prev suf pos Ln acc = some (e, out) →
      ∃ g2 c2 rest new, suf = g2 ++ c2 ++ rest ∧ e = pos + g2.length + c2.length ∧
        out = gs.reverse ++ (acc.reverse ++ g2) :: new ∧ sumM μ new + L ≤ μ c2 := by
  intro suf
  have here : ∀ (suf : Str) (prev : Option Char) (pos Ln : Nat) (acc : Str) e out,
      (if Ln ≥ mn then k prev suf pos (acc.reverse :: gs) else none) = some (e, out) →
      ∃ g2 c2 rest new, suf = g2 ++ c2 ++ rest ∧ e = pos + g2.length + c2.length ∧
        out = gs.reverse ++ (acc.reverse ++ g2) :: new ∧ sumM μ new + L ≤ μ c2 := by
    intro suf prev pos Ln acc e out h
    split at h
    · obtain ⟨consumed, rest, new, h1, h2, h3, h4⟩ := hk _ _ _ _ _ _ h
      refine ⟨[], consumed, rest, new, by simpa using h1, by simpa using h2, ?_, h4⟩
      simp [h3]
    · cases h
  induction suf with
  | nil =>
    intro prev pos Ln acc e out h
    simp only [greedyLoop] at h
    exact here _ _ _ _ _ _ _ h
  | cons ch r ih =>
    intro prev pos Ln acc e out h
    simp only [greedyLoop] at h
    split at h
    · split at h
      · next x hx =>
        cases h
        obtain ⟨g2, c2, rest, new, h1, h2, h3, h4⟩ := ih _ _ _ _ _ _ hx
        refine ⟨ch :: g2, c2, rest, new, by simp [h1], by simp [h2]; omega, ?_, h4⟩
        simp [h3]
      · exact here _ _ _ _ _ _ _ h
    · exact here _ _ _ _ _ _ _ h

theorem seqGo_accS (c : Char) (hrep : ∀ m, m ≤ μ (List.replicate m c)) :
    ∀ steps : List Step, KAccS μ (seqGo c steps) (litSum steps) := by
  intro steps
  induction steps with
  | nil =>
    intro prev suf pos gs e out h
    simp only [seqGo] at h
    cases h
    exact ⟨[], suf, [], by simp, by simp, by simp, by simp [sumM, litSum]⟩
  | cons st rest ih =>
    intro prev suf pos gs e out h
    cases st with
    | lit m =>
      simp only [seqGo] at h
      split at h
      · next hm =>
        simp only [Bool.and_eq_true, decide_eq_true_eq, beq_iff_eq] at hm
        obtain ⟨consumed, rst, new, h1, h2, h3, h4⟩ := ih _ _ _ _ _ _ h
        have hpre := countPrefix_prefix c (some m) suf
        rw [hm.2] at hpre
        refine ⟨List.replicate m c ++ consumed, rst, new, ?_, ?_, h3, ?_⟩
        · rw [List.append_assoc, ← h1, ← hpre, List.take_append_drop]
        · simp [h2]; omega
        · have := hsup (List.replicate m c) consumed
          have := hrep m
          simp only [litSum]; omega
      · cases h
    | notnext =>
      simp only [seqGo] at h
      split at h
      · cases h
      · simpa [litSum] using ih _ _ _ _ _ _ h
    | nbW =>
      simp only [seqGo] at h
      split at h
      · cases h
      · simpa [litSum] using ih _ _ _ _ _ _ h
    | nbC =>
      simp only [seqGo] at h
      split at h
      · cases h
      · simpa [litSum] using ih _ _ _ _ _ _ h
    | naW =>
      simp only [seqGo] at h
      split at h
      · cases h
      · simpa [litSum] using ih _ _ _ _ _ _ h
    | lazy mn notc =>
      simp only [seqGo] at h
      obtain ⟨g2, c2, rst, new, h1, h2, h3, h4⟩ := lazyLoop_accS hsup ih _ _ _ _ _ _ _ h
      refine ⟨g2 ++ c2, rst, g2 :: new, h1, by simp [h2]; omega, by simpa using h3, ?_⟩
      have := hsup g2 c2
      simp only [sumM, litSum]; omega
    | greedy mn =>
      simp only [seqGo] at h
      obtain ⟨g2, c2, rst, new, h1, h2, h3, h4⟩ := greedyLoop_accS hsup ih _ _ _ _ _ _ _ h
      refine ⟨g2 ++ c2, rst, g2 :: new, h1, by simp [h2]; omega, by simpa using h3, ?_⟩
      have := hsup g2 c2
      simp only [sumM, litSum]; omega

end super

/-- the matched part of the text weighs at least the groups and the delimiters -/
theorem seqMatch_nuW (acc : List Nat) {s : Str} {i : Nat} {c : Char} (hc : isTrigC c = true) {steps : List Step}
    {e : Nat} {gs : List Str} (h : seqMatch s i c steps = some (e, gs)) :
    sumM (nuW acc) gs + litSum steps ≤ nuW acc (slice s i e) := by
  simp only [seqMatch] at h
  split at h
  · cases h
  · obtain ⟨consumed, rest, new, h1, h2, h3, h4⟩ :=
      seqGo_accS (μ := nuW acc) (nuW_append_ge acc) c (by
        intro m
        have : phiC (List.replicate m c) = m := by
          simp [phiC, List.countP_replicate, hc]
        simp only [nuW]; omega) steps _ _ _ _ _ _ h
    simp only [List.reverse_nil, List.nil_append] at h3
    subst h3
    have hsl : slice s i e = consumed := by
      simp only [slice]
      rw [h2]
      have : s = s.take i ++ (consumed ++ rest) := by rw [← h1, List.take_append_drop]
      have hil : (s.take i).length = i := by
        rw [List.length_take]; omega
      conv => lhs; rw [this]
      rw [List.take_append, hil, List.take_of_length_le (by rw [hil]; omega), List.drop_append, hil]
      simp
    rw [hsl]; exact h4

theorem emPatterns_litSum2 (c : Char) : ∀ item ∈ emPatterns c, 2 ≤ litSum item.steps := by
  intro item h
  simp only [emPatterns] at h
  split at h
  · simp only [starPatterns, List.mem_cons, List.not_mem_nil, or_false] at h
    rcases h with rfl | rfl | rfl | rfl | rfl <;> decide
  · simp only [underPatterns, List.mem_cons, List.not_mem_nil, or_false] at h
    rcases h with rfl | rfl | rfl | rfl | rfl <;> decide

/-! ### deep version of the builder specification, with the potential -/

/-- every element of the tree has a text and a tail satisfying `Q` -/
def Deep (Q : Str → Prop) (n : Node) : Prop := n.Forall (TopQ Q)

theorem deep_iff (Q : Str → Prop) (n : Node) : Deep Q n ↔ TopQ Q n ∧ ∀ c ∈ n.children, Deep Q c :=
  Node.forall_iff _ n

theorem deep_mkEl (Q : Str → Prop) (tag : String) : Deep Q (mkEl tag) := by
  rw [deep_iff]; exact ⟨⟨optQ_none Q, optQ_none Q⟩, by intro c hc; cases hc⟩

theorem deep_append {Q : Str → Prop} {p el : Node} (hp : Deep Q p) (he : Deep Q el) : Deep Q (p.append el) := by
  rw [deep_iff] at hp ⊢
  refine ⟨hp.1, ?_⟩
  intro c hc
  simp only [Node.append, List.mem_append, List.mem_singleton] at hc
  rcases hc with hc | rfl
  · exact hp.2 c hc
  · exact he

theorem deep_setTextOrTail {Q : Str → Prop} {p : Node} {text : Str} (hasLast : Bool) (hp : Deep Q p)
    (ht : Q text) : Deep Q (setTextOrTail p hasLast text) := by
  unfold setTextOrTail
  split
  · exact hp
  · split
    · split
      · next l hl =>
        rw [deep_iff] at hp ⊢
        refine ⟨hp.1, ?_⟩
        intro c hc
        simp only [Node.setLast, List.mem_append, List.mem_singleton] at hc
        rcases hc with hc | rfl
        · exact hp.2 c ((List.dropLast_sublist _).subset hc)
        · have hl' : l ∈ p.children := List.mem_of_getLast? hl
          have := hp.2 l hl'
          rw [deep_iff] at this ⊢
          exact ⟨⟨this.1.1, optQ_some ht⟩, this.2⟩
      · exact hp
    · rw [deep_iff] at hp ⊢
      exact ⟨⟨optQ_some ht, hp.1.2⟩, hp.2⟩

theorem shallow_of_deep {Q : Str → Prop} {n : Node} (h : Deep Q n) : ShallowQ Q n := by
  rw [deep_iff] at h
  exact ⟨h.1, fun c hc => ((deep_iff Q c).1 (h.2 c hc)).1⟩

section weight
variable (acc : List Nat)

/-- potential of an element with all its descendants -/
abbrev W (n : Node) : Nat := npot (ownW acc) n

theorem W_mkEl (tag : String) : W acc (mkEl tag) = 1 := by
  simp [W, npot_def, ownW, mkEl]

theorem W_append (p el : Node) : W acc (p.append el) = W acc p + W acc el := by
  simp only [W, npot_def, Node.append, lpot_append, lpot_cons, lpot_nil, ownW]
  omega

theorem lpot_dropLast_getLast {own : Node → Nat} {l : List Node} {x : Node} (h : l.getLast? = some x) :
    lpot own l = lpot own l.dropLast + npot own x := by
  have : l = l.dropLast ++ [x] := by
    have hne : l ≠ [] := by intro e; rw [e] at h; cases h
    rw [List.getLast?_eq_some_getLast hne] at h
    have := List.dropLast_concat_getLast hne
    rw [Option.some.inj h] at this
    exact this.symm
  conv => lhs; rw [this]
  rw [lpot_append]; simp

theorem W_setTextOrTail (p : Node) (hasLast : Bool) (text : Str) :
    W acc (setTextOrTail p hasLast text) ≤ W acc p + nuW acc text := by
  unfold setTextOrTail
  split
  · omega
  · split
    · split
      · next l hl =>
        have h1 := lpot_dropLast_getLast (own := ownW acc) hl
        simp only [W, npot_def, Node.setLast, lpot_append, lpot_cons, lpot_nil, ownW] at h1 ⊢
        simp only [Option.getD_some]
        omega
      · omega
    · simp only [W, npot_def, ownW, Option.getD_some]
      omega

end weight

/-- a builder that answers on groups shorter than `L`, with texts satisfying `Q` at every depth and a weight of at
    most two elements plus the groups -/
def BuildS (acc : List Nat) (Q : Str → Prop) (b : List Str → EmItem → Nat → Option Node) (L : Nat) : Prop :=
  ∀ groups item idx, 0 < L → (∀ g ∈ groups, g.length < L ∧ Q g) →
    ∃ n, b groups item idx = some n ∧ Deep Q n ∧ W acc n ≤ 2 + sumM (nuW acc) groups ∧ n.tail = none

theorem setTextOrTail_tail (p : Node) (hasLast : Bool) (text : Str) : (setTextOrTail p hasLast text).tail = p.tail := by
  unfold setTextOrTail
  split
  · rfl
  · split
    · split <;> rfl
    · rfl

theorem take_split (s : Str) {a b e : Nat} (hab : a ≤ b) (hbe : b ≤ e) :
    s.take e = s.take a ++ slice s a b ++ slice s b e := by
  simp only [slice]
  have h1 : s.take b = s.take a ++ (s.take b).drop a := by
    have : s.take a = (s.take b).take a := by rw [List.take_take, Nat.min_eq_left hab]
    rw [this, List.take_append_drop]
  have h2 : s.take e = s.take b ++ (s.take e).drop b := by
    have : s.take b = (s.take e).take b := by rw [List.take_take, Nat.min_eq_left hbe]
    rw [this, List.take_append_drop]
  conv => lhs; rw [h2]
  conv => lhs; rw [h1]

/-- invariant of `parse_sub_patterns` -/
structure SubInv (acc : List Nat) (Q : Str → Prop) (data : Str) (B0 : Nat) (s : SubSt) : Prop where
  deep : Deep Q s.parent
  le : s.offset ≤ s.pos
  wt : W acc s.parent ≤ B0 + nuW acc (data.take s.offset)
  tl : s.parent.tail = none

theorem subTry_acc {acc : List Nat} {Q : Str → Prop} {b} {data : Str} {c : Char} {idx B0 : Nat}
    (hc : isTrigC c = true) (hQ : InfixClosed Q) (hb : BuildS acc Q b data.length) (hd : Q data) :
    ∀ (items : List EmItem) (index : Nat) (s : SubSt), (∀ it ∈ items, 2 ≤ litSum it.steps) →
      SubInv acc Q data B0 s →
      ∃ s', subTry b data c idx items index s = some s' ∧ SubInv acc Q data B0 s' ∧ s.pos ≤ s'.pos ∧
        (s'.matched = true → s.matched = true ∨ s.pos < s'.pos) := by
  intro items
  induction items with
  | nil => intro index s _ hs; exact ⟨s, rfl, hs, Nat.le_refl _, fun h => Or.inl h⟩
  | cons item rest ih =>
    intro index s hl hs
    have hl' : ∀ it ∈ rest, 2 ≤ litSum it.steps := fun it h => hl it (List.mem_cons_of_mem _ h)
    unfold subTry
    split
    · exact ih _ _ hl' hs
    · split
      · exact ih _ _ hl' hs
      · next e groups hm =>
        have hlen := seqMatch_len hm
        have hinf := seqMatch_infix hm
        have hnu := seqMatch_nuW acc hc hm
        have h1 := hl item (List.mem_cons_self ..)
        have hgroups : ∀ g ∈ groups, g.length < data.length ∧ Q g := by
          intro g hg
          have a := hlen.2.2.2 g hg
          exact ⟨by omega, hQ _ _ (hinf g hg) hd⟩
        obtain ⟨el, hel, hdeep, hw, _⟩ := hb groups item index (by omega) hgroups
        rw [hel]
        simp only
        have hp1 : Deep Q (setTextOrTail s.parent s.hasLast (slice data s.offset s.pos)) :=
          deep_setTextOrTail _ hs.deep (hQ _ _ (slice_infix _ _ _) hd)
        have hw1 := W_setTextOrTail acc s.parent s.hasLast (slice data s.offset s.pos)
        have hsplit := take_split data hs.le (show s.pos ≤ e by omega)
        have hsup1 := nuW_append_ge acc (data.take s.offset ++ slice data s.offset s.pos) (slice data s.pos e)
        have hsup2 := nuW_append_ge acc (data.take s.offset) (slice data s.offset s.pos)
        obtain ⟨s', hs', hinv', hpos, hmat⟩ := ih (index + 1)
          { pos := e, offset := e, parent := (setTextOrTail s.parent s.hasLast (slice data s.offset s.pos)).append el,
            hasLast := true, matched := true } hl'
          ⟨deep_append hp1 hdeep, Nat.le_refl _, by
            simp only [W_append]
            rw [hsplit]
            have := hs.wt
            omega, by
            simp only [Node.append]
            rw [setTextOrTail_tail]; exact hs.tl⟩
        refine ⟨s', hs', hinv', ?_, ?_⟩
        · simp only at hpos; omega
        · intro _; right; simp only at hpos; omega

theorem subLoop_acc {acc : List Nat} {Q : Str → Prop} {b} {data : Str} {c : Char} {idx B0 : Nat}
    (hc : isTrigC c = true) (hQ : InfixClosed Q) (hb : BuildS acc Q b data.length) (hd : Q data) :
    ∀ (g : Nat) (s : SubSt), data.length - s.pos < g → SubInv acc Q data B0 s →
      ∃ s', subLoop b data c idx g s = some s' ∧ SubInv acc Q data B0 s' := by
  intro g
  induction g with
  | zero => intro s h; omega
  | succ g ih =>
    intro s hg hs
    unfold subLoop
    split
    · next hpos =>
      split
      · obtain ⟨s', hs', hinv', hpos', hmat⟩ :=
          subTry_acc (c := c) (idx := idx) hc hQ hb hd (emPatterns c) 0 { s with matched := false }
            (emPatterns_litSum2 c) ⟨hs.deep, hs.le, hs.wt, hs.tl⟩
        rw [hs']
        simp only
        split
        · next hm =>
          have hlt : s.pos < s'.pos := by
            rcases hmat hm with h | h
            · cases h
            · exact h
          exact ih _ (by omega) hinv'
        · exact ih _ (by simp only at hpos' ⊢; omega) ⟨hinv'.deep, by have := hinv'.le; simp only; omega, hinv'.wt, hinv'.tl⟩
      · exact ih _ (by simp only; omega) ⟨hs.deep, by have := hs.le; simp only; omega, hs.wt, hs.tl⟩
    · exact ⟨s, rfl, hs⟩

theorem parseSub_acc {acc : List Nat} {Q : Str → Prop} {b} {data : Str} {c : Char} (hc : isTrigC c = true)
    (hQ : InfixClosed Q) (hb : BuildS acc Q b data.length) (hd : Q data) (parent : Node) (hasLast : Bool)
    (idx : Nat) (hp : Deep Q parent) (htl : parent.tail = none) :
    ∃ n, parseSub b data parent hasLast idx c = some n ∧ Deep Q n ∧ W acc n ≤ W acc parent + nuW acc data ∧
      n.tail = none := by
  unfold parseSub
  obtain ⟨s', hs', hinv⟩ := subLoop_acc (c := c) (idx := idx) (B0 := W acc parent) hc hQ hb hd (data.length + 1)
    ⟨0, 0, parent, hasLast, false⟩ (by simp only; omega) ⟨hp, Nat.le_refl _, by simp, htl⟩
  rw [hs']
  refine ⟨_, rfl, deep_setTextOrTail _ hinv.deep (hQ _ _ (List.drop_suffix _ _).isInfix hd), ?_,
    by rw [setTextOrTail_tail]; exact hinv.tl⟩
  have h1 := W_setTextOrTail acc s'.parent s'.hasLast (data.drop s'.offset)
  have h2 := nuW_append_ge acc (data.take s'.offset) (data.drop s'.offset)
  rw [List.take_append_drop] at h2
  have := hinv.wt
  omega

theorem buildS_mono {acc : List Nat} {Q : Str → Prop} {b} {L L' : Nat} (h : BuildS acc Q b L) (hl : L' ≤ L) :
    BuildS acc Q b L' := by
  intro groups item idx h0 hg
  exact h groups item idx (by omega) (fun g hgm => ⟨by have := (hg g hgm).1; omega, (hg g hgm).2⟩)

theorem build_acc (acc : List Nat) {c : Char} (hc : isTrigC c = true) {Q : Str → Prop} (hQ : InfixClosed Q)
    (hQ0 : Q []) : ∀ f, BuildS acc Q (build c f) f := by
  intro f
  induction f with
  | zero => intro groups item idx h0; omega
  | succ f ih =>
    intro groups item idx _ hg
    have ih' : BuildS acc Q (fun g i j => build c f g i j) f := ih
    have hsub : ∀ (d : Str) (p : Node) (hl : Bool), d.length ≤ f → Q d → Deep Q p → p.tail = none →
        ∃ n, parseSub (fun g i j => build c f g i j) d p hl idx c = some n ∧ Deep Q n ∧
          W acc n ≤ W acc p + nuW acc d ∧ n.tail = none :=
      fun d p hl hdl hdt hp ht => parseSub_acc hc hQ (buildS_mono ih' hdl) hdt p hl idx hp ht
    have hget : ∀ j, (groups.getD j []).length ≤ f ∧ Q (groups.getD j []) := by
      intro j
      rcases Nat.lt_or_ge j groups.length with hj | hj
      · have hm : groups.getD j [] ∈ groups := by
          rw [List.getD_eq_getElem?_getD, List.getElem?_eq_getElem hj]; exact List.getElem_mem hj
        have := hg _ hm
        exact ⟨by omega, this.2⟩
      · rw [List.getD_eq_getElem?_getD, List.getElem?_eq_none hj]; exact ⟨by simp, hQ0⟩
    have hhead : groups.headD [] = groups.getD 0 [] := by cases groups <;> rfl
    have h0 := hget 0
    rw [← hhead] at h0
    -- the groups that are used weigh at most the sum of all groups
    have hs0 : nuW acc (groups.headD []) ≤ sumM (nuW acc) groups := by
      cases groups with
      | nil => simp [sumM]
      | cons g r => simp [sumM]
    have hs01 : nuW acc (groups.headD []) + nuW acc (groups.getD 1 []) ≤ sumM (nuW acc) groups := by
      cases groups with
      | nil => simp [sumM]
      | cons g r =>
        cases r with
        | nil => simp [sumM]
        | cons g1 r' => simp [sumM]
    unfold build
    simp only
    split
    · obtain ⟨n, hn, hdn, hwn, htn⟩ := hsub _ (mkEl item.tag1) false h0.1 h0.2 (deep_mkEl Q _) rfl
      refine ⟨n, hn, hdn, ?_, htn⟩
      rw [W_mkEl] at hwn; omega
    · obtain ⟨el2, hel2, hd2, hw2, _⟩ := hsub (groups.headD []) (mkEl item.tag2) false h0.1 h0.2 (deep_mkEl Q _) rfl
      rw [hel2]
      simp only
      have hel1 : Deep Q ((mkEl item.tag1).append el2) := deep_append (deep_mkEl Q _) hd2
      have hw1 : W acc ((mkEl item.tag1).append el2) ≤ 2 + nuW acc (groups.headD []) := by
        rw [W_append, W_mkEl]; rw [W_mkEl] at hw2; omega
      split
      · next a g1 =>
        have h1 := hget 1
        simp only [List.getD_cons_succ, List.getD_cons_zero] at h1
        obtain ⟨n, hn, hdn, hwn, htn⟩ := hsub g1 _ true h1.1 h1.2 hel1 rfl
        refine ⟨n, hn, hdn, ?_, htn⟩
        simp only [List.headD_cons, sumM] at hw1 ⊢
        omega
      · exact ⟨_, rfl, hel1, by omega, rfl⟩
    · obtain ⟨el1, hel1, hd1, hw1, ht1⟩ := hsub (groups.headD []) (mkEl item.tag1) false h0.1 h0.2 (deep_mkEl Q _) rfl
      have h1 := hget 1
      obtain ⟨el2, hel2, hd2, hw2, _⟩ := hsub (groups.getD 1 []) (mkEl item.tag2) false h1.1 h1.2 (deep_mkEl Q _) rfl
      rw [hel1, hel2]
      refine ⟨_, rfl, deep_append hd1 hd2, ?_, by simp only [Node.append]; exact ht1⟩
      rw [W_append]
      rw [W_mkEl] at hw1 hw2
      omega

end MdVerif.InlineN
