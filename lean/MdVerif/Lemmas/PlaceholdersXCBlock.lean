/-
Helper lemmas for C10 on the extension model with inline links (block stage), part 1: `Lemmas/PlaceholdersXBlock.lean`
(worker b1: the invariant of the EXTENDED block parser `BlockExt.parseBlocksXT`) re-proved from the WEAKER closure condition
of `Lemmas/PlaceholdersCBlock.lean` (worker a1).

`BlkX.StrDomX` asks for closure of the string property `P` under arbitrary infixes; here (`StrDomXC`) `P` only has to be
closed under dropping a prefix, cutting off an end `v` with `cutOK v = true` (`v` has neither `)` nor `]` before its first
line feed) and newline-joins (`BlkC.StrDomC`), plus b1's two extra closures `lower` and `lit`.  The definitions of the
invariant (`BlkX.NX`, `BlkX.TX`, `BlkX.LogC`, `BlkX.PresX`, `BlkX.ResX`, …) and the tree lemmas that need only `P []`
are b1's, used as they are; a1's `Cut` lemmas give the strings.

Part 1: the core processors under the extended dispatcher (`emptyP` … `paraP`, `quoteP`), the parameterised list
processors `listPX`, `indentPX`.  TABLES ARE LEFT OUT of the whole development (`Lemmas/PlaceholdersXCBlock2.lean`,
`parseDocumentXT_strs` for `tables = false`): the table processor cuts a row at `|`, and what follows a pipe may hold a
`)` or `]` on the same line (`[a](b | c)`), so `cutOK` fails there.  Core Lean only.
-/
import MdVerif.Lemmas.PlaceholdersXBlock4
import MdVerif.Lemmas.PlaceholdersCBlock
import MdVerif.Lemmas.PipelineXInertKeys

namespace MdVerif.NoCtl.BlkXC
open Py Block Blk BlkB BlkC BlkX

/-- `BlkC.StrDomC` (closure under dropping a prefix, cutting off an end without `)`/`]` before its first line feed,
    newline-joins) plus the closures that the extension processors need (as `BlkX.StrDomX`) -/
structure StrDomXC (p q : Char → Bool) (P : Str → Prop) : Prop extends StrDomC p q P where
  /-- `str.lower()` stays inside the character class -/
  lower : ∀ c, p c = true → ∀ d ∈ lowerChar c, p d = true
  /-- strings of literal characters -/
  lit : ∀ s : Str, (∀ c ∈ s, litChar c = true) → P s

section basics
variable {p q : Char → Bool} {P : Str → Prop}

theorem StrDomXC.litC (h : StrDomXC p q P) {s : Str} (hs : ∀ c ∈ s, litChar c = true) : AllC p s :=
  h.allc _ (h.lit s hs)

theorem allC_lower_xc (h : StrDomXC p q P) : ∀ {s : Str}, AllC p s → AllC p (Py.lower s)
  | [], _ => by simp [Py.lower, allC_nil]
  | c :: s, hs => by
    have h1 := allC_cons.1 hs
    have : Py.lower (c :: s) = lowerChar c ++ Py.lower s := by simp [Py.lower]
    rw [this]
    exact allC_append.2 ⟨fun d hd => h.lower c h1.1 d hd, allC_lower_xc h h1.2⟩

theorem nx_bnodeXP (h : StrDomC p q P) {n : Node} (hn : NX p q P n) : BNodeXP p q P n := by
  have ht := hn.text
  refine ⟨⟨hn.tag, hn.attrs, hn.tailAt, h.allc _ hn.tail, ?_, ?_, hn.codeAtom⟩, hn.tail, ?_⟩
  · cases ha : n.textAtomic with
    | true => simpa [ha] using ht
    | false =>
      simp only [ha, Bool.false_eq_true, if_false] at ht ⊢
      exact h.allc _ ht
  · intro ha; exact hn.atomCode ha
  · intro ha
    simpa [ha] using ht

theorem nx_textQ (hd : StrDomC p q P) {n : Node} (h : NX p q P n) : AllC q (n.text.getD []) := by
  have := h.text
  split at this
  · exact this
  · exact fun c hc => hd.chars.sub c (hd.allc _ this c hc)

end basics

/-! ### the processors -/

section processors
variable {p q : Char → Bool} {P : Str → Prop}

theorem preCode_textQ_xc (h : StrDomC p q P) {parent sib code : Node} (hP : TX p q P parent)
    (hl : parent.last? = some sib) (hc : preCode sib = some code) : AllC q (fmtOpt code.text) := by
  obtain ⟨_, _, tl, hch⟩ := preCode_some hc
  have hcode := ((hP.last hl).1.child (c := code) (by rw [hch]; simp)).1
  exact allC_fmtOpt h.chars.none (nx_textQ h hcode.nx)

theorem emptyP_xc (h : StrDomC p q P) {refs : Refs} {parent : Node} {b : Str} {rest : List Str}
    (hP : TX p q P parent) (hA : parent.textAtomic = false) (hR : LogC p P refs) (hb : P b)
    (hrest : PL P rest) : ResX p q P (emptyP refs parent b rest) := by
  have key : PL P (if (b.drop 1).isEmpty then rest else b.drop 1 :: rest) := pl_consIf _ (h.drop hb 1) hrest
  have hfill : AllC q (if b.isEmpty then ['\n', '\n'] else ['\n']) := by
    have := h.chars.sub _ h.chars.nl
    split <;> simp [AllC, this]
  simp only [emptyP]
  split
  · next sib hl =>
    split
    · next code hc =>
      exact ⟨setCodeText_tx hP hl hc (allC_append.2 ⟨preCode_textQ_xc h hP hl hc, hfill⟩), hA, hR, key⟩
    · exact ⟨hP, hA, hR, key⟩
  · exact ⟨hP, hA, hR, key⟩

theorem codeP_xc (h : StrDomC p q P) {tab : Nat} {refs : Refs} {parent : Node} {b : Str} {rest : List Str}
    (hP : TX p q P parent) (hA : parent.textAtomic = false) (hR : LogC p P refs) (hb : P b)
    (hrest : PL P rest) : ResX p q P (codeP tab refs parent b rest) := by
  have hd := h.detab tab hb
  have key : PL P (if (detab tab b).2.isEmpty then rest else (detab tab b).2 :: rest) := pl_consIf _ hd.2 hrest
  have hesc : AllC q (codeEscape (rstrip (detab tab b).1)) :=
    h.chars.esc _ (fun c hc => h.chars.sub c ((h.allc _ hd.1).rstrip c hc))
  have hnl : AllC q ['\n'] := AllC.nlStr (h.chars.sub _ h.chars.nl)
  have hfresh := hP.append (tx_pre (p := p) (P := P) h.nil (allC_append.2 ⟨hesc, hnl⟩)) rfl
  simp only [codeP]
  split
  · next sib hl =>
    split
    · next code hc =>
      refine ⟨setCodeText_tx hP hl hc (allC_append.2 ⟨allC_append.2 ⟨preCode_textQ_xc h hP hl hc, ?_⟩, hnl⟩),
        hA, hR, key⟩
      exact allC_cons.2 ⟨h.chars.sub _ h.chars.nl, hesc⟩
    · exact ⟨hfresh, hA, hR, key⟩
  · exact ⟨hfresh, hA, hR, key⟩

theorem hashP_xc (h : StrDomC p q P) {tab : Nat} {pb : PB} (hpb : PresX p q P pb) {state : List BState}
    {refs : Refs} {parent : Node} {b : Str} {rest : List Str} {m : Nat × Nat × Nat × Str}
    (hP : TX p q P parent) (hA : parent.textAtomic = false) (hR : LogC p P refs) (hb : P b)
    (hrest : PL P rest) (hm : hashSearch b = some m) {r : Node × Refs × List Str}
    (hr : hashP tab pb state refs parent b rest m = some r) : ResX p q P r := by
  obtain ⟨st, en, lv, header⟩ := m
  have hhd : P header := h.ofCut hb (hashSearch_cut hm).1
  simp only [hashP] at hr
  split at hr
  · cases hr
  · next parent' refs' hcall =>
    obtain ⟨h1, h2, h3⟩ := optCall_x hpb hP hA hR (h.ofCut hb (hashSearch_cut hm).2) hcall
    cases hr
    refine ⟨h1.append (tx_text h.nil (tagNoCtl_hTag lv) (hTag_ne_code lv) (txt := some (strip header))
      (h.strip hhd)) rfl, h2, h3, ?_⟩
    show PL P (if _ then _ else _)
    split
    · exact hrest
    · refine pl_cons.2 ⟨?_, hrest⟩
      split
      · exact h.looseDetab tab (h.drop hb en) 1
      · exact h.drop hb en

theorem setextP_xc (h : StrDomC p q P) {refs : Refs} {parent : Node} {b : Str} {rest : List Str}
    (hP : TX p q P parent) (hA : parent.textAtomic = false) (hR : LogC p P refs) (hb : P b)
    (hrest : PL P rest) : ResX p q P (setextP refs parent b rest) := by
  simp only [setextP]
  refine ⟨hP.append (tx_text h.nil (tagNoCtl_hTag _) (hTag_ne_code _) (txt := some (strip ((lines b).getD 0 [])))
    (h.strip (h.getD (h.lines hb) 0))) rfl, hA, hR, ?_⟩
  show PL P (if _ then _ else _)
  split
  · exact pl_cons.2 ⟨h.joinLines ((h.lines hb).mono (List.drop_subset _ _)), hrest⟩
  · exact hrest

theorem hrP_xc (h : StrDomC p q P) {pb : PB} (hpb : PresX p q P pb) {state : List BState}
    {refs : Refs} {parent : Node} {b : Str} {rest : List Str} {m : Nat × Nat}
    (hP : TX p q P parent) (hA : parent.textAtomic = false) (hR : LogC p P refs) (hb : P b)
    (hrest : PL P rest) (hm : hrSearch b = some m) {r : Node × Refs × List Str}
    (hr : hrP pb state refs parent b rest m = some r) : ResX p q P r := by
  obtain ⟨st, en⟩ := m
  simp only [hrP] at hr
  split at hr
  · cases hr
  · next parent' refs' hcall =>
    obtain ⟨h1, h2, h3⟩ := optCall_x hpb hP hA hR (h.take_lineStart hb (hrSearch_lineStart hm)) hcall
    cases hr
    refine ⟨h1.append (tx_el h.nil "hr" (by decide)) rfl, h2, h3, ?_⟩
    show PL P (if _ then _ else _)
    split
    · exact hrest
    · exact pl_cons.2 ⟨h.lstripC (h.drop hb en) '\n', hrest⟩

/-- the key of a reference definition has no `[`: the entry is not a footnote entry -/
theorem refKey_notFn {b : Str} {st en : Nat} {ident link : Str} {t5 t6 : Option Str}
    (hm : refSearch b = some (st, en, ident, link, t5, t6)) (v : Str × Option Str) :
    BlockExt.isFnEntry (lower (strip ident), v) = false := by
  have hk : '[' ∉ lower (strip ident) :=
    BlockExt.lower_bracket (fun hm' => BlockExt.refSearch_ident hm ((BlockExt.stripP_infix _ _).subset hm'))
  simp only [BlockExt.isFnEntry]
  cases hs : startsWith (lower (strip ident)) ['[', '^'] with
  | false => rfl
  | true => exact absurd (((BlockExt.startsWith_iff_prefix _ _).mp hs).subset List.mem_cons_self) hk

theorem referenceP_xc (h : StrDomXC p q P) {refs : Refs} {parent : Node} {b : Str} {rest : List Str}
    {m : Nat × Nat × Str × Str × Option Str × Option Str}
    (hP : TX p q P parent) (hA : parent.textAtomic = false) (hR : LogC p P refs) (hb : P b)
    (hrest : PL P rest) (hm : refSearch b = some m) : ResX p q P (referenceP refs parent b rest m) := by
  obtain ⟨st, en, ident, link, t5, t6⟩ := m
  obtain ⟨hbr, hurl, ht5, ht6⟩ := refSearch_sub hm
  obtain ⟨hid, hurl'⟩ := refSearch_infix hm
  have hbc := h.allc _ hb
  have hd := h.toStrDomC
  simp only [referenceP]
  refine ⟨hP, hA, ?_, ?_⟩
  · refine hR.snoc ⟨?_, ((hbc.mono hurl).lstripC '<').rstripC '>', ?_, ?_⟩
    · exact (allC_lower_xc h (hbc.mono hid.subset).strip).mono (keyOf_sub _)
    · show AllC p ((if _ then t5 else t6).getD [])
      split
      · exact hbc.mono ht5
      · exact hbc.mono ht6
    · intro hf
      rw [refKey_notFn hm] at hf; cases hf
  · show PL P (if _ then _ else _)
    have h1 : PL P (if isBlank (b.drop en) then rest else lstripC '\n' (b.drop en) :: rest) :=
      pl_consIf _ (hd.lstripC (hd.drop hb en) '\n') hrest
    split
    · exact h1
    · exact pl_cons.2 ⟨hd.take_lineStart hb (refSearch_lineStart hm), h1⟩

theorem paraP_xc (h : StrDomC p q P) {state : List BState} {refs : Refs} {parent : Node} {b : Str} {rest : List Str}
    (hP : TX p q P parent) (hA : parent.textAtomic = false) (hR : LogC p P refs) (hb : P b)
    (hrest : PL P rest) : ResX p q P (paraP state refs parent b rest) := by
  simp only [paraP]
  split
  · exact ⟨hP, hA, hR, hrest⟩
  · split
    · split
      · next sib hl =>
        have hs := hP.last hl
        have hsb := hs.1.nx
        refine ⟨hP.setLast (hs.1.congr rfl rfl ?_) hs.2, hA, hR, hrest⟩
        refine ⟨hsb.tag, hsb.attrs, rfl, ?_, hsb.text, hsb.atomCode, hsb.codeAtom⟩
        show P (if _ then _ else _)
        split
        · next ht => rw [fmtOpt_truthy ht]; exact h.joinNl _ _ hsb.tail hb
        · exact h.joinNl [] _ h.nil hb
      · have hpb := hP.nx
        refine ⟨hP.congr rfl rfl ?_, rfl, hR, hrest⟩
        refine ⟨hpb.tag, hpb.attrs, hpb.tailAt, hpb.tail, ?_, fun h' => (by cases h'),
          fun h' => by have := hpb.codeAtom h'; rw [hA] at this; cases this⟩
        show if false = true then _ else P (if _ then _ else _)
        simp only [Bool.false_eq_true, if_false]
        split
        · next ht => rw [fmtOpt_truthy ht]; exact h.joinNl _ _ (hpb.textP hA) hb
        · exact h.lstrip hb
    · exact ⟨hP.append (tx_mkText h.nil "p" (by decide) (h.lstrip hb)) rfl, hA, hR, hrest⟩

end processors

/-! ### lists, block quotes, list indentation -/

section recursive
variable {p q : Char → Bool} {P : Str → Prop}

theorem tailFix_txc (h : StrDomC p q P) {li : Node} (hL : TX p q P li) :
    TX p q P (tailFix li) ∧ (tailFix li).textAtomic = li.textAtomic ∧ (tailFix li).tag = li.tag := by
  unfold tailFix
  split
  · next lch hl =>
    split
    · have hc := hL.last hl
      have hcb := hc.1.nx
      have hlch : TX p q P { lch with tail := some [], tailAtomic := false } :=
        hc.1.congr rfl rfl ⟨hcb.tag, hcb.attrs, rfl, h.nil, hcb.text, hcb.atomCode, hcb.codeAtom⟩
      exact ⟨(hL.setLast hlch hc.2).append (tx_mkText h.nil "p" (by decide) (h.lstrip hcb.tail)) rfl, rfl, rfl⟩
    · exact ⟨hL, rfl, rfl⟩
  · exact ⟨hL, rfl, rfl⟩

theorem fixLast_txc (h : StrDomC p q P) {lst : Node} (hL : TX p q P lst) (ht : lst.tag ≠ preTag) :
    TX p q P (fixLast lst) ∧ (fixLast lst).textAtomic = lst.textAtomic ∧ (fixLast lst).tag = lst.tag := by
  unfold fixLast
  split
  · next li hl =>
    have hc := hL.last hl
    have hna := hL.lastNA hl ht
    obtain ⟨t1, t2, t3⟩ := textToP_tx h.nil hc.1 hna
    obtain ⟨f1, f2, f3⟩ := tailFix_txc h t1
    exact ⟨hL.setLast f1 (fun ha => by rw [f2, t2] at ha; cases ha), rfl, rfl⟩
  · exact ⟨hL, rfl, rfl⟩

theorem listItems_xc (h : StrDomC p q P) {tab : Nat} {pb : PB} (hpb : PresX p q P pb) {st2 : List BState} :
    ∀ (items : List Str) (refs : Refs) (lst : Node) (r : Node × Refs), TX p q P lst → lst.tag ≠ preTag →
      LogC p P refs → PL P items → listItems tab pb st2 refs lst items = some r →
      TX p q P r.1 ∧ r.1.textAtomic = lst.textAtomic ∧ r.1.tag = lst.tag ∧ LogC p P r.2
  | [], refs, lst, r, hL, _, hR, _, hr => by
    simp only [listItems] at hr
    cases hr
    exact ⟨hL, rfl, rfl, hR⟩
  | item :: items, refs, lst, r, hL, ht, hR, hI, hr => by
    have hI' := pl_cons.1 hI
    simp only [listItems] at hr
    split at hr
    · split at hr
      · next l hl =>
        split at hr
        · next li refs' hcall =>
          have hc := hL.last hl
          obtain ⟨o1, o2, o3⟩ := hpb _ _ _ _ _ hc.1 (hL.lastNA hl ht) hR (pl_one hI'.1) hcall
          exact listItems_xc h hpb items refs' (lst.setLast li) r (hL.setLastNA o1 o2) ht o3 hI'.2 hr
        · cases hr
      · exact listItems_xc h hpb items refs lst r hL ht hR hI'.2 hr
    · split at hr
      · next li refs' hcall =>
        obtain ⟨o1, o2, o3⟩ := hpb _ _ _ _ _ (tx_el h.nil "li" (by decide)) rfl hR (pl_one hI'.1) hcall
        exact listItems_xc h hpb items refs' (lst.append li) r (hL.append o1 o2) ht o3 hI'.2 hr
      · cases hr

/-! `get_items` with the `CHILD_RE` of a processor variant -/

theorem pl_getItemsStepX (h : StrDomC p q P) (ps : BlockExt.ListParams) (tab : Nat) {items : List Str} {line : Str}
    (hi : PL P items) (hl : P line) : PL P (BlockExt.getItemsStepX ps tab items line) := by
  have hone : ∀ x : Str, P x → PL P (items ++ [x]) := fun x hx => pl_append.2 ⟨hi, pl_one hx⟩
  have hmod : PL P (modifyLast (fun l => l ++ '\n' :: line) items) :=
    pl_modifyLast hi (fun s hs => h.joinNl _ _ hs hl)
  simp only [BlockExt.getItemsStepX]
  split
  · next m content hm => exact hone _ (h.ofCut hl (listItemMatch_cut hm))
  · split
    · split
      · split
        · exact hmod
        · exact hone _ hl
      · exact hone _ hl
    · exact hmod

theorem pl_foldl_getItemsStepX (h : StrDomC p q P) (ps : BlockExt.ListParams) (tab : Nat) :
    ∀ (ls : List Str) {items : List Str}, PL P ls → PL P items → PL P (ls.foldl (BlockExt.getItemsStepX ps tab) items)
  | [], _, _, hi => hi
  | l :: t, items, hls, hi => by
    have h1 := pl_cons.1 hls
    exact pl_foldl_getItemsStepX h ps tab t h1.2 (pl_getItemsStepX h ps tab hi h1.1)

theorem pl_getItemsX (h : StrDomC p q P) (ps : BlockExt.ListParams) (tab : Nat) {b : Str} (hb : P b) :
    PL P (BlockExt.getItemsX ps tab b) :=
  pl_foldl_getItemsStepX h ps tab _ (h.lines hb) pl_nil

theorem freshList_txc (h : StrDomXC p q P) (ps : BlockExt.ListParams) (tab : Nat) {tag : String}
    (htag : NoCtl tag.toList ∧ Tag.name tag.toList ≠ codeTag) {b : Str} (hb : P b) :
    TX p q P (freshList ps tab tag b) ∧ (freshList ps tab tag b).tag = .name tag.toList ∧
      (freshList ps tab tag b).textAtomic = false := by
  unfold freshList
  split
  · refine ⟨tx_fresh (txt := none) h.nil (tagNoCtl_el tag htag.1) htag.2 (attrsC_one ?_ ?_) h.nil, rfl, rfl⟩
    · exact h.litC (by decide)
    · unfold BlockExt.startsWithOf
      split
      · split
        · next marker _ hm =>
          have hbc := h.allc _ hb
          have h1 : firstLine b ⊆ b := List.takeWhile_subset _
          exact ((hbc.mono h1).mono (listItemMatch_marker_sub hm)).takeWhile _
        · exact h.litC (by decide)
      · exact h.litC (by decide)
  · exact ⟨tx_el h.nil tag htag, rfl, rfl⟩

theorem listPX_xc (h : StrDomXC p q P) (ps : BlockExt.ListParams) {tab : Nat} {pb : PB} (hpb : PresX p q P pb)
    {state : List BState} {refs : Refs} {parent : Node} {b : Str} {rest : List Str} {tag : String}
    (htag : NoCtl tag.toList ∧ Tag.name tag.toList ≠ codeTag)
    (htag' : Tag.name tag.toList ≠ preTag)
    (hP : TX p q P parent) (hA : parent.textAtomic = false) (hR : LogC p P refs) (hb : P b)
    (hrest : PL P rest) {r : Node × Refs × List Str}
    (hr : BlockExt.listPX ps tab pb state refs parent b rest tag = some r) : ResX p q P r := by
  have hd := h.toStrDomC
  have hitems : PL P (BlockExt.getItemsX ps tab b) := pl_getItemsX hd ps tab hb
  rw [listPX_eq] at hr
  split at hr
  · next lst hs =>
    obtain ⟨hl, hlt⟩ := sibListX_some hs
    have hc := hP.last hl
    obtain ⟨f1, f2, f3⟩ := fixLast_txc hd hc.1 (isListTag_notPre hlt)
    split at hr
    · cases hr
    · next newli refs' hcall =>
      obtain ⟨o1, o2, o3⟩ := hpb _ _ _ _ _ (tx_el h.nil "li" (by decide)) rfl hR (pl_one (hd.headD hitems)) hcall
      split at hr
      · next lst' refs'' hli =>
        obtain ⟨i1, i2, i3, i4⟩ := listItems_xc hd hpb _ _ _ _ (f1.append o1 o2)
          (by rw [append_tag, f3]; exact isListTag_notPre hlt) o3 (hitems.mono (List.drop_subset _ _)) hli
        cases hr
        refine ⟨hP.setLastNA i1 ?_, hA, i4, hrest⟩
        rw [i2, append_textAtomic, f2]
        exact hc.1.nx.notAtomic (isListTag_ne_code hlt)
      · cases hr
  · split at hr
    · next hlt =>
      split at hr
      · next lst' refs'' hli =>
        obtain ⟨i1, i2, i3, i4⟩ := listItems_xc hd hpb _ _ _ _ hP (isListTag_notPre hlt) hR hitems hli
        cases hr
        exact ⟨i1, i2.trans hA, i4, hrest⟩
      · cases hr
    · obtain ⟨g1, g2, g3⟩ := freshList_txc h ps tab htag hb
      split at hr
      · next lst' refs'' hli =>
        obtain ⟨i1, i2, i3, i4⟩ := listItems_xc hd hpb _ _ _ _ g1 (by rw [g2]; exact htag') hR hitems hli
        cases hr
        exact ⟨hP.append i1 (i2.trans g3), hA, i4, hrest⟩
      · cases hr

theorem listP_xc (h : StrDomXC p q P) {tab : Nat} {pb : PB} (hpb : PresX p q P pb)
    {state : List BState} {refs : Refs} {parent : Node} {b : Str} {rest : List Str} {tag : String}
    (htag : NoCtl tag.toList ∧ Tag.name tag.toList ≠ codeTag)
    (htag' : Tag.name tag.toList ≠ preTag)
    (hP : TX p q P parent) (hA : parent.textAtomic = false) (hR : LogC p P refs) (hb : P b)
    (hrest : PL P rest) {r : Node × Refs × List Str}
    (hr : listP tab pb state refs parent b rest tag = some r) : ResX p q P r := by
  rw [← BlockExt.listPX_default] at hr
  exact listPX_xc h .default hpb htag htag' hP hA hR hb hrest hr

theorem parseChunk_xc (h : StrDomC p q P) {pb : PB} (hpb : PresX p q P pb) {state : List BState} {refs : Refs}
    {parent : Node} {text : Str} (hP : TX p q P parent) (hA : parent.textAtomic = false) (hR : LogC p P refs)
    (ht : P text) {r : Node × Refs} (hr : parseChunk pb state refs parent text = some r) : OutX p q P r :=
  hpb _ _ _ _ _ hP hA hR (h.splitS ht rfl) hr

theorem quoteP_xc (h : StrDomC p q P) {pb : PB} (hpb : PresX p q P pb) {state : List BState}
    {refs : Refs} {parent : Node} {b : Str} {rest : List Str} {q0 : Nat}
    (hP : TX p q P parent) (hA : parent.textAtomic = false) (hR : LogC p P refs) (hb : P b)
    (hrest : PL P rest) (hq : quoteSearch b = some q0) {r : Node × Refs × List Str}
    (hr : quoteP pb state refs parent b rest q0 = some r) : ResX p q P r := by
  have hblock := h.quoteBlock (h.drop hb q0)
  simp only [quoteP] at hr
  split at hr
  · cases hr
  · next parent' refs' hcall =>
    obtain ⟨h1, h2, h3⟩ := hpb _ _ _ _ _ hP hA hR (pl_one (h.ofCut hb (quoteSearch_cut hq))) hcall
    split at hr
    · next sib hs =>
      have hsib : parent'.last? = some sib ∧ sib.isTag "blockquote" = true := by
        split at hs
        · next s hl =>
          split at hs
          · next ht => cases hs; exact ⟨hl, ht⟩
          · cases hs
        · cases hs
      have hc := h1.last hsib.1
      have hna : sib.textAtomic = false := by
        apply hc.1.nx.notAtomic
        rw [isTag_iff.1 hsib.2]; decide
      split at hr
      · next quote refs'' hq =>
        obtain ⟨o1, o2, o3⟩ := parseChunk_xc h hpb hc.1 hna h3 hblock hq
        cases hr
        exact ⟨h1.setLastNA o1 o2, h2, o3, hrest⟩
      · cases hr
    · split at hr
      · next quote refs'' hq =>
        obtain ⟨o1, o2, o3⟩ := parseChunk_xc h hpb (tx_el h.nil "blockquote" (by decide)) rfl h3 hblock hq
        cases hr
        exact ⟨h1.append o1 o2, h2, o3, hrest⟩
      · cases hr

/-- `ListIndentProcessor.run` with the tag lists as parameters: list and item tags are not `code`, the tag of a new
    item is a literal -/
theorem indentPX_xc (h : StrDomC p q P) {isL isI : Node → Bool} {itemTag : String}
    (hL : ∀ n, isL n = true → n.tag ≠ codeTag) (hI : ∀ n, isI n = true → n.tag ≠ codeTag)
    (hit : NoCtl itemTag.toList ∧ Tag.name itemTag.toList ≠ codeTag)
    {tab : Nat} {pb : PB} (hpb : PresX p q P pb) {state : List BState}
    {refs : Refs} {parent : Node} {b : Str} {rest : List Str}
    (hP : TX p q P parent) (hA : parent.textAtomic = false) (hR : LogC p P refs) (hb : P b)
    (hrest : PL P rest) {r : Node × Refs × List Str}
    (hr : BlockExt.indentPX isL isI itemTag tab pb state refs parent b rest = some r) : ResX p q P r := by
  unfold BlockExt.indentPX at hr
  generalize BlockExt.getLevelX isL isI tab state parent b = ls at hr
  obtain ⟨level, steps⟩ := ls
  simp only [] at hr
  have hblock := h.looseDetab tab hb level
  have hS := nodeAt_tx steps hP
  split at hr
  · split at hr
    · next c hs =>
      have hc : parent.last? = some c ∧ isL c = true := by
        split at hs
        · next s hl =>
          split at hs
          · next ht => cases hs; exact ⟨hl, ht⟩
          · cases hs
        · cases hs
      have hl := hP.last hc.1
      split at hr
      · next sub refs' hq =>
        obtain ⟨o1, o2, o3⟩ := hpb _ _ _ _ _ hl.1 (hl.1.nx.notAtomic (hL _ hc.2)) hR (pl_one hblock) hq
        cases hr
        exact ⟨hP.setLastNA o1 o2, hA, o3, hrest⟩
      · cases hr
    · split at hr
      · next par' refs' hq =>
        obtain ⟨o1, o2, o3⟩ := hpb _ _ _ _ _ hP hA hR (pl_one hblock) hq
        cases hr
        exact ⟨o1, o2, o3, hrest⟩
      · cases hr
  · split at hr
    · next hit' =>
      split at hr
      · next sub refs' hq =>
        have hna := hS.nx.notAtomic (hI _ hit')
        obtain ⟨o1, o2, o3⟩ := hpb _ _ _ _ _ hS hna hR (pl_one hblock) hq
        cases hr
        obtain ⟨u1, u2⟩ := updPath_tx (fun _ => sub) steps hP ⟨o1, o2.trans hna.symm⟩
        exact ⟨u1, u2.trans hA, o3, hrest⟩
      · cases hr
    · split at hr
      · next li hs =>
        have hc : (nodeAt steps parent).last? = some li ∧ isI li = true := by
          split at hs
          · next s hl =>
            split at hs
            · next ht => cases hs; exact ⟨hl, ht⟩
            · cases hs
          · cases hs
        have hl := hS.last hc.1
        obtain ⟨t1, t2, _⟩ := textToP_tx h.nil hl.1 (hl.1.nx.notAtomic (hI _ hc.2))
        split at hr
        · next li' refs' hq =>
          obtain ⟨o1, o2, o3⟩ := parseChunk_xc h hpb t1 t2 hR hblock hq
          cases hr
          obtain ⟨u1, u2⟩ := updPath_tx (fun s => s.setLast li') steps hP ⟨hS.setLastNA o1 o2, rfl⟩
          exact ⟨u1, u2.trans hA, o3, hrest⟩
        · cases hr
      · split at hr
        · next li' refs' hq =>
          obtain ⟨o1, o2, o3⟩ := hpb _ _ _ _ _ (tx_el h.nil itemTag hit) rfl hR (pl_one hblock) hq
          cases hr
          obtain ⟨u1, u2⟩ := updPath_tx (fun s => s.append li') steps hP ⟨hS.append o1 o2, rfl⟩
          exact ⟨u1, u2.trans hA, o3, hrest⟩
        · cases hr

theorem indentP_xc (h : StrDomC p q P) {tab : Nat} {pb : PB} (hpb : PresX p q P pb) {state : List BState}
    {refs : Refs} {parent : Node} {b : Str} {rest : List Str}
    (hP : TX p q P parent) (hA : parent.textAtomic = false) (hR : LogC p P refs) (hb : P b)
    (hrest : PL P rest) {r : Node × Refs × List Str}
    (hr : indentP tab pb state refs parent b rest = some r) : ResX p q P r := by
  rw [← BlockExt.indentPX_core] at hr
  exact indentPX_xc h (fun _ => isListTag_ne_code) (fun _ => isItemTag_ne_code) (by decide) hpb hP hA hR hb hrest hr

end recursive

end MdVerif.NoCtl.BlkXC
