/-
Helper lemmas for `Props/C15Text.lean`, part 3: one turn of the pattern loop at a reference `[text][label]` whose
text is any string without brackets (placeholders and emphasis markup allowed): `handleMatch` of
`ReferenceInlineProcessor`, the nested `__handleInline(text, patternIndex + 1)`, the stashed `<a>` element.
Core Lean only.
-/
import MdVerif.Lemmas.RefTextPass
import MdVerif.Lemmas.InlineRefForms

namespace MdVerif.RefText
open Py Inline Escape CodeLaw DocParse DocParse2

/-- `handleMatch` of `ReferenceInlineProcessor` at `[text][label]`, label defined; `text` without brackets -/
theorem linkHandle_ref2' (cfg : Inline.Cfg) (stash : List StashItem) (pi : Nat) (hpi : pi = 2)
    (A text sp label post : Str) (mstart : Nat)
    (h1 : '[' ∉ text) (h2 : ']' ∉ text) (hsp : sp = [] ∨ ∃ c, sp = [c] ∧ isSpace c = true) (hl : ']' ∉ label)
    (k href : Str) (title : Option Str)
    (hfind : cfg.refs.find? (fun x => x.1 = InlineRef.useKey text label) = some (k, href, title)) :
    linkHandle cfg stash pi (A ++ text ++ ']' :: sp ++ '[' :: label ++ ']' :: post) mstart A.length =
      some ⟨.el (InlineRef.linkEl href title text), mstart,
        ((A ++ text ++ [']']).length + sp.length + label.length + 2 : Nat)⟩ := by
  have hdata : A ++ text ++ ']' :: sp ++ '[' :: label ++ ']' :: post =
      A ++ text ++ ']' :: (sp ++ '[' :: label ++ ']' :: post) := by simp [List.append_assoc]
  have hg := InlineRef.getText_plain A text (sp ++ '[' :: label ++ ']' :: post) h1 h2
  have hdata2 : A ++ text ++ ']' :: sp ++ '[' :: label ++ ']' :: post =
      (A ++ text ++ [']']) ++ sp ++ '[' :: label ++ ']' :: post := by simp [List.append_assoc]
  have he := InlineRef.evalId_spec (A ++ text ++ [']']) sp label post text hsp hl
  have hlen : (A ++ text ++ [']']).length = A.length + text.length + 1 := by simp; omega
  rw [hlen, ← hdata2, hdata] at he
  have hkey : wsClean (if label.isEmpty then lower text else lower label) = InlineRef.useKey text label := by
    unfold InlineRef.useKey; split <;> exact InlineRef.wsClean_lower _
  have hp34 : (decide (pi = 3) || decide (pi = 4)) = false := by subst hpi; rfl
  have hp67 : (decide (pi = 6) || decide (pi = 7)) = false := by subst hpi; rfl
  have himg : (decide (pi = 4) || decide (pi = 5) || decide (pi = 7)) = false := by subst hpi; rfl
  unfold linkHandle
  rw [hdata, hg]
  simp only [Bool.not_true, Bool.false_eq_true, if_false, hp34, hp67, himg, he, hkey, hlen, hfind]
  simp [InlineRef.linkEl]

theorem linkHandle_ref2 (cfg : Inline.Cfg) (stash : List StashItem) (A text sp label post : Str) (mstart : Nat)
    (h1 : '[' ∉ text) (h2 : ']' ∉ text) (hsp : sp = [] ∨ ∃ c, sp = [c] ∧ isSpace c = true) (hl : ']' ∉ label)
    (k href : Str) (title : Option Str)
    (hfind : cfg.refs.find? (fun x => x.1 = InlineRef.useKey text label) = some (k, href, title)) :
    linkHandle cfg stash 2 (A ++ text ++ ']' :: sp ++ '[' :: label ++ ']' :: post) mstart A.length =
      some ⟨.el (InlineRef.linkEl href title text), mstart,
        ((A ++ text ++ [']']).length + sp.length + label.length + 2 : Nat)⟩ :=
  linkHandle_ref2' cfg stash 2 rfl A text sp label post mstart h1 h2 hsp hl k href title hfind

theorem findMatch2_eq (cfg : Inline.Cfg) (st : St) (data : Str) :
    findMatch cfg 2 data 0 st = some (linkScan cfg st.stash 2 data none data 0, st) := by
  simp [findMatch]

/-- pattern 2 finds the reference when what stands before has no `[` and no `!` -/
theorem findMatch2_at (cfg : Inline.Cfg) (st : St) (pre text sp label post : Str) (hp1 : '[' ∉ pre)
    (hp2 : '!' ∉ pre) (h1 : '[' ∉ text) (h2 : ']' ∉ text) (hsp : sp = [] ∨ ∃ c, sp = [c] ∧ isSpace c = true)
    (hl : ']' ∉ label) (k href : Str) (title : Option Str)
    (hfind : cfg.refs.find? (fun x => x.1 = InlineRef.useKey text label) = some (k, href, title)) :
    findMatch cfg 2 (pre ++ '[' :: (text ++ ']' :: sp ++ '[' :: label ++ ']' :: post)) 0 st =
      some (some ⟨.el (InlineRef.linkEl href title text), pre.length,
            (((pre ++ ['[']) ++ text ++ [']']).length + sp.length + label.length + 2 : Nat)⟩, st) := by
  have hD : pre ++ '[' :: (text ++ ']' :: sp ++ '[' :: label ++ ']' :: post) =
      (pre ++ ['[']) ++ text ++ ']' :: sp ++ '[' :: label ++ ']' :: post := by simp [List.append_assoc]
  have hlh := linkHandle_ref2 cfg st.stash (pre ++ ['[']) text sp label post pre.length h1 h2 hsp hl k href title hfind
  have hscan := InlineRef.linkScan_link_at cfg st.stash 2 (by decide)
    (pre ++ '[' :: (text ++ ']' :: sp ++ '[' :: label ++ ']' :: post)) pre
    (text ++ ']' :: sp ++ '[' :: label ++ ']' :: post) none 0 hp1 hp2 (by simp)
  have hlen : (pre ++ ['[']).length = 0 + pre.length + 1 := by simp
  rw [hlen, ← hD] at hlh
  simp only [Nat.zero_add] at hscan hlh
  rw [hlh] at hscan
  rw [findMatch2_eq, hscan]

/-- the `<a>` element of a reference with its text replaced -/
theorem linkEl_text (href : Str) (title : Option Str) (text text' : Str) :
    ({ InlineRef.linkEl href title text with text := some text' } : Node) = InlineRef.linkEl href title text' := by
  unfold InlineRef.linkEl
  split <;> rfl

/-- **one turn of the pattern loop at a reference**: the text goes through the nested `__handleInline` from the next
    pattern on, the `<a>` element with the resulting text is stashed, a placeholder takes the place of the whole
    reference -/
theorem applyPattern_refAt (cfg : Inline.Cfg) (hi : HI) (st st1 : St) (pre text text' sp label post : Str)
    (hp1 : '[' ∉ pre) (hp2 : '!' ∉ pre) (h1 : '[' ∉ text) (h2 : ']' ∉ text)
    (hsp : sp = [] ∨ ∃ c, sp = [c] ∧ isSpace c = true) (hl : ']' ∉ label) (k href : Str) (title : Option Str)
    (hfind : cfg.refs.find? (fun x => x.1 = InlineRef.useKey text label) = some (k, href, title))
    (hne : text ≠ []) (hnest : hi text 3 st = some (text', st1)) :
    applyPattern cfg hi 2 (pre ++ '[' :: (text ++ ']' :: sp ++ '[' :: label ++ ']' :: post)) 0 st =
      some (pre ++ (placeholder st1.stash.length ++ post), true, 0,
        { st1 with stash := st1.stash ++ [.node (InlineRef.linkEl href title text')] }) := by
  have hf := findMatch2_at cfg st pre text sp label post hp1 hp2 h1 h2 hsp hl k href title hfind
  obtain ⟨e1, e2, e3, e4, e5, e6⟩ := InlineRef.linkEl_fields href title text
  have htr : Node.truthy (some text) = true := by
    cases text with
    | nil => exact absurd rfl hne
    | cons a b => rfl
  have htake : (pre ++ '[' :: (text ++ ']' :: sp ++ '[' :: label ++ ']' :: post)).take pre.length = pre := by simp
  have hdrop : (pre ++ '[' :: (text ++ ']' :: sp ++ '[' :: label ++ ']' :: post)).drop
      (((pre ++ ['[']) ++ text ++ [']']).length + sp.length + label.length + 2) = post := by
    have : pre ++ '[' :: (text ++ ']' :: sp ++ '[' :: label ++ ']' :: post) =
        ((pre ++ ['[']) ++ text ++ [']'] ++ sp ++ ['['] ++ label ++ [']']) ++ post := by simp [List.append_assoc]
    rw [this, List.drop_left' (by simp; omega)]
  have hr : hiOpt hi (InlineRef.linkEl href title text).text (InlineRef.linkEl href title text).textAtomic (2 + 1) st =
      some (some text', st1) := by
    rw [e4, e3]
    simp [hiOpt, htr, hnest]
  have hr2 : ∀ b st', hiOpt hi none b 2 st' = some (none, st') := by intro b st'; simp [hiOpt, Node.truthy]
  simp only [applyPattern, hf]
  have hno : ((InlineRef.linkEl href title text).text.isSome && (InlineRef.linkEl href title text).textAtomic) = false := by
    rw [e3]; simp
  simp only [hno, Bool.false_eq_true, if_false, hiNode, hr, e2, hr2, e1, hiNodes, stashNode, InlineRef.pyDrop_nat,
    htake, hdrop]
  rw [← linkEl_text href title text text']
  generalize InlineRef.linkEl href title text = L at e1 e2
  obtain ⟨tag, attrs, tx, ta, ch, tl, tla⟩ := L
  simp only at e1 e2
  subst e1 e2
  simp [List.append_assoc]

end MdVerif.RefText
