/-
`DeepC c` of the tree handed to the inline stage (`blockStage_tree`): block parser and footnote tree processor.
Core Lean only.
-/
import MdVerif.Lemmas.PipelineXInertTree3

namespace MdVerif.PipelineX
open Py Pipeline BlockExt InlineX

variable {c : Char}

theorem addBacklink_tree (hs : BlockSafeC c) {li bl li' : Node} (hli : DeepC c li) (hbl : DeepC c bl)
    (h : FootnotesTree.addBacklink li bl = some li') : DeepC c li' := by
  simp only [FootnotesTree.addBacklink] at h
  split at h
  · injection h with h; exact h ▸ hli
  · rename_i node hnode
    have hnodeD := DeepC_last hli hnode
    split at h
    · split at h
      · rename_i t ht
        injection h with h
        rw [← h]
        apply DeepC_setLast hli
        have h' := (DeepC_iff node).mp hnodeD
        rw [DeepC_iff]
        refine ⟨?_, h'.2.1, ?_⟩
        · intro s hs'; cases hs'
          intro hm
          rcases List.mem_append.mp hm with hm | hm
          · exact h'.1 t ht hm
          · exact hs.fn2 hm
        · intro k hk
          simp only [List.mem_append, List.mem_singleton] at hk
          rcases hk with hk | hk
          · exact h'.2.2 k hk
          · exact hk ▸ hbl
      · cases h
    · injection h with h
      rw [← h]
      apply DeepC_append hli
      apply DeepC_children _ (DeepC_el "p")
      intro k hk
      simp only [List.mem_singleton] at hk
      exact hk ▸ hbl

theorem backlink_tree (hs : BlockSafeC c) (id : Str) (index : Nat) : DeepC c (FootnotesTree.backlink id index) := by
  unfold DeepC; rw [deepC_eq]
  have := hs.fn1
  simp [FootnotesTree.backlink, FootnotesTree.el, optC, deepCs, List.contains_iff_mem, this]

theorem makeLis_tree (hs : BlockSafeC c) {parse : Block.Refs → Str → Option (Node × Block.Refs)}
    {fc : Block.Refs → Nat} (H : ∀ log text n r, NoC c text → parse log text = some (n, r) → DeepC c n) :
    ∀ (l : List (Str × Str)) (index : Nat) (log : Block.Refs) {lis : List Node} {log' : Block.Refs},
      (∀ kv ∈ l, NoC c kv.2) → FootnotesTree.makeLis parse fc l index log = .ok (lis, log') →
      ∀ li ∈ lis, DeepC c li := by
  intro l
  induction l with
  | nil =>
    intro index log lis log' _ h
    simp only [FootnotesTree.makeLis] at h
    injection h with h
    injection h with h _
    rw [← h]; intro li hli; cases hli
  | cons kv l ih =>
    intro index log lis log' hl h
    obtain ⟨id, text⟩ := kv
    simp only [FootnotesTree.makeLis] at h
    split at h
    · cases h
    · rename_i sur log1 hp
      have hsur := H _ _ _ _ (hl (id, text) List.mem_cons_self) hp
      split at h
      · cases h
      · split at h
        · cases h
        · rename_i li' hli'
          have hliD : DeepC c li' := by
            apply addBacklink_tree hs _ (backlink_tree hs id index) hli'
            unfold DeepC; rw [deepC_eq]
            simp only [FootnotesTree.el, optC, Bool.true_and]
            rw [deepCs_iff]
            exact DeepC_kids hsur
          split at h
          · rename_i lis2 log2 hrec
            injection h with h
            injection h with h _
            rw [← h]
            intro li hli
            rcases List.mem_cons.mp hli with hli | hli
            · exact hli ▸ hliD
            · exact ih _ _ (fun kv hkv => hl kv (List.mem_cons_of_mem _ hkv)) hrec li hli
          · cases h
          · cases h

mutual
theorem placeNode_tree (div : Node) (hdiv : DeepC c div) : ∀ (n : Node) {n' : Node}, DeepC c n →
    FootnotesTree.placeNode div n = some n' → DeepC c n'
  | ⟨tag, attrs, text, ta, children, tail, tla⟩, n', hn, h => by
    simp only [FootnotesTree.placeNode] at h
    split at h
    · rename_i ks hks
      injection h with h
      rw [← h]
      have h' := (DeepC_iff _).mp hn
      rw [DeepC_iff]
      exact ⟨h'.1, h'.2.1, placeKids_tree div hdiv children (fun k hk => h'.2.2 k hk) hks⟩
    · cases h
theorem placeKids_tree (div : Node) (hdiv : DeepC c div) : ∀ (l : List Node) {l' : List Node}, (∀ k ∈ l, DeepC c k) →
    FootnotesTree.placeKids div l = some l' → ∀ k ∈ l', DeepC c k
  | [], l', _, h => by simp [FootnotesTree.placeKids] at h
  | a :: r, l', hl, h => by
    simp only [FootnotesTree.placeKids] at h
    have ha := hl a List.mem_cons_self
    have hr : ∀ k ∈ r, DeepC c k := fun k hk => hl k (List.mem_cons_of_mem _ hk)
    split at h
    · injection h with h
      rw [← h]
      intro k hk
      rcases List.mem_cons.mp hk with hk | hk
      · exact hk ▸ hdiv
      · exact hr k hk
    · split at h
      · injection h with h
        rw [← h]
        intro k hk
        rcases List.mem_cons.mp hk with hk | hk
        · exact hk ▸ DeepC_noTail ha
        · rcases List.mem_cons.mp hk with hk | hk
          · exact hk ▸ hdiv
          · exact hr k hk
      · split at h
        · rename_i a' ha'
          injection h with h
          rw [← h]
          intro k hk
          rcases List.mem_cons.mp hk with hk | hk
          · exact hk ▸ placeNode_tree div hdiv a ha ha'
          · exact hr k hk
        · split at h
          · rename_i r' hr'
            injection h with h
            rw [← h]
            intro k hk
            rcases List.mem_cons.mp hk with hk | hk
            · exact hk ▸ ha
            · exact placeKids_tree div hdiv r hr hr' k hk
          · cases h
end

/-- on a text without `c`, the tree handed to the inline stage is `c`-free -/
theorem blockStage_tree (hs : BlockSafeC c) (tables footnotes : Bool) (bc : BlockExt.XCfg) (cfg : Cfg) {text : Str}
    (hok : NoC c text) {root : Node} {log : Block.Refs} (h : blockStage tables footnotes bc cfg text = .ok (root, log)) :
    DeepC c root := by
  have hc := hc_of hs
  have hn := parseBlocksXT_tree hs tables bc cfg.tab
  have hlog := parseBlocksXT_log hc tables bc cfg.tab (logStep_logOk hc bc)
  simp only [blockStage, parseDocumentXT] at h
  split at h
  · cases h
  · rename_i root0 log0 hp
    have hroot0 : DeepC c root0 := NSound.chunk hs (hn _) [] [] (Node.el "div") hok (DeepC_el _) root0 log0 hp
    have hlog0 : LogOk (NoC c) log0 := (hlog _).chunk hc [] [] (Node.el "div") hok LogOk.nil root0 log0 hp
    cases footnotes with
    | false =>
      simp only [Bool.false_eq_true, if_false] at h
      injection h with h
      injection h with h _
      exact h ▸ hroot0
    | true =>
      simp only [if_true] at h
      cases hm : FootnotesTree.makeDiv (parseChunkB tables bc cfg) fnCount (footnotesOf log0) log0 with
      | oof => rw [hm] at h; cases h
      | ood => rw [hm] at h; cases h
      | ok r =>
        obtain ⟨d, log'⟩ := r
        rw [hm] at h
        cases d with
        | none =>
          injection h with h
          injection h with h _
          exact h ▸ hroot0
        | some div =>
          injection h with h
          injection h with h _
          rw [← h]
          have hdiv : DeepC c div := by
            simp only [FootnotesTree.makeDiv] at hm
            split at hm
            · cases hm
            · split at hm
              · rename_i lis log2 hml
                injection hm with hm
                injection hm with hm _
                injection hm with hm
                rw [← hm]
                have hlis := makeLis_tree hs (parse := parseChunkB tables bc cfg)
                  (fun log text n r ht hp' => NSound.chunk hs (hn _) [] log (Node.el "div") ht (DeepC_el _) n r hp')
                  _ _ _ (footnotesOf_ok hlog0) hml
                unfold DeepC; rw [deepC_eq]
                simp only [FootnotesTree.el, optC, deepCs, Bool.true_and, Bool.and_true]
                refine Bool.and_eq_true_iff.mpr ⟨?_, ?_⟩
                · rw [deepC_eq]; simp [optC, deepCs]
                · rw [deepC_eq]
                  simp only [optC, Bool.true_and]
                  rw [deepCs_iff]
                  exact hlis
              · cases hm
              · cases hm
          simp only [FootnotesTree.placeDiv]
          split
          · rename_i r' hr'
            exact placeNode_tree div hdiv root0 hroot0 hr'
          · exact DeepC_append hroot0 hdiv

end MdVerif.PipelineX
