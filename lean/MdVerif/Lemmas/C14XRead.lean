/-
Helper lemmas for C14 on the extension pipeline (`Props/C14X.lean`), part 6: reading the two documents back.
When the raw-HTML stash is empty and the tree holds no STX/ETX, the postprocessors are the identity and the output
of `convertX` is the stripped content of the wrapper `div`; for a well-formed tree whose top-level nodes are named
elements this is the content of a trimmed root (`Vocab2.trimRoot`, format independent), which the strict reader
(`Spec/Reader.lean`) accepts in both formats with the same result.  The lemmas of `Lemmas/InlineVocab.lean` about the
strip are stated for the core vocabulary (`GoodList`); here they are re-proved for `WFList` + named elements.
Core Lean only.
-/
import MdVerif.Lemmas.C14XDoc
import MdVerif.Lemmas.DocFormats
import MdVerif.Lemmas.VocabXPipe

namespace MdVerif.C14X
open Py Ser PipelineX Pipeline Vocab2

def isNamed (n : Node) : Bool := match n.tag with | .name _ => true | _ => false
def namedL (l : List Node) : Bool := l.all isNamed

/-- the serialisation of a well-formed named element: a tag from `<` to `>`, then the escaped tail -/
theorem serialize_named_shape (fmt : Fmt) (n : Node) (hwf : WFTree n = true) (hn : isNamed n = true) :
    ∃ E, serialize fmt n = '<' :: E ++ '>' :: tailStr n := by
  obtain ⟨tag, attrs, text, ta, children, tail, tla⟩ := n
  cases tag with
  | name t =>
    simp only [WFTree, Bool.and_eq_true] at hwf
    obtain ⟨⟨_, hshape⟩, _⟩ := hwf
    simp only [serialize, element_none, tailStr]
    split
    · exact ⟨t ++ (writeAttrs fmt (sortAttrs attrs) ++ " /".toList), by simp⟩
    · by_cases hv : isEmptyTag t = true
      · simp only [hv, if_true, Bool.and_eq_true, Bool.not_eq_true', List.isEmpty_iff] at hshape
        obtain ⟨hnt, hch⟩ := hshape
        subst hch
        refine ⟨t ++ writeAttrs fmt (sortAttrs attrs), ?_⟩
        simp [hv, hnt, serializeList]
      · have hnv : isEmptyTag t = false := by simpa using hv
        refine ⟨t ++ (writeAttrs fmt (sortAttrs attrs) ++ '>' ::
          ((if Node.truthy text then (if isRawTextTag t then text.getD [] else escCdata (text.getD [])) else []) ++
            (serializeList fmt children ++ ("</".toList ++ t)))), ?_⟩
        simp [hnv]
  | _ => simp [isNamed] at hn

theorem wfTree_tail (n : Node) (tl : Option Str) (b : Bool) :
    WFTree { n with tail := tl, tailAtomic := b } = WFTree n := by
  obtain ⟨tag, attrs, text, ta, children, tail, tla⟩ := n
  simp only [WFTree]

theorem isNamed_tail (n : Node) (tl : Option Str) (b : Bool) :
    isNamed { n with tail := tl, tailAtomic := b } = isNamed n := rfl

theorem rstripLast_wf : ∀ (l : List Node), WFList l = true → WFList (rstripLast l) = true
  | [], _ => rfl
  | [n], h => by
    simp only [WFList, Bool.and_eq_true, and_true] at h ⊢
    simp only [rstripLast, WFList, Bool.and_true]
    obtain ⟨tag, attrs, text, ta, children, tail, tla⟩ := n
    simp only [WFTree] at h ⊢
    exact h
  | n :: m :: r, h => by
    simp only [WFList, Bool.and_eq_true] at h
    have := rstripLast_wf (m :: r) (by simp only [WFList, Bool.and_eq_true]; exact h.2)
    simp only [rstripLast, WFList, Bool.and_eq_true] at this ⊢
    exact ⟨h.1, this⟩

theorem rstrip_serializeList' (fmt : Fmt) : ∀ (l : List Node), l ≠ [] → WFList l = true → namedL l = true →
    ∀ (P : Str), rstrip (P ++ serializeList fmt l) = P ++ serializeList fmt (rstripLast l)
  | [], h, _, _, _ => absurd rfl h
  | [n], _, hg, hn, P => by
    simp only [WFList, Bool.and_eq_true, and_true] at hg
    simp only [namedL, List.all_cons, List.all_nil, Bool.and_true] at hn
    have hgn : WFTree { n with tail := none, tailAtomic := false } = true := by rw [wfTree_tail]; exact hg
    obtain ⟨E, hE⟩ := serialize_named_shape fmt _ hgn (by rw [isNamed_tail]; exact hn)
    have hE' : serialize fmt { n with tail := none, tailAtomic := false } = '<' :: E ++ ['>'] := by
      rw [hE]; simp [tailStr, Node.truthy]
    simp only [rstripLast, serializeList, List.append_nil]
    rw [serialize_split fmt n, serialize_split fmt { n with tail := _ }]
    simp only [hE']
    simp only [tailStr]
    rw [trimOpt_truthy rstrip n.tail]
    by_cases ht : Node.truthy n.tail = true
    · simp only [ht, ↓reduceIte]
      rw [← List.append_assoc, rstrip_append_esc]
      split
      · rw [rstrip_gt]; simp
      · simp
    · simp only [ht, Bool.false_eq_true, ↓reduceIte, List.append_nil]
      exact rstrip_gt P E
  | n :: m :: r, _, hg, hn, P => by
    simp only [WFList, Bool.and_eq_true] at hg
    simp only [namedL, List.all_cons, Bool.and_eq_true] at hn
    have ih := rstrip_serializeList' fmt (m :: r) (by simp)
      (by simp only [WFList, Bool.and_eq_true]; exact hg.2)
      (by simp only [namedL, List.all_cons, Bool.and_eq_true]; exact hn.2) (P ++ serialize fmt n)
    simp only [rstripLast, serializeList] at ih ⊢
    simpa [List.append_assoc] using ih

theorem serializeList_head' (fmt : Fmt) (l : List Node) (h : WFList l = true) (hn : namedL l = true) :
    ∀ c, (serializeList fmt l).head? = some c → isSpace c = false := by
  intro c hc
  cases l with
  | nil => simp [serializeList] at hc
  | cons n r =>
    simp only [WFList, Bool.and_eq_true] at h
    simp only [namedL, List.all_cons, Bool.and_eq_true] at hn
    obtain ⟨E, hE⟩ := serialize_named_shape fmt n h.1 hn.1
    simp only [serializeList, hE] at hc
    simp at hc; subst hc; decide

/-- the stripped content of the wrapper is the content of the trimmed root -/
theorem strip_inner' (fmt : Fmt) (root : Node) (hk : WFList root.children = true) (hn : namedL root.children = true) :
    strip (inner fmt root) = inner fmt (trimRoot root) ∧ WFList (trimRoot root).children = true := by
  have hl := lstrip_textStr_append root.text (serializeList fmt root.children) (serializeList_head' fmt _ hk hn)
  have hs : strip (inner fmt root) = rstrip (lstrip (inner fmt root)) := rfl
  rw [hs, inner_eq, hl]
  unfold trimRoot
  cases hc : root.children with
  | nil =>
    simp only [serializeList, List.append_nil, inner_eq]
    refine ⟨?_, rfl⟩
    rw [textStr_trimOpt rstrip]
    generalize trimOpt lstrip root.text = t1
    unfold textStr
    by_cases ht : Node.truthy t1 = true
    · simp only [ht, ↓reduceIte]
      have := rstrip_append_esc [] (t1.getD [])
      simp only [List.nil_append] at this
      rw [this]
      split
      · rfl
      · rfl
    · simp only [ht, Bool.false_eq_true, ↓reduceIte]; rfl
  | cons c cs =>
    rw [hc] at hk hn
    simp only [inner_eq]
    exact ⟨rstrip_serializeList' fmt (c :: cs) (by simp) hk hn _, rstripLast_wf _ hk⟩

/-- the content of a wrapper with well-formed children is accepted by the strict reader -/
theorem inner_reads' (fmt : Fmt) (root : Node) (hk : WFList root.children = true) :
    readForest fmt (inner fmt root) = some (innerForest root) := by
  have hk' := reads_list fmt root.children hk [] [] (reads_nil fmt)
  have ht := reads_textItem fmt root.text _ _ hk'
  simp only [List.append_nil] at ht
  have h2 := ht [] [] [] ((inner fmt root).length + 1) noLt_nil transp_nil_nil (Or.inl rfl)
    (by simp [inner])
  simp only [List.append_nil, List.nil_append] at h2
  have e : inner fmt root =
      (if Node.truthy root.text = true then escCdata (root.text.getD []) else []) ++ serializeList fmt root.children :=
    rfl
  rw [e] at h2
  simp only [readForest, e, h2, mergeTexts_nil_text, innerForest]


/-! ### empty stash, no STX: the postprocessors are the identity -/

theorem not_contains_of_not_mem {s pat : Str} {c : Char} (hp : c ∈ pat) (hs : c ∉ s) : contains s pat = false := by
  rw [contains_eq_false_iff]
  rintro p q rfl
  exact hs (by simp [hp])

theorem finishX_plain (x : Exts) (cfg : Cfg) (fmt : Fmt) (u : Node) (hd : rootDiv u = true)
    (hs : Post.STX ∉ inner fmt u) : finishX x cfg [] (serialize fmt u) = .ok (strip (inner fmt u)) := by
  have hs' : Post.STX ∉ strip (inner fmt u) := fun h => hs ((strip_infix _).subset h)
  have h1 : replace (strip (inner fmt u)) FootnotesTree.fnBacklinkText "&#8617;".toList = strip (inner fmt u) :=
    replace_id_of_not_contains _ (not_contains_of_not_mem (c := Post.STX) (by decide) hs')
  have h2 : replace (strip (inner fmt u)) FootnotesTree.nbspPlaceholder "&#160;".toList = strip (inner fmt u) :=
    replace_id_of_not_contains _ (not_contains_of_not_mem (c := Post.STX) (by decide) hs')
  have h3 : replace (strip (inner fmt u)) Post.ampSubstitute ['&'] = strip (inner fmt u) :=
    replace_id_of_not_contains _ (not_contains_of_not_mem (c := Post.STX) (by decide) hs')
  simp only [finishX, topLevelStrip_div _ u hd, postX, Post.rawHtml, Post.rawHtmlFuel, List.isEmpty_nil, if_true,
    List.length_nil, Option.map_some, FootnotesTree.postprocess, Post.ampSub]
  split
  · rw [h1, h2, h3, strip_idem]
  · rw [h3, strip_idem]

theorem inner_no_stx (fmt : Fmt) (u : Node) (hd : rootDiv u = true) (hc : NoCtl.TreeNoCtl u) :
    Post.STX ∉ inner fmt u := by
  have hs := NoCtl.serialize_noctl fmt hc
  rw [serialize_div fmt u hd] at hs
  have h1 := (NoCtl.noCtl_append.1 hs).1
  have h2 := (NoCtl.noCtl_append.1 h1).1
  have h3 := (NoCtl.noCtl_append.1 h2).2
  exact h3.1

theorem namedL_of_NI {qt : Tag → List (Str × Str) → Bool} (hq : ∀ tag as, qt tag as = true → ∃ t, tag = .name t)
    {u : Node} (h : BlockExt.NI qt u) : namedL u.children = true := by
  rw [BlockExt.NI_iff] at h
  simp only [namedL, List.all_eq_true]
  intro c hc
  have := h.2 c hc
  rw [BlockExt.NI_iff] at this
  obtain ⟨t, ht⟩ := hq _ _ this.1
  simp [isNamed, ht]

theorem qtX_named (x : Exts) : ∀ tag as, VocabX.qtX x tag as = true → ∃ t, tag = .name t := by
  intro tag as h
  cases tag with
  | name t => exact ⟨t, rfl⟩
  | comment => simp [VocabX.qtX] at h
  | pi => simp [VocabX.qtX] at h
  | none => simp [VocabX.qtX] at h
  | qname q => simp [VocabX.qtX] at h

/-- **both formats read back to the same forest**: empty stash, no STX/ETX in the tree, well-formed tree under a
    plain `div` -/
theorem convertX_formats_agree (x : Exts) (cfg : Cfg) (src h xo : Str) (u : Node)
    (hth : treeX x { cfg with fmt := .html } src = .ok u [])
    (htx : treeX x { cfg with fmt := .xhtml } src = .ok u [])
    (hroot : rootDiv u = true) (hwf : WFTree u = true) (hc : NoCtl.TreeNoCtl u)
    (hh : convertX x { cfg with fmt := .html } src = .ok h)
    (hx : convertX x { cfg with fmt := .xhtml } src = .ok xo) :
    ∃ forest, readForest .html h = some forest ∧ readForest .xhtml xo = some forest := by
  unfold convertX at hh hx
  split at hh
  · cases hh
  · split at hh
    · cases hh
    · rename_i hlt _
      simp only [hlt, Bool.false_eq_true, if_false, Exts.unsupported] at hx
      split at hh
      · rename_i hb
        simp only [hb, if_true] at hx
        injection hh with e1; injection hx with e2; subst e1; subst e2
        exact ⟨[], readForest_nil _, readForest_nil _⟩
      · rename_i hb
        simp only [hb] at hx
        rw [hth] at hh; rw [htx] at hx
        simp only at hh hx
        rw [finishX_plain x _ .html u hroot (inner_no_stx .html u hroot hc)] at hh
        rw [finishX_plain x _ .xhtml u hroot (inner_no_stx .xhtml u hroot hc)] at hx
        injection hh with e1; injection hx with e2; subst e1; subst e2
        have hk := wfList_children hwf
        have hn := namedL_of_NI (qtX_named x) (VocabX.treeX_NI x _ src u [] hth)
        obtain ⟨a1, w1⟩ := strip_inner' .html u hk hn
        obtain ⟨a2, _⟩ := strip_inner' .xhtml u hk hn
        rw [a1, a2]
        exact ⟨_, inner_reads' .html _ w1, inner_reads' .xhtml _ w1⟩

end MdVerif.C14X
