/-
Helper lemmas for `Props/C15Text.lean`, part 11: the statement in the vocabulary of `Spec/Doc.lean` — inline content
of the `mixRun` kind (words, escapes, code spans, `em`/`strong` around words) printed under any spelling
(`printInlines`) and rendered as the syntax rules say (`specInlines`).  Core Lean only.
-/
import MdVerif.Lemmas.RefTextConv

namespace MdVerif.RefText
open Py Inline Escape CodeLaw DocParse DocParse2 DocSpec

/-- content of the `mixRun` kind whose neighbours may touch (no start/end condition: it may stand anywhere in a line) -/
def mixOK (c : List DocSpec.Inline) : Bool := mixItemsOK c && okAdjacents c && noBsBeforeCode c

/-- **printed mixed content is a chunk**: under every spelling the content is printed as escaped text, code spans and
    emphasised words that satisfy what the stages need, and the chunk renders as `specInlines` says -/
theorem chunk_of_content (c : List DocSpec.Inline) (h : mixOK c = true) (st : PSt) :
    ∃ (segs : List MSeg) (st' : PSt),
      printInlines none true true c st = (Chunk.raw ESC ⟨(splitMix c).1, segs⟩, st') ∧
      ChunkOK ESC ⟨(splitMix c).1, segs⟩ ∧ Chunk.out ⟨(splitMix c).1, segs⟩ = specInlines c ∧
      segs.map (fun s => (s.k.q, s.t)) = (splitMix c).2 := by
  simp only [mixOK, Bool.and_eq_true] at h
  obtain ⟨⟨hitems, hadj⟩, hnobs⟩ := h
  obtain ⟨segs, st', hpr, _, hm, hds, hu⟩ := printInlines_mix c hitems true true st
  rw [pwOf_true] at hu
  obtain ⟨hc0, hcs⟩ := splitMix_chars c hitems
  have hmem : ∀ s ∈ segs, (s.k.q, s.t) ∈ (splitMix c).2 := fun s hs => by
    rw [← hm]; exact List.mem_map.2 ⟨s, hs, rfl⟩
  have hplain : ∀ ch, (ch ∈ (splitMix c).1 ∨ ∃ s ∈ segs, ch ∈ s.t) → DocParse2.plainCh ch := by
    intro ch hch
    rcases hch with hch | ⟨s, hs, hch⟩
    · exact hc0 ch hch
    · exact (hcs _ (hmem s hs)).1 ch hch
  have hq : ∀ s ∈ segs, s.k.q.ok := fun s hs => (hcs _ (hmem s hs)).2
  have hk := fun s hs => kindOK_of s.k (hq s hs) (hds s hs)
  have hj : junctionsOK (splitMix c).1 false segs := by
    apply junctions_of_q
    rw [hm]
    exact (splitMix_junctions c hitems hadj hnobs).1
  refine ⟨segs, st', by simpa [Chunk.raw] using hpr, ⟨fun s hs => (hk s hs).1, hj, hu, ?_, fun s hs => (hk s hs).2.1⟩,
    ?_, hm⟩
  · intro ch hch
    obtain ⟨_, a2, a3, _, a5⟩ := plainCh_facts (hplain ch hch)
    exact ⟨a3, a2, a5⟩
  · have ha0 : '&' ∉ (splitMix c).1 := fun hmm => (plainCh_facts (hplain _ (Or.inl hmm))).2.2.1 rfl
    have has : ∀ s ∈ segs, '&' ∉ s.t ∧ s.k.noAmp := fun s hs =>
      ⟨fun hmm => (plainCh_facts (hplain _ (Or.inr ⟨s, hs, hmm⟩))).2.2.1 rfl, by
        have := hq s hs
        cases hk' : s.k with
        | code n b => trivial
        | em st d w =>
          rw [hk'] at this
          exact fun hmm => (wordCh_facts ((wordOK_of_label this).1.2 _ hmm)).2.2.2.2.2.2.1 rfl⟩
    rw [specInlines_splitMix c hitems, ← hm, ← outM_eq segs has, htmlEsc_eq_escCdata _ ha0]
    rfl

/-- content that starts with something visible gives a visible chunk -/
theorem vis_of_startsOk (c : List DocSpec.Inline) (h : mixItemsOK c = true) (hs : startsOk c = true)
    (segs : List MSeg) (hm : segs.map (fun s => (s.k.q, s.t)) = (splitMix c).2) :
    Chunk.Vis ⟨(splitMix c).1, segs⟩ := by
  by_cases ht : (splitMix c).1 = []
  · right
    intro hsn
    have hne : c ≠ [] := by intro e; subst e; simp [startsOk] at hs
    have hsn' : segs = [] := hsn
    exact hne ((splitMix_nil_iff c h).1 ⟨ht, by rw [← hm, hsn']; rfl⟩)
  · left
    have := splitMix_first c h hs ht
    cases hx : (splitMix c).1 with
    | nil => exact absurd hx ht
    | cons a r =>
      rw [hx] at this
      exact ⟨a, by simp, by simpa [startsVisible] using this⟩

/-! ### lines in the vocabulary of `Spec/Doc.lean` -/

/-- a reference-style link in a line: the link text, the optional space between the brackets, the label, what the
    label is defined as, and the content that follows the link -/
structure MUse where
  text : List DocSpec.Inline
  sp : Str
  label : Str
  url : Str
  title : Option Str
  after : List DocSpec.Inline

/-- link text and following content of the `mixRun` kind, the text starting with something visible; one optional
    space; a label without `]`, backtick, backslash, line break -/
def MUse.ok (u : MUse) : Bool :=
  mixOK u.text && startsOk u.text && mixOK u.after && (u.sp == [] || u.sp == [' ']) && u.label.all labelCh &&
    !u.label.isEmpty

/-- the uses printed under a spelling: `[text][label]content…` -/
def printUses : List MUse → PSt → Str × PSt
  | [], st => ([], st)
  | u :: r, st =>
    let pT := printInlines none true true u.text st
    let pC := printInlines none true true u.after pT.2
    let pR := printUses r pC.2
    ('[' :: (pT.1 ++ (']' :: (u.sp ++ ('[' :: (u.label ++ (']' :: (pC.1 ++ pR.1))))))), pR.2)

/-- the line: content, then the uses -/
def printLine (c0 : List DocSpec.Inline) (us : List MUse) (st : PSt) : Str :=
  (printInlines none true true c0 st).1 ++ (printUses us (printInlines none true true c0 st).2).1

/-- the rendering of the uses: the `<a>` element around the rendered link text, then the rendered content -/
def specUses : List MUse → Str
  | [] => []
  | u :: r => aOpen u.url u.title ++ (specInlines u.text ++ (aClose ++ specInlines u.after)) ++ specUses r

theorem specUses_cons (u : MUse) (r : List MUse) :
    specUses (u :: r) = aOpen u.url u.title ++ (specInlines u.text ++ (aClose ++ specInlines u.after)) ++ specUses r := rfl

/-- **the printed uses are uses of chunks** -/
theorem uses_bridge (defs : List InlineRef.DefSpec) : ∀ (us : List MUse) (st : PSt), (∀ u ∈ us, u.ok = true) →
    (∀ u ∈ us, Block.lookupRef (defs.map InlineRef.DefSpec.entry) (RefDef.normUse u.label) = some (u.url, u.title)) →
    ∃ rs : List RUse, (∀ m n0, usStage ESC 0 false m n0 rs = (printUses us st).1) ∧
      (∀ r ∈ rs, UseSpec ESC defs r) ∧ usOut rs = specUses us ∧ rs.length = us.length
  | [], st, _, _ => ⟨[], fun _ _ => rfl, fun r hr => (by cases hr), (by rw [usOut_nil]; rfl), rfl⟩
  | u :: r, st, hok, hlook => by
    have hu := hok u List.mem_cons_self
    simp only [MUse.ok, Bool.and_eq_true, Bool.or_eq_true, beq_iff_eq, Bool.not_eq_true',
      List.isEmpty_eq_false_iff] at hu
    obtain ⟨⟨⟨⟨⟨hT, hTs⟩, hC⟩, hsp⟩, hlab⟩, hlne⟩ := hu
    obtain ⟨segsT, st1, hpT, hokT, houtT, hmT⟩ := chunk_of_content u.text hT st
    obtain ⟨segsC, st2, hpC, hokC, houtC, _⟩ := chunk_of_content u.after hC st1
    obtain ⟨rs, hrs1, hrs2, hrs3, hrs4⟩ := uses_bridge defs r st2 (fun x hx => hok x (List.mem_cons_of_mem _ hx))
      (fun x hx => hlook x (List.mem_cons_of_mem _ hx))
    have hTitems : mixItemsOK u.text = true := by
      simp only [mixOK, Bool.and_eq_true] at hT; exact hT.1.1
    refine ⟨⟨⟨(splitMix u.text).1, segsT⟩, u.sp, u.label, u.url, u.title, ⟨(splitMix u.after).1, segsC⟩⟩ :: rs,
      ?_, ?_, ?_, by simp [hrs4]⟩
    · intro m n0
      simp only [usStage, printUses, Chunk.stage_raw, hpT, hpC, hrs1]
    · intro x hx
      rcases List.mem_cons.1 hx with rfl | hx
      · exact ⟨hokT, vis_of_startsOk u.text hTitems hTs segsT hmT, hokC, hsp, hlab, hlne, hlook u List.mem_cons_self⟩
      · exact hrs2 x hx
    · rw [usOut_cons, specUses_cons, hrs3]
      simp only [useOut, houtT, houtC]

theorem escOK_ESC : EscOK ESC := escOK_generated

theorem rbr_ESC : ']' ∈ ESC := by decide

/-- **From the source to the output, in the vocabulary of `Spec/Doc.lean`.** -/
theorem convert_mixLine (cfg : Pipeline.Cfg) (hfmt : cfg.fmt = .xhtml)
    (hbl : cfg.blockLevel = TreeProc.defaultBlockLevel) (htab : 0 < cfg.tab) (hesc : cfg.esc = ESC)
    (before after : List InlineRef.DefSpec) (hb : ∀ d ∈ before, d.ok cfg.tab = true)
    (ha : ∀ d ∈ after, d.ok cfg.tab = true) (c0 : List DocSpec.Inline) (us : List MUse) (st : PSt)
    (hne : us ≠ []) (h0 : mixOK c0 = true) (hus : ∀ u ∈ us, u.ok = true)
    (hlook : ∀ u ∈ us, Block.lookupRef ((before ++ after).map InlineRef.DefSpec.entry) (RefDef.normUse u.label) =
      some (u.url, u.title))
    (hstart : startPlain (printLine c0 us st) = true) (hchars : (printLine c0 us st).all lineCh = true)
    (hnoref : Block.refMatchAt (printLine c0 us st) 0 = none) :
    Pipeline.convert cfg (InlineRef.docOf before (printLine c0 us st) after) =
      .ok ("<p>".toList ++ (specInlines c0 ++ specUses us) ++ "</p>".toList) := by
  obtain ⟨segs0, st1, hp0, hok0, hout0, _⟩ := chunk_of_content c0 h0 st
  obtain ⟨rs, hrs1, hrs2, hrs3, hrs4⟩ := uses_bridge (before ++ after) us st1 hus hlook
  have hline : printLine c0 us st = lineRaw cfg.esc ⟨(splitMix c0).1, segs0⟩ rs := by
    rw [hesc]
    simp only [printLine, lineRaw, hp0, hrs1]
  have hrne : rs ≠ [] := by
    intro e; rw [e] at hrs4
    cases us with
    | nil => exact hne rfl
    | cons a b => simp at hrs4
  rw [hline] at hstart hchars hnoref ⊢
  rw [← hout0, ← hrs3]
  exact convert_line_defs cfg hfmt hbl htab (hesc ▸ escOK_ESC) (hesc ▸ rbr_ESC) before after hb ha _ rs hrne
    (hesc ▸ hok0) (fun u hu => hesc ▸ hrs2 u hu) hstart hchars hnoref

end MdVerif.RefText
