/-
Lemmas for C05 on the extension model, output level, part 2: `str.replace(pat, by)` is a `Pass`
(`Lemmas/VocabXWFOut.lean`) when `pat` starts with STX and consists of characters that are neither markup
delimiters nor `&` (`STX` letters/digits `ETX`) and `by` is one entity reference (`RepOK`): the two replacements of
`FootnotePostprocessor` (`FN_BACKLINK_TEXT ↦ &#8617;`, `NBSP_PLACEHOLDER ↦ &#160;`).  Core Lean only.
-/
import MdVerif.Lemmas.VocabXWFOut

namespace MdVerif.VocabXOut
open Py Ser Vocab2

/-- the pattern is an `STX…` token of inert characters, the replacement an entity reference -/
structure RepOK (pat by' : Str) : Prop where
  head : ∃ r, pat = NoCtl.STX :: r
  inert : ∀ c ∈ pat, c ≠ '&' ∧ c ≠ '<' ∧ c ≠ '>' ∧ c ≠ '"' ∧ c ≠ ' '
  ent : entRef by' = true

variable {pat by' : Str}

theorem RepOK.ne (h : RepOK pat by') : pat ≠ [] := by
  obtain ⟨r, e⟩ := h.head; rw [e]; simp

theorem rep_copy (h : RepOK pat by') (c : Char) (s : Str) (hc : c ≠ NoCtl.STX) :
    replace (c :: s) pat by' = c :: replace s pat by' := by
  apply replace_cons_of_not_startsWith
  obtain ⟨r, e⟩ := h.head
  rw [e, startsWith_cons_cons]
  simp [hc]

theorem rep_plain (h : RepOK pat by') (M Y : Str) (hM : NoCtl.STX ∉ M) :
    replace (M ++ Y) pat by' = M ++ replace Y pat by' := by
  induction M with
  | nil => rfl
  | cons c r ih =>
    have hc : c ≠ NoCtl.STX := fun e => hM (by rw [e]; exact List.mem_cons_self)
    rw [List.cons_append, rep_copy h c _ hc, ih (fun h' => hM (List.mem_cons_of_mem _ h'))]
    rfl

/-- a match that starts in `A` lies inside `A` when what follows starts with a character outside the pattern -/
theorem startsWith_append_iff {A Y : Str} (hY : ∀ d, Y.head? = some d → d ∉ pat) (hne : A ≠ []) :
    startsWith (A ++ Y) pat = startsWith A pat := by
  induction pat generalizing A with
  | nil => simp
  | cons p ps ih =>
    cases A with
    | nil => exact absurd rfl hne
    | cons a r =>
      rw [List.cons_append, startsWith_cons_cons, startsWith_cons_cons]
      cases r with
      | nil =>
        -- the rest of the pattern would have to continue in `Y`
        cases ps with
        | nil => simp
        | cons q qs =>
          cases Y with
          | nil => simp
          | cons y ys =>
            have hy : y ∉ p :: q :: qs := hY y rfl
            have : y ≠ q := fun e => hy (by simp [e])
            simp [startsWith, this]
      | cons b r' =>
        have := ih (A := b :: r') (fun d hd hm => hY d hd (List.mem_cons_of_mem _ hm)) (by simp)
        rw [List.cons_append] at this
        rw [List.cons_append, this]

theorem rep_app_aux (h : RepOK pat by') {Y : Str} (hY : ∀ d, Y.head? = some d → d ∉ pat) :
    ∀ (n : Nat) (A : Str), A.length ≤ n →
      replace (A ++ Y) pat by' = replace A pat by' ++ replace Y pat by' := by
  intro n
  induction n with
  | zero =>
    intro A hl
    have : A = [] := List.length_eq_zero_iff.1 (by omega)
    subst this; simp
  | succ n ih =>
    intro A hl
    cases A with
    | nil => simp
    | cons c r =>
      have hsw := startsWith_append_iff (pat := pat) (A := c :: r) hY (by simp)
      cases hs : startsWith (c :: r) pat with
      | true =>
        rw [hs] at hsw
        have hle := startsWith_length_le hs
        rw [replace_of_startsWith h.ne hsw, replace_of_startsWith h.ne hs]
        have e : (c :: r ++ Y).drop pat.length = (c :: r).drop pat.length ++ Y := by
          rw [List.drop_append_of_le_length hle]
        rw [e, ih _ (by
          rw [List.length_drop]
          have : 0 < pat.length := List.length_pos_iff.2 h.ne
          simp only [List.length_cons] at hl ⊢; omega), List.append_assoc]
      | false =>
        rw [hs] at hsw
        rw [List.cons_append] at hsw ⊢
        rw [replace_cons_of_not_startsWith hsw, replace_cons_of_not_startsWith hs,
          ih r (by simp only [List.length_cons] at hl; omega)]
        rfl

theorem rep_app (h : RepOK pat by') (A Y : Str) (hY : D4 Y) :
    replace (A ++ Y) pat by' = replace A pat by' ++ replace Y pat by' := by
  refine rep_app_aux h ?_ A.length A (Nat.le_refl _)
  intro d hd hm
  have := h.inert d hm
  rcases hY d hd with rfl | rfl | rfl | rfl
  · exact this.2.1 rfl
  · exact this.2.2.1 rfl
  · exact this.2.2.2.1 rfl
  · exact this.2.2.2.2 rfl

theorem pat_inert4 (h : RepOK pat by') : ∀ c ∈ pat, c ≠ '&' ∧ c ≠ '<' ∧ c ≠ '>' ∧ c ≠ '"' := by
  intro c hc
  have := h.inert c hc
  exact ⟨this.1, this.2.1, this.2.2.1, this.2.2.2.1⟩

open Ser in
/-- the replacement keeps a strictly readable string strictly readable -/
theorem strict_rep (h : RepOK pat by') (m : Mode) :
    ∀ (n : Nat) (Y : Str), Y.length ≤ n → (strict m 0 Y).isSome = true →
      (strict m 0 (replace Y pat by')).isSome = true := by
  intro n
  induction n with
  | zero =>
    intro Y hl hY
    have : Y = [] := List.length_eq_zero_iff.1 (by omega)
    subst this; simpa using hY
  | succ n ih =>
    intro Y hl hY
    cases Y with
    | nil => simpa using hY
    | cons c r =>
      have hlr : r.length ≤ n := by simp only [List.length_cons] at hl; omega
      cases hs : startsWith (c :: r) pat with
      | true =>
        have e := startsWith_drop hs
        have hpos : 0 < pat.length := List.length_pos_iff.2 h.ne
        rw [replace_of_startsWith h.ne hs]
        rw [e, strict_inert m _ _ (pat_inert4 h)] at hY
        simp only [Option.isSome_map] at hY
        have hr := ih _ (by rw [List.length_drop]; simp only [List.length_cons] at hl ⊢; omega) hY
        obtain ⟨tok, ht⟩ := strict_entRef m h.ent (replace ((c :: r).drop pat.length) pat by')
        rw [ht]; simpa using hr
      | false =>
        rw [replace_cons_of_not_startsWith hs]
        by_cases ha : c = '&'
        · subst ha
          rw [strict, if_pos rfl] at hY
          cases hk : entLen r with
          | none => rw [hk] at hY; cases hY
          | some k =>
            rw [hk] at hY
            simp only [Option.isSome_map] at hY
            obtain ⟨hkl, _, hpre⟩ := entLen_spec r k hk
            rw [strict_drop m k r hkl] at hY
            have hsx : NoCtl.STX ∉ r.take k := by
              intro hm
              have := entLen_chars r k hk _ hm
              revert this; decide
            have e1 : replace r pat by' = r.take k ++ replace (r.drop k) pat by' := by
              conv => lhs; rw [← List.take_append_drop k r]
              exact rep_plain h _ _ hsx
            rw [strict, if_pos rfl, e1, hpre]
            simp only [Option.isSome_map]
            have hl2 : (r.take k).length = k := by rw [List.length_take, Nat.min_eq_left hkl]
            have := strict_skip m (r.take k) (replace (r.drop k) pat by')
            rw [hl2] at this
            rw [this]
            exact ih _ (by rw [List.length_drop]; omega) hY
        · rw [strict, if_neg ha] at hY ⊢
          split at hY
          · cases hY
          · rename_i h1
            rw [if_neg h1]
            split at hY
            · cases hY
            · rename_i h2
              rw [if_neg h2]
              simp only [Option.isSome_map] at hY ⊢
              exact ih r hlr hY

theorem rep_fixC (h : RepOK pat by') (s : Str) :
    escCdata (replace (escCdata s) pat by') = replace (escCdata s) pat by' := by
  rw [onepass_cdata']
  apply esc1_fix false _ _ (Nat.le_refl _)
  apply strict_rep h cdata _ _ (Nat.le_refl _)
  rw [onepass_cdata']
  have := strict_esc1' cdata s
  rw [show esc1 cdata.quot cdata.nl s = esc1 false false s from rfl] at this
  rw [this]; rfl

theorem rep_fixA (h : RepOK pat by') (v : Str) :
    escAttrHtml (replace (escAttrHtml v) pat by') = replace (escAttrHtml v) pat by' := by
  rw [onepass_attr']
  apply esc1_fix true _ _ (Nat.le_refl _)
  apply strict_rep h attr _ _ (Nat.le_refl _)
  rw [onepass_attr']
  have h2 := strict_esc1' attr v
  rw [show esc1 attr.quot attr.nl v = esc1 true false v from rfl] at h2
  rw [h2]; rfl

/-- a result without `&` was copied: the replacement starts with `&` -/
theorem rep_eq_plain (h : RepOK pat by') : ∀ (n : Nat) (X : Str), X.length ≤ n → '&' ∉ replace X pat by' →
    replace X pat by' = X := by
  intro n
  induction n with
  | zero =>
    intro X hl _
    have : X = [] := List.length_eq_zero_iff.1 (by omega)
    subst this; simp
  | succ n ih =>
    intro X hl ha
    cases X with
    | nil => simp
    | cons c r =>
      cases hs : startsWith (c :: r) pat with
      | true =>
        exfalso
        rw [replace_of_startsWith h.ne hs] at ha
        have hb := h.ent
        unfold entRef at hb
        split at hb
        · exact ha (by simp)
        · cases hb
      | false =>
        rw [replace_cons_of_not_startsWith hs] at ha ⊢
        rw [ih r (by simp only [List.length_cons] at hl; omega) (fun hm => ha (List.mem_cons_of_mem _ hm))]

/-- **`str.replace` with such a pattern is a pass** -/
theorem pass_replace (h : RepOK pat by') : Pass (fun s => replace s pat by') where
  nil := by simp
  copy := fun c s hc => rep_copy h c s hc
  app := fun A Y hY => rep_app h A Y hY
  fixC := fun s => rep_fixC h s
  fixA := fun v => rep_fixA h v
  eqPlain := fun X K hk _ h2 => by
    subst hk
    exact (rep_eq_plain h _ X (Nat.le_refl _) h2).symm

theorem repOK_backlink : RepOK FootnotesTree.fnBacklinkText "&#8617;".toList :=
  ⟨⟨_, rfl⟩, by decide, by decide⟩

theorem repOK_nbsp : RepOK FootnotesTree.nbspPlaceholder "&#160;".toList :=
  ⟨⟨_, rfl⟩, by decide, by decide⟩

/-- `FootnotePostprocessor.run` as two passes -/
theorem postprocess_eq (text : Str) :
    FootnotesTree.postprocess text =
      (fun s => replace s FootnotesTree.nbspPlaceholder "&#160;".toList)
        ((fun s => replace s FootnotesTree.fnBacklinkText "&#8617;".toList) text) := rfl

end MdVerif.VocabXOut
