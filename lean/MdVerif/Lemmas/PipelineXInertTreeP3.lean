/-
`DeepP Ok` through the dispatcher and `parseBlocksXT`, for a `BSep` predicate.  Generalises
`Lemmas/PipelineXInertTree3.lean`.  Core Lean only.
-/
import MdVerif.Lemmas.PipelineXInertTreeP2
import MdVerif.Lemmas.PipelineXInertStage

namespace MdVerif.BlockExt
open Py Block InlineX

variable {Ok : Str → Prop} {N : Char → Prop} {pb : PB} {tab : Nat} {state : List BState} {refs : Refs} {parent : Node} {b : Str} {rest : List Str}
  {cfg : XCfg}

theorem pres_pure {x : Node × Refs × List Str} (h : DeepP Ok x.1) : PRes Ok (some x) := by
  intro n r rest' e
  injection e with e
  rw [e] at h; exact h

section
variable (hs : BSep Ok N)
include hs

theorem emptyP_treeP (hp : DeepP Ok parent) : DeepP Ok (emptyP refs parent b rest).1 := by
  simp only [emptyP]
  split
  · split
    · rename_i _ sib hsib _ code hcode
      have hcodeD := preCode_deepP (DeepP_last hp hsib) hcode
      apply DeepP_setCodeText hp hsib hcodeD
      have h1 := fmtOpt_ok hs ((DeepP_iff code).mp hcodeD).1
      apply hs.snoc h1
      intro ch hch
      split at hch <;> (simp at hch; exact hch ▸ hs.nl)
    · exact hp
  · exact hp

theorem codeP_treeP (hb : Ok b) (hp : DeepP Ok parent) : DeepP Ok (codeP tab refs parent b rest).1 := by
  have hesc : Ok (Block.codeEscape (rstrip (detab tab b).1)) :=
    blockCodeEscape_ok hs (hs.closed.sub (rstripP_infix _ _) (ok_detab_fst hs.closed tab hb))
  have hescnl : Ok (Block.codeEscape (rstrip (detab tab b).1) ++ ['\n']) :=
    hs.snoc hesc (by intro ch hch; simp at hch; exact hch ▸ hs.nl)
  have hfresh : DeepP Ok (parent.append { Node.el "pre" with
      children := [{ Node.el "code" with text := some (Block.codeEscape (rstrip (detab tab b).1) ++ ['\n']), textAtomic := true }] }) := by
    apply DeepP_append hp
    rw [DeepP_iff]
    refine ⟨by intro s hs'; simp [Node.el] at hs', by intro s hs'; simp [Node.el] at hs', ?_⟩
    intro k hk
    simp only [List.mem_singleton] at hk
    rw [hk]
    exact DeepP_leaf rfl (by intro s hs'; cases hs'; exact hescnl) rfl
  simp only [codeP]
  split
  · split
    · rename_i _ sib hsib _ code hcode
      have hcodeD := preCode_deepP (DeepP_last hp hsib) hcode
      apply DeepP_setCodeText hp hsib hcodeD
      have h1 := fmtOpt_ok hs ((DeepP_iff code).mp hcodeD).1
      exact hs.snoc (hs.closed.joinNl h1 hesc) (by intro ch hch; simp at hch; exact hch ▸ hs.nl)
    · exact hfresh
  · exact hfresh

theorem setextP_treeP (hb : Ok b) (hp : DeepP Ok parent) : DeepP Ok (setextP refs parent b rest).1 := by
  simp only [setextP]
  apply DeepP_append hp
  have : Ok (strip ((lines b)[0]?.getD [])) := by
    apply hs.closed.sub (stripP_infix _ _)
    cases h0 : (lines b)[0]? with
    | none => exact hs.sep.nil
    | some l => exact hs.closed.sub (mem_lines_infix (List.mem_of_getElem? h0)) hb
  exact DeepP_leaf rfl (by intro s hs'; cases hs'; exact this) rfl

theorem paraP_treeP (hb : Ok b) (hp : DeepP Ok parent) : DeepP Ok (paraP state refs parent b rest).1 := by
  simp only [paraP]
  split
  · exact hp
  · split
    · split
      · rename_i sib hsib
        have hsibD := DeepP_last hp hsib
        apply DeepP_setLast hp
        have h' := (DeepP_iff sib).mp hsibD
        rw [DeepP_iff]
        refine ⟨h'.1, ?_, h'.2.2⟩
        intro s hs'
        cases hs'
        split
        · exact hs.closed.joinNl (fmtOpt_ok hs h'.2.1) hb
        · exact hs.closed.joinNl hs.sep.nil hb
      · have h' := (DeepP_iff parent).mp hp
        rw [DeepP_iff]
        refine ⟨?_, h'.2.1, h'.2.2⟩
        intro s hs'
        cases hs'
        split
        · exact hs.closed.joinNl (fmtOpt_ok hs h'.1) hb
        · exact hs.closed.sub (lstripP_infix _ _) hb
    · exact DeepP_append hp (DeepP_mkText _ (hs.closed.sub (lstripP_infix _ _) hb))

omit hs in
theorem zipCells_treeP (tag : String) : ∀ (ts : List Str) (as : List (Option Tables.Align)), (∀ t ∈ ts, Ok t) →
    ∀ k ∈ zipCells tag ts as, DeepP Ok k := by
  intro ts
  induction ts with
  | nil => intro as _ k hk; simp [zipCells] at hk
  | cons t ts ih =>
    intro as ht k hk
    cases as with
    | nil => simp [zipCells] at hk
    | cons a as =>
      simp only [zipCells, List.mem_cons] at hk
      rcases hk with hk | hk
      · rw [hk]
        exact DeepP_leaf rfl (by intro s hs'; cases hs'; exact ht t List.mem_cons_self) rfl
      · exact ih as (fun t' ht' => ht t' (List.mem_cons_of_mem _ ht')) k hk

theorem tableNode_treeP (border : Nat) (sep : List Str) (hb : Ok b) :
    DeepP Ok (tableNode (Tables.tableRun border sep b)) := by
  obtain ⟨h1, h2⟩ := tableRun_ok hs.closed border sep hb
  simp only [tableNode]
  apply DeepP_children _ (DeepP_el "table")
  intro k hk
  simp only [List.mem_cons, List.not_mem_nil, or_false] at hk
  rcases hk with hk | hk
  · rw [hk]
    apply DeepP_children _ (DeepP_el "thead")
    intro k' hk'
    simp only [List.mem_singleton] at hk'
    rw [hk']
    apply DeepP_children _ (DeepP_el "tr")
    exact zipCells_treeP "th" _ _ h1
  · rw [hk]
    apply DeepP_children _ (DeepP_el "tbody")
    intro k' hk'
    obtain ⟨row, hrow, rfl⟩ := List.mem_map.mp hk'
    simp only [bodyRow]
    split
    · apply DeepP_children _ (DeepP_el "tr")
      apply zipCells_treeP "td"
      intro t ht
      obtain ⟨cell, hcell, rfl⟩ := List.mem_map.mp ht
      cases hc' : cell with
      | none => exact hs.sep.nil
      | some t' => exact h2 row hrow cell hcell t' hc'
    · apply DeepP_children _ (DeepP_el "tr")
      intro k'' hk''
      obtain ⟨_, _, rfl⟩ := List.mem_map.mp hk''
      exact DeepP_el _

theorem tailRef_treeP (hb : Ok b) (hp : DeepP Ok parent) : PRes Ok (tailRef state refs parent b rest) := by
  simp only [tailRef]
  split
  · exact pres_pure hp
  · exact pres_pure (paraP_treeP hs hb hp)

theorem tailAbbr_treeP (hb : Ok b) (hp : DeepP Ok parent) : PRes Ok (tailAbbr cfg state refs parent b rest) := by
  simp only [tailAbbr]
  split
  · split
    · exact pres_some hp
    · exact pres_none
    · exact tailRef_treeP hs hb hp
  · exact tailRef_treeP hs hb hp

theorem tailFootnote_treeP (hb : Ok b) (hp : DeepP Ok parent) :
    PRes Ok (tailFootnote cfg state refs parent b rest) := by
  simp only [tailFootnote]
  split
  · split
    · exact pres_some hp
    · exact tailAbbr_treeP hs hb hp
  · exact tailAbbr_treeP hs hb hp

theorem tailQuote_treeP (hn : PSound Ok pb) (hb : Ok b) (hp : DeepP Ok parent) :
    PRes Ok (tailQuote cfg pb state refs parent b rest) := by
  simp only [tailQuote]
  split
  · exact quoteP_treeP hs hn hb hp _
  · exact tailFootnote_treeP hs hb hp

theorem tailDef_treeP (hn : PSound Ok pb) (hb : Ok b) (hp : DeepP Ok parent) :
    PRes Ok (tailDef cfg tab pb state refs parent b rest) := by
  simp only [tailDef]
  split
  · split
    · rename_i m hm
      cases hd : defListP tab pb state refs parent b rest m with
      | none => exact tailQuote_treeP hs hn hb hp
      | some x => exact defListP_treeP hs hn hb hp m hm x hd
    · exact tailQuote_treeP hs hn hb hp
  · exact tailQuote_treeP hs hn hb hp

theorem tailList_treeP (hn : PSound Ok pb) (hb : Ok b) (hp : DeepP Ok parent) :
    PRes Ok (tailList cfg tab pb state refs parent b rest) := by
  simp only [tailList]
  split
  · split
    · exact listPX_treeP hs hn hb hp _ "ol"
    · exact listP_treeP hs hn hb hp "ol"
  · split
    · split
      · exact listPX_treeP hs hn hb hp _ "ul"
      · exact listP_treeP hs hn hb hp "ul"
    · exact tailDef_treeP hs hn hb hp

theorem tailEmptyT_treeP (tables : Bool) (hn : PSound Ok pb) (hb : Ok b) (hp : DeepP Ok parent) :
    PRes Ok (tailEmptyT tables cfg tab pb state refs parent b rest) := by
  simp only [tailEmptyT]
  refine pres_ite _ (fun _ => ?_) (fun _ => ?_)
  · exact pres_pure (emptyP_treeP hs hp)
  refine pres_ite _ (fun _ => indentP_treeP hs hn hb hp) (fun _ => ?_)
  refine pres_ite _ (fun _ => indentPX_treeP hs hn hb hp _ _ "dd") (fun _ => ?_)
  refine pres_ite _ (fun _ => ?_) (fun _ => ?_)
  · exact pres_pure (codeP_treeP hs hb hp)
  split
  · rename_i bs _
    exact pres_some (DeepP_append hp (tableNode_treeP hs bs.1 bs.2 hb))
  · split
    · rename_i m hm
      exact hashP_treeP hs hn hb hp m hm
    · refine pres_ite _ (fun _ => ?_) (fun _ => ?_)
      · exact pres_pure (setextP_treeP hs hb hp)
      · split
        · exact hrP_treeP hs hn hb hp _
        · exact tailList_treeP hs hn hb hp

theorem dispatchXT_treeP (tables : Bool) (hn : PSound Ok pb) (hb : Ok b) (hp : DeepP Ok parent) :
    PRes Ok (dispatchXT tables cfg tab pb state refs parent b rest) := by
  simp only [dispatchXT]
  split
  · rename_i hit hh
    apply admonitionP_treeP hs hn hb hp hit
    intro st en g1 g2 he
    split at hh
    · simp only [admTest] at hh
      split at hh
      · rename_i st' en' g1' g2' hsrch
        injection hh with hh
        rw [← hh] at he
        injection he with e1 e2 e3 e4
        subst e1; subst e2; subst e3; subst e4
        exact hsrch
      · split at hh
        · injection hh with hh
          rw [← hh] at he
          cases he
        · cases hh
    · cases hh
  · exact tailEmptyT_treeP hs tables hn hb hp

/-- the extended block parser keeps the parent `c`-free on `c`-free blocks -/
theorem parseBlocksXT_treeP (tables : Bool) (cfg : XCfg) (tab : Nat) : ∀ fuel, PSound Ok (parseBlocksXT tables cfg tab fuel) := by
  intro fuel
  induction fuel with
  | zero =>
    intro st refs p bl _ hp n r h
    cases bl with
    | nil => simp only [parseBlocksXT] at h; cases h; exact hp
    | cons b rest => simp only [parseBlocksXT] at h; cases h
  | succ f ih =>
    intro st refs p bl hbl hp n r h
    cases bl with
    | nil => simp only [parseBlocksXT] at h; cases h; exact hp
    | cons b rest =>
      simp only [parseBlocksXT] at h
      have hgood : Good (Ok) qtTrue (parseBlocksXT tables cfg tab f) (parseBlocksXT tables cfg tab f) :=
        fun _ _ _ _ _ _ => ⟨rfl, fun n _ _ => NI_true n⟩
      obtain ⟨_, s⟩ := dispatchXT_good (cfg := cfg) (tab := tab) (state := st) (refs := refs) (parent := p) tables
        hs.closed (tagsOk_true cfg) (fun _ => tableTagsOk_true) hgood (AllOk.head hbl) (AllOk.tail hbl) (NI_true p)
      have hnr := dispatchXT_treeP (cfg := cfg) (tab := tab) (state := st) (refs := refs) (rest := rest) hs tables ih
        (AllOk.head hbl) hp
      cases hd : dispatchXT tables cfg tab (parseBlocksXT tables cfg tab f) st refs p b rest with
      | none => rw [hd] at h; cases h
      | some res =>
        obtain ⟨n', r', bl'⟩ := res
        rw [hd] at h
        exact ih st r' n' bl' (s n' r' bl' hd).2 (hnr n' r' bl' hd) n r h

end

end MdVerif.BlockExt
