/-
Helper lemmas for `Props/C02Big.lean`, part 5: the EXTENSION pipeline on the provably sufficient fuel.

`convertXBig` is `PipelineX.convertX` with the stack loop of the inline stage on `bigRunFuel tree` turns.  For the flag
sets whose inline pattern table is the core one (footnotes, wikilinks, nl2br off) and without fenced_code:

* `strDomX_okc`        — "no STX/ETX" is a string class the extended block parser keeps (`BlkX.StrDomX`), so
* `blockStageX_noctl`  — the tree handed to the inline stage has no STX/ETX, for every source;
* `convertXBig_ne_oof` — `convertXBig` never answers `oof`;
* `convertXBig_of_convertX_ne_oof` — where `convertX` answers anything but `oof`, `convertXBig` answers the same.
Core Lean only.
-/
import MdVerif.Lemmas.C08SrcBig
import MdVerif.Lemmas.BlockExtFuelPipe
import MdVerif.Lemmas.PlaceholdersXAll

namespace MdVerif.C02BigX
open Py Pipeline PipelineX NoCtl

/-! ### "no STX/ETX" through the extended block parser -/

theorem okc_iff {c : Char} : Blk.okc c = true ↔ c ≠ NoCtl.STX ∧ c ≠ NoCtl.ETX := by
  simp [Blk.okc]

theorem litChar_okc {c : Char} (h : BlkX.litChar c = true) : Blk.okc c = true := by
  rw [okc_iff]
  constructor
  · rintro rfl; revert h; decide
  · rintro rfl; revert h; decide

theorem lowerChar_okc_ascii : ∀ n, n < 128 → Blk.okc (Char.ofNat n) = true →
    (lowerChar (Char.ofNat n)).all Blk.okc = true := by
  decide +kernel

/-- `str.lower()` writes no STX/ETX -/
theorem lowerChar_okc (c : Char) (h : Blk.okc c = true) : ∀ d ∈ lowerChar c, Blk.okc d = true := by
  by_cases hc : c.toNat < 128
  · have := BlkX.char_ascii (fun c => Blk.okc c = true → (lowerChar c).all Blk.okc = true) lowerChar_okc_ascii c hc h
    exact List.all_eq_true.1 this
  · simp only [lowerChar, hc, if_false]
    cases hf : Generated.Chars.lowerNonAscii.find? (fun e => e.1 = c.toNat) with
    | none =>
      intro d hd
      simp only [List.mem_singleton] at hd
      subst hd; exact h
    | some e =>
      have he := List.mem_of_find?_eq_some hf
      have := List.all_eq_true.mp BlkX.lowerTable_lit e he
      intro d hd
      simp only [List.mem_map] at hd
      obtain ⟨n, hn, rfl⟩ := hd
      exact litChar_okc (List.all_eq_true.mp this n hn)

theorem strDom_okc : BlkB.StrDom Blk.okc Blk.okc (Blk.AllC Blk.okc) where
  chars := Blk.charDom_noctl
  allc := fun _ h => h
  nil := by intro c hc; cases hc
  inf := fun _ _ hs ht c hc => hs c (ht.subset hc)
  joinNl := fun a b ha hb c hc => by
    rcases List.mem_append.1 hc with h | h
    · exact ha c h
    · rcases List.mem_cons.1 h with rfl | h
      · decide
      · exact hb c h

/-- the class of strings without STX/ETX is closed under everything the extended block parser does -/
theorem strDomX_okc : BlkX.StrDomX Blk.okc Blk.okc (Blk.AllC Blk.okc) where
  toStrDom := strDom_okc
  lower := lowerChar_okc
  lit := fun _ hs c hc => litChar_okc (hs c hc)

theorem nodeNoCtl_of_bnodeXP {n : Node} (h : BlkX.BNodeXP Blk.okc Blk.okc (Blk.AllC Blk.okc) n) : NodeNoCtl n := by
  obtain ⟨⟨b1, b2, _, b4, b5, _, _⟩, _, _⟩ := h
  refine ⟨b1, fun kv hkv => ⟨allC_okc (b2 kv hkv).1, allC_okc (b2 kv hkv).2⟩, ?_, allC_okc b4⟩
  by_cases hat : n.textAtomic = true
  · rw [if_pos hat] at b5; exact allC_okc b5
  · rw [if_neg hat] at b5; exact allC_okc b5

/-- **the extended block parser's tree has no STX/ETX** when the parsed text has none (every flag set, every tab) -/
theorem parseDocumentXT_noctl (tables : Bool) (xc : BlockExt.XCfg) (tab : Nat) {text : Str} (h : NoCtl text)
    {root : Node} {log : Block.Refs} (hr : BlockExt.parseDocumentXT tables xc tab text = some (root, log)) :
    TreeNoCtl root := by
  have hp : Blk.AllC Blk.okc text := fun c hc => by
    have := noCtl_iff.1 h c hc
    simp [Blk.okc, this.1, this.2]
  obtain ⟨h1, -⟩ := BlkX.parseDocumentXT_strs strDomX_okc tables xc tab text hp hr
  exact Node.Forall.mono (fun _ hn => nodeNoCtl_of_bnodeXP hn) root h1

/-- without fenced_code the text handed to the block parser is `Pipeline.prepare` of the source -/
theorem prepareX_nofence {x : Exts} {cfg : Cfg} {src text : Str} {stash : List Str} (hf : x.fencedCode = false)
    (h : prepareX x cfg src = .ok (text, stash)) : text = Pipeline.prepare cfg src ∧ stash = [] := by
  simp only [prepareX, hf, Bool.false_eq_true, if_false] at h
  split at h
  · cases h
  · simp only [FootnotesTree.R.ok.injEq, Prod.mk.injEq] at h
    exact ⟨h.1.symm, h.2.symm⟩

/-- **the tree handed to the inline stage has no STX/ETX** (fenced_code and footnotes off) -/
theorem blockStageX_noctl {x : Exts} {cfg : Cfg} {src : Str} (hf : x.fencedCode = false) (hfn : x.footnotes = false)
    {root : Node} {log : Block.Refs} {stash : List Str} (h : blockStageX x cfg src = .ok (root, log, stash)) :
    TreeNoCtl root ∧ stash = [] := by
  simp only [blockStageX] at h
  split at h
  · cases h
  · cases h
  · next text stash' hp =>
    obtain ⟨e1, e2⟩ := prepareX_nofence hf hp
    split at h
    · cases h
    · next root' log' hpd =>
      simp only [fnStageX, hfn, Bool.false_eq_true, if_false] at h
      simp only [FootnotesTree.R.ok.injEq, Prod.mk.injEq] at h
      obtain ⟨rfl, rfl, rfl⟩ := h
      subst e1
      exact ⟨parseDocumentXT_noctl _ _ _ (prepare_noctl cfg src) hpd, e2⟩

/-! ### the pipeline on the big fuel -/

/-- `InlineProcessor.run(tree)` with the pattern table of `xc` and the stack loop on `bigRunFuel` -/
def runXBig (xc : InlineX.XCfg) (tree : Node) (html : List Str) : Option (Node × InlineX.XSt) :=
  InlineX.runLoopX xc (Inline.runFuel tree) (C08Src.bigRunFuel tree) tree [[]] { st := { html := html } }

/-- `treeX` with `runXBig` as the inline stage (`treeX_eq`: `treeX` is the same composition with `runX`) -/
def treeXBig (x : Exts) (cfg : Cfg) (src : Str) : TreeResult :=
  match blockStageX x cfg src with
  | .oof => .oof
  | .ood => .ood
  | .ok (root, log, stash) =>
    match runXBig (inlineCfgX x cfg log) root stash with
    | none => .oof
    | some (t, xs) => lateStageX x cfg log t xs

/-- `convertX` with `runXBig` as the inline stage -/
def convertXBig (x : Exts) (cfg : Cfg) (src : Str) : Outcome :=
  if src.contains '<' then .ood
  else if x.unsupported then .ood
  else if Normalize.isBlankDoc src then .ok []
  else
    match treeXBig x cfg src with
    | .oof => .oof
    | .err => .err
    | .ood => .ood
    | .ok u html => finishX x cfg html (Ser.serialize cfg.fmt u)

/-- over the core table: where `runX` answers, `runXBig` gives the same answer -/
theorem runXBig_of_runX {x : Exts} (cfg : Cfg) (log : Block.Refs)
    (hx : x.footnotes = false ∧ x.wikilinks = false ∧ x.nl2br = false) {tree : Node} {html : List Str}
    {r : Node × InlineX.XSt} (h : InlineX.runX (inlineCfgX x cfg log) tree html = some r) :
    runXBig (inlineCfgX x cfg log) tree html = some r :=
  runX_agrees_core_table cfg log hx tree html r h _ (by unfold C08Src.bigRunFuel; omega)

/-- over the core table `runXBig` answers on every tree without STX/ETX -/
theorem runXBig_total {x : Exts} (cfg : Cfg) (log : Block.Refs)
    (hx : x.footnotes = false ∧ x.wikilinks = false ∧ x.nl2br = false) {tree : Node} (html : List Str)
    (h : TreeNoCtl tree) : ∃ r, runXBig (inlineCfgX x cfg log) tree html = some r :=
  Option.isSome_iff_exists.1
    (runLoopX_total_core_table cfg log hx tree html h _ (by unfold C08Src.bigRunFuel; omega))

/-- the HTML stash after `runXBig` from the empty stash: entity references -/
theorem runXBig_html_nil {xc : InlineX.XCfg} {tree t : Node} {xs : InlineX.XSt}
    (h : runXBig xc tree [] = some (t, xs)) : ∀ e ∈ xs.st.html, entityLike e = true := by
  unfold runXBig at h
  exact InlineX.Html.runLoopX_htmlP (P := fun e => entityLike e = true) (fun _ he => he) xc _ _ _ _ _ _ h
    (fun e he => by cases he)

/-- **where `treeX` answers anything but `oof`, `treeXBig` gives the same answer** (core table) -/
theorem treeXBig_of_treeX {x : Exts} {cfg : Cfg} {src : Str}
    (hx : x.footnotes = false ∧ x.wikilinks = false ∧ x.nl2br = false)
    (h : ∀ root log stash, blockStageX x cfg src = .ok (root, log, stash) →
      InlineX.runX (inlineCfgX x cfg log) root stash ≠ none) :
    treeXBig x cfg src = treeX x cfg src := by
  rw [treeX_eq]
  unfold treeXBig
  cases hb : blockStageX x cfg src with
  | oof => rfl
  | ood => rfl
  | ok r =>
    obtain ⟨root, log, stash⟩ := r
    simp only
    cases hr : InlineX.runX (inlineCfgX x cfg log) root stash with
    | none => exact absurd hr (h root log stash hb)
    | some ts => rw [runXBig_of_runX cfg log hx hr]

theorem convertXBig_of_convertX_ne_oof {x : Exts} {cfg : Cfg} {src : Str}
    (hx : x.footnotes = false ∧ x.wikilinks = false ∧ x.nl2br = false) (h : convertX x cfg src ≠ .oof) :
    convertXBig x cfg src = convertX x cfg src := by
  unfold convertXBig convertX at *
  split
  · rfl
  · split
    · rfl
    · split
      · rfl
      · next h1 h2 h3 =>
        simp only [h1, h2, h3, Bool.false_eq_true, if_false] at h
        have : treeXBig x cfg src = treeX x cfg src := by
          apply treeXBig_of_treeX hx
          intro root log stash hb hr
          apply h
          rw [treeX_eq, hb]
          simp only [hr]
        rw [this]
        cases treeX x cfg src <;> rfl

/-- **`convertXBig` never answers `oof`**: core table, no fenced_code, `0 < tab_length` when admonition is on -/
theorem convertXBig_ne_oof {x : Exts} {cfg : Cfg} (src : Str)
    (hx : x.footnotes = false ∧ x.wikilinks = false ∧ x.nl2br = false) (hf : x.fencedCode = false)
    (htab : x.admonition = true → 0 < cfg.tab) : convertXBig x cfg src ≠ .oof := by
  unfold convertXBig
  split
  · intro h; cases h
  · split
    · intro h; cases h
    · split
      · intro h; cases h
      · unfold treeXBig
        cases hb : blockStageX x cfg src with
        | oof => exact absurd hb (blockStageX_ne_oof x cfg src htab)
        | ood => intro h; cases h
        | ok r =>
          obtain ⟨root, log, stash⟩ := r
          obtain ⟨hno, rfl⟩ := blockStageX_noctl hf hx.1 hb
          obtain ⟨⟨t, xs⟩, hr⟩ := runXBig_total cfg log hx [] hno
          have hent := runXBig_html_nil hr
          simp only [hr]
          cases hl : lateStageX x cfg log t xs with
          | oof =>
            exfalso
            obtain ⟨-, t', -, -, s, hs⟩ := lateStageX_oof hl
            exact rawHtml_ne_none hent s hs
          | err => intro h; cases h
          | ood => intro h; cases h
          | ok u html =>
            have := lateStageX_ok hl
            subst this
            simp only [finishX]
            split
            · intro h; cases h
            · next s0 _ =>
              cases hp : postX x cfg xs.st.html s0 with
              | none => exact absurd hp (postX_ne_none x cfg hent s0)
              | some r => intro h; cases h

end MdVerif.C02BigX
