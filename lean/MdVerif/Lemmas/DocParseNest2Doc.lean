/-
Helper lemmas for C01 on nested documents (`Props/C01f.lean`), part 3: the shape of `print` on the sub-grammar
`Nest2Doc` (`Spec/DocNest2.lean`) — every printed block as groups of lines whose chunks build the tree that `spec`
prescribes — and the composition with the block stage (`Lemmas/DocParseNestBlock.lean`) and the later stages
(`Lemmas/DocParseNestTree.lean`).  Core Lean only.
-/
import MdVerif.Lemmas.DocParseNest2Block
import MdVerif.Spec.DocNest2

namespace MdVerif.DocNest2
open Py Inline Escape Block DocParse DocParse2 CodeLaw DocSpec

/-! ### mixed content as a text line -/

theorem mixOK_of_content {c : List DocSpec.Inline} {t0 : Str} {segs : List Seg2} (h : Deep2ContentOK c t0 segs) :
    MixOK ESC t0 segs := by
  obtain ⟨h1, h2, h3, h4, h5, h6, h7, _, _, h10⟩ := h.facts
  exact ⟨h1, h3, h4, h.under, h5, h2, h6, h7, h10⟩

theorem txtLine_of_content {c : List DocSpec.Inline} {t0 : Str} {segs : List Seg2} (h : Deep2ContentOK c t0 segs) :
    TxtLine ESC (.mix t0 segs) :=
  ⟨⟨t0, segs, rfl⟩, rawOK_flat escOK_generated t0 (flatten2 segs) h.fline, mixOK_of_content h⟩

/-- a leaf with mixed text -/
def leafT (tag : Str) (t0 : Str) (segs : List Seg2) : NT := .el tag (.mix t0 segs) []

theorem leafT_src (tag t0 : Str) (segs : List Seg2) :
    (leafT tag t0 segs).src ESC = { tag := .name tag, text := some (escAll ESC t0 ++ rawF ESC (flatten2 segs)) } := by
  simp [leafT, NT.src, NT.srcs, Txt.src]

theorem leafT_ok {c : List DocSpec.Inline} {t0 : Str} {segs : List Seg2} (h : Deep2ContentOK c t0 segs) (tag : Str)
    (htag : textTags.contains tag = true) : (leafT tag t0 segs).ok ESC := by
  have hm := textTags_sub tag (List.contains_iff_mem.1 htag)
  rw [leafT, nok_el]
  exact ⟨List.contains_iff_mem.1 hm.1, mixOK_of_content h, fun e => absurd e hm.2, trivial⟩

theorem leafT_out {c : List DocSpec.Inline} {t0 : Str} {segs : List Seg2} (h : Deep2ContentOK c t0 segs) (tag : Str)
    (htag : textTags.contains tag = true) :
    (leafT tag t0 segs).out = '<' :: tag ++ ['>'] ++ specInlines c ++ ('<' :: '/' :: tag ++ ['>']) := by
  have hm := textTags_sub tag (List.contains_iff_mem.1 htag)
  have hhr : ¬ tag = ['h', 'r'] := hm.2
  rw [← l2Out_eq h tag, leafT, nout_el]
  simp [hhr, Txt.out, NT.outsNl, l2Out, List.append_assoc]

theorem leafT_tags (tag t0 : Str) (segs : List Seg2) (htag : textTags.contains tag = true) :
    (leafT tag t0 segs).isBqN = false ∧ (leafT tag t0 segs).isListN = false := by
  have hm := List.contains_iff_mem.1 htag
  have : ∀ tag ∈ textTags, tag ≠ ['b', 'l', 'o', 'c', 'k', 'q', 'u', 'o', 't', 'e'] ∧ tag ≠ ['u', 'l'] ∧
      tag ≠ ['o', 'l'] := by decide
  have := this tag hm
  simp [leafT, NT.isBqN, NT.isListN, NT.tag, this]

theorem effX_of_producesS {b : Str} {n : Node} (h : ProducesS 4 b n) : EffX [b] n :=
  fun st refs parent rest _ hst _ hr => runsE_step (f := 0) (h (parseBlocks 4 0) st refs parent rest hst) hr

theorem ind0_map (gs : List (List Str)) : gs.map (ind 0) = gs := by
  have : ind 0 = id := funext ind_zero
  simp [this]

/-- a block given by one group of lines and a producer, as a kid; as a block of an item when its first line does not
    start with a space -/
theorem kid_of_produces (g : List Str) (t : NT) (hg : GGroup g) (hp : ProducesS 4 (joinLines g) (t.src ESC))
    (hok : t.ok ESC) :
    NKidOK ESC ⟨[g], t⟩ ∧
      ((∀ l, g.head? = some l → l.head? ≠ some ' ') →
        ∃ B, OkB ESC B ∧ B.groups ESC 0 = [g] ∧ B.tree false = t) := by
  have hloc : LocB [g] (t.src ESC) := locB_of_effX (effX_of_producesS hp)
  refine ⟨⟨by simp, by intro x hx; simp only [List.mem_singleton] at hx; subst hx; exact hg,
    by simpa using effN_of_locB hloc, hok⟩, fun hsp => ⟨.x [g] t, ?_, ?_, ntree_x _ _ _⟩⟩
  · exact .x (by simp) (by intro x hx; simp only [List.mem_singleton] at hx; subst hx; exact ⟨hg, hsp⟩) hloc hok
  · rw [ngroups_x]; simp [ind_zero]

theorem hr_ok : (NT.el "hr".toList .none []).ok ESC := by
  rw [nok_el]; exact ⟨by decide, trivial, fun _ => ⟨rfl, rfl⟩, trivial⟩

theorem gline_rule (i ch n g t : Nat) : GLine (ruleLine true i ch n g t) := by
  have hp := pieceOK_rule (esc := ESC) 4 (by omega) i ch n g t
  have hs := hp.safe _ (by simp : ruleLine true i ch n g t ∈ [ruleLine true i ch n g t])
  obtain ⟨c, hc, hcs⟩ := hp.vis
  have hc' : c ∈ ruleLine true i ch n g t := by simpa [joinLines_single] using hc
  exact ⟨(by intro e; rw [e] at hc'; cases hc'), hs.1, hs.2.1, refsClosed_of_no_amp _ hs.2.2, c, hc', hcs⟩

theorem ruleLine_head0 (ch n g t : Nat) : (ruleLine true 0 ch n g t).head? ≠ some ' ' := by
  rw [ruleLine_head]
  simpa using ruleChar_ne_space ch

/-- the line `P ++ raw ++ Q` of a block whose content is mixed -/
theorem gline_mix {c : List DocSpec.Inline} {t0 : Str} {segs : List Seg2} (h : Deep2ContentOK c t0 segs) (P Q : Str)
    (hP : ∀ x ∈ P, DocParse2.okCh x ∧ x ≠ '&') (hQ : ∀ x ∈ Q, DocParse2.okCh x ∧ x ≠ '&') :
    GLine (P ++ (escAll ESC t0 ++ rawF ESC (flatten2 segs)) ++ Q) := by
  obtain ⟨⟨h1, h2, h3⟩, _, hv⟩ := line_facts_deep2 h P Q hP hQ
  obtain ⟨x, hx, hxs⟩ := hv
  exact ⟨(by intro e; rw [e] at hx; cases hx), h1, h2, h3, x, hx, hxs⟩

theorem raw_head {c : List DocSpec.Inline} {t0 : Str} {segs : List Seg2} (h : Deep2ContentOK c t0 segs) :
    (escAll ESC t0 ++ rawF ESC (flatten2 segs)).head? ≠ some ' ' :=
  (raw_facts (txtLine_of_content h).raw).2.1

/-- **every printed form of a flat block** with mixed content, at the top level (indented by up to three spaces) or
    below it -/
theorem printBlock_flat (b : DocSpec.Block) (top : Bool) (st : PSt) (hf : isDeep2Flat b = true)
    (hw : wfBlock none b = true) :
    ∃ (k : NKid) (st' : PSt), printBlock top b st = (flatLines k.gs, st') ∧ st'.defs = st.defs ∧
      NKidOK ESC k ∧ k.t.out = specBlock b ∧ k.t.isBqN = isQuote b ∧ k.t.isListN = isList b ∧
      (top = false → ∃ B, OkB ESC B ∧ B.groups ESC 0 = k.gs ∧ B.tree false = k.t) := by
  cases b with
  | rule =>
    have hg : GGroup [ruleLine true (if top then (draw st).1 else 0) (draw (draw st).2).1 (draw (draw (draw st).2).2).1
        (draw (draw (draw (draw st).2).2).2).1 (draw (draw (draw (draw (draw st).2).2).2).2).1] :=
      ⟨by simp, by intro l hl; simp only [List.mem_singleton] at hl; subst hl; exact gline_rule _ _ _ _ _⟩
    obtain ⟨hk, hB⟩ := kid_of_produces _ (.el "hr".toList .none []) hg
      (by simpa [joinLines_single, NT.src, NT.srcs, Txt.src] using produces_ruleS 4 (by omega) _ _ _ _ _) hr_ok
    refine ⟨_, (draw (draw (draw (draw (draw st).2).2).2).2).2, ?_, by simp [draw_defs], hk, rfl, rfl, rfl, ?_⟩
    · rw [printBlock_rule', ruleLine_top]; rfl
    · intro ht
      apply hB
      intro l hl
      simp only [List.head?_cons, Option.some.injEq] at hl
      subst hl; subst ht
      exact ruleLine_head0 _ _ _ _
  | para c =>
    simp only [isDeep2Flat] at hf
    simp only [wfBlock] at hw
    obtain ⟨t0, segs, st1, hpc, hd1, hmc⟩ := printContent_deep2 c true hf hw (draw st).2
    have hi3 : (if top then (draw st).1 % 4 else 0) ≤ 3 := by split <;> omega
    have hgl := gline_mix hmc (spaces (if top then (draw st).1 % 4 else 0)) [] (okCh_spaces _) (by simp)
    simp only [List.append_nil] at hgl
    have hg : GGroup [spaces (if top then (draw st).1 % 4 else 0) ++ (escAll ESC t0 ++ rawF ESC (flatten2 segs))] :=
      ⟨by simp, by intro l hl; simp only [List.mem_singleton] at hl; subst hl; exact hgl⟩
    obtain ⟨hk, hB⟩ := kid_of_produces _ (leafT "p".toList t0 segs) hg
      (by rw [leafT_src, joinLines_single]; exact produces_paraN _ hi3 _ (txtLine_of_content hmc).raw)
      (leafT_ok hmc _ (by decide))
    have htags := leafT_tags "p".toList t0 segs (by decide)
    refine ⟨_, st1, ?_, by rw [hd1, draw_defs], hk, ?_, htags.1, htags.2, ?_⟩
    · rw [printBlock_para', hpc, indentTop_single]; rfl
    · rw [leafT_out hmc _ (by decide), specBlock_para]; simp [S]
    · intro ht
      apply hB
      intro l hl
      simp only [List.head?_cons, Option.some.injEq] at hl
      subst hl; subst ht
      simpa [spaces] using raw_head hmc
  | atx l c =>
    simp only [isDeep2Flat] at hf
    simp only [wfBlock, Bool.and_eq_true, decide_eq_true_eq] at hw
    obtain ⟨t0, segs, st1, hpc, hd1, hmc⟩ := printContent_deep2 c false hf hw.2 (draw st).2
    have hY : atxClosing (draw st).1 l = [] ∨ ∃ m, atxClosing (draw st).1 l = ' ' :: List.replicate m '#' := by
      unfold atxClosing
      split
      · exact Or.inl rfl
      · split
        · exact Or.inr ⟨1, rfl⟩
        · exact Or.inr ⟨l, rfl⟩
    have hhash : DocParse2.okCh '#' ∧ ('#' : Char) ≠ '&' :=
      ⟨⟨by decide, by decide, by decide, by decide, by decide, by decide⟩, by decide⟩
    have hP : ∀ x ∈ List.replicate l '#' ++ [' '], DocParse2.okCh x ∧ x ≠ '&' := by
      intro x hx
      rcases List.mem_append.1 hx with hx | hx
      · rw [List.eq_of_mem_replicate hx]; exact hhash
      · have : x = ' ' := by simpa using hx
        rw [this]; exact DocParse2.okCh_space
    have hQ : ∀ x ∈ atxClosing (draw st).1 l, DocParse2.okCh x ∧ x ≠ '&' := by
      intro x hx
      rcases hY with e | ⟨m, e⟩
      · rw [e] at hx; cases hx
      · rw [e] at hx
        rcases List.mem_cons.1 hx with hx | hx
        · rw [hx]; exact DocParse2.okCh_space
        · rw [List.eq_of_mem_replicate hx]; exact hhash
    have hgl := gline_mix hmc _ _ hP hQ
    have hline : List.replicate l '#' ++ [' '] ++ (escAll ESC t0 ++ rawF ESC (flatten2 segs)) ++ atxClosing (draw st).1 l =
        List.replicate l '#' ++ ' ' :: ((escAll ESC t0 ++ rawF ESC (flatten2 segs)) ++ atxClosing (draw st).1 l) := by
      simp [List.append_assoc]
    rw [hline] at hgl
    have hg : GGroup [List.replicate l '#' ++ ' ' :: ((escAll ESC t0 ++ rawF ESC (flatten2 segs)) ++ atxClosing (draw st).1 l)] :=
      ⟨by simp, by intro x hx; simp only [List.mem_singleton] at hx; subst hx; exact hgl⟩
    have htag := hTag_mem l hw.1.1 hw.1.2
    obtain ⟨hk, hB⟩ := kid_of_produces _ (leafT ('h' :: natToDec l) t0 segs) hg
      (by rw [leafT_src, joinLines_single]
          exact produces_atxN _ (txtLine_of_content hmc).raw l hw.1.1 hw.1.2 _ hY)
      (leafT_ok hmc _ htag)
    have htags := leafT_tags ('h' :: natToDec l) t0 segs htag
    refine ⟨_, st1, ?_, by rw [hd1, draw_defs], hk, ?_, htags.1, htags.2, ?_⟩
    · rw [printBlock_atx', hpc]
      simp [atxLine, join, rep, flatLines, List.append_assoc]
    · rw [leafT_out hmc _ htag, specBlock_atx]; simp [S, List.append_assoc]
    · intro _
      apply hB
      intro x hx
      simp only [List.head?_cons, Option.some.injEq] at hx
      subst hx
      obtain ⟨n, hn⟩ : ∃ n, l = n + 1 := ⟨l - 1, by omega⟩
      rw [hn, List.replicate_succ]
      simp
  | setext l c =>
    simp only [isDeep2Flat] at hf
    simp only [wfBlock, Bool.and_eq_true, Bool.or_eq_true, decide_eq_true_eq] at hw
    obtain ⟨t0, segs, st1, hpc, hd1, hmc⟩ := printContent_deep2 c false hf hw.2 (draw (draw st).2).2
    have hi : (if top then (draw st).1 % 4 else 0) < 4 := by split <;> omega
    have hgl := gline_mix hmc (spaces (if top then (draw st).1 % 4 else 0)) [] (okCh_spaces _) (by simp)
    simp only [List.append_nil] at hgl
    have hch2 : (if l = 1 then '=' else '-') = '=' ∨ (if l = 1 then '=' else '-') = '-' := by split <;> simp
    have hul : GLine (List.replicate ((draw (draw st).2).1 % 8 + 1) (if l = 1 then '=' else '-')) := by
      generalize (if l = 1 then '=' else '-') = ch at hch2
      have hall : ∀ x ∈ List.replicate ((draw (draw st).2).1 % 8 + 1) ch, DocParse2.okCh x := by
        intro x hx; rw [List.eq_of_mem_replicate hx]
        rcases hch2 with h' | h' <;> rw [h'] <;> exact ⟨by decide, by decide, by decide, by decide, by decide, by decide⟩
      refine gline_of_chars hall (refsClosed_of_no_amp _ ?_) ⟨ch, by simp [List.replicate_succ], ?_⟩
      · intro hm
        have := List.eq_of_mem_replicate hm
        rcases hch2 with h' | h' <;> rw [h'] at this <;> exact absurd this (by decide)
      · rcases hch2 with h' | h' <;> rw [h'] <;> decide
    have hg : GGroup [spaces (if top then (draw st).1 % 4 else 0) ++ (escAll ESC t0 ++ rawF ESC (flatten2 segs)),
        List.replicate ((draw (draw st).2).1 % 8 + 1) (if l = 1 then '=' else '-')] :=
      ⟨by simp, by
        intro x hx
        simp only [List.mem_cons, List.mem_nil_iff, or_false] at hx
        rcases hx with rfl | rfl
        · exact hgl
        · exact hul⟩
    have htag := hTag_mem l (by omega) (by omega)
    have hj : joinLines [spaces (if top then (draw st).1 % 4 else 0) ++ (escAll ESC t0 ++ rawF ESC (flatten2 segs)),
        List.replicate ((draw (draw st).2).1 % 8 + 1) (if l = 1 then '=' else '-')] =
        spaces (if top then (draw st).1 % 4 else 0) ++ (escAll ESC t0 ++ rawF ESC (flatten2 segs)) ++
          '\n' :: List.replicate ((draw (draw st).2).1 % 8 + 1) (if l = 1 then '=' else '-') := by
      simp [joinLines, join]
    obtain ⟨hk, hB⟩ := kid_of_produces _ (leafT ('h' :: natToDec l) t0 segs) hg
      (by rw [leafT_src, hj]
          exact produces_setextN _ hi _ (txtLine_of_content hmc).raw l _ hw.1)
      (leafT_ok hmc _ htag)
    have htags := leafT_tags ('h' :: natToDec l) t0 segs htag
    refine ⟨_, st1, ?_, by rw [hd1, draw_defs, draw_defs], hk, ?_, htags.1, htags.2, ?_⟩
    · rw [printBlock_setext', hpc, indentTop_single]; rfl
    · rw [leafT_out hmc _ htag, specBlock_setext]; simp [S, List.append_assoc]
    · intro ht
      apply hB
      intro x hx
      simp only [List.head?_cons, Option.some.injEq] at hx
      subst hx; subst ht
      simpa [spaces] using raw_head hmc
  | code _ => simp [isDeep2Flat] at hf
  | quote _ => simp [isDeep2Flat] at hf
  | ulist _ _ => simp [isDeep2Flat] at hf
  | olist _ _ => simp [isDeep2Flat] at hf

/-! ### the shape of `print` on tight lists -/

theorem txtOut_eq {c : List DocSpec.Inline} {t0 : Str} {segs : List Seg2} (h : Deep2ContentOK c t0 segs) (nk : Bool) :
    (Txt.mix t0 segs).out nk = specInlines c := by
  have := l2Out_eq h []
  simp only [l2Out, List.cons_append, List.nil_append, List.cons.injEq, true_and, List.append_assoc] at this
  have h2 := List.append_cancel_right
    (show (Ser.escCdata t0 ++ out2 segs) ++ ['<', '/', '>'] = specInlines c ++ ['<', '/', '>'] by
      rw [List.append_assoc]; exact this)
  simpa [Txt.out] using h2

theorem isNest2Block_ulist (l : Bool) (items : List (List DocSpec.Block)) :
    isNest2Block (.ulist l items) = isNest2Items items := by rw [isNest2Block]
theorem isNest2Block_olist (l : Bool) (items : List (List DocSpec.Block)) :
    isNest2Block (.olist l items) = isNest2Items items := by rw [isNest2Block]
theorem isNest2Block_quote (bs : List DocSpec.Block) : isNest2Block (.quote bs) = isNest2Blocks bs := by rw [isNest2Block]
theorem isNest2Block_para (c : List DocSpec.Inline) : isNest2Block (.para c) = deep2Run c := by rw [isNest2Block]
theorem isNest2Blocks_cons (b : DocSpec.Block) (r : List DocSpec.Block) :
    isNest2Blocks (b :: r) = (isNest2Block b && isNest2Blocks r) := by rw [isNest2Blocks]
theorem isNest2Items_cons (it : List DocSpec.Block) (r : List (List DocSpec.Block)) :
    isNest2Items (it :: r) = (isNest2Blocks it && isNest2Items r) := by rw [isNest2Items]

/-- a list printed as a tight list -/
def isTightL : DocSpec.Block → Bool
  | .ulist l _ => !l
  | .olist l _ => !l
  | _ => false

/-- a list printed as a loose list -/
def isLooseL : DocSpec.Block → Bool
  | .ulist l _ => l
  | .olist l _ => l
  | _ => false

theorem marker_okCh {o : Bool} {m : Str} (h : IsMarker o m) : ∀ x ∈ m, DocParse2.okCh x ∧ x ≠ '&' := by
  intro x hx
  obtain ⟨h1, h2⟩ := marker_chars h x hx
  refine ⟨okCh_plain h1 h2, ?_⟩
  intro e; subst e; revert h1; decide

/-- what `spec` writes for an item of a tight list -/
theorem tItem_out (m : Str) (t0 : Str) (segs : List Seg2) (sub : List Str) (subT : List NT)
    {c : List DocSpec.Inline} (h : Deep2ContentOK c t0 segs) :
    (TItem.tree ⟨m, .mix t0 segs, sub, subT⟩).out = S "<li>" ++ specInlines c ++ NT.outsNl subT ++ S "</li>" := by
  have hhr : ¬ ("li".toList = ['h', 'r']) := by decide
  rw [TItem.tree, nout_el]
  simp only [hhr, if_false, txtOut_eq h]
  simp [S, List.append_assoc]

theorem tlistTree_ok (o : Bool) (items : List TItem) (h : NT.oks ESC (items.map TItem.tree)) :
    (tlistTree o items).ok ESC := by
  rw [tlistTree, nok_el]
  exact ⟨ul_mem o, trivial, fun e => by cases o <;> exact absurd e (by decide), h⟩

theorem tlistTree_out (o : Bool) (items : List TItem) (hne : items ≠ []) :
    (tlistTree o items).out =
      '<' :: (if o then "ol".toList else "ul".toList) ++ ['>', '\n'] ++
        join ['\n'] (NT.outs (items.map TItem.tree)) ++ ['\n'] ++
        ('<' :: '/' :: (if o then "ol".toList else "ul".toList) ++ ['>']) := by
  have hemp : (items.map TItem.tree).isEmpty = false := by
    cases items with
    | nil => exact absurd rfl hne
    | cons a b => rfl
  rw [tlistTree, nout_el, noutsNl_eq, flatMap_nl _ (nouts_ne_nil _ (by simpa using hne))]
  cases o <;> simp [Txt.out, hemp, List.append_assoc]

theorem gline_indented4 (x : Str) (h : GLine x) : GLine (spaces 4 ++ x) := gline_spaces 4 h

mutual
theorem printTight_n : (l : DocSpec.Block) → (top : Bool) → (mode : Option Bool) → (st : PSt) →
    isTightL l = true → isNest2Block l = true → wfBlock mode l = true →
    ∃ (o : Bool) (items : List TItem) (st' : PSt),
      printBlock top l st = (tlistLines ESC items, st') ∧ st'.defs = st.defs ∧ items ≠ [] ∧
      (∀ it ∈ items, TItemOK ESC o it) ∧ (∀ x ∈ tlistLines ESC items, GLine x) ∧
      (tlistTree o items).ok ESC ∧ (tlistTree o items).out = specBlock l
  | .ulist loose items, top, mode, st, hq, hn, hw => by
    simp only [isTightL, Bool.not_eq_true'] at hq
    subst hq
    rw [isNest2Block_ulist] at hn
    rw [wfBlock_ulist] at hw
    simp only [Bool.and_eq_true, Bool.not_eq_true', List.isEmpty_eq_false_iff] at hw
    obtain ⟨⟨⟨_, hne⟩, hwi⟩, _⟩ := hw
    obtain ⟨litems, st', hp, hd, hlne, hoks, hgood, htok, houts⟩ :=
      printTightItems_n items (some (markerChar (draw st).1)) (by intro c hc; cases hc; exact markerChar_cases _) 0 0
        (draw st).2 hn hwi
    have hlne' := hlne hne
    refine ⟨false, litems, st', by rw [printBlock_ulist, hp], by rw [hd, draw_defs], hlne', hoks, hgood,
      tlistTree_ok false litems htok, ?_⟩
    rw [tlistTree_out false litems hlne', houts, specBlock_ulist, specItems_eq_join, liSpec_fun]
    simp [S, List.append_assoc]
  | .olist loose items, top, mode, st, hq, hn, hw => by
    simp only [isTightL, Bool.not_eq_true'] at hq
    subst hq
    rw [isNest2Block_olist] at hn
    rw [wfBlock_olist] at hw
    simp only [Bool.and_eq_true, Bool.not_eq_true', List.isEmpty_eq_false_iff] at hw
    obtain ⟨⟨⟨_, hne⟩, hwi⟩, _⟩ := hw
    obtain ⟨litems, st', hp, hd, hlne, hoks, hgood, htok, houts⟩ :=
      printTightItems_n items none (by intro c hc; cases hc) ((draw st).1 % 10) ((draw (draw st).2).1 % 3)
        (draw (draw st).2).2 hn hwi
    have hlne' := hlne hne
    refine ⟨true, litems, st', by rw [printBlock_olist, hp], by rw [hd, draw_defs, draw_defs], hlne', hoks, hgood,
      tlistTree_ok true litems htok, ?_⟩
    rw [tlistTree_out true litems hlne', houts, specBlock_olist, specItems_eq_join, liSpec_fun]
    simp [S, List.append_assoc]
  | .para _, _, _, _, hq, _, _ => by simp [isTightL] at hq
  | .atx _ _, _, _, _, hq, _, _ => by simp [isTightL] at hq
  | .setext _ _, _, _, _, hq, _, _ => by simp [isTightL] at hq
  | .rule, _, _, _, hq, _, _ => by simp [isTightL] at hq
  | .code _, _, _, _, hq, _, _ => by simp [isTightL] at hq
  | .quote _, _, _, _, hq, _, _ => by simp [isTightL] at hq
theorem printTightItems_n : (items : List (List DocSpec.Block)) → (marker : Option Char) →
    (∀ c, marker = some c → c = '*' ∨ c = '+' ∨ c = '-') → (num step : Nat) → (st : PSt) →
    isNest2Items items = true → wfItems false items = true →
    ∃ (litems : List TItem) (st' : PSt),
      printItems false marker num step items st = (tlistLines ESC litems, st') ∧
      st'.defs = st.defs ∧ (items ≠ [] → litems ≠ []) ∧
      (∀ it ∈ litems, TItemOK ESC marker.isNone it) ∧
      (∀ x ∈ tlistLines ESC litems, GLine x) ∧
      NT.oks ESC (litems.map TItem.tree) ∧ NT.outs (litems.map TItem.tree) = items.map liSpec
  | [], marker, _, num, step, st, _, _ =>
    ⟨[], st, rfl, rfl, fun h => absurd rfl h, (fun it hit => by cases hit), (fun x hx => by cases hx), trivial, rfl⟩
  | item :: r, marker, hmk, num, step, st, hq, hw => by
    have hm := isMarker_itemMarker marker hmk num
    rw [isNest2Items_cons] at hq
    simp only [Bool.and_eq_true] at hq
    obtain ⟨hwi, hwr⟩ : (∃ b bs, item = b :: bs ∧ isPara b = true ∧ bs.length ≤ 1 ∧ (∀ l ∈ bs, isList l = true) ∧
        wfBlock (some false) b = true ∧ wfBlockList (some false) bs = true) ∧ wfItems false r = true := by
      cases item with
      | nil => simp [wfItems] at hw
      | cons b bs =>
        cases bs with
        | nil =>
          rw [wfItems_one] at hw
          simp only [Bool.and_eq_true] at hw
          exact ⟨⟨b, [], rfl, hw.1.1.1.1.1, by simp, by simp, hw.1.1.1.2, rfl⟩, hw.2⟩
        | cons l bs' =>
          cases bs' with
          | nil =>
            rw [wfItems_two] at hw
            simp only [Bool.and_eq_true] at hw
            exact ⟨⟨b, [l], rfl, hw.1.1.1.1.1, by simp, by simpa using hw.1.2, hw.1.1.1.2, hw.1.1.2⟩, hw.2⟩
          | cons x y => simp [wfItems] at hw
    obtain ⟨b, bs, rfl, h1, h3, h2, h4, h5⟩ := hwi
    obtain ⟨it, st1, hp1, hd1, hok1, hgood1, htok1, hout1⟩ :=
      printTightItem_n bs b (itemMarker marker num) marker.isNone hm st h1 h3 h2 hq.1 h4 h5
    obtain ⟨litems, st2, hp2, hd2, _, hoks2, hgood2, htoks2, houts2⟩ :=
      printTightItems_n r marker hmk (num + step) step st1 hq.2 hwr
    refine ⟨it :: litems, st2, ?_, by rw [hd2, hd1], fun _ => by simp, ?_, ?_, ?_, ?_⟩
    · rw [printItems_cons, hp1]
      simp only [hp2, Bool.false_and, Bool.false_eq_true, if_false, List.append_nil]
      simp [tlistLines]
    · intro x hx
      rcases List.mem_cons.1 hx with rfl | hx
      · exact hok1
      · exact hoks2 x hx
    · intro x hx
      simp only [tlistLines, List.flatMap_cons, List.mem_append] at hx
      rcases hx with hx | hx
      · exact hgood1 x hx
      · exact hgood2 x hx
    · rw [List.map_cons, noks_cons]; exact ⟨htok1, htoks2⟩
    · simp only [List.map_cons, nouts_cons, hout1, houts2]
theorem printTightItem_n : (bs : List DocSpec.Block) → (b : DocSpec.Block) → (m : Str) → (o : Bool) → IsMarker o m →
    (st : PSt) → isPara b = true → bs.length ≤ 1 → (∀ l ∈ bs, isList l = true) → isNest2Blocks (b :: bs) = true →
    wfBlock (some false) b = true → wfBlockList (some false) bs = true →
    ∃ (it : TItem) (st' : PSt),
      printItem false m (b :: bs) st = (it.lines ESC, st') ∧ st'.defs = st.defs ∧
      TItemOK ESC o it ∧ (∀ x ∈ it.lines ESC, GLine x) ∧
      it.tree.ok ESC ∧ it.tree.out = liSpec (b :: bs)
  | [], b, m, o, hm, st, h1, _, _, hn, h4, _ => by
    cases b with
    | para c =>
      rw [isNest2Blocks_cons, isNest2Block_para] at hn
      simp only [Bool.and_eq_true] at hn
      rw [wfBlock_para] at h4
      obtain ⟨t0, segs, st1, hpc, hd1, hmc⟩ := printContent_deep2 c true hn.1 h4 (draw st).2
      have htl := txtLine_of_content hmc
      have hgl : GLine (m ++ (escAll ESC t0 ++ rawF ESC (flatten2 segs))) := by
        have := gline_mix hmc m [] (marker_okCh hm) (by simp)
        simpa using this
      refine ⟨⟨m, .mix t0 segs, [], []⟩, st1, ?_, by rw [hd1, draw_defs],
        ⟨⟨hm, htl, Or.inl rfl, by intro l hl; cases hl⟩, Or.inl ⟨rfl, rfl⟩⟩, ?_, ?_, ?_⟩
      · rw [printItem_cons, printBlock_para', hpc, indentTop_single, printRest_nil]
        simp [TItem.lines, withMarker, spaces, Txt.raw]
      · intro x hx
        have : x = m ++ (escAll ESC t0 ++ rawF ESC (flatten2 segs)) := by simpa [TItem.lines, Txt.raw] using hx
        subst this
        exact hgl
      · rw [TItem.tree, nok_el]
        exact ⟨li_mem, htl.ok, fun e => absurd e (by decide), trivial⟩
      · rw [tItem_out m t0 segs [] [] hmc, liSpec, specTight_para, specTight_nil]
        simp [NT.outsNl]
    | atx _ _ => simp [isPara] at h1
    | setext _ _ => simp [isPara] at h1
    | rule => simp [isPara] at h1
    | code _ => simp [isPara] at h1
    | quote _ => simp [isPara] at h1
    | ulist _ _ => simp [isPara] at h1
    | olist _ _ => simp [isPara] at h1
  | [l], b, m, o, hm, st, h1, _, h2, hn, h4, h5 => by
    rw [wfBlockList_one] at h5
    simp only [Bool.and_true] at h5
    have hl := h2 l (by simp)
    cases b with
    | para c =>
      rw [isNest2Blocks_cons, isNest2Block_para, isNest2Blocks_cons] at hn
      simp only [Bool.and_eq_true] at hn
      rw [wfBlock_para] at h4
      obtain ⟨t0, segs, st1, hpc, hd1, hmc⟩ := printContent_deep2 c true hn.1 h4 (draw st).2
      have htl := txtLine_of_content hmc
      have hgl : GLine (m ++ (escAll ESC t0 ++ rawF ESC (flatten2 segs))) := by
        have := gline_mix hmc m [] (marker_okCh hm) (by simp)
        simpa using this
      -- the nested list is tight: `WF` says so
      have htight : isTightL l = true := by
        cases l with
        | ulist lo its =>
          rw [wfBlock_ulist] at h5
          simp only [Bool.and_eq_true, Bool.or_eq_true, decide_eq_true_eq] at h5
          rcases h5.1.1.1 with h' | h'
          · cases h'
          · simp only [Option.some.injEq] at h'; simp [isTightL, ← h']
        | olist lo its =>
          rw [wfBlock_olist] at h5
          simp only [Bool.and_eq_true, Bool.or_eq_true, decide_eq_true_eq] at h5
          rcases h5.1.1.1 with h' | h'
          · cases h'
          · simp only [Option.some.injEq] at h'; simp [isTightL, ← h']
        | para _ => simp [isList] at hl
        | atx _ _ => simp [isList] at hl
        | setext _ _ => simp [isList] at hl
        | rule => simp [isList] at hl
        | code _ => simp [isList] at hl
        | quote _ => simp [isList] at hl
      obtain ⟨o', items', st2, hp2, hd2, hne2, hoks2, hgood2, htok2, hout2⟩ :=
        printTight_n l false (some false) st1 htight hn.2.1 h5
      have hms : MarkerStart (tlistLines ESC items') := by
        obtain ⟨it0, r0, rfl⟩ : ∃ it0 r0, items' = it0 :: r0 := by
          cases items' with
          | nil => exact absurd rfl hne2
          | cons a b => exact ⟨a, b, rfl⟩
        have h0 := (hoks2 it0 List.mem_cons_self).shape
        exact ⟨o', it0.m, it0.tx.raw ESC,
          it0.sub.map (spaces 4 ++ ·) ++ tlistLines ESC r0, by simp [tlistLines, TItem.lines],
          h0.marker, (raw_facts h0.text.raw).2.1⟩
      have hnl : ∀ x ∈ tlistLines ESC items', '\n' ∉ x := fun x hx => (hgood2 x hx).noNl
      refine ⟨⟨m, .mix t0 segs, tlistLines ESC items', [tlistTree o' items']⟩, st2, ?_,
        by rw [hd2, hd1, draw_defs],
        ⟨⟨hm, htl, Or.inr hms, hnl⟩, Or.inr ⟨_, rfl, hms, teffX_list o' items' hne2 hoks2⟩⟩, ?_, ?_, ?_⟩
      · rw [printItem_cons, printBlock_para', hpc, indentTop_single, printRest_cons,
          hp2, printRest_nil, prefix4_lines _ (fun x hx => (hgood2 x hx).1)]
        simp [TItem.lines, withMarker, spaces, Txt.raw]
      · intro x hx
        simp only [TItem.lines, List.mem_cons, List.mem_map] at hx
        rcases hx with rfl | ⟨y, hy, rfl⟩
        · simpa [Txt.raw] using hgl
        · exact gline_indented4 y (hgood2 y hy)
      · rw [TItem.tree, nok_el]
        refine ⟨li_mem, htl.ok, fun e => absurd e (by decide), ?_⟩
        rw [noks_cons]; exact ⟨htok2, trivial⟩
      · have hspecT : specTight [l] = specBlock l ++ S "\n" := by
          cases l with
          | ulist lo its => rw [specTight_ulist, specTight_nil]; simp
          | olist lo its => rw [specTight_olist, specTight_nil]; simp
          | para _ => simp [isList] at hl
          | atx _ _ => simp [isList] at hl
          | setext _ _ => simp [isList] at hl
          | rule => simp [isList] at hl
          | code _ => simp [isList] at hl
          | quote _ => simp [isList] at hl
        rw [tItem_out m t0 segs _ _ hmc, liSpec, specTight_para, hspecT, ← hout2]
        simp [NT.outsNl, S, List.append_assoc]
    | atx _ _ => simp [isPara] at h1
    | setext _ _ => simp [isPara] at h1
    | rule => simp [isPara] at h1
    | code _ => simp [isPara] at h1
    | quote _ => simp [isPara] at h1
    | ulist _ _ => simp [isPara] at h1
    | olist _ _ => simp [isPara] at h1
  | _ :: _ :: _, _, _, _, _, _, _, h3, _, _, _, _ => by simp at h3
end

/-! ### adjacency -/

theorem okNexts_cons2 (a b : DocSpec.Block) (r : List DocSpec.Block) :
    okNexts (a :: b :: r) = (okNext a b && okNexts (b :: r)) := rfl

theorem adjT_of_okNexts (ts : List NT) : ∀ (bs : List DocSpec.Block) (prev : DocSpec.Block),
    ts.map NT.isBqN = bs.map isQuote → ts.map NT.isListN = bs.map isList →
    okNexts (prev :: bs) = true → adjT (isQuote prev) (isList prev) ts = true := by
  induction ts with
  | nil => intros; rfl
  | cons t r ih =>
    intro bs prev hb hl hn
    cases bs with
    | nil => simp at hb
    | cons b bs' =>
      simp only [List.map_cons, List.cons.injEq] at hb hl
      rw [okNexts_cons2] at hn
      simp only [Bool.and_eq_true, okNext, Bool.not_eq_true'] at hn
      have := ih bs' b hb.2 hl.2 hn.2
      simp only [adjT, hb.1, hl.1, this, Bool.and_true, Bool.and_eq_true, Bool.not_eq_true']
      exact ⟨hn.1.2, hn.1.1.1⟩

theorem adjT_of_okNexts0 (ts : List NT) (bs : List DocSpec.Block)
    (hb : ts.map NT.isBqN = bs.map isQuote) (hl : ts.map NT.isListN = bs.map isList)
    (hn : okNexts bs = true) : adjT false false ts = true := by
  have := adjT_of_okNexts ts bs .rule hb hl (by
    cases bs with
    | nil => rfl
    | cons b r => rw [okNexts_cons2, hn]; simp [okNext, isList, isCode, isQuote])
  simpa [isQuote, isList] using this

theorem wfBlock_deep2flat_mode (b : DocSpec.Block) (hf : isDeep2Flat b = true) (mode : Option Bool)
    (hw : wfBlock mode b = true) : wfBlock none b = true := by
  cases b <;> first | exact hw | simp [isDeep2Flat] at hf

/-! ### `spec` and the trees of loose lists -/

theorem nout_it {c : List DocSpec.Inline} {t0 : Str} {segs : List Seg2} (h : Deep2ContentOK c t0 segs)
    (first : Bool) (m : Str) (rest : List NB) :
    ((NB.it m (.mix t0 segs) rest).tree first).out =
      S "<li>\n" ++ join ['\n'] ((S "<p>" ++ specInlines c ++ S "</p>") :: NT.outs (NB.trees rest)) ++ S "\n</li>" := by
  have hhr : ¬ ("li".toList = ['h', 'r']) := by decide
  have hp := leafT_out h "p".toList (by decide)
  rw [leafT] at hp
  rw [ntree_it, nout_el, noutsNl_eq, flatMap_nl _ (nouts_ne_nil _ (by simp)), nouts_cons, hp]
  cases first <;> simp [Txt.out, S, List.append_assoc]

theorem nout_l (o : Bool) (is : List NB) (hne : is ≠ []) :
    ((NB.l o is).tree false).out =
      '<' :: (if o then "ol".toList else "ul".toList) ++ ['>', '\n'] ++
        join ['\n'] (NT.outs (NB.treeItems true is)) ++ ['\n'] ++
        ('<' :: '/' :: (if o then "ol".toList else "ul".toList) ++ ['>']) := by
  have hne' : NB.treeItems true is ≠ [] := by
    cases is with
    | nil => exact absurd rfl hne
    | cons a b => rw [ntreeItems_cons]; simp
  have hemp : (NB.treeItems true is).isEmpty = false := by
    cases hx : NB.treeItems true is with
    | nil => exact absurd hx hne'
    | cons a b => rfl
  rw [ntree_l, nout_el, noutsNl_eq, flatMap_nl _ (nouts_ne_nil _ hne')]
  cases o <;> simp [Txt.out, hemp, List.append_assoc]

/-- the number of blocks of an item -/
def nitemLen : NB → Nat
  | .it _ _ rest => rest.length + 1
  | _ => 0

theorem nfirstOK_of_wf {o : Bool} (is : List NB) (items : List (List DocSpec.Block))
    (hok : OkIs ESC o is) (hlen : is.map nitemLen = items.map List.length) (hne : items ≠ [])
    (hw : (decide (items.length ≥ 2) || items.any (fun i => decide (i.length ≥ 2))) = true) :
    NB.firstOK is = true := by
  cases hok with
  | nil =>
    cases items with
    | nil => exact absurd rfl hne
    | cons a b => simp at hlen
  | cons hi his =>
    cases hi with
    | it hm ht hg hrest hadj =>
      rename_i r m tx rest
      cases items with
      | nil => exact absurd rfl hne
      | cons it its =>
        simp only [List.map_cons, List.cons.injEq, nitemLen] at hlen
        simp only [NB.firstOK, Bool.or_eq_true, Bool.not_eq_true', List.isEmpty_eq_false_iff]
        cases r with
        | cons a b => exact Or.inr (by simp)
        | nil =>
          left
          cases its with
          | cons a b => simp at hlen
          | nil =>
            simp only [List.length_singleton, List.any_cons, List.any_nil, Bool.or_false, Bool.or_eq_true,
              decide_eq_true_eq] at hw
            rcases hw with hw | hw
            · omega
            · intro e; rw [e] at hlen; simp at hlen; omega

mutual
theorem ngroups_succ (esc : List Char) : (b : NB) → ∀ k, b.groups esc (k + 1) = (b.groups esc k).map shift
  | .x gs t, k => by
    rw [ngroups_x, ngroups_x, List.map_map]
    apply List.map_congr_left
    intro g _
    exact ind_succ k g
  | .l o items, k => by rw [ngroups_l, ngroups_l, ngroupsL_succ esc items k]
  | .it m tx rest, k => by rw [ngroups_it, ngroups_it, ind_succ, ngroupsL_succ esc rest (k + 1)]; rfl
theorem ngroupsL_succ (esc : List Char) : (bs : List NB) → ∀ k,
    NB.groupsL esc (k + 1) bs = (NB.groupsL esc k bs).map shift
  | [], k => by rw [ngroupsL_nil, ngroupsL_nil]; rfl
  | b :: r, k => by rw [ngroupsL_cons, ngroupsL_cons, ngroups_succ esc b k, ngroupsL_succ esc r k, List.map_append]
end

/-! ### every printed form of a block of the sub-grammar -/

/-- what is established of the printed form of a block: as a kid of a parent that is not an item, and (below the top
    level) as a block of a list item -/
def PrintsAs (b : DocSpec.Block) (top : Bool) (st : PSt) : Prop :=
  ∃ (k : NKid) (st' : PSt), printBlock top b st = (flatLines k.gs, st') ∧ st'.defs = st.defs ∧
    NKidOK ESC k ∧ k.t.out = specBlock b ∧ k.t.isBqN = isQuote b ∧ k.t.isListN = isList b ∧
    (top = false → ∃ B, OkB ESC B ∧ B.groups ESC 0 = k.gs ∧ B.tree false = k.t)

theorem printsAs_of_okB {b : DocSpec.Block} {top : Bool} {st st' : PSt} (B : NB) (hB : OkB ESC B)
    (hp : printBlock top b st = (flatLines (B.groups ESC 0), st')) (hd : st'.defs = st.defs)
    (hout : (B.tree false).out = specBlock b) (hbq : (B.tree false).isBqN = isQuote b)
    (hli : (B.tree false).isListN = isList b) : PrintsAs b top st :=
  ⟨⟨B.groups ESC 0, B.tree false⟩, st', hp, hd, nkid_of_okB B hB, hout, hbq, hli, fun _ => ⟨B, hB, rfl, rfl⟩⟩

theorem flatLines_cons_groups' (x : Str) (G : List (List Str)) :
    flatLines ([x] :: G) = x :: (if G.isEmpty then [] else [] :: flatLines G) := by
  cases G with
  | nil => rfl
  | cons g r => rw [flatLines_cons2]; rfl

theorem nprefix_flat_blank (j : Nat) (ks : List NKid) :
    prefixLines (rep j ' ') (flatLines (qGroupsB 0 ks)) = flatLines (qGroupsB j ks) := by
  induction ks with
  | nil => rfl
  | cons k r ih =>
    cases r with
    | nil =>
      simp only [qGroupsB, List.map_cons, List.map_nil, flatLines]
      exact prefix_qlines j _
    | cons k' r' =>
      simp only [qGroupsB, List.map_cons] at ih ⊢
      rw [flatLines_cons2, flatLines_cons2]
      have h1 := prefix_qlines j (flatLines k.gs)
      simp only [prefixLines, List.map_append, List.map_cons, List.map_nil] at h1 ih ⊢
      rw [h1, ih]
      simp

mutual
theorem printBlock_n : (b : DocSpec.Block) → (top : Bool) → (mode : Option Bool) → (st : PSt) →
    isNest2Block b = true → wfBlock mode b = true → PrintsAs b top st
  | .quote bs, top, mode, st, hq, hw => by
    rw [isNest2Block_quote] at hq
    have hw' : wfBlock none (.quote bs) = true := hw
    rw [wfBlock_quote] at hw'
    simp only [Bool.and_eq_true, Bool.not_eq_true', List.isEmpty_eq_false_iff] at hw'
    obtain ⟨⟨hne, hnext⟩, hwl⟩ := hw'
    obtain ⟨ks, st', hp, hd, hksne, hoks, houts, hbqs, hlis⟩ :=
      printQuoted_n bs (decide ((draw (draw st).2).1 % 2 = 1)) (draw (draw st).2).2 hne hq hwl
    have hadj := adjT_of_okNexts0 (ks.map (·.t)) bs (by rw [List.map_map]; exact hbqs)
      (by rw [List.map_map]; exact hlis) hnext
    have hdefs : st'.defs = st.defs := by rw [hd, draw_defs, draw_defs]
    have hspec : (bqTree ks).out = specBlock (.quote bs) := by
      have hemp : (ks.map (·.t)).isEmpty = false := by
        cases ks with
        | nil => exact absurd rfl hksne
        | cons a b => rfl
      rw [bqTree, nout_el, noutsNl_eq, flatMap_nl _ (nouts_ne_nil _ (by simpa using hksne)), nouts_eq_map,
        List.map_map, specBlock_quote, specBlocks_eq_join, ← houts]
      simp [Txt.out, hemp, S, List.append_assoc, Function.comp_def]
    have hj : (if top then (draw st).1 % 4 else 0) ≤ 3 := by split <;> omega
    have htb : (bqTree ks).isBqN = true ∧ (bqTree ks).isListN = false := by
      simp [bqTree, NT.isBqN, NT.isListN, NT.tag]
    by_cases hblank : (draw (draw st).2).1 % 2 = 1
    · have hloc := locB_quote_blank ESC (if top then (draw st).1 % 4 else 0) hj ks hksne hoks hadj
      have hgood := ggroups_quote_blank ESC (if top then (draw st).1 % 4 else 0) ks hoks
      have hgne : qGroupsB (if top then (draw st).1 % 4 else 0) ks ≠ [] := by simpa [qGroupsB] using hksne
      refine ⟨⟨qGroupsB (if top then (draw st).1 % 4 else 0) ks, bqTree ks⟩, st', ?_, hdefs,
        ⟨hgne, hgood, effN_of_locB hloc, bqTree_ok ESC ks hoks⟩, hspec, htb.1, htb.2, ?_⟩
      · rw [printBlock_quote, hp]
        simp only [hblank, decide_true, if_true]
        cases top with
        | true => simp only [if_true]; rw [nprefix_flat_blank]
        | false => simp
      · intro ht
        subst ht
        refine ⟨.x (qGroupsB 0 ks) (bqTree ks), .x (by simpa using hgne) ?_ (by simpa using hloc)
          (bqTree_ok ESC ks hoks), by rw [ngroups_x, ind0_map]; rfl, ntree_x _ _ _⟩
        intro g hg
        refine ⟨by simpa using hgood g (by simpa using hg), ?_⟩
        obtain ⟨x, hx, rfl⟩ := List.mem_map.1 hg
        intro l hl
        cases hfl : flatLines x.gs with
        | nil => rw [hfl] at hl; simp at hl
        | cons a r =>
          rw [hfl] at hl
          simp only [List.map_cons, List.head?_cons, Option.some.injEq] at hl
          subst hl
          rw [qline_head0]; simp
    · have hloc := locB_quote_tight ESC (if top then (draw st).1 % 4 else 0) hj ks hksne hoks hadj
      have hgood := ggroups_quote_tight ESC (if top then (draw st).1 % 4 else 0) ks hksne hoks
      refine ⟨⟨[(flatLines (allG ks)).map (qline (if top then (draw st).1 % 4 else 0))], bqTree ks⟩, st', ?_, hdefs,
        ⟨by simp, by intro g hg; simp only [List.mem_singleton] at hg; subst hg; exact hgood,
          by simpa using effN_of_locB hloc, bqTree_ok ESC ks hoks⟩, hspec, htb.1, htb.2, ?_⟩
      · rw [printBlock_quote, hp]
        simp only [hblank, decide_false, Bool.false_eq_true, if_false]
        cases top with
        | true => simp only [if_true]; rw [prefix_qlines]; rfl
        | false => simp [flatLines]
      · intro ht
        subst ht
        refine ⟨.x [(flatLines (allG ks)).map (qline 0)] (bqTree ks), .x (by simp) ?_ (by simpa using hloc)
          (bqTree_ok ESC ks hoks), by rw [ngroups_x, ind0_map]; rfl, ntree_x _ _ _⟩
        intro g hg
        simp only [List.mem_singleton] at hg
        subst hg
        refine ⟨by simpa using hgood, ?_⟩
        intro l hl
        cases hfl : flatLines (allG ks) with
        | nil => rw [hfl] at hl; simp at hl
        | cons a r =>
          rw [hfl] at hl
          simp only [List.map_cons, List.head?_cons, Option.some.injEq] at hl
          subst hl
          rw [qline_head0]; simp
  | .rule, top, mode, st, _, hw => printBlock_flat .rule top st rfl hw
  | .para c, top, mode, st, hq, hw =>
    printBlock_flat (.para c) top st (by rw [isNest2Block_para] at hq; exact hq) hw
  | .atx l c, top, mode, st, hq, hw =>
    printBlock_flat (.atx l c) top st (by rw [isNest2Block] at hq; exact hq) hw
  | .setext l c, top, mode, st, hq, hw =>
    printBlock_flat (.setext l c) top st (by rw [isNest2Block] at hq; exact hq) hw
  | .code _, _, _, _, hq, _ => by simp [isNest2Block] at hq
  | .ulist loose items, top, mode, st, hq, hw => by
    cases loose with
    | false =>
      obtain ⟨o, litems, st', hp, hd, hne, hoks, hgood, htok, hout⟩ :=
        printTight_n (.ulist false items) top mode st rfl hq hw
      have hlne : tlistLines ESC litems ≠ [] := by
        cases litems with
        | nil => exact absurd rfl hne
        | cons a r => simp [tlistLines, TItem.lines]
      have hms : ∀ l, (tlistLines ESC litems).head? = some l → l.head? ≠ some ' ' := by
        intro l hl
        obtain ⟨it0, r0, rfl⟩ : ∃ it0 r0, litems = it0 :: r0 := by
          cases litems with
          | nil => exact absurd rfl hne
          | cons a b => exact ⟨a, b, rfl⟩
        have h0 := (hoks it0 List.mem_cons_self).shape
        obtain ⟨d, dr, hmr, hdsp, _⟩ := marker_head h0.marker
        have : l = it0.m ++ it0.tx.raw ESC := by simpa [tlistLines, TItem.lines] using hl.symm
        rw [this, hmr]; simpa using hdsp
      refine printsAs_of_okB (.x [tlistLines ESC litems] (tlistTree o litems))
        (.x (by simp) (by intro g hg; simp only [List.mem_singleton] at hg; subst hg; exact ⟨⟨hlne, hgood⟩, hms⟩)
          (locB_of_effX (teffX_list o litems hne hoks)) htok)
        (by rw [hp, ngroups_x, ind0_map]; rfl) hd (by rw [ntree_x]; exact hout)
        (by rw [ntree_x]; cases o <;> simp [tlistTree, NT.isBqN, NT.tag, isQuote])
        (by rw [ntree_x]; cases o <;> simp [tlistTree, NT.isListN, NT.tag, isList])
    | true =>
      rw [isNest2Block_ulist] at hq
      rw [wfBlock_ulist] at hw
      simp only [Bool.and_eq_true, Bool.not_eq_true', List.isEmpty_eq_false_iff] at hw
      obtain ⟨⟨⟨_, hne⟩, hwi⟩, hcount⟩ := hw
      obtain ⟨is, st', hp, hd, hoks, hlen, houts⟩ :=
        printLooseItems_n items (some (markerChar (draw st).1)) (by intro c hc; cases hc; exact markerChar_cases _) 0 0
          (draw st).2 hq hwi
      have hisne : is ≠ [] := by
        intro e; rw [e] at hlen
        cases items with
        | nil => exact hne rfl
        | cons a b => simp at hlen
      have hf := nfirstOK_of_wf is items hoks hlen hne (by simpa using hcount)
      refine printsAs_of_okB (.l false is) (.l hoks hf) (by rw [printBlock_ulist, hp, ngroups_l])
        (by rw [hd, draw_defs]) ?_ (by rw [isBq_l']; rfl) (by rw [isList_l']; rfl)
      rw [nout_l false is hisne, houts true, specBlock_ulist, specItemsLoose_eq_join]
      simp [S, List.append_assoc]
  | .olist loose items, top, mode, st, hq, hw => by
    cases loose with
    | false =>
      obtain ⟨o, litems, st', hp, hd, hne, hoks, hgood, htok, hout⟩ :=
        printTight_n (.olist false items) top mode st rfl hq hw
      have hlne : tlistLines ESC litems ≠ [] := by
        cases litems with
        | nil => exact absurd rfl hne
        | cons a r => simp [tlistLines, TItem.lines]
      have hms : ∀ l, (tlistLines ESC litems).head? = some l → l.head? ≠ some ' ' := by
        intro l hl
        obtain ⟨it0, r0, rfl⟩ : ∃ it0 r0, litems = it0 :: r0 := by
          cases litems with
          | nil => exact absurd rfl hne
          | cons a b => exact ⟨a, b, rfl⟩
        have h0 := (hoks it0 List.mem_cons_self).shape
        obtain ⟨d, dr, hmr, hdsp, _⟩ := marker_head h0.marker
        have : l = it0.m ++ it0.tx.raw ESC := by simpa [tlistLines, TItem.lines] using hl.symm
        rw [this, hmr]; simpa using hdsp
      refine printsAs_of_okB (.x [tlistLines ESC litems] (tlistTree o litems))
        (.x (by simp) (by intro g hg; simp only [List.mem_singleton] at hg; subst hg; exact ⟨⟨hlne, hgood⟩, hms⟩)
          (locB_of_effX (teffX_list o litems hne hoks)) htok)
        (by rw [hp, ngroups_x, ind0_map]; rfl) hd (by rw [ntree_x]; exact hout)
        (by rw [ntree_x]; cases o <;> simp [tlistTree, NT.isBqN, NT.tag, isQuote])
        (by rw [ntree_x]; cases o <;> simp [tlistTree, NT.isListN, NT.tag, isList])
    | true =>
      rw [isNest2Block_olist] at hq
      rw [wfBlock_olist] at hw
      simp only [Bool.and_eq_true, Bool.not_eq_true', List.isEmpty_eq_false_iff] at hw
      obtain ⟨⟨⟨_, hne⟩, hwi⟩, hcount⟩ := hw
      obtain ⟨is, st', hp, hd, hoks, hlen, houts⟩ :=
        printLooseItems_n items none (by intro c hc; cases hc) ((draw st).1 % 10) ((draw (draw st).2).1 % 3)
          (draw (draw st).2).2 hq hwi
      have hisne : is ≠ [] := by
        intro e; rw [e] at hlen
        cases items with
        | nil => exact hne rfl
        | cons a b => simp at hlen
      have hf := nfirstOK_of_wf is items hoks hlen hne (by simpa using hcount)
      refine printsAs_of_okB (.l true is) (.l hoks hf) (by rw [printBlock_olist, hp, ngroups_l])
        (by rw [hd, draw_defs, draw_defs]) ?_ (by rw [isBq_l']; rfl) (by rw [isList_l']; rfl)
      rw [nout_l true is hisne, houts true, specBlock_olist, specItemsLoose_eq_join]
      simp [S, List.append_assoc]
/-- the blocks of a quote -/
theorem printQuoted_n : (bs : List DocSpec.Block) → (blank : Bool) → (st : PSt) → bs ≠ [] →
    isNest2Blocks bs = true → wfBlockList none bs = true →
    ∃ (ks : List NKid) (st' : PSt),
      printQuoted blank bs st =
        ((if blank then flatLines (qGroupsB 0 ks) else (flatLines (allG ks)).map (qline 0)), st') ∧
      st'.defs = st.defs ∧ ks ≠ [] ∧ (∀ k ∈ ks, NKidOK ESC k) ∧
      ks.map (fun k => k.t.out) = bs.map specBlock ∧ ks.map (fun k => k.t.isBqN) = bs.map isQuote ∧
      ks.map (fun k => k.t.isListN) = bs.map isList
  | [], _, _, hne, _, _ => absurd rfl hne
  | [b], blank, st, _, hq, hw => by
    rw [isNest2Blocks_cons] at hq
    rw [wfBlockList_cons] at hw
    simp only [Bool.and_eq_true] at hq hw
    obtain ⟨k, st', hp, hd, hok, hspec, hbq, hli, _⟩ := printBlock_n b false none st hq.1 hw.1
    refine ⟨[k], st', ?_, hd, by simp, ?_, by simp [hspec], by simp [hbq], by simp [hli]⟩
    · rw [printQuoted_one, hp, quoteLines_eq]
      cases blank <;> simp [qGroupsB, allG, flatLines]
    · intro x hx
      have : x = k := by simpa using hx
      subst this; exact hok
  | b :: b' :: r, blank, st, _, hq, hw => by
    rw [isNest2Blocks_cons] at hq
    rw [wfBlockList_cons] at hw
    simp only [Bool.and_eq_true] at hq hw
    obtain ⟨k, st1, hp, hd1, hok, hspec, hbq, hli, _⟩ := printBlock_n b false none st hq.1 hw.1
    obtain ⟨ks, st2, hps, hd2, hksne, hoks, houts, hbqs, hlis⟩ :=
      printQuoted_n (b' :: r) blank st1 (by simp) hq.2 hw.2
    refine ⟨k :: ks, st2, ?_, by rw [hd2, hd1], by simp, ?_, by simp [hspec, houts], by simp [hbq, hbqs],
      by simp [hli, hlis]⟩
    · rw [printQuoted_cons2, hp]
      simp only [hps, quoteLines_eq]
      cases blank with
      | true =>
        simp only [if_true]
        obtain ⟨k', r', rfl⟩ : ∃ k' r', ks = k' :: r' := by
          cases ks with
          | nil => exact absurd rfl hksne
          | cons k' r' => exact ⟨k', r', rfl⟩
        simp only [qGroupsB, List.map_cons]
        rw [flatLines_cons2]
      | false =>
        simp only [Bool.false_eq_true, if_false]
        rw [allG_cons, flatLines_append _ _ hok.ne (allG_ne _ ks hksne hoks)]
        simp [qline, spaces]
    · intro x hx
      rcases List.mem_cons.1 hx with rfl | hx
      · exact hok
      · exact hoks x hx
theorem printLooseItems_n : (items : List (List DocSpec.Block)) → (marker : Option Char) →
    (∀ c, marker = some c → c = '*' ∨ c = '+' ∨ c = '-') → (num step : Nat) → (st : PSt) →
    isNest2Items items = true → wfItems true items = true →
    ∃ (is : List NB) (st' : PSt),
      printItems true marker num step items st = (flatLines (NB.groupsL ESC 0 is), st') ∧
      st'.defs = st.defs ∧ OkIs ESC marker.isNone is ∧
      is.map nitemLen = items.map List.length ∧
      (∀ first, NT.outs (NB.treeItems first is) = items.map liLoose)
  | [], marker, _, num, step, st, _, _ =>
    ⟨[], st, by rw [printItems_nil, ngroupsL_nil]; rfl, rfl, .nil, rfl, fun first => by rw [ntreeItems_nil]; rfl⟩
  | [] :: r, _, _, _, _, _, _, hw => by simp [wfItems] at hw
  | (b :: bs) :: r, marker, hmk, num, step, st, hq, hw => by
    have hm := isMarker_itemMarker marker hmk num
    rw [isNest2Items_cons] at hq
    rw [wfItems_loose_cons] at hw
    simp only [Bool.and_eq_true] at hq hw
    obtain ⟨hq1, hqr⟩ := hq
    obtain ⟨⟨⟨⟨⟨h1, h6⟩, h4⟩, h5⟩, _⟩, hwr⟩ := hw
    obtain ⟨tx, rest, st1, hp1, hd1, hok1, hlen1, hout1⟩ :=
      printLooseItem_n bs b (itemMarker marker num) marker.isNone hm st h1 hq1 h4 h5 h6
    obtain ⟨is, st2, hp2, hd2, hoks2, hlen2, houts2⟩ :=
      printLooseItems_n r marker hmk (num + step) step st1 hqr hwr
    refine ⟨.it (itemMarker marker num) tx rest :: is, st2, ?_, by rw [hd2, hd1], .cons hok1 hoks2,
      by simp [nitemLen, hlen1, hlen2], ?_⟩
    · rw [printItems_cons, hp1]
      simp only [hp2, Bool.true_and]
      rw [ngroupsL_cons]
      cases r with
      | nil =>
        have : is = [] := by
          cases is with
          | nil => rfl
          | cons a b => simp at hlen2
        subst this
        simp [ngroupsL_nil, flatLines]
      | cons it' r' =>
        have hisne : is ≠ [] := by intro e; rw [e] at hlen2; simp at hlen2
        rw [flatLines_append _ _ (ngroups_goodI _ _ hok1 0).1 (ngroupsL_ne_nilI is _ hoks2 hisne 0)]
        simp
    · intro first
      rw [ntreeItems_cons, nouts_cons, hout1 first, houts2 false]
      rfl
theorem printLooseItem_n : (bs : List DocSpec.Block) → (b : DocSpec.Block) → (m : Str) → (o : Bool) → IsMarker o m →
    (st : PSt) → isPara b = true → isNest2Blocks (b :: bs) = true →
    wfBlock (some true) b = true → wfBlockList (some true) bs = true → okNexts (b :: bs) = true →
    ∃ (tx : Txt) (rest : List NB) (st' : PSt),
      printItem true m (b :: bs) st = (flatLines ((NB.it m tx rest).groups ESC 0), st') ∧
      st'.defs = st.defs ∧ OkI ESC o (.it m tx rest) ∧ rest.length = bs.length ∧
      (∀ first, ((NB.it m tx rest).tree first).out = liLoose (b :: bs))
  | bs, .para c, m, o, hm, st, _, hn, h4, h5, h6 => by
    rw [isNest2Blocks_cons, isNest2Block_para] at hn
    simp only [Bool.and_eq_true] at hn
    rw [wfBlock_para] at h4
    obtain ⟨t0, segs, st1, hpc, hd1, hmc⟩ := printContent_deep2 c true hn.1 h4 (draw st).2
    have htl := txtLine_of_content hmc
    have hgl : GLine (m ++ (escAll ESC t0 ++ rawF ESC (flatten2 segs))) := by
      have := gline_mix hmc m [] (marker_okCh hm) (by simp)
      simpa using this
    obtain ⟨rest, st2, hp2, hd2, hoks2, hlen2, hlist2, hbq2, houts2⟩ := printLooseRest_n bs st1 hn.2 h5
    have hadj : adjT false false (NB.trees rest) = true := by
      have := adjT_of_okNexts (NB.trees rest) bs (.para c) hbq2 hlist2 h6
      simpa [isQuote, isList] using this
    refine ⟨.mix t0 segs, rest, st2, ?_, by rw [hd2, hd1, draw_defs], .it hm htl (by simpa [Txt.raw] using hgl) hoks2 hadj,
      hlen2, ?_⟩
    · rw [printItem_cons, printBlock_para', hpc, indentTop_single, hp2, ngroups_it,
        ind_zero, flatLines_cons_groups']
      have hemp : (NB.groupsL ESC (0 + 1) rest).isEmpty = bs.isEmpty := by
        cases bs with
        | nil =>
          have : rest = [] := by cases rest with | nil => rfl | cons a b => simp at hlen2
          subst this; rw [ngroupsL_nil]; rfl
        | cons b' r' =>
          have hrne : rest ≠ [] := by intro e; rw [e] at hlen2; simp at hlen2
          have := ngroupsL_ne_nilB rest hoks2 hrne (0 + 1)
          cases hx : NB.groupsL ESC (0 + 1) rest with
          | nil => exact absurd hx this
          | cons a b => rfl
      simp [withMarker, spaces, hemp, Txt.raw]
    · intro first
      rw [nout_it hmc first m rest, houts2, liLoose, specBlocks_eq_join, List.map_cons, specBlock_para]
  | _, .atx _ _, _, _, _, _, h1, _, _, _, _ => by simp [isPara] at h1
  | _, .setext _ _, _, _, _, _, h1, _, _, _, _ => by simp [isPara] at h1
  | _, .rule, _, _, _, _, h1, _, _, _, _ => by simp [isPara] at h1
  | _, .code _, _, _, _, _, h1, _, _, _, _ => by simp [isPara] at h1
  | _, .quote _, _, _, _, _, h1, _, _, _, _ => by simp [isPara] at h1
  | _, .ulist _ _, _, _, _, _, h1, _, _, _, _ => by simp [isPara] at h1
  | _, .olist _ _, _, _, _, _, h1, _, _, _, _ => by simp [isPara] at h1
theorem printLooseRest_n : (bs : List DocSpec.Block) → (st : PSt) → isNest2Blocks bs = true →
    wfBlockList (some true) bs = true →
    ∃ (rest : List NB) (st' : PSt),
      printRest true bs st =
        ((if bs.isEmpty then [] else [] :: flatLines (NB.groupsL ESC 1 rest)), st') ∧
      st'.defs = st.defs ∧ OkBs ESC rest ∧ rest.length = bs.length ∧
      (NB.trees rest).map NT.isListN = bs.map isList ∧ (NB.trees rest).map NT.isBqN = bs.map isQuote ∧
      NT.outs (NB.trees rest) = bs.map specBlock
  | [], st, _, _ =>
    ⟨[], st, rfl, rfl, .nil, rfl, by rw [ntrees_nil]; rfl, by rw [ntrees_nil]; rfl, by rw [ntrees_nil]; rfl⟩
  | b :: r, st, h2, h5 => by
    rw [isNest2Blocks_cons] at h2
    rw [wfBlockList_cons] at h5
    simp only [Bool.and_eq_true] at h2 h5
    obtain ⟨k, st1, hp1, hd1, hk1, hout1, hbq1, hlist1, hB⟩ := printBlock_n b false (some true) st h2.1 h5.1
    obtain ⟨B, hok1, hgB, htB⟩ := hB rfl
    obtain ⟨rest, st2, hp2, hd2, hoks2, hlen2, hlist2, hbq2, houts2⟩ := printLooseRest_n r st1 h2.2 h5.2
    have hg1 := ngroups_goodB B hok1
    refine ⟨B :: rest, st2, ?_, by rw [hd2, hd1], .cons hok1 hoks2, by simp [hlen2],
      by rw [ntrees_cons, List.map_cons, List.map_cons, htB, hlist1, hlist2],
      by rw [ntrees_cons, List.map_cons, List.map_cons, htB, hbq1, hbq2],
      by rw [ntrees_cons, nouts_cons, htB, hout1, houts2]; rfl⟩
    rw [printRest_cons, hp1, hp2, ← hgB]
    simp only [if_true, List.isEmpty_cons, Bool.false_eq_true, if_false]
    rw [prefix4_flat _ (fun g hg l hl => ((hg1 0).2 g hg).2 l hl |>.1), ← ngroups_succ, ngroupsL_cons]
    cases r with
    | nil =>
      have : rest = [] := by cases rest with | nil => rfl | cons a b => simp at hlen2
      subst this
      simp [ngroupsL_nil]
    | cons b' r' =>
      have hrne : rest ≠ [] := by intro e; rw [e] at hlen2; simp at hlen2
      rw [flatLines_append _ _ (hg1 (0 + 1)).1 (ngroupsL_ne_nilB rest hoks2 hrne 1)]
      simp
end

/-! ### the whole document -/

theorem printBlocks_nest (d : Doc) (hne : d ≠ []) (hq : isNest2Blocks d = true) (hw : wfBlockList none d = true) :
    ∀ st : PSt, ∃ (ks : List NKid) (st' : PSt), printBlocks true d st = (flatLines (allG ks), st') ∧
      st'.defs = st.defs ∧ ks ≠ [] ∧ (∀ k ∈ ks, NKidOK ESC k) ∧
      ks.map (fun k => k.t.out) = d.map specBlock ∧ ks.map (fun k => k.t.isBqN) = d.map isQuote ∧
      ks.map (fun k => k.t.isListN) = d.map isList := by
  induction d with
  | nil => exact absurd rfl hne
  | cons b r ih =>
    intro st
    rw [isNest2Blocks_cons] at hq
    rw [wfBlockList_cons] at hw
    simp only [Bool.and_eq_true] at hq hw
    obtain ⟨k, st1, hp, hd1, hok, hout, hbq, hli, _⟩ := printBlock_n b true none st hq.1 hw.1
    cases r with
    | nil =>
      refine ⟨[k], st1, ?_, hd1, by simp, ?_, by simp [hout], by simp [hbq], by simp [hli]⟩
      · rw [printBlocks_one, hp]; simp [allG]
      · intro x hx
        have : x = k := by simpa using hx
        subst this; exact hok
    | cons b' r' =>
      obtain ⟨ks, st2, hps, hd2, hksne, hoks, houts, hbqs, hlis⟩ := ih (by simp) hq.2 hw.2 st1
      refine ⟨k :: ks, st2, ?_, by rw [hd2, hd1], by simp, ?_, by simp [hout, houts], by simp [hbq, hbqs],
        by simp [hli, hlis]⟩
      · rw [printBlocks_cons2, hp]
        simp only [hps]
        rw [allG_cons, flatLines_append _ _ hok.ne (allG_ne _ ks hksne hoks)]
      · intro x hx
        rcases List.mem_cons.1 hx with rfl | hx
        · exact hok
        · exact hoks x hx

/-- **C01 on documents of flat blocks with mixed inline content, block quotes and lists, nested in each other to any
    depth** -/
theorem convert_nest (d : Doc) (sp : Spelling) (hwf : WF d = true) (hq : Nest2Doc d = true) :
    Pipeline.convert {} (print d sp) = .ok (spec d) := by
  have hE := escOK_generated
  simp only [WF, Bool.and_eq_true, Bool.not_eq_true', List.isEmpty_eq_false_iff] at hwf
  obtain ⟨⟨⟨hne, hnext⟩, hbl⟩, _⟩ := hwf
  obtain ⟨ks, st', hps, hdefs, hksne, hoks, houts, hbqs, hlis⟩ := printBlocks_nest d hne hq hbl ⟨sp.choices, 1, []⟩
  have hprint : print d sp = joinLines (flatLines (allG ks)) := by
    simp only [print, hps]
    have : st'.defs = [] := hdefs
    simp [this, joinLines]
  rw [hprint]
  have hgood := allG_good _ ks hoks
  have hGne := allG_ne _ ks hksne hoks
  have hfl : flatLines (allG ks) ≠ [] := flatLines_ne_nil _ hGne (fun g hg => (hgood g hg).1)
  have hlines : ∀ l ∈ flatLines (allG ks), lineSafe l = true ∧ '<' ∉ l ∧ refsClosed l = true := by
    intro l hl
    rcases gflat_lines _ hgood l hl with rfl | hg
    · exact ⟨by decide, by simp, rfl⟩
    · exact ⟨hg.2.1, hg.2.2.1, hg.2.2.2.1⟩
  have hchunks : joinLines (flatLines (allG ks)) = joinChunks ((allG ks).map joinLines) :=
    joinLines_flatLines _ (fun g hg => (hgood g hg).1)
  generalize hsrc : joinLines (flatLines (allG ks)) = src at *
  have hlt : ∀ c ∈ src, c ≠ '<' := by
    intro c hc
    rw [← hsrc] at hc
    rcases DocParse.mem_joinLines hc with rfl | ⟨l, hl, hcl⟩
    · decide
    · exact fun e => (hlines l hl).2.1 (e ▸ hcl)
  have h1 : src.contains '<' = false := by
    cases hc : src.contains '<' with
    | false => rfl
    | true => exact absurd rfl (hlt _ (List.contains_iff_mem.1 hc))
  have h2 : Normalize.isBlankDoc src = false := by
    rw [Normalize.isBlankDoc_eq_all]
    obtain ⟨l, hl, c, hc, hcs⟩ : ∃ l ∈ flatLines (allG ks), ∃ c ∈ l, isSpace c = false := by
      obtain ⟨g, gs, hg⟩ : ∃ g gs, allG ks = g :: gs := by
        cases hx : allG ks with
        | nil => exact absurd hx hGne
        | cons g gs => exact ⟨g, gs, rfl⟩
      have hgg := hgood g (by rw [hg]; simp)
      obtain ⟨l, ls, hl⟩ : ∃ l ls, g = l :: ls := by
        cases hx : g with
        | nil => exact absurd hx hgg.1
        | cons l ls => exact ⟨l, ls, rfl⟩
      have hgl := hgg.2 l (by rw [hl]; simp)
      refine ⟨l, ?_, hgl.2.2.2.2⟩
      rw [hg, hl]
      cases gs with
      | nil => simp [flatLines]
      | cons a b => simp [flatLines]
    have hmem : c ∈ src := by rw [← hsrc]; exact mem_joinLines_of_mem hc hl
    cases hall : src.all isSpace with
    | false => rfl
    | true =>
      have := List.all_eq_true.1 hall c hmem
      rw [hcs] at this; cases this
  have h3 : Pipeline.prepare {} src = src ++ ['\n', '\n'] := by
    rw [Pipeline.prepare, ← hsrc, normalize_lines _ _ hfl (fun l hl => (hlines l hl).1)]
    exact extract_id _ (refsClosed_lines _ (fun l hl => (hlines l hl).2.2))
  -- the block stage: the loop from the last block backwards, then totality for the fuel
  have hadjT := adjT_of_okNexts0 (ks.map (·.t)) d (by rw [List.map_map]; exact hbqs)
    (by rw [List.map_map]; exact hlis) hnext
  have hoksT := noks_of_nkids ESC ks hoks
  have hadj : AdjX none (ks.map (fun k => k.t.src ESC)) := by
    have := adjX_trees ESC (ks.map (·.t)) hoksT false false none hadjT (by intro sib hs; cases hs)
    simpa [nsrcs_eq_map, List.map_map, Function.comp_def] using this
  have hlast : ∀ sib, (divOf (ks.map (fun k => k.t.src ESC))).last? = some sib →
      preCode sib = none := by
    intro sib hs
    simp only [Node.last?, divOf] at hs
    obtain ⟨k, hk, rfl⟩ := List.mem_map.1 (List.mem_of_getLast? hs)
    exact preCode_nsrc _ k.t (hoks k hk).ok
  have hbase : RunsE [] [] (divOf (ks.map (fun k => k.t.src ESC))) [[]]
      (divOf (ks.map (fun k => k.t.src ESC)), []) :=
    ⟨1, parseBlocks_before 0 [] [] _ hlast⟩
  have hdiv : ∀ ns : List Node,
      ({ Node.el "div" with children := (Node.el "div").children ++ ns } : Node) = divOf ns := by
    intro ns; simp [Node.el, divOf]
  have hrun := effLX_nkids ESC ks hoks [] [] (Node.el "div") [[]]
    (divOf (ks.map (fun k => k.t.src ESC)), []) rfl rfl (by decide) (by decide)
    (by simpa [Node.last?, Node.el] using hadj) (by rw [hdiv]; exact hbase)
  obtain ⟨f, hpf⟩ := hrun
  have hsplit := splitS_chunks ((allG ks).map joinLines) (by simpa using hGne)
    (by intro b hb; obtain ⟨g, hg, rfl⟩ := List.mem_map.1 hb; exact nel_ggroup g (hgood g hg))
  have h4 : parseDocument 4 (src ++ ['\n', '\n']) =
      some (divOf (ks.map (fun k => k.t.src ESC)), []) := by
    obtain ⟨r, hr⟩ := Option.isSome_iff_exists.1 (parseDocument_total 4 (src ++ ['\n', '\n']))
    rw [hr]
    simp only [parseDocument, parseDocumentWith, parseChunk] at hr
    rw [hchunks, hsplit] at hr
    have e1 := parseBlocks_fuel_mono f hr
    have e2 := parseBlocks_fuel_mono (fuelFor (joinChunks ((allG ks).map joinLines) ++ ['\n', '\n']).length) hpf
    rw [Nat.add_comm] at e2
    rw [e1] at e2
    exact e2
  have h5 := render_nt {} hE escSup_generated rfl rfl [] (ks.map (·.t)) (by simpa using hksne) hoksT
  have hout : join ['\n'] (NT.outs (ks.map (·.t))) = spec d := by
    rw [spec, specBlocks_eq_join, ← houts, nouts_eq_map, List.map_map]; rfl
  rw [Probe.convert_eq_render]
  simp only [h1, h2, Bool.false_eq_true, if_false, h3]
  have h4' : parseDocument ({} : Pipeline.Cfg).tab (src ++ ['\n', '\n']) =
      some (divOf ((ks.map (·.t)).map (NT.src ({} : Pipeline.Cfg).esc)), []) := by
    simpa [List.map_map, Function.comp_def] using h4
  rw [h4']
  simp only [List.reverse_nil, h5, hout]

end MdVerif.DocNest2
