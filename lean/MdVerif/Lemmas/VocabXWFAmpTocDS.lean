/-
C05 on the extension pipeline, removal of the residual hypothesis `hamp` of `C05X_partial`: `TocTreeprocessor.run` on a
dangling-safe tree (`DSN`: what `AbbrTreeprocessor` makes of the tree of the inline stage) — the statements of
`Lemmas/VocabXWFAmpToc.lean` for toc together with abbr.  Core Lean only.
-/
import MdVerif.Lemmas.VocabXWFAmpAbbrDS

set_option autoImplicit false

namespace MdVerif.VocabXAmp
open Py G Ser

theorem renderInner_SK_DS {env : TocTree.Env} (hp : PostK env.post) {el : Node} (h : DSN el) {s : Str}
    (hr : TocTree.renderInner env el = .ok s) : SK s = true := by
  unfold TocTree.renderInner at hr
  split at hr
  · cases hr
  · rename_i text ht
    have hser : SK (serialize env.fmt el) = true := by
      have := skd_serialize env.fmt el h [] rfl (fun _ => rfl)
      rwa [List.append_nil] at this
    have hn := unescapeText_SK _ 0 _ (by simpa using hser) ht
    split at hr
    · rename_i s0 e _ _
      split at hr
      · rename_i r hr'
        simp only [TocTree.R.ok.injEq] at hr
        subst hr
        exact SK_strip (hp _ (SK_strip (SK_drop (SK_take hn _) _)) _ hr')
      · cases hr
    · cases hr

theorem heading_K_DS {env : TocTree.Env} (hp : PostK env.post) {el : Node} (h : DSN el) {st : TocTree.St}
    (hst : ToksK st) {attrs : List (Str × Str)} {st' : TocTree.St}
    (hr : TocTree.heading env el st = .ok (attrs, st')) : AttrsK attrs ∧ ToksK st' := by
  rw [NoCtlX.heading_eq] at hr
  have hser := (rmFnNode_DS el h).1
  have hel : AttrsK el.attrs := fun kv hkv => SK_of_SB ((dsn_fields h).2.2.1 kv hkv)
  split at hr
  · cases hr
  · cases hr
  · cases hr
  · rename_i inner hin
    have hname0 := SK_stripTags (renderInner_SK_DS hp hser hin)
    split at hr
    · cases hr
    · cases hr
    · cases hr
    · rename_i a1 used hid
      have ha1 := idStep_K hel hid
      split at hr
      · cases hr
      · cases hr
      · cases hr
      · rename_i name a2 hnm
        obtain ⟨hname, ha2⟩ := nameStep_K hp hname0 ha1 hnm
        split at hr
        · cases hr
        · rename_i tid htid
          simp only [TocTree.R.ok.injEq, Prod.mk.injEq] at hr
          obtain ⟨rfl, rfl⟩ := hr
          refine ⟨ha2, ?_⟩
          have hidw : SK (((a2.find? (fun kv => kv.1 = TocTree.idKey)).map (·.2)).getD []) = true := by
            cases hf : a2.find? (fun kv => kv.1 = TocTree.idKey) with
            | none => rfl
            | some kv => exact ha2 kv (List.mem_of_find?_eq_some hf)
          have htidn := unescapeText_SK _ 0 _ (by simpa using hidw) htid
          intro t ht
          rcases List.mem_append.1 ht with ht | ht
          · exact hst t ht
          · rw [List.mem_singleton.1 ht]; exact ⟨htidn, hname⟩

mutual
theorem walkNode_K_DS {env : TocTree.Env} (hp : PostK env.post) : ∀ (t : Node) (st : TocTree.St),
    DSN t → ToksK st → ∀ {t' : Node} {st' : TocTree.St}, TocTree.walkNode env t st = .ok (t', st') →
      t'.Forall NodeK ∧ ToksK st'
  | ⟨tag, attrs, text, ta, children, tail, tla⟩, st, h, hst, t', st', hr => by
    have hfull := h
    simp only [DSN] at h
    obtain ⟨_, h1, h2, h3, hk⟩ := h
    unfold TocTree.walkNode at hr
    simp only at hr
    have hhr : ∀ {a : List (Str × Str)} {s1 : TocTree.St},
        (if TocTree.isHeaderTag tag = true then
          TocTree.heading env ⟨tag, attrs, text, ta, children, tail, tla⟩ st else .ok (attrs, st)) = .ok (a, s1) →
        AttrsK a ∧ ToksK s1 := by
      intro a s1 e
      split at e
      · exact heading_K_DS hp hfull hst e
      · simp only [TocTree.R.ok.injEq, Prod.mk.injEq] at e
        rw [← e.1, ← e.2]; exact ⟨fun kv hkv => SK_of_SB (h3 kv hkv), hst⟩
    split at hr
    · cases hr
    · cases hr
    · cases hr
    · rename_i a s1 e
      obtain ⟨ha, hs1⟩ := hhr e
      split at hr
      · cases hr
      · cases hr
      · cases hr
      · rename_i ks s2 ek
        obtain ⟨hks, hs2⟩ := walkKids_K_DS hp children _ _ s1 hk hs1 ek
        simp only [TocTree.R.ok.injEq, Prod.mk.injEq] at hr
        obtain ⟨rfl, rfl⟩ := hr
        simp only [Node.Forall]
        exact ⟨⟨⟨SK_of_SOkA (sokA_of_strD h1), SK_of_SOkA (sokA_of_strD h2), ha⟩, hks⟩, hs2⟩
theorem walkKids_K_DS {env : TocTree.Env} (hp : PostK env.post) : ∀ (l : List Node) (o o' : Bool)
    (st : TocTree.St), DSLo o l o' → ToksK st → ∀ {l' : List Node} {st' : TocTree.St},
      TocTree.walkKids env l st = .ok (l', st') → Node.ForallL NodeK l' ∧ ToksK st'
  | [], _, _, st, _, hst, l', st', hr => by
    unfold TocTree.walkKids at hr
    simp only [TocTree.R.ok.injEq, Prod.mk.injEq] at hr
    obtain ⟨rfl, rfl⟩ := hr
    exact ⟨by simp [Node.ForallL], hst⟩
  | c :: r, o, o', st, h, hst, l', st', hr => by
    simp only [DSLo] at h
    unfold TocTree.walkKids at hr
    split at hr
    · cases hr
    · cases hr
    · cases hr
    · rename_i c' s1 ec
      obtain ⟨hc', hs1⟩ := walkNode_K_DS hp c st h.2.1 hst ec
      split at hr
      · cases hr
      · cases hr
      · cases hr
      · rename_i r' s2 er
        obtain ⟨hr', hs2⟩ := walkKids_K_DS hp r _ _ s1 h.2.2 hs1 er
        simp only [TocTree.R.ok.injEq, Prod.mk.injEq] at hr
        obtain ⟨rfl, rfl⟩ := hr
        simp only [Node.ForallL]
        exact ⟨⟨hc', hr'⟩, hs2⟩
end

/-- **`TocTreeprocessor.run` on a dangling-safe tree**: every string of the result is in the class `SK` -/
theorem toc_run_K_DS {fmt : Ser.Fmt} {post : Str → Option Str} {bl : List Str} {t t' : Node}
    (h : DSN t) (hp : PostK post) (hr : TocTree.run { fmt := fmt, post := post } bl t = .ok t') :
    t'.Forall NodeK := by
  unfold TocTree.run at hr
  split at hr
  · cases hr
  · rename_i used _
    split at hr
    · cases hr
    · cases hr
    · cases hr
    · rename_i root' st hw
      simp only [TocTree.R.ok.injEq] at hr
      subst hr
      have hst0 : ToksK { used := used, toks := [] } := fun t ht => by cases ht
      obtain ⟨hroot, hst⟩ := walkNode_K_DS (env := { fmt := fmt, post := post }) hp t _ h hst0 hw
      exact replNode_K (buildDiv_K bl hst) root' hroot

end MdVerif.VocabXAmp
