/-
Helper lemmas for `Props/C16RenderX.lean`, part 6: def_list — `DefListProcessor` on the printed form
`term … term / :   definition … :   definition` (one block), one definition per turn of the block loop, and the
later stages on the resulting `dl`.

Core Lean only.
-/
import MdVerif.Lemmas.RenderXBlock
import MdVerif.Lemmas.RenderXAdm

namespace MdVerif.RenderX
open Py Block BlockExt

/-! ### blocks on which every processor before `deflist` fails -/

/-- no escapable character, a visible first character, no `=` underline as second line -/
structure CoreFree (b : Str) : Prop where
  esc : ∀ c ∈ b, c ∉ Generated.escapedChars
  vis : Escape.startsVisible b = true
  second : (match Escape.secondLine b with | some l => Escape.isEqUnderline l | none => false) = false

/-- such a block reaches the `deflist` processor (table processor off), under any parent -/
theorem dispatchXT_toDef (cfg : XCfg) (tab : Nat) (htab : tab > 0) (pb : PB) (state : List BState) (refs : Refs)
    (parent : Node) (b : Str) (rest : List Str) (h : CoreFree b) :
    dispatchXT false cfg tab pb state refs parent b rest = tailDef cfg tab pb state refs parent b rest := by
  have hg : Escape.Guarded Generated.escapedChars b = true := guardedFrom_of_no_esc _ _ h.esc false
  have hl : Escape.LineStartsOk Generated.escapedChars b = true := by
    simp only [Escape.LineStartsOk, Bool.and_eq_true]
    exact ⟨startOk_of_no_esc _ _ h.esc, startsOkNl_of_no_esc _ _ h.esc⟩
  have hs : Escape.startOk Generated.escapedChars b = true := startOk_of_no_esc _ _ h.esc
  have hv := h.vis
  have hhead : ∀ c, b.head? = some c → c ≠ ' ' := by
    intro c hc e
    subst e
    cases b with
    | nil => simp at hc
    | cons a t =>
      simp only [List.head?_cons, Option.some.injEq] at hc
      subst hc
      simp [Escape.startsVisible, isSpace] at hv
  have hbang : '!' ∉ b := fun hm => h.esc _ hm (by decide)
  have hadm := admTest_plain tab htab parent b hbang hhead
  have hsp : startsWith b (spaces tab) = false := startsWith_spaces_false_of_head htab hhead
  cases b with
  | nil => simp [Escape.startsVisible] at hv
  | cons c t =>
    have hc : isSpace c = false := by simpa [Escape.startsVisible] using hv
    have hc1 : c ≠ '\n' := by intro e; subst e; exact absurd hc (by decide)
    have e1 : ((c :: t).isEmpty || startsWith (c :: t) ['\n']) = false := by simp [startsWith, hc1]
    simp only [dispatchXT, hadm, ite_self, tailEmptyT, e1, hsp, indentTestX, Bool.false_eq_true, if_false,
      Bool.false_and, Bool.and_false,
      Escape.hashSearch_eq_none (esc := Generated.escapedChars) (by decide) _ hl,
      Escape.setextMatch_eq_false (esc := Generated.escapedChars) (by decide) _ hg h.second,
      Escape.hrSearch_eq_none (esc := Generated.escapedChars) (by decide) (by decide) (by decide) _ hl,
      tailList,
      Escape.listItemMatch_eq_none (esc := Generated.escapedChars) (by decide) (by decide) (by decide) (by decide)
        tab _ _ _ hg hs, Option.isSome_none]

/-! ### the printed definition lines -/

/-- `:   definition` -/
def defLine (d : Str) : Str := ':' :: ' ' :: ' ' :: ' ' :: d

/-- the definition pattern at a printed definition line -/
theorem defAt_defLine (d X : Str) (hd : PlainFacts d) (hX : X = [] ∨ ∃ Y, X = '\n' :: Y) :
    defAt (defLine d ++ X) = some (d, 4 + d.length + (if X = [] then 0 else 1)) := by
  obtain ⟨a, t, rfl⟩ : ∃ a t, d = a :: t := by
    cases d with
    | nil => exact absurd rfl hd.ne
    | cons a t => exact ⟨a, t, rfl⟩
  have ha : a ≠ ' ' := hd.head a rfl
  have hnl : ∀ c ∈ a :: t, notNl c = true := by
    intro c hc
    have := hd.noNl
    simp only [notNl, bne_iff_ne, ne_eq]
    intro e; subst e; exact this hc
  have h1 : ∀ R, countPrefix ' ' (some 3) (':' :: R) = 0 := by intro R; simp [countPrefix]
  have h2 : ∀ Z, countPrefix ' ' (some 3) (' ' :: ' ' :: ' ' :: a :: Z) = 3 := by intro Z; simp [countPrefix, ha]
  have hg : ((a :: t) ++ X).takeWhile notNl = a :: t := by
    rw [List.takeWhile_append_of_pos hnl]
    rcases hX with rfl | ⟨Y, rfl⟩
    · simp
    · simp [List.takeWhile, notNl]
  have hdrop : ((a :: t) ++ X).drop (a :: t).length = X := List.drop_left' rfl
  have e : defLine (a :: t) ++ X = ':' :: ' ' :: ' ' :: ' ' :: a :: (t ++ X) := rfl
  rw [e]
  unfold defAt
  simp only [h1, List.drop_zero, if_true, h2, show (3 : Nat) ≠ 0 by omega, if_false, List.drop_succ_cons]
  rw [show a :: (t ++ X) = (a :: t) ++ X from rfl, hg, hdrop]
  rcases hX with rfl | ⟨Y, rfl⟩
  · simp [startsWith]
  · simp [startsWith]

theorem defAt_plain (l X : Str) (hl : PlainFacts l) : defAt (l ++ X) = none := by
  obtain ⟨a, t, rfl⟩ : ∃ a t, l = a :: t := by
    cases l with
    | nil => exact absurd rfl hl.ne
    | cons a t => exact ⟨a, t, rfl⟩
  have ha : a ≠ ' ' := hl.head a rfl
  have ha2 : a ≠ ':' := by
    intro e; subst e; exact absurd (hl.chars ':' List.mem_cons_self) (by decide)
  simp [defAt, countPrefix, ha, ha2]

/-- the search over the term lines finds the first definition line -/
theorem nlSearchAux_terms (terms : List Str) (ht : ∀ l ∈ terms, PlainFacts l) (d X : Str) (hd : PlainFacts d)
    (hX : X = [] ∨ ∃ Y, X = '\n' :: Y) :
    ∀ i, terms ≠ [] → nlSearchAux defAt i (joinLines terms ++ '\n' :: (defLine d ++ X)) =
      some (i + (joinLines terms).length, 1, d, 4 + d.length + (if X = [] then 0 else 1)) := by
  induction terms with
  | nil => intro i h; exact absurd rfl h
  | cons l r ih =>
    intro i _
    have hl := ht l List.mem_cons_self
    have hskip : ∀ (s Z : Str) (j : Nat), '\n' ∉ s → nlSearchAux defAt j (s ++ Z) = nlSearchAux defAt (j + s.length) Z := by
      intro s Z
      induction s with
      | nil => intro j _; rfl
      | cons c s ihs =>
        intro j hs
        have hc : c ≠ '\n' := fun e => hs (e ▸ List.mem_cons_self)
        simp only [List.cons_append, nlSearchAux, hc, if_false, List.length_cons]
        rw [ihs (j + 1) (fun hm => hs (List.mem_cons_of_mem _ hm))]
        congr 1; omega
    cases r with
    | nil =>
      simp only [joinLines, join]
      rw [hskip l _ i hl.noNl]
      simp only [nlSearchAux, if_true, defAt_defLine d X hd hX]
    | cons l2 r2 =>
      rw [Block.joinLines_cons_cons, List.append_assoc, hskip l _ i hl.noNl]
      have hl2 := ht l2 (by simp)
      simp only [List.cons_append, nlSearchAux, if_true]
      have : defAt (joinLines (l2 :: r2) ++ '\n' :: (defLine d ++ X)) = none := by
        rw [show joinLines (l2 :: r2) = l2 ++ (match r2 with | [] => [] | x :: y => '\n' :: joinLines (x :: y)) by
          cases r2 with
          | nil => simp [joinLines, join]
          | cons x y => rw [Block.joinLines_cons_cons], List.append_assoc]
        exact defAt_plain l2 _ hl2
      rw [this]
      rw [ih (fun x hx => ht x (List.mem_cons_of_mem _ hx)) (i + l.length + 1) (by simp)]
      simp only [List.length_append, List.length_cons]
      congr 2; omega

/-! ### `DefListProcessor.run` on the printed form -/

/-- the definition lines as one block -/
def defsText (ds : List Str) : Str := joinLines (ds.map defLine)

/-- what follows the first definition line -/
def defsTail : List Str → Str
  | [] => []
  | d :: ds => '\n' :: defsText (d :: ds)

theorem defsText_cons (d : Str) (ds : List Str) : defsText (d :: ds) = defLine d ++ defsTail ds := by
  cases ds with
  | nil => simp [defsText, defsTail, joinLines, join]
  | cons e es => simp only [defsText, defsTail, List.map_cons]; rw [Block.joinLines_cons_cons]

theorem defsTail_cases (ds : List Str) : defsTail ds = [] ∨ ∃ Y, defsTail ds = '\n' :: Y := by
  cases ds with
  | nil => exact Or.inl rfl
  | cons d ds => exact Or.inr ⟨_, rfl⟩

/-- a `dd` with a tight definition -/
def ddNode (d : Str) : Node := { Node.el "dd" with text := some d }

/-- the body of a definition parsed in the state `list` into an empty `dd` -/
theorem pb_dd (cfg : XCfg) (tab : Nat) (htab : tab > 0) (f : Nat) (state : List BState) (refs : Refs) (d : Str)
    (hd : PlainFacts d) :
    parseBlocksXT false cfg tab (f + 1) (state ++ [.list]) refs (Node.el "dd") [d] = some (ddNode d, refs) := by
  have hj : joinLines [d] = d := rfl
  have hall : ∀ l ∈ [d], PlainFacts l := by intro l hl; simp at hl; subst hl; exact hd
  have hdisp := dispatchXT_plain cfg tab htab (parseBlocksXT false cfg tab f) (state ++ [.list]) refs (Node.el "dd") d [] [] hall
  rw [hj] at hdisp
  have hv := hd.visible
  have hpara : paraP (state ++ [.list]) refs (Node.el "dd") d [] = (ddNode d, refs, []) := by
    simp [paraP, Escape.isBlank_of_visible hv, Escape.lstrip_of_visible hv, isstate, Node.last?, Node.el, Node.truthy,
      ddNode]
  simp only [parseBlocksXT, hdisp, hpara]

/-- what is left of the block after the first definition line, as the processor sees it -/
theorem def_rest (tab : Nat) (htab : tab > 0) (ds : List Str) (hds : ∀ d ∈ ds, PlainFacts d) :
    defNoIndent (defsText ds) = false ∧ detab tab (defsText ds) = ([], defsText ds) := by
  cases ds with
  | nil =>
    refine ⟨by simp [defNoIndent, defsText, joinLines, join], ?_⟩
    have hsp : startsWith [] (spaces tab) = false := startsWith_spaces_false_of_head htab (by simp)
    simp [detab, lines, splitC, detabLines, hsp, isBlank, joinLines, join, defsText]
  | cons d r =>
    have hshape : ∃ R, defsText (d :: r) = ':' :: R := by
      rw [defsText_cons]; exact ⟨_, rfl⟩
    obtain ⟨R, hR⟩ := hshape
    refine ⟨by simp [defNoIndent, hR, countPrefix], ?_⟩
    have hlines : lines (defsText (d :: r)) = (d :: r).map defLine := by
      apply joinLines_lines (by simp)
      intro p hp
      obtain ⟨x, hx, rfl⟩ := List.mem_map.1 hp
      intro hm
      simp only [defLine, List.mem_cons] at hm
      rcases hm with h | h | h | h | h
      · exact absurd h (by decide)
      · exact absurd h (by decide)
      · exact absurd h (by decide)
      · exact absurd h (by decide)
      · exact (hds x hx).noNl h
    have hsp : startsWith (defLine d) (spaces tab) = false :=
      startsWith_spaces_false_of_head htab (by intro c hc; simp [defLine] at hc; subst hc; decide)
    have hbl : isBlank (defLine d) = false := by
      cases hb : isBlank (defLine d) with
      | false => rfl
      | true =>
        rw [isBlank_iff] at hb
        exact absurd (hb ':' (by simp [defLine])) (by decide)
    simp only [detab, hlines, List.map_cons, detabLines, hsp, hbl, Bool.false_eq_true, if_false]
    simp only [joinLines, join]
    rfl

theorem strip_plain {l : Str} (h : PlainFacts l) : strip l = l := by
  apply strip_eq_self
  · intro c hc
    exact DocParse.alnum_visible c (h.chars c (List.mem_of_mem_head? hc)) (h.head c hc)
  · exact h.lastVisible

/-- the processor's result flag for the state of the new `dd`: the last `dd` of the list is tight -/
def lastDdTight (dl : Node) : Prop :=
  (match dl.last? with | some l => l.isTag "dd" && !l.children.isEmpty | none => false) = false

/-- one turn on a block of definition lines under a parent whose last child is the list -/
theorem dispatch_defs (cfg : XCfg) (hdef : cfg.defList = true) (tab : Nat) (htab : tab > 0) (f : Nat)
    (state : List BState) (refs : Refs) (parent dl : Node) (d : Str) (ds : List Str) (rest : List Str)
    (hd : ∀ x ∈ d :: ds, PlainFacts x) (hlast : parent.last? = some dl) (hdl : dl.isTag "dl" = true)
    (htight : lastDdTight dl) :
    dispatchXT false cfg tab (parseBlocksXT false cfg tab (f + 1)) state refs parent (defsText (d :: ds)) rest =
      some (parent.setLast (dl.append (ddNode d)), refs,
        if (defsText ds).isEmpty then rest else defsText ds :: rest) := by
  have hd0 := hd d List.mem_cons_self
  have hds : ∀ x ∈ ds, PlainFacts x := fun x hx => hd x (List.mem_cons_of_mem _ hx)
  -- the block reaches the processor
  have hfree : CoreFree (defsText (d :: ds)) := by
    have hch : ∀ c ∈ defsText (d :: ds), c = '\n' ∨ c = ':' ∨ DocSpec.isAlnumSp c = true := by
      intro c hc
      rcases DocParse.mem_joinLines hc with rfl | ⟨l, hl, hcl⟩
      · exact Or.inl rfl
      · obtain ⟨x, hx, rfl⟩ := List.mem_map.1 hl
        simp only [defLine, List.mem_cons] at hcl
        rcases hcl with h | h | h | h | h
        · exact Or.inr (Or.inl h)
        · exact Or.inr (Or.inr (by rw [h]; decide))
        · exact Or.inr (Or.inr (by rw [h]; decide))
        · exact Or.inr (Or.inr (by rw [h]; decide))
        · exact Or.inr (Or.inr ((hd x hx).chars c h))
    refine ⟨?_, ?_, ?_⟩
    · intro c hc
      rcases hch c hc with rfl | rfl | h
      · decide
      · decide
      · exact (alnumSp_quiet h).2.2.2.2.2.2.2.1
    · rw [defsText_cons]; simp [defLine, Escape.startsVisible, isSpace]
    · unfold Escape.secondLine
      have hlines : lines (defsText (d :: ds)) = (d :: ds).map defLine := by
        apply joinLines_lines (by simp)
        intro p hp
        obtain ⟨x, hx, rfl⟩ := List.mem_map.1 hp
        intro hm
        simp only [defLine, List.mem_cons] at hm
        rcases hm with h | h | h | h | h
        · exact absurd h (by decide)
        · exact absurd h (by decide)
        · exact absurd h (by decide)
        · exact absurd h (by decide)
        · exact (hd x hx).noNl h
      rw [hlines]
      cases ds with
      | nil => rfl
      | cons e es => simp [defLine, Escape.isEqUnderline, spanLen]
  rw [dispatchXT_toDef cfg tab htab _ state refs parent _ rest hfree]
  -- the search
  have hat := defAt_defLine d (defsTail ds) hd0 (defsTail_cases ds)
  have hsearch : defSearch (defsText (d :: ds)) =
      some (0, 4 + d.length + (if defsTail ds = [] then 0 else 1), d) := by
    simp only [defSearch, nlSearch, defsText_cons, hat]
    simp
  have hdrop : (defsText (d :: ds)).drop (4 + d.length + (if defsTail ds = [] then 0 else 1)) = defsText ds := by
    rw [defsText_cons]
    cases ds with
    | nil =>
      simp only [defsTail, List.append_nil, if_true, Nat.add_zero]
      exact List.drop_eq_nil_of_le (by simp [defLine]; omega)
    | cons e es =>
      have hne : ('\n' :: defsText (e :: es) = []) = False := by simp
      simp only [defsTail, hne, if_false]
      rw [show defLine d ++ '\n' :: defsText (e :: es) = (defLine d ++ ['\n']) ++ defsText (e :: es) by simp]
      exact List.drop_left' (by simp [defLine]; omega)
  obtain ⟨hni, hdetab⟩ := def_rest tab htab ds hds
  have hpb := pb_dd cfg tab htab f state refs d hd0
  have hnotp : dl.isTag "p" = false := by
    simp only [Node.isTag, beq_iff_eq] at hdl ⊢
    rw [hdl]; decide
  simp only [tailDef, hdef, if_true, hsearch, defListP, List.take_zero, hdrop, hni, Bool.false_eq_true, if_false,
    hdetab, List.isEmpty_nil, hlast, hnotp, Bool.and_false, hdl]
  have hlines0 : lines ([] : Str) = [[]] := by decide
  have hterms : (List.filter (fun t => !t.isEmpty) (List.map strip (lines []))) = [] := by
    rw [hlines0]; decide
  simp only [hterms, List.isEmpty_nil, Bool.true_and]
  have hdlid : addTerms dl [] = dl := by cases dl; simp [addTerms]
  unfold lastDdTight at htight
  cases hl : dl.last? with
  | none =>
    simp only [Bool.false_eq_true, if_false, hpb, hdlid]
  | some l =>
    rw [hl] at htight
    simp only at htight
    simp only [htight, Bool.false_eq_true, if_false, hpb, hdlid]

/-! ### the first turn: terms and the first definition -/

/-- the source block: the term lines, then the definition lines -/
def defSrc (terms ds : List Str) : Str := joinLines (terms ++ ds.map defLine)

theorem defSrc_eq (t0 : Str) (tr : List Str) (d : Str) (ds : List Str) :
    defSrc (t0 :: tr) (d :: ds) = joinLines (t0 :: tr) ++ '\n' :: defsText (d :: ds) := by
  simp only [defSrc, defsText]
  exact Block.joinLines_append _ _ (by simp) (by simp)

theorem nl_not_mem_defLine (d : Str) (hd : PlainFacts d) : '\n' ∉ defLine d := by
  intro hm
  simp only [defLine, List.mem_cons] at hm
  rcases hm with h | h | h | h | h
  · exact absurd h (by decide)
  · exact absurd h (by decide)
  · exact absurd h (by decide)
  · exact absurd h (by decide)
  · exact hd.noNl h

theorem lines_defSrc (terms ds : List Str) (hne : terms ≠ []) (ht : ∀ l ∈ terms, PlainFacts l)
    (hd : ∀ l ∈ ds, PlainFacts l) : lines (defSrc terms ds) = terms ++ ds.map defLine := by
  apply joinLines_lines (by simp [hne])
  intro p hp
  rcases List.mem_append.1 hp with hp | hp
  · exact (ht p hp).noNl
  · obtain ⟨x, hx, rfl⟩ := List.mem_map.1 hp
    exact nl_not_mem_defLine x (hd x hx)

theorem coreFree_defSrc (t0 : Str) (tr : List Str) (d : Str) (ds : List Str) (ht : ∀ l ∈ t0 :: tr, PlainFacts l)
    (hd : ∀ l ∈ d :: ds, PlainFacts l) : CoreFree (defSrc (t0 :: tr) (d :: ds)) := by
  have hlines := lines_defSrc (t0 :: tr) (d :: ds) (by simp) ht hd
  have hch : ∀ c ∈ defSrc (t0 :: tr) (d :: ds), c = '\n' ∨ c = ':' ∨ DocSpec.isAlnumSp c = true := by
    intro c hc
    rcases DocParse.mem_joinLines hc with rfl | ⟨l, hl, hcl⟩
    · exact Or.inl rfl
    · rcases List.mem_append.1 hl with hl | hl
      · exact Or.inr (Or.inr ((ht l hl).chars c hcl))
      · obtain ⟨x, hx, rfl⟩ := List.mem_map.1 hl
        simp only [defLine, List.mem_cons] at hcl
        rcases hcl with h | h | h | h | h
        · exact Or.inr (Or.inl h)
        · exact Or.inr (Or.inr (by rw [h]; decide))
        · exact Or.inr (Or.inr (by rw [h]; decide))
        · exact Or.inr (Or.inr (by rw [h]; decide))
        · exact Or.inr (Or.inr ((hd x hx).chars c h))
  have h0 := ht t0 List.mem_cons_self
  obtain ⟨a, b, rfl⟩ : ∃ a b, t0 = a :: b := by
    cases t0 with
    | nil => exact absurd rfl h0.ne
    | cons a b => exact ⟨a, b, rfl⟩
  refine ⟨?_, ?_, ?_⟩
  · intro c hc
    rcases hch c hc with rfl | rfl | h
    · decide
    · decide
    · exact (alnumSp_quiet h).2.2.2.2.2.2.2.1
  · have ha : isSpace a = false := by simpa [Escape.startsVisible] using h0.visible
    rw [defSrc_eq]
    cases tr with
    | nil => simp [joinLines, join, Escape.startsVisible, ha]
    | cons x y => rw [Block.joinLines_cons_cons]; simp [Escape.startsVisible, ha]
  · unfold Escape.secondLine
    rw [hlines]
    cases tr with
    | nil => simp [defLine, Escape.isEqUnderline, spanLen]
    | cons x y =>
      have hx := ht x (by simp)
      obtain ⟨p, q, rfl⟩ : ∃ p q, x = p :: q := by
        cases x with
        | nil => exact absurd rfl hx.ne
        | cons p q => exact ⟨p, q, rfl⟩
      have hp : p ≠ '=' := by
        intro e; subst e
        exact absurd (hx.chars '=' List.mem_cons_self) (by decide)
      simp [Escape.isEqUnderline, spanLen, hp]

/-- the new list: the terms and the first definition -/
def dlNode (terms ds : List Str) : Node :=
  { Node.el "dl" with children := terms.map (fun t => mkText "dt" t) ++ ds.map ddNode }

/-- the first turn: a new `dl` with the terms and the first definition; the other definitions are queued -/
theorem dispatch_defSrc (cfg : XCfg) (hdef : cfg.defList = true) (tab : Nat) (htab : tab > 0) (f : Nat)
    (state : List BState) (refs : Refs) (parent : Node) (hlast : parent.last? = none)
    (t0 : Str) (tr : List Str) (d : Str) (ds : List Str) (rest : List Str)
    (ht : ∀ l ∈ t0 :: tr, PlainFacts l) (hd : ∀ l ∈ d :: ds, PlainFacts l) :
    dispatchXT false cfg tab (parseBlocksXT false cfg tab (f + 1)) state refs parent (defSrc (t0 :: tr) (d :: ds)) rest =
      some (parent.append (dlNode (t0 :: tr) [d]), refs,
        if (defsText ds).isEmpty then rest else defsText ds :: rest) := by
  have hd0 := hd d List.mem_cons_self
  have hds : ∀ x ∈ ds, PlainFacts x := fun x hx => hd x (List.mem_cons_of_mem _ hx)
  rw [dispatchXT_toDef cfg tab htab _ state refs parent _ rest (coreFree_defSrc t0 tr d ds ht hd)]
  have hsrc := defSrc_eq t0 tr d ds
  have hfirst : defAt (defSrc (t0 :: tr) (d :: ds)) = none := by
    rw [hsrc, show joinLines (t0 :: tr) = t0 ++ (match tr with | [] => [] | x :: y => '\n' :: joinLines (x :: y)) by
      cases tr with
      | nil => simp [joinLines, join]
      | cons x y => rw [Block.joinLines_cons_cons], List.append_assoc]
    exact defAt_plain t0 _ (ht t0 List.mem_cons_self)
  have haux := nlSearchAux_terms (t0 :: tr) ht d (defsTail ds) hd0 (defsTail_cases ds) 0 (by simp)
  rw [← defsText_cons, ← hsrc] at haux
  have hsearch : defSearch (defSrc (t0 :: tr) (d :: ds)) =
      some ((joinLines (t0 :: tr)).length,
        (joinLines (t0 :: tr)).length + 1 + (4 + d.length + (if defsTail ds = [] then 0 else 1)), d) := by
    simp only [defSearch, nlSearch, hfirst, haux, Nat.zero_add]
  have htake : (defSrc (t0 :: tr) (d :: ds)).take (joinLines (t0 :: tr)).length = joinLines (t0 :: tr) := by
    rw [hsrc]; exact List.take_left' rfl
  have hdrop : (defSrc (t0 :: tr) (d :: ds)).drop
      ((joinLines (t0 :: tr)).length + 1 + (4 + d.length + (if defsTail ds = [] then 0 else 1))) = defsText ds := by
    rw [hsrc, show joinLines (t0 :: tr) ++ '\n' :: defsText (d :: ds) =
      (joinLines (t0 :: tr) ++ ['\n']) ++ defsText (d :: ds) by simp,
      show (joinLines (t0 :: tr)).length + 1 + (4 + d.length + (if defsTail ds = [] then 0 else 1)) =
        (joinLines (t0 :: tr) ++ ['\n']).length + (4 + d.length + (if defsTail ds = [] then 0 else 1)) by simp,
      ← List.drop_drop, List.drop_left' rfl]
    rw [defsText_cons]
    cases ds with
    | nil =>
      simp only [defsTail, List.append_nil, if_true, Nat.add_zero]
      exact List.drop_eq_nil_of_le (by simp [defLine]; omega)
    | cons e es =>
      have hne : ('\n' :: defsText (e :: es) = []) = False := by simp
      simp only [defsTail, hne, if_false]
      rw [show defLine d ++ '\n' :: defsText (e :: es) = (defLine d ++ ['\n']) ++ defsText (e :: es) by simp]
      exact List.drop_left' (by simp [defLine]; omega)
  have hterms : List.filter (fun t => !t.isEmpty) (List.map strip (lines (joinLines (t0 :: tr)))) = t0 :: tr := by
    rw [joinLines_lines (by simp) (fun p hp => (ht p hp).noNl)]
    have : ∀ L : List Str, (∀ l ∈ L, PlainFacts l) → List.filter (fun t => !t.isEmpty) (List.map strip L) = L := by
      intro L hL
      induction L with
      | nil => rfl
      | cons x L ih =>
        have hx := hL x List.mem_cons_self
        have hne : x.isEmpty = false := by
          have := hx.ne
          cases x with
          | nil => exact absurd rfl this
          | cons a b => rfl
        simp only [List.map_cons, strip_plain hx, List.filter, hne, Bool.not_false,
          ih (fun l hl => hL l (List.mem_cons_of_mem _ hl))]
    exact this _ ht
  obtain ⟨hni, hdetab⟩ := def_rest tab htab ds hds
  have hpb := pb_dd cfg tab htab f state refs d hd0
  simp only [tailDef, hdef, if_true, hsearch, defListP, htake, hterms, hdrop, hni, Bool.false_eq_true, if_false,
    hdetab, List.isEmpty_nil, hlast, List.isEmpty_cons, hpb]
  simp [dlNode, addTerms, Node.append, Node.el]

/-! ### the further definitions, one per turn; the document -/

theorem last_setLast (p x : Node) : (p.setLast x).last? = some x := by
  simp [Node.last?, Node.setLast]

theorem setLast_setLast (p x y : Node) : (p.setLast x).setLast y = p.setLast y := by
  simp [Node.setLast]

theorem lastDdTight_append (dl : Node) (d : Str) : lastDdTight (dl.append (ddNode d)) := by
  simp [lastDdTight, Node.last?, Node.append, ddNode, Node.el, Node.isTag]

theorem loop_defs (cfg : XCfg) (hdef : cfg.defList = true) (tab : Nat) (htab : tab > 0) (state : List BState)
    (refs : Refs) (rest : List Str) :
    ∀ (ds : List Str) (parent dl : Node) (f : Nat), ds ≠ [] → (∀ d ∈ ds, PlainFacts d) → parent.last? = some dl →
      dl.isTag "dl" = true → lastDdTight dl →
      parseBlocksXT false cfg tab (f + 1 + ds.length) state refs parent (defsText ds :: rest) =
        parseBlocksXT false cfg tab (f + 1) state refs
          (parent.setLast { dl with children := dl.children ++ ds.map ddNode }) rest := by
  intro ds
  induction ds with
  | nil => intro _ _ _ h; exact absurd rfl h
  | cons d ds ih =>
    intro parent dl f _ hd hlast hdl htight
    have hstep := dispatch_defs cfg hdef tab htab (f + ds.length) state refs parent dl d ds rest hd hlast hdl htight
    rw [show f + 1 + (d :: ds).length = (f + ds.length + 1) + 1 by simp only [List.length_cons]; omega]
    simp only [parseBlocksXT, hstep]
    cases ds with
    | nil =>
      simp only [defsText, List.map_nil, joinLines, join, List.isEmpty_nil, if_true, List.length_nil, Nat.add_zero,
        List.map_cons]
      rfl
    | cons e es =>
      have hne : (defsText (e :: es)).isEmpty = false := by
        rw [defsText_cons]; simp [defLine]
      simp only [hne, Bool.false_eq_true, if_false]
      have hdl' : (dl.append (ddNode d)).isTag "dl" = true := by
        simpa [Node.isTag, Node.append] using hdl
      have := ih (parent.setLast (dl.append (ddNode d))) (dl.append (ddNode d)) f (by simp)
        (fun x hx => hd x (List.mem_cons_of_mem _ hx)) (last_setLast _ _) hdl' (lastDdTight_append dl d)
      rw [show f + (e :: es).length + 1 = f + 1 + (e :: es).length by omega, this, setLast_setLast]
      simp [Node.append, List.append_assoc]

theorem length_defSrc (t0 : Str) (tr : List Str) (d : Str) (ds : List Str) :
    ds.length + 1 ≤ (defSrc (t0 :: tr) (d :: ds)).length := by
  rw [defSrc_eq]
  have : ∀ L : List Str, L.length ≤ (defsText L).length := by
    intro L
    induction L with
    | nil => simp
    | cons x L ih =>
      rw [defsText_cons]
      cases L with
      | nil => simp [defLine, defsTail]
      | cons y L' =>
        simp only [defsTail, List.length_append, List.length_cons, defLine] at ih ⊢
        omega
  have := this (d :: ds)
  simp only [List.length_append, List.length_cons] at this ⊢
  omega

/-- the block stage: one `dl` with the terms and the definitions -/
theorem parseDocumentXT_def (cfg : XCfg) (hdef : cfg.defList = true) (tab : Nat) (htab : tab > 0)
    (t0 : Str) (tr : List Str) (d : Str) (ds : List Str)
    (ht : ∀ l ∈ t0 :: tr, PlainFacts l) (hd : ∀ l ∈ d :: ds, PlainFacts l) :
    parseDocumentXT false cfg tab (defSrc (t0 :: tr) (d :: ds) ++ ['\n', '\n']) =
      some ((Node.el "div").append (dlNode (t0 :: tr) (d :: ds)), []) := by
  have hlines := lines_defSrc (t0 :: tr) (d :: ds) (by simp) ht hd
  have hnel : Escape.noEmptyLineFrom true (defSrc (t0 :: tr) (d :: ds)) = true := by
    rw [← Escape.lines_all_nonempty, hlines, List.all_eq_true]
    intro l hl
    rcases List.mem_append.1 hl with hl | hl
    · have := (ht l hl).ne
      cases l with
      | nil => exact absurd rfl this
      | cons a b => rfl
    · obtain ⟨x, _, rfl⟩ := List.mem_map.1 hl
      simp [defLine]
  have hsplit : splitS ['\n', '\n'] (defSrc (t0 :: tr) (d :: ds) ++ ['\n', '\n']) = [defSrc (t0 :: tr) (d :: ds), []] := by
    simp only [splitS]; exact Escape.splitAux_blocks true _ hnel
  have hlen := length_defSrc t0 tr d ds
  obtain ⟨g, hg⟩ : ∃ g, fuelForX (defSrc (t0 :: tr) (d :: ds) ++ ['\n', '\n']).length = (g + 1 + ds.length) + 1 := by
    refine ⟨fuelForX (defSrc (t0 :: tr) (d :: ds) ++ ['\n', '\n']).length - ds.length - 2, ?_⟩
    simp only [fuelForX, List.length_append, List.length_cons, List.length_nil]
    omega
  have hds : ∀ x ∈ ds, PlainFacts x := fun x hx => hd x (List.mem_cons_of_mem _ hx)
  -- the last turn: the empty block
  have hfinal : ∀ (g : Nat) (parent : Node), (∀ sib, parent.last? = some sib → preCode sib = none) →
      parseBlocksXT false cfg tab (g + 1) [] [] parent [[]] = some (parent, []) := by
    intro g parent hp
    have hdisp : dispatchXT false cfg tab (parseBlocksXT false cfg tab g) [] [] parent [] [] = some (parent, [], []) := by
      simp only [dispatchXT, admTest_plain tab htab _ [] (by simp) (by simp), ite_self, tailEmptyT, List.isEmpty_nil,
        Bool.true_or, if_true, emptyP, List.drop_nil]
      cases hl : parent.last? with
      | none => rfl
      | some sib => simp only [hp sib hl]
    simp only [parseBlocksXT, hdisp]
  simp only [parseDocumentXT, parseChunk, hsplit]
  rw [hg]
  have hstep1 := dispatch_defSrc cfg hdef tab htab (g + ds.length) [] [] (Node.el "div") rfl t0 tr d ds [[]] ht hd
  rw [show g + 1 + ds.length = g + ds.length + 1 by omega]
  simp only [parseBlocksXT, hstep1]
  have hpre : ∀ L, preCode (dlNode (t0 :: tr) L) = none := by
    intro L
    have : (dlNode (t0 :: tr) L).isTag "pre" = false := by
      simp only [dlNode, Node.isTag, Node.el]; decide
    simp [preCode, this]
  cases ds with
  | nil =>
    simp only [defsText, List.map_nil, joinLines, join, List.isEmpty_nil, if_true, List.length_nil, Nat.add_zero]
    exact hfinal g _ (by intro sib hs; rw [CodeLaw.last_append] at hs; cases hs; exact hpre _)
  | cons e es =>
    have hne : (defsText (e :: es)).isEmpty = false := by
      rw [defsText_cons]; simp [defLine]
    simp only [hne, Bool.false_eq_true, if_false]
    have hloop := loop_defs cfg hdef tab htab [] [] [[]] (e :: es) ((Node.el "div").append (dlNode (t0 :: tr) [d]))
      (dlNode (t0 :: tr) [d]) g (by simp) hds (CodeLaw.last_append _ _)
      (by simp only [dlNode, Node.isTag, Node.el]; decide)
      (by
        have : dlNode (t0 :: tr) [d] =
            ({ Node.el "dl" with children := (t0 :: tr).map (fun t => mkText "dt" t) } : Node).append (ddNode d) := by
          simp [dlNode, Node.append]
        rw [this]; exact lastDdTight_append _ d)
    rw [show g + (e :: es).length + 1 = g + 1 + (e :: es).length by omega, hloop, CodeLaw.setLast_append]
    have hdl : ({ dlNode (t0 :: tr) [d] with
        children := (dlNode (t0 :: tr) [d]).children ++ (e :: es).map ddNode } : Node) = dlNode (t0 :: tr) (d :: e :: es) := by
      simp [dlNode, List.append_assoc]
    rw [hdl]
    exact hfinal g _ (by intro sib hs; rw [CodeLaw.last_append] at hs; cases hs; exact hpre _)

/-! ### prettify, unescape, serializer on lists of text elements -/

/-- a text element after prettify -/
def txtFin (tag : String) (t : Str) : Node := { tag := .name tag.toList, text := some t, tail := some ['\n'] }

/-- what the tree stages need of a tag (`dt`, `dd`) -/
structure TagOK (tag : String) : Prop where
  block : TreeProc.isBlockLevel TreeProc.defaultBlockLevel (.name tag.toList) = true
  notCode : tag.toList ≠ ['c', 'o', 'd', 'e']
  notPre : tag.toList ≠ ['p', 'r', 'e']
  notBr : tag.toList ≠ ['b', 'r']
  notEmpty : Ser.isEmptyTag tag.toList = false
  notRaw : Ser.isRawTextTag tag.toList = false

theorem tagOK_dt : TagOK "dt" := by constructor <;> decide
theorem tagOK_dd : TagOK "dd" := by constructor <;> decide

theorem prettifyKids_append (bl : List Str) (A B : List Node) :
    TreeProc.prettifyKids bl (A ++ B) = TreeProc.prettifyKids bl A ++ TreeProc.prettifyKids bl B := by
  induction A with
  | nil => rfl
  | cons a A ih => simp only [List.cons_append, TreeProc.prettifyKids, ih]

theorem mapKids_append (f : Node → Node) (A B : List Node) :
    TreeProc.mapKids f (A ++ B) = TreeProc.mapKids f A ++ TreeProc.mapKids f B := by
  induction A with
  | nil => rfl
  | cons a A ih => simp only [List.cons_append, TreeProc.mapKids, ih]

theorem unescapeKids_append (A B A' B' : List Node) (hA : TreeProc.unescapeKids A = some A')
    (hB : TreeProc.unescapeKids B = some B') : TreeProc.unescapeKids (A ++ B) = some (A' ++ B') := by
  induction A generalizing A' with
  | nil => simp only [TreeProc.unescapeKids, Option.some.injEq] at hA; subst hA; simpa using hB
  | cons a A ih =>
    simp only [List.cons_append, TreeProc.unescapeKids] at hA ⊢
    cases ha : TreeProc.unescapeTree a with
    | none => rw [ha] at hA; simp at hA
    | some a' =>
      cases hA2 : TreeProc.unescapeKids A with
      | none => rw [ha, hA2] at hA; simp at hA
      | some A2 =>
        rw [ha, hA2] at hA
        simp only [Option.some.injEq] at hA
        subst hA
        rw [ih A2 hA2]
        rfl

theorem serializeList_append (fmt : Ser.Fmt) (A B : List Node) :
    Ser.serializeList fmt (A ++ B) = Ser.serializeList fmt A ++ Ser.serializeList fmt B := by
  induction A with
  | nil => rfl
  | cons a A ih => simp only [List.cons_append, Ser.serializeList, ih, List.append_assoc]

theorem prettifyKids_txt (tag : String) (h : TagOK tag) (L : List Str) :
    TreeProc.prettifyKids TreeProc.defaultBlockLevel (L.map (fun t => mkText tag t)) = L.map (txtFin tag) := by
  induction L with
  | nil => rfl
  | cons t L ih =>
    simp only [List.map_cons, TreeProc.prettifyKids, ih]
    simp [mkText, Node.el, h.block, TreeProc.prettifyETree, h.notCode, h.notPre, TreeProc.prettifyKids,
      TreeProc.blankOrNone, Node.truthy, txtFin]

theorem mapKids_txt (tag : String) (h : TagOK tag) (L : List Str) :
    TreeProc.mapKids TreeProc.preRule (TreeProc.mapKids TreeProc.brRule (L.map (txtFin tag))) = L.map (txtFin tag) := by
  induction L with
  | nil => rfl
  | cons t L ih =>
    simp only [List.map_cons, TreeProc.mapKids, ih]
    simp [txtFin, TreeProc.mapTree, TreeProc.mapKids, TreeProc.brRule, TreeProc.preRule, TreeProc.tagIs, h.notBr,
      h.notPre]

theorem unescapeKids_txt (tag : String) (h : TagOK tag) (L : List Str) (hs : ∀ t ∈ L, t ≠ [] ∧ TreeProc.STX ∉ t) :
    TreeProc.unescapeKids (L.map (txtFin tag)) = some (L.map (txtFin tag)) := by
  have t3 : TreeProc.unescapeText 0 ['\n'] = some ['\n'] := by decide
  induction L with
  | nil => rfl
  | cons t L ih =>
    obtain ⟨hne, hstx⟩ := hs t List.mem_cons_self
    obtain ⟨a, b, rfl⟩ : ∃ a b, t = a :: b := by
      cases t with
      | nil => exact absurd rfl hne
      | cons a b => exact ⟨a, b, rfl⟩
    simp only [List.map_cons, TreeProc.unescapeKids, ih (fun x hx => hs x (List.mem_cons_of_mem _ hx))]
    simp [txtFin, TreeProc.unescapeTree, TreeProc.unescapeKids, TreeProc.unescAttrs, Node.truthy, t3, h.notCode,
      CodeLaw.unescapeText_id _ hstx]

/-- `<tag>t</tag>` + line feed, for every text -/
def txtOut (tag : String) : List Str → Str
  | [] => []
  | t :: r => '<' :: tag.toList ++ '>' :: t ++ '<' :: '/' :: tag.toList ++ '>' :: '\n' :: txtOut tag r

theorem serializeList_txt (fmt : Ser.Fmt) (tag : String) (h : TagOK tag) (L : List Str)
    (hp : ∀ t ∈ L, t ≠ [] ∧ ∀ c ∈ t, c ≠ '&' ∧ c ≠ '<' ∧ c ≠ '>') :
    Ser.serializeList fmt (L.map (txtFin tag)) = txtOut tag L := by
  have e7 : Ser.escCdata ['\n'] = ['\n'] := by decide
  induction L with
  | nil => rfl
  | cons t L ih =>
    obtain ⟨hne, hpl⟩ := hp t List.mem_cons_self
    obtain ⟨a, b, rfl⟩ : ∃ a b, t = a :: b := by
      cases t with
      | nil => exact absurd rfl hne
      | cons a b => exact ⟨a, b, rfl⟩
    simp only [List.map_cons, Ser.serializeList, ih (fun x hx => hp x (List.mem_cons_of_mem _ hx)), txtFin]
    rw [CodeLaw.serialize_plain fmt _ _ _ _ _ _ h.notEmpty h.notRaw]
    simp [Node.truthy, Ser.serializeList, e7, CodeLaw.escCdata_plain _ hpl, txtOut, List.append_assoc]

/-! ### the `dl` through the tree stages -/

/-- the document after prettify (and unescape) -/
def dlFin (terms ds : List Str) : Node :=
  { tag := .name "div".toList, text := some ['\n'], tail := some ['\n'],
    children := [{ tag := .name "dl".toList, text := some ['\n'], tail := some ['\n'],
                   children := terms.map (txtFin "dt") ++ ds.map (txtFin "dd") }] }

theorem ddNode_eq (d : Str) : ddNode d = mkText "dd" d := rfl

theorem prettify_dl (t0 : Str) (tr ds : List Str) :
    TreeProc.prettify ((Node.el "div").append (dlNode (t0 :: tr) ds)) = dlFin (t0 :: tr) ds := by
  have hdd : ds.map ddNode = ds.map (fun t => mkText "dd" t) := rfl
  have bl_dl : TreeProc.isBlockLevel TreeProc.defaultBlockLevel (.name ['d', 'l']) = true := by decide
  have bl_dt : TreeProc.isBlockLevel TreeProc.defaultBlockLevel (.name ['d', 't']) = true := by decide
  have hk := prettifyKids_txt "dt" tagOK_dt (t0 :: tr)
  have hk2 := prettifyKids_txt "dd" tagOK_dd ds
  have hm := mapKids_txt "dt" tagOK_dt (t0 :: tr)
  have hm2 := mapKids_txt "dd" tagOK_dd ds
  simp only [TreeProc.prettify, Node.append, Node.el, dlNode, hdd, List.nil_append, TreeProc.prettifyETree,
    TreeProc.prettifyKids, prettifyKids_append, hk, hk2]
  simp only [List.map_cons, mkText, Node.el] at *
  simp [CodeLaw.bl_div, bl_dl, bl_dt, TreeProc.blankOrNone, Node.truthy, TreeProc.mapTree, TreeProc.mapKids,
    TreeProc.brRule, TreeProc.preRule, TreeProc.tagIs, mapKids_append, dlFin, txtFin]
  rw [mapKids_txt "dt" tagOK_dt tr, hm2]

theorem unescapeTree_dl (terms ds : List Str) (ht : ∀ t ∈ terms, t ≠ [] ∧ TreeProc.STX ∉ t)
    (hd : ∀ t ∈ ds, t ≠ [] ∧ TreeProc.STX ∉ t) :
    TreeProc.unescapeTree (dlFin terms ds) = some (dlFin terms ds) := by
  have t3 : TreeProc.unescapeText 0 ['\n'] = some ['\n'] := by decide
  have hk := unescapeKids_append _ _ _ _ (unescapeKids_txt "dt" tagOK_dt terms ht) (unescapeKids_txt "dd" tagOK_dd ds hd)
  simp [dlFin, TreeProc.unescapeTree, TreeProc.unescapeKids, TreeProc.unescAttrs, Node.truthy, t3, hk]

/-- the rendering of a definition list -/
def dlOut (terms ds : List Str) : Str :=
  "<dl>\n".toList ++ txtOut "dt" terms ++ txtOut "dd" ds ++ "</dl>".toList

theorem serialize_dl (fmt : Ser.Fmt) (terms ds : List Str)
    (ht : ∀ t ∈ terms, t ≠ [] ∧ ∀ c ∈ t, c ≠ '&' ∧ c ≠ '<' ∧ c ≠ '>')
    (hd : ∀ t ∈ ds, t ≠ [] ∧ ∀ c ∈ t, c ≠ '&' ∧ c ≠ '<' ∧ c ≠ '>') :
    Ser.serialize fmt (dlFin terms ds) =
      "<div>".toList ++ ('\n' :: dlOut terms ds ++ ['\n']) ++ "</div>\n".toList := by
  have e7 : Ser.escCdata ['\n'] = ['\n'] := by decide
  simp only [dlFin]
  rw [CodeLaw.serialize_plain fmt _ _ _ _ _ _ (by decide) (by decide)]
  simp only [Ser.serializeList]
  rw [CodeLaw.serialize_plain fmt _ _ _ _ _ _ (by decide) (by decide), serializeList_append,
    serializeList_txt fmt "dt" tagOK_dt terms ht, serializeList_txt fmt "dd" tagOK_dd ds hd]
  simp only [Node.truthy, if_true, Option.getD_some, e7, List.append_nil]
  unfold dlOut
  simp only [String.reduceToList, List.cons_append, List.append_assoc, List.nil_append]

/-! ### end to end -/

theorem quietKids_append (nl : Bool) (A B : List Node) :
    quietKids nl (A ++ B) = (quietKids nl A && quietKids nl B) := by
  induction A with
  | nil => simp [quietKids]
  | cons a A ih => simp only [List.cons_append, quietKids, ih, Bool.and_assoc]

theorem quietKids_txt (nl : Bool) (tag : String) (L : List Str) (h : ∀ t ∈ L, quietStr nl t = true) :
    quietKids nl (L.map (fun t => mkText tag t)) = true := by
  induction L with
  | nil => rfl
  | cons t L ih =>
    simp only [List.map_cons, quietKids, ih (fun x hx => h x (List.mem_cons_of_mem _ hx)), Bool.and_true]
    simp [mkText, Node.el, quietTree, quietKids, Node.truthy, h t List.mem_cons_self]

theorem safeLine_defLine (d : Str) (h : PlainFacts d) : SafeLine (defLine d) := by
  have hs := h.safeLine
  have hsafe := h.safe.1
  simp only [DocParse.lineSafe, Bool.and_eq_true, List.all_eq_true, Bool.or_eq_true, bne_iff_ne, ne_eq] at hsafe
  have hmem : ∀ c ∈ defLine d, c = ':' ∨ c = ' ' ∨ c ∈ d := by
    intro c hc
    simp only [defLine, List.mem_cons] at hc
    rcases hc with h | h | h | h | h
    · exact Or.inl h
    · exact Or.inr (Or.inl h)
    · exact Or.inr (Or.inl h)
    · exact Or.inr (Or.inl h)
    · exact Or.inr (Or.inr h)
  refine ⟨?_, fun c hc => ?_⟩
  · simp only [DocParse.lineSafe, Bool.and_eq_true, List.all_eq_true, Bool.or_eq_true, bne_iff_ne, ne_eq]
    refine ⟨fun c hc => ?_, Or.inr ?_⟩
    · rcases hmem c hc with rfl | rfl | hc
      · decide
      · decide
      · exact hsafe.1 c hc
    · simp only [List.any_eq_true, bne_iff_ne, ne_eq]
      exact ⟨':', by simp [defLine], by decide⟩
  · rcases hmem c hc with rfl | rfl | hc
    · decide
    · decide
    · exact hs.ascii c hc

theorem stx_not_mem_txtOut (tag : String) (htag : Post.STX ∉ tag.toList) (L : List Str) (h : ∀ t ∈ L, Post.STX ∉ t) :
    Post.STX ∉ txtOut tag L := by
  induction L with
  | nil => simp [txtOut]
  | cons t L ih =>
    intro hm
    have hm' : Post.STX ∈ ['<'] ++ tag.toList ++ ['>'] ++ t ++ ['<', '/'] ++ tag.toList ++ ['>', '\n'] ++ txtOut tag L := by
      simpa [txtOut, List.append_assoc] using hm
    simp only [List.mem_append] at hm'
    rcases hm' with ((((((h1 | h1) | h1) | h1) | h1) | h1) | h1) | h1
    · exact absurd h1 (by decide)
    · exact htag h1
    · exact absurd h1 (by decide)
    · exact h t List.mem_cons_self h1
    · exact absurd h1 (by decide)
    · exact htag h1
    · exact absurd h1 (by decide)
    · exact ih (fun x hx => h x (List.mem_cons_of_mem _ hx)) h1

theorem dlOut_shape (terms ds : List Str) : ∃ M, dlOut terms ds = '<' :: M ++ ['>'] := by
  refine ⟨"dl>\n".toList ++ txtOut "dt" terms ++ txtOut "dd" ds ++ "</dl".toList, ?_⟩
  unfold dlOut
  simp only [String.reduceToList, List.cons_append, List.append_assoc, List.nil_append]

theorem convertX_def (cfg : Pipeline.Cfg) (hbl : cfg.blockLevel = TreeProc.defaultBlockLevel) (htab : 0 < cfg.tab)
    (t0 : Str) (tr : List Str) (d : Str) (ds : List Str)
    (ht : ∀ l ∈ t0 :: tr, PlainFacts l) (hd : ∀ l ∈ d :: ds, PlainFacts l) :
    PipelineX.convertX { defList := true } cfg (defSrc (t0 :: tr) (d :: ds)) = .ok (dlOut (t0 :: tr) (d :: ds)) := by
  -- the front
  obtain ⟨s1, s2, s3, s4, s5⟩ := front_lines cfg.tab ((t0 :: tr) ++ (d :: ds).map defLine) (by simp)
    (by
      intro l hl
      rcases List.mem_append.1 hl with hl | hl
      · exact (ht l hl).safeLine
      · obtain ⟨x, hx, rfl⟩ := List.mem_map.1 hl
        exact safeLine_defLine x (hd x hx))
    (by
      have h0 := ht t0 List.mem_cons_self
      obtain ⟨a, b, rfl⟩ : ∃ a b, t0 = a :: b := by
        cases t0 with
        | nil => exact absurd rfl h0.ne
        | cons a b => exact ⟨a, b, rfl⟩
      refine ⟨a, ?_, by simpa [Escape.startsVisible] using h0.visible⟩
      rw [show joinLines ((a :: b) :: tr ++ (d :: ds).map defLine) = defSrc ((a :: b) :: tr) (d :: ds) from rfl, defSrc_eq]
      cases tr with
      | nil => simp [joinLines, join]
      | cons x y => rw [Block.joinLines_cons_cons]; simp)
  rw [show joinLines ((t0 :: tr) ++ (d :: ds).map defLine) = defSrc (t0 :: tr) (d :: ds) from rfl] at s1 s2 s3 s4 s5
  -- the block stage
  have hblk := parseDocumentXT_def { defList := true } rfl cfg.tab htab t0 tr d ds ht hd
  -- the inline stage
  have hquiet : quietKids false ((Node.el "div").append (dlNode (t0 :: tr) (d :: ds))).children = true := by
    have h1 := quietKids_txt false "dt" (t0 :: tr) (fun t h => quietStr_chars false t (ht t h).chars)
    have h2 := quietKids_txt false "dd" (d :: ds) (fun t h => quietStr_chars false t (hd t h).chars)
    have hdd : (d :: ds).map ddNode = (d :: ds).map (fun t => mkText "dd" t) := rfl
    simp only [Node.append, Node.el, List.nil_append, quietKids, quietTree, dlNode, Node.truthy, hdd,
      quietKids_append, h1, h2, Bool.and_self, Bool.not_false]
  have hrun := fun (ic : Inline.Cfg) (keys : List Str) =>
    runX_quiet { cfg := ic, table := InlineX.table false false false, fnKeys := keys } false
      (fun hm => nl_mem_table false false false hm) (Nat.le_trans (by decide) (table_length false false false)) _ []
      hquiet
  -- the tree stages
  have hpre := prettify_dl t0 tr (d :: ds)
  have hun := unescapeTree_dl (t0 :: tr) (d :: ds) (fun t h => ⟨(ht t h).ne, (ht t h).noStx⟩)
    (fun t h => ⟨(hd t h).ne, (hd t h).noStx⟩)
  have hser := serialize_dl cfg.fmt (t0 :: tr) (d :: ds) (fun t h => ⟨(ht t h).ne, (ht t h).noMarkup⟩)
    (fun t h => ⟨(hd t h).ne, (hd t h).noMarkup⟩)
  -- the end
  have hJ : Post.STX ∉ dlOut (t0 :: tr) (d :: ds) := by
    intro hm
    unfold dlOut at hm
    rcases List.mem_append.1 hm with hm | hm
    · rcases List.mem_append.1 hm with hm | hm
      · rcases List.mem_append.1 hm with hm | hm
        · simp only [String.reduceToList] at hm; exact absurd hm (by decide)
        · exact stx_not_mem_txtOut "dt" (by decide) _ (fun t h => (ht t h).noStx) hm
      · exact stx_not_mem_txtOut "dd" (by decide) _ (fun t h => (hd t h).noStx) hm
    · simp only [String.reduceToList] at hm; exact absurd hm (by decide)
  obtain ⟨M, hM⟩ := dlOut_shape (t0 :: tr) (d :: ds)
  have hfin := finishX_wrapped { defList := true } cfg rfl (dlOut (t0 :: tr) (d :: ds)) hJ
    (fun c hc => by
      rw [hM] at hc
      have : c = '<' := by simpa using hc.symm
      subst this; decide)
    (fun c hc => by
      rw [hM, show '<' :: M ++ ['>'] = ('<' :: M) ++ ['>'] from rfl, List.getLast?_append] at hc
      have : c = '>' := by simpa using hc.symm
      subst this; decide)
  simp only [PipelineX.convertX, s1, s2, PipelineX.Exts.unsupported, Bool.false_eq_true, if_false,
    PipelineX.treeX, PipelineX.prepareX, s3, s4, s5, Bool.and_false, Bool.false_and,
    PipelineX.Exts.blockCfg, hblk, PipelineX.refsX, Bool.or_self, PipelineX.escX, hrun]
  simp only [hbl, hpre, hun, hser]
  exact hfin

end MdVerif.RenderX
