/-
C05 on the extension pipeline, removal of the residual hypothesis `hamp` of `C05X_partial`, part 2: the inline stage
over a pattern table (`InlineX.runX`).

`Lemmas/AmpFullRun.lean` proves that `Inline.run` keeps the STX invariant (`AmpFull.NodeS`: every STX of a text or tail
is followed by `k`, `w` or a two-digit number; in an attribute value the same up to truncation).  Here the same walk for
`applyPatternX`, `hiLoopX`, `handleInlineX`, `visitChildX`, `visitLoopX`, `runLoopX`, `runX`:

* a core entry of the table delegates to `Inline.findMatch` (`AmpFull.findMatch_S`);
* `footnote`: the match starts at `[`; the `sup`/`a` elements carry the id — an infix of the data, hence complete up to
  truncation (`SOkA`) — behind a literal prefix (`fnref:`, `fnref2:`, … `#fn:`) in attribute values only;
* `wikilink`: the match starts at `[`; label and `href` consist of `[\w -]` characters and `_`, `/`: no STX;
* `nl`: the match is the newline; the node an empty `br`;
* the placeholder machinery (`ppTop`, `procNode`, …) is the core's (`AmpFull.ppTop_S`).

`runX_S`: for EVERY table and every set of footnote keys.  Core Lean only.
-/
import MdVerif.Lemmas.VocabXWFAmpGRun
import MdVerif.Lemmas.PlaceholdersXFM

set_option autoImplicit false

namespace MdVerif.VocabXAmp
open Py Inline InlineX G

/-! ### the extension patterns -/

theorem natToDec_noSTX (n : Nat) : G.STX ∉ natToDec n := by
  intro hm
  have := natToDec_digits n _ hm
  revert this; decide

theorem isWikiChar_ne_stx {c : Char} (h : isWikiChar c = true) : c ≠ G.STX := by
  rintro rfl; revert h; decide

theorem wikiNode_S {g : Str} (hg : ∀ c ∈ g, isWikiChar c = true) :
    wikiNode g ≠ .none ∧ (∀ s, wikiNode g = .str s → SOk s = true) ∧ ∀ n, wikiNode g = .el n → n.Forall NodeS := by
  have hlab : G.STX ∉ strip g := fun hm => isWikiChar_ne_stx (hg _ ((strip_infix g).subset hm)) rfl
  refine ⟨?_, ?_, ?_⟩
  · unfold wikiNode; simp only; split <;> simp
  · intro s h
    unfold wikiNode at h
    simp only at h
    split at h
    · simp only [PNode.str.injEq] at h; subst h; rfl
    · cases h
  · intro n h
    unfold wikiNode at h
    simp only at h
    split at h
    · cases h
    · simp only [PNode.el.injEq] at h; subst h
      have ha : ({ mkEl "a" with text := some (strip g) } : Node).Forall NodeS := by
        rw [Node.forall_iff]
        refine ⟨⟨SOk_of_noSTX hlab, rfl, ?_⟩, ?_⟩
        · intro kv hkv; simp [mkEl] at hkv
        · intro c hc; simp [mkEl] at hc
      refine forallS_setAttr (forallS_setAttr ha _ (SOkA_of_noSTX ?_)) _ (by decide)
      intro hm
      rcases List.mem_cons.1 hm with hm | hm
      · revert hm; decide
      · rcases List.mem_append.1 hm with hm | hm
        · rcases NoCtlX.mem_cleanLabel _ _ _ hm with hm | hm
          · exact hlab hm
          · revert hm; decide
        · revert hm; decide

/-! ### the footnote reference ids -/

/-- a literal prefix that holds a `:`, then the id -/
def RefForm (id r : Str) : Prop := ∃ pre, G.STX ∉ pre ∧ ':' ∈ pre ∧ r = pre ++ id

theorem splitFirst_pre (s : Str) : ∀ (pre : Str), ':' ∈ pre →
    ∃ a p2, pre = a ++ ':' :: p2 ∧ Footnotes.splitFirst ':' (pre ++ s) = some (a, p2 ++ s) := by
  intro pre
  induction pre with
  | nil => intro h; cases h
  | cons x pre ih =>
    intro h
    by_cases hx : x = ':'
    · subst hx
      exact ⟨[], pre, rfl, by simp [Footnotes.splitFirst]⟩
    · have hm : ':' ∈ pre := by
        rcases List.mem_cons.1 h with h | h
        · exact absurd h.symm hx
        · exact h
      obtain ⟨a, p2, e1, e2⟩ := ih hm
      refine ⟨x :: a, p2, by rw [e1]; rfl, ?_⟩
      simp only [List.cons_append, Footnotes.splitFirst, hx, if_false, e2, Option.map_some]

theorem refIdMatch_g1 {ref g1 g2 : Str} (h : Footnotes.refIdMatch ref = some (g1, g2)) :
    g1 = Footnotes.fnref := by
  unfold Footnotes.refIdMatch at h
  split at h
  · split at h
    · cases h
    · simp only [Option.some.injEq, Prod.mk.injEq] at h; exact h.1.symm
  · cases h

theorem bumpRef_form {id r : Str} (h : RefForm id r) : RefForm id (Footnotes.bumpRef r) := by
  obtain ⟨pre, h1, h2, rfl⟩ := h
  obtain ⟨a, p2, e1, e2⟩ := splitFirst_pre id pre h2
  have ha : G.STX ∉ a := fun hm => h1 (by rw [e1]; exact List.mem_append_left _ hm)
  have hp2 : G.STX ∉ p2 := fun hm => h1 (by rw [e1]; exact List.mem_append_right _ (List.mem_cons_of_mem _ hm))
  unfold Footnotes.bumpRef
  rw [e2]
  simp only
  split
  · rename_i g1 g2 hm
    have hg := refIdMatch_g1 hm
    subst hg
    refine ⟨Footnotes.fnref ++ natToDec (decToNat g2 + 1) ++ ':' :: p2, ?_, by simp, by simp⟩
    intro hm'
    rcases List.mem_append.1 hm' with hm' | hm'
    · rcases List.mem_append.1 hm' with hm' | hm'
      · revert hm'; decide
      · exact natToDec_noSTX _ hm'
    · rcases List.mem_cons.1 hm' with hm' | hm'
      · revert hm'; decide
      · exact hp2 hm'
  · refine ⟨a ++ natToDec 2 ++ ':' :: p2, ?_, by simp, by simp⟩
    intro hm'
    rcases List.mem_append.1 hm' with hm' | hm'
    · rcases List.mem_append.1 hm' with hm' | hm'
      · exact ha hm'
      · exact natToDec_noSTX _ hm'
    · rcases List.mem_cons.1 hm' with hm' | hm'
      · revert hm'; decide
      · exact hp2 hm'

theorem uniqueRefLoop_form {id : Str} (used : List Str) : ∀ (fuel : Nat) (r : Str), RefForm id r →
    RefForm id (Footnotes.uniqueRefLoop fuel r used) := by
  intro fuel
  induction fuel with
  | zero => intro r h; exact h
  | succ f ih =>
    intro r h
    simp only [Footnotes.uniqueRefLoop]
    split
    · exact ih _ (bumpRef_form h)
    · exact h

theorem footnoteRefId_sokA {id : Str} (hid : SOkA id = true) (st : Footnotes.State) :
    SOkA (Footnotes.footnoteRefId id true st).1 = true := by
  simp only [Footnotes.footnoteRefId, Footnotes.uniqueRef, if_true]
  have h0 : RefForm id (Footnotes.fnref ++ ':' :: id) :=
    ⟨Footnotes.fnref ++ [':'], by decide, by decide, by simp⟩
  obtain ⟨pre, h1, _, e⟩ := uniqueRefLoop_form st.usedRefs (st.usedRefs.length + 1) _ h0
  rw [e]
  exact SOkA_append (SOk_of_noSTX h1) hid

theorem fnRefNode_S (keys : List Str) {id refId : Str} (hid : SOkA id = true) (hr : SOkA refId = true) :
    (fnRefNode keys id refId).Forall NodeS := by
  unfold fnRefNode
  simp only
  have ha : ({ mkEl "a" with text := some (natToDec (indexOf keys id + 1)) } : Node).Forall NodeS := by
    rw [Node.forall_iff]
    refine ⟨⟨SOk_of_noSTX (natToDec_noSTX _), rfl, ?_⟩, ?_⟩
    · intro kv hkv; simp [mkEl] at hkv
    · intro c hc; simp [mkEl] at hc
  have hhref : SOkA ('#' :: Footnotes.footnoteId id) = true := by
    have : '#' :: Footnotes.footnoteId id = "#fn:".toList ++ id := rfl
    rw [this]
    exact SOkA_append (by decide) hid
  refine forallS_setChildren (forallS_setAttr (nodeS_mkEl "sup") _ hr) ?_
  intro c hc
  simp only [List.mem_singleton] at hc
  subst hc
  exact forallS_setAttr (forallS_setAttr ha _ hhref) _ (by decide)

/-! ### `findX` -/

/-- **every entry of a pattern table**: the match starts in front of a character that continues no G.STX, what is
    returned keeps the invariant, the node stash is not touched -/
theorem findX_S {xc : XCfg} (hesc : EscTwo xc.cfg.esc) (hrefs : RefsS xc.cfg) {k : PatK} {data : Str}
    (hd : SOk data = true) {si : Nat} {x x' : XSt} (hs : StashS x.st.stash) {f : Found}
    (h : findX xc k data si x = some (some f, x')) : FoundS data f ∧ x'.st.stash = x.st.stash := by
  unfold findX at h
  cases k with
  | core i =>
    simp only at h
    split at h
    · cases h
    · rename_i fo st hf
      simp only [Option.some.injEq, Prod.mk.injEq] at h
      obtain ⟨e1, e2⟩ := h; subst e1; subst e2
      exact ⟨findMatch_S hesc hrefs hd hs hf, (Vocab2.findMatch_ok _ _ _ _ _ _ _ hf).1⟩
  | footnote =>
    simp only at h
    split at h
    · cases h
    · split at h
      · rename_i id s e hsc
        simp only [Option.some.injEq, Prod.mk.injEq] at h
        obtain ⟨e1, e2⟩ := h; subst e1; subst e2
        obtain ⟨pre, post, h1, h2, _, _⟩ := NoCtlX.fnRefScan_spec _ _ _ _ _ _ _ hsc
        refine ⟨⟨?_, ?_⟩, rfl⟩
        · simp only
          rw [h2, getElem?_at_pre (rest := (('[' :: '^' :: id) ++ [']']) ++ post) (by rw [h1]; simp)]
          intro c hc
          simp only [List.cons_append, List.head?_cons, Option.some.injEq] at hc; subst hc; decide
        · simp only
          have hinf : id <:+: data := by
            refine infix_of_drop (p := si) ?_
            rw [h1]
            exact ⟨pre ++ ['[', '^'], [']'] ++ post, by simp⟩
          have hid : SOkA id = true := SOkA_infix (SOkA_of_SOk hd) hinf
          exact fnRefNode_S _ hid (footnoteRefId_sokA hid _)
      · cases h
  | wikilink =>
    simp only at h
    split at h
    · cases h
    · split at h
      · rename_i g s e hsc
        simp only [Option.some.injEq, Prod.mk.injEq] at h
        obtain ⟨e1, e2⟩ := h; subst e1; subst e2
        obtain ⟨pre, post, h1, h2, _, _, h5⟩ := NoCtlX.wikiScan_spec _ _ _ _ _ hsc
        obtain ⟨w1, w2, w3⟩ := wikiNode_S h5
        refine ⟨⟨?_, ?_⟩, rfl⟩
        · simp only
          rw [h2, getElem?_at_pre (rest := (('[' :: '[' :: g) ++ [']', ']']) ++ post) (by rw [h1]; simp)]
          intro c hc
          simp only [List.cons_append, List.head?_cons, Option.some.injEq] at hc; subst hc; decide
        · simp only
          split
          · trivial
          · rename_i s hn; exact w2 s hn
          · rename_i n hn; exact w3 n hn
      · cases h
  | nl =>
    simp only at h
    split at h
    · cases h
    · split at h
      · rename_i off hfind
        simp only [Option.some.injEq, Prod.mk.injEq] at h
        obtain ⟨e1, e2⟩ := h; subst e1; subst e2
        obtain ⟨pre, post, e1, e2, _⟩ := find_some_iff.1 hfind
        refine ⟨⟨?_, nodeS_mkEl "br"⟩, rfl⟩
        simp only
        rw [← e2, getElem?_at_pre (rest := ['\n'] ++ post) (by rw [e1]; simp)]
        intro c hc
        simp only [List.cons_append, List.head?_cons, Option.some.injEq] at hc; subst hc; decide
      · cases h

theorem findX_none_stash' {xc : XCfg} {k : PatK} {data : Str} {si : Nat} {x x' : XSt}
    (h : findX xc k data si x = some (none, x')) : x'.st.stash = x.st.stash := by
  unfold findX at h
  cases k with
  | core i =>
    simp only at h
    split at h
    · cases h
    · rename_i fo st hf
      simp only [Option.some.injEq, Prod.mk.injEq] at h
      obtain ⟨e1, e2⟩ := h; subst e1; subst e2
      exact Vocab2.findMatch_none_stash _ _ _ _ _ _ hf
  | footnote =>
    simp only at h
    repeat' split at h
    all_goals first | (cases h; rfl) | cases h | (simp only [Option.some.injEq, Prod.mk.injEq] at h; rw [← h.2])
  | wikilink =>
    simp only at h
    repeat' split at h
    all_goals first | (cases h; rfl) | cases h | (simp only [Option.some.injEq, Prod.mk.injEq] at h; rw [← h.2])
  | nl =>
    simp only at h
    repeat' split at h
    all_goals first | (cases h; rfl) | cases h | (simp only [Option.some.injEq, Prod.mk.injEq] at h; rw [← h.2])

/-! ### `applyPatternX`, `handleInlineX` -/

def HISX (hi : HIX) : Prop :=
  ∀ d p x d' x', hi d p x = some (d', x') → SOk d = true → StashS x.st.stash →
    SOk d' = true ∧ StashS x'.st.stash

theorem hiOptX_S {hi : HIX} (hhi : HISX hi) {t t' : Option Str} {atomic : Bool} {pi : Nat} {x x' : XSt}
    (h : hiOptX hi t atomic pi x = some (t', x')) (ht : SOk (t.getD []) = true) (hs : StashS x.st.stash) :
    SOk (t'.getD []) = true ∧ StashS x'.st.stash := by
  unfold hiOptX at h
  split at h
  · split at h
    · rename_i d x1 hh
      simp only [Option.some.injEq, Prod.mk.injEq] at h
      obtain ⟨h1, h2⟩ := h; subst h1; subst h2
      exact hhi _ _ _ _ _ hh ht hs
    · cases h
  · simp only [Option.some.injEq, Prod.mk.injEq] at h
    obtain ⟨h1, h2⟩ := h; subst h1; subst h2
    exact ⟨ht, hs⟩

theorem hiNodeX_S {hi : HIX} (hhi : HISX hi) {pi : Nat} {n n' : Node} {x x' : XSt}
    (h : hiNodeX hi pi n x = some (n', x')) (hn : NodeS n) (hs : StashS x.st.stash) :
    NodeS n' ∧ n'.children = n.children ∧ StashS x'.st.stash := by
  unfold hiNodeX at h
  split at h
  · cases h
  · rename_i t x1 h1
    split at h
    · cases h
    · rename_i tl x2 h2
      simp only [Option.some.injEq, Prod.mk.injEq] at h
      obtain ⟨e1, e2⟩ := h; subst e1; subst e2
      obtain ⟨a1, a2⟩ := hiOptX_S hhi h1 hn.1 hs
      obtain ⟨b1, b2⟩ := hiOptX_S hhi h2 hn.2.1 a2
      exact ⟨⟨a1, b1, hn.2.2⟩, rfl, b2⟩

theorem hiNodeX_forall {hi : HIX} (hhi : HISX hi) {pi : Nat} {n n' : Node} {x x' : XSt}
    (h : hiNodeX hi pi n x = some (n', x')) (hn : n.Forall NodeS) (hs : StashS x.st.stash) :
    n'.Forall NodeS ∧ StashS x'.st.stash := by
  rw [Node.forall_iff] at hn ⊢
  obtain ⟨a, b, c⟩ := hiNodeX_S hhi h hn.1 hs
  exact ⟨⟨a, by rw [b]; exact hn.2⟩, c⟩

theorem hiNodesX_S {hi : HIX} (hhi : HISX hi) (pi : Nat) :
    ∀ (ns : List Node) (x : XSt) (ns' : List Node) (x' : XSt), hiNodesX hi pi ns x = some (ns', x') →
      (∀ n ∈ ns, n.Forall NodeS) → StashS x.st.stash → (∀ n ∈ ns', n.Forall NodeS) ∧ StashS x'.st.stash := by
  intro ns
  induction ns with
  | nil =>
    intro x ns' x' h _ hs
    simp only [hiNodesX, Option.some.injEq, Prod.mk.injEq] at h
    obtain ⟨e1, e2⟩ := h; subst e1; subst e2
    exact ⟨by simp, hs⟩
  | cons n r ih =>
    intro x ns' x' h hn hs
    simp only [hiNodesX] at h
    split at h
    · cases h
    · rename_i n1 x1 h1
      split at h
      · cases h
      · rename_i r1 x2 h2
        simp only [Option.some.injEq, Prod.mk.injEq] at h
        obtain ⟨e1, e2⟩ := h; subst e1; subst e2
        obtain ⟨a1, a2⟩ := hiNodeX_forall hhi h1 (hn n List.mem_cons_self) hs
        obtain ⟨b1, b2⟩ := ih _ _ _ h2 (fun m hm => hn m (List.mem_cons_of_mem _ hm)) a2
        refine ⟨?_, b2⟩
        intro m hm
        rcases List.mem_cons.1 hm with rfl | hm
        · exact a1
        · exact b1 m hm

def APSX (ap : Nat → Str → Nat → XSt → Option (Str × Bool × Nat × XSt)) : Prop :=
  ∀ pi d si x d' m si' x', ap pi d si x = some (d', m, si', x') → SOk d = true → StashS x.st.stash →
    SOk d' = true ∧ StashS x'.st.stash

theorem applyPatternX_S {xc : XCfg} (hesc : EscTwo xc.cfg.esc) (hrefs : RefsS xc.cfg) {hi : HIX} (hhi : HISX hi) :
    APSX (applyPatternX xc hi) := by
  intro pi data si x d' m si' x' h hd hs
  unfold applyPatternX at h
  split at h
  · simp only [Option.some.injEq, Prod.mk.injEq] at h
    obtain ⟨e1, _, _, e⟩ := h; subst e; subst e1; exact ⟨hd, hs⟩
  · rename_i k hk
    split at h
    · cases h
    · rename_i x1 hf
      simp only [Option.some.injEq, Prod.mk.injEq] at h
      obtain ⟨e1, _, _, e⟩ := h; subst e; subst e1
      rw [findX_none_stash' hf]; exact ⟨hd, hs⟩
    · rename_i f x1 hf
      obtain ⟨⟨c1, c2⟩, c3⟩ := findX_S hesc hrefs hd hs hf
      have hs1 : StashS x1.st.stash := by rw [c3]; exact hs
      have hsplice : ∀ i, SOk (data.take f.start ++ placeholder i ++ pyDrop data f.stop) = true := fun i =>
        SOk_append (SOk_append (SOk_take hd _ c1) (placeholder_sok i)) (pyDrop_sok hd _)
      split at h
      · simp only [Option.some.injEq, Prod.mk.injEq] at h
        obtain ⟨e1, _, _, e⟩ := h; subst e; subst e1; exact ⟨hd, hs1⟩
      · rename_i s hnode
        rw [hnode] at c2
        replace c2 : SOk s = true := c2
        simp only [stashX, stashNode, Option.some.injEq, Prod.mk.injEq] at h
        obtain ⟨e1, _, _, e⟩ := h; subst e; subst e1
        exact ⟨hsplice _, stashS_push hs1 c2⟩
      · rename_i n hnode
        rw [hnode] at c2
        replace c2 : n.Forall NodeS := c2
        simp only at h
        split at h
        · cases h
        · rename_i n' x2 hr
          simp only [stashX, stashNode, Option.some.injEq, Prod.mk.injEq] at h
          obtain ⟨e1, _, _, e⟩ := h; subst e; subst e1
          have q : n'.Forall NodeS ∧ StashS x2.st.stash := by
            split at hr
            · simp only [Option.some.injEq, Prod.mk.injEq] at hr
              obtain ⟨e1, e2⟩ := hr; subst e1; subst e2
              exact ⟨c2, hs1⟩
            · split at hr
              · cases hr
              · rename_i n1 x3 h1
                split at hr
                · cases hr
                · rename_i kids x4 h2
                  simp only [Option.some.injEq, Prod.mk.injEq] at hr
                  obtain ⟨e1, e2⟩ := hr; subst e1; subst e2
                  rw [Node.forall_iff] at c2
                  obtain ⟨a1, _, a3⟩ := hiNodeX_S hhi h1 (n := { n with children := [] }) c2.1 hs1
                  obtain ⟨b1, b2⟩ := hiNodesX_S hhi _ _ _ _ _ h2 c2.2 a3
                  refine ⟨?_, b2⟩
                  rw [Node.forall_iff]
                  exact ⟨a1, b1⟩
          exact ⟨hsplice _, stashS_push q.2 q.1⟩

theorem hiLoopX_S {count : Nat} {ap : Nat → Str → Nat → XSt → Option (Str × Bool × Nat × XSt)} (hap : APSX ap) :
    ∀ (g : Nat) (data : Str) (pi si : Nat) (x : XSt) (d' : Str) (x' : XSt),
      hiLoopX count ap g data pi si x = some (d', x') → SOk data = true → StashS x.st.stash →
      SOk d' = true ∧ StashS x'.st.stash := by
  intro g
  induction g with
  | zero => intro data pi si x d' x' h; simp [hiLoopX] at h
  | succ g ih =>
    intro data pi si x d' x' h hd hs
    simp only [hiLoopX] at h
    split at h
    · split at h
      · cases h
      · rename_i d m si1 x1 h1
        obtain ⟨a, b⟩ := hap _ _ _ _ _ _ _ _ h1 hd hs
        exact ih _ _ _ _ _ _ h a b
    · simp only [Option.some.injEq, Prod.mk.injEq] at h
      obtain ⟨e1, e⟩ := h; subst e; subst e1; exact ⟨hd, hs⟩

theorem handleInlineX_S {xc : XCfg} (hesc : EscTwo xc.cfg.esc) (hrefs : RefsS xc.cfg) :
    ∀ (f : Nat), HISX (handleInlineX xc f) := by
  intro f
  induction f with
  | zero => intro d p x d' x' h; simp [handleInlineX] at h
  | succ f ih =>
    intro d p x d' x' h hd hs
    simp only [handleInlineX] at h
    exact hiLoopX_S (applyPatternX_S hesc hrefs ih) _ _ _ _ _ _ _ h hd hs

theorem handleInlineTopX_S {xc : XCfg} (hesc : EscTwo xc.cfg.esc) (hrefs : RefsS xc.cfg) {data : Str} {x : XSt}
    {d' : Str} {x' : XSt} (h : handleInlineTopX xc data x = some (d', x')) (hd : SOk data = true)
    (hs : StashS x.st.stash) : SOk d' = true ∧ StashS x'.st.stash :=
  handleInlineX_S hesc hrefs _ _ _ _ _ _ h hd hs

/-! ### `runX` -/

theorem visitChildX_S {xc : XCfg} (hesc : EscTwo xc.cfg.esc) (hrefs : RefsS xc.cfg) {child : Node} {v : VisitX}
    {c : Node} {tr : List Node} {v' : VisitX} (h : visitChildX xc child v = some (c, tr, v'))
    (hc : child.Forall NodeS) (hs : StashS v.x.st.stash) :
    c.Forall NodeS ∧ (∀ t ∈ tr, t.Forall NodeS) ∧ StashS v'.x.st.stash ∧ v'.done = v.done := by
  unfold visitChildX at h
  simp only [] at h
  split at h
  · cases h
  · rename_i c1 lst x1 hr1
    -- the text
    have q1 : StashS x1.st.stash ∧ (∀ t ∈ lst, t.Forall NodeS) ∧ c1.Forall NodeS := by
      split at hr1
      · split at hr1
        · cases hr1
        · rename_i data x2 hh
          obtain ⟨hd2, hs2⟩ := handleInlineTopX_S hesc hrefs hh (forallS_text hc) hs
          split at hr1
          · cases hr1
          · rename_i l c' hp
            simp only [Option.some.injEq, Prod.mk.injEq] at hr1
            obtain ⟨e1, e2, e3⟩ := hr1; subst e1; subst e2; subst e3
            have q := ppTop_S _ hs2 _ _ _ _ _ _ hp hd2 (forallS_clearText hc)
            exact ⟨hs2, q.1, q.2⟩
      · simp only [Option.some.injEq, Prod.mk.injEq] at hr1
        obtain ⟨e1, e2, e3⟩ := hr1; subst e1; subst e2; subst e3
        exact ⟨hs, by simp, hc⟩
    split at h
    · cases h
    · rename_i c2 tr' x2 hr2
      simp only [Option.some.injEq, Prod.mk.injEq] at h
      obtain ⟨e1, e2, e3⟩ := h; subst e1; subst e2; subst e3
      -- the tail
      have q2 : StashS x2.st.stash ∧ (∀ t ∈ tr', t.Forall NodeS) ∧ c2.Forall NodeS := by
        split at hr2
        · split at hr2
          · cases hr2
          · rename_i data x3 hh
            have hs3 : SOk data = true ∧ StashS x3.st.stash := by
              split at hh
              · simp only [Option.some.injEq, Prod.mk.injEq] at hh
                obtain ⟨e0, e⟩ := hh; subst e; subst e0; exact ⟨forallS_tail q1.2.2, q1.1⟩
              · exact handleInlineTopX_S hesc hrefs hh (forallS_tail q1.2.2) q1.1
            split at hr2
            · cases hr2
            · rename_i tr2 dumby hp
              simp only [Option.some.injEq, Prod.mk.injEq] at hr2
              obtain ⟨e1, e2, e3⟩ := hr2; subst e1; subst e2; subst e3
              have q := ppTop_S _ hs3.2 _ _ _ _ _ _ hp hs3.1 (nodeS_mkEl "d")
              refine ⟨hs3.2, q.1, ?_⟩
              split
              · rw [Node.forall_iff] at q1 ⊢
                exact ⟨⟨q1.2.2.1.1, forallS_tail (n := dumby) q.2, q1.2.2.1.2.2⟩, q1.2.2.2⟩
              · exact forallS_clearTail q1.2.2
        · simp only [Option.some.injEq, Prod.mk.injEq] at hr2
          obtain ⟨e1, e2, e3⟩ := hr2; subst e1; subst e2; subst e3
          exact ⟨q1.1, by simp, q1.2.2⟩
      refine ⟨?_, q2.2.1, ?_, ?_⟩
      · refine forallS_setChildren q2.2.2 ?_
        intro y hy
        rcases List.mem_append.1 hy with hy | hy
        · exact q1.2.1 y hy
        · exact forallS_children q2.2.2 y hy
      · split <;> exact q2.1
      · split <;> rfl

theorem visitLoopX_S {xc : XCfg} (hesc : EscTwo xc.cfg.esc) (hrefs : RefsS xc.cfg) :
    ∀ (g : Nat) (todo : List (Node × Option Nat)) (v v' : VisitX), visitLoopX xc g todo v = some v' →
      (∀ y ∈ todo, y.1.Forall NodeS) → (∀ n ∈ v.done, n.Forall NodeS) → StashS v.x.st.stash →
      (∀ n ∈ v'.done, n.Forall NodeS) ∧ StashS v'.x.st.stash := by
  intro g
  induction g with
  | zero => intro todo v v' h; simp [visitLoopX] at h
  | succ g ih =>
    intro todo v v' h htodo hdone hs
    cases todo with
    | nil =>
      simp only [visitLoopX, Option.some.injEq] at h; subst h
      exact ⟨hdone, hs⟩
    | cons y todo =>
      obtain ⟨child, orig⟩ := y
      simp only [visitLoopX] at h
      split at h
      · cases h
      · rename_i c tr v1 hv
        have q := visitChildX_S hesc hrefs hv (htodo (child, orig) List.mem_cons_self) hs
        refine ih _ _ _ h ?_ ?_ q.2.2.1
        · intro y hy
          rcases List.mem_append.1 hy with hy | hy
          · obtain ⟨n, hn, e⟩ := List.mem_map.1 hy
            subst e; exact q.2.1 n hn
          · exact htodo y (List.mem_cons_of_mem _ hy)
        · intro n hn
          rcases List.mem_cons.1 hn with e | hn
          · subst e; exact q.1
          · rw [q.2.2.2] at hn; exact hdone n hn

theorem runLoopX_S {xc : XCfg} (hesc : EscTwo xc.cfg.esc) (hrefs : RefsS xc.cfg) (g2 : Nat) :
    ∀ (g : Nat) (root : Node) (stack : List Path) (x : XSt) (root' : Node) (x' : XSt),
      runLoopX xc g2 g root stack x = some (root', x') → root.Forall NodeS → StashS x.st.stash →
      root'.Forall NodeS := by
  intro g
  induction g with
  | zero => intro root stack x root' x' h; simp [runLoopX] at h
  | succ g ih =>
    intro root stack x root' x' h hd hs
    cases stack with
    | nil =>
      simp only [runLoopX, Option.some.injEq, Prod.mk.injEq] at h
      obtain ⟨e, _⟩ := h; subst e; exact hd
    | cons p stack =>
      simp only [runLoopX] at h
      split at h
      · exact ih _ _ _ _ _ h hd hs
      · rename_i cur hcur
        split at h
        · cases h
        · rename_i v hv
          have hcurS := NoCtl.forall_getAt hd hcur
          have q := visitLoopX_S hesc hrefs g2 _ { x := x } v hv
            (fun y hy => forallS_children hcurS y.1 (Vocab2.withIdx_fst _ _ _ hy))
            (by intro n hn; cases hn) hs
          refine ih _ _ _ _ _ h ?_ q.2
          refine NoCtl.forall_setAt nodeS_children_irrel hd ?_ hcur
          exact forallS_setChildren hcurS (fun n hn => q.1 n (List.mem_reverse.1 hn))

/-- **the inline stage over a pattern table keeps the G.STX invariant** in every text, tail and attribute value — for
    every table (core entries, footnote, wikilink, nl in any order), every set of footnote keys, every initial HTML
    stash -/
theorem runX_S {xc : XCfg} (hesc : EscTwo xc.cfg.esc) (hrefs : RefsS xc.cfg) {root : Node} {html : List Str}
    {t : Node} {x : XSt} (h : runX xc root html = some (t, x)) (hd : root.Forall NodeS) : t.Forall NodeS := by
  unfold runX at h
  exact runLoopX_S hesc hrefs _ _ _ _ _ _ _ h hd stashS_nil

end MdVerif.VocabXAmp
