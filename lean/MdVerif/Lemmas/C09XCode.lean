/-
Helper lemmas for `Props/C09XCode.lean`, part 3: blank lines behind a document that ENDS IN A CODE BLOCK, on the
extension pipeline `PipelineX.convertX x` for every flag set.

`Lemmas/C09XFence.lean` (`prepareX_trailing`) and `Lemmas/C09XTrail.lean` (`parseDocumentXT_trailing`) reduce the
question to two roots `fills p1 E0`, `fills p1 E1` of the same run `p1` of the extended block loop followed by empty
blocks only; when the last child of `p1` is a code block the two roots differ in the text of that code block, by line
feeds (`fills_cpre`).  `Lemmas/C09XCodeTop.lean`: that last child is `pre[code(atomic text)]`;
`Lemmas/C09XCodeRun.lean`: the footnote tree processor, the inline processor over the extended pattern table and the
footnote post-processor treat the two roots alike, and `prettify` maps them to the same tree.  Here: the stages
behind the block parser as a function of the root (`afterParse`), the composition (`convertX_trailing`).
Core Lean only.
-/
import MdVerif.Lemmas.C09XFence
import MdVerif.Lemmas.C09XCodeTop
import MdVerif.Lemmas.C09XCodeRun
import MdVerif.Lemmas.C02BigShAll

namespace MdVerif.C09XCode
open Py BlockExt BlockExt.Fuel NormDoc C09X PipelineX InlineLocal
open Block hiding nn
set_option linter.unusedSimpArgs false
set_option linter.unusedVariables false

/-! ### the run in front of the trailing empty blocks -/

/-- `parseDocumentXT_trailing` of `Lemmas/C09XTrail.lean` with the run that gives `p1` -/
theorem parseDocumentXT_trailing_run (tables : Bool) (cfg : XCfg) (tab : Nat) (htab : cfg.admonition = true → 0 < tab)
    (O : Str) (j : Nat) :
    ∃ p1 r1 E0 E1, Emptyish E0 ∧ Emptyish E1 ∧
      (∃ bs, RunX tables cfg tab [] [] (Node.el "div") bs (p1, r1)) ∧
      parseDocumentXT tables cfg tab (O ++ nn) = some (fills p1 E0, r1) ∧
      parseDocumentXT tables cfg tab (O ++ nn ++ List.replicate j '\n') = some (fills p1 E1, r1) := by
  obtain ⟨w, hw, hwa⟩ := rstripP_decomp (· = '\n') O
  have hV : (rstripC '\n' O).getLast? ≠ some '\n' := by
    intro h
    have := rstripP_getLast (p := (· = '\n')) (s := O) h
    simp at this
  have hw' : w = List.replicate w.length '\n' := by
    apply List.eq_replicate_iff.2
    refine ⟨rfl, fun c hc => ?_⟩
    have := List.all_eq_true.1 hwa c hc
    simpa using this
  generalize hVdef : rstripP (· = '\n') O = V at hw hV
  have hV' : V.getLast? ≠ some '\n' := by rw [← hVdef]; exact hV
  have e0 : O ++ nn = V ++ nn ++ List.replicate w.length '\n' := by
    rw [hw, hw', List.length_replicate]
    have := replicate_nl_append_comm w.length 0
    simp only [List.replicate_zero, List.append_nil, Nat.add_zero] at this
    rw [List.append_assoc, this, List.append_assoc]
  have e1 : O ++ nn ++ List.replicate j '\n' = V ++ nn ++ List.replicate (w.length + j) '\n' := by
    rw [hw, hw', List.length_replicate]
    have := replicate_nl_append_comm w.length j
    rw [List.append_assoc, List.append_assoc, ← List.append_assoc (List.replicate _ _), this, List.append_assoc]
  have ht := parseDocumentXT_total tables cfg tab htab (O ++ nn)
  cases hp : parseDocumentXT tables cfg tab (O ++ nn) with
  | none => rw [hp] at ht; cases ht
  | some res =>
    have hr := (parseDocumentXT_eq_iff tables cfg tab htab _ res).1 hp
    rw [e0] at hr
    change RunX tables cfg tab [] [] (Node.el "div") (blocks _) res at hr
    have hE0 : Emptyish (blocks (List.replicate w.length '\n')) := blocks_replicate_nl w.length
    have hE1 : Emptyish (blocks (List.replicate (w.length + j) '\n')) := blocks_replicate_nl (w.length + j)
    rw [blocks_append_nn V hV', RunX.append_iff hE0] at hr
    obtain ⟨p1, r1, h1, h2⟩ := hr
    rw [RunX.emptyish_iff htab hE0] at h2
    refine ⟨p1, r1, _, _, hE0, hE1, ⟨_, h1⟩, by rw [h2], ?_⟩
    rw [parseDocumentXT_eq_iff tables cfg tab htab, e1]
    change RunX tables cfg tab [] [] (Node.el "div") (blocks _) _
    rw [blocks_append_nn V hV', RunX.append_iff hE1]
    exact ⟨p1, r1, h1, (RunX.emptyish_iff htab hE1).2 rfl⟩

/-! ### the stages behind the block parser -/

/-- the configuration of the inline stage -/
def xcOf (x : Exts) (cfg : Pipeline.Cfg) (log : Block.Refs) : InlineX.XCfg :=
  { cfg := { esc := escX x cfg, refs := (refsX x log).reverse }
    table := InlineX.table x.footnotes x.wikilinks x.nl2br
    fnKeys := (BlockExt.footnotesOf log).map (·.1) }

/-- `PipelineX.treeX` behind the footnote tree processor: inline, footnote-duplicate, prettify, attr_list, abbr,
    toc, unescape -/
def afterFn (x : Exts) (cfg : Pipeline.Cfg) (stash : List Str) (root : Node) (log : Block.Refs) : TreeResult :=
  match InlineX.runX (xcOf x cfg log) root stash with
  | none => .oof
  | some (t, xs) =>
    match (if x.footnotes then FootnotesTree.duplicates xs.fn t else some t) with
    | none => .err
    | some t =>
      let t := TreeProc.prettify t cfg.blockLevel
      let t := if x.attrList then AttrListTree.run cfg.blockLevel t else t
      let t := if x.abbr then AbbrTree.run (BlockExt.abbrsOf log) t else t
      let tocStage : TocTree.R Node :=
        if x.toc then
          TocTree.run { fmt := cfg.fmt, post := postX x cfg xs.st.html } cfg.blockLevel t
        else .ok t
      match tocStage with
      | .oof => .oof
      | .err => .err
      | .ood => .ood
      | .ok t =>
        match TreeProc.unescapeTree t with
        | none => .err
        | some u => .ok u xs.st.html

/-- `PipelineX.treeX` behind the block parser, as a function of the root, the log and the HTML stash -/
def afterParse (x : Exts) (cfg : Pipeline.Cfg) (stash : List Str) (root : Node) (log : Block.Refs) : TreeResult :=
  let fnStage : FootnotesTree.R (Node × Block.Refs) :=
    if x.footnotes then
      match FootnotesTree.makeDiv (parseChunkX x cfg) fnCount (BlockExt.footnotesOf log) log with
      | .ok (some div, log') => .ok (FootnotesTree.placeDiv root div, log')
      | .ok (none, log') => .ok (root, log')
      | .oof => .oof
      | .ood => .ood
    else .ok (root, log)
  match fnStage with
  | .oof => .oof
  | .ood => .ood
  | .ok (root, log) => afterFn x cfg stash root log

theorem treeX_eq_afterParse (x : Exts) (cfg : Pipeline.Cfg) (src : Str) :
    treeX x cfg src =
      match prepareX x cfg src with
      | .oof => .oof
      | .ood => .ood
      | .ok (text, stash) =>
        match BlockExt.parseDocumentXT x.tables x.blockCfg cfg.tab text with
        | none => .oof
        | some (root, log) => afterParse x cfg stash root log := rfl

/-! ### the two roots give the same answer -/

/-- the stages behind the footnote tree processor on related roots (`div`s without attributes) -/
theorem afterFn_rel (x : Exts) (cfg : Pipeline.Cfg) (stash : List Str) (hdr : Node)
    (hdiv : hdr.tag = .name "div".toList) (hattrs : hdr.attrs = []) (log : Block.Refs) {t t' : Str}
    (hlen : t.length ≤ t'.length) (hr : rstrip t = rstrip t') {K K' : List Node} (hK : All₂ (Rel t t') K K')
    (h : afterFn x cfg stash (mk hdr K) log = .oof → False) :
    afterFn x cfg stash (mk hdr K') log = afterFn x cfg stash (mk hdr K) log := by
  unfold afterFn at h ⊢
  simp only at h ⊢
  generalize xcOf x cfg log = xc at h ⊢
  cases hrun : InlineX.runX xc (mk hdr K) stash with
  | none => rw [hrun] at h; exact (h rfl).elim
  | some rs =>
    obtain ⟨r, s⟩ := rs
    obtain ⟨R, R', rfl, hR, hrun'⟩ := runX_rel xc hdr t t' hlen K K' hK stash r s hrun
    rw [hrun']
    simp only
    cases hf : x.footnotes
    · simp only [Bool.false_eq_true, if_false]
      rw [prettify_rel cfg.blockLevel hdr hdiv hr.symm (all₂_symm hR)]
    · simp only [if_true]
      rcases duplicates_rel s.fn hdr hattrs hR with ⟨e1, e2⟩ | ⟨R2, R2', e1, e2, hR2⟩
      · rw [e1, e2]
      · rw [e1, e2]
        simp only
        rw [prettify_rel cfg.blockLevel hdr hdiv hr.symm (all₂_symm hR2)]

/-- … and behind the block parser -/
theorem afterParse_rel (x : Exts) (cfg : Pipeline.Cfg) (stash : List Str) (hdr : Node)
    (hdiv : hdr.tag = .name "div".toList) (hattrs : hdr.attrs = []) (log : Block.Refs) {t t' : Str}
    (hlen : t.length ≤ t'.length) (hr : rstrip t = rstrip t')
    (hM : FootnotesTree.hasMarker (some t) = FootnotesTree.hasMarker (some t')) {K K' : List Node}
    (hK : All₂ (Rel t t') K K') (h : afterParse x cfg stash (mk hdr K) log = .oof → False) :
    afterParse x cfg stash (mk hdr K') log = afterParse x cfg stash (mk hdr K) log := by
  unfold afterParse at h ⊢
  simp only at h ⊢
  cases hf : x.footnotes
  · simp only [hf, Bool.false_eq_true, if_false] at h ⊢
    exact afterFn_rel x cfg stash hdr hdiv hattrs log hlen hr hK h
  · simp only [hf, if_true] at h ⊢
    cases hmk : FootnotesTree.makeDiv (parseChunkX x cfg) fnCount (BlockExt.footnotesOf log) log with
    | oof => rfl
    | ood => rfl
    | ok dl =>
      obtain ⟨d, log'⟩ := dl
      rw [hmk] at h
      cases d with
      | none =>
        simp only at h ⊢
        exact afterFn_rel x cfg stash hdr hdiv hattrs log' hlen hr hK h
      | some div =>
        simp only at h ⊢
        obtain ⟨R, R', e1, e2, hR⟩ := placeDiv_rel div hdr hM hK
        rw [e1] at h
        rw [e1, e2]
        exact afterFn_rel x cfg stash hdr hdiv hattrs log' hlen hr hR h

/-! ### line feeds behind a text do not make or break an occurrence of the footnote place marker -/

theorem contains_append_nl (a pat0 : Str) (d : Char) (hd : d ≠ '\n') : ∀ (n : Nat) (w : Str), w.length = n →
    (∀ c ∈ w, c = '\n') → contains (a ++ w) (pat0 ++ [d]) = contains a (pat0 ++ [d]) := by
  intro n
  induction n with
  | zero =>
    intro w hw _
    have : w = [] := List.length_eq_zero_iff.1 hw
    subst this; simp
  | succ n ih =>
    intro w hw hall
    rcases List.eq_nil_or_concat w with rfl | ⟨w', c, rfl⟩
    · simp at hw
    · rw [List.concat_eq_append] at hw hall ⊢
      have hw' : w'.length = n := by simpa using hw
      have hc : c = '\n' := hall c (by simp)
      have hall' : ∀ c ∈ w', c = '\n' := fun c hc => hall c (by simp [hc])
      rw [← ih w' hw' hall']
      apply Bool.eq_iff_iff.2
      rw [contains_iff, contains_iff]
      constructor
      · rintro ⟨pre, post, e⟩
        rcases List.eq_nil_or_concat post with rfl | ⟨post', c', rfl⟩
        · -- the pattern would end at the last line feed
          exfalso
          have := congrArg List.getLast? e
          simp at this
          exact hd (this.symm.trans hc)
        · rw [List.concat_eq_append] at e
          refine ⟨pre, post', ?_⟩
          have e' : (a ++ w') ++ [c] = (pre ++ (pat0 ++ [d]) ++ post') ++ [c'] := by
            simpa [List.append_assoc] using e
          exact (List.append_inj' e' rfl).1
      · rintro ⟨pre, post, e⟩
        exact ⟨pre, post ++ [c], by rw [← List.append_assoc, e]; simp [List.append_assoc]⟩

theorem fillText_nl (E : List Str) : ∀ c ∈ fillText E, c = '\n' := by
  induction E with
  | nil => intro c hc; simp [fillText] at hc
  | cons b E ih =>
    intro c hc
    simp only [fillText, List.map_cons, List.flatten_cons, List.mem_append] at hc ih
    rcases hc with hc | hc
    · unfold filler at hc
      split at hc <;> simp [nn] at hc <;> exact hc
    · exact ih c hc

open FootnotesTree in
theorem hasMarker_fill (t0 : Str) (E0 E1 : List Str) :
    hasMarker (some (t0 ++ fillText E0)) = hasMarker (some (t0 ++ fillText E1)) := by
  have hpm : placeMarker = "///Footnotes Go Here//".toList ++ ['/'] := by decide
  have key : ∀ s : Str, hasMarker (some s) = contains s placeMarker := by
    intro s
    unfold hasMarker
    cases hc : contains s placeMarker with
    | false => simp [hc]
    | true =>
      have : s ≠ [] := by
        rintro rfl
        rw [contains_iff] at hc
        obtain ⟨pre, post, e⟩ := hc
        rw [hpm] at e
        simp at e
      cases s with
      | nil => exact absurd rfl this
      | cons a b => simp [Node.truthy, hc]
  rw [key, key, hpm, contains_append_nl t0 _ '/' (by decide) _ _ rfl (fillText_nl E0),
    contains_append_nl t0 _ '/' (by decide) _ _ rfl (fillText_nl E1)]

/-! ### the conversion -/

/-- **blank lines behind any document, every extension**: the same conversion, unless one of the two runs out of the
    model's fuel -/
theorem convertX_trailing (x : Exts) (cfg : Pipeline.Cfg) (htab : x.admonition = true → 0 < cfg.tab) (s : Str) (m : Nat)
    (h0 : convertX x cfg s ≠ .oof) (h1 : convertX x cfg (s ++ List.replicate m '\n') ≠ .oof) :
    convertX x cfg (s ++ List.replicate m '\n') = convertX x cfg s := by
  rcases prepareX_trailing x cfg s m with ⟨O, j, stash, hp0, hp1⟩ | ⟨_, h2⟩
  · obtain ⟨p1, r1, E0, E1, _, _, ⟨bs, f, hrun⟩, hd0, hd1⟩ :=
      parseDocumentXT_trailing_run x.tables x.blockCfg cfg.tab htab O j
    -- the two trees
    have key : (afterParse x cfg stash (fills p1 E0) r1 = .oof → False) →
        (afterParse x cfg stash (fills p1 E1) r1 = .oof → False) →
        afterParse x cfg stash (fills p1 E1) r1 = afterParse x cfg stash (fills p1 E0) r1 := by
      by_cases hn : noCodeLast p1
      · intro _ _; rw [fills_of_noCode hn, fills_of_noCode hn]
      · obtain ⟨hs, htag⟩ := parseBlocksXT_topShape hrun (by decide) (by decide)
          (by intro c hc; simp [Node.el] at hc)
        have hattrs : p1.attrs = [] :=
          (C02BigSh.parseBlocksXT_PBSh x.tables x.blockCfg cfg.tab f _ _ _ _ _ _ hrun (by decide)).2
        obtain ⟨sib, hl, hp⟩ : ∃ sib, p1.last? = some sib ∧ preCode sib ≠ none := by
          unfold noCodeLast at hn
          cases hl : p1.last? with
          | none => exact absurd (fun sib h => by rw [hl] at h; cases h) hn
          | some sib =>
            refine ⟨sib, rfl, fun hp => hn (fun sib' h => ?_)⟩
            rw [hl] at h; injection h with h; subst h; exact hp
        obtain ⟨code, hcode⟩ : ∃ code, preCode sib = some code := by
          cases hc : preCode sib with
          | none => exact absurd hc hp
          | some code => exact ⟨code, rfl⟩
        obtain ⟨t0, rfl, _, _⟩ := setCodeText_shape hs hl hcode []
        rw [fills_cpre E0 hl, fills_cpre E1 hl, setLast_eq_mk, setLast_eq_mk]
        have hr : rstrip (t0 ++ fillText E0) = rstrip (t0 ++ fillText E1) := by
          unfold rstrip
          rw [rstripP_append_of_all (fillText_blank E0), rstripP_append_of_all (fillText_blank E1)]
        have hM := hasMarker_fill t0 E0 E1
        have hK : All₂ (Rel (t0 ++ fillText E0) (t0 ++ fillText E1)) (p1.children.dropLast ++ [cpre (t0 ++ fillText E0)])
            (p1.children.dropLast ++ [cpre (t0 ++ fillText E1)]) :=
          (all₂_refl _ _ _).append (.cons (Or.inr ⟨rfl, rfl⟩) .nil)
        intro g0 g1
        rcases Nat.le_total (t0 ++ fillText E0).length (t0 ++ fillText E1).length with hle | hle
        · exact afterParse_rel x cfg stash p1 htag hattrs r1 hle hr hM hK g0
        · exact (afterParse_rel x cfg stash p1 htag hattrs r1 hle hr.symm hM.symm (all₂_symm hK) g1).symm
    unfold convertX at h0 h1 ⊢
    simp only [trailing_contains, trailing_isBlankDoc, treeX_eq_afterParse, hp0, hp1, hd0, hd1] at h0 h1 ⊢
    split
    · rfl
    · split
      · rfl
      · split
        · rfl
        · rename_i hc hu hb
          simp only [hc, hu, hb, Bool.false_eq_true, if_false] at h0 h1
          have g0 : afterParse x cfg stash (fills p1 E0) r1 = .oof → False := fun e => h0 (by rw [e])
          have g1 : afterParse x cfg stash (fills p1 E1) r1 = .oof → False := fun e => h1 (by rw [e])
          rw [key g0 g1]
  · simp only [convertX, trailing_contains, trailing_isBlankDoc]
    unfold treeX
    rw [h2]

end MdVerif.C09XCode
