/-
Helper lemmas for `Props/C16RenderG.lean`, part 19: definition lists with several groups and loose definitions —
the inline stage (nothing to do), prettify, unescape, the serializer, and `convertX` end to end.

Core Lean only.
-/
import MdVerif.Lemmas.RenderGDef3

namespace MdVerif.RenderG
open Py Block BlockExt MdVerif.RenderX

/-! ### facts about the tags -/

theorem bl_dt : TreeProc.isBlockLevel TreeProc.defaultBlockLevel (.name "dt".toList) = true := by decide
theorem bl_dd : TreeProc.isBlockLevel TreeProc.defaultBlockLevel (.name "dd".toList) = true := by decide
theorem bl_dl : TreeProc.isBlockLevel TreeProc.defaultBlockLevel (.name "dl".toList) = true := by decide
theorem tn_dt : Tag.name "dt".toList ≠ Tag.name ['c', 'o', 'd', 'e'] ∧ Tag.name "dt".toList ≠ Tag.name ['p', 'r', 'e'] :=
  tag_ne "dt" (by decide) (by decide)
theorem tn_dd : Tag.name "dd".toList ≠ Tag.name ['c', 'o', 'd', 'e'] ∧ Tag.name "dd".toList ≠ Tag.name ['p', 'r', 'e'] :=
  tag_ne "dd" (by decide) (by decide)
theorem tn_dl : Tag.name "dl".toList ≠ Tag.name ['c', 'o', 'd', 'e'] ∧ Tag.name "dl".toList ≠ Tag.name ['p', 'r', 'e'] :=
  tag_ne "dl" (by decide) (by decide)
theorem et_dt : Ser.isEmptyTag "dt".toList = false ∧ Ser.isRawTextTag "dt".toList = false := by decide +kernel
theorem et_dd : Ser.isEmptyTag "dd".toList = false ∧ Ser.isRawTextTag "dd".toList = false := by decide +kernel
theorem et_dl : Ser.isEmptyTag "dl".toList = false ∧ Ser.isRawTextTag "dl".toList = false := by decide +kernel

/-- `_prettifyETree` on a block-level element with the empty text and no tail whose first child is block-level -/
theorem prettify_setE (tag : Tag) (attrs : List (Str × Str)) (ta : Bool)
    (children : List Node) (tla : Bool) (hb : TreeProc.isBlockLevel TreeProc.defaultBlockLevel tag = true)
    (hc : tag ≠ Tag.name ['c', 'o', 'd', 'e']) (hp : tag ≠ Tag.name ['p', 'r', 'e'])
    (hyes : firstBlock children = true) :
    TreeProc.prettifyETree TreeProc.defaultBlockLevel ⟨tag, attrs, some [], ta, children, none, tla⟩ =
      ⟨tag, attrs, some ['\n'], false, TreeProc.prettifyKids TreeProc.defaultBlockLevel children, some ['\n'], false⟩ := by
  cases children with
  | nil => simp [firstBlock] at hyes
  | cons c r =>
    have h' : TreeProc.isBlockLevel TreeProc.defaultBlockLevel c.tag = true := by simpa [firstBlock] using hyes
    simp [TreeProc.prettifyETree, hb, hc, hp, h', TreeProc.blankOrNone, Node.truthy]

/-! ### the items through the stages -/

theorem pText_quiet (t : Str) (h : ∃ p : Para, ParaOK p ∧ t = pText p) : quietStr false t = true := by
  obtain ⟨p, hp, rfl⟩ := h
  exact quietStr_lines p.1 p.2 hp

theorem quietKids_pmap (ts : List Str) (h : ∀ t ∈ ts, quietStr false t = true) :
    quietKids false (ts.map (mkText "p")) = true := by
  induction ts with
  | nil => rfl
  | cons t r ih =>
    simp only [List.map_cons, quietKids, Bool.and_eq_true]
    exact ⟨by simp [mkText, Node.el, quietTree, quietKids, Node.truthy, h t List.mem_cons_self],
      ih (fun x hx => h x (List.mem_cons_of_mem _ hx))⟩

theorem quiet_item (it : DItem) (h : it.ok) : quietTree false it.node = true := by
  cases it with
  | txt tag t =>
    have hq := quietStr_chars false t h.2.chars
    simp [DItem.node, mkText, Node.el, quietTree, quietKids, Node.truthy, hq]
  | loose z ts =>
    have hk : quietKids false ((z :: ts).map (mkText "p")) = true :=
      quietKids_pmap _ (by
        intro t ht
        rcases List.mem_cons.1 ht with rfl | ht
        · exact quietStr_chars false _ h.1.chars
        · exact pText_quiet t (h.2 t ht))
    have h0 : quietStr false [] = true := by decide
    simp only [List.map_cons] at hk
    simp [DItem.node, looseDd, Node.el, quietTree, Node.truthy, h0, hk]

theorem quietKids_items (items : List DItem) (h : ∀ it ∈ items, it.ok) : quietKids false (items.map DItem.node) = true := by
  induction items with
  | nil => rfl
  | cons it r ih =>
    simp only [List.map_cons, quietKids, Bool.and_eq_true]
    exact ⟨quiet_item it (h it List.mem_cons_self), ih (fun x hx => h x (List.mem_cons_of_mem _ hx))⟩

theorem item_block (it : DItem) (h : it.ok) : TreeProc.isBlockLevel TreeProc.defaultBlockLevel it.node.tag = true := by
  cases it with
  | txt tag t =>
    rcases h.1 with rfl | rfl
    · exact bl_dt
    · exact bl_dd
  | loose z ts => exact bl_dd

theorem prettify_item (it : DItem) (h : it.ok) :
    TreeProc.prettifyETree TreeProc.defaultBlockLevel it.node = it.fin := by
  cases it with
  | txt tag t =>
    rcases h.1 with rfl | rfl
    · have := prettify_keep (.name "dt".toList) [] (some t) false [] false bl_dt tn_dt.1 tn_dt.2 rfl
      simp only [TreeProc.prettifyKids] at this
      exact this
    · have := prettify_keep (.name "dd".toList) [] (some t) false [] false bl_dd tn_dd.1 tn_dd.2 rfl
      simp only [TreeProc.prettifyKids] at this
      exact this
  | loose z ts =>
    have := prettify_setE (.name "dd".toList) [] false ((z :: ts).map (mkText "p")) false bl_dd tn_dd.1 tn_dd.2
      (by simp only [firstBlock, List.map_cons, List.head?_cons, Option.map_some, Option.getD_some]; exact bl_pS)
    rw [prettifyKids_ps] at this
    exact this

theorem prettifyKids_items (items : List DItem) (h : ∀ it ∈ items, it.ok) :
    TreeProc.prettifyKids TreeProc.defaultBlockLevel (items.map DItem.node) = items.map DItem.fin := by
  induction items with
  | nil => rfl
  | cons it r ih =>
    simp only [List.map_cons, TreeProc.prettifyKids, item_block it (h it List.mem_cons_self), if_true,
      prettify_item it (h it List.mem_cons_self), ih (fun x hx => h x (List.mem_cons_of_mem _ hx))]

theorem noBP_item (it : DItem) (h : it.ok) : noBP it.fin = true := by
  cases it with
  | txt tag t =>
    rcases h.1 with rfl | rfl <;> (simp only [DItem.fin, txtFin, noBP, noBPKids]; decide)
  | loose z ts =>
    simp only [DItem.fin, noBP, noBP_ps, Bool.and_true]; decide

theorem noBPKids_items (items : List DItem) (h : ∀ it ∈ items, it.ok) : noBPKids (items.map DItem.fin) = true := by
  induction items with
  | nil => rfl
  | cons it r ih =>
    simp only [List.map_cons, noBPKids, noBP_item it (h it List.mem_cons_self),
      ih (fun x hx => h x (List.mem_cons_of_mem _ hx)), Bool.and_self]

theorem plain_facts3 (t : Str) (h : PlainFacts t) :
    TreeProc.STX ∉ t ∧ Ser.escCdata t = t ∧ Post.STX ∉ t :=
  ⟨h.noStx, CodeLaw.escCdata_plain _ h.noMarkup, h.noStx⟩

theorem loose_texts_facts (z : Str) (ts : List Str) (h : (DItem.loose z ts).ok) :
    ∀ t ∈ z :: ts, TreeProc.STX ∉ t ∧ Ser.escCdata t = t ∧ Post.STX ∉ t := by
  intro t ht
  rcases List.mem_cons.1 ht with rfl | ht
  · exact plain_facts3 _ h.1
  · obtain ⟨p, hp, rfl⟩ := h.2 t ht
    exact pText_facts p hp

theorem unescape_item (it : DItem) (h : it.ok) : TreeProc.unescapeTree it.fin = some it.fin := by
  have t3 : TreeProc.unescapeText 0 ['\n'] = some ['\n'] := by decide
  cases it with
  | txt tag t =>
    exact unescape_el _ _ _ _ _ rfl rfl (fun s hs => by cases hs; exact CodeLaw.unescapeText_id _ h.2.noStx)
      (fun s hs => by cases hs; exact t3)
  | loose z ts =>
    exact unescape_el _ _ _ _ _ rfl (unescapeKids_ps _ (fun t ht => (loose_texts_facts z ts h t ht).1))
      (fun s hs => by cases hs; exact t3) (fun s hs => by cases hs; exact t3)

theorem unescapeKids_items (items : List DItem) (h : ∀ it ∈ items, it.ok) :
    TreeProc.unescapeKids (items.map DItem.fin) = some (items.map DItem.fin) :=
  unescapeKids_all _ (by
    intro c hc
    obtain ⟨it, hit, rfl⟩ := List.mem_map.1 hc
    exact unescape_item it (h it hit))

theorem serialize_item (fmt : Ser.Fmt) (it : DItem) (h : it.ok) : Ser.serialize fmt it.fin = it.html := by
  cases it with
  | txt tag t =>
    have ht : Ser.escCdata t = t := (plain_facts3 t h.2).2.1
    rcases h.1 with rfl | rfl
    · simp only [DItem.fin, txtFin, DItem.html, txtOut]
      rw [CodeLaw.serialize_plain fmt _ _ _ _ _ _ et_dt.1 et_dt.2, ifText_some t ht, ifText_some _ ec_nl]
      simp only [Ser.serializeList, String.reduceToList]
      simp only [List.cons_append, List.append_assoc, List.nil_append, List.append_nil]
    · simp only [DItem.fin, txtFin, DItem.html, txtOut]
      rw [CodeLaw.serialize_plain fmt _ _ _ _ _ _ et_dd.1 et_dd.2, ifText_some t ht, ifText_some _ ec_nl]
      simp only [Ser.serializeList, String.reduceToList]
      simp only [List.cons_append, List.append_assoc, List.nil_append, List.append_nil]
  | loose z ts =>
    simp only [DItem.fin, DItem.html]
    rw [CodeLaw.serialize_plain fmt _ _ _ _ _ _ et_dd.1 et_dd.2, ifText_some _ ec_nl,
      serializeList_ps fmt _ (fun t ht => (loose_texts_facts z ts h t ht).2.1)]
    unfold lDD1 lDD2
    generalize psHtml (z :: ts) = P
    simp only [String.reduceToList]
    simp only [List.cons_append, List.append_assoc, List.nil_append, List.append_nil]

/-- the HTML of the items -/
def itemsHtml : List DItem → Str
  | [] => []
  | it :: r => it.html ++ itemsHtml r

theorem serializeList_items (fmt : Ser.Fmt) (items : List DItem) (h : ∀ it ∈ items, it.ok) :
    Ser.serializeList fmt (items.map DItem.fin) = itemsHtml items := by
  induction items with
  | nil => rfl
  | cons it r ih =>
    simp only [List.map_cons, Ser.serializeList, serialize_item fmt it (h it List.mem_cons_self),
      ih (fun x hx => h x (List.mem_cons_of_mem _ hx)), itemsHtml]

/-! ### the document -/

def lDL1 : Str := "<dl>\n".toList
def lDL2 : Str := "</dl>".toList

/-- the rendering -/
def defOutG (items : List DItem) : Str := lDL1 ++ itemsHtml items ++ lDL2

def dlRootFin (items : List DItem) : Node :=
  ⟨.name "div".toList, [], some ['\n'], false,
    [⟨.name "dl".toList, [], some ['\n'], false, items.map DItem.fin, some ['\n'], false⟩], some ['\n'], false⟩

theorem prettify_dlG (it0 : DItem) (r : List DItem) (h : ∀ it ∈ it0 :: r, it.ok) :
    TreeProc.prettify (rootOf [dlOf ((it0 :: r).map DItem.node)]) = dlRootFin (it0 :: r) := by
  have hD := prettify_set (.name "dl".toList) [] false ((it0 :: r).map DItem.node) false bl_dl tn_dl.1 tn_dl.2
    (by simp only [firstBlock, List.map_cons, List.head?_cons, Option.map_some, Option.getD_some]
        exact item_block it0 (h it0 List.mem_cons_self))
  rw [prettifyKids_items _ h] at hD
  have hR := prettify_set (.name "div".toList) [] false [dlOf ((it0 :: r).map DItem.node)] false bl_divS tn_div.1 tn_div.2
    (by simp only [firstBlock, List.head?_cons, Option.map_some, Option.getD_some]; exact bl_dl)
  have hk := prettifyKids_one (.name "dl".toList) [] none false ((it0 :: r).map DItem.node) none false _ bl_dl hD
  rw [show dlOf ((it0 :: r).map DItem.node) = ⟨.name "dl".toList, [], none, false, (it0 :: r).map DItem.node, none, false⟩
    from rfl, hk] at hR
  have hE : TreeProc.prettifyETree TreeProc.defaultBlockLevel (rootOf [dlOf ((it0 :: r).map DItem.node)]) =
      dlRootFin (it0 :: r) := hR
  have hnb : noBP (dlRootFin (it0 :: r)) = true := by
    simp only [dlRootFin, noBP, noBPKids, noBPKids_items _ h, Bool.and_true]; decide
  have h1 := mapTree_noBP TreeProc.brRule brRule_fix _ hnb
  have h2 := mapTree_noBP TreeProc.preRule preRule_fix _ hnb
  unfold TreeProc.prettify
  rw [hE, h1, h2]

theorem unescapeTree_dlG (items : List DItem) (h : ∀ it ∈ items, it.ok) :
    TreeProc.unescapeTree (dlRootFin items) = some (dlRootFin items) := by
  have t3 : TreeProc.unescapeText 0 ['\n'] = some ['\n'] := by decide
  have hD : TreeProc.unescapeTree (⟨.name "dl".toList, [], some ['\n'], false, items.map DItem.fin, some ['\n'], false⟩ : Node) =
      some ⟨.name "dl".toList, [], some ['\n'], false, items.map DItem.fin, some ['\n'], false⟩ :=
    unescape_el _ _ _ _ _ rfl (unescapeKids_items items h) (fun s hs => by cases hs; exact t3)
      (fun s hs => by cases hs; exact t3)
  exact unescape_el _ _ _ _ _ rfl (by simp only [TreeProc.unescapeKids, hD]) (fun s hs => by cases hs; exact t3)
    (fun s hs => by cases hs; exact t3)

theorem serialize_dlG (fmt : Ser.Fmt) (items : List DItem) (h : ∀ it ∈ items, it.ok) :
    Ser.serialize fmt (dlRootFin items) = "<div>".toList ++ ('\n' :: defOutG items ++ ['\n']) ++ "</div>\n".toList := by
  unfold dlRootFin
  rw [CodeLaw.serialize_plain fmt _ _ _ _ _ _ et_div.1 et_div.2, ifText_some _ ec_nl]
  simp only [Ser.serializeList]
  rw [CodeLaw.serialize_plain fmt _ _ _ _ _ _ et_dl.1 et_dl.2, ifText_some _ ec_nl, serializeList_items fmt items h]
  unfold defOutG lDL1 lDL2
  generalize itemsHtml items = H
  simp only [String.reduceToList]
  simp only [List.cons_append, List.append_assoc, List.nil_append, List.append_nil]

theorem stx_itemsHtml (items : List DItem) (h : ∀ it ∈ items, it.ok) : Post.STX ∉ itemsHtml items := by
  have s1 : Post.STX ∉ lDD1 := by decide +kernel
  have s2 : Post.STX ∉ lDD2 := by decide +kernel
  induction items with
  | nil => simp [itemsHtml]
  | cons it r ih =>
    unfold itemsHtml
    refine stx_app ?_ (ih (fun x hx => h x (List.mem_cons_of_mem _ hx)))
    have hit := h it List.mem_cons_self
    cases it with
    | txt tag t =>
      have ht := (plain_facts3 t hit.2).2.2
      have e : ∀ tg : String, txtOut tg [t] = ('<' :: tg.toList ++ ['>']) ++ t ++ ('<' :: '/' :: tg.toList ++ ['>', '\n']) := by
        intro tg; simp [txtOut]
      rcases hit.1 with rfl | rfl
      · simp only [DItem.html, e]
        exact stx_app (stx_app (by decide +kernel) ht) (by decide +kernel)
      · simp only [DItem.html, e]
        exact stx_app (stx_app (by decide +kernel) ht) (by decide +kernel)
    | loose z ts =>
      simp only [DItem.html]
      exact stx_app (stx_app s1 (stx_psHtml _ (fun t ht => (loose_texts_facts z ts hit t ht).2.2))) s2

theorem defOutG_ends (items : List DItem) :
    (defOutG items).head? = some '<' ∧ (defOutG items).getLast? = some '>' := by
  have h1 : ∃ r, lDL1 = '<' :: r := ⟨"dl>\n".toList, by decide +kernel⟩
  have h2 : ∃ r, lDL2 = r ++ ['>'] := ⟨"</dl".toList, by decide +kernel⟩
  obtain ⟨r1, e1⟩ := h1
  obtain ⟨r2, e2⟩ := h2
  unfold defOutG
  rw [e1, e2]
  constructor
  · simp
  · rw [← List.append_assoc, List.getLast?_append]; simp

theorem noFnDiv_dlDoc (items : List DItem) : noFnDiv (rootOf [dlOf (items.map DItem.node)]) = true := by
  have hk : noFnDivKids (items.map DItem.node) = true := by
    induction items with
    | nil => rfl
    | cons it r ih =>
      simp only [List.map_cons, noFnDivKids, ih, Bool.and_true]
      cases it with
      | txt tag t => simp [DItem.node, noFnDiv, noFnDivKids, mkText, Node.el]
      | loose z ts =>
        have hk2 : noFnDivKids ((z :: ts).map (mkText "p")) = true := by simpa using noFnKids_txt "p" (z :: ts)
        simp only [List.map_cons] at hk2
        simp [DItem.node, looseDd, noFnDiv, Node.el, hk2]
  simp [rootOf, dlOf, Node.el, noFnDiv, noFnDivKids, hk]

end MdVerif.RenderG
