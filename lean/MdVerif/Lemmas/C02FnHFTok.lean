/-
Helper lemmas for `Props/C02Fn.lean`: `Lemmas/C02BigFTok.lean` (the block stage WITH fenced_code keeps the STX-token
invariant) over the STRONGER token of `Lemmas/C02FnHStr.lean` (`MdVerif.TokH`: letters `k w q z`, or a complete escape
token whose value is below 0x110000 AND different from 2).  Fresh names (`TsH`, `dom2_sH`, `tok_step_sH`,
`parseBlocksXT_pres_sH`, `block_stage_own_sH`, `nodeSH_of_xinv`), so that the file can be imported together with the
original.  Only the API lemmas of the string file are used (`SOk_append`, `SOk_of_noCtl`, `SOk_stx_letter`, `SOk_left`,
`SOk_right`, `SOk_cons_ne`, `SOk_lstrip`, `SOkA_of_noSTX`).  Core Lean only.
-/
import MdVerif.Lemmas.C02BigFAll
import MdVerif.Lemmas.C02BigShAll
import MdVerif.Lemmas.C02FnHPat

namespace MdVerif.NoCtlXF.XT
variable [MdVerif.NoCtlF.HtmlBound]
set_option linter.unusedSectionVars false
open Py
open MdVerif.NoCtl (STX ETX NoCtl NoPair Blk.AllC)
open MdVerif.NoCtl.BlkB (PL pl_cons pl_one pl_nil)
open MdVerif.NoCtl.BlkX (TX LogC XInv)
open MdVerif.NoCtl.BlkXT
open MdVerif.NoCtlF (HtmlBound nn NlOpt BeforeTok AfterTok OwnBlock TokBlock)

/-- strings of the tree: every STX is followed by `k`, `w` or a complete escape token -/
abbrev TsH : Str → Prop := fun s => TokH.SOk s = true

theorem tsH_of_bq {s : Str} (h : Bq s) : TsH s := TokH.SOk_of_noCtl (noCtl_of_bq h)

theorem tsH_placeholder (n : Nat) : TsH (Fenced.placeholder n) := by
  have hrest : TokH.STX ∉ "zxhzdk:".toList ++ natToDec n ++ [Char.ofNat 3] := by
    intro hm
    simp only [List.mem_append, List.mem_cons, List.not_mem_nil, or_false] at hm
    rcases hm with (hm | hm) | hm
    · revert hm; decide
    · have := natToDec_digits n _ hm
      revert this; decide
    · revert hm; decide
  have e : Fenced.placeholder n = TokH.STX :: 'w' :: ("zxhzdk:".toList ++ natToDec n ++ [Char.ofNat 3]) := by
    simp [Fenced.placeholder]; rfl
  rw [e]
  exact TokH.SOk_stx_letter (.inr rfl) hrest

theorem tsH_nlOpt {a : Str} (h : NlOpt a) : TsH a := by
  rcases h with rfl | rfl <;> decide

theorem tsH_tokBlock {x : Str} (h : TokBlock HtmlBound.h x) : TsH x := by
  obtain ⟨n, a, b, _, ha, hb, rfl⟩ := h
  exact TokH.SOk_append (TokH.SOk_append (tsH_nlOpt ha) (tsH_placeholder n)) (tsH_nlOpt hb)

theorem tsH_join {a b : Str} (ha : TsH a) (hb : TsH b) : TsH (a ++ '\n' :: b) :=
  TokH.SOk_append ha (by show TokH.SOk ('\n' :: b) = true; rw [TokH.SOk_cons_ne (by decide)]; exact hb)

theorem tsH_lines : ∀ s : Str, TsH s → PL TsH (Py.lines s) := by
  apply MdVerif.Letters.lines_induction
  · intro a ha _ l hl
    rw [MdVerif.Letters.lines_of_no_nl ha] at hl
    simp only [List.mem_cons, List.not_mem_nil, or_false] at hl
    subst hl; assumption
  · intro a r ha ih hs l hl
    rw [MdVerif.Letters.lines_append_nl ha] at hl
    have h1 : TokH.SOk a = true := TokH.SOk_left hs (by
      intro c hc
      simp only [List.head?_cons, Option.some.injEq] at hc
      subst hc; decide)
    have h2 : TokH.SOk r = true := by
      have := TokH.SOk_right hs
      rwa [TokH.SOk_cons_ne (by decide)] at this
    rcases List.mem_cons.1 hl with rfl | hl
    · exact h1
    · exact ih h2 l hl

/-- **the string classes of the block stage with raw-HTML placeholders, for the STX-token invariant** -/
theorem dom2_sH : Dom2 NoCtl.Blk.okc NoCtl.Blk.okc Bq TsH Rq where
  b := C02BigX.strDomX_okc
  sub := fun _ h => tsH_of_bq h
  rOf := fun _ h => .inl h
  rSp := dom2_q.rSp
  join := fun _ _ ha hb => tsH_join ha (tsH_of_bq hb)
  lstrip := fun _ h => TokH.SOk_lstrip h
  lines := tsH_lines

theorem tok_step_sH {tables : Bool} {cfg : BlockExt.XCfg} {tab : Nat} (htab : 0 < tab) {pb : Block.PB}
    (_hpb : PresT NoCtl.Blk.okc NoCtl.Blk.okc Bq TsH Rq pb) {state : List Block.BState} {refs : Block.Refs}
    {parent : Node} {b : Str} {rest : List Str} {r : Node × Block.Refs × List Str}
    (hP : TX NoCtl.Blk.okc NoCtl.Blk.okc TsH parent) (hA : parent.textAtomic = false)
    (hR : LogC NoCtl.Blk.okc Bq refs)
    (hb : TokBlock HtmlBound.h b) (hrest : PL Rq rest)
    (hr : BlockExt.dispatchXT tables cfg tab pb state refs parent b rest = some r) :
    ResT NoCtl.Blk.okc NoCtl.Blk.okc Bq TsH Rq r := by
  have hbT := tsH_tokBlock hb
  obtain ⟨n, a, e, hn, ha, he, rfl⟩ := hb
  obtain ⟨w, hw⟩ := placeholder_cons n
  have hch := tokCh_placeholder n
  rw [hw] at hch
  rcases ha with rfl | rfl
  · -- the paragraph
    have e1 : [] ++ Fenced.placeholder n ++ e = STX :: w ++ e := by rw [hw]; rfl
    rw [e1] at hr hbT
    rw [dispatchXT_tokline tables cfg tab htab pb state refs parent STX w e rest hch (by decide) (by decide) he] at hr
    cases hr
    refine paraP_gen dom2_sH.tnil hP hA hR (fun a' ha' => tsH_join ha' hbT) ?_ hrest
    rw [show STX :: w ++ e = STX :: (w ++ e) from rfl, lstrip_of_head (by decide)]
    exact hbT
  · -- the line feed in front
    have e1 : ['\n'] ++ Fenced.placeholder n ++ e = '\n' :: (STX :: w) ++ e := by rw [hw]; rfl
    rw [e1] at hr
    rw [dispatchXT_nl_tokline tables cfg tab htab pb state refs parent (STX :: w) e rest hch he] at hr
    cases hr
    refine emptyP_t dom2_sH hP hA hR ?_ hrest
    refine .inr ⟨n, [], e, hn, .inl rfl, he, ?_⟩
    rw [hw]; rfl

theorem parseBlocksXT_pres_sH (tables : Bool) (cfg : BlockExt.XCfg) {tab : Nat} (htab : 0 < tab) (f : Nat) :
    PresT NoCtl.Blk.okc NoCtl.Blk.okc Bq TsH Rq (BlockExt.parseBlocksXT tables cfg tab f) :=
  parseBlocksXT_pres_of tables cfg tab (fun pb hpb state refs parent b rest r hP hA hR hb hrest hd => by
    rcases hb with hb | hb
    · exact dispatchXT_t dom2_sH hpb hP hA hR hb hrest hd
    · exact tok_step_sH htab hpb hP hA hR hb hrest hd) f

/-- **the block stage with fenced_code keeps the STX-token invariant**: in every tail and non-atomic text of the tree
    every STX is followed by `k`, `w` or a complete escape token; attributes, atomic texts and the log have no STX/ETX -/
theorem block_stage_own_sH (tables : Bool) (xc : BlockExt.XCfg) {tab : Nat} (htab : 0 < tab) {text : Str}
    (ho : OwnBlock HtmlBound.h text) {root : Node} {log : Block.Refs}
    (hr : BlockExt.parseDocumentXT tables xc tab text = some (root, log)) :
    root.Forall (XInv NoCtl.Blk.okc NoCtl.Blk.okc TsH) ∧ LogC NoCtl.Blk.okc Bq log := by
  obtain ⟨o1, _, o3⟩ := parseBlocksXT_pres_sH tables xc htab _ _ _ _ _ _
    (NoCtl.BlkX.tx_el dom2_sH.tnil "div" (by decide)) rfl NoCtl.BlkX.logC_nil (pl_splitS_own_q ho) hr
  exact ⟨o1, o3⟩

end MdVerif.NoCtlXF.XT

namespace MdVerif.C02BigX
open Py Pipeline PipelineX NoCtl C02BigSh

theorem nodeSH_of_xinv {n : Node} (h : BlkX.XInv Blk.okc Blk.okc NoCtlXF.XT.TsH n) : TokH.NodeS n := by
  obtain ⟨hn, _⟩ := h
  refine ⟨?_, hn.tail, fun kv hkv => TokH.SOkA_of_noSTX (allC_okc (hn.attrs kv hkv).2).1⟩
  have ht := hn.text
  by_cases hat : n.textAtomic = true
  · rw [if_pos hat] at ht
    exact TokH.SOk_of_noCtl (allC_okc ht)
  · rw [if_neg hat] at ht
    exact ht

/-- the tree and the log of the block stage with fenced_code (no footnotes): in the domain of the stronger STX-token
    invariant -/
theorem blockStageX_tokHF {x : Exts} {cfg : Cfg} {src : Str} (hf : x.fencedCode = true) (hfn : x.footnotes = false)
    (htab : 0 < cfg.tab) {root : Node} {log : Block.Refs} {stash : List Str}
    (h : blockStageX x cfg src = .ok (root, log, stash)) :
    root.Forall TokH.NodeS ∧ BlkX.LogC Blk.okc (Blk.AllC Blk.okc) log := by
  simp only [blockStageX] at h
  split at h
  · cases h
  · cases h
  · next text stash' hp =>
    obtain ⟨hown, _, _⟩ := prepareX_fenced hf hp
    split at h
    · cases h
    · next root0 log0 hpd =>
      letI : NoCtlF.HtmlBound := ⟨stash'.length, false, false⟩
      obtain ⟨hroot0, hlog0⟩ := NoCtlXF.XT.block_stage_own_sH x.tables x.blockCfg htab hown hpd
      simp only [fnStageX, hfn, Bool.false_eq_true, if_false, FootnotesTree.R.ok.injEq, Prod.mk.injEq] at h
      obtain ⟨rfl, rfl, rfl⟩ := h
      exact ⟨Node.Forall.mono (fun _ hn => nodeSH_of_xinv hn) root0 hroot0, hlog0⟩

end MdVerif.C02BigX
