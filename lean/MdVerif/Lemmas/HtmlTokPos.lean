/-
Line bookkeeping of the tokenizer model (`Model/HtmlTok.lean`): `updatePos` is compositional, and for a position
reached by consuming a prefix `pre` of `rawdata = pre ++ s`, `line_offset + offset` is the index `len(pre)` -- so
the look-ahead `rawdata[line_offset + offset + len(text):]` is the unread text behind `text`, and `at_line_start()`
holds right after a newline.  Core Lean only.
-/
import MdVerif.Model.HtmlTok
import MdVerif.Lemmas.PyBasic

namespace MdVerif.HtmlTok
open Py Extract

/-- number of characters behind the last newline (the whole length when there is none) -/
def col (pre : Str) : Nat := spanLen (· != '\n') pre.reverse

/-- the position after consuming `pre` from the start of the document -/
def posOf (pre : Str) : Pos := updatePos {} pre

theorem spanLen_append_of_not_all {p : Char → Bool} {x : Str} (h : x.all p = false) (y : Str) :
    spanLen p (x ++ y) = spanLen p x := by
  induction x with
  | nil => simp at h
  | cons c x ih =>
    by_cases hc : p c
    · have : x.all p = false := by simpa [hc] using h
      simp [spanLen_cons, hc, ih this]
    · simp [spanLen_cons, hc]

/-- `spanLen` stops at the first character that fails `p` -/
theorem spanLen_stop {p : Char → Bool} {x : Str} (hx : x.all p = true) {y : Str}
    (hy : ∀ c, y.head? = some c → p c = false) : spanLen p (x ++ y) = x.length := by
  rw [spanLen_append_of_all hx]
  cases y with
  | nil => simp
  | cons c y => simp [spanLen_cons, hy c rfl]

theorem all_ne_nl_iff (s : Str) : s.all (· != '\n') = true ↔ s.count '\n' = 0 := by
  induction s with
  | nil => simp
  | cons c s ih =>
    by_cases hc : c = '\n'
    · subst hc; simp
    · simp [hc, ih]

theorem col_of_no_nl {s : Str} (h : s.count '\n' = 0) : col s = s.length := by
  unfold col
  have : s.reverse.all (· != '\n') = true := by
    rw [List.all_reverse]; exact (all_ne_nl_iff s).2 h
  simpa using (spanLen_eq_length_iff _ _).2 this

theorem col_append_of_nl {b : Str} (h : 0 < b.count '\n') (a : Str) : col (a ++ b) = col b := by
  unfold col
  rw [List.reverse_append]
  apply spanLen_append_of_not_all
  rw [List.all_reverse]
  cases hb : b.all (· != '\n') with
  | false => rfl
  | true => have := (all_ne_nl_iff b).1 hb; omega

theorem col_append_of_no_nl {b : Str} (h : b.count '\n' = 0) (a : Str) : col (a ++ b) = col a + b.length := by
  unfold col
  rw [List.reverse_append, spanLen_append_of_all]
  · simp; omega
  · rw [List.all_reverse]; exact (all_ne_nl_iff b).2 h

theorem updatePos_eq (p : Pos) (chunk : Str) :
    updatePos p chunk =
      if 0 < chunk.count '\n' then { lineno := p.lineno + chunk.count '\n', offset := col chunk }
      else { p with offset := p.offset + chunk.length } := rfl

theorem posOf_eq (pre : Str) : posOf pre = { lineno := 1 + pre.count '\n', offset := col pre } := by
  unfold posOf
  rw [updatePos_eq]
  by_cases h : 0 < pre.count '\n'
  · simp [h]
  · have h0 : pre.count '\n' = 0 := by omega
    simp [h0, col_of_no_nl h0]

@[simp] theorem posOf_nil : posOf [] = {} := rfl

/-- `updatepos` of a chunk behind a consumed prefix -/
theorem posOf_append (pre chunk : Str) : updatePos (posOf pre) chunk = posOf (pre ++ chunk) := by
  rw [posOf_eq, posOf_eq, updatePos_eq]
  by_cases h : 0 < chunk.count '\n'
  · simp only [h, if_true, List.count_append, col_append_of_nl h]
    congr 1; omega
  · have h0 : chunk.count '\n' = 0 := by omega
    simp [h0, List.count_append, col_append_of_no_nl h0]

theorem posOf_offset (pre : Str) : (posOf pre).offset = col pre := by rw [posOf_eq]

theorem col_snoc_nl (pre : Str) : col (pre ++ ['\n']) = 0 := by
  simp [col, spanLen_cons]

/-- right behind a newline the offset is 0 -/
theorem posOf_offset_after_nl (pre : Str) : (posOf (pre ++ ['\n'])).offset = 0 := by
  rw [posOf_offset, col_snoc_nl]

theorem col_cons_nl (p : Str) : col ('\n' :: p) = col p := by
  by_cases h : 0 < p.count '\n'
  · exact col_append_of_nl h ['\n']
  · have h0 : p.count '\n' = 0 := by omega
    have := col_append_of_no_nl h0 ['\n']
    simp only [List.singleton_append] at this
    rw [this, col_of_no_nl h0]; simp [col, spanLen_cons]

theorem col_cons_of_ne {c : Char} (hc : c ≠ '\n') (p : Str) :
    col (c :: p) = if p.count '\n' = 0 then p.length + 1 else col p := by
  by_cases h0 : p.count '\n' = 0
  · have : (c :: p).count '\n' = 0 := by simp [List.count_cons, h0]; exact fun h => hc h
    simp [h0, col_of_no_nl this]
  · simp only [h0, if_false]
    exact col_append_of_nl (by omega) [c]

theorem lineStart_col (pre s : Str) : lineStart (pre ++ s) (pre.count '\n') + col pre = pre.length := by
  induction pre with
  | nil => simp [lineStart, col]
  | cons c p ih =>
    by_cases hc : c = '\n'
    · subst hc
      simp only [List.cons_append, List.count_cons_self, lineStart, if_true, col_cons_nl, List.length_cons]
      omega
    · have hcnt : (c :: p).count '\n' = p.count '\n' := by
        simp [List.count_cons]; exact fun h => hc h
      rw [hcnt, col_cons_of_ne hc]
      cases hk : p.count '\n' with
      | zero => simp [lineStart]
      | succ k =>
        simp only [List.cons_append, lineStart, hc, if_false, Nat.succ_ne_zero, List.length_cons]
        rw [hk] at ih; omega

/-- `line_offset + offset` is the index reached -/
theorem lineOffset_posOf (pre s : Str) :
    lineOffset (pre ++ s) (posOf pre) + (posOf pre).offset = pre.length := by
  rw [posOf_eq]
  simp only [lineOffset, Nat.add_sub_cancel_left]
  exact lineStart_col pre s

/-- the blank-line look-ahead of the model reads the unread text behind `text` -/
theorem look_posOf (pre text s : Str) :
    look (pre ++ (text ++ s)) (posOf pre) text = blankLine s := by
  unfold look
  rw [lineOffset_posOf pre (text ++ s), ← List.length_append, ← List.append_assoc, List.drop_left]

/-- `at_line_start()` right behind a newline, and at the very start -/
theorem atLineStart_after_nl (raw pre : Str) : atLineStart raw (posOf (pre ++ ['\n'])) = true := by
  simp [atLineStart, posOf_offset_after_nl]

theorem atLineStart_nil (raw : Str) : atLineStart raw (posOf []) = true := rfl

end MdVerif.HtmlTok
