/-
Helper lemmas for C14 on the extension pipeline (`Props/C14X.lean`), part 1: which stages of `PipelineX.treeX` read
the output format.  Only `toc` does (`TocTree.run { fmt := cfg.fmt, … }`: the name of a heading is computed from its
serialisation).  Without toc the tree is format independent by unfolding; with toc it is when no heading contains an
element or attribute that the two formats spell differently (`headingsPlain`).  Core Lean only.
-/
import MdVerif.Lemmas.BlockExtFuelPipe

namespace MdVerif.C14X
open Py PipelineX Pipeline Ser

/-- without toc no stage before the serializer reads the output format -/
theorem treeX_fmt (x : Exts) (cfg : Cfg) (f : Fmt) (src : Str) (ht : x.toc = false) :
    treeX x { cfg with fmt := f } src = treeX x cfg src := by
  simp only [treeX, ht]
  rfl

/-! ### trees that both formats serialise alike -/

mutual
/-- no void element, no attribute that html writes bare (`k = escape(v)`), no `QName` -/
def spellFree : Node → Bool
  | ⟨tag, attrs, _, _, children, _, _⟩ =>
    (match tag with
     | .name t => !isEmptyTag t && attrs.all (fun kv => kv.1 != escAttrHtml kv.2)
     | .qname _ => false
     | _ => true) && spellFreeL children
def spellFreeL : List Node → Bool
  | [] => true
  | c :: r => spellFree c && spellFreeL r
end

theorem writeAttrs_fmt (as : List (Str × Str)) (h : ∀ kv ∈ as, (kv.1 != escAttrHtml kv.2) = true) :
    writeAttrs .html as = writeAttrs .xhtml as := by
  induction as with
  | nil => rfl
  | cons kv r ih =>
    obtain ⟨k, v⟩ := kv
    have h1 : (k == escAttrHtml v) = false := by
      have := h (k, v) (by simp)
      simpa [bne] using this
    have h1' : k ≠ escAttrHtml v := by simpa using h1
    simp only [writeAttrs, h1', decide_false, Bool.false_and, Bool.false_eq_true, if_false]
    rw [ih (fun kv hkv => h kv (by simp [hkv]))]

theorem mem_sortAttrs' (l : List (Str × Str)) : ∀ x ∈ sortAttrs l, x ∈ l := by
  have ins : ∀ (kv : Str × Str) (l : List (Str × Str)), ∀ x ∈ insAttr kv l, x = kv ∨ x ∈ l := by
    intro kv l
    induction l with
    | nil => intro x hx; simp [insAttr] at hx; exact Or.inl hx
    | cons y ys ih =>
      intro x hx
      simp only [insAttr] at hx
      split at hx
      · simp at hx; rcases hx with h | h | h
        · exact Or.inl h
        · exact Or.inr (by simp [h])
        · exact Or.inr (by simp [h])
      · simp at hx; rcases hx with h | h
        · exact Or.inr (by simp [h])
        · rcases ih x h with h' | h'
          · exact Or.inl h'
          · exact Or.inr (by simp [h'])
  induction l with
  | nil => intro x hx; simp [sortAttrs] at hx
  | cons y ys ih =>
    intro x hx
    have : sortAttrs (y :: ys) = insAttr y (sortAttrs ys) := rfl
    rw [this] at hx
    rcases ins y _ x hx with h | h
    · simp [h]
    · simp [ih x h]

mutual
theorem serialize_spellFree : (n : Node) → spellFree n = true → serialize .html n = serialize .xhtml n
  | ⟨tag, attrs, text, ta, children, tail, tla⟩, h => by
    simp only [spellFree, Bool.and_eq_true] at h
    have hk := serializeList_spellFree children h.2
    cases tag with
    | comment => simp [serialize]
    | pi => simp [serialize]
    | none => simp [serialize, hk]
    | qname q => simp at h
    | name t =>
      have h1 := h.1
      simp only [Bool.and_eq_true, Bool.not_eq_true', List.all_eq_true] at h1
      have ha := writeAttrs_fmt (sortAttrs attrs) (fun kv hkv => h1.2 kv (mem_sortAttrs' attrs kv hkv))
      simp [serialize, element, h1.1, ha, hk]
theorem serializeList_spellFree : (l : List Node) → spellFreeL l = true →
    serializeList .html l = serializeList .xhtml l
  | [], _ => rfl
  | c :: r, h => by
    simp only [spellFreeL, Bool.and_eq_true] at h
    simp only [serializeList, serialize_spellFree c h.1, serializeList_spellFree r h.2]
end

theorem serialize_spellFree' (f g : Fmt) (n : Node) (h : spellFree n = true) : serialize f n = serialize g n := by
  cases f <;> cases g <;> first | rfl | exact serialize_spellFree n h | exact (serialize_spellFree n h).symm


/-! ### `toc`: headings that both formats serialise alike get the same name -/

open TocTree

theorem spellFree_mk (tag : Tag) (attrs : List (Str × Str)) (text text' : Option Str) (ta ta' : Bool)
    (children : List Node) (tail tail' : Option Str) (tla tla' : Bool) :
    spellFree ⟨tag, attrs, text', ta', children, tail', tla'⟩ = spellFree ⟨tag, attrs, text, ta, children, tail, tla⟩ := by
  simp only [spellFree]

mutual
theorem rmFnNode_spellFree : (n : Node) → spellFree n = true → spellFree (rmFnNode n) = true
  | ⟨tag, attrs, text, ta, children, tail, tla⟩, h => by
    have hk : spellFreeL children = true := by
      simp only [spellFree, Bool.and_eq_true] at h; exact h.2
    have hk' := rmFnKids_spellFree children hk
    simp only [rmFnNode]
    split
    · simp only [spellFree, Bool.and_eq_true] at h ⊢
      exact ⟨h.1, hk'⟩
    · simp only [spellFree, Bool.and_eq_true] at h ⊢
      exact ⟨h.1, hk'⟩
theorem rmFnKids_spellFree : (l : List Node) → spellFreeL l = true → spellFreeL (rmFnKids l).1 = true
  | [], _ => rfl
  | c :: r, h => by
    simp only [spellFreeL, Bool.and_eq_true] at h
    have ih := rmFnKids_spellFree r h.2
    have ic := rmFnNode_spellFree c h.1
    simp only [rmFnKids]
    split
    · exact ih
    · split
      · simp only [spellFreeL, Bool.and_eq_true]; exact ⟨ic, ih⟩
      · simp only [spellFreeL, Bool.and_eq_true]
        refine ⟨?_, ih⟩
        rw [← ic]
        generalize rmFnNode c = c'
        obtain ⟨tag, attrs, text, ta, children, tail, tla⟩ := c'
        exact spellFree_mk ..
end

theorem renderInner_fmt (f g : Fmt) (post : Str → Option Str) (el : Node) (h : spellFree el = true) :
    renderInner { fmt := f, post := post } el = renderInner { fmt := g, post := post } el := by
  simp only [renderInner, serialize_spellFree' f g el h]

theorem heading_fmt (f g : Fmt) (post : Str → Option Str) (el : Node) (st : St) (h : spellFree el = true) :
    heading { fmt := f, post := post } el st = heading { fmt := g, post := post } el st := by
  simp only [heading, renderInner_fmt f g post _ (rmFnNode_spellFree el h)]

mutual
/-- every heading element of the tree is serialised alike by both formats -/
def headingsPlain : Node → Bool
  | ⟨tag, attrs, text, ta, children, tail, tla⟩ =>
    (!isHeaderTag tag || spellFree ⟨tag, attrs, text, ta, children, tail, tla⟩) && headingsPlainL children
def headingsPlainL : List Node → Bool
  | [] => true
  | c :: r => headingsPlain c && headingsPlainL r
end

mutual
theorem walkNode_fmt (f g : Fmt) (post : Str → Option Str) : (n : Node) → headingsPlain n = true → ∀ st,
    walkNode { fmt := f, post := post } n st = walkNode { fmt := g, post := post } n st
  | ⟨tag, attrs, text, ta, children, tail, tla⟩, h, st => by
    simp only [headingsPlain, Bool.and_eq_true, Bool.or_eq_true, Bool.not_eq_true'] at h
    have hk := fun st => walkKids_fmt f g post children h.2 st
    simp only [walkNode]
    by_cases hh : isHeaderTag tag = true
    · have hs : spellFree ⟨tag, attrs, text, ta, children, tail, tla⟩ = true := by
        rcases h.1 with h1 | h1
        · rw [h1] at hh; cases hh
        · exact h1
      simp only [hh, if_true, heading_fmt f g post _ st hs, hk]
    · simp only [hh, Bool.false_eq_true, if_false, hk]
theorem walkKids_fmt (f g : Fmt) (post : Str → Option Str) : (l : List Node) → headingsPlainL l = true → ∀ st,
    walkKids { fmt := f, post := post } l st = walkKids { fmt := g, post := post } l st
  | [], _, _ => rfl
  | c :: r, h, st => by
    simp only [headingsPlainL, Bool.and_eq_true] at h
    have hc := walkNode_fmt f g post c h.1
    have hr := fun st => walkKids_fmt f g post r h.2 st
    simp only [walkKids, hc, hr]
end

theorem run_fmt (f g : Fmt) (post : Str → Option Str) (bl : List Str) (t : Node) (h : headingsPlain t = true) :
    TocTree.run { fmt := f, post := post } bl t = TocTree.run { fmt := g, post := post } bl t := by
  simp only [TocTree.run, walkNode_fmt f g post t h]

/-- with toc: format independent when the tree handed to `toc` has only headings that both formats spell alike -/
theorem treeX_fmt_toc (x : Exts) (cfg : Cfg) (f : Fmt) (src : Str)
    (h : ∀ root log stash t xs t', blockStageX x cfg src = .ok (root, log, stash) →
      InlineX.runX (inlineCfgX x cfg log) root stash = some (t, xs) → midStageX x cfg log t xs.fn = some t' →
      headingsPlain t' = true) :
    treeX x { cfg with fmt := f } src = treeX x cfg src := by
  rw [treeX_eq, treeX_eq]
  have hb : blockStageX x { cfg with fmt := f } src = blockStageX x cfg src := rfl
  rw [hb]
  cases hbs : blockStageX x cfg src with
  | oof => rfl
  | ood => rfl
  | ok r =>
    obtain ⟨root, log, stash⟩ := r
    have hi : inlineCfgX x { cfg with fmt := f } log = inlineCfgX x cfg log := rfl
    simp only [hi]
    cases hr : InlineX.runX (inlineCfgX x cfg log) root stash with
    | none => rfl
    | some txs =>
      obtain ⟨t, xs⟩ := txs
      simp only [lateStageX]
      have hm : midStageX x { cfg with fmt := f } log t xs.fn = midStageX x cfg log t xs.fn := rfl
      rw [hm]
      cases hmid : midStageX x cfg log t xs.fn with
      | none => rfl
      | some t' =>
        have hp := h root log stash t xs t' hbs hr hmid
        have ht : tocStageX x { cfg with fmt := f } xs.st.html t' = tocStageX x cfg xs.st.html t' := by
          simp only [tocStageX]
          split
          · exact run_fmt _ _ _ _ _ hp
          · rfl
        simp only [ht]


/-- the tree that reaches `TocTreeprocessor` (`none`: an earlier stage did not answer) -/
def preToc (x : Exts) (cfg : Cfg) (src : Str) : Option Node :=
  match blockStageX x cfg src with
  | .ok (root, log, stash) =>
    match InlineX.runX (inlineCfgX x cfg log) root stash with
    | some (t, xs) => midStageX x cfg log t xs.fn
    | none => none
  | _ => none

/-- the hypothesis of `treeX_fmt_toc` as a computation -/
def preTocPlain (x : Exts) (cfg : Cfg) (src : Str) : Bool :=
  match preToc x cfg src with
  | some t' => headingsPlain t'
  | none => true

theorem treeX_fmt_toc_B (x : Exts) (cfg : Cfg) (f : Fmt) (src : Str) (h : preTocPlain x cfg src = true) :
    treeX x { cfg with fmt := f } src = treeX x cfg src := by
  apply treeX_fmt_toc
  intro root log stash t xs t' hb hr hm
  simp only [preTocPlain, preToc, hb, hr, hm] at h
  exact h

end MdVerif.C14X
