/-
Helper lemmas for `Props/C16RenderG.lean`, part 31: footnotes with references in several paragraphs — the paragraphs
explicitly (reference ids by the bookkeeping lemmas), duplicates, prettify, unescape.

Core Lean only.
-/
import MdVerif.Lemmas.RenderGMP3

namespace MdVerif.RenderG
open Py Block BlockExt MdVerif.RenderX Inline InlineX
open MdVerif.Footnotes.Spec (refName)

/-- the labels referenced in a paragraph, in order -/
def segIds (p : FPara) : List Str := p.2.map (·.1)

/-- the paragraphs after the inline stage, explicitly; `hist` = the labels referenced before -/
def procPsE (keys : List Str) : List FPara → List Str → List Node
  | [], _ => []
  | p :: r, hist =>
    { mkText "p" p.1 with children := supKids (refItemsE keys p.2 hist) } :: procPsE keys r ((segIds p).reverse ++ hist)

/-- all the labels referenced, in order -/
def allIds (ps : List FPara) : List Str := ps.flatMap segIds

theorem procPs_explicit (keys : List Str) : ∀ (ps : List FPara) (fs : Footnotes.State) (hist : List Str),
    Footnotes.Inv fs hist →
      (procPs keys ps fs).1 = procPsE keys ps hist ∧
      Footnotes.Inv (procPs keys ps fs).2.2 ((allIds ps).reverse ++ hist) := by
  intro ps
  induction ps with
  | nil => intro fs hist h; exact ⟨rfl, by simpa [procPs, allIds] using h⟩
  | cons p r ih =>
    intro fs hist h
    obtain ⟨h1, h2⟩ := refItems_explicit keys p.2 fs hist h
    obtain ⟨h3, h4⟩ := ih _ _ h2
    refine ⟨?_, ?_⟩
    · simp only [procPs, procPsE, h1, segIds]
      rw [h3]
    · simpa [procPs, allIds, segIds, List.append_assoc] using h4

theorem procPs_empty (keys : List Str) (ps : List FPara) :
    (procPs keys ps Footnotes.State.empty).1 = procPsE keys ps [] ∧
    ∀ id, Footnotes.lookup (Footnotes.fnref ++ ':' :: id) (procPs keys ps Footnotes.State.empty).2.2.foundRefs =
      (allIds ps).count id := by
  obtain ⟨h1, h2⟩ := procPs_explicit keys ps _ [] Footnotes.Inv.empty
  refine ⟨h1, fun id => ?_⟩
  rw [h2.found id]
  simp [List.count_reverse]

theorem itemsOK_refItemsE (keys : List Str) : ∀ (segs : List (Str × Str)) (hist : List Str), SegsOK segs →
    ItemsOK (refItemsE keys segs hist) := by
  intro segs
  induction segs with
  | nil => intro hist _; exact ⟨by simp [refItemsE], by simp [refItemsE]⟩
  | cons s r ih =>
    intro hist hs
    have h := ih (s.1 :: hist) hs.tail
    refine ⟨?_, ?_⟩
    · intro it hit
      simp only [refItemsE, List.mem_cons] at hit
      rcases hit with rfl | hit
      · exact ⟨_, _, _, rfl⟩
      · exact h.sup it hit
    · intro it hit
      simp only [refItemsE, List.mem_cons] at hit
      rcases hit with rfl | hit
      · exact hs.tails s List.mem_cons_self
      · exact h.tails it hit

/-- what the stages need of a paragraph node -/
structure PNodeOK (n : Node) : Prop where
  shape : ∃ t items, n = ⟨.name "p".toList, [], some t, false, supKids items, none, false⟩ ∧ PlainFacts t ∧
    ItemsOK items ∧ ItemsPlain items

theorem pnodeOK_procPsE (keys : List Str) : ∀ (ps : List FPara) (hist : List Str), (∀ p ∈ ps, FParaOK p) →
    ∀ n ∈ procPsE keys ps hist, PNodeOK n := by
  intro ps
  induction ps with
  | nil => intro hist _ n hn; simp [procPsE] at hn
  | cons p r ih =>
    intro hist hp n hn
    simp only [procPsE, List.mem_cons] at hn
    rcases hn with rfl | hn
    · have hq := hp p List.mem_cons_self
      exact ⟨p.1, refItemsE keys p.2 hist, rfl, hq.text, itemsOK_refItemsE keys p.2 hist hq.segs,
        itemsPlain_refItemsE keys p.2 hist hq.segs⟩
    · exact ih _ (fun x hx => hp x (List.mem_cons_of_mem _ hx)) n hn

/-! ### duplicates -/

theorem duplicates_fnDivG (fs : Footnotes.State) (defs : List (Str × Str)) :
    FootnotesTree.duplicates fs (fnDivG (lisFrom defs 1)) =
      some (fnDivG (lisMid (fun id => Footnotes.lookup (Footnotes.fnref ++ ':' :: id) fs.foundRefs) defs 1)) := by
  have hol : FootnotesTree.duplicates fs ({ FootnotesTree.el "ol" with children := lisFrom defs 1 } : Node) =
      some { FootnotesTree.el "ol" with children := lisFrom defs 1 } :=
    duplicates_noFn fs _ (by simp [FootnotesTree.el, noFnDiv, noFnDiv_lis])
  have hhr : FootnotesTree.duplicates fs (FootnotesTree.el "hr") = some (FootnotesTree.el "hr") :=
    duplicates_noFn fs _ (by simp [FootnotesTree.el, noFnDiv, noFnDivKids])
  unfold fnDivG
  rw [FootnotesTree.duplicates]
  simp only [FootnotesTree.duplicatesKids, hhr, hol]
  simp [FootnotesTree.el, FootnotesTree.dupFirstOl, FootnotesTree.dupFirstOlKids, dupLis_lis]

theorem duplicatesKids_snoc (fs : Footnotes.State) (A : List Node) (D D' : Node) (hA : noFnDivKids A = true)
    (hD : FootnotesTree.duplicates fs D = some D') : FootnotesTree.duplicatesKids fs (A ++ [D]) = some (A ++ [D']) := by
  induction A with
  | nil => simp [FootnotesTree.duplicatesKids, hD]
  | cons a r ih =>
    simp only [noFnDivKids, Bool.and_eq_true] at hA
    simp only [List.cons_append, FootnotesTree.duplicatesKids, duplicates_noFn fs a hA.1, ih hA.2]

theorem noFnDiv_pnode {n : Node} (h : PNodeOK n) : noFnDiv n = true := by
  obtain ⟨t, items, rfl, _, hI, _⟩ := h.shape
  simp [noFnDiv, noFnDiv_supKids items hI]

theorem noFnDivKids_pnodes (ns : List Node) (h : ∀ n ∈ ns, PNodeOK n) : noFnDivKids ns = true := by
  induction ns with
  | nil => rfl
  | cons n r ih =>
    simp only [noFnDivKids, noFnDiv_pnode (h n List.mem_cons_self), ih (fun x hx => h x (List.mem_cons_of_mem _ hx)),
      Bool.and_self]

theorem duplicates_fnP (fs : Footnotes.State) (ns : List Node) (defs : List (Str × Str)) (h : ∀ n ∈ ns, PNodeOK n) :
    FootnotesTree.duplicates fs (rootOf (ns ++ [fnDivG (lisFrom defs 1)])) =
      some (rootOf (ns ++ [fnDivG (lisMid (fun id => Footnotes.lookup (Footnotes.fnref ++ ':' :: id) fs.foundRefs) defs 1)])) := by
  have hk := duplicatesKids_snoc fs ns _ _ (noFnDivKids_pnodes ns h) (duplicates_fnDivG fs defs)
  rw [show rootOf (ns ++ [fnDivG (lisFrom defs 1)]) = ⟨.name "div".toList, [], none, false, ns ++ [fnDivG (lisFrom defs 1)], none,
    false⟩ from rfl, FootnotesTree.duplicates]
  simp only [hk]
  simp [rootOf, Node.el]

/-! ### prettify -/

/-- a paragraph after prettify -/
def pnodeFin (n : Node) : Node := { n with tail := some ['\n'], tailAtomic := false }

def fnDivFin (lis : List Node) : Node :=
  ⟨.name "div".toList, [("class".toList, "footnote".toList)], some ['\n'], false,
    [⟨.name "hr".toList, [], none, false, [], some ['\n'], false⟩,
     ⟨.name "ol".toList, [], some ['\n'], false, lis, some ['\n'], false⟩], some ['\n'], false⟩

theorem prettify_pnode {n : Node} (h : PNodeOK n) :
    TreeProc.prettifyETree TreeProc.defaultBlockLevel n = pnodeFin n ∧
    TreeProc.isBlockLevel TreeProc.defaultBlockLevel n.tag = true := by
  obtain ⟨t, items, rfl, _, hI, _⟩ := h.shape
  have hsup : TreeProc.prettifyKids TreeProc.defaultBlockLevel (supKids items) = supKids items :=
    prettifyKids_inline _ (fun c hc => by rw [supKids_tag items hI c hc]; exact bl_sup)
  have hfs : firstBlock (supKids items) = false := by
    cases hh : supKids items with
    | nil => rfl
    | cons c r =>
      have := supKids_tag items hI c (by rw [hh]; simp)
      simp only [firstBlock, List.head?_cons, Option.map_some, Option.getD_some, this]; exact bl_sup
  have hP := prettify_keep (.name "p".toList) [] (some t) false (supKids items) false bl_pS tn_p.1 tn_p.2 hfs
  rw [hsup] at hP
  exact ⟨hP, bl_pS⟩

theorem prettifyKids_pnodes (ns : List Node) (h : ∀ n ∈ ns, PNodeOK n) (D D' : Node)
    (hD : TreeProc.prettifyETree TreeProc.defaultBlockLevel D = D')
    (hb : TreeProc.isBlockLevel TreeProc.defaultBlockLevel D.tag = true) :
    TreeProc.prettifyKids TreeProc.defaultBlockLevel (ns ++ [D]) = ns.map pnodeFin ++ [D'] := by
  induction ns with
  | nil => simp only [List.nil_append, TreeProc.prettifyKids, hb, if_true, hD, List.map_nil]
  | cons n r ih =>
    obtain ⟨h1, h2⟩ := prettify_pnode (h n List.mem_cons_self)
    simp only [List.cons_append, TreeProc.prettifyKids, h2, if_true, h1, ih (fun x hx => h x (List.mem_cons_of_mem _ hx)),
      List.map_cons]

theorem prettify_fnDivG (cnt : Str → Nat) (defs : List (Str × Str)) (hne : defs ≠ []) :
    TreeProc.prettifyETree TreeProc.defaultBlockLevel (fnDivG (lisMid cnt defs 1)) = fnDivFin (lisFin cnt defs 1) := by
  have hfl : firstBlock (lisMid cnt defs 1) = true := by
    cases defs with
    | nil => exact absurd rfl hne
    | cons d r =>
      simp only [firstBlock, lisMid, liMid, List.head?_cons, Option.map_some, Option.getD_some]
      exact bl_li
  have bd : TreeProc.isBlockLevel TreeProc.defaultBlockLevel (Tag.name "div".toList) = true := bl_divS
  have bh : TreeProc.isBlockLevel TreeProc.defaultBlockLevel (Tag.name "hr".toList) = true := bl_hr
  have bo : TreeProc.isBlockLevel TreeProc.defaultBlockLevel (Tag.name "ol".toList) = true := bl_ol
  have hHr := prettify_keep (.name "hr".toList) [] none false [] false bh tn_hr.1 tn_hr.2 rfl
  simp only [TreeProc.prettifyKids] at hHr
  have hOl := prettify_set (.name "ol".toList) [] false (lisMid cnt defs 1) false bo tn_ol.1 tn_ol.2 hfl
  rw [prettifyKids_lis] at hOl
  have hD := prettify_set (.name "div".toList) [("class".toList, "footnote".toList)] false
    [(Node.mk (.name "hr".toList) [] none false [] none false), (Node.mk (.name "ol".toList) [] none false (lisMid cnt defs 1) none false)]
    false bd tn_div.1 tn_div.2
    (by simp only [firstBlock, List.head?_cons, Option.map_some, Option.getD_some]; exact bh)
  have hkD := prettifyKids_two _ _ _ _ _ _ _ _ _ _ _ _ _ _ _ _ bh bo hHr hOl
  rw [hkD] at hD
  exact hD

def fnRootFinP (ns lis : List Node) : Node :=
  ⟨.name "div".toList, [], some ['\n'], false, ns.map pnodeFin ++ [fnDivFin lis], some ['\n'], false⟩

theorem noBP_pnodeFin {n : Node} (h : PNodeOK n) : noBP (pnodeFin n) = true := by
  obtain ⟨t, items, rfl, _, hI, _⟩ := h.shape
  simp only [pnodeFin, noBP, noBP_supKids items hI, Bool.and_true]; decide

theorem prettify_fnP (n0 : Node) (nr : List Node) (cnt : Str → Nat) (defs : List (Str × Str))
    (h : ∀ n ∈ n0 :: nr, PNodeOK n) (hne : defs ≠ []) :
    TreeProc.prettify (rootOf ((n0 :: nr) ++ [fnDivG (lisMid cnt defs 1)])) =
      fnRootFinP (n0 :: nr) (lisFin cnt defs 1) := by
  have hD := prettify_fnDivG cnt defs hne
  have hk := prettifyKids_pnodes (n0 :: nr) h _ _ hD bl_divS
  have hR := prettify_set (.name "div".toList) [] false ((n0 :: nr) ++ [fnDivG (lisMid cnt defs 1)]) false
    bl_divS tn_div.1 tn_div.2 (by
      simp only [firstBlock, List.cons_append, List.head?_cons, Option.map_some, Option.getD_some]
      exact (prettify_pnode (h n0 List.mem_cons_self)).2)
  rw [hk] at hR
  have hE : TreeProc.prettifyETree TreeProc.defaultBlockLevel (rootOf ((n0 :: nr) ++ [fnDivG (lisMid cnt defs 1)])) =
      fnRootFinP (n0 :: nr) (lisFin cnt defs 1) := hR
  have hnb : noBP (fnRootFinP (n0 :: nr) (lisFin cnt defs 1)) = true := by
    have h1 : noBPKids ((n0 :: nr).map pnodeFin) = true := by
      have : ∀ (L : List Node), (∀ n ∈ L, PNodeOK n) → noBPKids (L.map pnodeFin) = true := by
        intro L
        induction L with
        | nil => intro _; rfl
        | cons a r ih =>
          intro hL
          simp only [List.map_cons, noBPKids, noBP_pnodeFin (hL a List.mem_cons_self),
            ih (fun x hx => hL x (List.mem_cons_of_mem _ hx)), Bool.and_self]
      exact this _ h
    have h2 : noBP (fnDivFin (lisFin cnt defs 1)) = true := by
      simp only [fnDivFin, noBP, noBPKids, noBP_lisFin, Bool.and_true]; decide
    have h3 : noBPKids ((n0 :: nr).map pnodeFin ++ [fnDivFin (lisFin cnt defs 1)]) = true :=
      noBPKids_append _ _ h1 (by simp only [noBPKids, h2, Bool.and_self])
    simp only [fnRootFinP, noBP, h3, Bool.and_true]
    decide
  have h1 := mapTree_noBP TreeProc.brRule brRule_fix _ hnb
  have h2 := mapTree_noBP TreeProc.preRule preRule_fix _ hnb
  unfold TreeProc.prettify
  rw [hE, h1, h2]

/-! ### unescape -/

theorem unescape_pnodeFin {n : Node} (h : PNodeOK n) : TreeProc.unescapeTree (pnodeFin n) = some (pnodeFin n) := by
  obtain ⟨t, items, rfl, ht, _, hIP⟩ := h.shape
  have t3 : TreeProc.unescapeText 0 ['\n'] = some ['\n'] := by decide
  exact unescape_el _ _ _ _ _ rfl (unescapeKids_sups items hIP)
    (fun s hs => by cases hs; exact CodeLaw.unescapeText_id _ ht.noStx) (fun s hs => by cases hs; exact t3)

theorem unescape_fnDivFin (cnt : Str → Nat) (defs : List (Str × Str)) (hd : DefsOK defs) :
    TreeProc.unescapeTree (fnDivFin (lisFin cnt defs 1)) = some (fnDivFin (lisFin cnt defs 1)) := by
  have t3 : TreeProc.unescapeText 0 ['\n'] = some ['\n'] := by decide
  have hHr : TreeProc.unescapeTree (⟨.name "hr".toList, [], none, false, [], some ['\n'], false⟩ : Node) =
      some ⟨.name "hr".toList, [], none, false, [], some ['\n'], false⟩ :=
    unescape_el _ _ _ _ _ rfl rfl (fun s hs => by cases hs) (fun s hs => by cases hs; exact t3)
  have hOl : TreeProc.unescapeTree (⟨.name "ol".toList, [], some ['\n'], false, lisFin cnt defs 1, some ['\n'], false⟩ : Node) =
      some ⟨.name "ol".toList, [], some ['\n'], false, lisFin cnt defs 1, some ['\n'], false⟩ :=
    unescape_el _ _ _ _ _ rfl (unescapeKids_lis cnt defs 1 hd)
      (fun s hs => by cases hs; exact t3) (fun s hs => by cases hs; exact t3)
  exact unescape_el _ _ _ _ _ (unescAttrs_id _ (by intro kv hkv; simp at hkv; subst hkv; decide))
    (by simp only [TreeProc.unescapeKids, hHr, hOl])
    (fun s hs => by cases hs; exact t3) (fun s hs => by cases hs; exact t3)

theorem unescapeTree_fnP (ns : List Node) (cnt : Str → Nat) (defs : List (Str × Str)) (h : ∀ n ∈ ns, PNodeOK n)
    (hd : DefsOK defs) :
    TreeProc.unescapeTree (fnRootFinP ns (lisFin cnt defs 1)) = some (fnRootFinP ns (lisFin cnt defs 1)) := by
  have t3 : TreeProc.unescapeText 0 ['\n'] = some ['\n'] := by decide
  have hk : TreeProc.unescapeKids (ns.map pnodeFin) = some (ns.map pnodeFin) :=
    unescapeKids_all _ (by
      intro c hc
      obtain ⟨n, hn, rfl⟩ := List.mem_map.1 hc
      exact unescape_pnodeFin (h n hn))
  exact unescape_el _ _ _ _ _ rfl
    (MdVerif.RenderG.unescapeKids_append _ _ hk (by simp only [TreeProc.unescapeKids, unescape_fnDivFin cnt defs hd]))
    (fun s hs => by cases hs; exact t3) (fun s hs => by cases hs; exact t3)

end MdVerif.RenderG
