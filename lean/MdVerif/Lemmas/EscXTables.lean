/-
Helper lemmas for `Props/C07X.lean`: `TableProcessor.test` rejects a fully escaped text when `|` is escapable
(the header row has no unescaped pipe: `_split_row` returns one cell, and there is no border pipe).  Core Lean only.

`shape s`: `s` is a sequence of units `\d` (`d` not a space) and single characters other than `\`, backtick and `|`.
An escaped text has this shape, and so has each of its lines with the blanks at both ends removed (`row.strip(' ')`).
-/
import MdVerif.Model.Ext.Tables
import MdVerif.Lemmas.BlockEsc
import MdVerif.Lemmas.InlineEsc
import MdVerif.Lemmas.PyBasic

namespace MdVerif.EscX
open Py Escape Tables

def shape : Str → Bool
  | [] => true
  | c :: r =>
    if c = '\\' then
      match r with
      | [] => false
      | d :: r' => d != ' ' && shape r'
    else c != '`' && c != '|' && shape r

theorem shape_bs_nil : shape ['\\'] = false := by simp [shape]

theorem shape_cons_bs (d : Char) (r : Str) : shape ('\\' :: d :: r) = (d != ' ' && shape r) := by simp [shape]

theorem shape_cons_plain {c : Char} (h : c ≠ '\\') (r : Str) :
    shape (c :: r) = (c != '`' && c != '|' && shape r) := by
  cases r <;> simp [shape, h]

theorem shape_escAll {esc : List Char} (hb : '\\' ∈ esc) (ht : '`' ∈ esc) (hp : '|' ∈ esc) (hsp : ' ' ∉ esc)
    (t : Str) : shape (escAll esc t) = true := by
  induction t with
  | nil => rfl
  | cons c r ih =>
    by_cases h : c ∈ esc
    · have hc : c ≠ ' ' := fun e => hsp (e ▸ h)
      rw [escAll_cons_mem h, shape_cons_bs]
      simp [ih, hc]
    · rw [escAll_cons_not_mem h]
      have h1 : c ≠ '\\' := fun e => h (e ▸ hb)
      have h2 : c ≠ '`' := fun e => h (e ▸ ht)
      have h3 : c ≠ '|' := fun e => h (e ▸ hp)
      rw [shape_cons_plain h1]
      simp [ih, h2, h3]

theorem shape_lstrip (s : Str) (h : shape s = true) : shape (lstripP (· = ' ') s) = true := by
  induction s with
  | nil => rfl
  | cons c r ih =>
    by_cases hc : c = ' '
    · subst hc
      have : shape r = true := by
        rw [shape_cons_plain (by decide)] at h; simpa using h
      simpa [lstripP] using ih this
    · simpa [lstripP, hc] using h

/-- removing blanks at the end keeps the shape -/
theorem shape_of_append_spaces (w : Str) (hw : w.all (· = ' ') = true) :
    ∀ (a : Str), shape (a ++ w) = true → shape a = true := by
  intro a
  fun_induction shape a with
  | case1 => intro _; rfl
  | case2 =>
    intro h
    cases w with
    | nil => simp [shape_bs_nil] at h
    | cons d w' =>
      have : d = ' ' := by simpa using (List.all_eq_true.1 hw d List.mem_cons_self)
      subst this
      simp [shape_cons_bs] at h
  | case3 d r' ih =>
    intro h
    simp only [List.cons_append, shape_cons_bs, Bool.and_eq_true] at h ⊢
    exact ⟨h.1, ih h.2⟩
  | case4 c r hc ih =>
    intro h
    simp only [List.cons_append, shape_cons_plain hc, Bool.and_eq_true] at h ⊢
    exact ⟨h.1, ih h.2⟩

theorem shape_rstrip (s : Str) (h : shape s = true) : shape (rstripP (· = ' ') s) = true := by
  obtain ⟨w, hw, hall⟩ := rstripP_decomp (· = ' ') s
  rw [hw] at h
  exact shape_of_append_spaces w hall _ h

theorem shape_strip (s : Str) (h : shape s = true) : shape (stripC ' ' s) = true :=
  shape_rstrip _ (shape_lstrip s h)

/-! ### no token of `RE_CODE_PIPES` is a pipe -/

theorem shape_head_ne_tick {s : Str} (h : shape s = true) : s.head? ≠ some '`' := by
  cases s with
  | nil => simp
  | cons c r =>
    intro e
    have : c = '`' := by simpa using e
    subst this
    rw [shape_cons_plain (by decide)] at h
    simp at h

theorem spanLen_tick_shape {s : Str} (h : shape s = true) : spanLen isTick s = 0 := by
  cases s with
  | nil => rfl
  | cons c r =>
    have : c ≠ '`' := by simpa using shape_head_ne_tick h
    simp [spanLen, isTick, this]

theorem tokAux_shape : ∀ (s : Str), shape s = true → ∀ pos, (tokAux 0 pos s).filterMap pipeOf = [] := by
  intro s
  fun_induction shape s with
  | case1 => intro _ pos; rfl
  | case2 => intro h; simp at h
  | case3 d r' ih =>
    intro h pos
    simp only [Bool.and_eq_true] at h
    have ih' := ih h.2
    by_cases h1 : d = '\\'
    · subst h1
      simp only [tokAux, if_true, List.head?_cons]
      exact ih' _
    · by_cases h2 : d = '`'
      · subst h2
        have hs : spanLen isTick ('`' :: r') = 1 := by
          simp [spanLen, isTick, spanLen_tick_shape h.2]
        simp only [tokAux, if_true, List.head?_cons, hs]
        simp only [Option.some.injEq, (by decide : ('`' : Char) ≠ '\\'), if_false, List.filterMap_cons, pipeOf]
        exact ih' _
      · by_cases h3 : d = '|'
        · subst h3
          simp only [tokAux, if_true, List.head?_cons, Option.some.injEq,
            (by decide : ('|' : Char) ≠ '\\'), (by decide : ('|' : Char) ≠ '`'), if_false]
          exact ih' _
        · simp only [tokAux, if_true, List.head?_cons, Option.some.injEq, h1, h2, h3, if_false]
          exact ih' _
  | case4 c r hc ih =>
    intro h pos
    simp only [Bool.and_eq_true, bne_iff_ne, ne_eq] at h
    simp only [tokAux, hc, h.1.1, h.1.2, if_false]
    exact ih h.2 _

theorem split_shape (s : Str) (h : shape s = true) : split s = [s] := by
  simp [split, goodPipes, tokens, tokAux_shape s h 0, cut]

theorem shape_not_pipe_first (s : Str) (h : shape s = true) : startsWith s ['|'] = false := by
  cases s with
  | nil => rfl
  | cons c r =>
    by_cases hc : c = '\\'
    · subst hc; simp [startsWith]
    · simp only [shape_cons_plain hc, Bool.and_eq_true, bne_iff_ne, ne_eq] at h
      simp [startsWith, h.1.2]

/-! ### no end border: a final pipe follows an odd run of backslashes -/

theorem shape_end_pipe : ∀ (s : Str), shape s = true → ∀ (a : Str) (k : Nat),
    s = a ++ (List.replicate k '\\' ++ ['|']) → a.getLast? ≠ some '\\' → k % 2 = 1 := by
  intro s
  fun_induction shape s with
  | case1 => intro _ a k e; simp at e
  | case2 => intro h; simp at h
  | case3 d r' ih =>
    intro h a k e hl
    simp only [Bool.and_eq_true] at h
    have ih' := ih h.2
    match a, e, hl with
    | [], e, _ =>
      match k, e with
      | 0, e => simp at e
      | 1, _ => rfl
      | k + 2, e =>
        simp only [List.replicate_succ, List.nil_append, List.cons_append, List.cons.injEq, true_and] at e
        have := ih' [] k (by simpa using e.2) (by simp)
        omega
    | [x], e, hl =>
      simp only [List.cons_append, List.nil_append, List.cons.injEq] at e
      exact absurd (by simp [← e.1]) hl
    | x :: y :: a'', e, hl =>
      simp only [List.cons_append, List.cons.injEq] at e
      refine ih' a'' k e.2.2 ?_
      cases a'' with
      | nil => simp
      | cons z w => simpa [List.getLast?_cons_cons] using hl
  | case4 c r hc ih =>
    intro h a k e hl
    simp only [Bool.and_eq_true, bne_iff_ne, ne_eq] at h
    match a, e, hl with
    | [], e, _ =>
      match k, e with
      | 0, e =>
        simp only [List.replicate_zero, List.nil_append, List.cons.injEq] at e
        exact absurd e.1 h.1.2
      | k + 1, e =>
        simp only [List.replicate_succ, List.nil_append, List.cons_append, List.cons.injEq] at e
        exact absurd e.1 hc
    | x :: a', e, hl =>
      simp only [List.cons_append, List.cons.injEq] at e
      refine ih h.2 a' k e.2 ?_
      cases a' with
      | nil => simp
      | cons z w => simpa [List.getLast?_cons_cons] using hl

theorem endBorderSub_shape (s : Str) (h : shape s = true) (hnl : '\n' ∉ s) : endBorderSub s = none := by
  have hr : s.reverse.head? ≠ some '\n' := by
    intro e
    have : '\n' ∈ s.reverse := List.mem_of_mem_head? e
    exact hnl (List.mem_reverse.1 this)
  simp only [endBorderSub, hr, if_false]
  split
  · rename_i hp
    split
    · rename_i hk
      exfalso
      -- `s.reverse = '|' :: T`, `T = replicate k '\\' ++ rest`
      cases hrev : s.reverse with
      | nil => rw [hrev] at hp; simp at hp
      | cons x T =>
        rw [hrev] at hp hk
        have hx : x = '|' := by simpa using hp
        subst hx
        simp only [List.tail_cons] at hk
        have hT : T = List.replicate (spanLen (fun c => c = '\\') T) '\\' ++ T.drop (spanLen (fun c => c = '\\') T) := by
          have h1 := List.take_append_drop (spanLen (fun c => c = '\\') T) T
          have h2 : T.take (spanLen (fun c => c = '\\') T) = List.replicate (spanLen (fun c => c = '\\') T) '\\' := by
            rw [List.eq_replicate_iff]
            refine ⟨by simp [List.length_take, spanLen_le], ?_⟩
            intro b hb
            simpa using spanLen_prefix_all _ T b hb
          rw [← h2]; exact h1.symm
        have hs : s = (T.drop (spanLen (fun c => c = '\\') T)).reverse ++
            (List.replicate (spanLen (fun c => c = '\\') T) '\\' ++ ['|']) := by
          have : s = (s.reverse).reverse := (List.reverse_reverse s).symm
          rw [this, hrev, List.reverse_cons]
          conv => lhs; rw [hT]
          simp [List.reverse_append]
        have hlast : ((T.drop (spanLen (fun c => c = '\\') T)).reverse).getLast? ≠ some '\\' := by
          rw [List.getLast?_reverse]
          intro e
          have e' : T[spanLen (fun c => c = '\\') T]? = some '\\' := by
            rw [List.head?_drop] at e; exact e
          have := spanLen_next _ T e'
          simp at this
        have := shape_end_pipe s h _ _ hs hlast
        omega
    · rfl
  · rfl

/-! ### `TableProcessor.test` -/

/-- a block whose first row (blanks removed) has the shape of an escaped text is not a table -/
theorem tableTest_shape (b : Str) (h : shape (stripC ' ' (Block.firstLine b)) = true) : tableTest b = none := by
  unfold tableTest
  have hl := Escape.lines_head b
  unfold lines at hl
  rw [hl]
  have hnl : '\n' ∉ stripC ' ' (Block.firstLine b) := by
    intro hm
    have h1 : '\n' ∈ lstripP (· = ' ') (Block.firstLine b) := (rstripP_prefix _ _).subset hm
    have h2 : '\n' ∈ Block.firstLine b := (lstripP_suffix _ _).subset h1
    have h3 : Block.firstLine b ∈ splitC '\n' b := by rw [hl]; exact List.mem_cons_self
    exact not_mem_of_mem_splitC h3 h2
  cases ht : (splitC '\n' b).tail with
  | nil => rfl
  | cons row1 more =>
    have hb : borderOf (stripC ' ' (Block.firstLine b)) = 0 := by
      simp [borderOf, shape_not_pipe_first _ h, isEndBorder, endBorderSub_shape _ h hnl]
    simp only [List.map_cons, hb, splitRow, if_true, split_shape _ h]
    simp

end MdVerif.EscX
