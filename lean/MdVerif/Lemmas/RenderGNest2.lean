/-
Helper lemmas for `Props/C16RenderG.lean`, part 26: a nested admonition — the document through the block stage, the
tree stages, the serializer, `convertX` end to end.

Core Lean only.
-/
import MdVerif.Lemmas.RenderGNest

namespace MdVerif.RenderG
open Py Block BlockExt MdVerif.RenderX

/-- the source: the outer admonition with its paragraph, an empty line, the nested admonition indented -/
def nestSrc (tab : Nat) (k1 : Str) (t1 : Option Str) (b1 : Para) (k2 : Str) (t2 : Option Str) (b2 : Para) : Str :=
  DocParse.joinChunks [admSrc tab k1 t1 (pLines b1), nestBlock tab k2 t2 b2]

/-- the outer `div` with the inner one as its last child -/
def nestDiv (k1 : Str) (s1 : Option Str) (x1 : Str) (inner : Node) : Node :=
  ⟨.name "div".toList, [(strClass, strAdmonition ++ ' ' :: k1)], none, false,
    (titleKids s1 ++ [mkText "p" x1]) ++ [inner], none, false⟩

theorem nestDiv_eq (k1 : Str) (s1 : Option Str) (x1 : Str) (inner : Node) :
    (admDivG k1 s1 [x1]).append inner = nestDiv k1 s1 x1 inner := rfl

theorem parseDocumentXT_nest (cfg : XCfg) (hadm : cfg.admonition = true) (tab : Nat) (htab : tab > 0)
    (k1 : Str) (t1 s1 : Option Str) (b1 : Para) (k2 : Str) (t2 s2 : Option Str) (b2 : Para)
    (hk1 : PlainFacts k1) (ht1 : ∀ t, t1 = some t → ∀ c ∈ t, c ≠ '\n' ∧ c ≠ '"') (hb1 : ParaOK b1)
    (hc1 : admClassTitle k1 t1 = (k1, s1))
    (hk2 : PlainFacts k2) (ht2 : ∀ t, t2 = some t → ∀ c ∈ t, c ≠ '\n' ∧ c ≠ '"') (hb2 : ParaOK b2)
    (hc2 : admClassTitle k2 t2 = (k2, s2)) :
    parseDocumentXT false cfg tab (nestSrc tab k1 t1 b1 k2 t2 b2 ++ ['\n', '\n']) =
      some (rootOf [nestDiv k1 s1 (pText b1) (admDivG k2 s2 [pText b2])], []) := by
  obtain ⟨hF1, hF2⟩ := nestLines_facts tab htab k2 t2 b2 hk2 ht2 hb2
  have hnel : ∀ x ∈ [admSrc tab k1 t1 (pLines b1), nestBlock tab k2 t2 b2], Escape.noEmptyLineFrom true x = true := by
    intro x hx
    simp only [List.mem_cons, List.mem_nil_iff, or_false] at hx
    rcases hx with rfl | rfl
    · apply nel_block _ (by simp)
      intro l hl
      rcases List.mem_cons.1 hl with rfl | hl
      · exact ⟨admHeader_ne k1 t1, nl_not_mem_header k1 t1 hk1 ht1⟩
      · obtain ⟨y, hy, rfl⟩ := List.mem_map.1 hl
        exact indentLine_facts tab y (hb1 y hy)
    · exact nel_block _ (by simp [nestLines, CodeLaw.indentLines]) (fun l hl => ⟨(hF2 l hl).1, (hF2 l hl).2.1⟩)
  have hsplit := DocParse.splitS_chunks _ (by simp) hnel
  obtain ⟨f, hf⟩ : ∃ f, fuelForX (nestSrc tab k1 t1 b1 k2 t2 b2 ++ ['\n', '\n']).length = (f + 1 + 1 + 1) + 1 := by
    refine ⟨fuelForX (nestSrc tab k1 t1 b1 k2 t2 b2 ++ ['\n', '\n']).length - 4, ?_⟩
    simp only [fuelForX]
    omega
  have h1 := dispatch_admHeadP cfg hadm tab htab k1 t1 s1 b1 hk1 ht1 hb1 hc1 (f + 1 + 1) [] (by decide) []
    (Node.el "div") [nestBlock tab k2 t2 b2, []]
  have h2 := dispatch_admNested cfg hadm tab htab f [] k1 s1 [pText b1] k2 t2 s2 b2 hk2 ht2 hb2 hc2 [[]]
  simp only [parseDocumentXT, parseChunk]
  rw [show nestSrc tab k1 t1 b1 k2 t2 b2 = DocParse.joinChunks [admSrc tab k1 t1 (pLines b1), nestBlock tab k2 t2 b2]
    from rfl] at hf ⊢
  rw [hsplit, hf]
  simp only [List.cons_append, List.nil_append, parseBlocksXT, h1]
  rw [show (Node.el "div").append (admDivG k1 s1 [pText b1]) = rootOf [admDivG k1 s1 [pText b1]] from rfl]
  simp only [h2, nestDiv_eq]
  exact parse_end' cfg tab htab (f + 1) [] [] (rootOf [nestDiv k1 s1 (pText b1) (admDivG k2 s2 [pText b2])]) (by
    intro c hc
    simp only [rootOf, Node.last?, Node.el, List.getLast?_singleton, Option.some.injEq] at hc
    subst hc
    have : (nestDiv k1 s1 (pText b1) (admDivG k2 s2 [pText b2])).isTag "pre" = false := by
      simp only [nestDiv, Node.isTag]; decide
    simp [preCode, this])

/-! ### the tree stages -/

def nestFin (k1 : Str) (s1 : Option Str) (x1 : Str) (innerFin : Node) : Node :=
  ⟨.name "div".toList, [(strClass, strAdmonition ++ ' ' :: k1)], some ['\n'], false,
    (titleKidsFin s1 ++ [pFin x1]) ++ [innerFin], some ['\n'], false⟩

def nestRootFin (k1 : Str) (s1 : Option Str) (x1 : Str) (innerFin : Node) : Node :=
  ⟨.name "div".toList, [], some ['\n'], false, [nestFin k1 s1 x1 innerFin], some ['\n'], false⟩

theorem firstBlock_append (a b : List Node) (ha : a ≠ []) : firstBlock (a ++ b) = firstBlock a := by
  cases a with
  | nil => exact absurd rfl ha
  | cons x r => rfl

theorem prettify_nest (k1 : Str) (s1 : Option Str) (x1 : Str) (k2 : Str) (s2 : Option Str) (x2 : Str) :
    TreeProc.prettify (rootOf [nestDiv k1 s1 x1 (admDivG k2 s2 [x2])]) =
      nestRootFin k1 s1 x1 (admFinG k2 s2 [x2]) := by
  have hI := prettify_admDivOnly k2 s2 x2 []
  have hfb : firstBlock ((titleKids s1 ++ [mkText "p" x1]) ++ [admDivG k2 s2 [x2]]) = true := by
    rw [firstBlock_append _ _ (by simp)]
    exact firstBlock_adm s1 x1 []
  have hD := prettify_set (.name "div".toList) [(strClass, strAdmonition ++ ' ' :: k1)] false
    ((titleKids s1 ++ [mkText "p" x1]) ++ [admDivG k2 s2 [x2]]) false bl_divS tn_div.1 tn_div.2 hfb
  have hb2 : TreeProc.isBlockLevel TreeProc.defaultBlockLevel (admDivG k2 s2 [x2]).tag = true := bl_divS
  have hlast : TreeProc.prettifyKids TreeProc.defaultBlockLevel [admDivG k2 s2 [x2]] = [admFinG k2 s2 [x2]] := by
    simp only [TreeProc.prettifyKids, hb2, if_true, hI]
  have hps : TreeProc.prettifyKids TreeProc.defaultBlockLevel [mkText "p" x1] = [pFin x1] := prettifyKids_ps [x1]
  rw [prettifyKids_append, prettifyKids_append, prettifyKids_title, hps, hlast] at hD
  have hbD : TreeProc.isBlockLevel TreeProc.defaultBlockLevel (nestDiv k1 s1 x1 (admDivG k2 s2 [x2])).tag = true := bl_divS
  have hk : TreeProc.prettifyKids TreeProc.defaultBlockLevel [nestDiv k1 s1 x1 (admDivG k2 s2 [x2])] =
      [nestFin k1 s1 x1 (admFinG k2 s2 [x2])] := by
    simp only [TreeProc.prettifyKids, hbD, if_true]
    rw [show nestDiv k1 s1 x1 (admDivG k2 s2 [x2]) = ⟨.name "div".toList, [(strClass, strAdmonition ++ ' ' :: k1)], none,
      false, (titleKids s1 ++ [mkText "p" x1]) ++ [admDivG k2 s2 [x2]], none, false⟩ from rfl, hD]
    rfl
  have hR := prettify_set (.name "div".toList) [] false [nestDiv k1 s1 x1 (admDivG k2 s2 [x2])] false
    bl_divS tn_div.1 tn_div.2 (by
      simp only [firstBlock, List.head?_cons, Option.map_some, Option.getD_some]; exact bl_divS)
  rw [hk] at hR
  have hE : TreeProc.prettifyETree TreeProc.defaultBlockLevel (rootOf [nestDiv k1 s1 x1 (admDivG k2 s2 [x2])]) =
      nestRootFin k1 s1 x1 (admFinG k2 s2 [x2]) := hR
  have hnb : noBP (nestRootFin k1 s1 x1 (admFinG k2 s2 [x2])) = true := by
    have h1 : noBPKids ((titleKidsFin s1 ++ [pFin x1]) ++ [admFinG k2 s2 [x2]]) = true :=
      noBPKids_append _ _ (noBPKids_append _ _ (noBP_title s1) (noBP_ps [x1]))
        (by simp only [noBPKids, noBP_admFin, Bool.and_self])
    simp only [nestRootFin, nestFin, noBP, noBPKids, h1, Bool.and_true]; decide
  have h1 := mapTree_noBP TreeProc.brRule brRule_fix _ hnb
  have h2 := mapTree_noBP TreeProc.preRule preRule_fix _ hnb
  unfold TreeProc.prettify
  rw [hE, h1, h2]

theorem unescapeTree_nest (k1 : Str) (s1 : Option Str) (x1 : Str) (k2 : Str) (s2 : Option Str) (x2 : Str)
    (hk1 : TreeProc.STX ∉ k1) (hs1 : TreeProc.STX ∉ s1.getD []) (hx1 : TreeProc.STX ∉ x1)
    (hk2 : TreeProc.STX ∉ k2) (hs2 : TreeProc.STX ∉ s2.getD []) (hx2 : TreeProc.STX ∉ x2) :
    TreeProc.unescapeTree (nestRootFin k1 s1 x1 (admFinG k2 s2 [x2])) =
      some (nestRootFin k1 s1 x1 (admFinG k2 s2 [x2])) := by
  have t3 : TreeProc.unescapeText 0 ['\n'] = some ['\n'] := by decide
  have hI := unescape_admFin k2 s2 [x2] hk2 hs2 (by intro t h; simp at h; subst h; exact hx2)
  have hcls : TreeProc.STX ∉ strAdmonition ++ ' ' :: k1 := by
    intro hm
    rcases List.mem_append.1 hm with h | h
    · exact stx_strAdm h
    · rcases List.mem_cons.1 h with h | h
      · exact absurd h (by decide)
      · exact hk1 h
  have hD : TreeProc.unescapeTree (nestFin k1 s1 x1 (admFinG k2 s2 [x2])) = some (nestFin k1 s1 x1 (admFinG k2 s2 [x2])) :=
    unescape_el _ _ _ _ _ (unescAttrs_id _ (by intro kv hkv; simp at hkv; subst hkv; exact hcls))
      (unescapeKids_append _ _ (unescapeKids_append _ _ (unescapeKids_title s1 hs1)
        (unescapeKids_ps [x1] (by intro t h; simp at h; subst h; exact hx1)))
        (by simp only [TreeProc.unescapeKids, hI]))
      (fun s hs => by cases hs; exact t3) (fun s hs => by cases hs; exact t3)
  exact unescape_el _ _ _ _ _ rfl (by simp only [TreeProc.unescapeKids, hD]) (fun s hs => by cases hs; exact t3)
    (fun s hs => by cases hs; exact t3)

/-- the rendering: the outer `div` holding its title, its paragraph and the inner `div` -/
def nestOut (k1 : Str) (s1 : Option Str) (x1 : Str) (k2 : Str) (s2 : Option Str) (x2 : Str) : Str :=
  lV1 ++ k1 ++ lV2 ++ titleHtml s1 ++ psHtml [x1] ++ (admHtml k2 s2 [x2] ++ ['\n']) ++ lV3

theorem serialize_nest (fmt : Ser.Fmt) (k1 : Str) (s1 : Option Str) (x1 : Str) (k2 : Str) (s2 : Option Str) (x2 : Str)
    (hk1 : ∀ c ∈ k1, c ≠ '&' ∧ c ≠ '<' ∧ c ≠ '>' ∧ c ≠ '"') (hs1 : Ser.escCdata (s1.getD []) = s1.getD [])
    (hx1 : Ser.escCdata x1 = x1)
    (hk2 : ∀ c ∈ k2, c ≠ '&' ∧ c ≠ '<' ∧ c ≠ '>' ∧ c ≠ '"') (hs2 : Ser.escCdata (s2.getD []) = s2.getD [])
    (hx2 : Ser.escCdata x2 = x2) :
    Ser.serialize fmt (nestRootFin k1 s1 x1 (admFinG k2 s2 [x2])) =
      "<div>".toList ++ ('\n' :: nestOut k1 s1 x1 k2 s2 x2 ++ ['\n']) ++ "</div>\n".toList := by
  have hI := serialize_admFin fmt k2 s2 [x2] hk2 hs2 (by intro t h; simp at h; subst h; exact hx2)
  have hesc : Ser.escAttrHtml (strAdmonition ++ ' ' :: k1) = strAdmonition ++ ' ' :: k1 := by
    apply escAttrHtml_plain
    intro c hc
    rcases List.mem_append.1 hc with h | h
    · have : ∀ x ∈ strAdmonition, x ≠ '&' ∧ x ≠ '<' ∧ x ≠ '>' ∧ x ≠ '"' := by decide +kernel
      exact this c h
    · rcases List.mem_cons.1 h with rfl | h
      · decide
      · exact hk1 c h
  have hne : strClass ≠ Ser.escAttrHtml (strAdmonition ++ ' ' :: k1) := by
    rw [hesc]
    have h1 : strClass = 'c' :: "lass".toList := by decide +kernel
    have h2 : strAdmonition = 'a' :: "dmonition".toList := by decide +kernel
    rw [h1, h2]
    intro e
    simp only [List.cons_append, List.cons.injEq] at e
    exact absurd e.1 (by decide)
  have hD : Ser.serialize fmt (nestFin k1 s1 x1 (admFinG k2 s2 [x2])) = nestOut k1 s1 x1 k2 s2 x2 ++ ['\n'] := by
    unfold nestFin
    have hp1 : Ser.serializeList fmt [pFin x1] = psHtml [x1] :=
      serializeList_ps fmt [x1] (by intro t h; simp at h; subst h; exact hx1)
    rw [serialize_attr1 fmt "div".toList strClass _ _ _ _ _ _ et_div.1 et_div.2 hne, hesc, ifText_some _ ec_nl,
      serializeList_append, serializeList_append, serializeList_title fmt s1 hs1, hp1]
    simp only [Ser.serializeList, hI, List.append_nil]
    unfold nestOut lV1 lV2 lV3 strClass strAdmonition
    generalize titleHtml s1 = TT
    generalize psHtml [x1] = PP
    generalize admHtml k2 s2 [x2] = II
    simp only [String.reduceToList]
    simp only [List.cons_append, List.append_assoc, List.nil_append, List.append_nil]
  unfold nestRootFin
  rw [CodeLaw.serialize_plain fmt _ _ _ _ _ _ et_div.1 et_div.2, ifText_some _ ec_nl]
  simp only [Ser.serializeList, hD]
  generalize nestOut k1 s1 x1 k2 s2 x2 = J
  simp only [String.reduceToList]
  simp only [List.cons_append, List.append_assoc, List.nil_append, List.append_nil]

end MdVerif.RenderG
