/-
The start-tag recognisers of the tokenizer model (`Model/HtmlTok.lean`: `valueLen`, `attrLen`, `attrsLen`,
`locateEnd`, `checkWhole`, `parseStartTag`) on the start tags of the grammar `Spec/HtmlFrag.lean`:
a tag `<name attrs trail>` / `<name attrs trail/>` followed by ANY text is read back as exactly that tag.
Core Lean only.
-/
import MdVerif.Lemmas.HtmlTokPos
import MdVerif.Spec.HtmlFrag

namespace MdVerif.HtmlTok
open Py Extract HtmlFrag

/-! ### lists -/

theorem drop_len_add {α} (x y : List α) (n : Nat) : (x ++ y).drop (x.length + n) = y.drop n := by
  rw [List.drop_append]; simp

theorem take_len_add {α} (x y : List α) (n : Nat) : (x ++ y).take (x.length + n) = x ++ y.take n := by
  rw [List.take_append]; simp [List.take_of_length_le]

theorem getD_append_last (x y : Str) (d : Char) (hx : x ≠ []) :
    (x ++ y).getD (x.length - 1) d = x.getLast hx := by
  have hl : 0 < x.length := List.length_pos_iff.2 hx
  rw [List.getD_eq_getElem?_getD, List.getElem?_append_left (by omega)]
  have : x[x.length - 1]? = some (x.getLast hx) := by
    rw [← List.getLast?_eq_getElem?, List.getLast?_eq_some_getLast hx]
  rw [this]; rfl

/-! ### characters -/

theorem char_of_ascii' (P : Char → Prop) (h : ∀ n, n < 128 → P (Char.ofNat n)) (c : Char) (hc : c.toNat < 128) :
    P c := by
  have := h c.toNat hc
  rwa [Char.ofNat_toNat] at this

theorem nameCh_lt (c : Char) (h : nameCh c = true) : c.toNat < 128 := by
  simp only [nameCh, isAsciiAlnum, isAsciiAlpha, isAsciiLower, isAsciiUpper, isAsciiDigit, Bool.or_eq_true,
    Bool.and_eq_true, decide_eq_true_eq, Char.le_def, UInt32.le_iff_toNat_le] at h
  have e : c.val.toNat = c.toNat := rfl
  rcases h with ((((((h | h) | h) | h) | h) | h) | h)
  · have : ('z' : Char).val.toNat = 122 := rfl
    omega
  · have : ('Z' : Char).val.toNat = 90 := rfl
    omega
  · have : ('9' : Char).val.toNat = 57 := rfl
    omega
  all_goals (subst h; decide)

/-- everything the recognisers ask about a name character -/
def nameChFacts (c : Char) : Bool :=
  locNameCh c && findNameCh c && attrContCh c && !isSpace c && c != '/' && c != '>' && c != '`' && c != '=' &&
  c != ',' && c != '<' && c != '&' && c != '"' && c != '\'' && c != sigma && !wsOrSlash c &&
  (isAsciiAlnum c || c = '-' || c = '.' || c = ':' || c = '_')

theorem nameCh_facts_ascii : ∀ n, n < 128 → nameCh (Char.ofNat n) = true → nameChFacts (Char.ofNat n) = true := by
  decide +kernel

theorem nameCh_facts (c : Char) (h : nameCh c = true) : nameChFacts c = true :=
  char_of_ascii' (fun c => nameCh c = true → nameChFacts c = true) nameCh_facts_ascii c (nameCh_lt c h) h

theorem alpha_nameCh (c : Char) (h : isAsciiAlpha c = true) : nameCh c = true := by
  simp [nameCh, isAsciiAlnum, h]

theorem spCh_cases {c : Char} (h : spCh c = true) : c = ' ' ∨ c = '\n' := by
  simpa [spCh] using h

/-- everything the recognisers ask about a space or newline -/
def spChFacts (c : Char) : Bool :=
  isSpace c && !locNameCh c && !findNameCh c && !attrContCh c && wsOrSlash c && lookBehindOk c && c != '=' &&
  c != '/' && c != '>' && c != ',' && !nameCh c && !isAsciiAlpha c

theorem spCh_facts (c : Char) (h : spCh c = true) : spChFacts c = true := by
  rcases spCh_cases h with rfl | rfl <;> decide


/-! ### what follows an attribute -/

/-- what may stand behind an attribute (or behind the tag name): white space `w`, then the next attribute name
    (only after white space), `>`, or `/>` (after white space when the attribute value is unquoted) -/
structure Follow (bare : Bool) (w z : Str) : Prop where
  sp : spacesOk w = true
  hd : (∃ c r, z = c :: r ∧ isAsciiAlpha c = true ∧ w ≠ []) ∨ (∃ r, z = '>' :: r) ∨
       (∃ r, z = '/' :: '>' :: r ∧ (bare = true → w ≠ []))

theorem spaces_all_isSpace {w : Str} (h : spacesOk w = true) : w.all isSpace = true := by
  simp only [spacesOk, List.all_eq_true] at h ⊢
  intro c hc
  have := spCh_facts c (h c hc)
  simp [spChFacts] at this; exact this.1.1.1.1.1.1.1.1.1.1.1

theorem Follow.z_head {b w z} (h : Follow b w z) :
    ∃ c r, z = c :: r ∧ isSpace c = false ∧ c ≠ '=' ∧ c ≠ ',' ∧ (isAsciiAlpha c = true ∨ c = '>' ∨ c = '/') := by
  rcases h.hd with ⟨c, r, rfl, hc, _⟩ | ⟨r, rfl⟩ | ⟨r, rfl, _⟩
  · have := nameCh_facts c (alpha_nameCh c hc)
    simp [nameChFacts] at this
    exact ⟨c, r, rfl, by simp [this], by simp [this], by simp [this], Or.inl hc⟩
  · exact ⟨'>', r, rfl, by decide, by decide, by decide, Or.inr (Or.inl rfl)⟩
  · exact ⟨'/', _, rfl, by decide, by decide, by decide, Or.inr (Or.inr rfl)⟩

theorem Follow.spanSpace {b w z} (h : Follow b w z) : spanLen isSpace (w ++ z) = w.length := by
  obtain ⟨c, r, rfl, hc, _⟩ := h.z_head
  exact spanLen_stop (spaces_all_isSpace h.sp) (by intro d hd; simp at hd; subst hd; exact hc)

theorem Follow.wsSlash {b w z} (h : Follow b w z) : wsSlashLen (w ++ z) = w.length := by
  have hz : wsSlashLen z = 0 := by
    rcases h.hd with ⟨c, r, rfl, hc, _⟩ | ⟨r, rfl⟩ | ⟨r, rfl, _⟩
    · have := nameCh_facts c (alpha_nameCh c hc)
      simp [nameChFacts] at this
      simp [wsSlashLen, this]
    · simp [wsSlashLen]; decide
    · simp [wsSlashLen]; decide
  have hw := spaces_all_isSpace h.sp
  clear h
  induction w with
  | nil => simpa using hz
  | cons c w ih =>
    simp only [List.all_cons, Bool.and_eq_true] at hw
    simp [wsSlashLen, hw.1, ih hw.2]

theorem commasLen_follow {b w z} (h : Follow b w z) (f : Nat) : commasLen f (w ++ z) = 0 := by
  cases f with
  | zero => rfl
  | succ f =>
    obtain ⟨c, r, rfl, _, _, hc, _⟩ := h.z_head
    simp [commasLen, h.spanSpace, hc]


/-! ### one attribute -/

theorem findChar_stop (ch : Char) (v y : Str) (hv : v.contains ch = false) (c0 : Char) :
    findChar ch (c0 :: (v ++ ch :: y)) 1 = some (1 + v.length) := by
  have hall : v.all (· != ch) = true := by
    simp only [List.all_eq_true]; intro d hd
    simp only [List.contains_eq_mem, decide_eq_false_iff_not] at hv
    simp; rintro rfl; exact hv hd
  have hs : spanLen (· != ch) (v ++ ch :: y) = v.length :=
    spanLen_stop hall (by intro d hd; simp at hd; subst hd; simp)
  simp [findChar, hs]

set_option linter.unusedSimpArgs false
set_option linter.unnecessarySimpa false

/-- the alternation of the value group at `t` -/
def valueBody (patched : Bool) (t : Str) : Option Nat :=
  match t with
  | '\'' :: _ => (findChar '\'' t 1).map (· + 1)
  | '"' :: _ => (findChar '"' t 1).map (· + 1)
  | _ =>
    if patched then some (spanLen (fun ch => ch != '`' && ch != '>' && !isSpace ch) t)
    else some (spanLen (fun ch => ch != '>' && !isSpace ch) t)

theorem valueLen_unfold (patched : Bool) (s : Str) :
    valueLen patched s =
      (let a := spanLen isSpace s
       let b := spanLen (· = '=') (s.drop a)
       if b = 0 then some 0
       else
        let c := spanLen isSpace (s.drop (a + b))
        match valueBody patched (s.drop (a + b + c)) with
        | none => none
        | some q =>
          some (if patched then a + b + c + q + commasLen s.length (s.drop (a + b + c + q)) else a + b + c + q)) := rfl

theorem valueLen_of (patched : Bool) (s : Str) {a b c q : Nat} (ha : spanLen isSpace s = a)
    (hb : spanLen (· = '=') (s.drop a) = b) (hb0 : b ≠ 0) (hc : spanLen isSpace (s.drop (a + b)) = c)
    (hq : valueBody patched (s.drop (a + b + c)) = some q) :
    valueLen patched s =
      some (if patched then a + b + c + q + commasLen s.length (s.drop (a + b + c + q)) else a + b + c + q) := by
  subst ha hb hc
  rw [valueLen_unfold]
  simp only [hb0, if_false, hq]

/-- a value that starts with `=` directly followed by a non-space, non-`=` character -/
theorem valueLen_eq_start (patched : Bool) (d : Char) (x : Str) (hd1 : isSpace d = false) (hd2 : d ≠ '=') {q : Nat}
    (hq : valueBody patched (d :: x) = some q) :
    valueLen patched ('=' :: d :: x) =
      some (if patched then 1 + q + commasLen (x.length + 2) ((d :: x).drop q) else 1 + q) := by
  have := valueLen_of patched ('=' :: d :: x) (a := 0) (b := 1) (c := 0) (q := q)
    (by simp [spanLen_cons]; decide) (by simp [spanLen_cons, hd2]) (by omega) (by simp [spanLen_cons, hd1])
    (by simpa using hq)
  rw [this]
  have e : (0 + 1 + 0 + q) = q + 1 := by omega
  rw [e]
  cases patched <;> simp <;> omega

theorem valueBody_quote (patched : Bool) (qc : Char) (hq : qc = '"' ∨ qc = '\'') (v y : Str)
    (hv : v.contains qc = false) : valueBody patched (qc :: (v ++ qc :: y)) = some (v.length + 2) := by
  have hf := findChar_stop qc v y hv qc
  rcases hq with rfl | rfl <;> simp [valueBody, hf] <;> omega

theorem valueLen_ok (patched : Bool) (v : AVal) (hv : v.ok = true) {w z : Str} (h : Follow v.isBare w z) :
    valueLen patched (v.render ++ (w ++ z)) = some v.render.length := by
  obtain ⟨c, r, hz, hcs, hce, hcc, _⟩ := h.z_head
  have hcm := commasLen_follow h
  cases v with
  | none =>
    rw [valueLen_unfold]
    simp only [AVal.render, List.nil_append, h.spanSpace, List.drop_left]
    subst hz
    simp [spanLen_cons, hce]
  | dq v =>
    simp only [AVal.ok, Bool.not_eq_true'] at hv
    have hb := valueBody_quote patched '"' (Or.inl rfl) v (w ++ z) hv
    have := valueLen_eq_start patched '"' (v ++ '"' :: (w ++ z)) (by decide) (by decide) hb
    have hd : List.drop (v.length + 2) ('"' :: (v ++ '"' :: (w ++ z))) = w ++ z := by
      have := drop_len_add ('"' :: (v ++ ['"'])) (w ++ z) 0
      simpa using this
    simp only [AVal.render, List.cons_append, List.append_assoc, List.nil_append]
    rw [this, hd, hcm]
    cases patched <;> simp <;> omega
  | sq v =>
    simp only [AVal.ok, Bool.not_eq_true'] at hv
    have hb := valueBody_quote patched '\'' (Or.inr rfl) v (w ++ z) hv
    have := valueLen_eq_start patched '\'' (v ++ '\'' :: (w ++ z)) (by decide) (by decide) hb
    have hd : List.drop (v.length + 2) ('\'' :: (v ++ '\'' :: (w ++ z))) = w ++ z := by
      have := drop_len_add ('\'' :: (v ++ ['\''])) (w ++ z) 0
      simpa using this
    simp only [AVal.render, List.cons_append, List.append_assoc, List.nil_append]
    rw [this, hd, hcm]
    cases patched <;> simp <;> omega
  | bare v =>
    simp only [AVal.ok, Bool.and_eq_true, Bool.not_eq_true', List.isEmpty_eq_false_iff] at hv
    obtain ⟨hne, hall⟩ := hv
    obtain ⟨d, v', rfl⟩ := List.exists_cons_of_ne_nil hne
    have hd := nameCh_facts d (by simp only [List.all_cons, Bool.and_eq_true] at hall; exact hall.1)
    simp [nameChFacts] at hd
    -- what stops the unquoted value
    have hstop : ∀ e, (w ++ z).head? = some e → isSpace e = true ∨ e = '>' := by
      intro e he
      cases w with
      | nil =>
        rcases h.hd with ⟨_, _, _, _, hw⟩ | ⟨r, rfl⟩ | ⟨r, _, hw⟩
        · exact absurd rfl hw
        · simp at he; exact Or.inr he.symm
        · exact absurd rfl (hw rfl)
      | cons a w =>
        simp at he; subst he
        have := h.sp; simp only [spacesOk, List.all_cons, Bool.and_eq_true] at this
        have := spCh_facts _ this.1
        simp [spChFacts] at this; exact Or.inl this.1.1.1.1.1.1.1.1.1.1.1
    have hspanP : spanLen (fun ch => ch != '`' && ch != '>' && !isSpace ch) ((d :: v') ++ (w ++ z)) = (d :: v').length := by
      apply spanLen_stop
      · simp only [List.all_eq_true]; intro e he
        have := nameCh_facts e (by simp only [List.all_eq_true] at hall; exact hall e he)
        simp [nameChFacts] at this; simp [this]
      · intro e he; rcases hstop e he with h1 | rfl <;> simp [*]
    have hspanU : spanLen (fun ch => ch != '>' && !isSpace ch) ((d :: v') ++ (w ++ z)) = (d :: v').length := by
      apply spanLen_stop
      · simp only [List.all_eq_true]; intro e he
        have := nameCh_facts e (by simp only [List.all_eq_true] at hall; exact hall e he)
        simp [nameChFacts] at this; simp [this]
      · intro e he; rcases hstop e he with h1 | rfl <;> simp [*]
    have hb : valueBody patched (d :: (v' ++ (w ++ z))) = some (v'.length + 1) := by
      unfold valueBody
      split
      · rename_i heq; simp at heq; exact absurd heq.1 (by simp [hd])
      · rename_i heq; simp at heq; exact absurd heq.1 (by simp [hd])
      · simp only [List.cons_append, List.length_cons] at hspanP hspanU
        cases patched <;> simp [hspanP, hspanU]
    have := valueLen_eq_start patched d (v' ++ (w ++ z)) (by simp [hd]) (by simp [hd]) hb
    have hdr : List.drop (v'.length + 1) (d :: (v' ++ (w ++ z))) = w ++ z := by
      have := drop_len_add (d :: v') (w ++ z) 0
      simpa using this
    simp only [AVal.render, List.cons_append]
    rw [this, hdr, hcm]
    cases patched <;> simp <;> omega

theorem nameOk_cons {n : Str} (h : nameOk n = true) :
    ∃ c r, n = c :: r ∧ isAsciiAlpha c = true ∧ r.all nameCh = true := by
  cases n with
  | nil => simp [nameOk] at h
  | cons c r => simp only [nameOk, Bool.and_eq_true] at h; exact ⟨c, r, rfl, h.1, h.2⟩

/-- the head of what follows is never an attribute-name character -/
theorem Follow.head_not_attrCont {b w z} (h : Follow b w z) :
    ∀ e, (w ++ z).head? = some e → attrContCh e = false := by
  intro e he
  cases w with
  | nil =>
    rcases h.hd with ⟨_, _, _, _, hw⟩ | ⟨r, rfl⟩ | ⟨r, rfl, _⟩
    · exact absurd rfl hw
    · simp at he; subst he; decide
    · simp at he; subst he; decide
  | cons a w =>
    simp at he; subst he
    have := h.sp; simp only [spacesOk, List.all_cons, Bool.and_eq_true] at this
    have := spCh_facts _ this.1
    simp [spChFacts] at this; simp [this]

theorem AVal.render_head_not_attrCont (v : AVal) : ∀ e, v.render.head? = some e → attrContCh e = false := by
  intro e he
  cases v <;> simp [AVal.render] at he <;> subst he <;> decide

theorem attrLen_ok (patched : Bool) (prev : Char) (hp : lookBehindOk prev = true) (a : Attr) (ha : a.ok = true)
    {w z : Str} (h : Follow a.val.isBare w z) :
    attrLen patched prev (a.name ++ a.val.render ++ (w ++ z)) =
      some (a.name.length + a.val.render.length + w.length) := by
  simp only [Attr.ok, Bool.and_eq_true] at ha
  obtain ⟨⟨_, hn⟩, hv⟩ := ha
  obtain ⟨c, r, hname, hc, hr⟩ := nameOk_cons hn
  have hcf := nameCh_facts c (alpha_nameCh c hc)
  simp [nameChFacts] at hcf
  have hspan : spanLen attrContCh (r ++ (a.val.render ++ (w ++ z))) = r.length := by
    apply spanLen_stop
    · simp only [List.all_eq_true] at hr ⊢; intro e he
      have := nameCh_facts e (hr e he)
      simp [nameChFacts] at this; simp [this]
    · intro e he
      cases hrd : a.val.render with
      | nil => rw [hrd] at he; exact h.head_not_attrCont e (by simpa using he)
      | cons x xs =>
        rw [hrd] at he; simp at he; subst he
        exact AVal.render_head_not_attrCont a.val _ (by rw [hrd]; rfl)
  have hdrop : List.drop (1 + r.length) (c :: (r ++ (a.val.render ++ (w ++ z)))) = a.val.render ++ (w ++ z) := by
    have := drop_len_add (c :: r) (a.val.render ++ (w ++ z)) 0
    rw [show 1 + r.length = (c :: r).length + 0 by simp; omega]; exact this
  have hdrop2 : List.drop (1 + r.length + a.val.render.length) (c :: (r ++ (a.val.render ++ (w ++ z)))) = w ++ z := by
    have := drop_len_add (c :: (r ++ a.val.render)) (w ++ z) 0
    rw [show 1 + r.length + a.val.render.length = (c :: (r ++ a.val.render)).length + 0 by simp; omega]
    simpa using this
  rw [hname]
  simp only [List.cons_append, List.append_assoc, attrLen, hp, Bool.not_true, Bool.false_eq_true, if_false, hspan,
    hdrop, valueLen_ok patched a.val hv h, hdrop2, h.wsSlash]
  simp [hcf]; omega


/-! ### the attribute loops -/

theorem getD_last_mem (x w rest : Str) (d : Char) (hw : w ≠ []) :
    (x ++ (w ++ rest)).getD (x.length + w.length - 1) d ∈ w := by
  have hl : 0 < w.length := List.length_pos_iff.2 hw
  rw [List.getD_eq_getElem?_getD, List.getElem?_append_right (by omega),
    List.getElem?_append_left (by omega)]
  have hj : x.length + w.length - 1 - x.length < w.length := by omega
  rw [List.getElem?_eq_getElem hj]
  exact List.getElem_mem hj


theorem attrsLen_stop (patched : Bool) (f : Nat) (prev : Char) (s : Str) (budget : Option Nat)
    (h : attrLen patched prev s = some 0) : attrsLen patched f prev s budget = some 0 := by
  cases f with
  | zero => rfl
  | succ f => simp only [attrsLen, h]; split <;> rfl

theorem attrsLen_step (patched : Bool) (f : Nat) (prev : Char) (s : Str) (budget : Option Nat) {a : Nat}
    (ha : attrLen patched prev s = some a) (hpos : 0 < a) (hb : budget ≠ some 0) :
    attrsLen patched (f + 1) prev s budget =
      (attrsLen patched f (s.getD (a - 1) prev) (s.drop a) (budget.map (· - a))).map (a + ·) := by
  obtain ⟨n, rfl⟩ : ∃ n, a = n + 1 := ⟨a - 1, by omega⟩
  simp only [attrsLen, ha, hb, if_false]

/-- `>` or `/` never starts an attribute -/
theorem attrLen_term (patched : Bool) (prev c : Char) (r : Str) (hc : c = '>' ∨ c = '/') :
    attrLen patched prev (c :: r) = some 0 := by
  unfold attrLen
  split
  · rfl
  · rcases hc with rfl | rfl <;> simp

/-- the closing `>` / `/>` behind the attributes; an unquoted last value needs white space before `/>` -/
def Term (lastBare : Bool) (trail z : Str) : Prop :=
  (∃ r, z = '>' :: r) ∨ (∃ r, z = '/' :: '>' :: r ∧ (lastBare = true → trail ≠ []))

theorem Term.follow {b trail z} (h : Term b trail z) (ht : spacesOk trail = true) : Follow b trail z :=
  ⟨ht, by
    rcases h with ⟨r, rfl⟩ | ⟨r, rfl, hb⟩
    · exact Or.inr (Or.inl ⟨r, rfl⟩)
    · exact Or.inr (Or.inr ⟨r, rfl, hb⟩)⟩

theorem Term.head {b trail z} (h : Term b trail z) : ∃ c r, z = c :: r ∧ (c = '>' ∨ c = '/') := by
  rcases h with ⟨r, rfl⟩ | ⟨r, rfl, _⟩
  · exact ⟨_, _, rfl, Or.inl rfl⟩
  · exact ⟨_, _, rfl, Or.inr rfl⟩

/-- is the value of the last attribute of `a :: as` unquoted? -/
def lastBare : Attr → List Attr → Bool
  | a, [] => a.val.isBare
  | _, b :: bs => lastBare b bs

theorem afterName_cons (b : Attr) (bs : List Attr) (trail z : Str) :
    afterName (b :: bs) trail ++ z = b.sep ++ (b.name ++ b.val.render ++ (afterName bs trail ++ z)) := by
  simp [afterName, Attr.render]

theorem attrsLen_ok (patched : Bool) (trail z : Str) (ht : spacesOk trail = true) :
    ∀ (as : List Attr) (a : Attr) (prev : Char) (f : Nat) (budget : Option Nat),
      lookBehindOk prev = true → a.ok = true → as.all Attr.ok = true → Term (lastBare a as) trail z →
      as.length + 1 ≤ f →
      (budget = none ∨ ∃ extra, 0 < extra ∧
        budget = some ((a.name ++ a.val.render ++ afterName as trail).length + extra)) →
      attrsLen patched f prev (a.name ++ a.val.render ++ (afterName as trail ++ z)) budget =
        some (a.name ++ a.val.render ++ afterName as trail).length := by
  intro as
  induction as with
  | nil =>
    intro a prev f budget hp ha _ hterm hf hbud
    obtain ⟨f, rfl⟩ : ∃ g, f = g + 1 := ⟨f - 1, by omega⟩
    have hfol : Follow a.val.isBare trail z := hterm.follow ht
    have hlen := attrLen_ok patched prev hp a ha hfol
    have hname : 0 < a.name.length := by
      simp only [Attr.ok, Bool.and_eq_true] at ha
      obtain ⟨c, r, hn, _⟩ := nameOk_cons ha.1.2
      simp [hn]
    have hb0 : budget ≠ some 0 := by
      rcases hbud with rfl | ⟨e, he, rfl⟩
      · simp
      · simp; omega
    simp only [afterName]
    rw [attrsLen_step patched f prev _ budget hlen (by omega) hb0]
    have hdrop : List.drop (a.name.length + a.val.render.length + trail.length)
        (a.name ++ a.val.render ++ (trail ++ z)) = z := by
      have := drop_len_add (a.name ++ a.val.render ++ trail) z 0
      simpa [Nat.add_assoc] using this
    obtain ⟨c, r, rfl, hc⟩ := hterm.head
    rw [hdrop, attrsLen_stop patched f _ _ _ (attrLen_term patched _ c r hc)]
    simp [Nat.add_assoc]
  | cons b bs ih =>
    intro a prev f budget hp ha has hterm hf hbud
    obtain ⟨f, rfl⟩ : ∃ g, f = g + 1 := ⟨f - 1, by omega⟩
    simp only [List.all_cons, Bool.and_eq_true] at has
    obtain ⟨hb, hbs⟩ := has
    have hbok := hb
    simp only [Attr.ok, Bool.and_eq_true] at hb
    obtain ⟨c, r, hbn, hbc, _⟩ := nameOk_cons hb.1.2
    have hsep : sepOk b.sep = true := hb.1.1
    simp only [sepOk, Bool.and_eq_true, Bool.not_eq_true', List.isEmpty_eq_false_iff] at hsep
    have hfol : Follow a.val.isBare b.sep (b.name ++ b.val.render ++ (afterName bs trail ++ z)) :=
      ⟨hsep.2, Or.inl ⟨c, r ++ b.val.render ++ (afterName bs trail ++ z), by simp [hbn], hbc, hsep.1⟩⟩
    have hlen := attrLen_ok patched prev hp a ha hfol
    have hname : 0 < a.name.length := by
      simp only [Attr.ok, Bool.and_eq_true] at ha
      obtain ⟨c, r, hn, _⟩ := nameOk_cons ha.1.2
      simp [hn]
    have hb0 : budget ≠ some 0 := by
      rcases hbud with rfl | ⟨e, he, rfl⟩
      · simp
      · simp; omega
    rw [afterName_cons]
    rw [attrsLen_step patched f prev _ budget hlen (by omega) hb0]
    have hdrop : List.drop (a.name.length + a.val.render.length + b.sep.length)
        (a.name ++ a.val.render ++ (b.sep ++ (b.name ++ b.val.render ++ (afterName bs trail ++ z)))) =
        b.name ++ b.val.render ++ (afterName bs trail ++ z) := by
      have := drop_len_add (a.name ++ a.val.render ++ b.sep) (b.name ++ b.val.render ++ (afterName bs trail ++ z)) 0
      simpa [Nat.add_assoc] using this
    have hprev : lookBehindOk ((a.name ++ a.val.render ++
        (b.sep ++ (b.name ++ b.val.render ++ (afterName bs trail ++ z)))).getD
          (a.name.length + a.val.render.length + b.sep.length - 1) prev) = true := by
      have := getD_last_mem (a.name ++ a.val.render) b.sep (b.name ++ b.val.render ++ (afterName bs trail ++ z))
        prev hsep.1
      simp only [List.length_append] at this
      have := spCh_facts _ (List.all_eq_true.1 hsep.2 _ this)
      simp [spChFacts] at this; simp [this]
    rw [hdrop, ih b _ f _ hprev hbok hbs (by simpa [lastBare] using hterm) (by simp at hf; omega)
      (by
        rcases hbud with rfl | ⟨e, he, rfl⟩
        · exact Or.inl rfl
        · refine Or.inr ⟨e, he, ?_⟩
          simp [afterName, Attr.render]; omega)]
    simp [afterName, Attr.render]; omega


/-! ### the whole start tag -/

theorem attrs_length_le (as : List Attr) (trail : Str) (h : as.all Attr.ok = true) :
    as.length ≤ (afterName as trail).length := by
  induction as with
  | nil => simp
  | cons a as ih =>
    simp only [List.all_cons, Bool.and_eq_true] at h
    have := ih h.2
    have hs : 0 < a.sep.length := by
      have := h.1; simp only [Attr.ok, sepOk, Bool.and_eq_true, Bool.not_eq_true', List.isEmpty_eq_false_iff] at this
      exact List.length_pos_iff.2 this.1.1.1
    simp [afterName, Attr.render]; omega

/-- `locatestarttagend_tolerant` on a tag without attributes -/
theorem locateEnd_noattrs (c : Char) (r trail : Str) (hr : r.all nameCh = true)
    (ht : spacesOk trail = true) (k : Str) :
    locateEnd ('<' :: c :: (r ++ (trail ++ '>' :: k))) = some (2 + r.length + trail.length) ∧
    locateEnd ('<' :: c :: (r ++ (trail ++ '/' :: '>' :: k))) = some (2 + r.length + trail.length + 1) := by
  have hrl : r.all locNameCh = true := by
    simp only [List.all_eq_true] at hr ⊢; intro e he
    have := nameCh_facts e (hr e he); simp [nameChFacts] at this; simp [this]
  have htw : trail.all wsOrSlash = true := by
    simp only [spacesOk, List.all_eq_true] at ht ⊢; intro e he
    have := spCh_facts e (ht e he); simp [spChFacts] at this; simp [this]
  have hstop : ∀ (y : Str) (d : Char), (d = '>' ∨ d = '/') →
      spanLen locNameCh (r ++ (trail ++ d :: y)) = r.length := by
    intro y d hd
    apply spanLen_stop hrl
    intro e he
    cases trail with
    | nil => simp at he; subst he; rcases hd with rfl | rfl <;> decide
    | cons a w =>
      simp at he; subst he
      simp only [spacesOk, List.all_cons, Bool.and_eq_true] at ht
      have := spCh_facts _ ht.1; simp [spChFacts] at this; simp [this]
  constructor
  · have h1 : spanLen wsOrSlash (trail ++ '>' :: k) = trail.length :=
      spanLen_stop htw (by intro e he; simp at he; subst he; decide)
    have hd1 : List.drop (2 + r.length) ('<' :: c :: (r ++ (trail ++ '>' :: k))) = trail ++ '>' :: k := by
      have := drop_len_add ('<' :: c :: r) (trail ++ '>' :: k) 0
      rw [show 2 + r.length = ('<' :: c :: r).length + 0 by simp; omega]; simpa using this
    have hd2 : List.drop (2 + r.length + trail.length) ('<' :: c :: (r ++ (trail ++ '>' :: k))) = '>' :: k := by
      have := drop_len_add ('<' :: c :: (r ++ trail)) ('>' :: k) 0
      rw [show 2 + r.length + trail.length = ('<' :: c :: (r ++ trail)).length + 0 by simp; omega]
      simpa using this
    simp only [locateEnd, List.drop_succ_cons, List.drop_zero, hstop k '>' (Or.inl rfl), hd1, h1, hd2,
      attrsLen_stop true _ _ _ _ (attrLen_term true _ '>' k (Or.inl rfl))]
    simp only [Nat.add_zero, hd2]
    simp [spanLen_cons, show isSpace '>' = false by decide]
  · have h1 : spanLen wsOrSlash (trail ++ '/' :: '>' :: k) = trail.length + 1 := by
      rw [spanLen_append_of_all htw]
      simp [spanLen_cons, show wsOrSlash '/' = true by decide, show wsOrSlash '>' = false by decide]
    have hd1 : List.drop (2 + r.length) ('<' :: c :: (r ++ (trail ++ '/' :: '>' :: k))) = trail ++ '/' :: '>' :: k := by
      have := drop_len_add ('<' :: c :: r) (trail ++ '/' :: '>' :: k) 0
      rw [show 2 + r.length = ('<' :: c :: r).length + 0 by simp; omega]; simpa using this
    have hd2 : List.drop (2 + r.length + (trail.length + 1)) ('<' :: c :: (r ++ (trail ++ '/' :: '>' :: k))) = '>' :: k := by
      have := drop_len_add ('<' :: c :: (r ++ (trail ++ ['/']))) ('>' :: k) 0
      rw [show 2 + r.length + (trail.length + 1) = ('<' :: c :: (r ++ (trail ++ ['/']))).length + 0 by simp; omega]
      simpa using this
    simp only [locateEnd, List.drop_succ_cons, List.drop_zero, hstop ('>' :: k) '/' (Or.inr rfl), hd1, h1, hd2,
      attrsLen_stop true _ _ _ _ (attrLen_term true _ '>' k (Or.inl rfl))]
    simp only [Nat.add_zero, hd2]
    simp [spanLen_cons, show isSpace '>' = false by decide]; omega

theorem sep_facts {a : Attr} (ha : a.ok = true) :
    a.sep ≠ [] ∧ a.sep.all spCh = true ∧ ∃ c r, a.name = c :: r ∧ isAsciiAlpha c = true ∧ r.all nameCh = true := by
  simp only [Attr.ok, sepOk, Bool.and_eq_true, Bool.not_eq_true', List.isEmpty_eq_false_iff] at ha
  exact ⟨ha.1.1.1, ha.1.1.2, nameOk_cons ha.1.2⟩

/-- `locatestarttagend_tolerant` on a tag with attributes: it ends in front of `>` / `/>` -/
theorem locateEnd_attrs (c : Char) (r trail : Str) (hr : r.all nameCh = true)
    (ht : spacesOk trail = true) (a : Attr) (as : List Attr) (ha : a.ok = true) (has : as.all Attr.ok = true)
    (z : Str) (hz : Term (lastBare a as) trail z) :
    locateEnd ('<' :: c :: (r ++ (afterName (a :: as) trail ++ z))) =
      some (2 + r.length + (afterName (a :: as) trail).length) := by
  obtain ⟨hsne, hsall, c1, r1, hn, hc1, hr1⟩ := sep_facts ha
  have hrl : r.all locNameCh = true := by
    simp only [List.all_eq_true] at hr ⊢; intro e he
    have := nameCh_facts e (hr e he); simp [nameChFacts] at this; simp [this]
  have hsw : a.sep.all wsOrSlash = true := by
    simp only [List.all_eq_true] at hsall ⊢; intro e he
    have := spCh_facts e (hsall e he); simp [spChFacts] at this; simp [this]
  rw [afterName_cons]
  have hc1f := nameCh_facts c1 (alpha_nameCh c1 hc1)
  simp [nameChFacts] at hc1f
  have h0 : spanLen locNameCh (r ++ (a.sep ++ (a.name ++ a.val.render ++ (afterName as trail ++ z)))) = r.length := by
    apply spanLen_stop hrl
    intro e he
    obtain ⟨d, w, hw⟩ := List.exists_cons_of_ne_nil hsne
    rw [hw] at he hsall; simp at he; subst he
    simp only [List.all_cons, Bool.and_eq_true] at hsall
    have := spCh_facts _ hsall.1; simp [spChFacts] at this; simp [this]
  have h1 : spanLen wsOrSlash (a.sep ++ (a.name ++ a.val.render ++ (afterName as trail ++ z))) = a.sep.length := by
    apply spanLen_stop hsw
    intro e he; rw [hn] at he; simp at he; subst he; simp [hc1f]
  have hd1 : List.drop (2 + r.length)
      ('<' :: c :: (r ++ (a.sep ++ (a.name ++ a.val.render ++ (afterName as trail ++ z))))) =
      a.sep ++ (a.name ++ a.val.render ++ (afterName as trail ++ z)) := by
    have := drop_len_add ('<' :: c :: r) (a.sep ++ (a.name ++ a.val.render ++ (afterName as trail ++ z))) 0
    rw [show 2 + r.length = ('<' :: c :: r).length + 0 by simp; omega]; simpa using this
  have hd2 : List.drop (2 + r.length + a.sep.length)
      ('<' :: c :: (r ++ (a.sep ++ (a.name ++ a.val.render ++ (afterName as trail ++ z))))) =
      a.name ++ a.val.render ++ (afterName as trail ++ z) := by
    have := drop_len_add ('<' :: c :: (r ++ a.sep)) (a.name ++ a.val.render ++ (afterName as trail ++ z)) 0
    rw [show 2 + r.length + a.sep.length = ('<' :: c :: (r ++ a.sep)).length + 0 by simp; omega]
    simpa using this
  have hprev : lookBehindOk (('<' :: c :: (r ++ (a.sep ++ (a.name ++ a.val.render ++ (afterName as trail ++ z))))).getD
      (2 + r.length + a.sep.length - 1) ' ') = true := by
    have := getD_last_mem ('<' :: c :: r) a.sep (a.name ++ a.val.render ++ (afterName as trail ++ z)) ' ' hsne
    simp only [List.length_cons, List.cons_append] at this
    rw [show 2 + r.length + a.sep.length - 1 = r.length + 1 + 1 + a.sep.length - 1 by omega]
    have := spCh_facts _ (List.all_eq_true.1 hsall _ this)
    simp [spChFacts] at this; simp [this]
  have hfuel : as.length + 1 ≤
      ('<' :: c :: (r ++ (a.sep ++ (a.name ++ a.val.render ++ (afterName as trail ++ z))))).length := by
    have := attrs_length_le as trail has
    simp; omega
  have hloop := attrsLen_ok true trail z ht as a _ _ none hprev ha has hz hfuel (Or.inl rfl)
  have hd3 : List.drop (2 + r.length + a.sep.length + (a.name ++ a.val.render ++ afterName as trail).length)
      ('<' :: c :: (r ++ (a.sep ++ (a.name ++ a.val.render ++ (afterName as trail ++ z))))) = z := by
    have := drop_len_add ('<' :: c :: (r ++ (a.sep ++ (a.name ++ a.val.render ++ afterName as trail)))) z 0
    rw [show 2 + r.length + a.sep.length + (a.name ++ a.val.render ++ afterName as trail).length =
      ('<' :: c :: (r ++ (a.sep ++ (a.name ++ a.val.render ++ afterName as trail)))).length + 0 by
        simp; omega]
    simpa using this
  obtain ⟨zc, zr, rfl, hzc⟩ := hz.head
  simp only [locateEnd, List.drop_succ_cons, List.drop_zero, h0, hd1, h1, hd2, hloop, hd3]
  have : isSpace zc = false := by rcases hzc with rfl | rfl <;> decide
  simp [spanLen_cons, this, afterName, Attr.render]; omega

/-- `>` or `/>` -/
def termOf (sc : Bool) : Str := if sc then ['/', '>'] else ['>']

/-- is the value of the last attribute unquoted? -/
def lastBareL : List Attr → Bool
  | [] => false
  | a :: as => lastBare a as

theorem lastBareL_eq (as : List Attr) : lastBareL as = (as.getLast?.map (fun a => a.val.isBare)).getD false := by
  cases as with
  | nil => rfl
  | cons a as =>
    simp only [lastBareL]
    induction as generalizing a with
    | nil => rfl
    | cons b bs ih => simp only [lastBare]; rw [ih b]; simp [List.getLast?_cons_cons]

/-- the side condition of a self-closing tag -/
def scOk (sc : Bool) (as : List Attr) (trail : Str) : Prop := sc = true → lastBareL as = true → trail ≠ []

theorem term_of (sc : Bool) (as : List Attr) (trail k : Str) (h : scOk sc as trail) :
    Term (lastBareL as) trail (termOf sc ++ k) := by
  cases sc with
  | false => exact Or.inl ⟨k, rfl⟩
  | true => exact Or.inr ⟨k, rfl, h rfl⟩

theorem checkWhole_ok (sc : Bool) (c : Char) (r trail : Str) (hr : r.all nameCh = true)
    (ht : spacesOk trail = true) (as : List Attr) (has : as.all Attr.ok = true) (hsc : scOk sc as trail) (k : Str) :
    checkWhole ('<' :: c :: (r ++ (afterName as trail ++ (termOf sc ++ k)))) =
      some (some (2 + r.length + (afterName as trail).length + (termOf sc).length)) := by
  cases as with
  | nil =>
    obtain ⟨h1, h2⟩ := locateEnd_noattrs c r trail hr ht k
    cases sc with
    | false =>
      have hd2 : List.drop (2 + r.length + trail.length) ('<' :: c :: (r ++ (trail ++ '>' :: k))) = '>' :: k := by
        have := drop_len_add ('<' :: c :: (r ++ trail)) ('>' :: k) 0
        rw [show 2 + r.length + trail.length = ('<' :: c :: (r ++ trail)).length + 0 by simp; omega]
        simpa using this
      simp only [afterName, termOf, Bool.false_eq_true, if_false, List.cons_append, List.nil_append, checkWhole, h1, hd2]
      simp
    | true =>
      have hd2 : List.drop (2 + r.length + trail.length + 1) ('<' :: c :: (r ++ (trail ++ '/' :: '>' :: k))) = '>' :: k := by
        have := drop_len_add ('<' :: c :: (r ++ (trail ++ ['/']))) ('>' :: k) 0
        rw [show 2 + r.length + trail.length + 1 = ('<' :: c :: (r ++ (trail ++ ['/']))).length + 0 by simp; omega]
        simpa using this
      simp only [afterName, termOf, if_true, List.cons_append, List.nil_append, checkWhole, h2, hd2]
      simp
  | cons a as =>
    simp only [List.all_cons, Bool.and_eq_true] at has
    have hz := term_of sc (a :: as) trail k hsc
    have h1 := locateEnd_attrs c r trail hr ht a as has.1 has.2 (termOf sc ++ k) hz
    have hd : List.drop (2 + r.length + (afterName (a :: as) trail).length)
        ('<' :: c :: (r ++ (afterName (a :: as) trail ++ (termOf sc ++ k)))) = termOf sc ++ k := by
      have := drop_len_add ('<' :: c :: (r ++ afterName (a :: as) trail)) (termOf sc ++ k) 0
      rw [show 2 + r.length + (afterName (a :: as) trail).length =
        ('<' :: c :: (r ++ afterName (a :: as) trail)).length + 0 by simp; omega]
      simpa using this
    simp only [checkWhole, h1, hd]
    cases sc <;> simp [termOf]

/-- source text of a start tag / self-closing tag -/
def tagText (sc : Bool) (c : Char) (r : Str) (as : List Attr) (trail : Str) : Str :=
  '<' :: c :: (r ++ (afterName as trail ++ termOf sc))

/-- the event a start tag / self-closing tag fires -/
def tagEvent (sc : Bool) (name text : Str) (als bf : Bool) : Event :=
  if sc then .empty text (isBlockLevelTag (lower name)) als bf
  else .start (lower name) text als (isBlockLevelTag (lower name)) (lower name = ['h', 'r']) bf

theorem strip_termOf (sc : Bool) : strip (termOf sc) = termOf sc := by cases sc <;> decide

theorem parseStartTag_ok (sc : Bool) (c : Char) (r trail : Str) (hc : isAsciiAlpha c = true)
    (hr : r.all nameCh = true) (ht : spacesOk trail = true) (as : List Attr) (has : as.all Attr.ok = true)
    (hsc : scOk sc as trail) (k : Str) (als : Bool) (bf : Str → Bool) :
    parseStartTag (tagText sc c r as trail ++ k) als bf =
      .ok (tagText sc c r as trail).length
        [tagEvent sc (c :: r) (tagText sc c r as trail) als (bf (tagText sc c r as trail))] := by
  have hs : tagText sc c r as trail ++ k = '<' :: c :: (r ++ (afterName as trail ++ (termOf sc ++ k))) := by
    simp [tagText]
  have hlen : (tagText sc c r as trail).length = 2 + r.length + (afterName as trail).length + (termOf sc).length := by
    simp [tagText]; omega
  have hcw := checkWhole_ok sc c r trail hr ht as has hsc k
  have hrf : r.all findNameCh = true := by
    simp only [List.all_eq_true] at hr ⊢; intro e he
    have := nameCh_facts e (hr e he); simp [nameChFacts] at this; simp [this]
  have hz := term_of sc as trail k hsc
  -- the first character behind the name
  have hfol : ∃ w z', afterName as trail ++ (termOf sc ++ k) = w ++ z' ∧ Follow false w z' ∧
      attrsLen false ('<' :: c :: (r ++ (afterName as trail ++ (termOf sc ++ k)))).length
        (('<' :: c :: (r ++ (afterName as trail ++ (termOf sc ++ k)))).getD (2 + r.length + w.length - 1) ' ') z'
        (some ((afterName as trail).length + (termOf sc).length - w.length)) =
        some ((afterName as trail).length - w.length) := by
    cases as with
    | nil =>
      refine ⟨trail, termOf sc ++ k, rfl, ?_, ?_⟩
      · cases sc with
        | false => exact ⟨ht, Or.inr (Or.inl ⟨k, rfl⟩)⟩
        | true => exact ⟨ht, Or.inr (Or.inr ⟨k, rfl, by simp⟩)⟩
      · obtain ⟨zc, zr, hzeq, hzc⟩ := hz.head
        rw [hzeq, attrsLen_stop false _ _ _ _ (attrLen_term false _ zc zr hzc)]
        simp [afterName]
    | cons a as =>
      simp only [List.all_cons, Bool.and_eq_true] at has
      obtain ⟨hsne, hsall, c1, r1, hn, hc1, hr1⟩ := sep_facts has.1
      refine ⟨a.sep, a.name ++ a.val.render ++ (afterName as trail ++ (termOf sc ++ k)), afterName_cons a as trail _,
        ⟨hsall, Or.inl ⟨c1, r1 ++ a.val.render ++ (afterName as trail ++ (termOf sc ++ k)), by simp [hn], hc1, hsne⟩⟩, ?_⟩
      have hprev : lookBehindOk (('<' :: c :: (r ++ (afterName (a :: as) trail ++ (termOf sc ++ k)))).getD
          (2 + r.length + a.sep.length - 1) ' ') = true := by
        rw [afterName_cons]
        have := getD_last_mem ('<' :: c :: r) a.sep (a.name ++ a.val.render ++ (afterName as trail ++ (termOf sc ++ k))) ' ' hsne
        simp only [List.length_cons, List.cons_append] at this
        rw [show 2 + r.length + a.sep.length - 1 = r.length + 1 + 1 + a.sep.length - 1 by omega]
        have := spCh_facts _ (List.all_eq_true.1 hsall _ this)
        simp [spChFacts] at this; simp [this]
      have hfuel : as.length + 1 ≤ ('<' :: c :: (r ++ (afterName (a :: as) trail ++ (termOf sc ++ k)))).length := by
        have := attrs_length_le as trail has.2
        simp [afterName, Attr.render]; omega
      have hloop := attrsLen_ok false trail (termOf sc ++ k) ht as a _ _
        (some ((afterName (a :: as) trail).length + (termOf sc).length - a.sep.length)) hprev has.1 has.2
        (by simpa [lastBareL] using hz) hfuel
        (Or.inr ⟨(termOf sc).length, by cases sc <;> simp [termOf], by
          simp [afterName, Attr.render]; omega⟩)
      rw [hloop]; simp [afterName, Attr.render]; try omega
  obtain ⟨w, z', hwz, hfw, hloop⟩ := hfol
  have hnamespan : spanLen findNameCh (r ++ (afterName as trail ++ (termOf sc ++ k))) = r.length := by
    apply spanLen_stop hrf
    intro e he
    rw [hwz] at he
    have := hfw.head_not_attrCont e he
    cases w with
    | nil =>
      obtain ⟨zc, zr, hzeq, _, _, _, hzc⟩ := hfw.z_head
      rw [hzeq] at he; simp at he; subst he
      rcases hfw.hd with ⟨_, _, _, _, hw⟩ | ⟨r', h'⟩ | ⟨r', h', _⟩
      · exact absurd rfl hw
      · rw [hzeq] at h'; simp at h'; rw [h'.1]; decide
      · rw [hzeq] at h'; simp at h'; rw [h'.1]; decide
    | cons a w =>
      simp at he; subst he
      have := hfw.sp; simp only [spacesOk, List.all_cons, Bool.and_eq_true] at this
      have := spCh_facts _ this.1; simp [spChFacts] at this; simp [this]
  have hd1 : List.drop (1 + (1 + r.length)) ('<' :: c :: (r ++ (afterName as trail ++ (termOf sc ++ k)))) =
      afterName as trail ++ (termOf sc ++ k) := by
    have := drop_len_add ('<' :: c :: r) (afterName as trail ++ (termOf sc ++ k)) 0
    rw [show 1 + (1 + r.length) = ('<' :: c :: r).length + 0 by simp; omega]; simpa using this
  have hsig : (c :: r).contains sigma = false := by
    have : ∀ e ∈ c :: r, e ≠ sigma := by
      intro e he
      have : nameCh e = true := by
        rcases List.mem_cons.1 he with rfl | he
        · exact alpha_nameCh _ hc
        · exact List.all_eq_true.1 hr e he
      have := nameCh_facts e this; simp [nameChFacts] at this; exact this.1.1.2
    simp only [List.contains_eq_mem, decide_eq_false_iff_not]
    intro hm; exact this _ hm rfl
  have hwl : w.length ≤ (afterName as trail).length := by
    have := congrArg List.length hwz
    have hz1 : 0 < z'.length := by obtain ⟨zc, zr, hzeq, _⟩ := hfw.z_head; simp [hzeq]
    cases as with
    | nil =>
      simp only [afterName] at this ⊢
      obtain ⟨zc, zr, hzeq, _, _, _, hzc⟩ := hfw.z_head
      -- `w` and `trail` are both the maximal run of spaces
      have e1 := hfw.spanSpace
      have e2 := (hz.follow ht).spanSpace
      simp only [afterName] at hwz
      rw [← hwz, e2] at e1; omega
    | cons a as =>
      have e1 := hfw.spanSpace
      simp only [List.all_cons, Bool.and_eq_true] at has
      obtain ⟨hsne, hsall, c1, r1, hn, hc1, hr1⟩ := sep_facts has.1
      have hf2 : Follow false a.sep (a.name ++ a.val.render ++ (afterName as trail ++ (termOf sc ++ k))) :=
        ⟨hsall, Or.inl ⟨c1, r1 ++ a.val.render ++ (afterName as trail ++ (termOf sc ++ k)), by simp [hn], hc1, hsne⟩⟩
      have e2 := hf2.spanSpace
      rw [← afterName_cons, hwz, e1] at e2
      simp [afterName, Attr.render]; omega
  have hd2 : List.drop (1 + (1 + r.length) + w.length) ('<' :: c :: (r ++ (afterName as trail ++ (termOf sc ++ k)))) = z' := by
    rw [hwz]
    have := drop_len_add ('<' :: c :: (r ++ w)) z' 0
    rw [show 1 + (1 + r.length) + w.length = ('<' :: c :: (r ++ w)).length + 0 by simp; omega]; simpa using this
  have hslice : slice ('<' :: c :: (r ++ (afterName as trail ++ (termOf sc ++ k))))
      (1 + (1 + r.length) + w.length + ((afterName as trail).length - w.length))
      (2 + r.length + (afterName as trail).length + (termOf sc).length) = termOf sc := by
    unfold slice
    have := drop_len_add ('<' :: c :: (r ++ afterName as trail)) (termOf sc ++ k) 0
    rw [show 1 + (1 + r.length) + w.length + ((afterName as trail).length - w.length) =
      ('<' :: c :: (r ++ afterName as trail)).length + 0 by simp; omega]
    simp only [List.cons_append, List.append_assoc, List.drop_zero] at this
    rw [this]
    rw [show 2 + r.length + (afterName as trail).length + (termOf sc).length -
      (('<' :: c :: (r ++ afterName as trail)).length + 0) = (termOf sc).length by simp; omega]
    simp
  have htake : List.take (2 + r.length + (afterName as trail).length + (termOf sc).length)
      ('<' :: c :: (r ++ (afterName as trail ++ (termOf sc ++ k)))) = tagText sc c r as trail := by
    have := take_len_add (tagText sc c r as trail) k 0
    rw [← hlen, hs.symm]; simpa using this
  have hname : slice ('<' :: c :: (r ++ (afterName as trail ++ (termOf sc ++ k)))) 1 (1 + (1 + r.length)) = c :: r := by
    unfold slice
    simp only [List.drop_succ_cons, List.drop_zero]
    rw [show 1 + (1 + r.length) - 1 = (c :: r).length + 0 by simp; omega]
    have := take_len_add (c :: r) (afterName as trail ++ (termOf sc ++ k)) 0
    simpa using this
  rw [hs]
  unfold parseStartTag
  have hws : wsSlashLen (afterName as trail ++ (termOf sc ++ k)) = w.length := by rw [hwz]; exact hfw.wsSlash
  simp only [hcw, List.drop_succ_cons, List.drop_zero, hnamespan, hd1, hws]
  simp only [hd2, hname, hsig, htake]
  rw [show 1 + (1 + r.length) + w.length - 1 = 2 + r.length + w.length - 1 by omega,
    show 2 + r.length + (afterName as trail).length + (termOf sc).length - (1 + (1 + r.length) + w.length) =
      (afterName as trail).length + (termOf sc).length - w.length by omega, hloop]
  simp only [hslice, strip_termOf, hlen]
  cases sc <;> simp [termOf, tagEvent]
end MdVerif.HtmlTok
