/-
Helper lemmas for C01 with inline links AND inline images in one line (`Props/C01i.lean`, last part): the stages after
the pattern loop on a line `C₀ U₁ C₁ … Uₘ Cₘ` whose uses are links and images in any order (definitions in
`Lemmas/DocParse6MDef.lean`) — where the pieces are in the stash, `__processPlaceholders`, the element through the
inline processor, prettify, unescape, the serializer; the element as an `Elem` (`gElem`, `gElem_ok`).  The pattern
loop itself is a hypothesis (`LoopOKG`).  Merge of `Lemmas/RefTextStash.lean`, `RefTextPP.lean`, `RefTextInlDoc.lean`,
`DocParse5.lean` §7 (links) and `Lemmas/DocParse6Back.lean` (images).  Core Lean only.
-/
import MdVerif.Lemmas.DocParse6MDef
import MdVerif.Lemmas.DocParse6Back
import MdVerif.Lemmas.DocParse6H

set_option linter.unusedSimpArgs false

namespace MdVerif.DocMix
open Py Inline Escape DocSpec CodeLaw DocParse Block DocParse2 RefText DocLink DocImg

/-! ### 1. where the pieces are in the stash -/

theorem gNodes0_length (gs : List GUse) : (gNodes0 gs).length = gCnt0 gs := by
  induction gs with
  | nil => rfl
  | cons g r ih =>
    cases g with
    | lk u => simp [gNodes0, gCnt0, GUse.tCnt, GUse.C, ih, Chunk.cnt]; omega
    | im u => simp [gNodes0, gCnt0, GUse.tCnt, GUse.C, ih, Chunk.cnt]

theorem gEscStash_length (esc : List Char) (gs : List GUse) : (gEscStash esc gs).length = gEscs esc gs := by
  induction gs with
  | nil => rfl
  | cons g r ih =>
    cases g with
    | lk u => simp [gEscStash, gEscs, GUse.tEscs, GUse.C, ih, Chunk.escStash_length]; omega
    | im u => simp [gEscStash, gEscs, GUse.tEscs, GUse.C, ih, Chunk.escStash_length]

theorem gLinkStash_length (esc : List Char) (gs : List GUse) :
    ∀ (m n0 s : Nat), (gLinkStash esc m n0 s gs).length = gLinkLen gs := by
  induction gs with
  | nil => intro _ _ _; rfl
  | cons g r ih =>
    intro m n0 s
    cases g with
    | lk u => simp [gLinkStash, gLinkLen, ih, Chunk.cnt]; omega
    | im u => simp [gLinkStash, gLinkLen, ih]

theorem gImgs_length (gs : List GUse) : (gImgs gs).length = gImgLen gs := by
  induction gs with
  | nil => rfl
  | cons g r ih =>
    cases g with
    | lk u => simp [gImgs, gImgLen, ih]
    | im u => simp [gImgs, gImgLen, ih]

theorem outCnt_gOuter (esc : List Char) (k : Nat) (gs : List GUse) :
    ∀ (m n0 s t : Nat), outCnt k (gOuter esc m n0 s t gs) = gOutCnt k gs := by
  induction gs with
  | nil => intro _ _ _ _; rfl
  | cons g r ih =>
    intro m n0 s t
    cases g with
    | lk u => simp [gOuter, outCnt, gOutCnt, GUse.C, ih]
    | im u => simp [gOuter, outCnt, gOutCnt, GUse.C, ih]

theorem outNodes_gOuter_length (esc : List Char) (k : Nat) (gs : List GUse) (m n0 s t : Nat) :
    (outNodes k (gOuter esc m n0 s t gs)).length = gOutCnt k gs := by
  rw [outNodes_length, outCnt_gOuter]

theorem outNodes_gOuter_lk (esc : List Char) (k : Nat) (u : IUse) (r : List GUse) (m n0 s t : Nat) :
    outNodes k (gOuter esc m n0 s t (.lk u :: r)) = nodesOf k u.C.segs ++
      outNodes k (gOuter esc (m + u.T.escs esc + u.C.escs esc) (n0 + u.T.cnt 0 + u.C.cnt 0)
        (s + u.T.cnt 1 + u.T.cnt 2 + 1) t r) := rfl

theorem outNodes_gOuter_im (esc : List Char) (k : Nat) (u : DocImg.MUse) (r : List GUse) (m n0 s t : Nat) :
    outNodes k (gOuter esc m n0 s t (.im u :: r)) = nodesOf k u.C.segs ++
      outNodes k (gOuter esc (m + u.C.escs esc) (n0 + u.C.cnt 0) s (t + 1) r) := rfl

/-- the lengths of the regions of the stash -/
local macro "glen" : tactic =>
  `(tactic| first
    | (simp only [List.length_append, List.length_cons, List.length_nil, gNodes0_length, gEscStash_length,
        gLinkStash_length, gImgs_length, outNodes_gOuter_length, Chunk.escStash_length, cnt_len, gCnt0, gEscs, gLinkLen,
        gImgLen, gOutCnt, GUse.tCnt, GUse.tEscs, GUse.C]; omega)
    | omega)

/-- where the stash holds the pieces of the uses.  A link: the link text (escapes from `m`, code spans from `n0`, its
    emphases from `s`), its `<a>` element, the content after it (emphases from `n1`, `n2`).  An image: its `<img>`
    element (number `t`), the content after it. -/
def GAt (esc : List Char) (S : List StashItem) : Nat → Nat → Nat → Nat → Nat → Nat → List GUse → Prop
  | _, _, _, _, _, _, [] => True
  | m, n0, s, t, n1, n2, .lk u :: r =>
    ChunkAt esc S u.T m n0 s (s + u.T.cnt 1) ∧
    S[s + u.T.cnt 1 + u.T.cnt 2]? =
      some (.node (InlineRef.linkEl u.url (titleOf u.dtitle) (u.T.stage esc 3 true m n0 s (s + u.T.cnt 1)))) ∧
    ChunkAt esc S u.C (m + u.T.escs esc) (n0 + u.T.cnt 0) n1 n2 ∧
    GAt esc S (m + u.T.escs esc + u.C.escs esc) (n0 + u.T.cnt 0 + u.C.cnt 0) (s + u.T.cnt 1 + u.T.cnt 2 + 1) t
      (n1 + u.C.cnt 1) (n2 + u.C.cnt 2) r
  | m, n0, s, t, n1, n2, .im u :: r =>
    S[t]? = some (.node (imgNode u)) ∧
    ChunkAt esc S u.C m n0 n1 n2 ∧
    GAt esc S (m + u.C.escs esc) (n0 + u.C.cnt 0) s (t + 1) (n1 + u.C.cnt 1) (n2 + u.C.cnt 2) r

/-- **where the pieces of the uses are** in a stash of the shape
    `P0, code spans, P1, escapes, P2, link entries, P3, <img> elements, P4, * emphases outside, P5, _ emphases
    outside, E` -/
theorem gAt_layout (esc : List Char) (gs : List GUse) :
    ∀ (P0 P1 P2 P3 P4 P5 E : List StashItem) (m n0 s t n1 n2 : Nat), n0 = P0.length →
      m = P0.length + gCnt0 gs + P1.length → s = m + gEscs esc gs + P2.length →
      t = s + gLinkLen gs + P3.length → n1 = t + gImgLen gs + P4.length → n2 = n1 + gOutCnt 1 gs + P5.length →
      GAt esc (P0 ++ gNodes0 gs ++ P1 ++ gEscStash esc gs ++ P2 ++ gLinkStash esc m n0 s gs ++ P3 ++ gImgs gs ++ P4 ++
        outNodes 1 (gOuter esc m n0 s t gs) ++ P5 ++ outNodes 2 (gOuter esc m n0 s t gs) ++ E) m n0 s t n1 n2 gs := by
  induction gs with
  | nil => intro _ _ _ _ _ _ _ _ _ _ _ _ _ _ _ _ _ _ _; trivial
  | cons g r ih =>
    intro P0 P1 P2 P3 P4 P5 E m n0 s t n1 n2 h0 hm hs ht h1 h2
    cases g with
    | lk u =>
      generalize hS : P0 ++ gNodes0 (.lk u :: r) ++ P1 ++ gEscStash esc (.lk u :: r) ++ P2 ++
        gLinkStash esc m n0 s (.lk u :: r) ++ P3 ++ gImgs (.lk u :: r) ++ P4 ++
        outNodes 1 (gOuter esc m n0 s t (.lk u :: r)) ++ P5 ++ outNodes 2 (gOuter esc m n0 s t (.lk u :: r)) ++ E = S
      generalize hm' : m + u.T.escs esc + u.C.escs esc = m' at *
      generalize hn0' : n0 + u.T.cnt 0 + u.C.cnt 0 = n0' at *
      generalize hs' : s + u.T.cnt 1 + u.T.cnt 2 + 1 = s' at *
      have hLr := gLinkStash_length esc r m' n0' s'
      have hO1 := outNodes_gOuter_length esc 1 r m' n0' s' t
      have hO2 := outNodes_gOuter_length esc 2 r m' n0' s' t
      have hN0 := gNodes0_length r
      have hEr := gEscStash_length esc r
      have hIr := gImgs_length r
      have hET := Chunk.escStash_length esc u.T
      have hEC := Chunk.escStash_length esc u.C
      simp only [gCnt0, gEscs, gLinkLen, gImgLen, gOutCnt, GUse.tCnt, GUse.tEscs, GUse.C] at hm hs ht h1 h2
      refine ⟨⟨?_, ?_⟩, ?_, ⟨?_, ?_⟩, ?_⟩
      · -- escapes of the link text
        have := escs_at esc u.T (P0 ++ gNodes0 (.lk u :: r) ++ P1)
          (u.C.escStash esc ++ gEscStash esc r ++ P2 ++ gLinkStash esc m n0 s (.lk u :: r) ++ P3 ++
            gImgs (.lk u :: r) ++ P4 ++
            outNodes 1 (gOuter esc m n0 s t (.lk u :: r)) ++ P5 ++ outNodes 2 (gOuter esc m n0 s t (.lk u :: r)) ++ E) m
          (by glen)
        rw [← hS]
        simpa [gEscStash, List.append_assoc] using this
      · -- items of the link text
        have := mStash_at u.T.segs P0 (nodesOf 0 u.C.segs ++ gNodes0 r ++ P1 ++ gEscStash esc (.lk u :: r) ++ P2) []
          (.node (InlineRef.linkEl u.url (titleOf u.dtitle) (u.T.stage esc 3 true m n0 s (s + u.T.cnt 1))) ::
            gLinkStash esc m' n0' s' r ++ P3 ++ gImgs (.lk u :: r) ++ P4 ++
            outNodes 1 (gOuter esc m n0 s t (.lk u :: r)) ++ P5 ++
            outNodes 2 (gOuter esc m n0 s t (.lk u :: r)) ++ E) n0 s (s + u.T.cnt 1) h0
          (by glen)
          (by glen)
        rw [← hS]
        simpa [gNodes0, gLinkStash, List.append_assoc, hm', hn0', hs'] using this
      · -- the `<a>` element
        rw [← hS]
        have hpre : (P0 ++ gNodes0 (.lk u :: r) ++ P1 ++ gEscStash esc (.lk u :: r) ++ P2 ++ nodesOf 1 u.T.segs ++
            nodesOf 2 u.T.segs).length = s + u.T.cnt 1 + u.T.cnt 2 := by
          glen
        have hform : P0 ++ gNodes0 (.lk u :: r) ++ P1 ++ gEscStash esc (.lk u :: r) ++ P2 ++
            gLinkStash esc m n0 s (.lk u :: r) ++ P3 ++ gImgs (.lk u :: r) ++ P4 ++
            outNodes 1 (gOuter esc m n0 s t (.lk u :: r)) ++ P5 ++ outNodes 2 (gOuter esc m n0 s t (.lk u :: r)) ++ E =
            (P0 ++ gNodes0 (.lk u :: r) ++ P1 ++ gEscStash esc (.lk u :: r) ++ P2 ++ nodesOf 1 u.T.segs ++
              nodesOf 2 u.T.segs) ++
            (.node (InlineRef.linkEl u.url (titleOf u.dtitle) (u.T.stage esc 3 true m n0 s (s + u.T.cnt 1))) ::
              (gLinkStash esc m' n0' s' r ++ P3 ++ gImgs (.lk u :: r) ++ P4 ++
              outNodes 1 (gOuter esc m n0 s t (.lk u :: r)) ++ P5 ++
              outNodes 2 (gOuter esc m n0 s t (.lk u :: r)) ++ E)) := by
          simp [gLinkStash, List.append_assoc, hm', hn0', hs']
        rw [hform, ← hpre, List.getElem?_append_right (Nat.le_refl _)]
        simp
      · -- escapes of the content after the link
        have := escs_at esc u.C (P0 ++ gNodes0 (.lk u :: r) ++ P1 ++ u.T.escStash esc)
          (gEscStash esc r ++ P2 ++ gLinkStash esc m n0 s (.lk u :: r) ++ P3 ++ gImgs (.lk u :: r) ++ P4 ++
            outNodes 1 (gOuter esc m n0 s t (.lk u :: r)) ++ P5 ++ outNodes 2 (gOuter esc m n0 s t (.lk u :: r)) ++ E)
          (m + u.T.escs esc)
          (by glen)
        rw [← hS]
        simpa [gEscStash, List.append_assoc] using this
      · -- items of the content after the link
        have := mStash_at u.C.segs (P0 ++ nodesOf 0 u.T.segs)
          (gNodes0 r ++ P1 ++ gEscStash esc (.lk u :: r) ++ P2 ++ gLinkStash esc m n0 s (.lk u :: r) ++ P3 ++
            gImgs (.lk u :: r) ++ P4)
          (outNodes 1 (gOuter esc m' n0' s' t r) ++ P5)
          (outNodes 2 (gOuter esc m' n0' s' t r) ++ E) (n0 + u.T.cnt 0) n1 n2
          (by simp only [List.length_append, cnt_len, h0])
          (by glen)
          (by glen)
        rw [← hS]
        simpa [gNodes0, outNodes_gOuter_lk, List.append_assoc, hm', hn0', hs'] using this
      · -- the other uses
        have := ih (P0 ++ nodesOf 0 u.T.segs ++ nodesOf 0 u.C.segs) (P1 ++ u.T.escStash esc ++ u.C.escStash esc)
          (P2 ++ nodesOf 1 u.T.segs ++ nodesOf 2 u.T.segs ++
            [.node (InlineRef.linkEl u.url (titleOf u.dtitle) (u.T.stage esc 3 true m n0 s (s + u.T.cnt 1)))])
          P3 (P4 ++ nodesOf 1 u.C.segs) (P5 ++ nodesOf 2 u.C.segs) E m' n0' s' t (n1 + u.C.cnt 1) (n2 + u.C.cnt 2)
          (by glen)
          (by glen)
          (by glen)
          (by glen)
          (by glen)
          (by glen)
        rw [← hS]
        simpa [gNodes0, gEscStash, gLinkStash, gImgs, outNodes_gOuter_lk, List.append_assoc, hm', hn0', hs'] using this
    | im u =>
      generalize hS : P0 ++ gNodes0 (.im u :: r) ++ P1 ++ gEscStash esc (.im u :: r) ++ P2 ++
        gLinkStash esc m n0 s (.im u :: r) ++ P3 ++ gImgs (.im u :: r) ++ P4 ++
        outNodes 1 (gOuter esc m n0 s t (.im u :: r)) ++ P5 ++ outNodes 2 (gOuter esc m n0 s t (.im u :: r)) ++ E = S
      generalize hm' : m + u.C.escs esc = m' at *
      generalize hn0' : n0 + u.C.cnt 0 = n0' at *
      have hLr := gLinkStash_length esc r m' n0' s
      have hO1 := outNodes_gOuter_length esc 1 r m' n0' s (t + 1)
      have hO2 := outNodes_gOuter_length esc 2 r m' n0' s (t + 1)
      have hN0 := gNodes0_length r
      have hEr := gEscStash_length esc r
      have hIr := gImgs_length r
      have hEC := Chunk.escStash_length esc u.C
      simp only [gCnt0, gEscs, gLinkLen, gImgLen, gOutCnt, GUse.tCnt, GUse.tEscs, GUse.C] at hm hs ht h1 h2
      refine ⟨?_, ⟨?_, ?_⟩, ?_⟩
      · -- the `<img>` element
        rw [← hS]
        have hpre : (P0 ++ gNodes0 (.im u :: r) ++ P1 ++ gEscStash esc (.im u :: r) ++ P2 ++
            gLinkStash esc m n0 s (.im u :: r) ++ P3).length = t := by
          glen
        have hform : P0 ++ gNodes0 (.im u :: r) ++ P1 ++ gEscStash esc (.im u :: r) ++ P2 ++
            gLinkStash esc m n0 s (.im u :: r) ++ P3 ++ gImgs (.im u :: r) ++ P4 ++
            outNodes 1 (gOuter esc m n0 s t (.im u :: r)) ++ P5 ++ outNodes 2 (gOuter esc m n0 s t (.im u :: r)) ++ E =
            (P0 ++ gNodes0 (.im u :: r) ++ P1 ++ gEscStash esc (.im u :: r) ++ P2 ++
              gLinkStash esc m n0 s (.im u :: r) ++ P3) ++
            (.node (imgNode u) :: (gImgs r ++ P4 ++
              outNodes 1 (gOuter esc m n0 s t (.im u :: r)) ++ P5 ++
              outNodes 2 (gOuter esc m n0 s t (.im u :: r)) ++ E)) := by
          simp [gImgs, List.append_assoc]
        rw [hform, ← hpre, List.getElem?_append_right (Nat.le_refl _)]
        simp
      · -- escapes of the content after the image
        have := escs_at esc u.C (P0 ++ gNodes0 (.im u :: r) ++ P1)
          (gEscStash esc r ++ P2 ++ gLinkStash esc m n0 s (.im u :: r) ++ P3 ++ gImgs (.im u :: r) ++ P4 ++
            outNodes 1 (gOuter esc m n0 s t (.im u :: r)) ++ P5 ++ outNodes 2 (gOuter esc m n0 s t (.im u :: r)) ++ E) m
          (by glen)
        rw [← hS]
        simpa [gEscStash, List.append_assoc] using this
      · -- items of the content after the image
        have := mStash_at u.C.segs P0
          (gNodes0 r ++ P1 ++ gEscStash esc (.im u :: r) ++ P2 ++ gLinkStash esc m n0 s (.im u :: r) ++ P3 ++
            gImgs (.im u :: r) ++ P4)
          (outNodes 1 (gOuter esc m' n0' s (t + 1) r) ++ P5)
          (outNodes 2 (gOuter esc m' n0' s (t + 1) r) ++ E) n0 n1 n2 h0
          (by glen)
          (by glen)
        rw [← hS]
        simpa [gNodes0, outNodes_gOuter_im, List.append_assoc, hm', hn0'] using this
      · -- the other uses
        have := ih (P0 ++ nodesOf 0 u.C.segs) (P1 ++ u.C.escStash esc) P2 (P3 ++ [.node (imgNode u)])
          (P4 ++ nodesOf 1 u.C.segs) (P5 ++ nodesOf 2 u.C.segs) E m' n0' s (t + 1) (n1 + u.C.cnt 1) (n2 + u.C.cnt 2)
          (by glen)
          (by glen)
          (by glen)
          (by glen)
          (by glen)
          (by glen)
        rw [← hS]
        simpa [gNodes0, gEscStash, gLinkStash, gImgs, outNodes_gOuter_im, List.append_assoc, hm', hn0'] using this

/-- **where the pieces of the line are** in the stash the pattern loop leaves -/
theorem gAt (esc : List Char) (S0 : List StashItem) (C0 : Chunk) (gs : List GUse) :
    ChunkAt esc (S0 ++ gStash esc S0.length C0 gs) C0 (mStartG S0.length C0 gs) S0.length
        (o1StartG esc S0.length C0 gs) (o2StartG esc S0.length C0 gs) ∧
    GAt esc (S0 ++ gStash esc S0.length C0 gs) (mStartG S0.length C0 gs + C0.escs esc) (S0.length + C0.cnt 0)
        (lStartG esc S0.length C0 gs) (iStartG esc S0.length C0 gs)
        (o1StartG esc S0.length C0 gs + C0.cnt 1) (o2StartG esc S0.length C0 gs + C0.cnt 2) gs := by
  refine ⟨⟨?_, ?_⟩, ?_⟩
  · have := escs_at esc C0 (S0 ++ nodesOf 0 C0.segs ++ gNodes0 gs)
      (gEscStash esc gs ++ lineLinksG esc S0.length C0 gs ++ gImgs gs ++
        (nodesOf 1 C0.segs ++ outNodes 1 (lineOuterG esc S0.length C0 gs)) ++
        (nodesOf 2 C0.segs ++ outNodes 2 (lineOuterG esc S0.length C0 gs))) (mStartG S0.length C0 gs)
      (by simp only [List.length_append, gNodes0_length, cnt_len, mStartG])
    simpa [gStash, List.append_assoc] using this
  · have := mStash_at C0.segs S0 (gNodes0 gs ++ C0.escStash esc ++ gEscStash esc gs ++ lineLinksG esc S0.length C0 gs ++
        gImgs gs)
      (outNodes 1 (lineOuterG esc S0.length C0 gs)) (outNodes 2 (lineOuterG esc S0.length C0 gs)) S0.length
      (o1StartG esc S0.length C0 gs) (o2StartG esc S0.length C0 gs) rfl
      (by simp only [List.length_append, gNodes0_length, gEscStash_length, gImgs_length, Chunk.escStash_length, cnt_len,
            lineLinksG, gLinkStash_length, o1StartG, iStartG, lStartG, mStartG]; try omega)
      (by simp only [List.length_append, gNodes0_length, gEscStash_length, gImgs_length, Chunk.escStash_length, cnt_len,
            lineLinksG, lineOuterG, gLinkStash_length, outNodes_gOuter_length, o2StartG, o1StartG, iStartG, lStartG,
            mStartG]; try omega)
    simpa [gStash, List.append_assoc] using this
  · have := gAt_layout esc gs (S0 ++ nodesOf 0 C0.segs) (C0.escStash esc) [] [] (nodesOf 1 C0.segs) (nodesOf 2 C0.segs) []
      (mStartG S0.length C0 gs + C0.escs esc) (S0.length + C0.cnt 0) (lStartG esc S0.length C0 gs)
      (iStartG esc S0.length C0 gs)
      (o1StartG esc S0.length C0 gs + C0.cnt 1) (o2StartG esc S0.length C0 gs + C0.cnt 2)
      (by simp only [List.length_append, cnt_len])
      (by simp only [List.length_append, Chunk.escStash_length, cnt_len, mStartG]; try omega)
      (by simp only [List.length_nil, lStartG]; try omega)
      (by simp only [List.length_nil, iStartG]; try omega)
      (by simp only [cnt_len, o1StartG]; try omega)
      (by simp only [cnt_len, o2StartG]; try omega)
    simpa [gStash, lineLinksG, lineOuterG, List.append_assoc] using this

/-! ### 2. `__processPlaceholders` on the residue of the line -/

/-- the state of the loop after the uses -/
def foldG (esc : List Char) : List GUse → List Node × Node → List Node × Node
  | [], rp => rp
  | .lk u :: r, rp =>
    foldG esc r (foldM esc u.C.segs (lt (coded esc u.C.t0) (aNode esc u.url (titleOf u.dtitle) u.T :: rp.1, rp.2)))
  | .im u :: r, rp => foldG esc r (foldM esc u.C.segs (lt (coded esc u.C.t0) (imgNode u :: rp.1, rp.2)))

def costG (esc : List Char) : List GUse → Nat
  | [] => 1
  | .lk u :: r => 1 + costC esc u.C.t0 u.C.segs + costG esc r
  | .im u :: r => 1 + costC esc u.C.t0 u.C.segs + costG esc r

/-- what `__processPlaceholders` needs of the texts: no STX, clean items, a visible link text -/
def GPP : GUse → Prop
  | .lk u => UsePP (IUse.toR u)
  | .im u => ImPP u

theorem nextOK_gs (esc : List Char) (S : List StashItem) (f : Nat) (gs : List GUse) :
    ∀ (m n0 s t n1 n2 g : Nat), GAt esc S m n0 s t n1 n2 gs → (∀ x ∈ gs, GPP x) →
      NextOK S (procNode fun d a p i => processPlaceholders S (f + 2) d a p i)
        (outStage esc 3 n1 n2 (gOuter esc m n0 s t gs)) (g + costG esc gs)
        (fun _ st => some ((foldG esc gs st).1.reverse, (foldG esc gs st).2)) := by
  induction gs with
  | nil =>
    intro m n0 s t n1 n2 g _ _
    simpa [outStage, gOuter, costG, foldG] using nextOK_end S _ g
  | cons x r ih =>
    intro m n0 s t n1 n2 g hat hpp
    cases x with
    | lk u =>
      obtain ⟨hT, hL, hC, hR⟩ := hat
      have hu : UsePP (IUse.toR u) := hpp (.lk u) List.mem_cons_self
      have hKr := ih (m + u.T.escs esc + u.C.escs esc) (n0 + u.T.cnt 0 + u.C.cnt 0) (s + u.T.cnt 1 + u.T.cnt 2 + 1) t
        (n1 + u.C.cnt 1) (n2 + u.C.cnt 2) g hR (fun x hx => hpp x (List.mem_cons_of_mem _ hx))
      have hlink := procNode_link esc S f u.url (titleOf u.dtitle) u.T m n0 s (s + u.T.cnt 1) hu.vis hu.t0 hu.segs hT
      intro P' B' rp' hB
      have hnode := nextOK_node' S (procNode fun d a p i => processPlaceholders S (f + 2) d a p i)
        (g + costG esc r + costC esc u.C.t0 u.C.segs) (s + u.T.cnt 1 + u.T.cnt 2)
        (u.C.stage esc 3 true (m + u.T.escs esc) (n0 + u.T.cnt 0) n1 n2 ++
          outStage esc 3 (n1 + u.C.cnt 1) (n2 + u.C.cnt 2)
            (gOuter esc (m + u.T.escs esc + u.C.escs esc) (n0 + u.T.cnt 0 + u.C.cnt 0) (s + u.T.cnt 1 + u.T.cnt 2 + 1) t r))
        _ _ hL hlink P' B' rp' hB
      obtain ⟨⟨rest, hdrop⟩, hst⟩ := hC
      have hchunk := ppLoop_chunk_ctx esc S (procNode fun d a p i => processPlaceholders S (f + 2) d a p i)
        (outStage esc 3 (n1 + u.C.cnt 1) (n2 + u.C.cnt 2)
          (gOuter esc (m + u.T.escs esc + u.C.escs esc) (n0 + u.T.cnt 0 + u.C.cnt 0) (s + u.T.cnt 1 + u.T.cnt 2 + 1) t r))
        (g + costG esc r) _ hKr u.C.segs (P' ++ B' ++ placeholder (s + u.T.cnt 1 + u.T.cnt 2)) u.C.t0
        (m + u.T.escs esc) (n0 + u.T.cnt 0) n1 n2
        (aNode esc u.url (titleOf u.dtitle) u.T :: (lt B' rp').1, (lt B' rp').2) rest hu.c0
        (fun x hx => ⟨(hu.csegs x hx).1, procNode_knode S (f + 2) (by omega) x.k (hu.csegs x hx).2⟩) hdrop hst
      simp only [gOuter, outStage, costG, foldG]
      rw [show g + (1 + costC esc u.C.t0 u.C.segs + costG esc r) = (g + costG esc r + costC esc u.C.t0 u.C.segs) + 1
        by omega]
      simp only [Chunk.stage, if_true, List.append_assoc] at hnode hchunk ⊢
      rw [hnode, hchunk]
    | im u =>
      obtain ⟨hL, hC, hR⟩ := hat
      have hu : ImPP u := hpp (.im u) List.mem_cons_self
      have hKr := ih (m + u.C.escs esc) (n0 + u.C.cnt 0) s (t + 1)
        (n1 + u.C.cnt 1) (n2 + u.C.cnt 2) g hR (fun x hx => hpp x (List.mem_cons_of_mem _ hx))
      have himg := procNode_img (fun d a p i => processPlaceholders S (f + 2) d a p i) u
      intro P' B' rp' hB
      have hnode := nextOK_node' S (procNode fun d a p i => processPlaceholders S (f + 2) d a p i)
        (g + costG esc r + costC esc u.C.t0 u.C.segs) t
        (u.C.stage esc 3 true m n0 n1 n2 ++
          outStage esc 3 (n1 + u.C.cnt 1) (n2 + u.C.cnt 2)
            (gOuter esc (m + u.C.escs esc) (n0 + u.C.cnt 0) s (t + 1) r))
        _ _ hL himg P' B' rp' hB
      obtain ⟨⟨rest, hdrop⟩, hst⟩ := hC
      have hchunk := ppLoop_chunk_ctx esc S (procNode fun d a p i => processPlaceholders S (f + 2) d a p i)
        (outStage esc 3 (n1 + u.C.cnt 1) (n2 + u.C.cnt 2)
          (gOuter esc (m + u.C.escs esc) (n0 + u.C.cnt 0) s (t + 1) r))
        (g + costG esc r) _ hKr u.C.segs (P' ++ B' ++ placeholder t) u.C.t0
        m n0 n1 n2 (imgNode u :: (lt B' rp').1, (lt B' rp').2) rest hu.c0
        (fun x hx => ⟨(hu.csegs x hx).1, procNode_knode S (f + 2) (by omega) x.k (hu.csegs x hx).2⟩) hdrop hst
      simp only [gOuter, outStage, costG, foldG]
      rw [show g + (1 + costC esc u.C.t0 u.C.segs + costG esc r) = (g + costG esc r + costC esc u.C.t0 u.C.segs) + 1
        by omega]
      simp only [Chunk.stage, if_true, List.append_assoc] at hnode hchunk ⊢
      rw [hnode, hchunk]

theorem foldG_closed (esc : List Char) (gs : List GUse) :
    ∀ (res : List Node) (par : Node), foldG esc gs (res, par) = ((gKids esc gs).reverse ++ res, par) := by
  induction gs with
  | nil => intro res par; rfl
  | cons x r ih =>
    intro res par
    cases x with
    | lk u =>
      simp only [foldG, lt_node _ (aNode esc u.url (titleOf u.dtitle) u.T) res par rfl rfl, foldM_closed, ih, gKids,
        List.reverse_cons, List.reverse_append, List.append_assoc, List.singleton_append]
    | im u =>
      simp only [foldG, lt_node _ (imgNode u) res par (imgNode_tail u).1 (imgNode_tail u).2.1, foldM_closed, ih, gKids,
        List.reverse_cons, List.reverse_append, List.append_assoc, List.singleton_append]

theorem costG_le (esc : List Char) (gs : List GUse) : ∀ (m n0 s t n1 n2 : Nat),
    costG esc gs ≤ (outStage esc 3 n1 n2 (gOuter esc m n0 s t gs)).length + 1 := by
  induction gs with
  | nil => intro _ _ _ _ _ _; simp [costG]
  | cons x r ih =>
    intro m n0 s t n1 n2
    cases x with
    | lk u =>
      have h1 := costC_le esc u.C (m + u.T.escs esc) (n0 + u.T.cnt 0) n1 n2
      have h2 := ih (m + u.T.escs esc + u.C.escs esc) (n0 + u.T.cnt 0 + u.C.cnt 0) (s + u.T.cnt 1 + u.T.cnt 2 + 1) t
        (n1 + u.C.cnt 1) (n2 + u.C.cnt 2)
      have h3 := placeholder_length_pos (s + u.T.cnt 1 + u.T.cnt 2)
      simp only [costG, gOuter, outStage, List.length_append]
      omega
    | im u =>
      have h1 := costC_le esc u.C m n0 n1 n2
      have h2 := ih (m + u.C.escs esc) (n0 + u.C.cnt 0) s (t + 1) (n1 + u.C.cnt 1) (n2 + u.C.cnt 2)
      have h3 := placeholder_length_pos t
      simp only [costG, gOuter, outStage, List.length_append]
      omega

theorem outStage_gOuter_ne (esc : List Char) (gs : List GUse) (hne : gs ≠ []) (m n0 s t n1 n2 : Nat) :
    0 < (outStage esc 3 n1 n2 (gOuter esc m n0 s t gs)).length := by
  cases gs with
  | nil => exact absurd rfl hne
  | cons x r =>
    cases x with
    | lk u =>
      have := placeholder_length_pos (s + u.T.cnt 1 + u.T.cnt 2)
      simp only [gOuter, outStage, List.length_append]; omega
    | im u =>
      have := placeholder_length_pos t
      simp only [gOuter, outStage, List.length_append]; omega

/-- **`__processPlaceholders` on the residue of the line**: the items of the first content, then for each use its
    `<a>` element (with the items of the link text as children) or `<img>` element and the items of the content after
    it -/
theorem ppTop_gLine (esc : List Char) (st : St) (f : Nat) (hf : st.stash.length = f + 1) (C0 : Chunk) (gs : List GUse)
    (hne : gs ≠ []) (parent : Node) (hp1 : parent.text = none) (hp2 : parent.textAtomic = false)
    (m n0 s t n1 n2 : Nat) (h0 : ChunkAt esc st.stash C0 m n0 n1 n2)
    (hus : GAt esc st.stash (m + C0.escs esc) (n0 + C0.cnt 0) s t (n1 + C0.cnt 1) (n2 + C0.cnt 2) gs)
    (hc0 : Inline.STX ∉ C0.t0) (hcs : ∀ x ∈ C0.segs, Inline.STX ∉ x.t ∧ x.k.clean) (hpp : ∀ x ∈ gs, GPP x) :
    ppTop st (C0.stage esc 3 true m n0 n1 n2 ++
        outStage esc 3 (n1 + C0.cnt 1) (n2 + C0.cnt 2) (gOuter esc (m + C0.escs esc) (n0 + C0.cnt 0) s t gs))
      false parent true =
      some (C0.segs.map (tailedM esc) ++ gKids esc gs, { parent with text := optStr (coded esc C0.t0) }) := by
  generalize hD : C0.stage esc 3 true m n0 n1 n2 ++
    outStage esc 3 (n1 + C0.cnt 1) (n2 + C0.cnt 2) (gOuter esc (m + C0.escs esc) (n0 + C0.cnt 0) s t gs) = D
  have hlen : D.length = (C0.stage esc 3 true m n0 n1 n2).length +
      (outStage esc 3 (n1 + C0.cnt 1) (n2 + C0.cnt 2) (gOuter esc (m + C0.escs esc) (n0 + C0.cnt 0) s t gs)).length := by
    rw [← hD, List.length_append]
  have hDne : D.isEmpty = false := by
    have := outStage_gOuter_ne esc gs hne (m + C0.escs esc) (n0 + C0.cnt 0) s t (n1 + C0.cnt 1) (n2 + C0.cnt 2)
    cases D with
    | nil => simp only [List.length_nil] at hlen; omega
    | cons a b => rfl
  have hc1 := costC_le esc C0 m n0 n1 n2
  have hc2 := costG_le esc gs (m + C0.escs esc) (n0 + C0.cnt 0) s t (n1 + C0.cnt 1) (n2 + C0.cnt 2)
  obtain ⟨g, hg⟩ : ∃ g, D.length + 2 = (g + costG esc gs) + costC esc C0.t0 C0.segs :=
    ⟨D.length + 2 - (costG esc gs + costC esc C0.t0 C0.segs), by omega⟩
  obtain ⟨⟨rest, hdrop⟩, hst⟩ := h0
  have hK := nextOK_gs esc st.stash f gs (m + C0.escs esc) (n0 + C0.cnt 0) s t (n1 + C0.cnt 1) (n2 + C0.cnt 2) g hus hpp
  have hloop := ppLoop_chunk_ctx esc st.stash (procNode fun d a p i => processPlaceholders st.stash (f + 2) d a p i)
    _ _ _ hK C0.segs [] C0.t0 m n0 n1 n2 ([], parent) rest hc0
    (fun x hx => ⟨(hcs x hx).1, procNode_knode st.stash (f + 2) (by omega) x.k (hcs x hx).2⟩) hdrop hst
  have hlt : lt (coded esc C0.t0) ([], parent) = ([], { parent with text := optStr (coded esc C0.t0) }) := by
    simp only [lt]; exact CodeLaw.linkText_text _ _ hp1 hp2
  simp only [List.nil_append, List.length_nil, hlt, foldM_closed, foldG_closed] at hloop
  have hD' : resid esc m C0.t0 ++ stageM esc 3 true (m + escCount esc C0.t0) n0 n1 n2 C0.segs ++
      outStage esc 3 (n1 + C0.cnt 1) (n2 + C0.cnt 2) (gOuter esc (m + C0.escs esc) (n0 + C0.cnt 0) s t gs) = D := by
    rw [← hD]; simp [Chunk.stage]
  rw [hD'] at hloop
  unfold ppTop
  rw [hf, show f + 1 + 2 = (f + 2) + 1 from rfl]
  unfold processPlaceholders
  simp only [hDne, Bool.false_eq_true, if_false, hg, hloop]
  simp

/-! ### 3. the element through `__handleInline` and `__processPlaceholders` -/

theorem gRaw_ne_nil (esc : List Char) (C0 : Chunk) (gs : List GUse) (hne : gs ≠ []) : gRaw esc C0 gs ≠ [] := by
  cases gs with
  | nil => exact absurd rfl hne
  | cons x r =>
    cases x with
    | lk u => simp [gRaw, gStage, GUse.head]
    | im u => simp [gRaw, gStage, GUse.head, openerM]

theorem gStash_length_pos (esc : List Char) (s0 : Nat) (C0 : Chunk) (gs : List GUse) (hne : gs ≠ []) :
    0 < (gStash esc s0 C0 gs).length := by
  have h : 0 < gLinkLen gs + gImgLen gs := by
    cases gs with
    | nil => exact absurd rfl hne
    | cons x r =>
      cases x with
      | lk u => simp only [gLinkLen, gImgLen]; omega
      | im u => simp only [gLinkLen, gImgLen]; omega
  simp only [gStash, lineLinksG, List.length_append, gLinkStash_length, gImgs_length]
  omega

theorem gPP_of {esc : List Char} {g : GUse} (h : GUseOK esc g) (hvis : ∀ u, g = .lk u → u.T.Vis) : GPP g := by
  cases g with
  | lk u =>
    have hu := h.lk u rfl
    exact ⟨hvis u rfl, (chunkOK_pp hu.text).1, (chunkOK_pp hu.text).2, (chunkOK_pp hu.after).1, (chunkOK_pp hu.after).2⟩
  | im u => exact imPP_of (h.im u rfl)

/-- **the element through `__handleInline` and `__processPlaceholders`** (the pattern loop is the hypothesis
    `hloop`) -/
theorem visitChild_gLine (cfg : Inline.Cfg) (tg : Str) (C0 : Chunk) (gs : List GUse) (h0 : ChunkOK cfg.esc C0)
    (hgs : ∀ g ∈ gs, GUseOK cfg.esc g) (hvis : ∀ u, GUse.lk u ∈ gs → u.T.Vis) (hne : gs ≠ [])
    (hloop : LoopOKG cfg C0 gs) (v : Visit) :
    visitChild cfg { tag := .name tg, text := some (gRaw cfg.esc C0 gs) } v =
      some (gMid tg cfg.esc C0 gs, [],
        { v with pushes := ((List.range (C0.segs.map (tailedM cfg.esc) ++ gKids cfg.esc gs).length).map
                    (fun k => [v.done.length, k])).reverse ++ v.pushes,
                 st := { v.st with stash := v.st.stash ++ gStash cfg.esc v.st.stash.length C0 gs } }) := by
  have h1 := hloop v.st
  obtain ⟨hat0, hatU⟩ := gAt cfg.esc v.st.stash C0 gs
  obtain ⟨f, hf⟩ : ∃ f, (v.st.stash ++ gStash cfg.esc v.st.stash.length C0 gs).length = f + 1 := by
    have := gStash_length_pos cfg.esc v.st.stash.length C0 gs hne
    exact ⟨(v.st.stash ++ gStash cfg.esc v.st.stash.length C0 gs).length - 1, by
      rw [List.length_append]; omega⟩
  have hpp : ∀ x ∈ gs, GPP x := fun x hx => gPP_of (hgs x hx) (fun u e => hvis u (e ▸ hx))
  have h2 := ppTop_gLine cfg.esc { v.st with stash := v.st.stash ++ gStash cfg.esc v.st.stash.length C0 gs }
    f hf C0 gs hne { tag := .name tg, text := none, textAtomic := false }
    rfl rfl (mStartG v.st.stash.length C0 gs) v.st.stash.length
    (lStartG cfg.esc v.st.stash.length C0 gs) (iStartG cfg.esc v.st.stash.length C0 gs)
    (o1StartG cfg.esc v.st.stash.length C0 gs) (o2StartG cfg.esc v.st.stash.length C0 gs)
    hat0 hatU (chunkOK_pp h0).1 (chunkOK_pp h0).2 hpp
  have hres : gRes cfg.esc v.st.stash.length C0 gs =
      C0.stage cfg.esc 3 true (mStartG v.st.stash.length C0 gs) v.st.stash.length
        (o1StartG cfg.esc v.st.stash.length C0 gs) (o2StartG cfg.esc v.st.stash.length C0 gs) ++
      outStage cfg.esc 3 (o1StartG cfg.esc v.st.stash.length C0 gs + C0.cnt 1)
        (o2StartG cfg.esc v.st.stash.length C0 gs + C0.cnt 2)
        (gOuter cfg.esc (mStartG v.st.stash.length C0 gs + C0.escs cfg.esc) (v.st.stash.length + C0.cnt 0)
          (lStartG cfg.esc v.st.stash.length C0 gs) (iStartG cfg.esc v.st.stash.length C0 gs) gs) := rfl
  rw [← hres] at h2
  have htr := truthy_some (gRaw_ne_nil cfg.esc C0 gs hne)
  simp only [visitChild, htr, Bool.not_false, Bool.and_self, if_true, Option.getD_some, h1]
    at h2 ⊢
  rw [h2]
  simp [gMid, Node.truthy]

/-! ### 4. prettify -/

theorem gKids_lk (esc : List Char) (u : IUse) (r : List GUse) :
    gKids esc (.lk u :: r) = aKid esc (IUse.toR u) :: (u.C.segs.map (tailedM esc) ++ gKids esc r) := rfl

theorem gKids_im (esc : List Char) (u : DocImg.MUse) (r : List GUse) :
    gKids esc (.im u :: r) = iKid esc u :: (u.C.segs.map (tailedM esc) ++ gKids esc r) := rfl

theorem bl_aKid (esc : List Char) (u : RUse) :
    TreeProc.isBlockLevel TreeProc.defaultBlockLevel (aKid esc u).tag = false := bl_a

theorem prettifyKids_gKids (esc : List Char) (gs : List GUse) :
    TreeProc.prettifyKids TreeProc.defaultBlockLevel (gKids esc gs) = gKids esc gs := by
  induction gs with
  | nil => rfl
  | cons x r ih =>
    cases x with
    | lk u =>
      rw [gKids_lk]
      simp only [TreeProc.prettifyKids, bl_aKid, Bool.false_eq_true, if_false, prettifyKids_append, prettifyKids_tailedM, ih]
    | im u =>
      rw [gKids_im]
      simp only [TreeProc.prettifyKids, bl_iKid, Bool.false_eq_true, if_false, prettifyKids_append, prettifyKids_tailedM, ih]

theorem mapKids_gKids (esc : List Char) (gs : List GUse) :
    TreeProc.mapKids TreeProc.preRule (TreeProc.mapKids TreeProc.brRule (gKids esc gs)) = gKids esc gs := by
  induction gs with
  | nil => rfl
  | cons x r ih =>
    cases x with
    | lk u =>
      rw [gKids_lk]
      simp only [TreeProc.mapKids, mapKids_append, mapTree_aKid, mapKids_tailedM, ih]
    | im u =>
      rw [gKids_im]
      simp only [TreeProc.mapKids, mapKids_append, mapTree_iKid, mapKids_tailedM, ih]

/-- the element after prettify -/
def gPretty (tg : Str) (esc : List Char) (C0 : Chunk) (gs : List GUse) : Node :=
  { tag := .name tg, text := optStr (coded esc C0.t0),
    children := C0.segs.map (tailedM esc) ++ gKids esc gs, tail := some ['\n'] }

theorem pretty_gMid (tg : Str) (htg : TgOK tg) (esc : List Char) (C0 : Chunk) (gs : List GUse) :
    TreeProc.mapTree TreeProc.preRule (TreeProc.mapTree TreeProc.brRule
      (TreeProc.prettifyETree TreeProc.defaultBlockLevel (gMid tg esc C0 gs))) = gPretty tg esc C0 gs := by
  have hp := htg.block
  have hbr := htg.br
  have hpre := htg.pre
  have hcode := htg.code
  have hkids : TreeProc.prettifyKids TreeProc.defaultBlockLevel (C0.segs.map (tailedM esc) ++ gKids esc gs) =
      C0.segs.map (tailedM esc) ++ gKids esc gs := by
    rw [prettifyKids_append, prettifyKids_tailedM, prettifyKids_gKids]
  have hfirst : ∀ c r, C0.segs.map (tailedM esc) ++ gKids esc gs = c :: r →
      TreeProc.isBlockLevel TreeProc.defaultBlockLevel c.tag = false := by
    intro c r h
    cases hs : C0.segs with
    | nil =>
      cases gs with
      | nil => simp [hs, gKids] at h
      | cons x r' =>
        cases x with
        | lk u =>
          simp only [hs, List.map_nil, List.nil_append, gKids_lk, List.cons.injEq] at h
          rw [← h.1]; exact bl_a
        | im u =>
          simp only [hs, List.map_nil, List.nil_append, gKids_im, List.cons.injEq] at h
          rw [← h.1]; exact bl_iKid esc u
    | cons s r' =>
      simp only [hs, List.map_cons, List.cons_append, List.cons.injEq] at h
      rw [← h.1]; exact bl_tailedM esc s
  have h1 : TreeProc.prettifyETree TreeProc.defaultBlockLevel (gMid tg esc C0 gs) = gPretty tg esc C0 gs := by
    simp only [gMid, gPretty]
    generalize hK : C0.segs.map (tailedM esc) ++ gKids esc gs = K at hkids hfirst
    cases K with
    | nil => simp [TreeProc.prettifyETree, TreeProc.prettifyKids, TreeProc.blankOrNone, Node.truthy]
    | cons c r =>
      have hb := hfirst c r rfl
      simp only [TreeProc.prettifyETree, hp, hcode, hpre, Bool.not_false, Bool.and_self, if_true, hkids, hb,
        Bool.and_false, Bool.false_eq_true, if_false, TreeProc.blankOrNone, Node.truthy, Bool.true_or]
  rw [h1]
  simp only [gPretty, TreeProc.mapTree, TreeProc.brRule, TreeProc.preRule, TreeProc.tagIs, hbr, hpre,
    Bool.false_eq_true, if_false, mapKids_append, mapKids_tailedM, mapKids_gKids]

/-! ### 5. unescape -/

def gKidsFin : List GUse → List Node
  | [] => []
  | .lk u :: r => aFin (IUse.toR u) :: (u.C.segs.map tailedFinM ++ gKidsFin r)
  | .im u :: r => iKidFin u :: (u.C.segs.map tailedFinM ++ gKidsFin r)

theorem gKidsFin_nil : gKidsFin [] = [] := rfl
theorem gKidsFin_lk (u : IUse) (r : List GUse) :
    gKidsFin (.lk u :: r) = aFin (IUse.toR u) :: (u.C.segs.map tailedFinM ++ gKidsFin r) := rfl
theorem gKidsFin_im (u : DocImg.MUse) (r : List GUse) :
    gKidsFin (.im u :: r) = iKidFin u :: (u.C.segs.map tailedFinM ++ gKidsFin r) := rfl

theorem useAttrOK_of {esc : List Char} {u : IUse} (h : IUseOK esc u) : UseAttrOK (IUse.toR u) :=
  useAttrOK_map (is := [u]) (fun x hx => by
    simp only [List.mem_cons, List.not_mem_nil, or_false] at hx; subst hx; exact h) (IUse.toR u) (by simp)

theorem unescapeTree_aKidI {esc : List Char} (u : IUse) (hu : IUseOK esc u) :
    TreeProc.unescapeTree (aKid esc (IUse.toR u)) = some (aFin (IUse.toR u)) :=
  unescapeTree_aKidG (cfg := { esc := esc, refs := [] }) (IUse.toR u) (useCh_of hu) (useAttrOK_of hu)

theorem unescapeKids_gKids {esc : List Char} (gs : List GUse) (hgs : ∀ g ∈ gs, GUseOK esc g) :
    TreeProc.unescapeKids (gKids esc gs) = some (gKidsFin gs) := by
  induction gs with
  | nil => rfl
  | cons x r ih =>
    have hr := ih (fun x hx => hgs x (List.mem_cons_of_mem _ hx))
    cases x with
    | lk u =>
      have hu := (hgs (.lk u) List.mem_cons_self).lk u rfl
      have hkC := unescapeKids_tailedM esc u.C.segs
        (fun s hs => ⟨((chunkOK_pp hu.after).2 s hs).1, fine_of_ok s.k (hu.after.ok s hs) (hu.after.clean s hs)⟩)
      rw [gKids_lk]
      simp only [TreeProc.unescapeKids, unescapeTree_aKidI u hu, unescapeKids_append _ _ _ _ hkC hr, gKidsFin_lk]
    | im u =>
      have hu := (hgs (.im u) List.mem_cons_self).im u rfl
      have hkC := unescapeKids_tailedM esc u.C.segs
        (fun s hs => ⟨((chunkOK_pp hu.after).2 s hs).1, fine_of_ok s.k (hu.after.ok s hs) (hu.after.clean s hs)⟩)
      rw [gKids_im]
      simp only [TreeProc.unescapeKids, unescapeTree_iKid u hu, unescapeKids_append _ _ _ _ hkC hr, gKidsFin_im]

/-- the element after unescape -/
def gFin (tg : Str) (C0 : Chunk) (gs : List GUse) : Node :=
  { tag := .name tg, text := optStr C0.t0, children := C0.segs.map tailedFinM ++ gKidsFin gs,
    tail := some ['\n'] }

theorem unesc_gPretty (tg : Str) (htg : TgOK tg) {esc : List Char} (C0 : Chunk) (gs : List GUse) (h0 : ChunkOK esc C0)
    (hgs : ∀ g ∈ gs, GUseOK esc g) :
    TreeProc.unescapeTree (gPretty tg esc C0 gs) = some (gFin tg C0 gs) := by
  have hcode := htg.code
  have hnl : TreeProc.unescapeText 0 ['\n'] = some ['\n'] := by decide
  have h := unescOpt_coded esc C0.t0 (chunkOK_pp h0).1
  have hk0 := unescapeKids_tailedM esc C0.segs
    (fun s hs => ⟨((chunkOK_pp h0).2 s hs).1, fine_of_ok s.k (h0.ok s hs) (h0.clean s hs)⟩)
  have hk := unescapeKids_append _ _ _ _ hk0 (unescapeKids_gKids gs hgs)
  have t1 : Node.truthy (some ['\n']) = true := rfl
  simp only [gPretty, gFin, TreeProc.unescapeTree, hcode, Bool.not_false, Bool.and_true, h, hk, TreeProc.unescAttrs, t1,
    if_true, Option.getD_some, hnl, Option.map_some]
  by_cases ht : Node.truthy (optStr (coded esc C0.t0)) = true <;> simp [ht]

/-! ### 6. the serializer -/

theorem serialize_aFinI {esc : List Char} (u : IUse) (hu : IUseOK esc u) :
    Ser.serialize .xhtml (aFin (IUse.toR u)) =
      aOpen u.url (titleOf u.dtitle) ++ (u.T.out ++ (aClose ++ Ser.escCdata u.C.t0)) :=
  serialize_aFinG (cfg := { esc := esc, refs := [] }) (IUse.toR u) (useCh_of hu)

theorem serializeList_gKidsFin {esc : List Char} : ∀ (gs : List GUse), (∀ g ∈ gs, GUseOK esc g) →
    Ser.serializeList .xhtml (gKidsFin gs) = gOutS gs
  | [], _ => by rw [gKidsFin_nil, InlineRef.serializeList_nil, gOutS_nil]
  | .lk u :: r, hgs => by
    have hu := (hgs (.lk u) List.mem_cons_self).lk u rfl
    have hkC := serializeList_tailedM u.C.segs
      (fun s hs => fine_of_ok s.k (hu.after.ok s hs) (hu.after.clean s hs))
    have hr := serializeList_gKidsFin r (fun x hx => hgs x (List.mem_cons_of_mem _ hx))
    rw [gKidsFin_lk, serializeList_cons, serializeList_append, serialize_aFinI u hu, hkC, hr, gOutS_cons]
    simp only [gOutU, Chunk.out, List.append_assoc]
  | .im u :: r, hgs => by
    have hu := (hgs (.im u) List.mem_cons_self).im u rfl
    have hkC := serializeList_tailedM u.C.segs
      (fun s hs => fine_of_ok s.k (hu.after.ok s hs) (hu.after.clean s hs))
    have hr := serializeList_gKidsFin r (fun x hx => hgs x (List.mem_cons_of_mem _ hx))
    rw [gKidsFin_im, serializeList_cons, serializeList_append, serialize_iKidFin u, hkC, hr, gOutS_cons]
    simp only [gOutU, Chunk.out, List.append_assoc]

theorem ser_gFin (tg : Str) (htg : TgOK tg) {esc : List Char} (C0 : Chunk) (gs : List GUse) (h0 : ChunkOK esc C0)
    (hgs : ∀ g ∈ gs, GUseOK esc g) :
    Ser.serialize .xhtml (gFin tg C0 gs) = gOut tg C0 gs ++ ['\n'] := by
  have h2 := htg.empty
  have h4 := htg.raw
  have e7 : Ser.escCdata ['\n'] = ['\n'] := by decide
  have t1 : Node.truthy (some ['\n']) = true := rfl
  have hk0 := serializeList_tailedM C0.segs (fun s hs => fine_of_ok s.k (h0.ok s hs) (h0.clean s hs))
  simp only [gFin]
  rw [serialize_plain _ _ _ _ _ _ _ h2 h4, serializeList_append, hk0, serializeList_gKidsFin gs hgs, optEsc_optStr]
  simp [t1, e7, gOut, Chunk.out, List.append_assoc]

/-! ### 7. the element as an `Elem` -/

theorem stx_not_mem_gOutS {esc : List Char} : ∀ (gs : List GUse), (∀ g ∈ gs, GUseOK esc g) → Post.STX ∉ gOutS gs
  | [], _ => by rw [gOutS_nil]; simp
  | .lk u :: r, hgs => by
    have hu := (hgs (.lk u) List.mem_cons_self).lk u rfl
    have ha := useAttrOK_of hu
    have hr := stx_not_mem_gOutS r (fun x hx => hgs x (List.mem_cons_of_mem _ hx))
    have h1 := stx_not_mem_aOpen u.url (titleOf u.dtitle) ha.1 ha.2
    have h2 := stx_not_mem_chunkOut u.T hu.text
    have h3 := stx_not_mem_chunkOut u.C hu.after
    have h4 : Post.STX ∉ aClose := by decide
    rw [gOutS_cons]
    intro hm
    simp only [gOutU, List.mem_append] at hm
    rcases hm with (hm | hm | hm | hm) | hm
    · exact h1 hm
    · exact h2 hm
    · exact h4 hm
    · exact h3 hm
    · exact hr hm
  | .im u :: r, hgs => by
    have hu := (hgs (.im u) List.mem_cons_self).im u rfl
    have ha := imAttrOK_of hu
    have hr := stx_not_mem_gOutS r (fun x hx => hgs x (List.mem_cons_of_mem _ hx))
    have h1 : Post.STX ∉ imgHtml u := InlineRef.stx_not_mem_imgHtmlF _ _ _ _ ha.1 ha.2.1 ha.2.2
    have h3 := stx_not_mem_chunkOut u.C hu.after
    rw [gOutS_cons]
    intro hm
    simp only [gOutU, List.mem_append] at hm
    rcases hm with (hm | hm) | hm
    · exact h1 hm
    · exact h3 hm
    · exact hr hm

/-- the children of the kids the uses give (the items of a link text) are soft and childless -/
theorem gKids_soft {esc : List Char} (hE : EscOK esc) (gs : List GUse) (hgs : ∀ g ∈ gs, GUseOK esc g) :
    ∀ kid ∈ gKids esc gs, (∀ c ∈ kid.children, SoftNode c ∧ c.children = []) ∧
      kid.children.length ≤ gCnt0 gs + gLinkLen gs := by
  induction gs with
  | nil => intro kid hk; simp [gKids] at hk
  | cons x r ih =>
    intro kid hk
    have ihr := ih (fun x hx => hgs x (List.mem_cons_of_mem _ hx))
    cases x with
    | lk u =>
      have hu := (hgs (.lk u) List.mem_cons_self).lk u rfl
      rw [gKids_lk] at hk
      simp only [List.mem_cons, List.mem_append, List.mem_map] at hk
      rcases hk with rfl | ⟨s, _, rfl⟩ | hk
      · refine ⟨?_, ?_⟩
        · intro c hc
          have hc' : c ∈ u.T.segs.map (tailedM esc) := hc
          obtain ⟨s, hs, rfl⟩ := List.mem_map.1 hc'
          exact soft_tailedM hE s (hu.text.ok s hs) (hu.text.clean s hs)
            (fun x hx => hu.text.plain x (Or.inr ⟨s, hs, hx⟩))
        · have h1 := nodes_length u.T.segs hu.text.ok
          show (u.T.segs.map (tailedM esc)).length ≤ _
          simp only [List.length_map, gCnt0, gLinkLen, GUse.tCnt, GUse.C, Chunk.cnt]
          omega
      · rw [tailedM_childless]
        exact ⟨fun c hc => (by cases hc), by simp⟩
      · refine ⟨(ihr kid hk).1, ?_⟩
        have := (ihr kid hk).2
        simp only [gCnt0, gLinkLen]; omega
    | im u =>
      rw [gKids_im] at hk
      simp only [List.mem_cons, List.mem_append, List.mem_map] at hk
      rcases hk with rfl | ⟨s, _, rfl⟩ | hk
      · rw [iKid_eq]
        exact ⟨fun c hc => (by cases hc), by simp⟩
      · rw [tailedM_childless]
        exact ⟨fun c hc => (by cases hc), by simp⟩
      · refine ⟨(ihr kid hk).1, ?_⟩
        have := (ihr kid hk).2
        simp only [gCnt0, gLinkLen]; omega

/-- every child of the element: its own children are soft and childless -/
theorem gAllKids_soft {esc : List Char} (hE : EscOK esc) (C0 : Chunk) (gs : List GUse)
    (hgs : ∀ g ∈ gs, GUseOK esc g) :
    ∀ kid ∈ C0.segs.map (tailedM esc) ++ gKids esc gs,
      (∀ c ∈ kid.children, SoftNode c ∧ c.children = []) ∧ kid.children.length ≤ gCnt0 gs + gLinkLen gs := by
  intro kid hk
  rcases List.mem_append.1 hk with hk | hk
  · obtain ⟨s, _, rfl⟩ := List.mem_map.1 hk
    rw [tailedM_childless]
    exact ⟨fun c hc => (by cases hc), by simp⟩
  · exact gKids_soft hE gs hgs kid hk

theorem below_iKid (esc : List Char) (u : DocImg.MUse) : below (iKid esc u) = 0 := by
  rw [below_eq, iKid_eq]; rfl

/-- the weight of the kids: one per kid, one more per item of a link text -/
theorem weight_gKids {esc : List Char} (gs : List GUse) (hgs : ∀ g ∈ gs, GUseOK esc g) :
    ((gKids esc gs).map (fun c => 1 + below c)).sum =
      gCnt0 gs + gLinkLen gs + gImgLen gs + gOutCnt 1 gs + gOutCnt 2 gs := by
  induction gs with
  | nil => rfl
  | cons x r ih =>
    have ihr := ih (fun x hx => hgs x (List.mem_cons_of_mem _ hx))
    cases x with
    | lk u =>
      have hu := (hgs (.lk u) List.mem_cons_self).lk u rfl
      have h1 := nodes_length u.T.segs hu.text.ok
      have h2 := nodes_length u.C.segs hu.after.ok
      have ha : below (aKid esc (IUse.toR u)) = u.T.segs.length := by
        rw [below_eq]
        show belowKids (u.T.segs.map (tailedM esc)) = _
        rw [belowKids_childless _ (fun c hc => by
          obtain ⟨s, _, rfl⟩ := List.mem_map.1 hc; exact tailedM_childless esc s)]
        simp
      rw [gKids_lk]
      simp only [List.map_cons, List.map_append, List.sum_cons, List.sum_append, ha, weight_tailedM, ihr, gCnt0,
        gLinkLen, gImgLen, gOutCnt, GUse.tCnt, GUse.C, Chunk.cnt]
      omega
    | im u =>
      have hu := (hgs (.im u) List.mem_cons_self).im u rfl
      have h2 := nodes_length u.C.segs hu.after.ok
      rw [gKids_im]
      simp only [List.map_cons, List.map_append, List.sum_cons, List.sum_append, below_iKid, weight_tailedM, ihr, gCnt0,
        gLinkLen, gImgLen, gOutCnt, GUse.tCnt, GUse.C, Chunk.cnt]
      omega

theorem gKids_length {esc : List Char} (gs : List GUse) (hgs : ∀ g ∈ gs, GUseOK esc g) :
    (gKids esc gs).length ≤ gCnt0 gs + gLinkLen gs + gImgLen gs + gOutCnt 1 gs + gOutCnt 2 gs := by
  induction gs with
  | nil => simp [gKids]
  | cons x r ih =>
    have ihr := ih (fun x hx => hgs x (List.mem_cons_of_mem _ hx))
    cases x with
    | lk u =>
      have hu := (hgs (.lk u) List.mem_cons_self).lk u rfl
      have h2 := nodes_length u.C.segs hu.after.ok
      rw [gKids_lk]
      simp only [gCnt0, gLinkLen, gImgLen, gOutCnt, GUse.tCnt, GUse.C, Chunk.cnt, List.length_cons, List.length_append,
        List.length_map]
      omega
    | im u =>
      have hu := (hgs (.im u) List.mem_cons_self).im u rfl
      have h2 := nodes_length u.C.segs hu.after.ok
      rw [gKids_im]
      simp only [gCnt0, gLinkLen, gImgLen, gOutCnt, GUse.tCnt, GUse.C, Chunk.cnt, List.length_cons, List.length_append,
        List.length_map]
      omega

/-- each link contributes at least the four characters `[]()`, each image at least `![]()`, each escape and each item
    at least one -/
theorem gStage_length {esc : List Char} (gs : List GUse) (hgs : ∀ g ∈ gs, GUseOK esc g) : ∀ (m n0 : Nat),
    gEscs esc gs + gCnt0 gs + gLinkLen gs + gImgLen gs + gOutCnt 1 gs + gOutCnt 2 gs ≤
      (gStage esc 0 false m n0 gs).length := by
  induction gs with
  | nil => intro _ _; simp [gEscs, gCnt0, gLinkLen, gImgLen, gOutCnt, gStage]
  | cons x r ih =>
    intro m n0
    cases x with
    | lk u =>
      have hu := (hgs (.lk u) List.mem_cons_self).lk u rfl
      have h1 := chunk_raw_length esc u.T hu.text.ok
      have h2 := chunk_raw_length esc u.C hu.after.ok
      have h3 := ih (fun x hx => hgs x (List.mem_cons_of_mem _ hx)) (m + u.T.escs esc + u.C.escs esc)
        (n0 + u.T.cnt 0 + u.C.cnt 0)
      simp only [gEscs, gCnt0, gLinkLen, gImgLen, gOutCnt, gStage, GUse.head, GUse.tEscs, GUse.tCnt, GUse.C, closerI,
        Chunk.stage_raw, List.length_cons, List.length_append]
      omega
    | im u =>
      have hu := (hgs (.im u) List.mem_cons_self).im u rfl
      have h2 := chunk_raw_length esc u.C hu.after.ok
      have h3 := ih (fun x hx => hgs x (List.mem_cons_of_mem _ hx)) (m + u.C.escs esc) (n0 + u.C.cnt 0)
      simp only [gEscs, gCnt0, gLinkLen, gImgLen, gOutCnt, gStage, GUse.head, GUse.tEscs, GUse.tCnt, GUse.C, openerM,
        closerM, Chunk.stage_raw, List.length_cons, List.length_append, Nat.add_zero]
      omega

/-- the element `<tg>C₀ U₁ C₁ … </tg>` (links and images) at every stage -/
def gElem (tg : Str) (esc : List Char) (C0 : Chunk) (gs : List GUse) : Elem :=
  ⟨{ tag := .name tg, text := some (gRaw esc C0 gs) }, gMid tg esc C0 gs, fun n => gStash esc n C0 gs,
   fun i => ((List.range (C0.segs.map (tailedM esc) ++ gKids esc gs).length).map (fun k => [i, k])).reverse,
   gPretty tg esc C0 gs, gFin tg C0 gs, gOut tg C0 gs⟩

set_option linter.unusedVariables false in
theorem gElem_ok (cfg : Inline.Cfg) (hE : EscOK cfg.esc) (hrb : ']' ∈ cfg.esc) (tg : Str)
    (htg : tg ∈ ["p", "h1", "h2", "h3", "h4", "h5", "h6"].map String.toList) (C0 : Chunk) (gs : List GUse)
    (h0 : ChunkOK cfg.esc C0) (hgs : ∀ g ∈ gs, GUseOK cfg.esc g) (hvis : ∀ u, GUse.lk u ∈ gs → u.T.Vis)
    (hne : gs ≠ []) (hloop : LoopOKG cfg C0 gs) : ElemOK cfg (gElem tg cfg.esc C0 gs) := by
  have ht := tgOK_of tg htg
  have hlenraw : C0.escs cfg.esc + C0.cnt 0 + C0.cnt 1 + C0.cnt 2 + (gEscs cfg.esc gs + gCnt0 gs + gLinkLen gs +
      gImgLen gs + gOutCnt 1 gs + gOutCnt 2 gs) ≤ (gRaw cfg.esc C0 gs).length := by
    have h1 := chunk_raw_length cfg.esc C0 h0.ok
    have h2 := gStage_length gs hgs 0 0
    rw [gRaw, List.length_append]; omega
  have hsize : Inline.size (gElem tg cfg.esc C0 gs).src = 1 + (gRaw cfg.esc C0 gs).length := by
    simp [gElem, Inline.size, Inline.sizeList]
  have hw : ((C0.segs.map (tailedM cfg.esc) ++ gKids cfg.esc gs).map (fun c => 1 + below c)).sum ≤
      (gRaw cfg.esc C0 gs).length := by
    have h1 := weight_gKids gs hgs
    have h2 := nodes_length C0.segs h0.ok
    simp only [List.map_append, List.sum_append, weight_tailedM, h1]
    simp only [Chunk.cnt] at hlenraw
    omega
  have hklen : (C0.segs.map (tailedM cfg.esc) ++ gKids cfg.esc gs).length ≤ (gRaw cfg.esc C0 gs).length := by
    have h1 := gKids_length gs hgs
    have h2 := nodes_length C0.segs h0.ok
    simp only [List.length_append, List.length_map]
    simp only [Chunk.cnt] at hlenraw
    omega
  refine ⟨fun v => visitChild_gLine cfg tg C0 gs h0 hgs hvis hne hloop v, fun i => ?_, fun i => ?_,
    fun i q hq => ?_, ht.block, pretty_gMid tg ht cfg.esc C0 gs, unesc_gPretty tg ht C0 gs h0 hgs,
    ser_gFin tg ht C0 gs h0 hgs, ?_⟩
  · rw [hsize]
    simp only [gElem, List.length_reverse, List.length_map, List.length_range]
    omega
  · rw [hsize]
    have := mStack_range_all (gMid tg cfg.esc C0 gs) i
    have e1 : (gMid tg cfg.esc C0 gs).children = C0.segs.map (tailedM cfg.esc) ++ gKids cfg.esc gs := rfl
    rw [e1] at this
    show mStack (gMid tg cfg.esc C0 gs) _ ≤ _
    simp only [gElem]
    rw [this]
    omega
  · simp only [gElem, List.mem_reverse, List.mem_map, List.mem_range] at hq
    obtain ⟨k, hk, rfl⟩ := hq
    obtain ⟨kid, hkid⟩ : ∃ kid, (C0.segs.map (tailedM cfg.esc) ++ gKids cfg.esc gs)[k]? = some kid := by
      cases hx : (C0.segs.map (tailedM cfg.esc) ++ gKids cfg.esc gs)[k]? with
      | none => rw [List.getElem?_eq_none_iff] at hx; omega
      | some kid => exact ⟨kid, rfl⟩
    have hmem : kid ∈ C0.segs.map (tailedM cfg.esc) ++ gKids cfg.esc gs := List.mem_of_getElem? hkid
    obtain ⟨hs1, hs2⟩ := gAllKids_soft hE C0 gs hgs kid hmem
    refine ⟨[k], kid, rfl, ?_, ?_⟩
    · simp only [gElem, gMid, getAt]
      rw [hkid]
    · apply stillBelow_of_childless cfg _ kid
      · rw [hsize]; omega
      · intro c hc
        exact ⟨fun v => visitChild_soft cfg c v (hs1 c hc).1, (hs1 c hc).2⟩
  · refine ⟨?_, rfl, ?_⟩
    · intro hm
      have hm' : Post.STX ∈ '<' :: tg ++ ['>'] ++ (C0.out ++ gOutS gs) ++ ('<' :: '/' :: tg ++ ['>']) := hm
      simp only [List.mem_append, List.mem_cons, List.not_mem_nil, or_false] at hm'
      have hs := ht.stx
      rcases hm' with ((hm' | hm') | hm') | hm' | hm'
      · rcases hm' with hm' | hm'
        · revert hm'; decide
        · exact hs hm'
      · revert hm'; decide
      · rcases hm' with hm' | hm'
        · exact stx_not_mem_chunkOut C0 h0 hm'
        · exact stx_not_mem_gOutS gs hgs hm'
      · rcases hm' with hm' | hm' | hm'
        · revert hm'; decide
        · revert hm'; decide
        · exact hs hm'
      · revert hm'; decide
    · have e : (gElem tg cfg.esc C0 gs).out =
          ('<' :: tg ++ ['>'] ++ (C0.out ++ gOutS gs) ++ ('<' :: '/' :: tg)) ++ ['>'] := by
        simp [gElem, gOut]
      rw [e, List.getLast?_append]; rfl

end MdVerif.DocMix
