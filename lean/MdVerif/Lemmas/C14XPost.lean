/-
Helper lemmas for C14 on the extension pipeline (`Props/C14X.lean`), part 3: the raw-HTML restore
(`RawHtmlPostprocessor`, `Post.rawHtml`) acts on the two renderings of a marked string in lockstep
(`Lemmas/C14XMark.lean`), whatever the stash holds.  A placeholder `STX wzxhzdk:N ETX`, alone or inside `<p>…</p>`,
consists of plain characters only: it contains no blank, and its `>` stand behind a `p`, where no `void` mark can
stand.  Core Lean only.
-/
import MdVerif.Lemmas.C14XMark
import MdVerif.Lemmas.PlaceholdersPost

namespace MdVerif.C14X
open Py Ser NoCtl

/-! ### completeness of the two alternatives of the pattern -/

def P1 (ds : Str) : Str := "<p>".toList ++ (phStr ds ++ "</p>".toList)

theorem subAlt1_p1 (bl stash : List Str) {ds : Str} (hds : PhDigits ds) (rest : Str) :
    subAlt1 bl stash '<' ('p' :: '>' :: (phStr ds ++ ("</p>".toList ++ rest))) =
      some (pOut bl stash ds, 17 + ds.length) := by
  have h1 : ('<' :: 'p' :: '>' :: (phStr ds ++ ("</p>".toList ++ rest))).drop 3 =
      phStr ds ++ ("</p>".toList ++ rest) := rfl
  have h2 : ('<' :: 'p' :: '>' :: (phStr ds ++ ("</p>".toList ++ rest))).drop (3 + (10 + ds.length)) =
      "</p>".toList ++ rest := by
    rw [← List.drop_drop, h1, List.drop_left' (phStr_length ds)]
  have h3 : startsWith ('<' :: 'p' :: '>' :: (phStr ds ++ ("</p>".toList ++ rest))) "<p>".toList = true := by
    simp [startsWith]
  have h4 : startsWith ("</p>".toList ++ rest) "</p>".toList = true := startsWith_iff_prefix.2 ⟨_, rfl⟩
  unfold subAlt1
  simp only [decide_true, Bool.true_and, h3, if_true, h1, htmlPhAt_phStr hds, h2, h4]
  unfold pOut
  cases Post.stashLookup stash ds with
  | some html =>
    simp only
    split <;> simp <;> omega
  | none =>
    simp only [Option.some.injEq, Prod.mk.injEq]
    refine ⟨?_, by omega⟩
    have : 3 + (10 + ds.length) + 4 = ("<p>".toList ++ (phStr ds ++ "</p>".toList)).length := by
      simp [phStr_length]; omega
    rw [this]
    have e : ('<' :: 'p' :: '>' :: (phStr ds ++ ("</p>".toList ++ rest))) =
        ("<p>".toList ++ (phStr ds ++ "</p>".toList)) ++ rest := by simp
    rw [e, List.take_left]

/-- `<p>` placeholder `</p>` at the current position is taken by the first alternative -/
theorem subPass_p1 (bl stash : List Str) {ds : Str} (hds : PhDigits ds) (rest : Str) :
    Post.subPass bl stash 0 (P1 ds ++ rest) = pOut bl stash ds ++ Post.subPass bl stash 0 rest := by
  have e : P1 ds ++ rest = '<' :: ('p' :: '>' :: (phStr ds ++ ("</p>".toList ++ rest))) := by simp [P1]
  rw [e, subPass_zero_cons, subAlt1_p1 bl stash hds rest]
  simp only
  rw [subPass_drop]
  congr 2
  have e2 : ('p' :: '>' :: (phStr ds ++ ("</p>".toList ++ rest))) = ("p>".toList ++ (phStr ds ++ "</p>".toList)) ++ rest := by
    simp
  have hl : 17 + ds.length - 1 = ("p>".toList ++ (phStr ds ++ "</p>".toList)).length := by
    simp [phStr_length]; omega
  rw [e2, hl, List.drop_left]

theorem subAlt1_stx (bl stash : List Str) (s : Str) : subAlt1 bl stash STX s = none := by
  unfold subAlt1
  have : (STX = '<') = False := by simp; decide
  simp [this]

/-- a bare placeholder at the current position is taken by the second alternative -/
theorem subPass_ph (bl stash : List Str) {ds : Str} (hds : PhDigits ds) (rest : Str) :
    Post.subPass bl stash 0 (phStr ds ++ rest) = phOut stash ds ++ Post.subPass bl stash 0 rest := by
  have e : phStr ds ++ rest = STX :: ((phStr ds).drop 1 ++ rest) := by rw [phStr_eq]; rfl
  have hp := htmlPhAt_phStr hds rest
  rw [e] at hp
  rw [e, subPass_zero_cons, subAlt1_stx]
  simp only [if_true, hp]
  have hl : 10 + ds.length - 1 = ((phStr ds).drop 1).length := by simp [phStr_length]
  have hd : Post.subPass bl stash (10 + ds.length - 1) ((phStr ds).drop 1 ++ rest) = Post.subPass bl stash 0 rest := by
    rw [subPass_drop, hl, List.drop_left]
  unfold phOut
  cases Post.stashLookup stash ds with
  | some html => simp only; rw [hd]
  | none =>
    simp only; rw [hd]
    congr 1
    rw [← e, ← phStr_length ds, List.take_left]


/-! ### the placeholder strings are plain -/

theorem digit_safe {c : Char} (h : isAsciiDigit c = true) : c ≠ ' ' ∧ c ≠ '>' := by
  constructor <;> (rintro rfl; revert h; decide)

theorem phStr_safe {ds : Str} (hds : PhDigits ds) : ∀ c ∈ phStr ds, c ≠ ' ' ∧ c ≠ '>' := by
  intro c hc
  rw [phStr_eq] at hc
  simp only [List.mem_cons, List.mem_append, List.not_mem_nil, or_false] at hc
  rcases hc with rfl | rfl | rfl | rfl | rfl | rfl | rfl | rfl | rfl | hc | rfl
  all_goals first | exact digit_safe (List.all_eq_true.1 hds.2 _ hc) | decide

theorem lit_p1 (ds : Str) (m : M) :
    lit "<p".toList ++ (Sym.ch '>' :: (lit (phStr ds ++ "</p".toList) ++ (Sym.ch '>' :: m))) = lit (P1 ds) ++ m := by
  simp [P1, lit]

/-- html rendering: `<p>` placeholder `</p>` in front is made of plain characters -/
theorem rH_p1 {m : M} {p : Option Sym} {ds rest : Str} (hds : PhDigits ds) (hi : InvA p m = true)
    (h : rH m = P1 ds ++ rest) : ∃ m4, m = lit (P1 ds) ++ m4 ∧ rest = rH m4 := by
  have e : P1 ds ++ rest = "<p".toList ++ ('>' :: ((phStr ds ++ "</p".toList) ++ ('>' :: rest))) := by simp [P1]
  rw [e] at h
  obtain ⟨m1, e1, h1⟩ := rH_prefix_safe "<p".toList (by decide) m _ h
  subst e1
  rw [invA_append, Bool.and_eq_true] at hi
  have hl : lastP p (lit "<p".toList) = some (.ch 'p') := lastP_lit_snoc p "<".toList 'p'
  rw [hl] at hi
  obtain ⟨m2, e2, h2⟩ := rH_gt_after_p hi.2 h1.symm
  subst e2
  have hs : ∀ c ∈ phStr ds ++ "</p".toList, c ≠ ' ' ∧ c ≠ '>' := by
    intro c hc
    rcases List.mem_append.1 hc with hc | hc
    · exact phStr_safe hds c hc
    · have : ∀ d ∈ "</p".toList, d ≠ ' ' ∧ d ≠ '>' := by decide
      exact this c hc
  obtain ⟨m3, e3, h3⟩ := rH_prefix_safe _ hs m2 _ h2.symm
  subst e3
  have hi2 : InvA (some (.ch '>')) (lit (phStr ds ++ "</p".toList) ++ m3) = true := hi.2
  rw [invA_append, Bool.and_eq_true] at hi2
  have hl2 : lastP (some (.ch '>')) (lit (phStr ds ++ "</p".toList)) = some (.ch 'p') := by
    have : phStr ds ++ "</p".toList = (phStr ds ++ "</".toList) ++ ['p'] := by simp
    rw [this]; exact lastP_lit_snoc _ _ 'p'
  rw [hl2] at hi2
  obtain ⟨m4, e4, h4⟩ := rH_gt_after_p hi2.2 h3.symm
  subst e4
  exact ⟨m4, lit_p1 ds m4, h4⟩

theorem p1_no_space {ds : Str} (hds : PhDigits ds) : ∀ c ∈ P1 ds, c ≠ ' ' := by
  intro c hc
  simp only [P1, List.mem_append] at hc
  rcases hc with hc | hc | hc
  · have : ∀ d ∈ "<p>".toList, d ≠ ' ' := by decide
    exact this c hc
  · exact (phStr_safe hds c hc).1
  · have : ∀ d ∈ "</p>".toList, d ≠ ' ' := by decide
    exact this c hc

theorem rX_p1 {m : M} {ds rest : Str} (hds : PhDigits ds) (h : rX m = P1 ds ++ rest) :
    ∃ m4, m = lit (P1 ds) ++ m4 ∧ rest = rX m4 :=
  rX_prefix_safe _ (p1_no_space hds) m rest h

theorem lastP_p1 (p : Option Sym) (ds : Str) : lastP p (lit (P1 ds)) = some (.ch '>') := by
  have : P1 ds = ("<p>".toList ++ (phStr ds ++ "</p".toList)) ++ ['>'] := by simp [P1]
  rw [this]; exact lastP_lit_snoc _ _ _

theorem lastP_phStr (p : Option Sym) (ds : Str) : lastP p (lit (phStr ds)) = some (.ch ETX) := by
  have : phStr ds = (Post.htmlPrefix ++ ds) ++ [ETX] := rfl
  rw [this]; exact lastP_lit_snoc _ _ _

theorem length_p1 (ds : Str) : (P1 ds).length = 17 + ds.length := by
  simp [P1, phStr_length]; omega

/-! ### one pass of the restore, in lockstep -/

/-- characters that start no match are copied -/
theorem subPass_inert (bl stash : List Str) : ∀ (q : Str), (∀ c ∈ q, c ≠ '<' ∧ c ≠ STX) → ∀ s,
    Post.subPass bl stash 0 (q ++ s) = q ++ Post.subPass bl stash 0 s
  | [], _, _ => rfl
  | c :: q, h, s => by
    have hc := h c (by simp)
    rcases subPass_cases bl stash c (q ++ s) with ⟨ds, rest, _, e, _⟩ | ⟨ds, rest, _, e, _⟩ | ⟨_, e⟩
    · simp at e; exact absurd e.1 hc.1
    · rw [phStr_eq] at e; simp at e; exact absurd e.1 hc.2
    · rw [List.cons_append, e, subPass_inert bl stash q (fun d hd => h d (by simp [hd])) s]
      rfl

theorem name_inert {k : Str} (hk : isName k = true) : ∀ c ∈ k, c ≠ '<' ∧ c ≠ STX := by
  intro c hc
  simp only [isName, Bool.and_eq_true, List.all_eq_true] at hk
  have := hk.2 c hc
  constructor <;> (rintro rfl; revert this; decide)

theorem subPass_sim (bl stash : List Str) : ∀ (n : Nat) (m : M) (p : Option Sym), m.length ≤ n → InvA p m = true →
    ∃ m', Post.subPass bl stash 0 (rH m) = rH m' ∧ Post.subPass bl stash 0 (rX m) = rX m' ∧ InvA p m' = true := by
  intro n
  induction n with
  | zero =>
    intro m p hl _
    have : m = [] := List.length_eq_zero_iff.1 (by omega)
    subst this
    exact ⟨[], rfl, rfl, rfl⟩
  | succ n ih =>
    intro m p hl hi
    cases m with
    | nil => exact ⟨[], rfl, rfl, rfl⟩
    | cons s r =>
      have hlr : r.length ≤ n := by simp at hl; omega
      cases s with
      | void =>
        simp only [InvA, Bool.and_eq_true] at hi
        obtain ⟨r', h1, h2, h3⟩ := ih r (some .void) hlr hi.2
        refine ⟨.void :: r', ?_, ?_, by simp only [InvA, hi.1, h3]; rfl⟩
        · have := subPass_inert bl stash ['>'] (by decide) (rH r)
          simpa [rH, h1] using this
        · have := subPass_inert bl stash " />".toList (by decide) (rX r)
          simpa [rX, h2] using this
      | bool k =>
        simp only [InvA, Bool.and_eq_true] at hi
        obtain ⟨r', h1, h2, h3⟩ := ih r (some (.bool k)) hlr hi.2
        have hk := name_inert hi.1.2
        refine ⟨.bool k :: r', ?_, ?_, by simp only [InvA, hi.1.1, hi.1.2, h3]; rfl⟩
        · have := subPass_inert bl stash (' ' :: k) (by
            intro c hc; simp at hc
            rcases hc with rfl | hc
            · decide
            · exact hk c hc) (rH r)
          simpa [rH, h1] using this
        · have := subPass_inert bl stash (' ' :: (k ++ '=' :: '"' :: (k ++ ['"']))) (by
            intro c hc; simp at hc
            rcases hc with rfl | hc | rfl | rfl | hc | rfl
            · decide
            · exact hk c hc
            · decide
            · decide
            · exact hk c hc
            · decide) (rX r)
          simpa [rX, h2] using this
      | ch c =>
        by_cases hA : ∃ ds m4, PhDigits ds ∧ Sym.ch c :: r = lit (P1 ds) ++ m4
        · obtain ⟨ds, m4, hds, e⟩ := hA
          have hlen : m4.length ≤ n := by
            have := congrArg List.length e
            simp [lit, length_p1] at this
            simp at hl; omega
          rw [e] at hi ⊢
          rw [invA_append, Bool.and_eq_true, lastP_p1] at hi
          obtain ⟨m4', h1, h2, h3⟩ := ih m4 _ hlen hi.2
          refine ⟨lit (pOut bl stash ds) ++ m4', ?_, ?_, ?_⟩
          · rw [rH_append, rH_lit, subPass_p1 bl stash hds, h1, rH_append, rH_lit]
          · rw [rX_append, rX_lit, subPass_p1 bl stash hds, h2, rX_append, rX_lit]
          · rw [invA_append, invA_lit, invA_nonsolid (by decide) h3]; rfl
        · by_cases hB : ∃ ds m2, PhDigits ds ∧ Sym.ch c :: r = lit (phStr ds) ++ m2
          · obtain ⟨ds, m2, hds, e⟩ := hB
            have hlen : m2.length ≤ n := by
              have := congrArg List.length e
              simp [lit, phStr_length] at this
              simp at hl; omega
            rw [e] at hi ⊢
            rw [invA_append, Bool.and_eq_true, lastP_phStr] at hi
            obtain ⟨m2', h1, h2, h3⟩ := ih m2 _ hlen hi.2
            refine ⟨lit (phOut stash ds) ++ m2', ?_, ?_, ?_⟩
            · rw [rH_append, rH_lit, subPass_ph bl stash hds, h1, rH_append, rH_lit]
            · rw [rX_append, rX_lit, subPass_ph bl stash hds, h2, rX_append, rX_lit]
            · rw [invA_append, invA_lit, invA_nonsolid (by decide) h3]; rfl
          · obtain ⟨r', h1, h2, h3⟩ := ih r (some (.ch c)) hlr hi
            refine ⟨.ch c :: r', ?_, ?_, h3⟩
            · simp only [rH]
              rcases subPass_cases bl stash c (rH r) with ⟨ds, rest, hds, e, _⟩ | ⟨ds, rest, hds, e, _⟩ | ⟨_, e⟩
              · exfalso
                have e' : rH (Sym.ch c :: r) = P1 ds ++ rest := by simpa [rH, P1] using e
                obtain ⟨m4, em, _⟩ := rH_p1 hds hi e'
                exact hA ⟨ds, m4, hds, em⟩
              · exfalso
                have e' : rH (Sym.ch c :: r) = phStr ds ++ rest := by simpa [rH] using e
                obtain ⟨m2, em, _⟩ := rH_prefix_safe _ (phStr_safe hds) _ _ e'
                exact hB ⟨ds, m2, hds, em⟩
              · rw [e, h1]
            · simp only [rX]
              rcases subPass_cases bl stash c (rX r) with ⟨ds, rest, hds, e, _⟩ | ⟨ds, rest, hds, e, _⟩ | ⟨_, e⟩
              · exfalso
                have e' : rX (Sym.ch c :: r) = P1 ds ++ rest := by simpa [rX, P1] using e
                obtain ⟨m4, em, _⟩ := rX_p1 hds e'
                exact hA ⟨ds, m4, hds, em⟩
              · exfalso
                have e' : rX (Sym.ch c :: r) = phStr ds ++ rest := by simpa [rX] using e
                obtain ⟨m2, em, _⟩ := rX_prefix_safe _ (fun d hd => (phStr_safe hds d hd).1) _ _ e'
                exact hB ⟨ds, m2, hds, em⟩
              · rw [e, h2]


/-! ### the repeated restore -/

theorem rawHtml_succ (bl stash : List Str) (f : Nat) (text : Str) :
    Post.rawHtml bl stash (f + 1) text =
      if stash.isEmpty then some text
      else if Post.subPass bl stash 0 text = text then some (Post.subPass bl stash 0 text)
      else Post.rawHtml bl stash f (Post.subPass bl stash 0 text) := rfl

/-- the html side is already a fixed point: the xhtml side goes on alone, the html rendering stays -/
theorem rawHtml_fixH (bl stash : List Str) : ∀ (g : Nat) (m : M) (p : Option Sym) (x : Str), InvA p m = true →
    Post.subPass bl stash 0 (rH m) = rH m → Post.rawHtml bl stash g (rX m) = some x →
    ∃ m', rH m' = rH m ∧ rX m' = x ∧ InvA p m' = true := by
  intro g
  induction g with
  | zero => intro m p x _ _ h; simp [Post.rawHtml] at h
  | succ g ih =>
    intro m p x hi hfix h
    rw [rawHtml_succ] at h
    split at h
    · exact ⟨m, rfl, by simpa using h, hi⟩
    · obtain ⟨m1, h1, h2, h3⟩ := subPass_sim bl stash _ m p (Nat.le_refl _) hi
      have e1 : rH m1 = rH m := by rw [← h1, hfix]
      split at h
      · exact ⟨m1, e1, by rw [← h2]; simpa using h, h3⟩
      · rw [h2] at h
        obtain ⟨m', a, b, c⟩ := ih m1 p x h3 (by rw [e1, hfix]) h
        exact ⟨m', by rw [a, e1], b, c⟩

theorem rawHtml_fixX (bl stash : List Str) : ∀ (f : Nat) (m : M) (p : Option Sym) (hh : Str), InvA p m = true →
    Post.subPass bl stash 0 (rX m) = rX m → Post.rawHtml bl stash f (rH m) = some hh →
    ∃ m', rX m' = rX m ∧ rH m' = hh ∧ InvA p m' = true := by
  intro f
  induction f with
  | zero => intro m p x _ _ h; simp [Post.rawHtml] at h
  | succ f ih =>
    intro m p x hi hfix h
    rw [rawHtml_succ] at h
    split at h
    · exact ⟨m, rfl, by simpa using h, hi⟩
    · obtain ⟨m1, h1, h2, h3⟩ := subPass_sim bl stash _ m p (Nat.le_refl _) hi
      have e1 : rX m1 = rX m := by rw [← h2, hfix]
      split at h
      · exact ⟨m1, e1, by rw [← h1]; simpa using h, h3⟩
      · rw [h1] at h
        obtain ⟨m', a, b, c⟩ := ih m1 p x h3 (by rw [e1, hfix]) h
        exact ⟨m', by rw [a, e1], b, c⟩

/-- **the raw-HTML restore in lockstep**: when both runs answer, the answers are the two renderings of one marked
    string (any stash, any fuels) -/
theorem rawHtml_sim (bl stash : List Str) : ∀ (f g : Nat) (m : M) (p : Option Sym) (hh x : Str), InvA p m = true →
    Post.rawHtml bl stash f (rH m) = some hh → Post.rawHtml bl stash g (rX m) = some x →
    ∃ m', hh = rH m' ∧ x = rX m' ∧ InvA p m' = true := by
  intro f
  induction f with
  | zero => intro g m p hh x _ h; simp [Post.rawHtml] at h
  | succ f ih =>
    intro g m p hh x hi h1 h2
    cases g with
    | zero => simp [Post.rawHtml] at h2
    | succ g =>
      rw [rawHtml_succ] at h1 h2
      by_cases he : stash.isEmpty = true
      · simp only [he, if_true, Option.some.injEq] at h1 h2
        exact ⟨m, h1.symm, h2.symm, hi⟩
      · simp only [he, Bool.false_eq_true, if_false] at h1 h2
        obtain ⟨m1, a1, a2, a3⟩ := subPass_sim bl stash _ m p (Nat.le_refl _) hi
        by_cases hH : Post.subPass bl stash 0 (rH m) = rH m
        · by_cases hX : Post.subPass bl stash 0 (rX m) = rX m
          · simp only [hH, hX, if_true, Option.some.injEq] at h1 h2
            exact ⟨m, h1.symm, h2.symm, hi⟩
          · simp only [hH, hX, if_true, if_false, Option.some.injEq] at h1 h2
            rw [a2] at h2
            have hfix : Post.subPass bl stash 0 (rH m1) = rH m1 := by rw [← a1, hH, hH]
            obtain ⟨m', b1, b2, b3⟩ := rawHtml_fixH bl stash g m1 p x a3 hfix h2
            exact ⟨m', by rw [b1, ← a1, hH, ← h1], b2.symm, b3⟩
        · by_cases hX : Post.subPass bl stash 0 (rX m) = rX m
          · simp only [hH, hX, if_true, if_false, Option.some.injEq] at h1 h2
            rw [a1] at h1
            have hfix : Post.subPass bl stash 0 (rX m1) = rX m1 := by rw [← a2, hX, hX]
            obtain ⟨m', b1, b2, b3⟩ := rawHtml_fixX bl stash f m1 p hh a3 hfix h1
            exact ⟨m', b2.symm, by rw [b1, ← a2, hX, ← h2], b3⟩
          · simp only [hH, hX, if_false] at h1 h2
            rw [a1] at h1; rw [a2] at h2
            exact ih g m1 p hh x a3 h1 h2

end MdVerif.C14X
