/-
Helper lemmas for C10, part 3: `InlineProcessor.run` (`visitChild`, `visitLoop`, `runLoop`) visits every element
that still holds a placeholder (`all_visited`), given the contract `HISpec` of `handleInline`.  Core Lean only.
-/
import MdVerif.Lemmas.PlaceholdersPP

namespace MdVerif.NoCtl
open Py Inline

/-! ### paths -/

theorem getAt_nil (n : Node) : getAt n [] = some n := by cases n; rfl

theorem getAt_cons (n : Node) (i : Nat) (p : Path) :
    getAt n (i :: p) = match n.children[i]? with | some c => getAt c p | none => none := by
  cases n; rfl

theorem setAt_nil (n new : Node) : setAt n [] new = new := by cases n; rfl

theorem setAt_cons (n new : Node) (i : Nat) (p : Path) :
    setAt n (i :: p) new =
      match n.children[i]? with
      | some c => { n with children := n.children.set i (setAt c p new) }
      | none => n := by
  cases n; rfl

theorem getAt_append {root : Node} {p : Path} {cur : Node} (h : getAt root p = some cur) (r : Path) :
    getAt root (p ++ r) = getAt cur r := by
  induction p generalizing root with
  | nil => rw [getAt_nil] at h; cases h; rfl
  | cons i p ih =>
    rw [getAt_cons] at h
    rw [List.cons_append, getAt_cons]
    cases hc : root.children[i]? with
    | none => simp [hc] at h
    | some c => simp only [hc] at h ⊢; exact ih h

theorem getAt_prefix {root : Node} {m q : Path} {n : Node} (h : getAt root m = some n) (hq : q <+: m) :
    ∃ n', getAt root q = some n' := by
  obtain ⟨r, rfl⟩ := hq
  induction q generalizing root with
  | nil => exact ⟨root, getAt_nil root⟩
  | cons i q ih =>
    rw [List.cons_append, getAt_cons] at h
    rw [getAt_cons]
    cases hc : root.children[i]? with
    | none => simp [hc] at h
    | some c => simp only [hc] at h ⊢; exact ih h

/-- after replacing the subtree at `p`, the paths through `p` see the new subtree -/
theorem getAt_setAt_append {root : Node} {p : Path} {cur : Node} (h : getAt root p = some cur) (new : Node) (r : Path) :
    getAt (setAt root p new) (p ++ r) = getAt new r := by
  induction p generalizing root with
  | nil => rw [setAt_nil]; rfl
  | cons i p ih =>
    rw [getAt_cons] at h
    rw [setAt_cons, List.cons_append]
    cases hc : root.children[i]? with
    | none => simp [hc] at h
    | some c =>
      simp only [hc] at h ⊢
      rw [getAt_cons]
      have hi : i < root.children.length := by
        rcases Nat.lt_or_ge i root.children.length with hlt | hge
        · exact hlt
        · rw [List.getElem?_eq_none hge] at hc; cases hc
      simp only [List.getElem?_set_self hi]
      exact ih h

theorem setAt_frame {root : Node} {p : Path} {cur new : Node} (h : getAt root p = some cur)
    (ht : new.text = cur.text) (hta : new.textAtomic = cur.textAtomic) (hl : new.tail = cur.tail)
    (hla : new.tailAtomic = cur.tailAtomic) (hg : new.tag = cur.tag) (ha : new.attrs = cur.attrs) :
    (setAt root p new).text = root.text ∧ (setAt root p new).textAtomic = root.textAtomic ∧
    (setAt root p new).tail = root.tail ∧ (setAt root p new).tailAtomic = root.tailAtomic ∧
    (setAt root p new).tag = root.tag ∧ (setAt root p new).attrs = root.attrs := by
  cases p with
  | nil => rw [getAt_nil] at h; cases h; rw [setAt_nil]; exact ⟨ht, hta, hl, hla, hg, ha⟩
  | cons i p =>
    rw [setAt_cons]
    cases hc : root.children[i]? <;> simp

/-- a local property that does not look at the children survives the replacement of a subtree -/
theorem forall_setAt {P : Node → Prop} (hP : ∀ (n : Node) (l : List Node), P n → P { n with children := l })
    {root : Node} {p : Path} {cur new : Node} (hr : root.Forall P) (hn : new.Forall P) (h : getAt root p = some cur) :
    (setAt root p new).Forall P := by
  induction p generalizing root with
  | nil => rw [setAt_nil]; exact hn
  | cons i p ih =>
    rw [getAt_cons] at h
    rw [setAt_cons]
    cases hc : root.children[i]? with
    | none => simp [hc] at h
    | some c =>
      simp only [hc] at h ⊢
      rw [Node.forall_iff] at hr ⊢
      refine ⟨hP root _ hr.1, ?_⟩
      intro d hd
      simp only at hd
      rcases List.mem_or_eq_of_mem_set hd with hd | rfl
      · exact hr.2 d hd
      · exact ih (hr.2 c (List.mem_of_getElem? hc)) h

theorem forall_getAt {P : Node → Prop} {root : Node} {p : Path} {cur : Node} (hr : root.Forall P)
    (h : getAt root p = some cur) : cur.Forall P := by
  induction p generalizing root with
  | nil => rw [getAt_nil] at h; cases h; exact hr
  | cons i p ih =>
    rw [getAt_cons] at h
    cases hc : root.children[i]? with
    | none => simp [hc] at h
    | some c =>
      simp only [hc] at h
      rw [Node.forall_iff] at hr
      exact ih (hr.2 c (List.mem_of_getElem? hc)) h

/-! ### which elements still hold a placeholder -/

/-- the element at path `m` has a child whose text or tail may still hold a placeholder -/
def Unclean (esc : Bool) (root : Node) (m : Path) : Prop :=
  ∃ n, getAt root m = some n ∧ ∃ c ∈ n.children, ¬ Clean esc c

/-- every such element is below (or is) an element that is on the stack -/
def Covered (esc : Bool) (root : Node) (stack : List Path) : Prop :=
  ∀ m, Unclean esc root m → ∃ q ∈ stack, q <+: m

theorem WNode.mono {esc : Bool} {k k' : Nat} (hk : k ≤ k') {n : Node} (h : WNode esc k n) : WNode esc k' n := by
  obtain ⟨h1, h2, h3, h4, h5, h6⟩ := h
  refine ⟨h1, h2, h3.mono hk, ?_, h5, h6⟩
  split
  · rename_i hc; rw [if_pos hc] at h4; exact h4
  · rename_i hc; rw [if_neg hc] at h4; exact h4.mono hk

theorem forall_WNode_mono {esc : Bool} {k k' : Nat} (hk : k ≤ k') {n : Node} (h : n.Forall (WNode esc k)) :
    n.Forall (WNode esc k') := Node.Forall.mono (fun _ hm => hm.mono hk) n h

theorem WNode.children_irrel {esc : Bool} {k : Nat} (n : Node) (l : List Node) (h : WNode esc k n) :
    WNode esc k { n with children := l } := h

theorem WNode.clean {esc : Bool} {k : Nat} {n : Node} (h : WNode esc k n) (hc : Clean esc n) : WNode esc 0 n := by
  obtain ⟨h1, h2, h3, h4, h5, h6⟩ := h
  refine ⟨h1, h2, ⟨hc.2, h3.2⟩, ?_, h5, h6⟩
  split
  · rename_i hcd; rw [if_pos hcd] at h4; exact h4
  · rename_i hcd; rw [if_neg hcd] at h4; exact ⟨hc.1, h4.2⟩

mutual
theorem all_clean (esc : Bool) (k : Nat) : ∀ n : Node, n.Forall (WNode esc k) → Clean esc n →
    (∀ m, ¬ Unclean esc n m) → n.Forall (WNode esc 0)
  | ⟨tag, attrs, text, ta, children, tail, tla⟩ => by
    intro h hc hu
    simp only [Node.Forall] at h ⊢
    refine ⟨h.1.clean hc, all_clean_list esc k children h.2 ?_ ?_⟩
    · intro c hcm
      apply Classical.byContradiction
      intro hnc
      exact hu [] ⟨_, getAt_nil _, c, hcm, hnc⟩
    · intro j c m hj hum
      obtain ⟨n, hn, hx⟩ := hum
      exact hu (j :: m) ⟨n, by rw [getAt_cons]; simp only [hj]; exact hn, hx⟩
theorem all_clean_list (esc : Bool) (k : Nat) : ∀ l : List Node, Node.ForallL (WNode esc k) l →
    (∀ c ∈ l, Clean esc c) → (∀ (j : Nat) (c : Node) (m : Path), l[j]? = some c → ¬ Unclean esc c m) → Node.ForallL (WNode esc 0) l
  | [] => by intros; trivial
  | c :: r => by
    intro h hc hu
    simp only [Node.ForallL] at h ⊢
    refine ⟨all_clean esc k c h.1 (hc c (by simp)) (fun m => hu 0 c m rfl),
      all_clean_list esc k r h.2 (fun d hd => hc d (by simp [hd])) (fun j d m hj => hu (j + 1) d m (by simpa using hj))⟩
end

/-- replacing the subtree at `p` (keeping the text and tail of its root) does not make anything outside unclean -/
theorem unclean_setAt_outside {esc : Bool} {root : Node} {p : Path} {cur new : Node} (h : getAt root p = some cur)
    (ht : new.text = cur.text) (hl : new.tail = cur.tail) {m : Path} (hm : ¬ p <+: m)
    (hu : Unclean esc (setAt root p new) m) : Unclean esc root m := by
  induction p generalizing root m with
  | nil => exact absurd (List.nil_prefix) hm
  | cons i p ih =>
    rw [getAt_cons] at h
    cases hc : root.children[i]? with
    | none => simp [hc] at h
    | some c =>
      simp only [hc] at h
      have hi : i < root.children.length := by
        rcases Nat.lt_or_ge i root.children.length with hlt | hge
        · exact hlt
        · rw [List.getElem?_eq_none hge] at hc; cases hc
      have hclean : Clean esc (setAt c p new) ↔ Clean esc c := by
        cases p with
        | nil =>
          rw [getAt_nil] at h; cases h
          rw [setAt_nil]; unfold Clean; rw [ht, hl]
        | cons j p' =>
          rw [setAt_cons]
          cases c.children[j]? <;> exact Iff.rfl
      obtain ⟨n, hn, d, hd, hnc⟩ := hu
      rw [setAt_cons] at hn
      simp only [hc] at hn
      cases m with
      | nil =>
        rw [getAt_nil] at hn
        cases hn
        simp only at hd
        refine ⟨root, getAt_nil root, ?_⟩
        rcases List.mem_or_eq_of_mem_set hd with hd | rfl
        · exact ⟨d, hd, hnc⟩
        · exact ⟨c, List.mem_of_getElem? hc, fun hcc => hnc (hclean.2 hcc)⟩
      | cons j m' =>
        rw [getAt_cons] at hn
        simp only at hn
        by_cases hji : j = i
        · subst hji
          rw [List.getElem?_set_self hi] at hn
          simp only at hn
          have hm' : ¬ p <+: m' := fun hp => hm (by
            obtain ⟨r, rfl⟩ := hp
            exact ⟨r, rfl⟩)
          obtain ⟨n', hn', hx⟩ := ih h hm' ⟨n, hn, d, hd, hnc⟩
          exact ⟨n', by rw [getAt_cons]; simp only [hc]; exact hn', hx⟩
        · rw [List.getElem?_set_ne (fun e => hji e.symm)] at hn
          exact ⟨n, by rw [getAt_cons]; exact hn, d, hd, hnc⟩



/-! ### `visitChild` -/

/-- the text step of `visitChild` -/
theorem visit_text {esc : Bool} {cfg : Cfg} (hhi : HISpec esc cfg) {child : Node} {st : St}
    (hc : WNode esc st.stash.length child) (hst : StOK esc st.stash) {c1 : Node} {lst : List Node} {st1 : St}
    (h : (if Node.truthy child.text && !child.textAtomic then
            match handleInlineTop cfg (child.text.getD []) st with
            | none => none
            | some (data, st1) =>
              match ppTop st1 data false { child with text := none, textAtomic := false } true with
              | none => none
              | some (lst, c1) => some (c1, lst, st1)
          else some (child, [], st)) = some (c1, lst, st1)) :
    st.stash.length ≤ st1.stash.length ∧ StOK esc st1.stash ∧ st1.html = st.html ∧
    WNode esc st1.stash.length c1 ∧ WFO esc 0 c1.text ∧ c1.children = child.children ∧ c1.tail = child.tail ∧
    c1.tailAtomic = child.tailAtomic ∧ ∀ n ∈ lst, Out esc st1.stash.length n := by
  split at h
  · rename_i hcond
    simp only [Bool.and_eq_true, Bool.not_eq_true'] at hcond
    cases hh : handleInlineTop cfg (child.text.getD []) st with
    | none => simp [hh] at h
    | some r =>
      obtain ⟨data, st1'⟩ := r
      simp only [hh] at h
      cases hp : ppTop st1' data false { child with text := none, textAtomic := false } true with
      | none => simp [hp] at h
      | some r2 =>
        obtain ⟨lst', c1'⟩ := r2
        simp only [hp, Option.some.injEq, Prod.mk.injEq] at h
        obtain ⟨rfl, rfl, rfl⟩ := h
        obtain ⟨t1, t2, t3, t4, t5, t6⟩ := hc
        have hne : ¬ (isCode child = true ∧ child.textAtomic = true) := by
          intro hcd
          rw [hcd.2] at hcond
          exact absurd hcond.2 (by decide)
        rw [if_neg hne] at t4
        obtain ⟨w1, w2, w3, w4, w5⟩ := hhi _ _ _ _ t4.1 t4.2 hst hh
        have inv := ppTop_spec w3 (isText := true) (parent := { child with text := none, textAtomic := false })
          w1 w2 (strW_none esc 0) hp
        have hs : StrW esc 0 c1'.text := inv.slotOK
        refine ⟨w4, w3, w5, ?_, hs.1, inv.frame.2.2.symm, inv.other.1, inv.other.2, inv.res⟩
        have hcode : isCode c1' = isCode child := by simp only [isCode, ← inv.frame.1]
        have hesc : isCode child = true → esc = false := by
          intro hcd
          cases he : esc with
          | false => rfl
          | true => have := t5 hcd he; rw [this] at hcond; exact absurd hcond.2 (by decide)
        refine ⟨by rw [← inv.frame.1]; exact t1, by rw [← inv.frame.2.1]; exact t2, ?_, ?_, ?_, fun _ => hs.1⟩
        · rw [inv.other.1]; exact t3.mono w4
        · split
          · rename_i hcd
            have he := hesc (hcode ▸ hcd.1)
            subst he
            exact noCtl_of_wf hs.1
          · exact hs.mono (Nat.zero_le _)
        · intro hcd he
          rw [hesc (hcode ▸ hcd)] at he; cases he
  · rename_i hcond
    simp only [Option.some.injEq, Prod.mk.injEq] at h
    obtain ⟨rfl, rfl, rfl⟩ := h
    refine ⟨Nat.le_refl _, hst, rfl, hc, ?_, rfl, rfl, rfl, by simp⟩
    by_cases hat : child.textAtomic = true
    · exact hc.2.2.2.2.2 hat
    · have : Node.truthy child.text = false := by
        simp only [Bool.and_eq_true, Bool.not_eq_true', not_and, Bool.not_eq_false] at hcond
        cases htr : Node.truthy child.text with
        | false => rfl
        | true => exact absurd (hcond htr) hat
      unfold WFO
      cases htx : child.text with
      | none => exact .nil
      | some s =>
        cases s with
        | nil => exact .nil
        | cons a b => rw [htx] at this; simp [Node.truthy] at this


/-- the tail step of `visitChild` -/
theorem visit_tail {esc : Bool} {cfg : Cfg} (hhi : HISpec esc cfg) {c1 : Node} {st1 : St}
    (hc : WNode esc st1.stash.length c1) (hst : StOK esc st1.stash) {c2 : Node} {tr : List Node} {st2 : St}
    (h : (if Node.truthy c1.tail then
            match (if c1.tailAtomic then some (c1.tail.getD [], st1) else handleInlineTop cfg (c1.tail.getD []) st1) with
            | none => none
            | some (data, st2) =>
              match ppTop st2 data c1.tailAtomic (mkEl "d") false with
              | none => none
              | some (tr, dumby) =>
                some ((if Node.truthy dumby.tail then { c1 with tail := dumby.tail, tailAtomic := dumby.tailAtomic }
                       else { c1 with tail := none, tailAtomic := false }), tr, st2)
          else some (c1, [], st1)) = some (c2, tr, st2)) :
    st1.stash.length ≤ st2.stash.length ∧ StOK esc st2.stash ∧ st2.html = st1.html ∧
    WNode esc st2.stash.length c2 ∧ WFO esc 0 c2.tail ∧ c2.text = c1.text ∧ c2.children = c1.children ∧
    ∀ n ∈ tr, Out esc st2.stash.length n := by
  split at h
  · have hh : ∃ data st2', (if c1.tailAtomic then some (c1.tail.getD [], st1) else handleInlineTop cfg (c1.tail.getD []) st1)
        = some (data, st2') ∧ WF esc st2'.stash.length data ∧ DomS esc data ∧ StOK esc st2'.stash ∧
          st1.stash.length ≤ st2'.stash.length ∧ st2'.html = st1.html := by
      split
      · exact ⟨_, _, rfl, hc.2.2.1.1, hc.2.2.1.2, hst, Nat.le_refl _, rfl⟩
      · rename_i hta
        cases hx : handleInlineTop cfg (c1.tail.getD []) st1 with
        | none => simp [hta, hx] at h
        | some r =>
          obtain ⟨d, s'⟩ := r
          obtain ⟨w1, w2, w3, w4, w5⟩ := hhi _ _ _ _ hc.2.2.1.1 hc.2.2.1.2 hst hx
          exact ⟨d, s', rfl, w1, w2, w3, w4, w5⟩
    obtain ⟨data, st2', heq, w1, w2, w3, w4, w5⟩ := hh
    rw [heq] at h
    simp only at h
    cases hp : ppTop st2' data c1.tailAtomic (mkEl "d") false with
    | none => simp [hp] at h
    | some r2 =>
      obtain ⟨tr', dumby⟩ := r2
      simp only [hp, Option.some.injEq, Prod.mk.injEq] at h
      obtain ⟨rfl, rfl, rfl⟩ := h
      have inv := ppTop_spec w3 (isText := false) (parent := mkEl "d") w1 w2 (strW_none esc 0) hp
      have hs : StrW esc 0 dumby.tail := inv.slotOK
      refine ⟨w4, w3, w5, ?_, ?_, ?_, ?_, inv.res⟩
      · split
        · exact (hc.mono w4).set_tail (hs.mono (Nat.zero_le _)) _
        · exact (hc.mono w4).set_tail (strW_none esc _) _
      · split
        · exact hs.1
        · exact .nil
      · split <;> rfl
      · split <;> rfl
  · rename_i hcond
    simp only [Option.some.injEq, Prod.mk.injEq] at h
    obtain ⟨rfl, rfl, rfl⟩ := h
    refine ⟨Nat.le_refl _, hst, rfl, hc, ?_, rfl, rfl, by simp⟩
    unfold WFO
    cases htx : c1.tail with
    | none => exact .nil
    | some s =>
      cases s with
      | nil => exact .nil
      | cons a b => rw [htx] at hcond; simp [Node.truthy] at hcond

theorem visitChild_spec {esc : Bool} {cfg : Cfg} (hhi : HISpec esc cfg) {child : Node} {v : Visit} {c3 : Node}
    {tr : List Node} {v' : Visit} (hc : child.Forall (WNode esc v.st.stash.length)) (hst : StOK esc v.st.stash)
    (h : visitChild cfg child v = some (c3, tr, v')) :
    v.st.stash.length ≤ v'.st.stash.length ∧ StOK esc v'.st.stash ∧ v'.st.html = v.st.html ∧ v'.done = v.done ∧
    v'.posmap = v.posmap ∧ c3.Forall (WNode esc v'.st.stash.length) ∧ Clean esc c3 ∧
    (∀ n ∈ tr, Out esc v'.st.stash.length n) ∧ (∀ q ∈ v.pushes, q ∈ v'.pushes) ∧
    (∀ r, Unclean esc c3 r → ∃ q ∈ v'.pushes, q <+: v.done.length :: r) := by
  rw [Node.forall_iff] at hc
  unfold visitChild at h
  simp only at h
  split at h
  · simp at h
  · rename_i c1 lst st1 h1
    obtain ⟨a1, a2, a3, a4, a5, a6, a7, a8, a9⟩ := visit_text hhi hc.1 hst h1
    split at h
    · simp at h
    · rename_i c2 tr' st2 h2
      obtain ⟨b1, b2, b3, b4, b5, b6, b7, b8⟩ := visit_tail hhi a4 a2 h2
      simp only [Option.some.injEq, Prod.mk.injEq] at h
      obtain ⟨rfl, rfl, rfl⟩ := h
      have hkids : c2.children = child.children := b7.trans a6
      refine ⟨Nat.le_trans a1 b1, b2, b3.trans a3, rfl, rfl, ?_, ⟨by show WFO esc 0 c2.text; rw [b6]; exact a5, b5⟩,
        b8, ?_, ?_⟩
      · rw [Node.forall_iff]
        refine ⟨b4, ?_⟩
        intro g hg
        simp only [List.mem_append] at hg
        rcases hg with hg | hg
        · exact forall_WNode_mono b1 (a9 g hg).1
        · rw [hkids] at hg
          exact forall_WNode_mono (Nat.le_trans a1 b1) (hc.2 g hg)
      · intro q hq
        split
        · simp [hq]
        · simp [hq]
      · intro r hu
        obtain ⟨n, hn, d, hd, hnc⟩ := hu
        have hpush1 : child.children ≠ [] → [v.done.length] ∈
            (if child.children.isEmpty = true then
              (List.map (fun k => [v.done.length, k]) (List.range lst.length)).reverse ++ v.pushes
            else [v.done.length] ::
              ((List.map (fun k => [v.done.length, k]) (List.range lst.length)).reverse ++ v.pushes)) := by
          intro hne
          have : child.children.isEmpty = false := by
            cases hch : child.children with
            | nil => exact absurd hch hne
            | cons _ _ => rfl
          simp [this]
        have hpush2 : ∀ j, j < lst.length → [v.done.length, j] ∈
            (if child.children.isEmpty = true then
              (List.map (fun k => [v.done.length, k]) (List.range lst.length)).reverse ++ v.pushes
            else [v.done.length] ::
              ((List.map (fun k => [v.done.length, k]) (List.range lst.length)).reverse ++ v.pushes)) := by
          intro j hj
          split <;> simp <;> first | exact .inl hj | exact .inr (.inl hj)
        cases r with
        | nil =>
          rw [getAt_nil] at hn
          cases hn
          simp only [List.mem_append] at hd
          rcases hd with hd | hd
          · exact absurd (a9 d hd).2 hnc
          · rw [hkids] at hd
            exact ⟨_, hpush1 (List.ne_nil_of_mem hd), List.prefix_refl _⟩
        | cons j r' =>
          rw [getAt_cons] at hn
          simp only at hn
          rcases Nat.lt_or_ge j lst.length with hj | hj
          · exact ⟨_, hpush2 j hj, ⟨r', rfl⟩⟩
          · rw [List.getElem?_append_right hj, hkids] at hn
            cases hg : child.children[j - lst.length]? with
            | none => simp [hg] at hn
            | some g =>
              exact ⟨_, hpush1 (List.ne_nil_of_mem (List.mem_of_getElem? hg)), ⟨j :: r', rfl⟩⟩


/-! ### `visitLoop`, `runLoop`, `run` -/

structure VInv (esc : Bool) (v : Visit) : Prop where
  stOK : StOK esc v.st.stash
  done : ∀ c ∈ v.done, c.Forall (WNode esc v.st.stash.length) ∧ Clean esc c
  cov : ∀ (idx : Nat) (c : Node) (r : Path), v.done.reverse[idx]? = some c → Unclean esc c r →
    ∃ q ∈ v.pushes, q <+: idx :: r

theorem visitLoop_spec {esc : Bool} {cfg : Cfg} (hhi : HISpec esc cfg) :
    ∀ (g : Nat) (todo : List (Node × Option Nat)) (v v' : Visit), VInv esc v →
      (∀ x ∈ todo, x.1.Forall (WNode esc v.st.stash.length)) → visitLoop cfg g todo v = some v' →
      VInv esc v' ∧ v.st.stash.length ≤ v'.st.stash.length ∧ v'.st.html = v.st.html := by
  intro g
  induction g with
  | zero => intro todo v v' _ _ h; simp [visitLoop] at h
  | succ g ih =>
    intro todo v v' inv htodo h
    cases todo with
    | nil =>
      simp only [visitLoop, Option.some.injEq] at h
      subst h
      exact ⟨inv, Nat.le_refl _, rfl⟩
    | cons x todo =>
      obtain ⟨child, orig⟩ := x
      simp only [visitLoop] at h
      cases hv : visitChild cfg child v with
      | none => simp [hv] at h
      | some r =>
        obtain ⟨c, tr, v1⟩ := r
        simp only [hv] at h
        obtain ⟨a1, a2, a3, a4, a5, a6, a7, a8, a9, a10⟩ :=
          visitChild_spec hhi (htodo (child, orig) (by simp)) inv.stOK hv
        have inv2 : ∀ pm, VInv esc { v1 with done := c :: v1.done, posmap := pm } := by
          intro pm
          refine ⟨a2, ?_, ?_⟩
          · intro d hd
            simp only [List.mem_cons] at hd
            rcases hd with rfl | hd
            · exact ⟨a6, a7⟩
            · rw [a4] at hd
              exact ⟨forall_WNode_mono a1 (inv.done d hd).1, (inv.done d hd).2⟩
          · intro idx d r hidx hu
            simp only [List.reverse_cons, a4] at hidx
            have hL : v.done.reverse.length = v.done.length := List.length_reverse
            rcases Nat.lt_or_ge idx v.done.reverse.length with hlt | hge
            · rw [List.getElem?_append_left hlt] at hidx
              obtain ⟨q, hq, hpre⟩ := inv.cov idx d r hidx hu
              exact ⟨q, a9 q hq, hpre⟩
            · rw [List.getElem?_append_right hge] at hidx
              have h0 : idx - v.done.reverse.length = 0 := by
                rcases Nat.eq_zero_or_pos (idx - v.done.reverse.length) with h0 | hpos
                · exact h0
                · rw [List.getElem?_eq_none (by simp only [List.length_cons, List.length_nil]; omega)] at hidx; cases hidx
              rw [h0] at hidx
              simp only [List.getElem?_cons_zero, Option.some.injEq] at hidx
              subst hidx
              have hidx' : idx = v.done.length := by omega
              subst hidx'
              exact a10 r hu
        have htodo2 : ∀ x ∈ tr.map (fun n => (n, (none : Option Nat))) ++ todo,
            x.1.Forall (WNode esc v1.st.stash.length) := by
          intro x hx
          rcases List.mem_append.1 hx with hx | hx
          · obtain ⟨n, hn, rfl⟩ := List.mem_map.1 hx
            exact (a8 n hn).1
          · exact forall_WNode_mono a1 (htodo x (by simp [hx]))
        obtain ⟨r1, r2, r3⟩ := ih _ _ v' (inv2 _) htodo2 h
        exact ⟨r1, Nat.le_trans a1 r2, r3.trans a3⟩

theorem mem_withIdx {l : List Node} {i : Nat} {x : Node × Option Nat} (h : x ∈ withIdx l i) : x.1 ∈ l := by
  induction l generalizing i with
  | nil => simp [withIdx] at h
  | cons n r ih =>
    simp only [withIdx, List.mem_cons] at h
    rcases h with rfl | h
    · simp
    · exact List.mem_cons_of_mem _ (ih h)

theorem startsWithPath_iff (q p : Path) : remap.startsWithPath q p = true ↔ p <+: q := by
  induction p generalizing q with
  | nil => cases q <;> simp [remap.startsWithPath]
  | cons b p ih =>
    cases q with
    | nil => simp [remap.startsWithPath]
    | cons a q =>
      simp only [remap.startsWithPath, Bool.and_eq_true, decide_eq_true_eq, ih, List.cons_prefix_cons]
      constructor
      · rintro ⟨rfl, h⟩; exact ⟨rfl, h⟩
      · rintro ⟨rfl, h⟩; exact ⟨rfl, h⟩

theorem remap_of_not_prefix {p q : Path} (pm : List (Nat × Nat)) (h : ¬ p <+: q) : remap p pm q = q := by
  unfold remap
  have : remap.startsWithPath q p = false := by
    cases hs : remap.startsWithPath q p with
    | false => rfl
    | true => exact absurd ((startsWithPath_iff q p).1 hs) h
  simp [this]

/-- state of the `while stack` loop -/
structure RInv (esc : Bool) (root : Node) (stack : List Path) (st : St) : Prop where
  stOK : StOK esc st.stash
  tree : root.Forall (WNode esc st.stash.length)
  rootClean : Clean esc root
  cov : Covered esc root stack

theorem runLoop_spec {esc : Bool} {cfg : Cfg} (hhi : HISpec esc cfg) (g2 : Nat) :
    ∀ (g : Nat) (root : Node) (stack : List Path) (st : St) (root' : Node) (st' : St), RInv esc root stack st →
      runLoop cfg g2 g root stack st = some (root', st') →
      root'.Forall (TNode esc) ∧ st'.html = st.html := by
  intro g
  induction g with
  | zero => intro root stack st root' st' _ h; simp [runLoop] at h
  | succ g ih =>
    intro root stack st root' st' inv h
    cases stack with
    | nil =>
      simp only [runLoop, Option.some.injEq, Prod.mk.injEq] at h
      obtain ⟨rfl, rfl⟩ := h
      refine ⟨all_clean esc _ root inv.tree inv.rootClean ?_, rfl⟩
      intro m hu
      obtain ⟨q, hq, _⟩ := inv.cov m hu
      simp at hq
    | cons p stack =>
      simp only [runLoop] at h
      cases hg : getAt root p with
      | none =>
        simp only [hg] at h
        refine ih _ _ _ _ _ ⟨inv.stOK, inv.tree, inv.rootClean, ?_⟩ h
        intro m hu
        obtain ⟨q, hq, hpre⟩ := inv.cov m hu
        rcases List.mem_cons.1 hq with rfl | hq
        · obtain ⟨n, hn, _⟩ := hu
          obtain ⟨n', hn'⟩ := getAt_prefix hn hpre
          rw [hg] at hn'; cases hn'
        · exact ⟨q, hq, hpre⟩
      | some cur =>
        simp only [hg] at h
        cases hv : visitLoop cfg g2 (withIdx cur.children 0) { st := st } with
        | none => simp [hv] at h
        | some v =>
          simp only [hv] at h
          have hcur := forall_getAt inv.tree hg
          rw [Node.forall_iff] at hcur
          have vinv0 : VInv esc ({ st := st } : Visit) := ⟨inv.stOK, by simp, by simp⟩
          obtain ⟨vinv, hle, hhtml⟩ := visitLoop_spec hhi g2 _ _ v vinv0
            (fun x hx => hcur.2 _ (mem_withIdx hx)) hv
          simp only at hle hhtml
          -- the new subtree
          have hnew : ({ cur with children := v.done.reverse } : Node).Forall (WNode esc v.st.stash.length) := by
            rw [Node.forall_iff]
            exact ⟨hcur.1.mono hle, fun c hc => (vinv.done c (List.mem_reverse.1 hc)).1⟩
          have hframe := setAt_frame (root := root) (new := { cur with children := v.done.reverse }) hg rfl rfl rfl rfl rfl rfl
          have inv' : RInv esc (setAt root p { cur with children := v.done.reverse })
              (v.pushes.map (p ++ ·) ++ stack.map (remap p v.posmap)) v.st := by
            refine ⟨vinv.stOK, forall_setAt WNode.children_irrel (forall_WNode_mono hle inv.tree) hnew hg, ?_, ?_⟩
            · unfold Clean; rw [hframe.1, hframe.2.2.1]; exact inv.rootClean
            · intro m hu
              by_cases hpm : p <+: m
              · obtain ⟨r, rfl⟩ := hpm
                obtain ⟨n, hn, d, hd, hnc⟩ := hu
                rw [getAt_setAt_append hg] at hn
                -- an unclean element inside the new subtree is below one of the pushes
                cases r with
                | nil =>
                  rw [getAt_nil] at hn; cases hn
                  exact absurd (vinv.done d (List.mem_reverse.1 hd)).2 hnc
                | cons j r' =>
                  rw [getAt_cons] at hn
                  simp only at hn
                  cases hj : v.done.reverse[j]? with
                  | none => simp [hj] at hn
                  | some c =>
                    simp only [hj] at hn
                    obtain ⟨q, hq, hpre⟩ := vinv.cov j c r' hj ⟨n, hn, d, hd, hnc⟩
                    refine ⟨p ++ q, List.mem_append_left _ (List.mem_map.2 ⟨q, hq, rfl⟩), ?_⟩
                    exact (List.prefix_append_right_inj p).2 hpre
              · have hu' := unclean_setAt_outside (new := { cur with children := v.done.reverse }) hg rfl rfl hpm hu
                obtain ⟨q, hq, hpre⟩ := inv.cov m hu'
                rcases List.mem_cons.1 hq with rfl | hq
                · exact absurd hpre hpm
                · refine ⟨q, List.mem_append_right _ (List.mem_map.2 ⟨q, hq, ?_⟩), hpre⟩
                  exact remap_of_not_prefix _ (fun hpq => hpm (hpq.trans hpre))
          obtain ⟨r1, r2⟩ := ih _ _ _ _ _ inv' h
          exact ⟨r1, r2.trans hhtml⟩

theorem run_spec {esc : Bool} {cfg : Cfg} (hhi : HISpec esc cfg) {tree t : Node} {html : List Str} {st : St}
    (ht : tree.Forall (TNode esc)) (h : run cfg tree html = some (t, st)) :
    t.Forall (TNode esc) ∧ st.html = html := by
  unfold run at h
  have hcl : Clean esc tree := by
    rw [Node.forall_iff] at ht
    have := ht.1
    unfold TNode WNode at this
    refine ⟨?_, this.2.2.1.1⟩
    by_cases hc : isCode tree = true ∧ tree.textAtomic = true
    · rw [if_pos hc] at this; exact WF.of_noCtl this.2.2.2.1
    · rw [if_neg hc] at this; exact this.2.2.2.1.1
  have inv : RInv esc tree [[]] { html := html } := by
    refine ⟨by intro i it hi; simp at hi, ht, hcl, ?_⟩
    intro m _
    exact ⟨[], by simp, List.nil_prefix⟩
  exact runLoop_spec hhi _ _ _ _ _ _ _ inv h


end MdVerif.NoCtl
