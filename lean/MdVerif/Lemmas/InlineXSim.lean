/-
A dead pattern in the inline pattern table.

`xc2` is `xc1` with one more entry `dead` at position `p` of the pattern table; `dead` never matches (on the texts
it is run on).  Then whatever `runX xc1` answers, `runX xc2` answers (`runX_sim`).  The statement is one-directional
because the longer table gives the loops of `__handleInline` more fuel (`loopFuelX`, the nesting depth): the run with
the longer table makes one more step, the one that tries `dead`, in every `while patternIndex < count` loop, and
always with `startIndex = 0`.

The texts the patterns are run on are described by a guarded invariant: under `G`, they (and the stash) are free
of the character `c`.  `G := True` for a pattern that is dead on `c`-free texts (wikilink without `[`, nl without a
line feed); `G := False` (no invariant at all) for a pattern that is dead everywhere (footnote without definitions).
The invariants themselves are those of `Lemmas/InlineXRel.lean` for the run of `xc1`.
Core Lean only.
-/
import MdVerif.Lemmas.InlineXRel

namespace MdVerif.InlineX
open Py Inline

/-- the index in the longer table of the entry `i` of the shorter one -/
def sh (p i : Nat) : Nat := if i < p then i else i + 1

/-- pattern indices at which the two runs correspond: the same entry, or both about to try the entry that `dead`
    displaced -/
def IdxRel (p p1 p2 : Nat) : Prop := p2 = sh p p1 ∨ (p1 = p ∧ p2 = p)

theorem idxRel_succ {p i : Nat} : IdxRel p (i + 1) (sh p i + 1) := by
  unfold IdxRel sh
  split <;> split <;> omega

theorem idxRel_zero {p : Nat} : IdxRel p 0 0 := by
  unfold IdxRel sh
  split <;> omega

variable {G : Prop} {c : Char} {xc1 xc2 : XCfg} {p : Nat}

/-- the nested `__handleInline` of the run with the longer table follows that of the run with the shorter one -/
def HIS (G : Prop) (c : Char) (p : Nat) (hi1 hi2 : HIX) : Prop :=
  ∀ d p1 p2 x r, IdxRel p p1 p2 → (G → c ∉ d) → (G → StashC c x.st.stash) → hi1 d p1 x = some r → hi2 d p2 x = some r

theorem hiOptX_sim {hi1 hi2 : HIX} (hg : HIS G c p hi1 hi2) (t : Option Str) (atomic : Bool) {p1 p2 : Nat}
    (hr : IdxRel p p1 p2) (x : XSt) (ht : G → OptC c t) (hx : G → StashC c x.st.stash) {r : Option Str × XSt}
    (h : hiOptX hi1 t atomic p1 x = some r) : hiOptX hi2 t atomic p2 x = some r := by
  simp only [hiOptX] at h ⊢
  split
  · rename_i hc
    rw [if_pos hc] at h
    have hd : G → c ∉ t.getD [] := by
      intro g
      cases t with
      | none => simp
      | some s => exact ht g s rfl
    cases hh : hi1 (t.getD []) p1 x with
    | none => rw [hh] at h; cases h
    | some q =>
      rw [hg _ _ _ _ _ hr hd hx hh]
      rw [hh] at h
      exact h
  · rename_i hc
    rw [if_neg hc] at h
    exact h

theorem hiNodeX_sim {hi1 hi2 : HIX} (hg : HIS G c p hi1 hi2) (hg1 : G → HIG c hi1 hi1) (pi : Nat) (n : Node)
    (x : XSt) (hn : G → DeepC c n) (hx : G → StashC c x.st.stash) {r : Node × XSt}
    (h : hiNodeX hi1 pi n x = some r) : hiNodeX hi2 (sh p pi) n x = some r := by
  simp only [hiNodeX] at h ⊢
  cases h1 : hiOptX hi1 n.text n.textAtomic (pi + 1) x with
  | none => rw [h1] at h; cases h
  | some r1 =>
    obtain ⟨t, x1⟩ := r1
    rw [h1] at h
    rw [hiOptX_sim hg _ _ idxRel_succ x (fun g => (DeepC_text_tail (hn g)).1) hx h1]
    simp only [] at h ⊢
    have hx1 : G → StashC c x1.st.stash := fun g =>
      ((hiOptX_rel (hg1 g) _ _ _ _ (DeepC_text_tail (hn g)).1 (hx g)).2 t x1 h1).2
    cases h2 : hiOptX hi1 n.tail n.tailAtomic pi x1 with
    | none => rw [h2] at h; cases h
    | some r2 =>
      rw [h2] at h
      rw [hiOptX_sim hg _ _ (Or.inl rfl) x1 (fun g => (DeepC_text_tail (hn g)).2) hx1 h2]
      exact h

theorem hiNodesX_sim {hi1 hi2 : HIX} (hg : HIS G c p hi1 hi2) (hg1 : G → HIG c hi1 hi1) (pi : Nat) :
    ∀ (l : List Node) (x : XSt), (G → ∀ n ∈ l, DeepC c n) → (G → StashC c x.st.stash) →
      ∀ {r : List Node × XSt}, hiNodesX hi1 pi l x = some r → hiNodesX hi2 (sh p pi) l x = some r := by
  intro l
  induction l with
  | nil => intro x _ _ r h; simpa only [hiNodesX] using h
  | cons n rest ih =>
    intro x hl hx r h
    simp only [hiNodesX] at h ⊢
    cases h1 : hiNodeX hi1 pi n x with
    | none => rw [h1] at h; cases h
    | some r1 =>
      obtain ⟨n', x1⟩ := r1
      rw [h1] at h
      rw [hiNodeX_sim hg hg1 pi n x (fun g => hl g n List.mem_cons_self) hx h1]
      simp only [] at h ⊢
      have hx1 : G → StashC c x1.st.stash := fun g =>
        ((hiNodeX_rel (hg1 g) pi n x (hl g n List.mem_cons_self) (hx g)).2 n' x1 h1).2
      cases h2 : hiNodesX hi1 pi rest x1 with
      | none => rw [h2] at h; cases h
      | some r2 =>
        rw [h2] at h
        rw [ih x1 (fun g m hm => hl g m (List.mem_cons_of_mem _ hm)) hx1 h2]
        exact h

section sim
variable (hs : G → SafeC c) (htab : ∀ i, xc2.table[sh p i]? = xc1.table[i]?)
  (hfind : ∀ k data si x, findX xc1 k data si x = findX xc2 k data si x)
include hs htab hfind

theorem applyPatternX_sim {hi1 hi2 : HIX} (hg : HIS G c p hi1 hi2) (hg1 : G → HIG c hi1 hi1) (pi : Nat) (data : Str)
    (si : Nat) (x : XSt) (hd : G → c ∉ data) (hx : G → StashC c x.st.stash) {r : Str × Bool × Nat × XSt}
    (h : applyPatternX xc1 hi1 pi data si x = some r) : applyPatternX xc2 hi2 (sh p pi) data si x = some r := by
  simp only [applyPatternX, htab] at h ⊢
  cases hk : xc1.table[pi]? with
  | none => rw [hk] at h; exact h
  | some k =>
    rw [hk] at h
    simp only [] at h ⊢
    rw [← hfind]
    cases hf : findX xc1 k data si x with
    | none => rw [hf] at h; cases h
    | some q =>
      obtain ⟨fo, x0⟩ := q
      rw [hf] at h
      have hx0 : G → StashC c x0.st.stash := fun g =>
        (findX_inv (hs g) xc1 k data si x (hd g) hf).1 ▸ hx g
      cases fo with
      | none => exact h
      | some f =>
        have hF : G → FoundC c f := fun g => (findX_inv (hs g) xc1 k data si x (hd g) hf).2 f rfl
        simp only [] at h ⊢
        cases hnode : f.node with
        | none => rw [hnode] at h; exact h
        | str s => rw [hnode] at h; exact h
        | el n =>
          rw [hnode] at h
          have hnD : G → DeepC c n := fun g => by simpa [FoundC, hnode] using hF g
          simp only [] at h ⊢
          by_cases hat : (n.text.isSome && n.textAtomic) = true
          · simp only [hat, if_true] at h ⊢
            exact h
          · simp only [hat, Bool.false_eq_true, if_false] at h ⊢
            have hn0 : G → DeepC c { n with children := [] } := fun g =>
              DeepC_children [] (hnD g) (by intro k hk; cases hk)
            cases h1 : hiNodeX hi1 pi { n with children := [] } x0 with
            | none => rw [h1] at h; cases h
            | some r1 =>
              obtain ⟨n1, x1⟩ := r1
              rw [h1] at h
              rw [hiNodeX_sim hg hg1 pi _ x0 hn0 hx0 h1]
              simp only [] at h ⊢
              have hx1 : G → StashC c x1.st.stash := fun g =>
                ((hiNodeX_rel (hg1 g) pi _ x0 (hn0 g) (hx0 g)).2 n1 x1 h1).2
              cases h2 : hiNodesX hi1 pi n.children x1 with
              | none => rw [h2] at h; cases h
              | some r2 =>
                rw [h2] at h
                rw [hiNodesX_sim hg hg1 pi n.children x1 (fun g => DeepC_kids (hnD g)) hx1 h2]
                exact h

omit hs htab hfind in
/-- a pattern that did not match hands `startIndex = 0` on -/
theorem applyPatternX_nomatch {xc : XCfg} {hi : HIX} {pi : Nat} {data : Str} {si : Nat} {x : XSt} {d : Str}
    {si' : Nat} {x' : XSt} (h : applyPatternX xc hi pi data si x = some (d, false, si', x')) : si' = 0 := by
  simp only [applyPatternX] at h
  split at h
  · injection h with h; injection h with _ h; injection h with _ h; injection h with h _; exact h.symm
  · split at h
    · cases h
    · injection h with h; injection h with _ h; injection h with _ h; injection h with h _; exact h.symm
    · split at h
      · injection h with h; injection h with _ h; injection h with h _; cases h
      · simp only [stashX] at h
        injection h with h; injection h with _ h; injection h with h _; cases h
      · split at h
        · cases h
        · simp only [stashX] at h
          injection h with h; injection h with _ h; injection h with h _; cases h

end sim

/-- the `while patternIndex < count` loops: `ap2` has the dead entry at `p` -/
theorem hiLoopX_sim {ap1 ap2 : Nat → Str → Nat → XSt → Option (Str × Bool × Nat × XSt)} (n : Nat) (hp : p ≤ n)
    (hap : ∀ pi data si x r, (G → c ∉ data) → (G → StashC c x.st.stash) → ap1 pi data si x = some r →
      ap2 (sh p pi) data si x = some r)
    (hinv : ∀ pi data si x d m si' x', (G → c ∉ data) → (G → StashC c x.st.stash) →
      ap1 pi data si x = some (d, m, si', x') → (G → c ∉ d) ∧ (G → StashC c x'.st.stash) ∧ (m = false → si' = 0))
    (hdead : ∀ data si x, (G → c ∉ data) → (G → StashC c x.st.stash) → ap2 p data si x = some (data, false, 0, x)) :
    ∀ (g1 g2 : Nat) (data : Str) (pi1 pi2 si : Nat) (x : XSt) (r : Str × XSt),
      (G → c ∉ data) → (G → StashC c x.st.stash) →
      ((pi2 = sh p pi1 ∧ g1 + (if pi1 < p then 1 else 0) ≤ g2) ∨ (pi1 = p ∧ pi2 = p ∧ si = 0 ∧ g1 + 1 ≤ g2)) →
      hiLoopX n ap1 g1 data pi1 si x = some r → hiLoopX (n + 1) ap2 g2 data pi2 si x = some r := by
  intro g1
  induction g1 with
  | zero => intro g2 data pi1 pi2 si x r _ _ _ h; simp only [hiLoopX] at h; cases h
  | succ g1 ih =>
    have caseA : ∀ (g2 : Nat) (data : Str) (pi1 si : Nat) (x : XSt) (r : Str × XSt),
        (G → c ∉ data) → (G → StashC c x.st.stash) → g1 + 1 + (if pi1 < p then 1 else 0) ≤ g2 →
        hiLoopX n ap1 (g1 + 1) data pi1 si x = some r → hiLoopX (n + 1) ap2 g2 data (sh p pi1) si x = some r := by
      intro g2 data pi1 si x r hd hx hfuel h
      cases g2 with
      | zero => omega
      | succ g2 =>
        unfold hiLoopX at h ⊢
        by_cases hlt : pi1 < n
        · have hlt2 : sh p pi1 < n + 1 := by unfold sh; split <;> omega
          rw [if_pos hlt] at h
          rw [if_pos hlt2]
          cases h1 : ap1 pi1 data si x with
          | none => rw [h1] at h; cases h
          | some q =>
            obtain ⟨d, m, si', x'⟩ := q
            rw [h1] at h
            rw [hap _ _ _ _ _ hd hx h1]
            simp only [] at h ⊢
            obtain ⟨hd', hx', hm0⟩ := hinv _ _ _ _ _ _ _ _ hd hx h1
            cases m with
            | true =>
              simp only [if_true] at h ⊢
              exact ih g2 d pi1 (sh p pi1) si' x' r hd' hx' (Or.inl ⟨rfl, by omega⟩) h
            | false =>
              simp only [Bool.false_eq_true, if_false] at h ⊢
              have hsi : si' = 0 := hm0 rfl
              apply ih g2 d (pi1 + 1) (sh p pi1 + 1) si' x' r hd' hx' ?_ h
              rcases (idxRel_succ (p := p) (i := pi1)) with hr | hr
              · left
                refine ⟨hr, ?_⟩
                unfold sh at hr
                split at hfuel <;> split <;> omega
              · right
                refine ⟨hr.1, hr.2, hsi, ?_⟩
                have : pi1 < p := by omega
                rw [if_pos this] at hfuel
                omega
        · have hlt2 : ¬ sh p pi1 < n + 1 := by unfold sh; split <;> omega
          rw [if_neg hlt] at h
          rw [if_neg hlt2]
          exact h
    intro g2 data pi1 pi2 si x r hd hx hrel h
    rcases hrel with ⟨hpi, hfuel⟩ | ⟨h1, h2, hsi, hfuel⟩
    · subst hpi
      exact caseA g2 data pi1 si x r hd hx hfuel h
    · rw [h1, hsi] at h
      rw [h2, hsi]
      cases g2 with
      | zero => omega
      | succ g2 =>
        have := caseA g2 data p 0 x r hd hx (by rw [if_neg (Nat.lt_irrefl _)]; omega) h
        unfold hiLoopX
        rw [if_pos (by omega), hdead data 0 x hd hx]
        simp only [Bool.false_eq_true, if_false]
        have hsh : sh p p = p + 1 := by unfold sh; rw [if_neg (Nat.lt_irrefl _)]
        rw [hsh] at this
        exact this

theorem loopFuelX_succ (n len : Nat) : loopFuelX n len + 1 ≤ loopFuelX (n + 1) len := by
  unfold loopFuelX
  have h1 : (n + 1) * (len + 2) * (len + 2) = n * (len + 2) * (len + 2) + (len + 2) * (len + 2) := by
    rw [Nat.add_mul, Nat.add_mul, Nat.one_mul]
  rw [h1]
  have h2 : 1 ≤ (len + 2) * (len + 2) := Nat.mul_pos (by omega) (by omega)
  omega

section sim2
variable (hs : G → SafeC c) (htab : ∀ i, xc2.table[sh p i]? = xc1.table[i]?)
  (hfind : ∀ k data si x, findX xc1 k data si x = findX xc2 k data si x)
  (hp : p ≤ xc1.table.length) (hlen : xc2.table.length = xc1.table.length + 1)
  {dead : PatK} (hdeadAt : xc2.table[p]? = some dead)
  (hdead : ∀ data si x, (G → c ∉ data) → (G → StashC c x.st.stash) → findX xc2 dead data si x = some (none, x))
include hs htab hfind hp hlen hdeadAt hdead

theorem handleInlineX_sim : ∀ f1 f2, f1 ≤ f2 → HIS G c p (handleInlineX xc1 f1) (handleInlineX xc2 f2) := by
  intro f1
  induction f1 with
  | zero => intro f2 _ d p1 p2 x r _ _ _ h; simp only [handleInlineX] at h; cases h
  | succ f1 ih =>
    intro f2 hf d p1 p2 x r hrel hd hx h
    cases f2 with
    | zero => omega
    | succ f2 =>
      simp only [handleInlineX, hlen] at h ⊢
      have hself : G → HIG c (handleInlineX xc1 f1) (handleInlineX xc1 f1) := fun g =>
        handleInlineX_rel (hs g) rfl (fun _ _ _ _ _ _ => rfl) f1
      refine hiLoopX_sim (G := G) (c := c) (p := p) xc1.table.length hp ?_ ?_ ?_ _ _ d p1 p2 0 x r hd hx ?_ h
      · intro pi data si x r hd hx h
        exact applyPatternX_sim hs htab hfind (ih f2 (by omega)) hself pi data si x hd hx h
      · intro pi data si x d' m si' x' hd hx h
        refine ⟨fun g => ?_, fun g => ?_, ?_⟩
        · exact ((applyPatternX_rel (hs g) rfl (fun _ _ _ _ _ _ => rfl) (hself g) pi data si x (hd g) (hx g)).2
            d' m si' x' h).1
        · exact ((applyPatternX_rel (hs g) rfl (fun _ _ _ _ _ _ => rfl) (hself g) pi data si x (hd g) (hx g)).2
            d' m si' x' h).2
        · intro hm
          subst hm
          exact applyPatternX_nomatch h
      · intro data si x hd hx
        simp only [applyPatternX, hdeadAt, hdead data si x hd hx]
      · have hfuel := loopFuelX_succ xc1.table.length d.length
        rcases hrel with hr | ⟨h1, h2⟩
        · left
          refine ⟨hr, ?_⟩
          split <;> omega
        · right
          exact ⟨h1, h2, rfl, hfuel⟩

theorem handleInlineTopX_sim (data : Str) (x : XSt) (hd : G → c ∉ data) (hx : G → StashC c x.st.stash)
    {r : Str × XSt} (h : handleInlineTopX xc1 data x = some r) : handleInlineTopX xc2 data x = some r := by
  simp only [handleInlineTopX, hlen] at h ⊢
  exact handleInlineX_sim hs htab hfind hp hlen hdeadAt hdead _ _ (by omega) data 0 0 x r idxRel_zero hd hx h

theorem textStageX_sim (child : Node) (x : XSt) (hch : G → DeepC c child) (hx : G → StashC c x.st.stash)
    {r : Node × List Node × XSt} (h : textStageX xc1 child x = some r) : textStageX xc2 child x = some r := by
  simp only [textStageX] at h ⊢
  split
  · rename_i hc
    rw [if_pos hc] at h
    cases hh : handleInlineTopX xc1 (child.text.getD []) x with
    | none => rw [hh] at h; cases h
    | some q =>
      rw [handleInlineTopX_sim hs htab hfind hp hlen hdeadAt hdead _ x (fun g => optC_of_DeepC_text (hch g)) hx hh]
      rw [hh] at h
      exact h
  · rename_i hc
    rw [if_neg hc] at h
    exact h

theorem tailStageX_sim (c1 : Node) (x1 : XSt) (hc1 : G → DeepC c c1) (hx1 : G → StashC c x1.st.stash)
    {r : Node × List Node × XSt} (h : tailStageX xc1 c1 x1 = some r) : tailStageX xc2 c1 x1 = some r := by
  simp only [tailStageX] at h ⊢
  split
  · rename_i hc
    rw [if_pos hc] at h
    by_cases hat : c1.tailAtomic = true
    · rw [if_pos hat] at h ⊢
      exact h
    · rw [if_neg hat] at h ⊢
      cases hh : handleInlineTopX xc1 (c1.tail.getD []) x1 with
      | none => rw [hh] at h; simp only [tailFinish] at h; cases h
      | some q =>
        rw [handleInlineTopX_sim hs htab hfind hp hlen hdeadAt hdead _ x1 (fun g => optC_of_DeepC_tail (hc1 g)) hx1 hh]
        rw [hh] at h
        exact h
  · rename_i hc
    rw [if_neg hc] at h
    exact h

theorem visitChildX_sim (child : Node) (v : VisitX) (hch : G → DeepC c child) (hv : G → StashC c v.x.st.stash)
    {r : Node × List Node × VisitX} (h : visitChildX xc1 child v = some r) : visitChildX xc2 child v = some r := by
  rw [visitChildX_stages] at h ⊢
  cases h1 : textStageX xc1 child v.x with
  | none => rw [h1] at h; cases h
  | some r1 =>
    obtain ⟨c1, lst, x1⟩ := r1
    rw [h1] at h
    rw [textStageX_sim hs htab hfind hp hlen hdeadAt hdead child v.x hch hv h1]
    simp only [] at h ⊢
    have hinv : G → DeepC c c1 ∧ (∀ n ∈ lst, DeepC c n) ∧ StashC c x1.st.stash := fun g =>
      (textStageX_rel (xc1 := xc1) (xc2 := xc1) (hs g) rfl (fun _ _ _ _ _ _ => rfl) child v.x (hch g) (hv g)).2
        c1 lst x1 h1
    cases h2 : tailStageX xc1 c1 x1 with
    | none => rw [h2] at h; cases h
    | some r2 =>
      rw [h2] at h
      rw [tailStageX_sim hs htab hfind hp hlen hdeadAt hdead c1 x1 (fun g => (hinv g).1) (fun g => (hinv g).2.2) h2]
      exact h

theorem visitLoopX_sim : ∀ (g : Nat) (todo : List (Node × Option Nat)) (v : VisitX),
    (G → ∀ t ∈ todo, DeepC c t.1) → (G → ∀ n ∈ v.done, DeepC c n) → (G → StashC c v.x.st.stash) →
    ∀ {r : VisitX}, visitLoopX xc1 g todo v = some r → visitLoopX xc2 g todo v = some r := by
  intro g
  induction g with
  | zero => intro todo v _ _ _ r h; simp only [visitLoopX] at h; cases h
  | succ g ih =>
    intro todo v ht hdone hv r h
    cases todo with
    | nil => simpa only [visitLoopX] using h
    | cons hd todo =>
      obtain ⟨child, orig⟩ := hd
      simp only [visitLoopX] at h ⊢
      cases h1 : visitChildX xc1 child v with
      | none => rw [h1] at h; cases h
      | some q =>
        obtain ⟨k, tr, v1⟩ := q
        rw [h1] at h
        rw [visitChildX_sim hs htab hfind hp hlen hdeadAt hdead child v
          (fun g => ht g (child, orig) List.mem_cons_self) hv h1]
        simp only [] at h ⊢
        -- the invariants of the next state: from the loop lemma of the shorter run, one step
        have hstep : G → (DeepC c k ∧ (∀ n ∈ tr, DeepC c n) ∧ StashC c v1.x.st.stash) := fun g =>
          (visitChildX_rel (xc1 := xc1) (xc2 := xc1) (hs g) rfl (fun _ _ _ _ _ _ => rfl) child v
            (ht g (child, orig) List.mem_cons_self) (hv g)).2 k tr v1 h1
        have hd1 : v1.done = v.done := by
          rw [visitChildX_stages] at h1
          cases ht1 : textStageX xc1 child v.x with
          | none => rw [ht1] at h1; cases h1
          | some r1 =>
            obtain ⟨a, b, x1⟩ := r1
            rw [ht1] at h1
            simp only [] at h1
            cases ht2 : tailStageX xc1 a x1 with
            | none => rw [ht2] at h1; cases h1
            | some r2 =>
              obtain ⟨a2, b2, x2⟩ := r2
              rw [ht2] at h1
              injection h1 with h1
              injection h1 with _ h1
              injection h1 with _ h1
              rw [← h1]
        apply ih _ _ ?_ ?_ ?_ h
        · intro g t htm
          rcases List.mem_append.mp htm with htm | htm
          · obtain ⟨n, hn, rfl⟩ := List.mem_map.mp htm
            exact (hstep g).2.1 n hn
          · exact ht g t (List.mem_cons_of_mem _ htm)
        · intro g n hn
          rcases List.mem_cons.mp hn with hn | hn
          · exact hn ▸ (hstep g).1
          · exact hdone g n (hd1 ▸ hn)
        · exact fun g => (hstep g).2.2

theorem runLoopX_sim (g2 : Nat) : ∀ (g : Nat) (root : Node) (stack : List Path) (x : XSt),
    (G → DeepC c root) → (G → StashC c x.st.stash) →
    ∀ {r : Node × XSt}, runLoopX xc1 g2 g root stack x = some r → runLoopX xc2 g2 g root stack x = some r := by
  intro g
  induction g with
  | zero => intro root stack x _ _ r h; simp only [runLoopX] at h; cases h
  | succ g ih =>
    intro root stack x hr hx r h
    cases stack with
    | nil => simpa only [runLoopX] using h
    | cons pth stack =>
      simp only [runLoopX] at h ⊢
      cases hg : getAt root pth with
      | none =>
        rw [hg] at h
        exact ih _ _ _ hr hx h
      | some cur =>
        rw [hg] at h
        simp only [] at h ⊢
        have hcur : G → DeepC c cur := fun g => getAt_deep pth (hr g) hg
        cases hv : visitLoopX xc1 g2 (withIdx cur.children 0) { x := x } with
        | none => rw [hv] at h; cases h
        | some v =>
          rw [hv] at h
          rw [visitLoopX_sim hs htab hfind hp hlen hdeadAt hdead g2 (withIdx cur.children 0) { x := x }
            (fun g => withIdx_deep _ 0 (DeepC_kids (hcur g))) (fun _ n hn => by cases hn) hx hv]
          simp only [] at h ⊢
          have hinv : G → (∀ n ∈ v.done, DeepC c n) ∧ StashC c v.x.st.stash := fun g =>
            (visitLoopX_rel (xc1 := xc1) (xc2 := xc1) (hs g) rfl (fun _ _ _ _ _ _ => rfl) g2
              (withIdx cur.children 0) { x := x } (withIdx_deep _ 0 (DeepC_kids (hcur g)))
              (by intro n hn; cases hn) (hx g)).2 v hv
          apply ih _ _ _ ?_ (fun g => (hinv g).2) h
          intro g
          apply setAt_deep pth (hr g)
          apply DeepC_children _ (hcur g)
          intro n hn
          exact (hinv g).1 n (List.mem_reverse.mp hn)

/-- whatever the run with the shorter table answers, the run with the dead entry answers -/
theorem runX_sim (tree : Node) (html : List Str) (ht : G → DeepC c tree) {r : Node × XSt}
    (h : runX xc1 tree html = some r) : runX xc2 tree html = some r := by
  simp only [runX] at h ⊢
  exact runLoopX_sim hs htab hfind hp hlen hdeadAt hdead _ _ tree [[]] { st := { html := html } } ht
    (fun _ it hit => by cases hit) h

end sim2

end MdVerif.InlineX
