/-
The tables of an instance only grow between resets: the log of `Model/InstanceX.lean` after a conversion extends the
log before it (`convertS_log_prefix`), through the extended block parser and the footnote `div` (the log invariants of
`Lemmas/PipelineXInertLog.lean`, instantiated with "`L` is a prefix").  Also the stage decomposition of `treeS`.
Core Lean only.
-/
import MdVerif.Lemmas.InstanceX
import MdVerif.Lemmas.PipelineXInert

namespace MdVerif.InstanceX
open Py Pipeline PipelineX BlockExt

/-- the writing processors append -/
theorem logStep_prefix (L : Block.Refs) (bc : XCfg) : LogStep (fun _ => True) (fun r => L <+: r) bc where
  ref := by
    intro refs parent b rest m _ hq _
    obtain ⟨st, en, ident, link, t5, t6⟩ := m
    simp only [Block.referenceP]
    exact hq.trans (List.prefix_append _ _)
  fn := by
    intro _ refs b rest r _ _ hq h
    simp only [footnoteP] at h
    split at h
    · cases h
    · injection h with h
      rw [← h]
      exact hq.trans (List.prefix_append _ _)
  ab := by
    intro _ refs b rest r _ hq h
    simp only [abbrP] at h
    split at h
    · cases h
    · split at h
      · cases h
      · split at h
        · split at h
          · injection h with h
            rw [← h]
            exact hq.trans (List.prefix_append _ _)
          · injection h with h
            rw [← h]
            exact hq
        · injection h with h
          rw [← h]
          exact hq.trans (List.prefix_append _ _)

/-- `parser.parseChunk` with the extended parser extends the log it is given -/
theorem parseChunk_prefix (tables : Bool) (bc : XCfg) (tab fuel : Nat) (st : List Block.BState) (log : Block.Refs)
    (p : Node) (text : Str) {n : Node} {log' : Block.Refs}
    (h : Block.parseChunk (parseBlocksXT tables bc tab fuel) st log p text = some (n, log')) : log <+: log' :=
  (parseBlocksXT_log closed_true tables bc tab (logStep_prefix log bc) fuel) _ _ _ _
    (fun _ _ => trivial) (List.prefix_refl _) n log' h

/-- the stages of `treeS` after the block parser: footnote `div`, inline, the later tree processors -/
def lateS (x : Exts) (cfg : Cfg) (st : MdSt) (stash : List Str) (root : Node) (log : Block.Refs) : TreeResultS :=
  let fnStage : FootnotesTree.R (Node × Block.Refs) :=
    if x.footnotes then
      match FootnotesTree.makeDiv (parseChunkX x cfg) fnCount (BlockExt.footnotesOf log) log with
      | .ok (some div, log') => .ok (FootnotesTree.placeDiv root div, log')
      | .ok (none, log') => .ok (root, log')
      | .oof => .oof
      | .ood => .ood
    else .ok (root, log)
  match fnStage with
  | .oof => .oof
  | .ood => .ood
  | .ok (root, log) =>
    let xc : InlineX.XCfg :=
      { cfg := { esc := escX x cfg, refs := (refsX x log).reverse }
        table := InlineX.table x.footnotes x.wikilinks x.nl2br
        fnKeys := (BlockExt.footnotesOf log).map (·.1) }
    let f := Inline.runFuel root
    match InlineX.runLoopX xc f f root [[]] { st := { html := stash }, fn := st.fn } with
    | none => .oof
    | some (t, xs) =>
      match (if x.footnotes then FootnotesTree.duplicates xs.fn t else some t) with
      | none => .err
      | some t =>
        let t := TreeProc.prettify t cfg.blockLevel
        let t := if x.attrList then AttrListTree.run cfg.blockLevel t else t
        let t := if x.abbr then AbbrTree.run (BlockExt.abbrsOf log) t else t
        let tocStage : TocTree.R Node :=
          if x.toc then
            TocTree.run { fmt := cfg.fmt, post := postX x cfg xs.st.html } cfg.blockLevel t
          else .ok t
        let side : List Toc.Tok × Option Str :=
          if x.toc then tocSide x cfg xs.st.html t else (st.tocTokens, st.toc)
        match tocStage with
        | .oof => .oof
        | .err => .err
        | .ood => .ood
        | .ok t =>
          match TreeProc.unescapeTree t with
          | none => .err
          | some u =>
            .ok u { log := log, html := xs.st.html, fn := xs.fn, valid := true, toc := side.2, tocTokens := side.1,
                    metaData := st.metaData }

/-- the block parser of a conversion from the carried log: `parser.parseDocument(lines)` -/
def docParseS (x : Exts) (cfg : Cfg) (log : Block.Refs) (text : Str) : Option (Node × Block.Refs) :=
  Block.parseChunk (parseBlocksXT x.tables x.blockCfg cfg.tab (fuelForX text.length)) [] log (Node.el "div") text

theorem treePS_stages (x : Exts) (cfg : Cfg) (st : MdSt) (prep : FootnotesTree.R (Str × List Str)) :
    treePS x cfg st prep =
      match prep with
      | .oof => .oof
      | .ood => .ood
      | .ok (text, stash) =>
        match docParseS x cfg st.log text with
        | none => .oof
        | some (root, log) => lateS x cfg st stash root log := rfl

theorem treeS_stages (x : Exts) (cfg : Cfg) (st : MdSt) (src : Str) :
    treeS x cfg st src =
      match prepareS x cfg st.html src with
      | .oof => .oof
      | .ood => .ood
      | .ok (text, stash) =>
        match docParseS x cfg st.log text with
        | none => .oof
        | some (root, log) => lateS x cfg st stash root log := rfl

/-- the stages after the block parser look at the carried state only through the footnote-reference bookkeeping
    (`used_refs`, `found_refs`), as far as the tree and the stash go; the side outputs are only passed on -/
theorem lateS_proj_congr {x : Exts} {cfg : Cfg} {st st' : MdSt} (hf : st.fn = st'.fn) (stash : List Str) (root : Node)
    (log : Block.Refs) : (lateS x cfg st stash root log).proj = (lateS x cfg st' stash root log).proj := by
  unfold lateS
  rw [hf]
  generalize (if x.footnotes = true then
      match FootnotesTree.makeDiv (parseChunkX x cfg) fnCount (BlockExt.footnotesOf log) log with
      | .ok (some div, log') => FootnotesTree.R.ok (FootnotesTree.placeDiv root div, log')
      | .ok (none, log') => .ok (root, log')
      | .oof => .oof
      | .ood => .ood
    else .ok (root, log)) = fs
  cases fs with
  | oof => rfl
  | ood => rfl
  | ok p =>
    obtain ⟨root1, log1⟩ := p
    simp only []
    generalize InlineX.runLoopX _ _ _ _ _ _ = rl
    cases rl with
    | none => rfl
    | some p =>
      obtain ⟨t, xs⟩ := p
      simp only []
      cases (if x.footnotes = true then FootnotesTree.duplicates xs.fn t else some t) with
      | none => rfl
      | some t =>
        simp only []
        generalize (if x.toc = true then TocTree.run _ _ _ else TocTree.R.ok _) = ts
        cases ts with
        | oof => rfl
        | err => rfl
        | ood => rfl
        | ok t =>
          simp only []
          cases TreeProc.unescapeTree t <;> rfl

/-- the tree and the stash do not depend on the side outputs carried in the state -/
theorem treeS_proj_congr {x : Exts} {cfg : Cfg} {st st' : MdSt} (hl : st.log = st'.log) (hh : st.html = st'.html)
    (hf : st.fn = st'.fn) (src : Str) : (treeS x cfg st src).proj = (treeS x cfg st' src).proj := by
  rw [treeS_stages, treeS_stages, hl, hh]
  cases prepareS x cfg st'.html src with
  | oof => rfl
  | ood => rfl
  | ok p =>
    obtain ⟨text, stash⟩ := p
    simp only []
    cases docParseS x cfg st'.log text with
    | none => rfl
    | some p =>
      obtain ⟨root, log⟩ := p
      exact lateS_proj_congr hf stash root log

/-- **the answer of `convert` does not depend on the side outputs the instance holds** -/
theorem convertS_fst_congr {x : Exts} {cfg : Cfg} {st st' : MdSt} (hv : st.valid = st'.valid) (hl : st.log = st'.log)
    (hh : st.html = st'.html) (hf : st.fn = st'.fn) (src : Str) :
    (convertS x cfg st src).1 = (convertS x cfg st' src).1 := by
  cases hv' : st.valid with
  | false =>
    rw [convertS_invalid x cfg st src hv', convertS_invalid x cfg st' src (hv ▸ hv')]
  | true =>
    rw [convertS_fst x cfg st src hv', convertS_fst x cfg st' src (hv ▸ hv'), treeS_proj_congr hl hh hf]

theorem lateS_log_prefix {x : Exts} {cfg : Cfg} {st st' : MdSt} {stash : List Str} {root u : Node}
    {log : Block.Refs} (h : lateS x cfg st stash root log = .ok u st') : log <+: st'.log := by
  unfold lateS at h
  have hparse : ∀ lg text n r, log <+: lg → parseChunkX x cfg lg text = some (n, r) → log <+: r :=
    fun lg text n r hq hp => hq.trans (parseChunk_prefix _ _ _ _ _ _ _ _ hp)
  -- the footnote stage
  have hfn : ∀ p, (if x.footnotes = true then
      match FootnotesTree.makeDiv (parseChunkX x cfg) fnCount (BlockExt.footnotesOf log) log with
      | .ok (some div, log') => FootnotesTree.R.ok (FootnotesTree.placeDiv root div, log')
      | .ok (none, log') => .ok (root, log')
      | .oof => .oof
      | .ood => .ood
    else .ok (root, log)) = .ok p → log <+: p.2 := by
    intro p hp
    split at hp
    · split at hp
      · rename_i div log' hm
        injection hp with hp; rw [← hp]
        exact makeDiv_log (Q := fun r => log <+: r) hparse _ _ (List.prefix_refl _) hm
      · rename_i log' hm
        injection hp with hp; rw [← hp]
        exact makeDiv_log (Q := fun r => log <+: r) hparse _ _ (List.prefix_refl _) hm
      · cases hp
      · cases hp
    · injection hp with hp; rw [← hp]; exact List.prefix_refl _
  generalize hfs : (if x.footnotes = true then
      match FootnotesTree.makeDiv (parseChunkX x cfg) fnCount (BlockExt.footnotesOf log) log with
      | .ok (some div, log') => FootnotesTree.R.ok (FootnotesTree.placeDiv root div, log')
      | .ok (none, log') => .ok (root, log')
      | .oof => .oof
      | .ood => .ood
    else .ok (root, log)) = fs at h hfn
  cases fs with
  | oof => cases h
  | ood => cases h
  | ok p =>
    obtain ⟨root1, log1⟩ := p
    have hpre : log <+: log1 := hfn _ rfl
    simp only [] at h
    generalize InlineX.runLoopX _ _ _ _ _ _ = rl at h
    cases rl with
    | none => cases h
    | some p =>
      obtain ⟨t, xs⟩ := p
      simp only [] at h
      generalize (if x.footnotes = true then FootnotesTree.duplicates xs.fn t else some t) = dp at h
      cases dp with
      | none => cases h
      | some t =>
        simp only [] at h
        generalize (if x.toc = true then TocTree.run _ _ _ else TocTree.R.ok _) = ts at h
        cases ts with
        | oof => cases h
        | err => cases h
        | ood => cases h
        | ok t =>
          simp only [] at h
          cases hu : TreeProc.unescapeTree t with
          | none => rw [hu] at h; cases h
          | some u' =>
            rw [hu] at h
            injection h with _ h
            rw [← h]
            exact hpre

theorem treeS_log_prefix {x : Exts} {cfg : Cfg} {st st' : MdSt} {src : Str} {u : Node}
    (h : treeS x cfg st src = .ok u st') : st.log <+: st'.log := by
  rw [treeS_stages] at h
  split at h
  · cases h
  · cases h
  · split at h
    · cases h
    · rename_i hp
      exact (parseChunk_prefix _ _ _ _ _ _ _ _ hp).trans (lateS_log_prefix h)

/-- the log after a conversion extends the log before it (an untracked state keeps the last tracked log) -/
theorem convertS_log_prefix (x : Exts) (cfg : Cfg) (st : MdSt) (s : Str) :
    st.log <+: (convertS x cfg st s).2.log := by
  unfold convertS
  split
  · exact List.prefix_refl _
  split
  · exact List.prefix_refl _
  split
  · exact List.prefix_refl _
  split
  · exact List.prefix_refl _
  split
  · exact List.prefix_refl _
  · exact List.prefix_refl _
  · exact List.prefix_refl _
  · rename_i u st' ht
    split
    · exact treeS_log_prefix ht
    · exact List.prefix_refl _

end MdVerif.InstanceX
