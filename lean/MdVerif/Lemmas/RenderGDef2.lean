/-
Helper lemmas for `Props/C16RenderG.lean`, part 17: definition lists — a term/definition group added to an existing
list, a whole group (terms, definitions, continuation paragraphs of the last definition), the document of several
groups through the block stage.

Core Lean only.
-/
import MdVerif.Lemmas.RenderGDef

namespace MdVerif.RenderG
open Py Block BlockExt MdVerif.RenderX

/-- the first turn on a group when the list exists already: the terms and the first definition are added to it -/
theorem dispatch_defSrc_more (cfg : XCfg) (hdef : cfg.defList = true) (tab : Nat) (htab : tab > 0) (f : Nat)
    (state : List BState) (refs : Refs) (parent dl : Node) (hlast : parent.last? = some dl) (hdl : dl.isTag "dl" = true)
    (t0 : Str) (tr : List Str) (d : Str) (ds : List Str) (rest : List Str)
    (ht : ∀ l ∈ t0 :: tr, PlainFacts l) (hd : ∀ l ∈ d :: ds, PlainFacts l) :
    dispatchXT false cfg tab (parseBlocksXT false cfg tab (f + 1)) state refs parent (defSrc (t0 :: tr) (d :: ds)) rest =
      some (parent.setLast ((addTerms dl (t0 :: tr)).append (ddNode d)), refs,
        if (defsText ds).isEmpty then rest else defsText ds :: rest) := by
  have hd0 := hd d List.mem_cons_self
  have hds : ∀ x ∈ ds, PlainFacts x := fun x hx => hd x (List.mem_cons_of_mem _ hx)
  rw [dispatchXT_toDef cfg tab htab _ state refs parent _ rest (coreFree_defSrc t0 tr d ds ht hd)]
  have hsrc := defSrc_eq t0 tr d ds
  have hfirst : defAt (defSrc (t0 :: tr) (d :: ds)) = none := by
    rw [hsrc, show joinLines (t0 :: tr) = t0 ++ (match tr with | [] => [] | x :: y => '\n' :: joinLines (x :: y)) by
      cases tr with
      | nil => simp [joinLines, join]
      | cons x y => rw [Block.joinLines_cons_cons], List.append_assoc]
    exact defAt_plain t0 _ (ht t0 List.mem_cons_self)
  have haux := nlSearchAux_terms (t0 :: tr) ht d (defsTail ds) hd0 (defsTail_cases ds) 0 (by simp)
  rw [← defsText_cons, ← hsrc] at haux
  have hsearch : defSearch (defSrc (t0 :: tr) (d :: ds)) =
      some ((joinLines (t0 :: tr)).length,
        (joinLines (t0 :: tr)).length + 1 + (4 + d.length + (if defsTail ds = [] then 0 else 1)), d) := by
    simp only [defSearch, nlSearch, hfirst, haux, Nat.zero_add]
  have htake : (defSrc (t0 :: tr) (d :: ds)).take (joinLines (t0 :: tr)).length = joinLines (t0 :: tr) := by
    rw [hsrc]; exact List.take_left' rfl
  have hdrop : (defSrc (t0 :: tr) (d :: ds)).drop
      ((joinLines (t0 :: tr)).length + 1 + (4 + d.length + (if defsTail ds = [] then 0 else 1))) = defsText ds := by
    rw [hsrc, show joinLines (t0 :: tr) ++ '\n' :: defsText (d :: ds) =
      (joinLines (t0 :: tr) ++ ['\n']) ++ defsText (d :: ds) by simp,
      show (joinLines (t0 :: tr)).length + 1 + (4 + d.length + (if defsTail ds = [] then 0 else 1)) =
        (joinLines (t0 :: tr) ++ ['\n']).length + (4 + d.length + (if defsTail ds = [] then 0 else 1)) by simp,
      ← List.drop_drop, List.drop_left' rfl]
    rw [defsText_cons]
    cases ds with
    | nil =>
      simp only [defsTail, List.append_nil, if_true, Nat.add_zero]
      exact List.drop_eq_nil_of_le (by simp [defLine]; omega)
    | cons e es =>
      have hne : ('\n' :: defsText (e :: es) = []) = False := by simp
      simp only [defsTail, hne, if_false]
      rw [show defLine d ++ '\n' :: defsText (e :: es) = (defLine d ++ ['\n']) ++ defsText (e :: es) by simp]
      exact List.drop_left' (by simp [defLine]; omega)
  have hterms : List.filter (fun t => !t.isEmpty) (List.map strip (lines (joinLines (t0 :: tr)))) = t0 :: tr := by
    rw [joinLines_lines (by simp) (fun p hp => (ht p hp).noNl)]
    have : ∀ L : List Str, (∀ l ∈ L, PlainFacts l) → List.filter (fun t => !t.isEmpty) (List.map strip L) = L := by
      intro L hL
      induction L with
      | nil => rfl
      | cons x L ih =>
        have hx := hL x List.mem_cons_self
        have hne : x.isEmpty = false := by
          have := hx.ne
          cases x with
          | nil => exact absurd rfl this
          | cons a b => rfl
        simp only [List.map_cons, strip_plain hx, List.filter, hne, Bool.not_false,
          ih (fun l hl => hL l (List.mem_cons_of_mem _ hl))]
    exact this _ ht
  obtain ⟨hni, hdetab⟩ := def_rest tab htab ds hds
  have hpb := pb_dd cfg tab htab f state refs d hd0
  simp only [tailDef, hdef, if_true, hsearch, defListP, htake, hterms, hdrop, hni, Bool.false_eq_true, if_false,
    hdetab, List.isEmpty_nil, hlast, List.isEmpty_cons, Bool.false_and, hdl, hpb]

/-! ### a group -/

/-- a group: the term lines, the one-line definitions, the continuation paragraphs of the last definition -/
structure DGroup where
  t0 : Str
  tr : List Str
  d : Str
  ds : List Str
  conts : List Para

structure GroupOK (g : DGroup) : Prop where
  terms : ∀ l ∈ g.t0 :: g.tr, PlainFacts l
  defs : ∀ l ∈ g.d :: g.ds, PlainFacts l
  conts : ∀ p ∈ g.conts, ParaOK p

/-- the blocks of a group -/
def groupBlocks (tab : Nat) (g : DGroup) : List Str :=
  defSrc (g.t0 :: g.tr) (g.d :: g.ds) :: g.conts.map (bodyBlock tab)

/-- the last `dd` of a group: tight without continuation, otherwise paragraphs -/
def lastDd (z : Str) (texts : List Str) : Node := if texts = [] then ddNode z else looseDd z texts

/-- the `dd`s of the definitions `d :: ds`; `texts` = the continuation of the last one -/
def ddsOf : Str → List Str → List Str → List Node
  | d, [], texts => [lastDd d texts]
  | d, e :: es, texts => ddNode d :: ddsOf e es texts

/-- the children a group adds to the `dl` -/
def groupKids (g : DGroup) : List Node :=
  (g.t0 :: g.tr).map (fun t => mkText "dt" t) ++ ddsOf g.d g.ds (g.conts.map pText)

theorem ddsOf_split : ∀ (ds : List Str) (d : Str), ∃ K' z, z ∈ d :: ds ∧ (d :: ds).map ddNode = K' ++ [ddNode z] ∧
    ∀ texts, ddsOf d ds texts = K' ++ [lastDd z texts] := by
  intro ds
  induction ds with
  | nil => intro d; exact ⟨[], d, by simp, rfl, fun _ => rfl⟩
  | cons e es ih =>
    intro d
    obtain ⟨K', z, hz, h1, h2⟩ := ih e
    exact ⟨ddNode d :: K', z, List.mem_cons_of_mem _ hz, by simp [h1], fun texts => by simp [ddsOf, h2]⟩

/-- how many turns a group takes -/
def groupCost (g : DGroup) : Nat := 1 + g.ds.length + g.conts.length

theorem rootOf_last (K : List Node) (x : Node) : (rootOf (K ++ [x])).last? = some x := by
  simp [rootOf, Node.last?]

/-- a whole group, on a root that is empty (`K = none`) or holds the list already -/
theorem parse_group (cfg : XCfg) (hdef : cfg.defList = true) (tab : Nat) (htab : 0 < tab) (g : DGroup) (hg : GroupOK g)
    (K : Option (List Node)) (refs : Refs) (f : Nat) (REST : List Str) :
    parseBlocksXT false cfg tab (f + 2 + groupCost g) [] refs
        (rootOf (match K with | none => [] | some k => [dlOf k])) (groupBlocks tab g ++ REST) =
      parseBlocksXT false cfg tab (f + 2) [] refs (rootOf [dlOf (K.getD [] ++ groupKids g)]) REST := by
  obtain ⟨t0, tr, d, ds, conts⟩ := g
  obtain ⟨K', z, hz, hsplit1, hsplit2⟩ := ddsOf_split ds d
  have hzne : z ≠ [] := (hg.defs z hz).ne
  -- the first turn
  have hfirst : dispatchXT false cfg tab (parseBlocksXT false cfg tab (f + 1 + ds.length + conts.length + 1)) [] refs
      (rootOf (match K with | none => [] | some k => [dlOf k])) (defSrc (t0 :: tr) (d :: ds))
      (conts.map (bodyBlock tab) ++ REST) =
      some (rootOf [dlOf (K.getD [] ++ (t0 :: tr).map (fun t => mkText "dt" t) ++ [ddNode d])], refs,
        if (defsText ds).isEmpty then conts.map (bodyBlock tab) ++ REST
        else defsText ds :: (conts.map (bodyBlock tab) ++ REST)) := by
    cases K with
    | none =>
      have h := dispatch_defSrc cfg hdef tab htab (f + 1 + ds.length + conts.length) [] refs (rootOf []) rfl t0 tr d ds
        (conts.map (bodyBlock tab) ++ REST) hg.terms hg.defs
      rw [h]
      simp [rootOf, dlOf, dlNode, Node.append, Node.el]
    | some k =>
      have h := dispatch_defSrc_more cfg hdef tab htab (f + 1 + ds.length + conts.length) [] refs (rootOf [dlOf k]) (dlOf k)
        (by simp [rootOf, Node.last?]) (by simp only [dlOf, Node.isTag, Node.el]; decide) t0 tr d ds
        (conts.map (bodyBlock tab) ++ REST) hg.terms hg.defs
      rw [h]
      simp [rootOf, dlOf, addTerms, Node.append, Node.setLast, Node.el]
  rw [show f + 2 + groupCost ⟨t0, tr, d, ds, conts⟩ = (f + 1 + ds.length + conts.length + 1) + 1 by
    simp only [groupCost]; omega]
  simp only [groupBlocks, List.cons_append, parseBlocksXT, hfirst]
  -- the further definitions
  have hdefs : parseBlocksXT false cfg tab (f + 1 + ds.length + conts.length + 1) [] refs
      (rootOf [dlOf (K.getD [] ++ (t0 :: tr).map (fun t => mkText "dt" t) ++ [ddNode d])])
      (if (defsText ds).isEmpty then conts.map (bodyBlock tab) ++ REST
        else defsText ds :: (conts.map (bodyBlock tab) ++ REST)) =
      parseBlocksXT false cfg tab (f + 2 + conts.length) [] refs
        (rootOf [dlOf (K.getD [] ++ (t0 :: tr).map (fun t => mkText "dt" t) ++ (d :: ds).map ddNode)])
        (conts.map (bodyBlock tab) ++ REST) := by
    cases ds with
    | nil =>
      simp only [defsText, List.map_nil, joinLines, join, List.isEmpty_nil, if_true, List.length_nil, Nat.add_zero,
        List.map_cons]
      rw [show f + 1 + conts.length + 1 = f + 2 + conts.length by omega]
    | cons e es =>
      have hne : (defsText (e :: es)).isEmpty = false := by
        rw [defsText_cons]; simp [defLine]
      simp only [hne, Bool.false_eq_true, if_false]
      have hloop := loop_defs cfg hdef tab htab [] refs (conts.map (bodyBlock tab) ++ REST) (e :: es)
        (rootOf [dlOf (K.getD [] ++ (t0 :: tr).map (fun t => mkText "dt" t) ++ [ddNode d])])
        (dlOf (K.getD [] ++ (t0 :: tr).map (fun t => mkText "dt" t) ++ [ddNode d])) (f + 1 + conts.length) (by simp)
        (fun x hx => hg.defs x (List.mem_cons_of_mem _ hx)) (by simp [rootOf, Node.last?])
        (by simp only [dlOf, Node.isTag, Node.el]; decide)
        (by
          have : dlOf (K.getD [] ++ (t0 :: tr).map (fun t => mkText "dt" t) ++ [ddNode d]) =
              (dlOf (K.getD [] ++ (t0 :: tr).map (fun t => mkText "dt" t))).append (ddNode d) := by
            simp [dlOf, Node.append]
          rw [this]; exact lastDdTight_append _ d)
      rw [show f + 1 + (e :: es).length + conts.length + 1 = f + 1 + conts.length + 1 + (e :: es).length by omega, hloop,
        show f + 1 + conts.length + 1 = f + 2 + conts.length by omega]
      simp [rootOf, dlOf, Node.setLast, Node.el, List.append_assoc]
  rw [hdefs, hsplit1, ← List.append_assoc]
  -- the continuation paragraphs
  have hc := parse_defConts cfg hdef tab htab (K.getD [] ++ (t0 :: tr).map (fun t => mkText "dt" t) ++ K') z hzne conts []
    (ddNode z) refs f REST hg.conts (Or.inl ⟨rfl, rfl⟩)
  rw [hc]
  have hl : (if conts = [] then ddNode z else looseDd z ([] ++ conts.map pText)) = lastDd z (conts.map pText) := by
    unfold lastDd
    cases conts <;> simp
  rw [hl]
  simp only [groupKids, hsplit2, List.append_assoc]

end MdVerif.RenderG
