/-
The block stage of `PipelineX` under a change of configuration: `parseBlocksXT` (extended block parser with the
table processor) for two configurations whose dispatchers coincide on good arguments (`parseBlocksXT_good`, the
analogue of `parseBlocksX_good`), and the log invariants of `PipelineXInertLog.lean` for `parseBlocksXT`
(`parseBlocksXT_log`).  Core Lean only.
-/
import MdVerif.Lemmas.PipelineXInertLog
import MdVerif.Lemmas.BlockExtFlags

namespace MdVerif.BlockExt
open Py Block

variable {Ok : Str → Prop} {qt : Tag → List (Str × Str) → Bool}

/-- the tags of the elements `TableProcessor.run` creates satisfy `qt` -/
structure TableTagsOk (qt : Tag → List (Str × Str) → Bool) : Prop where
  table : ∀ a, qt (.name "table".toList) a = true
  thead : ∀ a, qt (.name "thead".toList) a = true
  tbody : ∀ a, qt (.name "tbody".toList) a = true
  tr : ∀ a, qt (.name "tr".toList) a = true
  th : ∀ a, qt (.name "th".toList) a = true
  td : ∀ a, qt (.name "td".toList) a = true

theorem NI_leaf (tag : String) (attrs : List (Str × Str)) (text : Option Str) (h : ∀ a, qt (.name tag.toList) a = true) :
    NI qt { Node.el tag with text := text, attrs := attrs } := by
  rw [NI_iff]; exact ⟨h _, by intro c hc; cases hc⟩

theorem NI_zipCells (tag : String) (h : ∀ a, qt (.name tag.toList) a = true) :
    ∀ (ts : List Str) (as : List (Option Tables.Align)), ∀ c ∈ zipCells tag ts as, NI qt c := by
  intro ts
  induction ts with
  | nil => intro as c hc; simp [zipCells] at hc
  | cons t ts ih =>
    intro as c hc
    cases as with
    | nil => simp [zipCells] at hc
    | cons a as =>
      simp only [zipCells, List.mem_cons] at hc
      rcases hc with hc | hc
      · rw [hc]; exact NI_leaf tag _ _ h
      · exact ih as c hc

theorem NI_tableNode (ht : TableTagsOk qt) (t : Tables.Table) : NI qt (tableNode t) := by
  simp only [tableNode]
  rw [NI_iff]
  refine ⟨ht.table _, ?_⟩
  intro c hc
  simp only [List.mem_cons, List.mem_singleton, List.not_mem_nil, or_false] at hc
  rcases hc with hc | hc
  · rw [hc, NI_iff]
    refine ⟨ht.thead _, ?_⟩
    intro c' hc'
    simp only [List.mem_singleton] at hc'
    rw [hc', NI_iff]
    exact ⟨ht.tr _, NI_zipCells "th" ht.th _ _⟩
  · rw [hc, NI_iff]
    refine ⟨ht.tbody _, ?_⟩
    intro c' hc'
    obtain ⟨row, _, rfl⟩ := List.mem_map.mp hc'
    simp only [bodyRow]
    split
    · rw [NI_iff]; exact ⟨ht.tr _, NI_zipCells "td" ht.td _ _⟩
    · rw [NI_iff]
      refine ⟨ht.tr _, ?_⟩
      intro c'' hc''
      obtain ⟨_, _, rfl⟩ := List.mem_map.mp hc''
      exact NI_el _ (ht.td _)

variable {cfg : XCfg} {pb1 pb2 : PB} {tab : Nat} {state : List BState} {refs : Refs} {parent : Node} {b : Str}
  {rest : List Str}

theorem tailEmptyT_good (tables : Bool) (hc : Closed Ok) (ht : TagsOk qt cfg) (htab : tables = true → TableTagsOk qt)
    (hg : Good Ok qt pb1 pb2) (hb : Ok b) (hr : AllOk Ok rest) (hp : NI qt parent) :
    Concl Ok qt (tailEmptyT tables cfg tab pb1 state refs parent b rest)
      (tailEmptyT tables cfg tab pb2 state refs parent b rest) := by
  simp only [tailEmptyT]
  refine concl_ite _ (fun _ => emptyP_good hc hb hr hp) (fun _ => ?_)
  refine concl_ite _ (fun _ => indentP_good hc ht hg hb hr hp) (fun _ => ?_)
  refine concl_ite _ (fun hcfg => ?_) (fun _ => ?_)
  · simp only [Bool.and_eq_true] at hcfg
    exact indentPX_good hc ht hg hb hr hp _ _ "dd" (ht.dd hcfg.1)
  refine concl_ite _ (fun _ => codeP_good hc ht hb hr hp) (fun _ => ?_)
  split
  · rename_i bs hbs
    have htb : tables = true := by
      cases tables with
      | true => rfl
      | false => simp at hbs
    exact concl_some (NI_append hp (NI_tableNode (htab htb) _)) hr
  · split
    · exact hashP_good hc ht hg hb hr hp _
    · refine concl_ite _ (fun _ => setextP_good hc ht hb hr hp) (fun _ => ?_)
      split
      · exact hrP_good hc ht hg hb hr hp _
      · exact tailList_good hc ht hg hb hr hp

theorem dispatchXT_good (tables : Bool) (hc : Closed Ok) (ht : TagsOk qt cfg) (htab : tables = true → TableTagsOk qt)
    (hg : Good Ok qt pb1 pb2) (hb : Ok b) (hr : AllOk Ok rest) (hp : NI qt parent) :
    Concl Ok qt (dispatchXT tables cfg tab pb1 state refs parent b rest)
      (dispatchXT tables cfg tab pb2 state refs parent b rest) := by
  simp only [dispatchXT]
  split
  · rename_i hit hh
    have hcfg : cfg.admonition = true := by
      cases h : cfg.admonition with
      | true => rfl
      | false => simp [h] at hh
    exact admonitionP_good hc ht (ht.div hcfg) hg hb hr hp hit
  · exact tailEmptyT_good tables hc ht htab hg hb hr hp

/-- two configurations (flags and table processor) whose dispatchers coincide on good arguments parse alike on good
    arguments -/
theorem parseBlocksXT_good (hc : Closed Ok) (tables tables' : Bool) (cfg' : XCfg) (ht : TagsOk qt cfg)
    (htab : tables = true → TableTagsOk qt) (tab : Nat)
    (hflag : ∀ (pb : PB) (state : List BState) (refs : Refs) (parent : Node) (b : Str) (rest : List Str),
      Ok b → NI qt parent →
        dispatchXT tables' cfg' tab pb state refs parent b rest = dispatchXT tables cfg tab pb state refs parent b rest) :
    ∀ fuel, Good Ok qt (parseBlocksXT tables' cfg' tab fuel) (parseBlocksXT tables cfg tab fuel) := by
  intro fuel
  induction fuel with
  | zero =>
    intro st refs p bl _ hp
    cases bl with
    | nil => exact ⟨rfl, by intro n r h; simp only [parseBlocksXT] at h; cases h; exact hp⟩
    | cons b rest => exact ⟨rfl, by intro n r h; simp only [parseBlocksXT] at h; cases h⟩
  | succ f ih =>
    intro st refs p bl hbl hp
    cases bl with
    | nil => exact ⟨rfl, by intro n r h; simp only [parseBlocksXT] at h; cases h; exact hp⟩
    | cons b rest =>
      simp only [parseBlocksXT]
      rw [hflag _ st refs p b rest (AllOk.head hbl) hp]
      obtain ⟨e, s⟩ := dispatchXT_good (cfg := cfg) (tab := tab) (state := st) (refs := refs) tables hc ht htab ih
        (AllOk.head hbl) (AllOk.tail hbl) hp
      rw [e]
      cases h : dispatchXT tables cfg tab (parseBlocksXT tables cfg tab f) st refs p b rest with
      | none => exact ⟨rfl, by intro n r h; cases h⟩
      | some res =>
        obtain ⟨n, r, bl'⟩ := res
        obtain ⟨h1, h2⟩ := s n r bl' h
        exact ih st r n bl' h2 h1

theorem tableTagsOk_true : TableTagsOk qtTrue :=
  ⟨fun _ => rfl, fun _ => rfl, fun _ => rfl, fun _ => rfl, fun _ => rfl, fun _ => rfl⟩

/-- a log invariant that the writing processors keep is kept by the whole parser on `Ok` block lists -/
theorem parseBlocksXT_log {Q : Refs → Prop} (hc : Closed Ok) (tables : Bool) (cfg : XCfg) (tab : Nat)
    (hl : LogStep Ok Q cfg) : ∀ fuel, RSound Ok Q (parseBlocksXT tables cfg tab fuel) := by
  intro fuel
  induction fuel with
  | zero =>
    intro st refs p bl _ hq n r h
    cases bl with
    | nil => simp only [parseBlocksXT] at h; cases h; exact hq
    | cons b rest => simp only [parseBlocksXT] at h; cases h
  | succ f ih =>
    intro st refs p bl hbl hq n r h
    cases bl with
    | nil => simp only [parseBlocksXT] at h; cases h; exact hq
    | cons b rest =>
      simp only [parseBlocksXT] at h
      have hgood : Good Ok qtTrue (parseBlocksXT tables cfg tab f) (parseBlocksXT tables cfg tab f) :=
        fun _ _ _ _ _ _ => ⟨rfl, fun n _ _ => NI_true n⟩
      obtain ⟨_, s⟩ := dispatchXT_good (cfg := cfg) (tab := tab) (state := st) (refs := refs) (parent := p) tables hc
        (tagsOk_true cfg) (fun _ => tableTagsOk_true) hgood (AllOk.head hbl) (AllOk.tail hbl) (NI_true p)
      have hqr := dispatchXT_log (tab := tab) (state := st) (parent := p) tables hc hl ih (AllOk.head hbl)
        (AllOk.tail hbl) hq
      cases hd : dispatchXT tables cfg tab (parseBlocksXT tables cfg tab f) st refs p b rest with
      | none => rw [hd] at h; cases h
      | some res =>
        obtain ⟨n', r', bl'⟩ := res
        rw [hd] at h
        exact ih st r' n' bl' (s n' r' bl' hd).2 (hqr n' r' bl' hd) n r h

end MdVerif.BlockExt
