/-
Helper lemmas for C10 on the extension model with inline links, part 5: the composition of the stage lemmas along
`PipelineX.convertX` on the domain of `Props/C10c.lean` (`C10DomainC`: inline links and images with simple destinations,
titles and alt texts) when the block-level extensions admonition, def_list, abbr, sane_lists, the inline-stage
extensions nl2br, wikilinks and the tree-level extensions attr_list, toc may be enabled; fenced_code, footnotes and
TABLES off.  It is `Lemmas/PlaceholdersXAll.lean` (worker b1, domain `C10DomainL`: no `](`, no `![`) with the C
invariants:

* the instance of `BlkXC.StrDomXC` for the string class of `C10c` (`strDomXC_adjCq`: characters of the domain, no
  backslash–backtick, closed simple regions behind `](` and `![`, with wikilinks no `[` before a blank) — `lower` keeps the
  character class, the literal strings have neither `]` nor `!`, so they have no region at all (`regionsOK_of_plain`);
* block stage: `BlkXC.parseDocumentXT_strs` (`Lemmas/PlaceholdersXCBlock{,2}.lean`) gives `WNodeC 0` / `QN wl` at every
  element of the block tree, `RefsOK` and abbreviation keys and titles without STX/ETX from the log.  The class is not
  closed under infixes; the table processor cuts rows at `|`, which is why tables is off here;
* inline stage `runX_specB` of `Lemmas/PlaceholdersXCRun.lean` over `InlineX.table false wl nl`: `front_block_links`;
* the stages after it are the generic tail `convertX_noctl_generic` of `Lemmas/PlaceholdersXLate.lean`.

Core Lean only.
-/
import MdVerif.Lemmas.PlaceholdersXCBlock2
import MdVerif.Lemmas.PlaceholdersXC
import MdVerif.Lemmas.PlaceholdersXAll

namespace MdVerif.NoCtlXC
open MdVerif.NoCtl Py Inline InlineX

/-! ### the instance of `StrDomXC` -/

/-- the string class that the block stage keeps on the domain of `C10c` (characters of the domain, no
    backslash–backtick, closed simple regions behind `](` and `![`, with wikilinks no `[` immediately before a blank) is
    closed under what the extension processors do -/
theorem strDomXC_adjCq (wl : Bool) : BlkXC.StrDomXC NoCtlX.pDom Blk.okc
    (fun s => (Blk.AllC NoCtlX.pDom s ∧ AdjC false s) ∧ Qw wl s) where
  toStrDomC := strDomC_adjCq wl
  lower := NoCtlX.lowerChar_p
  lit := fun s hs =>
    ⟨⟨fun c hc => NoCtlX.litChar_p (hs c hc),
      NoCtlX.contains_pair_of_not_mem (NoCtlX.lit_not_mem hs (by decide)),
      regionsOK_of_plain (NoCtlX.lit_not_mem hs (by decide)) (NoCtlX.lit_not_mem hs (by decide))⟩,
     fun _ => NoCtlX.contains_pair_of_not_mem (NoCtlX.lit_not_mem hs (by decide))⟩

/-- the instance without the wikilinks clause (`P s = AllC p s ∧ AdjC false s`, as `BlkC.strDomC_adjC`) -/
theorem strDomXC_adjC : BlkXC.StrDomXC NoCtlX.pDom Blk.okc (fun s => Blk.AllC NoCtlX.pDom s ∧ AdjC false s) where
  toStrDomC := BlkC.strDomC_adjC
  lower := NoCtlX.lowerChar_p
  lit := fun s hs => ((strDomXC_adjCq false).lit s hs).1

/-! ### from the extended block tree to the invariants of the inline engine -/

theorem wnodeC_of_bnodeXP {wl : Bool} {n : Node}
    (h : BlkX.BNodeXP NoCtlX.pDom Blk.okc (fun s => (Blk.AllC NoCtlX.pDom s ∧ AdjC false s) ∧ Qw wl s) n) :
    WNodeC 0 n ∧ QN wl n := by
  obtain ⟨⟨b1, b2, b3, b4, b5, b6, b7⟩, p1, p2⟩ := h
  have htail := allC_domB p1.1.1
  refine ⟨⟨b1, NoCtlX.attrsNoCtl_of_attrsC b2, b3, strT_of_noCtlC htail.1 htail.2 p1.1.2.lax, ?_,
    fun hc => b7 (by simpa [isCode] using hc)⟩, fun ha => (p2 ha).2, p1.2⟩
  split
  · rename_i hat
    rw [if_pos hat] at b5
    exact allC_okc b5
  · rename_i hat
    have hat' : n.textAtomic = false := by simpa using hat
    have ht := p2 hat'
    have htx := allC_domB ht.1.1
    exact strT_of_noCtlC htx.1 htx.2 ht.1.2.lax

/-! ### end to end -/

/-- **the front part of `convertX` with the block-level extensions on the domain with inline links** (fenced code and
    tables off): on `C10DomainC` the tree after the inline stage consists of `WNodeC 0` elements, the raw-HTML stash is
    empty, and the abbreviation table holds no STX/ETX -/
theorem front_block_links {x : PipelineX.Exts} (hfc : x.fencedCode = false) (htb : x.tables = false)
    {cfg : Pipeline.Cfg} (hcfg : EscOK cfg.esc) {src : Str} (hd : C10DomainC cfg.tab src)
    (hq : Qw x.wikilinks (Normalize.normalize cfg.tab src))
    {text : Str} {stash : List Str} {root : Node} {log : Block.Refs} {t : Node} {xs : XSt}
    (hp : PipelineX.prepareX x cfg src = .ok (text, stash))
    (hb : BlockExt.parseDocumentXT x.tables x.blockCfg cfg.tab text = some (root, log))
    (hr : runX (NoCtlX.xcX x cfg log) root stash = some (t, xs)) :
    t.Forall (WNodeC 0) ∧ xs.st.html = [] ∧ (∀ kv ∈ BlockExt.abbrsOf log, NoCtl kv.1 ∧ NoCtl kv.2) := by
  obtain ⟨rfl, rfl⟩ := NoCtlX.prepareX_nofence hfc hp
  rw [htb] at hb
  have hP : (Blk.AllC NoCtlX.pDom (Pipeline.prepare cfg src) ∧ AdjC false (Pipeline.prepare cfg src)) ∧
      Qw x.wikilinks (Pipeline.prepare cfg src) :=
    ⟨prepare_domC cfg hd, by rw [prepare_eq_normalize cfg hd]; exact hq⟩
  obtain ⟨hroot, hlog⟩ := BlkXC.parseDocumentXT_strs (strDomXC_adjCq x.wikilinks) x.blockCfg cfg.tab _ hP hb
  have htree : root.Forall (WNodeC 0) := Node.Forall.mono (fun _ hn => (wnodeC_of_bnodeXP hn).1) root hroot
  have htreeq : root.Forall (QN x.wikilinks) := Node.Forall.mono (fun _ hn => (wnodeC_of_bnodeXP hn).2) root hroot
  have hkeys : ∀ k ∈ (NoCtlX.xcX x cfg log).fnKeys, NoCtl k := by
    intro k hk
    simp only [List.mem_map] at hk
    obtain ⟨kv, hkv, rfl⟩ := hk
    exact (allC_domB (BlkX.footnotesOf_c hlog kv hkv).1).1
  have hhi := hiSpecXB_tables (xc := NoCtlX.xcX x cfg log) (NoCtlX.escOK_escX x hcfg) (NoCtlX.refsOK_of_logC x _ hlog)
    hkeys (fn := x.footnotes) (wl := x.wikilinks) (nl := x.nl2br) rfl
  obtain ⟨ht', hhtml⟩ := runX_specB hhi htree htreeq hr
  exact ⟨ht', hhtml, NoCtlX.abbrs_noctl hlog⟩

/-- end to end with every extension but fenced_code, footnotes and tables, on the domain of `C10c_partial_links` (with
    wikilinks: no `[` immediately before a blank) -/
theorem convertX_noctl_links_all {x : PipelineX.Exts} (hfc : x.fencedCode = false) (hfn : x.footnotes = false)
    (htb : x.tables = false) {cfg : Pipeline.Cfg} (hcfg : EscOK cfg.esc) {src out : Str}
    (hd : C10DomainC cfg.tab src) (hq : Qw x.wikilinks (Normalize.normalize cfg.tab src))
    (habbr : NoCtlX.AbbrKeysOK x cfg src) (h : PipelineX.convertX x cfg src = .ok out) : NoCtl out := by
  refine NoCtlX.convertX_noctl_generic hfn ?_ h
  intro text stash root log t xs hp hb hr
  obtain ⟨ht, hhtml, hab⟩ := front_block_links hfc htb hcfg hd hq hp hb hr
  refine ⟨Node.Forall.mono (fun _ hn => fnode_of_wnodeC hn) t ht, hhtml, fun hxa => ⟨hab, ?_⟩⟩
  have hk := habbr hxa
  rw [← (NoCtlX.prepareX_nofence hfc hp).1, hb] at hk
  exact hk

end MdVerif.NoCtlXC
