/-
C05 on the extension pipeline, removal of the residual hypothesis `hamp` of `C05X_partial`: `AttrListTreeprocessor`
(priority 8: after prettify, before abbr and toc) keeps the STX invariant of the inline stage.

The processor cuts `{: #id .cls k="v" }` out of texts and tails and moves the pieces into attributes, escape tokens
and leaked placeholders included.  Every cut is made in front of a character that continues no STX and is none (blank,
`=`, `}`, `{`, `:`, quotes, line feed, `.`, `#`: `CutS`), so every piece of a string with `G.SOk` has `G.SOk`
(`sok_cut`); the only concatenations are `text[m.end():] + remainder` (two complete strings) and the class join
`old + ' ' + new`, for which the class `SB` of attribute values is made.

This is `Lemmas/PlaceholdersXAttr.lean` (the same walk for "ordinary characters and whole escape tokens") over `G.SOk`.
Attribute NAMES are not looked at here (the vocabulary theorem does that).  Core Lean only.
-/
import MdVerif.Lemmas.VocabXWFAmpToc
import MdVerif.Lemmas.PlaceholdersXAttr

set_option autoImplicit false

namespace MdVerif.VocabXAmp
open Py G AttrList AttrListTree

/-! ### cutting a string with the invariant -/

/-- a character at which a string may be cut: it continues no STX and is none -/
def CutS (c : Char) : Prop := cutOk c = true ∧ c ≠ G.STX

instance (c : Char) : Decidable (CutS c) := by unfold CutS; infer_instance

theorem sok_cut {a b : Str} {c : Char} (h : SOk (a ++ c :: b) = true) (hc : CutS c) :
    SOk a = true ∧ SOk b = true := by
  refine ⟨SOk_left h (fun d hd => by simp at hd; subst hd; exact hc.1), ?_⟩
  have := SOk_right h
  rwa [SOk_cons_ne hc.2] at this

theorem sok_cons {c : Char} {b : Str} (hc : CutS c) (h : SOk b = true) : SOk (c :: b) = true := by
  rw [SOk_cons_ne hc.2]; exact h

theorem sok_tail {c : Char} {b : Str} (h : SOk (c :: b) = true) (hc : CutS c) : SOk b = true :=
  (sok_cut (a := []) h hc).2

theorem sok_cut' {a b : Str} {c : Char} (h : SOk (a ++ c :: b) = true) (hc : CutS c) :
    SOk a = true ∧ SOk (c :: b) = true := ⟨(sok_cut h hc).1, sok_cons hc (sok_cut h hc).2⟩

/-- dropping a suffix of cut characters -/
theorem sok_of_append_right {a b : Str} (h : SOk (a ++ b) = true) (hb : ∀ c ∈ b, CutS c) : SOk a = true := by
  cases b with
  | nil => simpa using h
  | cons c b => exact (sok_cut h (hb c List.mem_cons_self)).1

theorem sok_stripP {p : Char → Bool} (hp : ∀ c, p c = true → CutS c) {s : Str} (h : SOk s = true) :
    SOk (stripP p s) = true := by
  obtain ⟨a, b, e, _, hb⟩ := stripP_decomp p s
  rw [e] at h
  have h1 : SOk (stripP p s ++ b) = true := by rw [List.append_assoc] at h; exact SOk_right h
  exact sok_of_append_right h1 (fun c hc => hp c (List.all_eq_true.1 hb c hc))

theorem sok_rstripP {p : Char → Bool} (hp : ∀ c, p c = true → CutS c) {s : Str} (h : SOk s = true) :
    SOk (rstripP p s) = true := by
  obtain ⟨w, e, hw⟩ := rstripP_decomp p s
  rw [e] at h
  exact sok_of_append_right h (fun c hc => hp c (List.all_eq_true.1 hw c hc))

theorem cutS_space (c : Char) (h : isSpace c = true) : CutS c :=
  ⟨cutOk_space h, by rintro rfl; revert h; decide⟩

theorem cutS_eq {q : Char} (hq : CutS q) (c : Char) (h : decide (c = q) = true) : CutS c := by
  have : c = q := by simpa using h
  rw [this]; exact hq

/-- the string split at the first character outside the class `p`, when those characters are cut points -/
theorem sok_span {p : Char → Bool} (hp : ∀ c, p c = false → CutS c) {s : Str} (h : SOk s = true) :
    SOk (s.takeWhile p) = true ∧ SOk (s.dropWhile p) = true := by
  have e := (List.takeWhile_append_dropWhile (p := p) (l := s)).symm
  cases hd : s.dropWhile p with
  | nil =>
    rw [hd, List.append_nil] at e
    rw [← e]; exact ⟨h, rfl⟩
  | cons c r =>
    have hc : p c = false := by
      have := List.head?_dropWhile_not p s
      rw [hd] at this
      simpa using this
    rw [hd] at e
    rw [e] at h
    exact sok_cut' h (hp c hc)

/-- dropping leading cut characters -/
theorem sok_dropWhile_cut {p : Char → Bool} (hp : ∀ c, p c = true → CutS c) :
    ∀ {s : Str}, SOk s = true → SOk (s.dropWhile p) = true
  | [], h => h
  | c :: s, h => by
    rw [List.dropWhile_cons]
    split
    · rename_i hc; exact sok_dropWhile_cut hp (sok_tail h (hp c hc))
    · exact h

theorem cutS_blank : CutS ' ' := by decide
theorem cutS_eqc : CutS '=' := by decide
theorem cutS_rbrace : CutS '}' := by decide
theorem cutS_lbrace : CutS '{' := by decide
theorem cutS_colon : CutS ':' := by decide
theorem cutS_nl : CutS '\n' := by decide
theorem cutS_dot : CutS '.' := by decide
theorem cutS_hash : CutS '#' := by decide
theorem cutS_dq : CutS '"' := by decide
theorem cutS_sq : CutS '\'' := by decide

theorem cutS_of_not_wordChar (c : Char) (h : wordChar c = false) : CutS c := by
  simp only [wordChar, Bool.and_eq_false_iff, bne_eq_false_iff_eq] at h
  rcases h with (rfl | rfl) | rfl <;> decide

theorem cutS_of_isBlankChar (c : Char) (h : decide (c = ' ') = true) : CutS c := by
  have : c = ' ' := by simpa using h
  rw [this]; exact cutS_blank

/-! ### the scanner -/

theorem lazyUntil_sok {q : Char} (hq : CutS q) {s p r : Str} (h : lazyUntil q s = some (p, r))
    (hs : SOk s = true) : SOk p = true ∧ SOk r = true := by
  rw [NoCtlX.lazyUntil_decomp h] at hs
  exact sok_cut hs hq

theorem splitEq_sok {t : Str} (h : SOk t = true) : SOk (splitEq t).1 = true ∧ SOk (splitEq t).2 = true := by
  rcases NoCtlX.splitEq_decomp t with ⟨h1, h2⟩ | h1
  · rw [h2, ← h1]; exact ⟨h, rfl⟩
  · rw [h1] at h; exact sok_cut h cutS_eqc

theorem handleQuoted_sok {q : Char} (hq : CutS q) {t : Str} (h : SOk t = true) :
    SOk (handleQuoted q t).1 = true ∧ SOk (handleQuoted q t).2 = true :=
  ⟨(splitEq_sok h).1, sok_stripP (cutS_eq hq) (splitEq_sok h).2⟩

theorem handleWord_sok {t : Str} (h : SOk t = true) :
    SOk (handleWord t).1 = true ∧ SOk (handleWord t).2 = true := by
  unfold handleWord
  split
  · exact ⟨(by decide : SOk ['.'] = true), sok_tail h cutS_dot⟩
  · exact ⟨(by decide : SOk ['i', 'd'] = true), sok_tail h cutS_hash⟩
  · exact ⟨h, h⟩

theorem patQuoted_sok {q : Char} (hq : CutS q) {s t r : Str} (h : patQuoted q s = some (t, r))
    (hs : SOk s = true) : SOk t = true ∧ SOk r = true := by
  obtain ⟨w1, w2⟩ := sok_span (p := wordChar) cutS_of_not_wordChar hs
  unfold patQuoted at h
  split at h
  · rename_i k ks q' r' hk hd
    split at h
    · rename_i hqq
      subst hqq
      simp only [Option.map_eq_some_iff] at h
      obtain ⟨⟨p, r''⟩, hl, he⟩ := h
      simp only [Prod.mk.injEq] at he
      obtain ⟨rfl, rfl⟩ := he
      rw [hd] at w2
      obtain ⟨v1, v2⟩ := lazyUntil_sok hq hl (sok_tail (sok_tail w2 cutS_eqc) hq)
      rw [hk] at w1
      refine ⟨?_, v2⟩
      exact SOk_append (SOk_append w1 (sok_cons cutS_eqc (sok_cons hq v1))) (sok_cons hq rfl)
    · cases h
  · cases h

theorem patKeyValue_sok {s t r : Str} (h : patKeyValue s = some (t, r))
    (hs : SOk s = true) : SOk t = true ∧ SOk r = true := by
  obtain ⟨w1, w2⟩ := sok_span (p := wordChar) cutS_of_not_wordChar hs
  unfold patKeyValue at h
  split at h
  · rename_i k ks r' hk hd
    rw [hd] at w2
    obtain ⟨v1, v2⟩ := sok_span (p := wordChar) cutS_of_not_wordChar (sok_tail w2 cutS_eqc)
    split at h
    · rename_i v vs hv
      simp only [Option.some.injEq, Prod.mk.injEq] at h
      obtain ⟨rfl, rfl⟩ := h
      rw [hk] at w1
      rw [hv] at v1
      exact ⟨SOk_append w1 (sok_cons cutS_eqc v1), v2⟩
    · cases h
  · cases h

theorem patWord_sok {s t r : Str} (h : patWord s = some (t, r))
    (hs : SOk s = true) : SOk t = true ∧ SOk r = true := by
  obtain ⟨w1, w2⟩ := sok_span (p := wordChar) cutS_of_not_wordChar hs
  unfold patWord at h
  split at h
  · rename_i k ks hk
    simp only [Option.some.injEq, Prod.mk.injEq] at h
    obtain ⟨rfl, rfl⟩ := h
    rw [hk] at w1
    exact ⟨w1, w2⟩
  · cases h

/-- one match of the scanner: key, value and the rest are cut in front of characters that continue no STX -/
theorem scanStep_sok {s r : Str} {tok : Option (Str × Str)} (h : scanStep s = some (tok, r))
    (hs : SOk s = true) : (∀ kv, tok = some kv → SOk kv.1 = true ∧ SOk kv.2 = true) ∧ SOk r = true := by
  unfold scanStep at h
  split at h
  · rename_i t r' hp
    simp only [Option.some.injEq, Prod.mk.injEq] at h
    obtain ⟨rfl, rfl⟩ := h
    obtain ⟨w1, w2⟩ := patQuoted_sok cutS_dq hp hs
    refine ⟨?_, w2⟩
    intro kv hkv
    simp only [Option.some.injEq] at hkv
    subst hkv
    exact handleQuoted_sok cutS_dq w1
  · split at h
    · rename_i t r' hp
      simp only [Option.some.injEq, Prod.mk.injEq] at h
      obtain ⟨rfl, rfl⟩ := h
      obtain ⟨w1, w2⟩ := patQuoted_sok cutS_sq hp hs
      refine ⟨?_, w2⟩
      intro kv hkv
      simp only [Option.some.injEq] at hkv
      subst hkv
      exact handleQuoted_sok cutS_sq w1
    · split at h
      · rename_i t r' hp
        simp only [Option.some.injEq, Prod.mk.injEq] at h
        obtain ⟨rfl, rfl⟩ := h
        obtain ⟨w1, w2⟩ := patKeyValue_sok hp hs
        refine ⟨?_, w2⟩
        intro kv hkv
        simp only [Option.some.injEq] at hkv
        subst hkv
        exact splitEq_sok w1
      · split at h
        · rename_i t r' hp
          simp only [Option.some.injEq, Prod.mk.injEq] at h
          obtain ⟨rfl, rfl⟩ := h
          obtain ⟨w1, w2⟩ := patWord_sok hp hs
          refine ⟨?_, w2⟩
          intro kv hkv
          simp only [Option.some.injEq] at hkv
          subst hkv
          exact handleWord_sok w1
        · split at h
          · simp only [Option.some.injEq, Prod.mk.injEq] at h
            obtain ⟨rfl, rfl⟩ := h
            exact ⟨fun kv hkv => (by cases hkv), sok_tail hs cutS_blank⟩
          · cases h

theorem scan_sok : ∀ (fuel : Nat) {s : Str}, SOk s = true →
    (∀ kv ∈ (scan fuel s).1, SOk kv.1 = true ∧ SOk kv.2 = true) ∧ SOk (scan fuel s).2 = true
  | 0, s, hs => by simp only [scan]; exact ⟨by simp, hs⟩
  | fuel + 1, s, hs => by
    simp only [scan]
    split
    · exact ⟨by simp, hs⟩
    · rename_i tok r hst
      obtain ⟨w1, w2⟩ := scanStep_sok hst hs
      obtain ⟨i1, i2⟩ := scan_sok fuel w2
      refine ⟨?_, i2⟩
      intro kv hkv
      rcases List.mem_append.1 hkv with hkv | hkv
      · exact w1 kv (by simpa using hkv)
      · exact i1 kv hkv

/-- **`get_attrs_and_remainder`**: every value and the remainder keep the invariant -/
theorem getAttrsAndRemainder_sok {s : Str} (hs : SOk s = true) :
    (∀ kv ∈ (getAttrsAndRemainder s).1, SOk kv.1 = true ∧ SOk kv.2 = true) ∧
      SOk (getAttrsAndRemainder s).2 = true := by
  obtain ⟨w1, w2⟩ := scan_sok s.length hs
  refine ⟨w1, ?_⟩
  refine (sok_span (p := (· != '}')) ?_ w2).2
  intro c hc
  have : c = '}' := by simpa using hc
  rw [this]; exact cutS_rbrace

/-! ### `assign_attrs` -/

def AttrsB (a : Attrs) : Prop := ∀ kv ∈ a, SB kv.2 = true

theorem SB_of_SOk {s : Str} (h : SOk s = true) : SB s = true := SB_of_SOkA (SOkA_of_SOk h)

theorem getA_B {a : Attrs} (ha : AttrsB a) {k v : Str} (h : getA a k = some v) : SB v = true := by
  simp only [getA, Option.map_eq_some_iff] at h
  obtain ⟨kv, hf, rfl⟩ := h
  exact ha kv (List.mem_of_find?_eq_some hf)

theorem setA_B {a : Attrs} (ha : AttrsB a) {k v : Str} (hv : SB v = true) : AttrsB (setA a k v) := by
  unfold setA
  split
  · intro kv hkv
    obtain ⟨kv', hm, rfl⟩ := List.mem_map.1 hkv
    split
    · exact hv
    · exact ha kv' hm
  · intro kv hkv
    rcases List.mem_append.1 hkv with hkv | hkv
    · exact ha kv hkv
    · simp only [List.mem_singleton] at hkv
      subst hkv; exact hv

theorem assignStep_B {a : Attrs} (ha : AttrsB a) {kv : Str × Str} (hv : SOk kv.2 = true) :
    AttrsB (assignStep a kv) := by
  unfold assignStep
  split
  · split
    · rename_i c cs hg
      exact setA_B ha (SB_join (getA_B ha hg) (SB_of_SOk hv))
    · exact setA_B ha (SB_of_SOk hv)
  · exact setA_B ha (SB_of_SOk hv)

theorem assignPairs_B : ∀ (pairs : List (Str × Str)) {a : Attrs}, AttrsB a → (∀ kv ∈ pairs, SOk kv.2 = true) →
    AttrsB (assignPairs a pairs)
  | [], a, ha, _ => ha
  | kv :: r, a, ha, hp => by
    simp only [assignPairs, List.foldl_cons]
    exact assignPairs_B r (assignStep_B ha (hp kv List.mem_cons_self)) (fun kv' h => hp kv' (List.mem_cons_of_mem _ h))

/-- **`assign_attrs`**: the values of the new attributes are in the class, the remainder keeps the invariant -/
theorem assignAttrs_B {a : Attrs} (ha : AttrsB a) {g : Str} (hg : SOk g = true) (strict : Bool) :
    AttrsB (assignAttrs a g strict).1 ∧ SOk (assignAttrs a g strict).2 = true := by
  obtain ⟨w1, w2⟩ := getAttrsAndRemainder_sok hg
  unfold assignAttrs
  simp only
  split
  · exact ⟨ha, w2⟩
  · exact ⟨assignPairs_B _ ha (fun kv hkv => (w1 kv hkv).2), w2⟩

/-! ### placement -/

theorem baseFrom_sok {ok : Str → Bool} {s g r : Str} (h : baseFrom ok s = some (g, r))
    (hs : SOk s = true) : SOk g = true ∧ SOk r = true := by
  have hd := sok_dropWhile_cut (p := (· = ' ')) cutS_of_isBlankChar hs
  unfold baseFrom at h
  split at h
  · cases h
  · rename_i c r0 hdw
    split at h
    · cases h
    · simp only [Option.map_eq_some_iff] at h
      obtain ⟨⟨g', r'⟩, hl, he⟩ := h
      simp only [Prod.mk.injEq] at he
      obtain ⟨rfl, rfl⟩ := he
      rw [hdw, NoCtlX.lastBrace_decomp hl, ← List.cons_append] at hd
      exact sok_cut hd cutS_rbrace

/-- `BASE_RE`: the group and the text behind the closing brace -/
theorem baseAt_sok {ok : Str → Bool} {s g r : Str} (h : baseAt ok s = some (g, r))
    (hs : SOk s = true) : SOk g = true ∧ SOk r = true := by
  unfold baseAt at h
  split at h
  · rename_i r0
    have h1 := sok_tail hs cutS_lbrace
    split at h
    · rename_i p hp
      simp only [Option.some.injEq] at h
      subst h
      exact baseFrom_sok hp (sok_tail h1 cutS_colon)
    · exact baseFrom_sok h h1
  · exact baseFrom_sok h (sok_tail hs cutS_lbrace)
  · cases h

theorem headerSearch_sok {s pre g : Str} (h : headerSearch s = some (pre, g)) (hs : SOk s = true) :
    SOk pre = true ∧ SOk g = true := by
  obtain ⟨x, r, e, hb⟩ := NoCtlX.headerSearch_decomp h
  rw [e] at hs
  obtain ⟨w1, w2⟩ := sok_cut hs cutS_blank
  exact ⟨w1, (baseAt_sok hb (sok_dropWhile_cut (p := (· = ' ')) cutS_of_isBlankChar w2)).1⟩

theorem blockSearch_sok {s pre g : Str} (h : blockSearch s = some (pre, g)) (hs : SOk s = true) :
    SOk pre = true ∧ SOk g = true := by
  obtain ⟨x, r, e, hb⟩ := NoCtlX.blockSearch_decomp h
  rw [e] at hs
  obtain ⟨w1, w2⟩ := sok_cut hs cutS_nl
  exact ⟨w1, (baseAt_sok hb (sok_dropWhile_cut (p := (· = ' ')) cutS_of_isBlankChar w2)).1⟩

theorem inlineMatch_sok {s g r : Str} (h : inlineMatch s = some (g, r)) (hs : SOk s = true) :
    SOk g = true ∧ SOk r = true := baseAt_sok h hs

theorem search_sok {header : Bool} {s pre g : Str}
    (h : (if header then headerSearch s else blockSearch s) = some (pre, g)) (hs : SOk s = true) :
    SOk pre = true ∧ SOk g = true := by
  cases header
  · exact blockSearch_sok h hs
  · exact headerSearch_sok h hs

/-! ### what `run` does to one element -/

theorem blockApply_str (header hashes : Bool) (a : Attrs) {text : Str} (ht : SOk text = true) :
    SOk (blockApply header hashes a text).2 = true := by
  unfold blockApply
  split
  · exact ht
  · rename_i pre g hsrch
    obtain ⟨w1, -⟩ := search_sok hsrch ht
    simp only
    split
    · simp only
      split
      · exact sok_rstripP cutS_space (sok_rstripP (cutS_eq cutS_hash) w1)
      · exact w1
    · exact ht

theorem blockApply_B (header hashes : Bool) {a : Attrs} (ha : AttrsB a) {text : Str} (ht : SOk text = true) :
    AttrsB (blockApply header hashes a text).1 := by
  unfold blockApply
  split
  · exact ha
  · rename_i pre g hsrch
    obtain ⟨-, w2⟩ := search_sok hsrch ht
    simp only
    split
    · exact (assignAttrs_B ha w2 true).1
    · exact ha

theorem inlineApply_B {a : Attrs} (ha : AttrsB a) {tail : Str} (ht : SOk tail = true) :
    AttrsB (inlineApply a tail).1 ∧ SOk (inlineApply a tail).2 = true := by
  unfold inlineApply
  split
  · exact ⟨ha, ht⟩
  · rename_i g rest hm
    obtain ⟨w1, w2⟩ := inlineMatch_sok hm ht
    obtain ⟨v1, v2⟩ := assignAttrs_B ha w1 false
    exact ⟨v1, SOk_append w2 v2⟩

/-! ### the placement rule of a block-level element -/

def BlockGoodS (r : Attrs × Option Str × Option (Nat × Str)) : Prop :=
  AttrsB r.1 ∧ (∀ t, r.2.1 = some t → SOk t = true) ∧ (∀ i t, r.2.2 = some (i, t) → SOk t = true)

theorem tailRes_goodS (header hashes : Bool) {attrs : Attrs} (ha : AttrsB attrs) (i : Nat)
    {tl : Str} (ht : SOk tl = true) : BlockGoodS (NoCtlX.tailRes header hashes attrs i tl) := by
  unfold NoCtlX.tailRes
  split
  · exact ⟨blockApply_B header hashes ha ht, fun t e => (by cases e), fun i t e => (by cases e)⟩
  · refine ⟨blockApply_B header hashes ha ht, fun t e => (by cases e), ?_⟩
    intro j t e
    simp only [Option.some.injEq, Prod.mk.injEq] at e
    rw [← e.2]; exact blockApply_str header hashes attrs ht

theorem textRes_goodS (header hashes : Bool) {attrs : Attrs} (ha : AttrsB attrs) {text : Option Str}
    (ht : SOk (text.getD []) = true) : BlockGoodS (NoCtlX.textRes header hashes attrs text) := by
  unfold NoCtlX.textRes
  split
  · split
    · exact ⟨blockApply_B header hashes ha ht, fun t e => (by cases e), fun i t e => (by cases e)⟩
    · refine ⟨blockApply_B header hashes ha ht, ?_, fun i t e => (by cases e)⟩
      intro t e
      simp only [Option.some.injEq] at e
      rw [← e]
      exact blockApply_str header hashes attrs ht
  · exact ⟨ha, fun t e => (by cases e), fun i t e => (by cases e)⟩

theorem sok_bind_tail {children : List Node} (hk : ∀ c ∈ children, SOk (c.tail.getD []) = true) {o : Option Node}
    (ho : ∀ c, o = some c → c ∈ children) : SOk ((o.bind (·.tail)).getD []) = true := by
  cases o with
  | none => rfl
  | some c => exact hk c (ho c rfl)

theorem blockRule_goodS (tag : Tag) {attrs : Attrs} (ha : AttrsB attrs) {text : Option Str}
    (ht : SOk (text.getD []) = true) {children : List Node} (hk : ∀ c ∈ children, SOk (c.tail.getD []) = true) :
    BlockGoodS (blockRule tag attrs text children) := by
  have hlast : SOk ((children.getLast?.bind (·.tail)).getD []) = true :=
    sok_bind_tail hk (fun c hc => List.mem_of_getLast? hc)
  have hprev : ∀ pos : Nat, SOk (((children[pos - 1]?).bind (·.tail)).getD []) = true :=
    fun pos => sok_bind_tail hk (fun c hc => List.mem_of_getElem? hc)
  rw [NoCtlX.blockRule_eq]
  split
  · split
    · split
      · exact tailRes_goodS _ _ ha _ hlast
      · exact textRes_goodS _ _ ha ht
    · split
      · exact tailRes_goodS _ _ ha _ (hprev _)
      · exact textRes_goodS _ _ ha ht
  · split
    · exact tailRes_goodS _ _ ha _ hlast
    · exact textRes_goodS _ _ ha ht

/-! ### the walk -/

/-- the invariant of the inline stage with attribute values in `SB` (no condition on names) -/
def NodeSBv (n : Node) : Prop :=
  SOk (n.text.getD []) = true ∧ SOk (n.tail.getD []) = true ∧ ∀ kv ∈ n.attrs, SB kv.2 = true

theorem nodeSBv_of_S {n : Node} (h : NodeS n) : NodeSBv n :=
  ⟨h.1, h.2.1, fun kv hkv => SB_of_SOkA (h.2.2 kv hkv)⟩

theorem kids_tailsS {l : List Node} (h : Node.ForallL NodeSBv l) : ∀ c ∈ l, SOk (c.tail.getD []) = true := by
  intro c hc
  exact (((Node.forall_iff _ _).1 ((Node.forallL_iff _ _).1 h c hc)).1).2.1

theorem tailOv_sok {tailOv tail0 : Option Str} (h3 : SOk (tail0.getD []) = true)
    (hov : ∀ t, tailOv = some t → SOk t = true) : SOk ((NoCtlX.selTail tailOv tail0).getD []) = true := by
  cases tailOv with
  | none => exact h3
  | some t => exact hov t rfl

mutual
theorem attrNode_SBv (bl : List Str) : ∀ (n : Node) (tailOv : Option Str), n.Forall NodeSBv →
    (∀ t, tailOv = some t → SOk t = true) → (attrNode bl tailOv n).Forall NodeSBv
  | ⟨tag, attrs, text, ta, children, tail0, tla0⟩, tailOv, h, hov => by
    simp only [Node.Forall] at h
    obtain ⟨⟨h1, h2, h3⟩, hk⟩ := h
    simp only at h1 h2 h3
    have htail := tailOv_sok h2 hov
    rw [NoCtlX.attrNode_eq]
    generalize NoCtlX.selTail tailOv tail0 = tail at htail
    generalize (match tailOv with | some _ => false | none => tla0) = tla
    unfold NoCtlX.attrBody
    split
    · obtain ⟨g1, g2, g3⟩ := blockRule_goodS tag h3 h1 (kids_tailsS hk)
      simp only [Node.Forall]
      refine ⟨⟨?_, htail, g1⟩, attrKids_SBv bl _ 0 children hk (fun j t e => g3 j t e)⟩
      show SOk ((match (blockRule tag attrs text children).2.1 with | some t => some t | none => text).getD []) = true
      cases hr : (blockRule tag attrs text children).2.1 with
      | none => exact h1
      | some t => exact g2 t hr
    · split
      · split
        · obtain ⟨v1, v2⟩ := inlineApply_B h3 htail
          simp only [Node.Forall]
          exact ⟨⟨h1, v2, v1⟩, attrKids_SBv bl none 0 children hk (fun j t e => by cases e)⟩
        · simp only [Node.Forall]
          exact ⟨⟨h1, htail, h3⟩, attrKids_SBv bl none 0 children hk (fun j t e => by cases e)⟩
      · simp only [Node.Forall]
        exact ⟨⟨h1, htail, h3⟩, attrKids_SBv bl none 0 children hk (fun j t e => by cases e)⟩
theorem attrKids_SBv (bl : List Str) (ov : Option (Nat × Str)) : ∀ (i : Nat) (l : List Node),
    Node.ForallL NodeSBv l → (∀ j t, ov = some (j, t) → SOk t = true) → Node.ForallL NodeSBv (attrKids bl ov i l)
  | _, [], _, _ => by simp [attrKids, Node.ForallL]
  | i, c :: r, h, hov => by
    simp only [Node.ForallL] at h
    unfold attrKids
    simp only [Node.ForallL]
    refine ⟨attrNode_SBv bl c _ h.1 ?_, attrKids_SBv bl ov (i + 1) r h.2 hov⟩
    intro t e
    cases ov with
    | none => cases e
    | some jt =>
      obtain ⟨j, t'⟩ := jt
      simp only at e
      split at e
      · simp only [Option.some.injEq] at e
        subst e; exact hov j t' rfl
      · cases e
end

/-- **`AttrListTreeprocessor.run` keeps the invariant of the inline stage** in texts and tails; attribute values are
    in the class `SB` -/
theorem attrList_run_SBv (bl : List Str) {t : Node} (h : t.Forall NodeSBv) : (AttrListTree.run bl t).Forall NodeSBv :=
  attrNode_SBv bl t none h (fun _ e => by cases e)

end MdVerif.VocabXAmp
