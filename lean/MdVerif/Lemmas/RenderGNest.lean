/-
Helper lemmas for `Props/C16RenderG.lean`, part 25: a nested admonition — an admonition whose body is a paragraph
followed by another admonition, indented one level more.

Core Lean only.
-/
import MdVerif.Lemmas.RenderGQuote4

namespace MdVerif.RenderG
open Py Block BlockExt MdVerif.RenderX

/-! ### the block stage -/

/-- a recogniser that fails on every line (whatever follows it) finds nothing at the line starts -/
theorem nlSearchAux_linesF {α : Type} (f : Str → Option α) :
    ∀ (ls : List Str), ls ≠ [] → (∀ l ∈ ls, '\n' ∉ l) → (∀ l ∈ ls, ∀ X, f (l ++ X) = none) →
    ∀ i, nlSearchAux f i (joinLines ls) = none := by
  intro ls
  induction ls with
  | nil => intro h; exact absurd rfl h
  | cons l r ih =>
    intro _ hnl hf i
    cases r with
    | nil => exact nlSearchAux_noNl f _ i (hnl l List.mem_cons_self)
    | cons l' r' =>
      have hR : f (joinLines (l' :: r')) = none := by
        obtain ⟨Y, hY⟩ := joinLines_head l' r'
        rw [hY]
        exact hf l' (by simp) Y
      rw [Block.joinLines_cons_cons, nlSearchAux_line f _ _ (hnl l List.mem_cons_self) hR]
      exact ih (by simp) (fun x hx => hnl x (List.mem_cons_of_mem _ hx)) (fun x hx => hf x (List.mem_cons_of_mem _ hx)) _

/-- the lines of the nested admonition as they stand in the source: header and body, indented once more -/
def nestLines (tab : Nat) (kl : Str) (title : Option Str) (b : Para) : List Str :=
  CodeLaw.indentLines tab (admHeader kl title :: CodeLaw.indentLines tab (pLines b))

def nestBlock (tab : Nat) (kl : Str) (title : Option Str) (b : Para) : Str := joinLines (nestLines tab kl title b)

theorem admHeader_ne (kl : Str) (title : Option Str) : admHeader kl title ≠ [] := by simp [admHeader]

theorem nestLines_facts (tab : Nat) (htab : 0 < tab) (kl : Str) (title : Option Str) (b : Para) (hk : PlainFacts kl)
    (ht : ∀ t, title = some t → ∀ c ∈ t, c ≠ '\n' ∧ c ≠ '"') (hb : ParaOK b) :
    (∀ l ∈ admHeader kl title :: CodeLaw.indentLines tab (pLines b), l ≠ [] ∧ '\n' ∉ l) ∧
    (∀ l ∈ nestLines tab kl title b, l ≠ [] ∧ '\n' ∉ l ∧ ∃ Y, l = ' ' :: Y) := by
  have h1 : ∀ l ∈ admHeader kl title :: CodeLaw.indentLines tab (pLines b), l ≠ [] ∧ '\n' ∉ l := by
    intro l hl
    rcases List.mem_cons.1 hl with rfl | hl
    · exact ⟨admHeader_ne kl title, nl_not_mem_header kl title hk ht⟩
    · obtain ⟨y, hy, rfl⟩ := List.mem_map.1 hl
      exact indentLine_facts tab y (hb y hy)
  refine ⟨h1, ?_⟩
  intro l hl
  obtain ⟨y, hy, rfl⟩ := List.mem_map.1 hl
  obtain ⟨hne, hnl⟩ := h1 y hy
  obtain ⟨a, t, rfl⟩ : ∃ a t, y = a :: t := by cases y <;> simp_all
  have e : CodeLaw.indentLine tab (a :: t) = spaces tab ++ (a :: t) := by simp [CodeLaw.indentLine]
  obtain ⟨m, rfl⟩ : ∃ m, tab = m + 1 := ⟨tab - 1, by omega⟩
  refine ⟨by rw [e]; simp [spaces], CodeLaw.not_nl_mem_indentLine hnl, spaces m ++ (a :: t), ?_⟩
  rw [e]; simp [spaces, List.replicate_succ]

theorem admAt_sp (X : Str) : admAt (' ' :: X) = none := by simp [admAt, startsWith]

/-- the nested block goes into the outer admonition, where it is an admonition of its own -/
theorem dispatch_admNested (cfg : XCfg) (hadm : cfg.admonition = true) (tab : Nat) (htab : 0 < tab) (f : Nat)
    (refs : Refs) (kl1 : Str) (ttl1 : Option Str) (texts : List Str) (kl : Str) (title ttl : Option Str) (b : Para)
    (hk : PlainFacts kl) (ht : ∀ t, title = some t → ∀ c ∈ t, c ≠ '\n' ∧ c ≠ '"') (hb : ParaOK b)
    (hcl : admClassTitle kl title = (kl, ttl)) (rest : List Str) :
    dispatchXT false cfg tab (parseBlocksXT false cfg tab (f + 1 + 1)) [] refs (rootOf [admDivG kl1 ttl1 texts])
        (nestBlock tab kl title b) rest =
      some (rootOf [(admDivG kl1 ttl1 texts).append (admDivG kl ttl [pText b])], refs, rest) := by
  obtain ⟨hF1, hF2⟩ := nestLines_facts tab htab kl title b hk ht hb
  have hne : nestLines tab kl title b ≠ [] := by simp [nestLines, CodeLaw.indentLines]
  -- the shape of the block
  obtain ⟨Y0, hY0⟩ : ∃ Y, nestBlock tab kl title b = spaces tab ++ ('!' :: Y) := by
    obtain ⟨Y, hY⟩ := joinLines_head (CodeLaw.indentLine tab (admHeader kl title))
      (CodeLaw.indentLines tab (CodeLaw.indentLines tab (pLines b)))
    refine ⟨'!' :: '!' :: ' ' :: kl ++ admTitleSrc title ++ Y, ?_⟩
    rw [show nestBlock tab kl title b = joinLines (CodeLaw.indentLine tab (admHeader kl title) ::
      CodeLaw.indentLines tab (CodeLaw.indentLines tab (pLines b))) from rfl, hY]
    simp [CodeLaw.indentLine, admHeader]
  have h2 : startsWith (nestBlock tab kl title b) (spaces (tab * 2)) = false := by
    rw [hY0]
    have : spaces (tab * 2) = spaces tab ++ spaces tab := by
      simp only [spaces, Nat.mul_two]
      exact (List.replicate_append_replicate).symm
    rw [this, Bool.eq_false_iff]
    intro h
    rw [Py.startsWith_iff_prefix] at h
    obtain ⟨Z, hZ⟩ := h
    rw [List.append_assoc] at hZ
    have := List.append_cancel_left hZ
    obtain ⟨m, rfl⟩ : ∃ m, tab = m + 1 := ⟨tab - 1, by omega⟩
    simp [spaces, List.replicate_succ] at this
  have h3 : startsWith (nestBlock tab kl title b) (spaces tab) = true := by
    rw [hY0]; exact CodeLaw.startsWith_append_self _ _
  have h1 : admSearch (nestBlock tab kl title b) = none := by
    have h0 : admAt (nestBlock tab kl title b) = none := by
      rw [hY0]
      obtain ⟨m, rfl⟩ : ∃ m, tab = m + 1 := ⟨tab - 1, by omega⟩
      simp only [spaces, List.replicate_succ, List.cons_append]
      exact admAt_sp _
    simp only [admSearch, nlSearch, h0]
    rw [show nestBlock tab kl title b = joinLines (nestLines tab kl title b) from rfl,
      nlSearchAux_linesF admAt _ hne (fun l hl => (hF2 l hl).2.1) (by
        intro l hl X
        obtain ⟨Y, rfl⟩ := (hF2 l hl).2.2
        exact admAt_sp _) 0]
  have hlast : (rootOf [admDivG kl1 ttl1 texts]).last? = some (admDivG kl1 ttl1 texts) := by simp [rootOf, Node.last?]
  have htest : admTest tab (rootOf [admDivG kl1 ttl1 texts]) (nestBlock tab kl title b) = some (.sib 1 tab) := by
    simp only [admTest, h1, admContent, hlast, isAdmDiv_admDivG, if_true, admSibNode_flat tab _ 0 h2, h3]
    simp
  have hdetab : detab tab (nestBlock tab kl title b) = (admSrc tab kl title (pLines b), []) :=
    CodeLaw.detab_indent tab (admHeader kl title :: CodeLaw.indentLines tab (pLines b)) (by simp)
      (fun l hl => (hF1 l hl).2)
  have hnode : nodeAt 1 (rootOf [admDivG kl1 ttl1 texts]) = admDivG kl1 ttl1 texts := by simp [nodeAt, hlast]
  have hli : ((admDivG kl1 ttl1 texts).isTag "li" || (admDivG kl1 ttl1 texts).isTag "dd") = false := by
    simp only [admDivG, Node.isTag, Node.el]; decide
  -- the inner admonition, parsed inside the outer one
  have hnel : Escape.noEmptyLineFrom true (admSrc tab kl title (pLines b)) = true := nel_block _ (by simp) hF1
  have hsplit : splitS ['\n', '\n'] (admSrc tab kl title (pLines b)) = [admSrc tab kl title (pLines b)] := by
    simp only [splitS]
    exact DocParse.splitAux_single true _ hnel
  have hparse : parseChunk (parseBlocksXT false cfg tab (f + 1 + 1)) [] refs (admDivG kl1 ttl1 texts)
      (admSrc tab kl title (pLines b)) = some ((admDivG kl1 ttl1 texts).append (admDivG kl ttl [pText b]), refs) := by
    simp only [parseChunk, hsplit]
    have hh := dispatch_admHeadP cfg hadm tab htab kl title ttl b hk ht hb hcl f [] (by decide) refs
      (admDivG kl1 ttl1 texts) []
    simp only [parseBlocksXT, hh]
  simp only [dispatchXT, hadm, if_true, htest, admonitionP, hnode, hdetab, hli, Bool.false_and, Bool.false_eq_true,
    if_false, hparse, List.isEmpty_nil, updPath, hlast]
  simp [rootOf, Node.setLast, Node.el]

end MdVerif.RenderG
