/-
Lemmas for C05 on the extension model (`PipelineX.treeX`), well-formedness part 1c: the inline stage over a pattern
table (`InlineX.runX`) leaves the text, the tail and the `textAtomic` flag of the ROOT alone (the root is never visited
as a child), and — when no top-level child has a (truthy) tail — no top-level child of the result has one: a child
without a tail is followed by nothing new (`tr = []`) and stays without a tail; the elements made from the root's
children's texts go INTO those children; later iterations replace a top-level child by an element with the same tail.

No hypothesis on the pattern table, none on the stash (the facts used about `processPlaceholders` are about the parent
only: `Same`).

Core Lean only.
-/
import MdVerif.Lemmas.VocabXWFInline2

namespace MdVerif.VocabXWF
open Py Inline InlineX

/-! ### `processPlaceholders` touches the tail (`isText = false`) or the text (`isText = true`) of its parent only -/

theorem linkText_same (text : Str) (atomic isText : Bool) (result : List Node) (parent : Node) :
    Same isText parent (linkText text atomic isText result parent).2 := by
  unfold linkText
  split
  · exact Same.refl _ _
  · split
    · split <;> exact Same.refl _ _
    · split
      · rename_i hit
        have hit' : isText = false := by simpa using hit
        split
        · exact ⟨rfl, rfl, rfl, fun _ => rfl, fun e => (by rw [hit'] at e; cases e)⟩
        · exact ⟨rfl, rfl, rfl, fun _ => rfl, fun e => (by rw [hit'] at e; cases e)⟩
      · rename_i hit
        have hit' : isText = true := by simpa using hit
        split
        · exact ⟨rfl, rfl, rfl, fun e => (by rw [hit'] at e; cases e), fun _ => rfl⟩
        · exact ⟨rfl, rfl, rfl, fun e => (by rw [hit'] at e; cases e), fun _ => rfl⟩

theorem ppLoop_same (stash : List StashItem) (nested : Node → Option Node) (data : Str) (atomic isText : Bool) :
    ∀ (g start : Nat) (result : List Node) (parent : Node) (res : List Node) (parent' : Node),
      ppLoop stash nested data atomic isText g start result parent = some (res, parent') →
      Same isText parent parent' := by
  intro g
  induction g with
  | zero => intro start result parent res parent' h; simp [ppLoop] at h
  | succ g ih =>
    intro start result parent res parent' h
    simp only [ppLoop] at h
    have hpre : ∀ (c : Prop) [Decidable c] (t : Str),
        Same isText parent (if c then linkText t false isText result parent else (result, parent)).2 := by
      intro c _ t
      split
      · exact linkText_same _ _ _ _ _
      · exact Same.refl _ _
    split at h
    · rename_i off _
      split at h
      · have p1 := hpre (start + off > 0) (slice data start (start + off))
        split at h
        · split at h
          · cases h
          · exact p1.trans (ih _ _ _ _ _ h)
        · exact p1.trans ((linkText_same _ _ _ _ _).trans (ih _ _ _ _ _ h))
      · have p1 := linkText_same (slice data start (start + off + phPrefixLen)) false isText result parent
        exact p1.trans (ih _ _ _ _ _ h)
    · simp only [Option.some.injEq, Prod.mk.injEq] at h
      obtain ⟨e1, e2⟩ := h; subst e1; subst e2
      exact linkText_same (List.drop start data) atomic isText result parent

theorem ppTop_same {st : St} {data : Str} {atomic : Bool} {parent : Node} {isText : Bool} {res : List Node}
    {parent' : Node} (h : ppTop st data atomic parent isText = some (res, parent')) : Same isText parent parent' := by
  unfold ppTop at h
  simp only [processPlaceholders] at h
  split at h
  · simp only [Option.some.injEq, Prod.mk.injEq] at h
    obtain ⟨_, e2⟩ := h; subst e2
    exact Same.refl _ _
  · exact ppLoop_same _ _ _ _ _ _ _ _ _ _ _ h

/-! ### the children loop -/

/-- a child without a (truthy) tail: nothing is inserted after it, and it stays without a tail -/
theorem visitChildX_tail {xc : InlineX.XCfg} {child : Node} {v : VisitX} {c : Node} {tr : List Node} {v' : VisitX}
    (h : visitChildX xc child v = some (c, tr, v')) :
    v'.done = v.done ∧ (Node.truthy child.tail = false → tr = [] ∧ Node.truthy c.tail = false) := by
  unfold visitChildX at h
  simp only [] at h
  split at h
  · cases h
  · rename_i c1 lst x1 hr1
    have q1 : c1.tail = child.tail := by
      split at hr1
      · split at hr1
        · cases hr1
        · split at hr1
          · cases hr1
          · rename_i l c' hp
            simp only [Option.some.injEq, Prod.mk.injEq] at hr1
            obtain ⟨e1, e2, e3⟩ := hr1; subst e1; subst e2; subst e3
            exact (ppTop_same hp).tail rfl
      · simp only [Option.some.injEq, Prod.mk.injEq] at hr1
        obtain ⟨e1, e2, e3⟩ := hr1; subst e1; subst e2; subst e3
        rfl
    split at h
    · cases h
    · rename_i c2 tr' x2 hr2
      simp only [Option.some.injEq, Prod.mk.injEq] at h
      obtain ⟨e1, e2, e3⟩ := h; subst e1; subst e2; subst e3
      refine ⟨by split <;> rfl, ?_⟩
      intro hf
      have hf1 : Node.truthy c1.tail = false := by rw [q1]; exact hf
      split at hr2
      · rename_i htl
        rw [hf1] at htl; cases htl
      · simp only [Option.some.injEq, Prod.mk.injEq] at hr2
        obtain ⟨e1, e2, e3⟩ := hr2; subst e1; subst e2; subst e3
        exact ⟨rfl, hf1⟩

theorem visitLoopX_tails (xc : InlineX.XCfg) :
    ∀ (g : Nat) (todo : List (Node × Option Nat)) (v v' : VisitX), visitLoopX xc g todo v = some v' →
      (∀ x ∈ todo, Node.truthy x.1.tail = false) → (∀ n ∈ v.done, Node.truthy n.tail = false) →
      ∀ n ∈ v'.done, Node.truthy n.tail = false := by
  intro g
  induction g with
  | zero => intro todo v v' h; simp [visitLoopX] at h
  | succ g ih =>
    intro todo v v' h htodo hdone
    cases todo with
    | nil =>
      simp only [visitLoopX, Option.some.injEq] at h; subst h
      exact hdone
    | cons x todo =>
      obtain ⟨child, orig⟩ := x
      simp only [visitLoopX] at h
      split at h
      · cases h
      · rename_i c tr v1 hv
        obtain ⟨q1, q2⟩ := visitChildX_tail hv
        obtain ⟨u1, u2⟩ := q2 (htodo (child, orig) List.mem_cons_self)
        subst u1
        refine ih _ _ _ h ?_ ?_
        · intro y hy
          simp only [List.map_nil, List.nil_append] at hy
          exact htodo y (List.mem_cons_of_mem _ hy)
        · intro n hn
          rcases List.mem_cons.1 hn with e | hn
          · subst e; exact u2
          · rw [q1] at hn; exact hdone n hn

/-! ### paths -/

/-- replacing the element at a path by one with the same tail keeps the tail of the tree's root -/
theorem setAt_tail {root cur new : Node} (p : Path) (h : getAt root p = some cur) (e : new.tail = cur.tail) :
    (setAt root p new).tail = root.tail := by
  cases p with
  | nil => rw [NoCtl.getAt_nil] at h; cases h; rw [NoCtl.setAt_nil]; exact e
  | cons i p =>
    rw [NoCtl.setAt_cons]
    split <;> rfl

/-- the step of `runLoopX`: the text, the tail and `textAtomic` of the root stay; its children keep their tails, except
    that for the path `[]` they are the new children -/
theorem setAt_root {root cur : Node} (p : Path) (cs : List Node) (h : getAt root p = some cur)
    (hr : ∀ c ∈ root.children, Node.truthy c.tail = false)
    (hcs : p = [] → ∀ c ∈ cs, Node.truthy c.tail = false) :
    (∀ c ∈ (setAt root p { cur with children := cs }).children, Node.truthy c.tail = false) ∧
      (setAt root p { cur with children := cs }).text = root.text ∧
      (setAt root p { cur with children := cs }).tail = root.tail ∧
      (setAt root p { cur with children := cs }).textAtomic = root.textAtomic := by
  cases p with
  | nil =>
    rw [NoCtl.getAt_nil] at h; cases h
    rw [NoCtl.setAt_nil]
    exact ⟨hcs rfl, rfl, rfl, rfl⟩
  | cons i p =>
    rw [NoCtl.getAt_cons] at h
    rw [NoCtl.setAt_cons]
    cases hc : root.children[i]? with
    | none => simp [hc] at h
    | some c =>
      simp only [hc] at h ⊢
      refine ⟨?_, by first | trivial | exact ⟨rfl, rfl, rfl⟩⟩
      intro d hd
      rcases List.mem_or_eq_of_mem_set hd with hd | rfl
      · exact hr d hd
      · rw [setAt_tail (new := { cur with children := cs }) p h rfl]
        exact hr c (List.mem_of_getElem? hc)

theorem runLoopX_root (xc : InlineX.XCfg) (g2 : Nat) :
    ∀ (g : Nat) (root : Node) (stack : List Path) (x : XSt) (root' : Node) (x' : XSt),
      runLoopX xc g2 g root stack x = some (root', x') →
      (∀ c ∈ root.children, Node.truthy c.tail = false) →
      (∀ c ∈ root'.children, Node.truthy c.tail = false) ∧ root'.text = root.text ∧ root'.tail = root.tail ∧
        root'.textAtomic = root.textAtomic := by
  intro g
  induction g with
  | zero => intro root stack x root' x' h; simp [runLoopX] at h
  | succ g ih =>
    intro root stack x root' x' h hr
    cases stack with
    | nil =>
      simp only [runLoopX, Option.some.injEq, Prod.mk.injEq] at h
      obtain ⟨e, _⟩ := h; subst e; exact ⟨hr, rfl, rfl, rfl⟩
    | cons p stack =>
      simp only [runLoopX] at h
      split at h
      · exact ih _ _ _ _ _ h hr
      · rename_i cur hcur
        split at h
        · cases h
        · rename_i v hv
          obtain ⟨s1, s2, s3, s4⟩ := setAt_root p v.done.reverse hcur hr (by
            intro hp
            subst hp
            rw [NoCtl.getAt_nil] at hcur; cases hcur
            have q := visitLoopX_tails xc g2 _ { x := x } v hv
              (fun y hy => hr y.1 (Vocab2.withIdx_fst _ _ _ hy)) (by intro n hn; cases hn)
            exact fun c hc => q c (List.mem_reverse.1 hc))
          obtain ⟨r1, r2, r3, r4⟩ := ih _ _ _ _ _ h s1
          exact ⟨r1, r2.trans s2, r3.trans s3, r4.trans s4⟩

/-- **the inline stage leaves the text, the tail and `textAtomic` of the root alone, and no top-level child gets a
    tail** when none had one -/
theorem runX_root_tails {xc : InlineX.XCfg} {root : Node} {html : List Str} {t : Node} {x : InlineX.XSt}
    (h : InlineX.runX xc root html = some (t, x))
    (hnt : ∀ c ∈ root.children, Node.truthy c.tail = false) :
    (∀ c ∈ t.children, Node.truthy c.tail = false) ∧ t.text = root.text ∧ t.tail = root.tail ∧
      t.textAtomic = root.textAtomic := by
  unfold runX at h
  exact runLoopX_root xc _ _ _ _ _ _ _ h hnt

end MdVerif.VocabXWF
