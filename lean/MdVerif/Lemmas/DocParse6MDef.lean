/-
Helper definitions for C01 with inline links AND inline images in one line (`Props/C01i.lean`, last part): a line
`C₀ U₁ C₁ … Uₘ Cₘ` where every `Uᵢ` is an inline link `[T](d)` (`IUse` of `Lemmas/RefTextInlLine.lean`) or an inline
image `![alt](d)` (`MUse` of `Lemmas/DocParse6Def.lean`), at every stage of the inline pattern loop.  The link pattern
(3) runs over the whole line before the image pattern (4): the `<a>` elements of all links (each after the emphases of
its text) stand in the stash before the `<img>` elements of all images — the stash is not in document order, the
placeholders in the line are.  Core Lean only.
-/
import MdVerif.Lemmas.DocParse6Loop

namespace MdVerif.DocMix
open Py Inline Escape DocSpec CodeLaw DocParse Block DocParse2 RefText DocLink DocImg

/-- a link or an image, with the content after it -/
inductive GUse where
  | lk (u : IUse)
  | im (u : DocImg.MUse)

def GUse.C : GUse → Chunk
  | .lk u => u.C
  | .im u => u.C

/-- escapes in the text part (an alt text has none: it stays as it is) -/
def GUse.tEscs (esc : List Char) : GUse → Nat
  | .lk u => u.T.escs esc
  | .im _ => 0

/-- items of class `k` in the text part -/
def GUse.tCnt (k : Nat) : GUse → Nat
  | .lk u => u.T.cnt k
  | .im _ => 0

structure GUseOK (esc : List Char) (g : GUse) : Prop where
  lk : ∀ u, g = .lk u → IUseOK esc u
  im : ∀ u, g = .im u → DocImg.MUseOK esc u

/-- `[text](dest)` / `![alt](dest)` at level `lv` -/
def GUse.head (esc : List Char) (lv : Nat) (pe : Bool) (m n0 : Nat) : GUse → Str
  | .lk u => '[' :: (u.T.stage esc lv pe m n0 0 0 ++ closerI u)
  | .im u => openerM u

/-- the uses with the content after each, after the classes below `lv` have been taken out (as `usStageI`) -/
def gStage (esc : List Char) (lv : Nat) (pe : Bool) : Nat → Nat → List GUse → Str
  | _, _, [] => []
  | m, n0, g :: r =>
    g.head esc lv pe m n0 ++ (g.C.stage esc lv pe (m + g.tEscs esc) (n0 + g.tCnt 0) 0 0 ++
      gStage esc lv pe (m + g.tEscs esc + g.C.escs esc) (n0 + g.tCnt 0 + g.C.cnt 0) r)

/-- the source of the line -/
def gRaw (esc : List Char) (C0 : Chunk) (gs : List GUse) : Str := C0.raw esc ++ gStage esc 0 false 0 0 gs

def gCnt0 : List GUse → Nat
  | [] => 0
  | g :: r => g.tCnt 0 + g.C.cnt 0 + gCnt0 r

def gNodes0 : List GUse → List StashItem
  | [] => []
  | .lk u :: r => nodesOf 0 u.T.segs ++ (nodesOf 0 u.C.segs ++ gNodes0 r)
  | .im u :: r => nodesOf 0 u.C.segs ++ gNodes0 r

def gEscs (esc : List Char) : List GUse → Nat
  | [] => 0
  | g :: r => g.tEscs esc + g.C.escs esc + gEscs esc r

def gEscStash (esc : List Char) : List GUse → List StashItem
  | [] => []
  | .lk u :: r => u.T.escStash esc ++ (u.C.escStash esc ++ gEscStash esc r)
  | .im u :: r => u.C.escStash esc ++ gEscStash esc r

def gOutCnt (k : Nat) : List GUse → Nat
  | [] => 0
  | g :: r => g.C.cnt k + gOutCnt k r

/-- the line after the first content once the link pattern has run (escapes are placeholders, code spans are out): the
    links are placeholders — the `<a>` element of a link stands behind the emphases of its text, `s` is the size of the
    stash before the link —, the images are still source -/
def gStageL (esc : List Char) : Nat → Nat → Nat → List GUse → Str
  | _, _, _, [] => []
  | m, n0, s, .lk u :: r =>
    placeholder (s + u.T.cnt 1 + u.T.cnt 2) ++ (u.C.stage esc 1 true (m + u.T.escs esc) (n0 + u.T.cnt 0) 0 0 ++
      gStageL esc (m + u.T.escs esc + u.C.escs esc) (n0 + u.T.cnt 0 + u.C.cnt 0) (s + u.T.cnt 1 + u.T.cnt 2 + 1) r)
  | m, n0, s, .im u :: r =>
    openerM u ++ (u.C.stage esc 1 true m n0 0 0 ++ gStageL esc (m + u.C.escs esc) (n0 + u.C.cnt 0) s r)

/-- what the link pattern adds to the stash: for each link the emphases of its text (found by the nested call), then
    its `<a>` element -/
def gLinkStash (esc : List Char) : Nat → Nat → Nat → List GUse → List StashItem
  | _, _, _, [] => []
  | m, n0, s, .lk u :: r =>
    nodesOf 1 u.T.segs ++ (nodesOf 2 u.T.segs ++
      (.node (InlineRef.linkEl u.url (titleOf u.dtitle) (u.T.stage esc 3 true m n0 s (s + u.T.cnt 1))) ::
        gLinkStash esc (m + u.T.escs esc + u.C.escs esc) (n0 + u.T.cnt 0 + u.C.cnt 0) (s + u.T.cnt 1 + u.T.cnt 2 + 1) r))
  | m, n0, s, .im u :: r => gLinkStash esc (m + u.C.escs esc) (n0 + u.C.cnt 0) s r

def gLinkLen : List GUse → Nat
  | [] => 0
  | .lk u :: r => u.T.cnt 1 + u.T.cnt 2 + 1 + gLinkLen r
  | .im _ :: r => gLinkLen r

/-- the `<img>` elements, left to right -/
def gImgs : List GUse → List StashItem
  | [] => []
  | .lk _ :: r => gImgs r
  | .im u :: r => .node (imgNode u) :: gImgs r

def gImgLen : List GUse → Nat
  | [] => 0
  | .lk _ :: r => gImgLen r
  | .im _ :: r => gImgLen r + 1

/-- what is left of the uses once patterns 3 and 4 have run: the placeholder of the `<a>` element (`s`: the running
    size of the stash during the link pass) or of the `<img>` element (`t`: the running number during the image pass),
    then the content after the use -/
def gOuter (esc : List Char) : Nat → Nat → Nat → Nat → List GUse → List OItem
  | _, _, _, _, [] => []
  | m, n0, s, t, .lk u :: r =>
    ⟨s + u.T.cnt 1 + u.T.cnt 2, u.C, m + u.T.escs esc, n0 + u.T.cnt 0⟩ ::
      gOuter esc (m + u.T.escs esc + u.C.escs esc) (n0 + u.T.cnt 0 + u.C.cnt 0) (s + u.T.cnt 1 + u.T.cnt 2 + 1) t r
  | m, n0, s, t, .im u :: r =>
    ⟨t, u.C, m, n0⟩ :: gOuter esc (m + u.C.escs esc) (n0 + u.C.cnt 0) s (t + 1) r

/-- first escape, first entry of the link pass, first image, first `*` emphasis, first `_` emphasis in the stash -/
def mStartG (s0 : Nat) (C0 : Chunk) (gs : List GUse) : Nat := s0 + C0.cnt 0 + gCnt0 gs
def lStartG (esc : List Char) (s0 : Nat) (C0 : Chunk) (gs : List GUse) : Nat :=
  mStartG s0 C0 gs + C0.escs esc + gEscs esc gs
def iStartG (esc : List Char) (s0 : Nat) (C0 : Chunk) (gs : List GUse) : Nat := lStartG esc s0 C0 gs + gLinkLen gs
def o1StartG (esc : List Char) (s0 : Nat) (C0 : Chunk) (gs : List GUse) : Nat := iStartG esc s0 C0 gs + gImgLen gs
def o2StartG (esc : List Char) (s0 : Nat) (C0 : Chunk) (gs : List GUse) : Nat :=
  o1StartG esc s0 C0 gs + C0.cnt 1 + gOutCnt 1 gs

def lineOuterG (esc : List Char) (s0 : Nat) (C0 : Chunk) (gs : List GUse) : List OItem :=
  gOuter esc (mStartG s0 C0 gs + C0.escs esc) (s0 + C0.cnt 0) (lStartG esc s0 C0 gs) (iStartG esc s0 C0 gs) gs

def lineLinksG (esc : List Char) (s0 : Nat) (C0 : Chunk) (gs : List GUse) : List StashItem :=
  gLinkStash esc (mStartG s0 C0 gs + C0.escs esc) (s0 + C0.cnt 0) (lStartG esc s0 C0 gs) gs

/-- what `__handleInline` returns for the line: every item and every use a placeholder -/
def gRes (esc : List Char) (s0 : Nat) (C0 : Chunk) (gs : List GUse) : Str :=
  C0.stage esc 3 true (mStartG s0 C0 gs) s0 (o1StartG esc s0 C0 gs) (o2StartG esc s0 C0 gs) ++
    outStage esc 3 (o1StartG esc s0 C0 gs + C0.cnt 1) (o2StartG esc s0 C0 gs + C0.cnt 2) (lineOuterG esc s0 C0 gs)

/-- what it adds to the stash: the code spans, the escapes, the entries of the link pass, the `<img>` elements, the `*`
    emphases, the `_` emphases of the contents -/
def gStash (esc : List Char) (s0 : Nat) (C0 : Chunk) (gs : List GUse) : List StashItem :=
  (nodesOf 0 C0.segs ++ gNodes0 gs) ++ ((C0.escStash esc ++ gEscStash esc gs) ++ (lineLinksG esc s0 C0 gs ++
    (gImgs gs ++ ((nodesOf 1 C0.segs ++ outNodes 1 (lineOuterG esc s0 C0 gs)) ++
      (nodesOf 2 C0.segs ++ outNodes 2 (lineOuterG esc s0 C0 gs))))))

/-- **what the pattern loop does on the line** (proved in `Lemmas/DocParse6MLoop.lean`; the stages after the loop take
    it as a hypothesis) -/
def LoopOKG (cfg : Inline.Cfg) (C0 : Chunk) (gs : List GUse) : Prop :=
  ∀ st : St, handleInlineTop cfg (gRaw cfg.esc C0 gs) st =
    some (gRes cfg.esc st.stash.length C0 gs,
      { st with stash := st.stash ++ gStash cfg.esc st.stash.length C0 gs })

/-- the children the uses give: each `<a>` element (with the items of the link text as children) or `<img>` element
    with the text after it as tail, then the items of that content -/
def gKids (esc : List Char) : List GUse → List Node
  | [] => []
  | .lk u :: r => { aNode esc u.url (titleOf u.dtitle) u.T with tail := optStr (coded esc u.C.t0) } ::
      (u.C.segs.map (tailedM esc) ++ gKids esc r)
  | .im u :: r => { imgNode u with tail := optStr (coded esc u.C.t0) } :: (u.C.segs.map (tailedM esc) ++ gKids esc r)

/-- the `<p>` / `<h1>` … `<h6>` element (tag `tg`) after the inline processor -/
def gMid (tg : Str) (esc : List Char) (C0 : Chunk) (gs : List GUse) : Node :=
  { tag := .name tg, text := optStr (coded esc C0.t0), children := C0.segs.map (tailedM esc) ++ gKids esc gs }

def gOutU : GUse → Str
  | .lk u => aOpen u.url (titleOf u.dtitle) ++ (u.T.out ++ (aClose ++ u.C.out))
  | .im u => imgHtml u ++ u.C.out

def gOutS : List GUse → Str
  | [] => []
  | g :: r => gOutU g ++ gOutS r

theorem gOutS_cons (g : GUse) (r : List GUse) : gOutS (g :: r) = gOutU g ++ gOutS r := rfl
theorem gOutS_nil : gOutS [] = [] := rfl

/-- the output of the element -/
def gOut (tg : Str) (C0 : Chunk) (gs : List GUse) : Str :=
  '<' :: tg ++ ['>'] ++ (C0.out ++ gOutS gs) ++ ('<' :: '/' :: tg ++ ['>'])

end MdVerif.DocMix
