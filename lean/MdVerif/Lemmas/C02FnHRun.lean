/-
SECOND PORT, STRONGER TOKEN: this file is `Lemmas/C02FnRun.lean` in the namespace `MdVerif.TokH`, over the string invariant
of `Lemmas/C02FnHStr.lean`, in which a complete escape token `STX d₁…d_k ETX` must have a value below 0x110000 AND
DIFFERENT FROM 2 (`TokH.chrOk`), so that `UnescapeTreeprocessor.unescape` never writes an STX.  The one place where tokens
are created (the escape pattern, `findMatch_S` in `Lemmas/C02FnHPat.lean`) needs that STX is no escapable character:
`RefsS cfg` is the old statement together with `cfg.esc.contains Inline.STX = false`.  Header of the file copied:

PORT for `Props/C02Fn.lean` (footnotes): this file is `Lemmas/C02BigRun.lean` in the namespace `MdVerif.TokH`, over the
string invariant of `Lemmas/C02FnStr.lean`, in which an STX may be followed by `k`, `w`, **`q`, `z`** (`TokH.gl`: the two
tokens of the footnotes extension, `STX zz…qq ETX` and `STX qq…zz ETX`) or by a complete escape token.  The proofs are
those of the original up to the case splits on the letter.  Original header:

Lemmas for `Props/C02Big.lean` (the `err` answer is unreachable), part 3: the inline engine.

Mirror of `Lemmas/AmpFullRun.lean` for the stronger invariant of `Lemmas/C02BigStr.lean`: `applyPattern`,
`handleInline`, `processPlaceholders` and the tree walk of `InlineProcessor.run` keep "every STX is followed by `k`, `w`
or a complete token below 0x110000" in every text, tail and stashed string, and the same up to truncation at the end in
every attribute value — for any fuels, any `ESCAPED_CHARS`.

Core Lean only.
-/
import MdVerif.Lemmas.C02FnHPat

namespace MdVerif.TokH
open Py Inline

/-! ### `applyPattern`, `handleInline` -/

theorem placeholder_sok (i : Nat) : SOk (placeholder i) = true := by
  have : placeholder i = STX :: 'k' :: ("lzzwxh:".toList ++ pad4 i ++ [ETX]) := by
    simp [placeholder, phPrefix]
  rw [this]
  refine SOk_stx_letter (Or.inl rfl) ?_
  intro hm
  rcases List.mem_append.1 hm with hm | hm
  · rcases List.mem_append.1 hm with hm | hm
    · revert hm; decide
    · rw [pad4_eq] at hm
      rcases List.mem_append.1 hm with hm | hm
      · have := (List.mem_replicate.1 hm).2
        revert this; decide
      · have := natToDec_digits i _ hm
        revert this; decide
  · revert hm; decide

theorem pyDrop_sok {data : Str} (h : SOk data = true) (i : Int) : SOk (pyDrop data i) = true := SOk_drop h _

def HIS (hi : HI) : Prop :=
  ∀ d p st d' st', hi d p st = some (d', st') → SOk d = true → StashS st.stash →
    SOk d' = true ∧ StashS st'.stash

theorem hiOpt_S {hi : HI} (hhi : HIS hi) {t t' : Option Str} {atomic : Bool} {pi : Nat} {st st' : St}
    (h : hiOpt hi t atomic pi st = some (t', st')) (ht : SOk (t.getD []) = true) (hs : StashS st.stash) :
    SOk (t'.getD []) = true ∧ StashS st'.stash := by
  unfold hiOpt at h
  split at h
  · split at h
    · rename_i d st1 hh
      simp only [Option.some.injEq, Prod.mk.injEq] at h
      obtain ⟨h1, h2⟩ := h; subst h1; subst h2
      exact hhi _ _ _ _ _ hh ht hs
    · cases h
  · simp only [Option.some.injEq, Prod.mk.injEq] at h
    obtain ⟨h1, h2⟩ := h; subst h1; subst h2
    exact ⟨ht, hs⟩

theorem hiNode_S {hi : HI} (hhi : HIS hi) {pi : Nat} {n n' : Node} {st st' : St}
    (h : hiNode hi pi n st = some (n', st')) (hn : NodeS n) (hs : StashS st.stash) :
    NodeS n' ∧ n'.children = n.children ∧ StashS st'.stash := by
  unfold hiNode at h
  split at h
  · cases h
  · rename_i t st1 h1
    split at h
    · cases h
    · rename_i tl st2 h2
      simp only [Option.some.injEq, Prod.mk.injEq] at h
      obtain ⟨e1, e2⟩ := h; subst e1; subst e2
      obtain ⟨a1, a2⟩ := hiOpt_S hhi h1 hn.1 hs
      obtain ⟨b1, b2⟩ := hiOpt_S hhi h2 hn.2.1 a2
      exact ⟨⟨a1, b1, hn.2.2⟩, rfl, b2⟩

theorem hiNode_forall {hi : HI} (hhi : HIS hi) {pi : Nat} {n n' : Node} {st st' : St}
    (h : hiNode hi pi n st = some (n', st')) (hn : n.Forall NodeS) (hs : StashS st.stash) :
    n'.Forall NodeS ∧ StashS st'.stash := by
  rw [Node.forall_iff] at hn ⊢
  obtain ⟨a, b, c⟩ := hiNode_S hhi h hn.1 hs
  exact ⟨⟨a, by rw [b]; exact hn.2⟩, c⟩

theorem hiNodes_S {hi : HI} (hhi : HIS hi) (pi : Nat) :
    ∀ (ns : List Node) (st : St) (ns' : List Node) (st' : St), hiNodes hi pi ns st = some (ns', st') →
      (∀ n ∈ ns, n.Forall NodeS) → StashS st.stash → (∀ n ∈ ns', n.Forall NodeS) ∧ StashS st'.stash := by
  intro ns
  induction ns with
  | nil =>
    intro st ns' st' h _ hs
    simp only [hiNodes, Option.some.injEq, Prod.mk.injEq] at h
    obtain ⟨e1, e2⟩ := h; subst e1; subst e2
    exact ⟨by simp, hs⟩
  | cons n r ih =>
    intro st ns' st' h hn hs
    simp only [hiNodes] at h
    split at h
    · cases h
    · rename_i n1 st1 h1
      split at h
      · cases h
      · rename_i r1 st2 h2
        simp only [Option.some.injEq, Prod.mk.injEq] at h
        obtain ⟨e1, e2⟩ := h; subst e1; subst e2
        obtain ⟨a1, a2⟩ := hiNode_forall hhi h1 (hn n List.mem_cons_self) hs
        obtain ⟨b1, b2⟩ := ih _ _ _ h2 (fun m hm => hn m (List.mem_cons_of_mem _ hm)) a2
        refine ⟨?_, b2⟩
        intro m hm
        rcases List.mem_cons.1 hm with rfl | hm
        · exact a1
        · exact b1 m hm

theorem elStep_S {hi : HI} (hhi : HIS hi) {pi : Nat} {n n' : Node} {st st' : St}
    (h : Vocab2.elStep hi pi n st = some (n', st')) (hn : n.Forall NodeS) (hs : StashS st.stash) :
    n'.Forall NodeS ∧ StashS st'.stash := by
  unfold Vocab2.elStep at h
  split at h
  · simp only [Option.some.injEq, Prod.mk.injEq] at h
    obtain ⟨e1, e2⟩ := h; subst e1; subst e2
    exact ⟨hn, hs⟩
  · split at h
    · cases h
    · rename_i n1 st3 h1
      split at h
      · cases h
      · rename_i kids st4 h2
        simp only [Option.some.injEq, Prod.mk.injEq] at h
        obtain ⟨e1, e2⟩ := h; subst e1; subst e2
        rw [Node.forall_iff] at hn
        obtain ⟨a1, _, a3⟩ := hiNode_S hhi h1 (n := { n with children := [] }) hn.1 hs
        obtain ⟨b1, b2⟩ := hiNodes_S hhi _ _ _ _ _ h2 hn.2 a3
        refine ⟨?_, b2⟩
        rw [Node.forall_iff]
        exact ⟨a1, b1⟩

def APS (ap : Nat → Str → Nat → St → Option (Str × Bool × Nat × St)) : Prop :=
  ∀ pi d si st d' m si' st', ap pi d si st = some (d', m, si', st') → SOk d = true → StashS st.stash →
    SOk d' = true ∧ StashS st'.stash

theorem applyPattern_S {cfg : Cfg} (hrefs : RefsS cfg) {hi : HI} (hhi : HIS hi) :
    APS (applyPattern cfg hi) := by
  intro pi data si st d' m si' st' h hd hs
  rw [Vocab2.applyPattern_eq] at h
  split at h
  · cases h
  · rename_i st1 hf
    simp only [Option.some.injEq, Prod.mk.injEq] at h
    obtain ⟨e1, _, _, e⟩ := h; subst e; subst e1
    rw [Vocab2.findMatch_none_stash _ _ _ _ _ _ hf]; exact ⟨hd, hs⟩
  · rename_i f st1 hf
    have hfm := (Vocab2.findMatch_ok _ _ _ _ _ _ _ hf).1
    have hs1 : StashS st1.stash := by rw [hfm]; exact hs
    obtain ⟨c1, c2⟩ := findMatch_S hrefs hd hs hf
    have hsplice : ∀ i, SOk (data.take f.start ++ placeholder i ++ pyDrop data f.stop) = true := fun i =>
      SOk_append (SOk_append (SOk_take hd _ c1) (placeholder_sok i)) (pyDrop_sok hd _)
    split at h
    · simp only [Option.some.injEq, Prod.mk.injEq] at h
      obtain ⟨e1, _, _, e⟩ := h; subst e; subst e1; exact ⟨hd, hs1⟩
    · rename_i s hnode
      rw [hnode] at c2
      simp only [stashNode, Option.some.injEq, Prod.mk.injEq] at h
      obtain ⟨e1, _, _, e⟩ := h; subst e; subst e1
      exact ⟨hsplice _, stashS_push hs1 c2⟩
    · rename_i n hnode
      rw [hnode] at c2
      split at h
      · cases h
      · rename_i n' st2 hr
        simp only [stashNode, Option.some.injEq, Prod.mk.injEq] at h
        obtain ⟨e1, _, _, e⟩ := h; subst e; subst e1
        obtain ⟨q1, q2⟩ := elStep_S hhi hr c2 hs1
        exact ⟨hsplice _, stashS_push q2 q1⟩

theorem hiLoop_S {ap : Nat → Str → Nat → St → Option (Str × Bool × Nat × St)} (hap : APS ap) :
    ∀ (g : Nat) (data : Str) (pi si : Nat) (st : St) (d' : Str) (st' : St),
      hiLoop ap g data pi si st = some (d', st') → SOk data = true → StashS st.stash →
      SOk d' = true ∧ StashS st'.stash := by
  intro g
  induction g with
  | zero => intro data pi si st d' st' h; simp [hiLoop] at h
  | succ g ih =>
    intro data pi si st d' st' h hd hs
    simp only [hiLoop] at h
    split at h
    · split at h
      · cases h
      · rename_i d m si1 st1 h1
        obtain ⟨a, b⟩ := hap _ _ _ _ _ _ _ _ h1 hd hs
        exact ih _ _ _ _ _ _ h a b
    · simp only [Option.some.injEq, Prod.mk.injEq] at h
      obtain ⟨e1, e⟩ := h; subst e; subst e1; exact ⟨hd, hs⟩

theorem handleInline_S {cfg : Cfg} (hrefs : RefsS cfg) :
    ∀ (f : Nat), HIS (handleInline cfg f) := by
  intro f
  induction f with
  | zero => intro d p st d' st' h; simp [handleInline] at h
  | succ f ih =>
    intro d p st d' st' h hd hs
    simp only [handleInline] at h
    exact hiLoop_S (applyPattern_S hrefs ih) _ _ _ _ _ _ _ h hd hs

theorem handleInlineTop_S {cfg : Cfg} (hrefs : RefsS cfg) {data : Str} {st : St} {d' : Str}
    {st' : St} (h : handleInlineTop cfg data st = some (d', st')) (hd : SOk data = true) (hs : StashS st.stash) :
    SOk d' = true ∧ StashS st'.stash :=
  handleInline_S hrefs _ _ _ _ _ _ h hd hs

/-! ### `processPlaceholders` -/

/-- a cut behind a dead placeholder prefix `STX klzzwxh:` -/
theorem SOk_dead_prefix {pre post : Str} (h : SOk (pre ++ phPrefix ++ post) = true) :
    SOk (pre ++ phPrefix) = true := by
  rw [List.append_assoc] at h
  have h1 : SOk pre = true := SOk_left h (fun c hc => by
    simp only [phPrefix, List.cons_append, List.head?_cons, Option.some.injEq] at hc; subst hc; decide)
  exact SOk_append h1 (by decide)

theorem forallS_setTail {n : Node} (h : n.Forall NodeS) {t : Str} (ht : SOk t = true) (a : Bool) :
    ({ n with tail := some t, tailAtomic := a } : Node).Forall NodeS := by
  rw [Node.forall_iff] at h ⊢
  exact ⟨⟨h.1.1, ht, h.1.2.2⟩, h.2⟩

theorem forallS_tail {n : Node} (h : n.Forall NodeS) : SOk (n.tail.getD []) = true :=
  ((Node.forall_iff NodeS n).1 h).1.2.1

theorem forallS_text {n : Node} (h : n.Forall NodeS) : SOk (n.text.getD []) = true :=
  ((Node.forall_iff NodeS n).1 h).1.1

theorem linkText_S (text : Str) (atomic isText : Bool) (result : List Node) (parent : Node)
    (ht : SOk text = true) (hr : ∀ n ∈ result, n.Forall NodeS) (hp : parent.Forall NodeS) :
    (∀ n ∈ (linkText text atomic isText result parent).1, n.Forall NodeS) ∧
      (linkText text atomic isText result parent).2.Forall NodeS := by
  unfold linkText
  split
  · exact ⟨hr, hp⟩
  · split
    · rename_i l r
      have hl := hr l List.mem_cons_self
      have hrest : ∀ n ∈ r, n.Forall NodeS := fun n hn => hr n (List.mem_cons_of_mem _ hn)
      split
      · refine ⟨?_, hp⟩
        intro n hn
        rcases List.mem_cons.1 hn with e | hn
        · subst e; exact forallS_setTail hl (SOk_append (forallS_tail hl) ht) _
        · exact hrest n hn
      · refine ⟨?_, hp⟩
        intro n hn
        rcases List.mem_cons.1 hn with e | hn
        · subst e; exact forallS_setTail hl ht _
        · exact hrest n hn
    · split
      · split
        · exact ⟨by simp, forallS_setTail hp (SOk_append (forallS_tail hp) ht) _⟩
        · exact ⟨by simp, forallS_setTail hp ht _⟩
      · split
        · exact ⟨by simp, forallS_setText hp (SOk_append (forallS_text hp) ht) _⟩
        · exact ⟨by simp, forallS_setText hp ht _⟩

def NestedS (nested : Node → Option Node) : Prop :=
  ∀ n n', n.Forall NodeS → nested n = some n' → n'.Forall NodeS

theorem slice_eq_drop_take (data : Str) (a n : Nat) : slice data a (a + n) = (data.drop a).take n := by
  unfold slice
  rw [List.drop_take]
  congr 1
  omega

theorem ppLoop_S {stash : List StashItem} (hs : StashS stash) {nested : Node → Option Node}
    (hn : NestedS nested) {data : Str} (hd : SOk data = true) (atomic isText : Bool) :
    ∀ (g start : Nat) (result : List Node) (parent : Node) (res : List Node) (parent' : Node),
      (∀ n ∈ result, n.Forall NodeS) → parent.Forall NodeS →
      ppLoop stash nested data atomic isText g start result parent = some (res, parent') →
      (∀ n ∈ res, n.Forall NodeS) ∧ parent'.Forall NodeS := by
  intro g
  induction g with
  | zero => intro start result parent res parent' _ _ h; simp [ppLoop] at h
  | succ g ih =>
    intro start result parent res parent' hr hp h
    simp only [ppLoop] at h
    split at h
    · rename_i off hfind
      have hfind' : find phPrefix (data.drop start) = some off := by
        split at hfind
        · cases hfind
        · exact hfind
      obtain ⟨pre, post, e1, e2, _⟩ := find_some_iff.1 hfind'
      have hsuf : SOk (pre ++ phPrefix ++ post) = true := by rw [← e1]; exact SOk_drop hd start
      -- the text in front of the placeholder
      have hpiece1 : SOk (slice data start (start + off)) = true := by
        rw [slice_eq_drop_take, e1, ← e2, List.append_assoc, List.take_left]
        rw [List.append_assoc] at hsuf
        exact SOk_left hsuf (fun c hc => by
          simp only [phPrefix, List.cons_append, List.head?_cons, Option.some.injEq] at hc; subst hc; decide)
      -- … and up to the end of a dead prefix
      have hpiece2 : SOk (slice data start (start + off + phPrefixLen)) = true := by
        rw [Nat.add_assoc, slice_eq_drop_take, e1, ← e2]
        have : (pre ++ phPrefix ++ post).take (pre.length + phPrefixLen) = pre ++ phPrefix := by
          have : pre.length + phPrefixLen = (pre ++ phPrefix).length := by simp [phPrefix, phPrefixLen]
          rw [this, List.take_left]
        rw [this]
        exact SOk_dead_prefix hsuf
      have hpre : ∀ (c : Prop) [Decidable c] (t : Str), SOk t = true →
          (∀ n ∈ (if c then linkText t false isText result parent else (result, parent)).1, n.Forall NodeS) ∧
            (if c then linkText t false isText result parent else (result, parent)).2.Forall NodeS := by
        intro c _ t ht
        split
        · exact linkText_S _ _ _ _ _ ht hr hp
        · exact ⟨hr, hp⟩
      split at h
      · rename_i item hitem
        have hmem : item ∈ stash := by
          cases hid : (findPh data (start + off)).fst with
          | none => rw [hid] at hitem; cases hitem
          | some id => rw [hid] at hitem; exact stashGet_mem hitem
        have hit := hs item hmem
        have p1 := hpre (start + off > 0) (slice data start (start + off)) hpiece1
        split at h
        · rename_i n
          split at h
          · cases h
          · rename_i n' hn'
            have hg : n'.Forall NodeS := hn n n' hit hn'
            exact ih _ _ _ _ _ (fun m hm => by
              rcases List.mem_cons.1 hm with e | hm
              · subst e; exact hg
              · exact p1.1 m hm) p1.2 h
        · rename_i s
          have p2 := linkText_S s false isText _ _ hit p1.1 p1.2
          exact ih _ _ _ _ _ p2.1 p2.2 h
      · have p1 := linkText_S _ false isText result parent hpiece2 hr hp
        exact ih _ _ _ _ _ p1.1 p1.2 h
    · simp only [Option.some.injEq, Prod.mk.injEq] at h
      obtain ⟨e1, e2⟩ := h; subst e1; subst e2
      have p1 := linkText_S (List.drop start data) atomic isText result parent (SOk_drop hd _) hr hp
      exact ⟨fun n hn => p1.1 n (List.mem_reverse.1 hn), p1.2⟩

/-- the recursive call of `processPlaceholders` -/
def PPS (pp : PP) : Prop :=
  ∀ d a parent isText res parent', pp d a parent isText = some (res, parent') → SOk d = true →
    parent.Forall NodeS → (∀ n ∈ res, n.Forall NodeS) ∧ parent'.Forall NodeS

theorem forallS_clearTail {n : Node} (h : n.Forall NodeS) :
    ({ n with tail := none, tailAtomic := false } : Node).Forall NodeS := by
  rw [Node.forall_iff] at h ⊢
  exact ⟨⟨h.1.1, rfl, h.1.2.2⟩, h.2⟩

theorem forallS_clearText {n : Node} (h : n.Forall NodeS) :
    ({ n with text := none, textAtomic := false } : Node).Forall NodeS := by
  rw [Node.forall_iff] at h ⊢
  exact ⟨⟨rfl, h.1.2.1, h.1.2.2⟩, h.2⟩

theorem forallS_setChildren {n : Node} (h : n.Forall NodeS) {l : List Node} (hl : ∀ c ∈ l, c.Forall NodeS) :
    ({ n with children := l } : Node).Forall NodeS := by
  rw [Node.forall_iff] at h ⊢
  exact ⟨h.1, hl⟩

theorem forallS_children {n : Node} (h : n.Forall NodeS) : ∀ c ∈ n.children, c.Forall NodeS :=
  ((Node.forall_iff NodeS n).1 h).2

theorem petTail_S {pp : PP} (hpp : PPS pp) {c c' : Node} {res : List Node}
    (h : petTail pp c = some (c', res)) (hc : c.Forall NodeS) :
    c'.Forall NodeS ∧ ∀ n ∈ res, n.Forall NodeS := by
  unfold petTail at h
  split at h
  · split at h
    · rename_i r c1 hh
      simp only [Option.some.injEq, Prod.mk.injEq] at h
      obtain ⟨e1, e2⟩ := h; subst e1; subst e2
      have q := hpp _ _ _ _ _ _ hh (forallS_tail hc) (forallS_clearTail hc)
      exact ⟨q.2, q.1⟩
    · cases h
  · simp only [Option.some.injEq, Prod.mk.injEq] at h
    obtain ⟨e1, e2⟩ := h; subst e1; subst e2
    exact ⟨hc, by simp⟩

theorem petText_S {pp : PP} (hpp : PPS pp) {c c2 : Node} (h : petText pp c = some c2) (hc : c.Forall NodeS) :
    c2.Forall NodeS := by
  unfold petText at h
  split at h
  · split at h
    · rename_i r c1 hh
      simp only [Option.some.injEq] at h; subst h
      have q := hpp _ _ _ _ _ _ hh (forallS_text hc) (forallS_clearText hc)
      refine forallS_setChildren q.2 ?_
      intro x hx
      rcases List.mem_append.1 hx with hx | hx
      · exact q.1 x hx
      · exact forallS_children q.2 x hx
    · cases h
  · simp only [Option.some.injEq] at h; subst h
    exact hc

theorem procKids_S {pp : PP} (hpp : PPS pp) :
    ∀ (l l' : List Node), procKids pp l = some l' → (∀ n ∈ l, n.Forall NodeS) → ∀ n ∈ l', n.Forall NodeS := by
  intro l
  induction l with
  | nil => intro l' h _; simp only [procKids, Option.some.injEq] at h; subst h; simp
  | cons c r ih =>
    intro l' h hg
    simp only [procKids] at h
    split at h
    · cases h
    · rename_i c1 res h1
      split at h
      · cases h
      · rename_i c2 h2
        split at h
        · cases h
        · rename_i r' h3
          simp only [Option.some.injEq] at h; subst h
          have q1 := petTail_S hpp h1 (hg c List.mem_cons_self)
          have q2 := petText_S hpp h2 q1.1
          have q3 := ih _ h3 (fun n hn => hg n (List.mem_cons_of_mem _ hn))
          intro n hn
          rcases List.mem_cons.1 hn with rfl | hn
          · exact q2
          · rcases List.mem_append.1 hn with hn | hn
            · exact q1.2 n hn
            · exact q3 n hn

theorem procNode_S {pp : PP} (hpp : PPS pp) : NestedS (procNode pp) := by
  intro node n' hf h
  unfold procNode at h
  simp only [] at h
  split at h
  · cases h
  · rename_i n1 tailRes h1
    split at h
    · cases h
    · rename_i n2 h2
      split at h
      · cases h
      · rename_i kids h3
        simp only [Option.some.injEq] at h; subst h
        have hg0 : ({ node with children := [] } : Node).Forall NodeS := forallS_setChildren hf (by simp)
        have q1 := petTail_S hpp h1 hg0
        have q2 := petText_S hpp h2 q1.1
        have q3 := procKids_S hpp _ _ h3 (forallS_children hf)
        refine forallS_setChildren q2 ?_
        intro x hx
        rcases List.mem_append.1 hx with hx | hx
        · rcases List.mem_append.1 hx with hx | hx
          · exact forallS_children q2 x hx
          · exact q1.2 x hx
        · exact q3 x hx

theorem processPlaceholders_S {stash : List StashItem} (hs : StashS stash) :
    ∀ (f : Nat), PPS (processPlaceholders stash f) := by
  intro f
  induction f with
  | zero => intro d a parent isText res parent' h; simp [processPlaceholders] at h
  | succ f ih =>
    intro d a parent isText res parent' h hd hp
    simp only [processPlaceholders] at h
    split at h
    · simp only [Option.some.injEq, Prod.mk.injEq] at h
      obtain ⟨e1, e2⟩ := h; subst e1; subst e2
      exact ⟨by simp, hp⟩
    · exact ppLoop_S hs (procNode_S ih) hd a isText _ _ _ _ _ _ (by simp) hp h

theorem ppTop_S (st : St) (hs : StashS st.stash) : PPS (ppTop st) :=
  fun d a parent isText res parent' h => processPlaceholders_S hs _ d a parent isText res parent' h


/-! ### `run` -/

theorem visitChild_S {cfg : Cfg} (hrefs : RefsS cfg) {child : Node} {v : Visit} {c : Node}
    {tr : List Node} {v' : Visit} (h : visitChild cfg child v = some (c, tr, v')) (hc : child.Forall NodeS)
    (hs : StashS v.st.stash) :
    c.Forall NodeS ∧ (∀ t ∈ tr, t.Forall NodeS) ∧ StashS v'.st.stash ∧ v'.done = v.done := by
  unfold visitChild at h
  simp only [] at h
  split at h
  · cases h
  · rename_i c1 lst st1 hr1
    -- the text
    have q1 : StashS st1.stash ∧ (∀ t ∈ lst, t.Forall NodeS) ∧ c1.Forall NodeS := by
      split at hr1
      · split at hr1
        · cases hr1
        · rename_i data st2 hh
          obtain ⟨hd2, hs2⟩ := handleInlineTop_S hrefs hh (forallS_text hc) hs
          split at hr1
          · cases hr1
          · rename_i l c' hp
            simp only [Option.some.injEq, Prod.mk.injEq] at hr1
            obtain ⟨e1, e2, e3⟩ := hr1; subst e1; subst e2; subst e3
            have q := ppTop_S _ hs2 _ _ _ _ _ _ hp hd2 (forallS_clearText hc)
            exact ⟨hs2, q.1, q.2⟩
      · simp only [Option.some.injEq, Prod.mk.injEq] at hr1
        obtain ⟨e1, e2, e3⟩ := hr1; subst e1; subst e2; subst e3
        exact ⟨hs, by simp, hc⟩
    split at h
    · cases h
    · rename_i c2 tr' st2 hr2
      simp only [Option.some.injEq, Prod.mk.injEq] at h
      obtain ⟨e1, e2, e3⟩ := h; subst e1; subst e2; subst e3
      -- the tail
      have q2 : StashS st2.stash ∧ (∀ t ∈ tr', t.Forall NodeS) ∧ c2.Forall NodeS := by
        split at hr2
        · split at hr2
          · cases hr2
          · rename_i data st3 hh
            have hs3 : SOk data = true ∧ StashS st3.stash := by
              split at hh
              · simp only [Option.some.injEq, Prod.mk.injEq] at hh
                obtain ⟨e0, e⟩ := hh; subst e; subst e0; exact ⟨forallS_tail q1.2.2, q1.1⟩
              · exact handleInlineTop_S hrefs hh (forallS_tail q1.2.2) q1.1
            split at hr2
            · cases hr2
            · rename_i tr2 dumby hp
              simp only [Option.some.injEq, Prod.mk.injEq] at hr2
              obtain ⟨e1, e2, e3⟩ := hr2; subst e1; subst e2; subst e3
              have q := ppTop_S _ hs3.2 _ _ _ _ _ _ hp hs3.1 (nodeS_mkEl "d")
              refine ⟨hs3.2, q.1, ?_⟩
              split
              · rw [Node.forall_iff] at q1 ⊢
                exact ⟨⟨q1.2.2.1.1, forallS_tail (n := dumby) q.2, q1.2.2.1.2.2⟩, q1.2.2.2⟩
              · exact forallS_clearTail q1.2.2
        · simp only [Option.some.injEq, Prod.mk.injEq] at hr2
          obtain ⟨e1, e2, e3⟩ := hr2; subst e1; subst e2; subst e3
          exact ⟨q1.1, by simp, q1.2.2⟩
      refine ⟨?_, q2.2.1, ?_, ?_⟩
      · refine forallS_setChildren q2.2.2 ?_
        intro x hx
        rcases List.mem_append.1 hx with hx | hx
        · exact q1.2.1 x hx
        · exact forallS_children q2.2.2 x hx
      · split <;> exact q2.1
      · split <;> rfl

theorem visitLoop_S {cfg : Cfg} (hrefs : RefsS cfg) :
    ∀ (g : Nat) (todo : List (Node × Option Nat)) (v v' : Visit), visitLoop cfg g todo v = some v' →
      (∀ x ∈ todo, x.1.Forall NodeS) → (∀ n ∈ v.done, n.Forall NodeS) → StashS v.st.stash →
      (∀ n ∈ v'.done, n.Forall NodeS) ∧ StashS v'.st.stash := by
  intro g
  induction g with
  | zero => intro todo v v' h; simp [visitLoop] at h
  | succ g ih =>
    intro todo v v' h htodo hdone hs
    cases todo with
    | nil =>
      simp only [visitLoop, Option.some.injEq] at h; subst h
      exact ⟨hdone, hs⟩
    | cons x todo =>
      obtain ⟨child, orig⟩ := x
      simp only [visitLoop] at h
      split at h
      · cases h
      · rename_i c tr v1 hv
        have q := visitChild_S hrefs hv (htodo (child, orig) List.mem_cons_self) hs
        refine ih _ _ _ h ?_ ?_ q.2.2.1
        · intro y hy
          rcases List.mem_append.1 hy with hy | hy
          · obtain ⟨n, hn, e⟩ := List.mem_map.1 hy
            subst e; exact q.2.1 n hn
          · exact htodo y (List.mem_cons_of_mem _ hy)
        · intro n hn
          rcases List.mem_cons.1 hn with e | hn
          · subst e; exact q.1
          · rw [q.2.2.2] at hn; exact hdone n hn

theorem nodeS_children_irrel (n : Node) (l : List Node) (h : NodeS n) : NodeS { n with children := l } := h

theorem runLoop_S {cfg : Cfg} (hrefs : RefsS cfg) (g2 : Nat) :
    ∀ (g : Nat) (root : Node) (stack : List Path) (st : St) (root' : Node) (st' : St),
      runLoop cfg g2 g root stack st = some (root', st') → root.Forall NodeS → StashS st.stash →
      root'.Forall NodeS := by
  intro g
  induction g with
  | zero => intro root stack st root' st' h; simp [runLoop] at h
  | succ g ih =>
    intro root stack st root' st' h hd hs
    cases stack with
    | nil =>
      simp only [runLoop, Option.some.injEq, Prod.mk.injEq] at h
      obtain ⟨e, _⟩ := h; subst e; exact hd
    | cons p stack =>
      simp only [runLoop] at h
      split at h
      · exact ih _ _ _ _ _ h hd hs
      · rename_i cur hcur
        split at h
        · cases h
        · rename_i v hv
          have hcurS := NoCtl.forall_getAt hd hcur
          have q := visitLoop_S hrefs g2 _ { st := st } v hv
            (fun x hx => forallS_children hcurS x.1 (Vocab2.withIdx_fst _ _ _ hx))
            (by intro n hn; cases hn) hs
          refine ih _ _ _ _ _ h ?_ q.2
          refine NoCtl.forall_setAt nodeS_children_irrel hd ?_ hcur
          exact forallS_setChildren hcurS (fun n hn => q.1 n (List.mem_reverse.1 hn))

/-- **the inline stage keeps the invariant** in every text, tail and attribute value -/
theorem run_S {cfg : Cfg} (hrefs : RefsS cfg) {root : Node} {html : List Str} {t : Node}
    {st : St} (h : Inline.run cfg root html = some (t, st)) (hd : root.Forall NodeS) : t.Forall NodeS := by
  unfold Inline.run at h
  exact runLoop_S hrefs _ _ _ _ _ _ _ h hd stashS_nil


end MdVerif.TokH
