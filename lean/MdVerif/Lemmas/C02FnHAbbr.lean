/-
Helper lemmas for C02 (footnotes on, the STX-token invariant `TokH.NodeS`): `AbbrTreeprocessor` keeps `TokH.NodeS` provided
no abbreviation starts with a character that may follow an STX (`TokH.cutOk`: no ASCII digit, not `k w q z`, not ETX) and
no abbreviation holds an STX; and it keeps the names invariant `C02Names.NamesOk` unconditionally.

* `segs_cut` — the cut positions of `finditer`: the text in front of the first occurrence is a prefix of what is left behind
  the skipped characters, and it ends at the end or in front of the first character of a key; every key found is one of
  `keys`; every text behind an occurrence is `SOk`;
* `mem_sortKeys` — `sortKeys` invents no key;
* `abbrNode_S`, `abbrKids_S`, `abbrRun_S'`, `abbrRun_S` — the walk;
* `abbrNode_names`, `abbrKids_names`, `abbrRun_names` — the names.
Without the hypothesis on the first characters the statement is false: with the abbreviation `42` the token `STX 42 ETX` of
`\*` is cut into `STX`, `<abbr>42</abbr>`, `ETX` (`C02BigAbbr.lean` has the weaker invariant that survives this).
Core Lean only.
-/
import MdVerif.Lemmas.C02FnHPat
import MdVerif.Lemmas.C02FnNames
import MdVerif.Lemmas.C02BigAbbr

namespace MdVerif.C02FnHAbbr
open Py AbbrTree
open C02BigNB (abbrAt_prefix abbrNode_eq piece forallL_append forallL_of_mem)

/-! ### the keys -/

theorem abbrAt_mem {keys : List Str} {prev : Option Char} {suf key : Str} (h : abbrAt keys prev suf = some key) :
    key ∈ keys ∧ key ≠ [] := by
  simp only [abbrAt] at h
  split at h
  · have h1 := List.find?_some h
    have h2 := List.mem_of_find?_eq_some h
    simp only [Bool.and_eq_true] at h1
    refine ⟨h2, ?_⟩
    intro e
    rw [e] at h1
    simp at h1
  · cases h

/-- the first character of a match is the first character of the key -/
theorem abbrAt_head {keys : List Str} {prev : Option Char} {c : Char} {r key : Str}
    (h : abbrAt keys prev (c :: r) = some key) : key.head? = some c := by
  have hp := abbrAt_prefix h
  have hne := (abbrAt_mem h).2
  obtain ⟨t, ht⟩ := hp
  cases key with
  | nil => exact absurd rfl hne
  | cons d ds =>
    simp only [List.cons_append, List.cons.injEq] at ht
    rw [ht.1]; rfl

theorem mem_insertByLen {x k : Str} : ∀ {l : List Str}, x ∈ insertByLen k l → x = k ∨ x ∈ l
  | [], h => by
    simp only [insertByLen, List.mem_singleton] at h
    exact Or.inl h
  | a :: r, h => by
    simp only [insertByLen] at h
    split at h
    · rcases List.mem_cons.1 h with h | h
      · exact Or.inr (by rw [h]; exact List.mem_cons_self)
      · rcases mem_insertByLen h with h | h
        · exact Or.inl h
        · exact Or.inr (List.mem_cons_of_mem _ h)
    · rcases List.mem_cons.1 h with h | h
      · exact Or.inl h
      · exact Or.inr h

theorem mem_foldl_insert {x : Str} : ∀ (l acc : List Str),
    x ∈ l.foldl (fun acc k => insertByLen k acc) acc → x ∈ acc ∨ x ∈ l
  | [], acc, h => Or.inl h
  | k :: r, acc, h => by
    simp only [List.foldl_cons] at h
    rcases mem_foldl_insert r _ h with h | h
    · rcases mem_insertByLen h with h | h
      · exact Or.inr (by rw [h]; exact List.mem_cons_self)
      · exact Or.inl h
    · exact Or.inr (List.mem_cons_of_mem _ h)

/-- **`sortKeys` invents no key** -/
theorem mem_sortKeys {x : Str} {l : List Str} (h : x ∈ sortKeys l) : x ∈ l := by
  unfold sortKeys at h
  rcases mem_foldl_insert l [] h with h | h
  · cases h
  · exact h

/-! ### the cuts -/

/-- **the cut positions of `finditer`** when every key starts with a character that continues no STX -/
theorem segs_cut {keys : List Str} (hk : ∀ key ∈ keys, ∀ c, key.head? = some c → TokH.cutOk c = true) :
    ∀ (s : Str) (prev : Option Char) (k : Nat), TokH.SOk s = true →
      (∃ rest, s.drop k = (segs keys prev k s).1 ++ rest ∧ ∀ c, rest.head? = some c → TokH.cutOk c = true) ∧
      ∀ m ∈ (segs keys prev k s).2, m.1 ∈ keys ∧ TokH.SOk m.2 = true := by
  intro s
  induction s with
  | nil =>
    intro prev k _
    refine ⟨⟨[], by simp [segs], by intro c h; cases h⟩, ?_⟩
    intro m hm
    simp [segs] at hm
  | cons c r ih =>
    intro prev k hs
    have hr : TokH.SOk r = true := TokH.SOk_right (a := [c]) hs
    cases k with
    | succ k =>
      simp only [segs, List.drop_succ_cons]
      exact ih (some c) k hr
    | zero =>
      simp only [segs, List.drop_zero]
      split
      · next key hkey =>
        refine ⟨⟨c :: r, rfl, ?_⟩, ?_⟩
        · intro d hd
          simp only [List.head?_cons, Option.some.injEq] at hd
          subst hd
          exact hk key (abbrAt_mem hkey).1 c (abbrAt_head hkey)
        · obtain ⟨⟨rest, h1, h2⟩, h3⟩ := ih (some c) (key.length - 1) hr
          intro m hm
          rcases List.mem_cons.1 hm with rfl | hm
          · refine ⟨(abbrAt_mem hkey).1, ?_⟩
            have hd : TokH.SOk (r.drop (key.length - 1)) = true := TokH.SOk_drop hr _
            rw [h1] at hd
            exact TokH.SOk_left hd h2
          · exact h3 m hm
      · obtain ⟨⟨rest, h1, h2⟩, h3⟩ := ih (some c) 0 hr
        rw [List.drop_zero] at h1
        exact ⟨⟨rest, by rw [List.cons_append, ← h1], h2⟩, h3⟩

/-- the text in front of the first occurrence -/
theorem segs_fst_S {keys : List Str} (hk : ∀ key ∈ keys, ∀ c, key.head? = some c → TokH.cutOk c = true)
    {s : Str} (hs : TokH.SOk s = true) : TokH.SOk (segs keys none 0 s).1 = true := by
  obtain ⟨⟨rest, h1, h2⟩, _⟩ := segs_cut hk s none 0 hs
  rw [List.drop_zero] at h1
  rw [h1] at hs
  exact TokH.SOk_left hs h2

/-! ### the STX-token invariant -/

theorem mkAbbr_S {abbrs : List (Str × Str)} (ht : ∀ kv ∈ abbrs, TokH.SOkA kv.2 = true) {m : Str × Str}
    (h1 : TokH.SOk m.1 = true) (h2 : TokH.SOk m.2 = true) : (mkAbbr abbrs m).Forall TokH.NodeS := by
  unfold mkAbbr
  simp only [Node.Forall, Node.ForallL, and_true]
  refine ⟨h1, h2, ?_⟩
  intro kv hkv
  simp only [List.mem_cons, List.not_mem_nil, or_false] at hkv
  subst hkv
  show TokH.SOkA (((abbrs.find? (fun kv => kv.1 = m.1)).map (·.2)).getD []) = true
  cases hf : abbrs.find? (fun kv => kv.1 = m.1) with
  | none => rfl
  | some kv => exact ht kv (List.mem_of_find?_eq_some hf)

theorem piece_S {abbrs : List (Str × Str)} (ht : ∀ kv ∈ abbrs, TokH.SOkA kv.2 = true) {keys : List Str}
    (hk : ∀ key ∈ keys, ∀ c, key.head? = some c → TokH.cutOk c = true) (hks : ∀ key ∈ keys, TokH.SOk key = true)
    (c : Bool) {s : Option Str} (a : Bool) (hs : TokH.SOk (s.getD []) = true) :
    TokH.SOk ((piece abbrs keys c s a).1.1.getD []) = true ∧ Node.ForallL TokH.NodeS (piece abbrs keys c s a).2 := by
  have h1 := segs_fst_S hk hs
  have h2 := (segs_cut hk (s.getD []) none 0 hs).2
  unfold piece
  split
  · split
    · exact ⟨hs, trivial⟩
    · refine ⟨h1, forallL_of_mem ?_⟩
      intro n hn
      obtain ⟨m, hm, rfl⟩ := List.mem_map.1 hn
      exact mkAbbr_S ht (hks m.1 (h2 m hm).1) (h2 m hm).2
  · exact ⟨hs, trivial⟩

mutual
theorem abbrNode_S {abbrs : List (Str × Str)} (ht : ∀ kv ∈ abbrs, TokH.SOkA kv.2 = true) {keys : List Str}
    (hk : ∀ key ∈ keys, ∀ c, key.head? = some c → TokH.cutOk c = true) (hks : ∀ key ∈ keys, TokH.SOk key = true)
    (isRoot : Bool) : (n : Node) → n.Forall TokH.NodeS →
      (abbrNode abbrs keys isRoot n).1.Forall TokH.NodeS ∧ Node.ForallL TokH.NodeS (abbrNode abbrs keys isRoot n).2
  | ⟨tag, attrs, text, ta, children, tail, tla⟩, h => by
    unfold Node.Forall at h
    obtain ⟨⟨h1, h2, h3⟩, hc⟩ := h
    have hkids := abbrKids_S ht hk hks children hc
    simp only at h1 h2 h3
    have htx := piece_S (abbrs := abbrs) ht hk hks (Node.truthy text && !ta) ta h1
    have htl := piece_S (abbrs := abbrs) ht hk hks (!isRoot && Node.truthy tail && !tla) tla h2
    rw [abbrNode_eq]
    refine ⟨?_, htl.2⟩
    show Node.Forall TokH.NodeS ⟨tag, attrs, _, _, _, _, _⟩
    unfold Node.Forall
    exact ⟨⟨htx.1, htl.1, h3⟩, forallL_append htx.2 hkids⟩
theorem abbrKids_S {abbrs : List (Str × Str)} (ht : ∀ kv ∈ abbrs, TokH.SOkA kv.2 = true) {keys : List Str}
    (hk : ∀ key ∈ keys, ∀ c, key.head? = some c → TokH.cutOk c = true) (hks : ∀ key ∈ keys, TokH.SOk key = true) :
    (l : List Node) → Node.ForallL TokH.NodeS l → Node.ForallL TokH.NodeS (abbrKids abbrs keys l)
  | [], _ => by simp only [abbrKids]; trivial
  | c :: r, h => by
    unfold Node.ForallL at h
    have hc := abbrNode_S ht hk hks false c h.1
    have hr := abbrKids_S ht hk hks r h.2
    simp only [abbrKids]
    show Node.ForallL TokH.NodeS
      ((abbrNode abbrs keys false c).1 :: ((abbrNode abbrs keys false c).2 ++ abbrKids abbrs keys r))
    unfold Node.ForallL
    exact ⟨hc.1, forallL_append hc.2 hr⟩
end

/-- **`AbbrTreeprocessor.run` keeps the STX-token invariant** when every abbreviation is itself `SOk` and starts with a
    character that continues no STX -/
theorem abbrRun_S' (abbrs : List (Str × Str))
    (hk : ∀ kv ∈ abbrs, ∀ c, kv.1.head? = some c → TokH.cutOk c = true)
    (hks : ∀ kv ∈ abbrs, TokH.SOk kv.1 = true)
    (ht : ∀ kv ∈ abbrs, TokH.SOkA kv.2 = true)
    {t : Node} (h : t.Forall TokH.NodeS) : (AbbrTree.run abbrs t).Forall TokH.NodeS := by
  unfold AbbrTree.run
  split
  · exact h
  · refine (abbrNode_S ht ?_ ?_ true t h).1
    · intro key hkey
      obtain ⟨kv, hkv, rfl⟩ := List.mem_map.1 (mem_sortKeys hkey)
      exact hk kv hkv
    · intro key hkey
      obtain ⟨kv, hkv, rfl⟩ := List.mem_map.1 (mem_sortKeys hkey)
      exact hks kv hkv

/-- **`AbbrTreeprocessor.run` keeps the STX-token invariant** provided no abbreviation starts with a character that may
    follow an STX (a digit, `k w q z`, ETX) and no abbreviation holds an STX -/
theorem abbrRun_S (abbrs : List (Str × Str))
    (hk : ∀ kv ∈ abbrs, ∀ c, kv.1.head? = some c → TokH.cutOk c = true)
    (hks : ∀ kv ∈ abbrs, TreeProc.STX ∉ kv.1)
    (ht : ∀ kv ∈ abbrs, TokH.SOkA kv.2 = true)
    {t : Node} (h : t.Forall TokH.NodeS) : (AbbrTree.run abbrs t).Forall TokH.NodeS :=
  abbrRun_S' abbrs hk (fun kv hkv => TokH.SOk_of_noSTX (hks kv hkv)) ht h

/-! ### the names -/

theorem mkAbbr_names (abbrs : List (Str × Str)) (m : Str × Str) : (mkAbbr abbrs m).Forall C02Names.NamesOk := by
  unfold mkAbbr
  simp only [Node.Forall, Node.ForallL, and_true]
  refine ⟨?_, ?_⟩
  · show NoCtl.NoCtl "abbr".toList
    decide
  · intro kv hkv
    simp only [List.mem_cons, List.not_mem_nil, or_false] at hkv
    subst hkv
    show TreeProc.STX ∉ "title".toList
    decide

theorem piece_names (abbrs : List (Str × Str)) (keys : List Str) (c : Bool) (s : Option Str) (a : Bool) :
    Node.ForallL C02Names.NamesOk (piece abbrs keys c s a).2 := by
  unfold piece
  split
  · split
    · trivial
    · refine forallL_of_mem ?_
      intro n hn
      obtain ⟨m, _, rfl⟩ := List.mem_map.1 hn
      exact mkAbbr_names abbrs m
  · trivial

mutual
theorem abbrNode_names (abbrs : List (Str × Str)) (keys : List Str) (isRoot : Bool) :
    (n : Node) → n.Forall C02Names.NamesOk →
      (abbrNode abbrs keys isRoot n).1.Forall C02Names.NamesOk ∧
        Node.ForallL C02Names.NamesOk (abbrNode abbrs keys isRoot n).2
  | ⟨tag, attrs, text, ta, children, tail, tla⟩, h => by
    unfold Node.Forall at h
    obtain ⟨h1, hc⟩ := h
    have hkids := abbrKids_names abbrs keys children hc
    have htx := piece_names abbrs keys (Node.truthy text && !ta) text ta
    have htl := piece_names abbrs keys (!isRoot && Node.truthy tail && !tla) tail tla
    rw [abbrNode_eq]
    refine ⟨?_, htl⟩
    show Node.Forall C02Names.NamesOk ⟨tag, attrs, _, _, _, _, _⟩
    unfold Node.Forall
    exact ⟨h1, forallL_append htx hkids⟩
theorem abbrKids_names (abbrs : List (Str × Str)) (keys : List Str) :
    (l : List Node) → Node.ForallL C02Names.NamesOk l → Node.ForallL C02Names.NamesOk (abbrKids abbrs keys l)
  | [], _ => by simp only [abbrKids]; trivial
  | c :: r, h => by
    unfold Node.ForallL at h
    have hc := abbrNode_names abbrs keys false c h.1
    have hr := abbrKids_names abbrs keys r h.2
    simp only [abbrKids]
    show Node.ForallL C02Names.NamesOk
      ((abbrNode abbrs keys false c).1 :: ((abbrNode abbrs keys false c).2 ++ abbrKids abbrs keys r))
    unfold Node.ForallL
    exact ⟨hc.1, forallL_append hc.2 hr⟩
end

/-- **`AbbrTreeprocessor.run` keeps the names**: the new elements are `abbr` with the attribute `title` -/
theorem abbrRun_names (abbrs : List (Str × Str)) {t : Node} (h : t.Forall C02Names.NamesOk) :
    (AbbrTree.run abbrs t).Forall C02Names.NamesOk := by
  unfold AbbrTree.run
  split
  · exact h
  · exact (abbrNode_names abbrs _ true t h).1

end MdVerif.C02FnHAbbr
