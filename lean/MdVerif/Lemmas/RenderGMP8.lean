/-
Helper lemmas for `Props/C16RenderG.lean`, part 39: the footnote definitions FIRST, then the paragraphs with the
references.

Core Lean only.
-/
import MdVerif.Lemmas.RenderGMP7
import MdVerif.Lemmas.RenderGAdm6

namespace MdVerif.RenderG
open Py Block BlockExt InlineX MdVerif.RenderX

/-- the source: the definition blocks, then the paragraph lines; separated by empty lines -/
def fnSrcF (defs : List (Str × Str)) (p0 : FPara) (pr : List FPara) : Str :=
  DocParse.joinChunks (defBlocks defs ++ (p0 :: pr).map fpLine)

theorem parseDocumentXT_fnF (cfg : BlockExt.XCfg) (hfo : cfg.footnotes = true) (tab : Nat) (htab : tab > 0)
    (defs : List (Str × Str)) (p0 : FPara) (pr : List FPara) (hp : ∀ p ∈ p0 :: pr, FParaOK p) (hd : DefsOK defs) :
    parseDocumentXT false cfg tab (fnSrcF defs p0 pr ++ ['\n', '\n']) =
      some (rootOf ((p0 :: pr).map (fun p => mkText "p" (fpLine p))), defEntries defs) := by
  have hall : ∀ b ∈ defBlocks defs ++ (p0 :: pr).map fpLine, Escape.noEmptyLineFrom true b = true ∧ b ≠ [] := by
    intro b hb
    rcases List.mem_append.1 hb with hb | hb
    · obtain ⟨d, hdm, rfl⟩ := List.mem_map.1 hb
      exact ⟨DocParse.nel_line _ (by simp [fnLine2]) (nl_not_mem_fnLine2 d.1 d.2 (hd.ids d hdm) (hd.notes d hdm)),
        by simp [fnLine2]⟩
    · obtain ⟨p, hpm, rfl⟩ := List.mem_map.1 hb
      have hL := paraLine_fnPara p.1 p.2 (hp p hpm).text (hp p hpm).segs
      exact ⟨DocParse.nel_line _ hL.ne hL.noNl, hL.ne⟩
  have hsplit := DocParse.splitS_chunks _ (by simp) (fun b hb => (hall b hb).1)
  have hlen : defs.length + (p0 :: pr).length ≤ (fnSrcF defs p0 pr).length := by
    have h1 := sum_le_joinChunks (defBlocks defs ++ (p0 :: pr).map fpLine)
    have h2 := length_le_sum_lines _ (fun b hb => (hall b hb).2)
    simp only [List.length_append, List.length_map, defBlocks] at h2
    simp only [fnSrcF, defBlocks]
    simp only [defBlocks] at h1
    omega
  obtain ⟨g, hg⟩ : ∃ g, fuelForX (fnSrcF defs p0 pr ++ ['\n', '\n']).length =
      ((g + 2) + (p0 :: pr).length) + defs.length := by
    refine ⟨fuelForX (fnSrcF defs p0 pr ++ ['\n', '\n']).length - (2 + (p0 :: pr).length + defs.length), ?_⟩
    simp only [fuelForX, List.length_append]
    omega
  simp only [parseDocumentXT, parseChunk]
  rw [show fnSrcF defs p0 pr = DocParse.joinChunks (defBlocks defs ++ (p0 :: pr).map fpLine) from rfl] at hg ⊢
  rw [hsplit, hg, show (Node.el "div" : Node) = rootOf [] from rfl, List.append_assoc,
    parseBlocksXT_defsM cfg hfo tab htab _ (p0 :: pr) hp defs [] _ hd,
    parse_fparas cfg tab htab (p0 :: pr) _ _ (g + 2) [[]] hp,
    parse_end cfg tab htab g _ _ (by
      intro c hc
      simp only [rootOf, Node.last?, Node.el, List.nil_append] at hc
      obtain ⟨p, _, rfl⟩ := List.mem_map.1 (List.mem_of_getLast? hc)
      exact preCode_p _)]
  simp

theorem convertX_fnF (x : PipelineX.Exts) (hfo : x.footnotes = true)
    (hf : x.fencedCode = false) (htb : x.tables = false) (hal : x.attrList = false) (htoc : x.toc = false)
    (cfg : Pipeline.Cfg) (hbl : cfg.blockLevel = TreeProc.defaultBlockLevel) (htab : 0 < cfg.tab)
    (defs : List (Str × Str)) (p0 : FPara) (pr : List FPara)
    (hp : ∀ p ∈ p0 :: pr, FParaOK p) (hd : DefsOK defs)
    (hne : defs ≠ []) (hnd : (defs.map (·.1)).Nodup) (hk : ∀ p ∈ p0 :: pr, ∀ s ∈ p.2, s.1 ∈ defs.map (·.1)) :
    PipelineX.convertX x cfg (fnSrcF defs p0 pr) = .ok (fnRenderP cfg.fmt (p0 :: pr) defs) := by
  obtain ⟨d0, dr, rfl⟩ : ∃ d0 dr, defs = d0 :: dr := by
    cases defs with
    | nil => exact absurd rfl hne
    | cons a b => exact ⟨a, b, rfl⟩
  -- the front
  have hbl0 : ∀ bl ∈ (defBlocks (d0 :: dr) ++ (p0 :: pr).map fpLine).map (fun b => [b]), bl ≠ [] := by
    intro bl h; obtain ⟨b, _, rfl⟩ := List.mem_map.1 h; simp
  have hsrc : fnSrcF (d0 :: dr) p0 pr =
      joinLines (chunkLines ((defBlocks (d0 :: dr) ++ (p0 :: pr).map fpLine).map (fun b => [b]))) := by
    rw [← joinChunks_joinLines _ hbl0, singles_join]; rfl
  have hfront := front_lines cfg.tab
    (chunkLines ((defBlocks (d0 :: dr) ++ (p0 :: pr).map fpLine).map (fun b => [b])))
    (by
      simp only [defBlocks, List.map_cons, List.cons_append]
      exact chunkLines_ne _ _ (by simp))
    (by
      intro l hl
      rcases mem_chunkLines _ l hl with rfl | ⟨bl, hbl', hlb⟩
      · exact safeLine_nil
      · obtain ⟨b, hb, rfl⟩ := List.mem_map.1 hbl'
        simp only [List.mem_singleton] at hlb
        subst hlb
        rcases List.mem_append.1 hb with h | h
        · obtain ⟨d, hdm, rfl⟩ := List.mem_map.1 h
          exact safeLine_fnLine2 d.1 d.2 (hd.ids d hdm) (hd.notes d hdm)
        · obtain ⟨p, hpm, rfl⟩ := List.mem_map.1 h
          exact safeLine_para _ (paraLine_fnPara p.1 p.2 (hp p hpm).text (hp p hpm).segs))
    ⟨'[', by
      rw [← hsrc]
      exact mem_joinChunks_of_mem _ (fnLine2 d0.1 d0.2) (by simp [defBlocks]) (by simp [fnLine2]), by decide⟩
  rw [← hsrc] at hfront
  have hblk := parseDocumentXT_fnF x.blockCfg (by simpa [PipelineX.Exts.blockCfg] using hfo) cfg.tab htab (d0 :: dr) p0 pr
    hp hd
  exact convertX_fnP_of x hfo hf htb hal htoc cfg hbl htab p0 pr (d0 :: dr) hp hd hne hnd hk
    (fnSrcF (d0 :: dr) p0 pr) hfront hblk

end MdVerif.RenderG
