/-
Lemmas for C05 on the extension model, well-formedness: the composition of the stage lemmas
(`VocabXWFBlock`, `VocabXWFInline`, `VocabXWFTree`) along `PipelineX.treeX`.

`treeX_WF_noFn`: admonition off (with it the block parser can put a paragraph INTO an `hr`:
`VocabXWF.admonition_void_witness`), footnotes off: the tree is `WF`, its root is the wrapper `div`, without attributes
when attr_list is off.  Core Lean only.
-/
import MdVerif.Lemmas.VocabXWFBlock
import MdVerif.Lemmas.VocabXWFInline
import MdVerif.Lemmas.VocabXWFTree
import MdVerif.Lemmas.VocabXWFBridge

namespace MdVerif.VocabXWF
open Py PipelineX

theorem blockCfg_adm (x : Exts) : x.blockCfg.admonition = x.admonition := rfl

/-- the stages after the inline stage (and the footnote duplicates): prettify, attr_list, abbr, toc, unescape -/
theorem lateStages_WF (x : Exts) (cfg : Pipeline.Cfg) (log : Block.Refs) (html html' : List Str) {t2 u : Node}
    (h : (match (if x.toc then
              TocTree.run { fmt := cfg.fmt, post := postX x cfg html } cfg.blockLevel
                (if x.abbr then AbbrTree.run (BlockExt.abbrsOf log)
                  (if x.attrList then AttrListTree.run cfg.blockLevel (TreeProc.prettify t2 cfg.blockLevel)
                    else TreeProc.prettify t2 cfg.blockLevel)
                 else (if x.attrList then AttrListTree.run cfg.blockLevel (TreeProc.prettify t2 cfg.blockLevel)
                    else TreeProc.prettify t2 cfg.blockLevel))
            else .ok (if x.abbr then AbbrTree.run (BlockExt.abbrsOf log)
                  (if x.attrList then AttrListTree.run cfg.blockLevel (TreeProc.prettify t2 cfg.blockLevel)
                    else TreeProc.prettify t2 cfg.blockLevel)
                 else (if x.attrList then AttrListTree.run cfg.blockLevel (TreeProc.prettify t2 cfg.blockLevel)
                    else TreeProc.prettify t2 cfg.blockLevel))) with
          | .oof => TreeResult.oof
          | .err => .err
          | .ood => .ood
          | .ok t => match TreeProc.unescapeTree t with
                     | none => .err
                     | some u => .ok u html) = .ok u html')
    (hw : WF t2) (htag : t2.tag = .name "div".toList) (hat : t2.attrs = []) :
    WF u ∧ u.tag = .name "div".toList ∧ (x.attrList = false → u.attrs = []) := by
  have h3 := prettify_WF hw cfg.blockLevel
  have h4 : ∀ t4, t4 = (if x.attrList then AttrListTree.run cfg.blockLevel (TreeProc.prettify t2 cfg.blockLevel)
      else TreeProc.prettify t2 cfg.blockLevel) →
      WF t4 ∧ t4.tag = .name "div".toList ∧ (x.attrList = false → t4.attrs = []) := by
    intro t4 e
    subst e
    split
    · rename_i hal
      have := attrRun_WF cfg.blockLevel h3.1
      exact ⟨this.1, this.2.trans (h3.2.1.trans htag), fun e => by rw [hal] at e; cases e⟩
    · exact ⟨h3.1, h3.2.1.trans htag, fun _ => h3.2.2.trans hat⟩
  generalize ht4 : (if x.attrList then AttrListTree.run cfg.blockLevel (TreeProc.prettify t2 cfg.blockLevel)
      else TreeProc.prettify t2 cfg.blockLevel) = t4 at h
  obtain ⟨w4, g4, a4⟩ := h4 t4 ht4.symm
  have h5 : ∀ t5, t5 = (if x.abbr then AbbrTree.run (BlockExt.abbrsOf log) t4 else t4) →
      WF t5 ∧ t5.tag = .name "div".toList ∧ (x.attrList = false → t5.attrs = []) := by
    intro t5 e
    subst e
    split
    · have := abbrRun_WF (BlockExt.abbrsOf log) w4
      exact ⟨this.1, this.2.1.trans g4, fun e => this.2.2.trans (a4 e)⟩
    · exact ⟨w4, g4, a4⟩
  generalize ht5 : (if x.abbr then AbbrTree.run (BlockExt.abbrsOf log) t4 else t4) = t5 at h
  obtain ⟨w5, g5, a5⟩ := h5 t5 ht5.symm
  split at h
  · cases h
  · cases h
  · cases h
  · rename_i t6 htoc
    have h6 : WF t6 ∧ t6.tag = .name "div".toList ∧ (x.attrList = false → t6.attrs = []) := by
      split at htoc
      · have := tocRun_WF _ _ htoc w5
        refine ⟨this.1, this.2.1.trans g5, fun e => (this.2.2 (by rw [g5]; decide)).trans (a5 e)⟩
      · simp only [TocTree.R.ok.injEq] at htoc; subst htoc; exact ⟨w5, g5, a5⟩
    split at h
    · cases h
    · rename_i u' hu
      simp only [TreeResult.ok.injEq] at h
      obtain ⟨rfl, _⟩ := h
      have := unescapeTree_WF hu h6.1
      refine ⟨this.1, this.2.1.trans h6.2.1, fun e => ?_⟩
      have e1 := this.2.2
      rw [h6.2.2 e] at e1
      simpa using e1

/-- **the tree handed to the serializer is well formed** (admonition and footnotes off) -/
theorem treeX_WF_noFn (x : Exts) (hadm : x.admonition = false) (hfn : x.footnotes = false) (cfg : Pipeline.Cfg)
    (src : Str) (u : Node) (html : List Str) (h : treeX x cfg src = .ok u html) :
    WF u ∧ u.tag = .name "div".toList ∧ (x.attrList = false → u.attrs = []) := by
  unfold treeX at h
  split at h
  · cases h
  · cases h
  · rename_i text stash hprep
    split at h
    · cases h
    · rename_i root log hparse
      obtain ⟨hw0, hg0, ha0⟩ := parseDocumentXT_WF (cfg := x.blockCfg) (by rw [blockCfg_adm]; exact hadm) hparse
      simp only [hfn, Bool.false_eq_true, if_false] at h
      split at h
      · cases h
      · rename_i t xs hrun
        obtain ⟨hw1, hg1, ha1⟩ := runX_WF hrun hw0
        exact lateStages_WF x cfg log xs.st.html html h hw1
          (hg1.trans hg0) (ha1.trans ha0)

end MdVerif.VocabXWF
